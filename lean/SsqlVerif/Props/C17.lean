/-
C17 — GLOBAL WINDOW fires a group exactly when TRIGGER WHEN holds, then restarts it.
Property theorems only; helper lemmas live in `Proofs/Global*.lean`.

All theorems hold for every query (any SELECT aggregates, any predicate built from comparisons of
count/sum/avg/min/max calls with literals under AND/OR, mentioning selected and unselected
aggregates any number of times), every row sequence (NULL, absent and non-numeric cells included),
every number of groups — and for *every* number type `ν` with the operations of `Global.Num`
(no laws needed: exact `Int`/`Rat` arithmetic and IEEE `Float` alike).

Two hypotheses appear, both decidable on the input:
* `KeysInj enc rows` — distinct group-key tuples of the input have distinct encodings.  For the code's
  encoder (`encGlobal`, the escaped `|`-join of `window/group_key.go`) this is a theorem, not a
  hypothesis: `keysInj_encGlobal` (from C04's injectivity proof), for every input whose key tuples have
  one arity — the number of GROUP BY columns.  The `…_global` corollaries state the property for it.
* `pointSafe p seg` / `NullSafe` — at the evaluation point every aggregate mentioned by the predicate
  is non-NULL, or the predicate is a conjunction without `!=`.  Outside, expr-lang's treatment of
  `nil` (`nil != x` is true; `nil < x` aborts the whole predicate) departs from SQL's three-valued
  logic; `global_fires_iff_fails`.
-/
import SsqlVerif.Proofs.GlobalRun
import SsqlVerif.Proofs.GlobalCount
import SsqlVerif.Proofs.GroupKey
import SsqlVerif.Generated.Facts
set_option autoImplicit false

namespace C17
open Global Global.Spec

variable {α κ φ ε ν : Type} [DecidableEq κ] [DecidableEq φ] [DecidableEq ε] [Num ν]

/-! ## firing -/

/-- Full strength, engine semantics: after the rows `pre`, the row `r` makes its group deliver a
result exactly when the engine's predicate evaluator says TRUE on the aggregates of `segAt` — the rows
of `r`'s group since that group last delivered, `r` included, and nothing else. -/
theorem global_fires_iff_engine (enc : κ → ε) (q : Query α φ ν) (pre : List (Row κ φ ν)) (r : Row κ φ ν)
    (hK : KeysInj enc (pre ++ [r])) :
    (outAt enc q pre r).isSome = engineTrue q.pred (segAt enc q pre r) := by
  rw [outAt_eq enc q pre r hK]; split <;> simp_all

/-- The property as stated (SQL truth of the predicate on the segment), at every null-safe point. -/
theorem global_fires_iff_partial (enc : κ → ε) (q : Query α φ ν) (pre : List (Row κ φ ν)) (r : Row κ φ ν)
    (hK : KeysInj enc (pre ++ [r])) (hsafe : pointSafe q.pred (segAt enc q pre r) = true) :
    (outAt enc q pre r).isSome = predTrue q.pred (segAt enc q pre r) := by
  rw [global_fires_iff_engine enc q pre r hK, engineTrue_eq_predTrue _ _ hsafe]

omit [DecidableEq κ] in
/-- the engine's evaluator is SQL's at every null-safe point (the lemma behind `_partial`) -/
theorem engine_eq_sql_of_safe (p : Pred φ ν) (seg : List (Row κ φ ν)) (h : pointSafe p seg = true) :
    engineTrue p seg = predTrue p seg :=
  engineTrue_eq_predTrue p seg h

/-- the unrestricted statement, at a concrete instantiation (keys, fields, aliases `Nat`; numbers `Int`) -/
def global_fires_iff_full : Prop :=
  ∀ (q : Query Nat Nat Int) (pre : List (Row Nat Nat Int)) (r : Row Nat Nat Int),
    KeysInj (id : Nat → Nat) (pre ++ [r]) →
    (outAt id q pre r).isSome = predTrue q.pred (segAt id q pre r)

/-- `SELECT COUNT( * ) … TRIGGER WHEN MIN(f0) != 3`: a row whose `f0` is NULL -/
def nullNeQuery : Query Nat Nat Int :=
  { outputs := [(0, ⟨.count, none⟩)], pred := .cmp ⟨.min, some 0⟩ .ne 3 }

def nullRow : Row Nat Nat Int := { key := 0, ts := 1, cells := [(0, .null)] }

/-- refutation witness: the engine fires (`nil != 3` is true in expr-lang) although `MIN(f0) != 3`
is UNKNOWN on a segment without a numeric `f0` -/
theorem global_fires_iff_fails : ¬ global_fires_iff_full := by
  intro h
  have := h nullNeQuery [] nullRow (by intro a ha b hb _; simp_all)
  revert this
  decide

/-- second witness class: `MAX(f0) > 5 OR COUNT( * ) >= 1` — SQL says TRUE, the engine aborts on
`nil > 5` and does not fire -/
def nullOrQuery : Query Nat Nat Int :=
  { outputs := [(0, ⟨.count, none⟩)],
    pred := .or (.cmp ⟨.max, some 0⟩ .gt 5) (.cmp ⟨.count, none⟩ .ge 1) }

example : (outAt id nullOrQuery [] nullRow).isSome = false ∧
    predTrue nullOrQuery.pred (segAt id nullOrQuery [] nullRow) = true := by decide

/-! ## the delivered result -/

/-- Full strength: whatever is delivered at `r` is the group columns of `r` and, for every SELECT
output, the aggregate of exactly `segAt` (plus the bounds: first and last row time of the segment). -/
theorem global_result_exact (enc : κ → ε) (q : Query α φ ν) (pre : List (Row κ φ ν)) (r : Row κ φ ν)
    (hK : KeysInj enc (pre ++ [r])) (res : Result κ ν) (h : outAt enc q pre r = some res) :
    res = expected q (segAt enc q pre r) r := by
  rw [outAt_eq enc q pre r hK] at h
  split at h <;> simp_all

/-! ## restart -/

omit [DecidableEq κ] in
/-- After a delivery at `r` the group is gone from the state … -/
theorem global_restart_state (enc : κ → ε) (q : Query α φ ν) (pre : List (Row κ φ ν)) (r : Row κ φ ν)
    (hfire : (outAt enc q pre r).isSome = true) :
    stateAfter enc q (pre ++ [r]) (enc r.key) = none := by
  simp only [stateAfter, stateFrom_append, stateFrom]
  simp only [outAt, stateAfter, step] at hfire
  simp only [step]
  split
  · simp [State.erase]
  · simp_all

/-- … and the next row `r'` of that group starts from empty: its segment is `[r']` alone, so it fires
iff the predicate holds on `[r']` and then delivers the aggregates of `[r']`. -/
theorem global_restart_empty (enc : κ → ε) (q : Query α φ ν) (pre : List (Row κ φ ν)) (r r' : Row κ φ ν)
    (hK : KeysInj enc (pre ++ [r] ++ [r'])) (hfire : (outAt enc q pre r).isSome = true)
    (hkey : r'.key = r.key) :
    segAt enc q (pre ++ [r]) r' = [r'] ∧
    (outAt enc q (pre ++ [r]) r').isSome = engineTrue q.pred [r'] ∧
    ∀ res, outAt enc q (pre ++ [r]) r' = some res → res = expected q [r'] r' := by
  have hseg : segAt enc q (pre ++ [r]) r' = [r'] := by
    have hlen : (run enc q pre).length = pre.length := runFrom_length enc q _ pre
    simp only [segAt, run_snoc, histOf, List.map_append, List.map_cons, List.map_nil]
    rw [List.zip_append (by simp [hlen])]
    simp [openSeg, hkey, hfire]
  refine ⟨hseg, ?_, ?_⟩
  · rw [global_fires_iff_engine enc q _ r' hK, hseg]
  · intro res h
    rw [global_result_exact enc q _ r' hK res h, hseg]

/-! ## isolation -/

/-- a row without fields -/
def rw' (k : Nat) : Row Nat Nat Int := { key := k, ts := 0, cells := [] }

/-- Under distinct encodings: the deliveries at the rows of group `k` in a run over `rows` are exactly
the deliveries of a run over the rows of group `k` alone — rows of other groups neither trigger nor
contribute. -/
theorem global_group_isolation_partial (enc : κ → ε) (q : Query α φ ν) (rows : List (Row κ φ ν))
    (hK : KeysInj enc rows) (k : κ) (hk : k ∈ rows.map (·.key)) :
    proj k rows (run enc q rows) = run enc q (rows.filter fun r => r.key = k) :=
  proj_runFrom enc q _ hK k hk rows (fun r hr => List.mem_map.mpr ⟨r, hr, rfl⟩) _ _ rfl

/-! ### the code's encoder: `KeysInj` holds for every input (string / NULL key parts, one arity) -/

omit [DecidableEq κ] [DecidableEq φ] [DecidableEq ε] [Num ν] in
/-- C04's injectivity of the escaped `|`-join discharges the hypothesis "encoded keys distinct":
("x|y","z") and ("x","y|z"), NULL and "" … all have different encodings. -/
theorem keysInj_encGlobal (n : Nat) (rows : List (Row (List KeyPart) φ ν))
    (harity : ∀ r ∈ rows, r.key.length = n) : KeysInj encGlobal rows := by
  intro k₁ h₁ k₂ h₂ he
  obtain ⟨r₁, hr₁, rfl⟩ := List.mem_map.mp h₁
  obtain ⟨r₂, hr₂, rfl⟩ := List.mem_map.mp h₂
  exact GroupKey.encWindow_injective _ _ _ (by rw [harity r₁ hr₁, harity r₂ hr₂]) he

/-- Isolation for the engine's encoder, no hypothesis on the key values: the deliveries at the rows
of group `k` are those of a run over the rows of group `k` alone. -/
theorem global_group_isolation (q : Query α φ ν) (n : Nat) (rows : List (Row (List KeyPart) φ ν))
    (harity : ∀ r ∈ rows, r.key.length = n) (k : List KeyPart) (hk : k ∈ rows.map (·.key)) :
    proj k rows (run encGlobal q rows) = run encGlobal q (rows.filter fun r => r.key = k) :=
  global_group_isolation_partial encGlobal q rows (keysInj_encGlobal n rows harity) k hk

/-- Firing and result for the engine's encoder, no hypothesis on the key values. -/
theorem global_fires_and_result_global (q : Query α φ ν) (n : Nat) (pre : List (Row (List KeyPart) φ ν))
    (r : Row (List KeyPart) φ ν) (harity : ∀ x ∈ pre ++ [r], x.key.length = n) :
    (outAt encGlobal q pre r).isSome = engineTrue q.pred (segAt encGlobal q pre r) ∧
    (pointSafe q.pred (segAt encGlobal q pre r) = true →
      (outAt encGlobal q pre r).isSome = predTrue q.pred (segAt encGlobal q pre r)) ∧
    ∀ res, outAt encGlobal q pre r = some res → res = expected q (segAt encGlobal q pre r) r :=
  have hK := keysInj_encGlobal n (pre ++ [r]) harity
  ⟨global_fires_iff_engine encGlobal q pre r hK,
   fun hs => global_fires_iff_partial encGlobal q pre r hK hs,
   fun res h => global_result_exact encGlobal q pre r hK res h⟩

def countGe2 : Query Nat Nat Int :=
  { outputs := [(0, ⟨.count, none⟩)], pred := .cmp ⟨.count, none⟩ .ge 2 }

/-- the tuples that shared a group before the C04 repair of the encoder -/
def collideRows : List (Row (List KeyPart) Nat Int) :=
  [ { key := [some ['x', '|', 'y'], some ['z']], ts := 1, cells := [] },
    { key := [some ['x'], some ['y', '|', 'z']], ts := 2, cells := [] },
    { key := [some ['x'], some ['y', '|', 'z']], ts := 3, cells := [] } ]

-- the second row no longer fires the first row's group; the third fires its own
example : (run encGlobal countGe2 collideRows).map (·.isSome) = [false, false, true] := by decide
example : encGlobal [some ['x', '|', 'y'], some ['z']] ≠ encGlobal [some ['x'], some ['y', '|', 'z']] := by decide
example : encGlobal [none] ≠ encGlobal [some []] := by decide

/-- a non-injective encoder does break isolation (why `KeysInj` is needed in the general theorem):
with the constant encoder the second row fires a group that its own rows alone would not fire -/
example : proj 1 [rw' 0, rw' 1] (run (fun _ : Nat => 0) countGe2 [rw' 0, rw' 1]) ≠
    run (fun _ : Nat => 0) countGe2 ([rw' 0, rw' 1].filter fun r => r.key = 1) := by decide

/-! ## binding of predicate aggregates -/

/-- A predicate aggregate is bound to a SELECT output only if that output computes the same call. -/
theorem trigger_binding_same_call (outs : List (α × AggCall φ)) (c : AggCall φ) (j : Nat)
    (h : findOutputSpec outs c = some j) : ∃ o, outs[j]? = some o ∧ o.2 = c :=
  findOutputSpec_some outs c j h

/-- Every placeholder of the rewritten predicate — read from a SELECT output's accumulator when bound,
from its own accumulator otherwise — holds the aggregate the call would compute itself over `segAt`. -/
theorem trigger_binding_sound (enc : κ → ε) (q : Query α φ ν) (pre : List (Row κ φ ν)) (r : Row κ φ ν)
    (hK : KeysInj enc (pre ++ [r])) :
    trigVals q (updated q (stateAfter enc q pre (enc r.key)) r) =
      q.pred.leaves.map fun c => aggOf c (segAt enc q pre r) := by
  have hinv := inv_stateAfter enc q _ hK pre (fun x hx => by
    simp only [List.map_append, List.mem_append, List.mem_map]; exact Or.inl ⟨x, hx, rfl⟩)
  rw [hinv r.key (by simp), updated_groupOf, trigVals_mkGroup]
  rfl

/-! ## whole traces: the oracle the driver runs on the implementation is satisfied by the model -/

theorem global_trace_partial (eqv : ν → ν → Bool) (hrefl : ∀ x, eqv x x = true) (bounds : Bool)
    (enc : κ → ε) (q : Query α φ ν) (rows : List (Row κ φ ν))
    (hK : KeysInj enc rows) (hsafe : NullSafe enc q rows = true) :
    holds eqv bounds q rows (run enc q rows) = true := by
  have := checkFrom_runFrom eqv hrefl bounds enc q _ hK rows (fun r hr => List.mem_map.mpr ⟨r, hr, rfl⟩) 0
    State.empty [] (inv_empty enc q _) hsafe
  simp [holds, run, runFrom_length, this]

/-- The trace specification leaves no slack: two delivery sequences accepted for the same query and
rows (values compared by equality, bounds included) are equal — so at null-safe inputs the
specification alone determines what must be delivered at every row. -/
theorem spec_determines_trace [DecidableEq ν] (q : Query α φ ν) (rows : List (Row κ φ ν))
    (outs₁ outs₂ : List (Option (Result κ ν)))
    (h₁ : holds (fun x y => decide (x = y)) true q rows outs₁ = true)
    (h₂ : holds (fun x y => decide (x = y)) true q rows outs₂ = true) : outs₁ = outs₂ := by
  simp only [holds, Bool.and_eq_true, decide_eq_true_eq, Option.isNone_iff_eq_none] at h₁ h₂
  exact checkFrom_unique q rows 0 [] outs₁ outs₂ h₁.1.symm h₂.1.symm h₁.2 h₂.2

/-! ## the aggregates themselves -/

/-- the running accumulators compute the list aggregates of the specification -/
theorem running_aggregate_eq (fn : AggFn) (cs : List (Cell ν)) :
    Acc.result fn (accCells fn cs) = aggList fn cs :=
  result_accCells fn cs

/-! ## a count trigger makes the global window a counting window -/

/-- `TRIGGER WHEN COUNT(*) >= n` (n ≥ 1), any SELECT aggregates, any number of interleaved groups, every history:
the rows of `r`'s group since its last delivery, `r` included, are never more than n; `r` makes the group deliver
exactly when they are n; and what is delivered then is every SELECT aggregate over exactly these n rows.  So each
group's deliveries are the consecutive chunks of n of its rows — the counting window of C09 — which is the shape
the global-window variants of the C03 / C04 correspondence cases compare with. -/
theorem count_trigger_is_counting_window (enc : κ → ε) (q : Query α φ Int) (n : Nat) (hn : 0 < n)
    (h : CountGe q n) (pre : List (Row κ φ Int)) (r : Row κ φ Int) (hK : KeysInj enc (pre ++ [r])) :
    (segAt enc q pre r).length ≤ n ∧
    ((outAt enc q pre r).isSome = true ↔ (segAt enc q pre r).length = n) ∧
    (∀ res, outAt enc q pre r = some res → res = expected q (segAt enc q pre r) r ∧ (segAt enc q pre r).length = n) := by
  have hlt := openSeg_lt enc q n hn h pre (injOn_prefix enc pre r hK) r.key
  have hlen : (segAt enc q pre r).length = (openSeg r.key (histOf pre (run enc q pre))).length + 1 := by
    simp [segAt]
  have hfire : (outAt enc q pre r).isSome = true ↔ (segAt enc q pre r).length = n := by
    rw [outAt_isSome enc q pre r hK, engineTrue_countGe q n h]
    simp only [decide_eq_true_eq]
    omega
  refine ⟨by omega, hfire, ?_⟩
  intro res hres
  refine ⟨global_result_exact enc q pre r hK res hres, hfire.mp (by simp [hres])⟩

/-- `SELECT COUNT( * ), SUM(f0) … TRIGGER WHEN COUNT( * ) >= 2` -/
def qCount2 : Query Nat Nat Int :=
  { outputs := [(0, ⟨.count, none⟩), (1, ⟨.sum, some 0⟩)], pred := .cmp countStar .ge 2 }

def crow (k : Nat) (t : Int) (v : Int) : Row Nat Nat Int := { key := k, ts := t, cells := [(0, .num v)] }

example : CountGe qCount2 2 := rfl
-- two interleaved groups: each delivers at its 2nd and 4th row, over exactly the two rows since its last delivery
example : (run id qCount2 [crow 0 1 1, crow 1 2 10, crow 1 3 20, crow 0 4 2, crow 0 5 3, crow 0 6 4]).map (·.map (·.vals)) =
    [none, none, some [some 2, some 30], some [some 2, some 3], none, some [some 2, some 7]] := by decide

/-! ## non-vacuity -/

def q1 : Query Nat Nat Int :=
  { outputs := [(0, ⟨.count, none⟩), (1, ⟨.sum, some 0⟩)],
    pred := .and (.cmp ⟨.count, none⟩ .ge 2) (.cmp ⟨.max, some 0⟩ .gt 5) }

def rw (k : Nat) (t : Int) (v : Int) : Row Nat Nat Int := { key := k, ts := t, cells := [(0, .num v)] }

-- group 0: 1, 2 (count met, max not), 9 fires with count 3 / sum 12; group 1 interleaved never fires;
-- then group 0 restarts: 7 alone does not fire (count 1)
example : (run id q1 [rw 0 1 1, rw 1 2 100, rw 0 3 2, rw 0 4 9, rw 0 5 7]).map (·.map (·.vals)) =
    [none, none, none, some [some 3, some 12], none] := by decide
example : segAt id q1 [rw 0 1 1, rw 1 2 100, rw 0 3 2] (rw 0 4 9) = [rw 0 1 1, rw 0 3 2, rw 0 4 9] := by decide
example : segAt id q1 [rw 0 1 1, rw 1 2 100, rw 0 3 2, rw 0 4 9] (rw 0 5 7) = [rw 0 5 7] := by decide
example : NullSafe id q1 [rw 0 1 1, rw 1 2 100, rw 0 3 2, rw 0 4 9, rw 0 5 7] = true := by decide
example : pointSafe q1.pred [nullRow] = true ∧ allNonNull q1.pred [nullRow] = false := by decide
example : findOutputSpec q1.outputs ⟨.count, none⟩ = some 0 ∧ findOutputSpec q1.outputs ⟨.max, some 0⟩ = none := by decide
example : aggList (ν := Int) .min [.num 4, .null, .junk, .num (-2), .missing] = some (-2) ∧
    aggList (ν := Int) .count [.num 4, .null, .junk, .num (-2), .missing] = some 3 ∧
    aggList (ν := Int) .sum [.null, .junk] = none := by decide
-- the theorems instantiate at exact rational arithmetic
example (q : Query Nat Nat Rat) (pre : List (Row Nat Nat Rat)) (r : Row Nat Nat Rat)
    (hK : KeysInj (id : Nat → Nat) (pre ++ [r])) :=
  global_fires_iff_engine id q pre r hK

end C17

/-! tie to the source (regenerated on every run from the repository by factsgen): the literals of
`getKeyAndValues` (no-key group name, `%v`) and the shared key-part separator / NULL token, the placeholder format of
`buildTrigger`, `*`/empty-argument handling, and the aggregate-call regular expression -/
theorem C17.facts_global_window :
    Facts.window_GlobalWindow_getKeyAndValues_strlits = ["__global__", "(", "%v"] ∧
    Facts.window_groupKeyPartSep = "|" ∧ Facts.window_groupKeyNullPart = "\\N" ∧
    Facts.window_GlobalWindow_buildTrigger_strlits.head? = some "__trig_%d__" ∧
    Facts.window_GlobalWindow_findAggCalls_strlits = ["*", "", "*"] ∧
    Facts.window_normalizeField_strlits = ["", "*"] ∧
    Facts.window_aggCallRe = "(?i)\\b([a-z_]+)\\s*\\(\\s*([^)]*?)\\s*\\)" := by decide
