/-
C20 — Caller data is never modified and instances do not influence each other.
Property theorems only; helper lemmas live in `Proofs/CallerRow.lean`.

`Caller.Work` carries the caller's map together with the engine's working map (`own = none` means the
working map *is* the caller's map — `Emit` does not copy).  Stages write through `Work.write`; what the
analytic engine, the expression bridge, the table lookup, WHERE and the projection compute is arbitrary
(`QEnv`), so every statement holds for every history of the instance's private state.
-/
import SsqlVerif.Proofs.CallerRow
import SsqlVerif.Spec.CallerRow
import SsqlVerif.Generated.Facts
set_option autoImplicit false

namespace C20
open Pipe Caller CallerSpec

/-- **The caller's row is left exactly as it was** — by the direct path (`EmitSync`, and `Emit` of a
non-window query: JOIN enrichment, analytic evaluation with injection of results / multi-column fan-out /
WHERE placeholders, filter, projection) and by the window path (JOIN enrichment, filter, injection of
computed group keys, `Window.Add`), for every query shape, every row and every behaviour of the abstract
evaluators. -/
theorem caller_row_unchanged (q : QCfg) (e : QEnv) (row : Row) :
    callerUntouched row (directStep q e row).1 ∧ callerUntouched row (windowStep q e row).1 := by
  rw [directStep_caller, windowStep_caller]
  exact ⟨sameMap_refl row, sameMap_refl row⟩

/-- the same as plain equalities (the form the driver prints) -/
theorem caller_row_unchanged_eq (q : QCfg) (e : QEnv) (row : Row) :
    (directStep q e row).1 = row ∧ (windowStep q e row).1 = row :=
  ⟨directStep_caller q e row, windowStep_caller q e row⟩

/-! non-vacuity: the model can express the defect.  With the copy removed (`evalAnalyticInPlace`, the code
before the repair) the query `SELECT id, lag(v) AS p … WHERE had_changed(true, v)` on `{id:1, v:5}` leaves
`p` and `__analytic_0__` in the caller's map; with the repaired stage it does not. -/
def exQ : QCfg := { hasJoin := false, analytic := [(['p'], false)], wherePlaceholders := [['_', '0']], groupFields := [] }
def exE : QEnv :=
  { joinRow := fun _ => none, analyticEval := fun _ => [(['p'], .null), (['_', '0'], .bool true)], fanOut := fun _ => [],
    whereP := fun _ => true, groupKeyEval := fun _ _ => some (.str ['A']), project := fun r _ => some r }
def exRow : Row := [(['i', 'd'], .int 1), (['v'], .int 5)]

theorem in_place_injection_reaches_the_caller :
    (lookupKey ['_', '0'] (evalAnalyticInPlace exQ exE { caller := exRow, own := none }).1.caller).isSome = true ∧
    (lookupKey ['_', '0'] (evalAnalytic exQ exE { caller := exRow, own := none }).1.caller).isSome = false := by
  decide

example : (lookupKey ['p'] (evalAnalyticInPlace exQ exE { caller := exRow, own := none }).1.caller).isSome = true := by decide
example : (keysOf (injectGroupKeysInPlace { exQ with groupFields := [['u', '(', 'k', ')']] } exE
    { caller := exRow, own := none }).caller).length = 3 := by decide
example : (keysOf (windowStep { exQ with groupFields := [['u', '(', 'k', ')']] } exE exRow).1).length = 2 := by decide

/-- **The repair is invisible to the rest of the pipeline**: WHERE, the projection and the window read the
same working map (with all injected values) and get the same analytic results as before the repair. -/
theorem repair_preserves_working_view (q : QCfg) (e : QEnv) (w : Work) :
    (evalAnalytic q e w).1.read = (evalAnalyticInPlace q e w).1.read ∧
    (evalAnalytic q e w).2 = (evalAnalyticInPlace q e w).2 ∧
    (injectGroupKeys q e w).read = (injectGroupKeysInPlace q e w).read :=
  ⟨(evalAnalytic_read q e w).1, (evalAnalytic_read q e w).2, injectGroupKeys_read q e w⟩

/-- **Rows handed to a sink are not altered afterwards.**  Result rows are objects the engine allocates;
a step writes only to objects it allocated itself and then delivers them.  In every reachable state every
object ever delivered still reads as it did at delivery, and the delivery log only grows. -/
theorem sink_rows_not_altered_later (steps : List RStep) :
    ∀ p ∈ (rrun {} steps).delivered, (rrun {} steps).heap[p.1]? = some p.2 :=
  rinv_run {} steps (by intro p hp; simp at hp)

theorem sink_rows_not_altered_later_prefix (steps more : List RStep) :
    ∀ p ∈ (rrun {} steps).delivered, (rrun (rrun {} steps) more).heap[p.1]? = some p.2 := by
  intro p hp
  have hinv := rinv_run (rrun {} steps) more (rinv_run {} steps (by intro p hp; simp at hp))
  obtain ⟨extra, he⟩ := delivered_mono (rrun {} steps) more
  exact hinv p (by rw [he]; exact List.mem_append_left _ hp)

example : (rrun {} [⟨[[(['a'], .int 1)]], [(0, ['b'], .int 2)]⟩, ⟨[[]], [(0, ['c'], .null), (7, ['x'], .null)]⟩]).delivered.length = 2 := by decide

section
variable {Ty Prog : Type} [DecidableEq Ty]

/-- **Cache transparency.**  If every entry of the process-wide program / preprocess caches is what the pure
functions would return (true of the empty caches and preserved by every use), evaluating an expression
through the caches returns what evaluating it without any cache returns, and leaves the caches consistent —
provided compilation is a function of (expression text, env type), i.e. the function registry is not
changed while instances run. -/
theorem cache_transparent (b : Bridge Ty Prog) (g : Shared Ty Prog) (hg : Consistent b g) (text : Str) (row : Row) :
    (evalCached b g text row).2 = evalPure b text row ∧ Consistent b (evalCached b g text row).1 :=
  evalCached_spec b g hg text row

/-- **Instances are independent.**  Two instances (same or different SQL, any private state, any per-row
behaviour) that touch process-wide state only through the expression bridge, fed in any interleaving:
each produces exactly the outputs it produces alone. -/
theorem instances_independent {σ τ : Type} (b : Bridge Ty Prog) (ia : Inst σ) (ib : Inst τ)
    (g : Shared Ty Prog) (hg : Consistent b g) (sa : σ) (sb : τ) (sched : List (Bool × Row)) :
    independent (runAlone b ia sa (rowsOf true sched)) (runBoth b ia ib g sa sb sched).1 ∧
    independent (runAlone b ib sb (rowsOf false sched)) (runBoth b ia ib g sa sb sched).2 :=
  runBoth_spec b ia ib sched g hg sa sb

/-- in particular from a cold start -/
theorem instances_independent_cold {σ τ : Type} (b : Bridge Ty Prog) (ia : Inst σ) (ib : Inst τ)
    (sa : σ) (sb : τ) (sched : List (Bool × Row)) :
    (runBoth b ia ib {} sa sb sched).1 = runAlone b ia sa (rowsOf true sched) :=
  (runBoth_spec b ia ib sched {} (consistent_empty b) sa sb).1
end

/-! non-vacuity of the cache theorems: an *inconsistent* cache does change results (so consistency is a real
hypothesis), and a program compiled for another env type is not reused -/
def exB : Bridge Bool Nat :=
  { prep := id, compile := fun t ty => some (t.length + (if ty then 100 else 0)), typeOf := fun r => r.isEmpty,
    run := fun p _ => .int p, fallback := fun _ _ => .null }
example : (match (evalCached exB { prog := [(['x'], (false, 7))] } ['x'] [(['a'], .null)]).2 with | .int n => n | _ => 0) = 7 := by decide
example : (match evalPure exB ['x'] [(['a'], .null)] with | .int n => n | _ => 0) = 1 := by decide
example : (match (evalCached exB { prog := [(['x'], (true, 7))] } ['x'] [(['a'], .null)]).2 with | .int n => n | _ => 0) = 1 := by decide

end C20

/-- tie to the source: a GROUP BY field is a computed key iff it contains `(` -/
theorem C20.facts_groupkey : Facts.stream_Stream_injectGroupKeyExprs_strlits = ["("] := by decide
