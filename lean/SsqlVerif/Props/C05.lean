import SsqlVerif.Spec.Pipeline
namespace C05
end C05
