/-
C05 — Non-aggregate queries are a stateless, ordered, row-wise filter and projection.
Property theorems only; helper lemmas live in `Proofs/Pipe*.lean`.

Reading guide.  `Pipe.*` is the model of the Go code (string-level: field specs are split at `:` outside
quotes, paths are split at dots, brackets are scanned, subscripts go through Atoi, …).  `PipeSpec.*` is
the declarative reading: a SELECT list is a list of items, a path is walked structurally, the result has
one column per item.  `toConfig` is the front end's output for such a list (tied to rsql by the
correspondence check).  WHERE is an arbitrary predicate on the row (`Env.whereP`); evaluating predicates
is the subject of C06/C12.
-/
import SsqlVerif.Proofs.PipeDirect
import SsqlVerif.Proofs.PipeDeliver
import SsqlVerif.Generated.Facts
set_option autoImplicit false

namespace C05
open Pipe PipeSpec

/-- **Field-path lookup is the structural walk.**  For every datum and every path of well-formed
components (identifier names, subscripts `[i]` with `i` any Go `int`, negative included, and `['k']`),
`fieldpath.GetNestedField` on the path's text — split on dots, bracket loop, `Atoi`, quote stripping —
finds exactly what walking the components finds, and never panics. -/
theorem fieldpath_eq_structural (data : Value) (f : Comp) (r : List Comp)
    (hf : compWF f = true) (hr : r.all compWF = true) :
    getNestedField data (renderPath f r) = .ok (walkComps data (f :: r)) :=
  getNestedField_render data f r hf hr

example : getNestedField (.map [(['a'], .list [.int 1, .map [(['k'], .str ['v'])]])])
    (renderPath ⟨['a'], [.idx (-1), .key ['k']]⟩ []) = .ok (some (.str ['v'])) := by rfl
example : compWF ⟨['a'], [.idx (-1), .key ['k']]⟩ = true := by decide

/-- the model's bracket loop never stops for lack of fuel (so the fuel is not a bound on inputs) -/
theorem bracket_loop_fuel_irrelevant (k : Nat) (rem : Str) (acc : List Part) :
    bracketLoop (rem.length + k) rem acc = bracketLoop rem.length rem acc :=
  bracketLoop_fuel k rem acc

/-- **Row-wise filter + projection (`EmitSync`).**  For every well-formed SELECT list with pairwise
distinct output names, every WHERE predicate, every row (a Go map: distinct keys): the row is filtered iff
WHERE is not true; otherwise a result is returned whose columns are exactly the selected ones, each once
(a permutation of the spec's column list — a Go map has no order), a missing source being NULL; the code
path never panics.  There is no state argument anywhere: the result is a function of (query, row). -/
theorem direct_eq_spec (env : Env) (items : List Item) (row : Row)
    (hne : items ≠ []) (hwf : itemsWF items = true) (hnd : (items.map outName).Nodup)
    (hrow : (keysOf row).Nodup) :
    match directSpec (passesWhere env) items row with
    | none => directSync (toConfig items) env row = .filtered
    | some cols => ∃ r, directSync (toConfig items) env row = .result r ∧ r.Perm cols := by
  unfold directSpec directSync
  cases hw : passesWhere env row with
  | false => simp
  | true =>
    simp only [if_true]
    unfold selectedColumns
    cases hstar : isStarOnly items with
    | true =>
      rw [projectDirectRow_star env items row hstar hrow]
      exact ⟨row, rfl, List.Perm.refl _⟩
    | false =>
      have hall : ∀ it ∈ items, itemWF it = true := by
        simp only [itemsWF, hstar, Bool.false_or] at hwf
        exact List.all_eq_true.mp hwf
      rw [projectDirectRow_items env items row hne hstar hall hnd]
      exact ⟨_, rfl, columns_perm items row⟩

/-! non-vacuity: a concrete query with alias, nested path, missing source, literal containing `:` -/
def exItems : List Item :=
  [ { src := .path ⟨['a'], []⟩ [⟨['b'], [.idx 0]⟩], alias := some ['x'] },
    { src := .path ⟨['z'], []⟩ [] },
    { src := .lit ['i', ':', 'q'] } ]
def exRow : Row := [(['a'], .map [(['b'], .list [.int 7])]), (['i'], .int 5)]
def exEnv (p : Option (Row → Bool)) : Env := { whereP := p, exprEval := fun _ _ => .null, unnest := fun r => [r], sortRows := id }
example : itemsWF exItems = true := by decide
example : directSpec (fun _ => true) exItems exRow =
    some [(['x'], .int 7), (['z'], .null), (['i', ':', 'q'], .str ['i', ':', 'q'])] := by rfl
example : (match directSync (toConfig exItems) (exEnv none) exRow with
    | .result r => r.length == 3 && (lookupKey ['x'] r).isSome | _ => false) = true := by decide
example : (match directSync (toConfig exItems) (exEnv (some fun _ => false)) exRow with
    | .filtered => true | _ => false) = true := by decide

/-- `Execute` accepts every well-formed list with pairwise distinct output names (the collision check of
`compileOutputNames` does not fire) … -/
theorem execute_accepts_distinct_names (items : List Item)
    (hwf : itemsWF items = true) (hnd : (items.map outName).Nodup) :
    checkOutputNames (toConfig items) = .ok () := by
  cases hstar : isStarOnly items with
  | true =>
    have hcfg : toConfig items = { simpleFields := [['*']], fieldExprs := [] } := by simp [toConfig, hstar]
    rw [hcfg]
    have hsel : (compileField ['*']).selectAll = true := by simp [compileField]
    simp [checkOutputNames, checkSimple, hsel, checkExprs]
  | false =>
    have hall : ∀ it ∈ items, itemWF it = true := by
      simp only [itemsWF, hstar, Bool.false_or] at hwf
      exact List.all_eq_true.mp hwf
    exact checkOutputNames_items items hstar hall hnd

/-- … and rejects two ordinary columns with one name (so the error branch is not totalised away) -/
example : checkOutputNames (toConfig [ { src := .path ⟨['a'], []⟩ [], alias := some ['x'] },
    { src := .path ⟨['b'], []⟩ [], alias := some ['x'] } ]) = .error ['x'] := by rfl

/-- **Sync and async paths agree.**  Without an unnest call the asynchronous pipeline (`Emit` →
`processDirectData`) sends exactly one one-row batch holding the row `EmitSync` returns, or nothing when
`EmitSync` returns nothing — for every configuration, every WHERE, every expression evaluator, with or
without ORDER BY. -/
theorem sync_async_same (cfg : Config) (env : Env) (row : Row) (hu : cfg.hasUnnest = false) :
    directAsync cfg env row =
      match directSync cfg env row with
      | .result r => [[r]]
      | .filtered => []
      | .panic => [] := by
  unfold directAsync directSync
  cases passesWhere env row with
  | false => simp
  | true =>
    simp only [if_true]
    cases projectDirectRow cfg env row with
    | error e => rfl
    | ok r =>
      simp only [expandUnnest, hu, Bool.false_eq_true, if_false, applyOrderBy]
      simp

example : directAsync (toConfig exItems) (exEnv none) exRow ≠ [] := by decide

/-- **Single-producer order.**  In every state reachable by any interleaving of producer (`Emit`),
consumer goroutine and channel reader:
* the input queue is FIFO: accepted rows = consumed rows followed by the queued ones, and the accepted
  rows are a subsequence of the emitted ones (rows are lost only to a full input buffer);
* the synchronous sinks have been invoked, batch by batch, in registration order, with exactly the
  results of the consumed rows in consumption order (each row's result computed from that row alone);
* what the channel's reader has received followed by what the channel still holds is a subsequence of
  those same results: drop-on-full removes batches but never reorders or invents one;
* the channel never exceeds its capacity. -/
theorem single_producer_order (cfg : Config) (env : Env) (dc : DCfg) (ops : List DOp) :
    let s := drun cfg env dc {} ops
    s.accepted = s.processed ++ s.inQ ∧
    s.accepted.Sublist (emitted ops) ∧
    s.sinkLog = (resultsOf cfg env s.processed).flatMap (sinkCalls dc.nSinks) ∧
    (s.received ++ s.chan).Sublist (resultsOf cfg env s.processed) ∧
    s.chan.length ≤ dc.chanCap := by
  have hinv := inv_run cfg env dc {} ops (inv_init cfg env dc)
  obtain ⟨extra, he, hs⟩ := accepted_sublist cfg env dc {} ops
  refine ⟨hinv.fifo, ?_, hinv.sinks, hinv.chanOrder, hinv.chanCap⟩
  rw [he]; simpa using hs

/-- each registered synchronous sink sees exactly the ordered results of the consumed rows -/
theorem each_sink_sees_ordered_results (cfg : Config) (env : Env) (dc : DCfg) (ops : List DOp)
    (i : Nat) (hi : i < dc.nSinks) :
    sinkView i (drun cfg env dc {} ops).sinkLog = resultsOf cfg env (drun cfg env dc {} ops).processed := by
  rw [(single_producer_order cfg env dc ops).2.2.1]
  exact sinkView_flatMap dc.nSinks i hi _

/-- the result channel's overflow handling keeps order in isolation, too -/
theorem channel_send_never_reorders (cap : Nat) (dropOldest : Bool) (ch : List Batch) (b : Batch) :
    (chanSend cap dropOldest ch b).Sublist (ch ++ [b]) :=
  chanSend_sublist cap dropOldest ch b

/-! non-vacuity: three rows through a channel of capacity 1 — the sink sees all, the channel the last -/
def exOps : List DOp := [.emit exRow, .emit exRow, .consume true, .emit [], .consume true, .consume true, .recv]
example : (drun (toConfig exItems) (exEnv none) ⟨10, 1, 2⟩ {} exOps).sinkLog.length = 6 := by decide
example : (drun (toConfig exItems) (exEnv none) ⟨10, 1, 2⟩ {} exOps).received.length = 1 := by decide
example : (drun (toConfig exItems) (exEnv none) ⟨1, 1, 2⟩ {} exOps).accepted.length = 2 := by decide

end C05

/-! tie to the source (regenerated from /repo on every run): the separator / quote bytes the field-path
parser, the nested-field test and the field-spec compiler look for, and the default channel sizes -/
theorem C05.facts_pipeline :
    Facts.utils_fieldpath_ParseFieldPath_strlits = ["", ".", "", "[", "field"] ∧
    Facts.utils_fieldpath_parseComplexPart_strlits.take 5 = ["[", "field", "field", "[", "]"] ∧
    Facts.utils_fieldpath_parseBracketContent_strlits.take 4 = ["'", "'", "\"", "\""] ∧
    Facts.utils_fieldpath_IsNestedField_strlits = [".", "["] ∧
    Facts.stream_Stream_compileSimpleFieldInfo_strlits =
      ["*", "", "*", "*", "'", "\"", "`", ":", "`", "`", "`", "`", "(", ")", "'", "'", "\"", "\""] ∧
    Facts.types_DefaultPerformanceConfig_intlits.take 2 = [1000, 100] := by decide
