/-
C15 — MATCH_RECOGNIZE reports valid leftmost-longest matches per partition.
Property theorems only; helper lemmas live in `Proofs/CepNfa`, `Proofs/CepEngine`, `Proofs/CepRun`.

All theorems quantify over every pattern (with consistent quantifier bounds, the ones `Compile`
accepts), every DEFINE predicate (history-aware), every SKIP mode, every WITHIN ≥ 0, both
engine modes (greedy / reluctant) unless said otherwise, every row-limit guard value, and every
history of `Process`/`Flush` calls over any number of interleaved partitions — no bound on
pattern size, stream length or number of partitions.

Not proved (kept visible as `def … : Prop`): `reference_pruning_complete` — that the pruned state key
the driver gives the oracle's reference matcher loses no match (exactness is proved for the unpruned
key, soundness for any key).
-/
import SsqlVerif.Proofs.CepCompleteRun
import SsqlVerif.Proofs.CepLower
import SsqlVerif.Proofs.CepWalk
import SsqlVerif.Generated.Facts
set_option autoImplicit false

namespace C15
open Cep Cep.Spec

/-! ### 1. the automaton -/

/-- The Thompson construction of `cep/pattern.go` (sequence, alternation, `?`, `*`, `+`, `{n}`,
`{n,m}`, `{n,}`, groups; PERMUTE is lowered to an alternation of sequences before) accepts
exactly the words of the pattern language: a word labels a path from the start state to the
accept state iff it is in `Lang p`. -/
theorem nfa_accepts_iff_lang (p : Pat) (hv : p.valid) (w : List Sym) :
    Accepts (compile p) w ↔ Lang p w :=
  compile_accepts_iff p hv w

/-- `Compile` on the parser's tree: whenever it succeeds, the compiled core tree has consistent
quantifier bounds and the automaton accepts exactly its language; the trees it rejects are the
ones `lower` rejects (negative min, max < min, PERMUTE over more than 6, exclusion). -/
theorem compileNode_correct (n : PNode) (a : NFA) (h : compileNode n = .ok a) :
    ∃ p, lower n = .ok p ∧ p.valid ∧ a = compile p ∧ ∀ w, Accepts a w ↔ Lang p w := by
  unfold compileNode at h
  obtain ⟨p, hp, rfl⟩ := except_map_ok h
  exact ⟨p, hp, lower_valid n p hp, rfl, compile_accepts_iff p (lower_valid n p hp)⟩

/-- The same for the tree the parser builds, read the way the user wrote it (`Spec.LangN`: n-ary
sequence and alternation, groups, quantifiers with their bounds, PERMUTE = the operands in any
order of their positions): whenever `Compile` accepts the tree, the automaton accepts exactly that
language. -/
theorem pattern_tree_lang (n : PNode) (a : NFA) (h : compileNode n = .ok a) (w : List Sym) :
    Accepts a w ↔ LangN n w := by
  obtain ⟨p, hp, hv, rfl, hacc⟩ := compileNode_correct n a h
  rw [hacc w]
  exact lower_lang n p hp w

/-- PERMUTE(A, B) accepts `B A` -/
example : LangN (.permute [.lit 0, .lit 1]) [1, 0] :=
  ⟨[1, 0], List.Perm.swap 0 1 [], [1], [0], rfl, rfl, [0], [], rfl, rfl, rfl⟩

example : Accepts (compile (.seq (.lit 0) (.rep (.lit 1) 1 none))) [0, 1, 1] :=
  (nfa_accepts_iff_lang _ (by simp [Pat.valid]) _).2
    ⟨[0], [1, 1], rfl, rfl, 2, by omega, (by intro m hm; cases hm), [1], [1], rfl, rfl, [1], [], rfl, rfl, rfl⟩
example : ¬ Lang (.seq (.lit 0) (.lit 1)) [0] := by
  rintro ⟨u, v, h, hu, hv⟩; cases hu; cases hv; cases h
example : (match lower (.rep (.lit 0) 3 1 true) with | .error .maxLtMin => true | _ => false) = true := by decide
example : (compileNode (.permute [.lit 0, .lit 1])).toOption.map (·.tbl.length) = some 6 := by decide

/-! ### 2. every emitted match is valid -/

section
variable {κ ρ : Type} [DecidableEq κ]

/-- the engine configuration `NewEngine` builds for a query -/
def cfgOf (q : Query ρ) (lazy : Bool) (maxRunRows : Nat) : Cfg ρ :=
  { tbl := (compile q.pat).tbl, start := (compile q.pat).start, lazy := lazy, skip := q.skip,
    within := q.within, maxRunRows := maxRunRows, define := q.define, ts := q.ts }

theorem cand_valid (q : Query ρ) (hv : q.pat.valid) (lazy : Bool) (mr : Nat) (H : List ρ) (b : Run ρ)
    (hb : Cand (cfgOf q lazy mr) H b) :
    ValidMatch q b.hist ∧ 1 ≤ b.startSeq ∧ b.hist.map (·.1) = (H.drop (b.startSeq - 1)).take b.hist.length := by
  obtain ⟨hok, hne, hacc⟩ := hb
  refine ⟨⟨hne, ?_, hok.defs, ?_⟩, hok.start_pos, hok.rows⟩
  · -- the classification is a word of the pattern
    unfold runAccepting hasAccept at hacc
    obtain ⟨i, hi, hai⟩ := List.any_eq_true.1 hacc
    have h0 : i = 0 := (compile_accept_iff q.pat hv i).1 hai
    subst h0
    obtain ⟨n, hp⟩ := hok.path 0 hi
    exact (compile_accepts_iff q.pat hv _).1 ⟨n, hp⟩
  · -- WITHIN
    cases hh : b.hist with
    | nil => exact absurd hh hne
    | cons x xs =>
      simp only [List.map_cons, withinOK, List.all_eq_true, List.mem_map, decide_eq_true_eq]
      rintro y ⟨z, hz, rfl⟩
      have h1 := hok.within z (by rw [hh]; exact List.mem_cons_of_mem _ hz)
      have h2 := hok.startTs x (by rw [hh]; rfl)
      simp only [cfgOf] at h1 h2
      omega

/-- **emitted_match_valid.**  Whatever the history of `Process` / `Flush` calls: every reported
match is a non-empty run of *consecutive rows of its own partition* (arrival order, rows
`startSeq … startSeq+len-1`), its classification spells a word of the PATTERN, every row
satisfies the DEFINE condition of its variable evaluated against the rows matched before it,
and every row lies within WITHIN of the first. -/
theorem emitted_match_valid (q : Query ρ) (hv : q.pat.valid) (hw : 0 ≤ q.within) (lazy : Bool) (mr : Nat)
    (ops : List (Op κ ρ)) :
    ∀ o ∈ (run (cfgOf q lazy mr) ({} : Engine κ ρ) ops).2, ∀ km ∈ o,
      ValidMatch q km.2.rows ∧ 1 ≤ km.2.startSeq ∧
      km.2.rows.map (·.1) = ((histOf km.1 ops).drop (km.2.startSeq - 1)).take km.2.rows.length := by
  intro o ho km hkm
  obtain ⟨b, hb, h1, h2⟩ := run_out (c := cfgOf q lazy mr) hw ops [] _ (EInv.init _) o ho km hkm
  rw [h1, h2]
  simpa using cand_valid q hv lazy mr _ b hb

/-! ### 3. SKIP, MATCH_NUMBER -/

theorem chain_of_run (c : Cfg ρ) (hw : 0 ≤ c.within) (ops : List (Op κ ρ)) (k : κ) :
    ∃ ns no, Chain c 0 0 (outsOf k (run c ({} : Engine κ ρ) ops).2) ns no := by
  have := run_chain (c := c) hw k ops [] ({} : Engine κ ρ) (EInv.init _)
  exact ⟨_, _, this⟩

/-- **skip_past_last_row_disjoint.**  Under AFTER MATCH SKIP PAST LAST ROW two matches reported
for one partition never share a row: a later match starts after the last row of an earlier one
(`startSeq`s are positions in the partition's arrival order by `emitted_match_valid`). -/
theorem skip_past_last_row_disjoint (c : Cfg ρ) (hw : 0 ≤ c.within) (hs : c.skip = Skip.pastLast)
    (ops : List (Op κ ρ)) (k : κ) :
    (outsOf k (run c ({} : Engine κ ρ) ops).2).Pairwise
      (fun m1 m2 => m1.startSeq + m1.rows.length ≤ m2.startSeq) := by
  obtain ⟨ns, no, h⟩ := chain_of_run c hw ops k
  exact h.disjoint hs

/-- In every SKIP mode the matches of a partition are reported leftmost-first: their first rows
are strictly increasing positions. -/
theorem match_starts_increasing (c : Cfg ρ) (hw : 0 ≤ c.within) (ops : List (Op κ ρ)) (k : κ) :
    (outsOf k (run c ({} : Engine κ ρ) ops).2).Pairwise (fun m1 m2 => m1.startSeq < m2.startSeq) := by
  obtain ⟨ns, no, h⟩ := chain_of_run c hw ops k
  exact h.increasing

/-- **match_number_sequential.**  MATCH_NUMBER counts 1, 2, 3, … per partition, in the order of reporting. -/
theorem match_number_sequential (c : Cfg ρ) (hw : 0 ≤ c.within) (ops : List (Op κ ρ)) (k : κ) :
    (outsOf k (run c ({} : Engine κ ρ) ops).2).map (·.matchNo) =
      List.range' 1 (outsOf k (run c ({} : Engine κ ρ) ops).2).length := by
  obtain ⟨ns, no, h⟩ := chain_of_run c hw ops k
  simpa using h.numbers.1

/-! ### 4. Flush -/

theorem run_inv (c : Cfg ρ) (hw : 0 ≤ c.within) : ∀ (ops pre : List (Op κ ρ)) (e : Engine κ ρ), EInv c pre e →
    EInv c (pre ++ ops) (run c e ops).1
  | [], pre, e, h => by simpa [run] using h
  | op :: ops, pre, e, h => by
    rw [run_cons]
    have := run_inv c hw ops (pre ++ [op]) _ (step_inv hw h op)
    simpa using this

/-- **flush_emits_accepting.**  Greedy mode, any history `ops`, then `Flush` (Stop): every
accepting candidate a partition still holds at or after its resumption point — a pending
completion or a live run whose state set accepts (an unfinished `A+`) — is accounted for in the
flush output of that partition: a match from the same start at least as long is reported, or
the candidate's start lies in the rows a reported match with an earlier start skips. -/
theorem flush_emits_accepting (c : Cfg ρ) (hw : 0 ≤ c.within) (hl : c.lazy = false) (ops : List (Op κ ρ)) (k : κ)
    (x : Run ρ)
    (hx : x ∈ (getPart (run c ({} : Engine κ ρ) ops).1 k).pending ∨
          (x ∈ (getPart (run c ({} : Engine κ ρ) ops).1 k).runs ∧ runAccepting c x = true))
    (hge : (getPart (run c ({} : Engine κ ρ) ops).1 k).nextStart ≤ x.startSeq) :
    ∃ m ∈ outsOf k [(step c (run c ({} : Engine κ ρ) ops).1 Op.flush).2],
      m.startSeq ≤ x.startSeq ∧ x.startSeq < skipToM c m.startSeq m.rows ∧
      (m.startSeq = x.startSeq → x.hist.length ≤ m.rows.length) := by
  have hinv := run_inv c hw ops [] ({} : Engine κ ρ) (EInv.init _)
  simp only [step]
  rw [outsOf_flushAll c k _ hinv.nodup]
  exact flushPart_cover hl (hinv.getPart k) x hx hge

/-! ### 5. partitions do not see each other -/

/-- **cep_partition_isolation.**  The matches reported for partition `k` (content, order,
MATCH_NUMBER) are those reported when only `k`'s rows (and the flushes) are fed. -/
theorem cep_partition_isolation (c : Cfg ρ) (ops : List (Op κ ρ)) (k : κ) :
    outsOf k (run c ({} : Engine κ ρ) ops).2 =
      outsOf k (run c ({} : Engine κ ρ) (ops.filter (relevant k))).2 :=
  isolation_aux k ops _ _ List.nodup_nil List.nodup_nil rfl

/-! ### 6. completeness: nothing valid is omitted, the longest match is chosen (greedy mode) -/

theorem histOf_length_le (k : κ) : ∀ (ops : List (Op κ ρ)), (histOf k ops).length ≤ ops.length
  | [] => Nat.le_refl _
  | .row k' r :: ops => by
    simp only [histOf]
    have := histOf_length_le k ops
    split <;> simp <;> omega
  | .flush :: ops => by
    simp only [histOf]
    have := histOf_length_le k ops
    simp; omega

/-- Every valid match in the sense of the spec — a classified run of consecutive rows of a partition,
starting at row `s` — is one of the runs the engine explores, and it is accepting there. -/
theorem valid_match_explored (q : Query ρ) (hv : q.pat.valid) (hw : 0 ≤ q.within) (lazy : Bool) (mr : Nat)
    (H : List ρ) (s : Nat) (w : List (ρ × Sym)) (hs : 1 ≤ s)
    (hrows : ∀ (j : Nat) (x : ρ × Sym), w[j]? = some x → H[s - 1 + j]? = some x.1)
    (hvm : ValidMatch q w) (hmr : w.length ≤ mr + 1) :
    ∃ r, Reached (cfgOf q lazy mr) H r ∧ r.startSeq = s ∧ r.hist = w ∧ runAccepting (cfgOf q lazy mr) r = true := by
  obtain ⟨hne, hword, hdef, hwin⟩ := hvm
  cases hw' : w with
  | nil => exact absurd hw' hne
  | cons x xs =>
    subst hw'
    obtain ⟨hwf, hst⟩ := compile_wf q.pat
    obtain ⟨n, hp⟩ := (compile_accepts_iff q.pat hv _).2 hword
    obtain ⟨hin, hcl⟩ := closure_closed (compile q.pat).tbl hwf (compile q.pat).start hst
    have h0 : isAcceptAt (cfgOf q lazy mr).tbl 0 = true := (compile_accept_iff q.pat hv 0).2 rfl
    have := extend_reached (cfgOf q lazy mr) hwf h0 H (x :: xs)
      (seedRun (cfgOf q lazy mr) (q.ts x.1) s) (compile q.pat).start n hcl hin hp
      (Or.inr ⟨rfl, hs, rfl, fun y hy => by simp at hy; subst hy; rfl⟩)
      (by intro j y hy; simpa [seedRun] using hrows j y hy)
      (by simpa [seedRun, cfgOf] using hdef)
      (by
        intro y hy
        simp only [seedRun, cfgOf]
        rcases List.mem_cons.1 hy with rfl | hy
        · omega
        · simp only [List.map_cons, withinOK, List.all_eq_true, List.mem_map, decide_eq_true_eq] at hwin
          exact hwin _ ⟨y, hy, rfl⟩)
      (by simpa [seedRun, cfgOf] using hmr)
      (Or.inl (by simp))
    obtain ⟨r, hr, hrs, hrh, hra⟩ := this
    exact ⟨r, hr, by simpa [seedRun] using hrs, by simpa [seedRun] using hrh, hra⟩

/-- **cep_complete_longest.**  Greedy quantifiers, the row-limit guard out of play (`mr` at least the
number of ops), any stream of rows over any partitions followed by `Flush` (Stop).  For every
partition `k` and every valid match `w` of the spec that starts at row `s` of `k`'s rows, some
reported match `m` of `k` *decides* `s`: `m` starts at or before `s`, `s` lies before the row where
the scan resumes after `m` (the AFTER MATCH SKIP rule), and if `m` starts at `s` itself then `m` is at
least as long as `w`.  Hence no valid match is omitted except by the SKIP rule of an earlier reported
match, starts are taken leftmost-first, and the match reported for a start is the longest one. -/
theorem cep_complete_longest (q : Query ρ) (hv : q.pat.valid) (hw : 0 ≤ q.within) (mr : Nat)
    (ops : List (Op κ ρ)) (hrowops : ∀ op ∈ ops, isRow op = true) (hmr : ops.length ≤ mr) (k : κ)
    (s : Nat) (w : List (ρ × Sym)) (hs : 1 ≤ s)
    (hrows : ∀ (j : Nat) (x : ρ × Sym), w[j]? = some x → (histOf k ops)[s - 1 + j]? = some x.1)
    (hvm : ValidMatch q w) :
    ∃ m ∈ outsOf k (run (cfgOf q false mr) ({} : Engine κ ρ) (ops ++ [Op.flush])).2,
      m.startSeq ≤ s ∧ s < skipToM (cfgOf q false mr) m.startSeq m.rows ∧
      (s = m.startSeq → w.length ≤ m.rows.length) := by
  have hlen : w.length ≤ mr + 1 := by
    have h1 := histOf_length_le k ops
    cases hl : w.length with
    | zero => omega
    | succ n =>
      obtain ⟨x, hx⟩ : ∃ x, w[n]? = some x := ⟨w[n]'(by omega), by simp [List.getElem?_eq_getElem (show n < w.length by omega)]⟩
      have := lt_of_getElem?_some (hrows n x hx)
      omega
  obtain ⟨r, hr, hrs, hrh, hra⟩ := valid_match_explored q hv hw false mr (histOf k ops) s w hs hrows hvm hlen
  obtain ⟨m, hm, h1, h2, h3⟩ := run_then_flush_covers (c := cfgOf q false mr) rfl hw k ops hrowops r hr hra
  exact ⟨m, hm, by omega, by omega, fun he => by rw [← hrh]; exact h3 (by omega)⟩

/-! ### 7. the oracle's reference matcher -/

/-- The executable brute-force reference matcher the oracle runs (`Spec.matchesFrom`, recursion on
the pattern, no automaton), with the classification itself as state key, reports exactly the valid
matches of the declarative definition that start with the first of `rows`. -/
theorem reference_matcher_exact (q : Query ρ) (hv : q.pat.valid) (hk : q.keySyms = none) (rows : List ρ)
    (m : List (ρ × Sym)) :
    m ∈ matchesFrom q rows ↔ (ValidMatch q m ∧ m.map (·.1) = rows.take m.length) :=
  matchesFrom_exact q hv hk rows m

/-- With any pruning key (the driver collapses the variables no DEFINE condition looks back at)
everything the reference reports is a valid match. -/
theorem reference_matcher_sound (q : Query ρ) (hv : q.pat.valid) (rows : List ρ) (m : List (ρ × Sym))
    (h : m ∈ matchesFrom q rows) : ValidMatch q m ∧ m.map (·.1) = rows.take m.length :=
  matchesFrom_sound q hv rows m h

/-- **Unproved.**  Pruning the reference's search with a coarser state key loses no match length when
the DEFINE conditions look at the classification of earlier rows only through the variables in the key. -/
def reference_pruning_complete : Prop :=
  ∀ (ρ : Type) (q : Query ρ) (ks : List Sym) (rows : List ρ), q.pat.valid →
    (∀ (a : Sym) (h h' : List (ρ × Sym)) (r : ρ), h.map (·.1) = h'.map (·.1) →
      (h.map fun x => if ks.contains x.2 then x.2 + 1 else 0) = (h'.map fun x => if ks.contains x.2 then x.2 + 1 else 0) →
      q.define a h r = q.define a h' r) →
    ∀ n, n ∈ validLens { q with keySyms := none } rows → n ∈ validLens { q with keySyms := some ks } rows

end

/-! ### non-vacuity: the design's scenario — PATTERN (A A), partition 0 rows 1..4 with one row of
partition 1 after its first row: matches (1,2),(3,4) of partition 0, numbered 1,2, disjoint -/

def demoQuery : Query Nat :=
  { pat := .seq (.lit 0) (.lit 0), skip := .pastLast, within := 100, define := fun _ _ _ => true,
    ts := fun r => (r : Int), greedy := true }

def demoOps : List (Op Nat Nat) :=
  [.row 0 1, .row 1 2, .row 0 3, .row 0 4, .row 0 5, .flush]

example : (outsOf 0 (run (cfgOf demoQuery false 100) {} demoOps).2).map
    (fun m => (m.matchNo, m.startSeq, m.rows.map (·.1))) = [(1, 1, [1, 3]), (2, 3, [4, 5])] := by decide

example : histOf 0 demoOps = [1, 3, 4, 5] := by decide

/-- `cep_complete_longest` instantiated: the valid match (rows 3,4 = positions 2,3 of partition 0) that the
scan must not report on its own is decided by match 1 (start 1, resumes at 3) -/
example : ∃ m ∈ outsOf 0 (run (cfgOf demoQuery false 100) ({} : Engine Nat Nat) (demoOps.take 5 ++ [Op.flush])).2,
    m.startSeq ≤ 2 ∧ 2 < skipToM (cfgOf demoQuery false 100) m.startSeq m.rows ∧
    (2 = m.startSeq → [((3 : Nat), (0 : Sym)), (4, 0)].length ≤ m.rows.length) :=
  cep_complete_longest demoQuery (by simp [demoQuery, Pat.valid]) (by simp [demoQuery]) 100 (demoOps.take 5)
    (by decide) (by decide) 0 2 [(3, 0), (4, 0)] (by decide)
    (by
      intro j x hx
      match j, hx with
      | 0, hx => simp at hx; subst hx; decide
      | 1, hx => simp at hx; subst hx; decide
      | n+2, hx => simp at hx)
    { nonempty := by simp
      word := ⟨[0], [0], rfl, rfl, rfl⟩
      define := by decide
      within := by decide }

/-- a pending accepting run that only `Flush` reports: PATTERN (A+), rows A A, then Stop -/
example : (outsOf 0 (run (cfgOf { demoQuery with pat := .rep (.lit 0) 1 none } false 100) {}
    ([.row 0 1, .row 0 2, .flush] : List (Op Nat Nat))).2).map (fun m => (m.matchNo, m.startSeq, m.rows.length)) =
    [(1, 1, 2)] := by decide

end C15

/-! tie to the source constants (regenerated from the repository on every run) -/
theorem C15.facts_cep :
    Facts.types_DefaultMatchWithin = 3600000000000 ∧ 0 < Cep.defaultWithin ∧
    Facts.cep_defaultMaxRunRows = 10000 ∧ Facts.cep_defaultMaxRuns = 10000 ∧ Facts.cep_defaultMaxPartitions = 10000 ∧
    (Facts.cep_stEpsilon, Facts.cep_stMatch, Facts.cep_stAccept) = (0, 1, 2) ∧
    (Facts.types_SkipPastLastRow, Facts.types_SkipToNextRow, Facts.types_SkipToFirst, Facts.types_SkipToLast,
      Facts.types_SkipToVariable) = (0, 1, 2, 3, 4) ∧
    Facts.cep_Engine_skipTo_intlits = [1, 1, 0, 1, 1] := by decide
