import SsqlVerif.Model.Cep
import SsqlVerif.Spec.Cep
set_option autoImplicit false
namespace C15
end C15
