/-
C08 — Sliding windows report each slide-aligned interval with exactly its rows.
Property theorems only (helper lemmas: `Proofs/Sliding*.lean`).  Quantified over every size/slide
pair (slide dividing size or not, slide = size, slide > size), every MAXOUTOFORDERNESS and every op
sequence (all arrival orders and all interleavings of Add, ticker, watermark pop and single
trigger-loop iterations); event time, ALLOWEDLATENESS = 0.
-/
import SsqlVerif.Proofs.SlidingHist
import SsqlVerif.Proofs.SlidingLate
set_option autoImplicit false

namespace C08
open Tumbling (Row Emission inSlot alignDown leOpt)
open Sliding

def OpsOk (ops : List Op) : Prop := ∀ op ∈ ops, OpOk op

theorem hist (size slide ooo : Int) (hs : 0 < size) (hl : 0 < slide) (ops : List Op) (hok : OpsOk ops) :
    GoodH (run (init size slide ooo) ops).1 (run (init size slide ooo) ops).2 := by
  have hh := goodH_run (init size slide ooo) ops [] (good_init size slide ooo hs hl) (goodH_init size slide ooo) hok
  rwa [List.nil_append] at hh

/-- **Interval shape and exact contents.** Every delivered result is the first firing of an
interval `[s, s+size)` with `s` a multiple of the slide; it is non-empty and its rows are exactly
the rows accepted up to that moment (a prefix of the accepted log) whose timestamp is inside. -/
theorem emission_exact (size slide ooo : Int) (hs : 0 < size) (hl : 0 < slide) (ops : List Op) (hok : OpsOk ops) :
    ∀ e ∈ (run (init size slide ooo) ops).2,
      e.kind = .first ∧ e.stop = e.start + size ∧ slide ∣ e.start ∧ e.rows ≠ [] ∧
      ∃ pre, pre <+: (run (init size slide ooo) ops).1.acc ∧ e.rows = pre.filter (inSlot size e.start) := by
  intro e he
  have h := (hist size slide ooo hs hl ops hok).hshape e he
  unfold EmOk at h
  rw [(run_size _ ops).1, (run_size _ ops).2] at h
  exact h

/-- **Once, in increasing order.** -/
theorem intervals_strictly_increasing (size slide ooo : Int) (hs : 0 < size) (hl : 0 < slide)
    (ops : List Op) (hok : OpsOk ops) :
    (run (init size slide ooo) ops).2.Pairwise (fun a b => a.start < b.start) :=
  (hist size slide ooo hs hl ops hok).hincr

/-- **Eviction is safe.** In every reachable state the buffered rows at or after the current slot
are exactly the accepted rows at or after it: a row is evicted only when no future interval can
need it — for every size/slide relation. -/
theorem evict_safe (size slide ooo : Int) (hs : 0 < size) (hl : 0 < slide) (ops : List Op) (hok : OpsOk ops)
    (c : Int) (hc : (run (init size slide ooo) ops).1.cur = some c) :
    (run (init size slide ooo) ops).1.data.filter (geCur c) = (run (init size slide ooo) ops).1.acc.filter (geCur c) :=
  (good_run _ ops (good_init size slide ooo hs hl) hok).hacc c hc

/-- **Every covering interval.** An accepted row appears in the result of every slide-aligned
interval that covers it, lies at or after the slot current at its arrival, and has been passed by
the trigger loop. -/
theorem in_every_passed_cover (size slide ooo : Int) (hs : 0 < size) (hl : 0 < slide) (ops : List Op) (hok : OpsOk ops)
    (x : Row) (cx : Int) (hx : (x, cx) ∈ (run (init size slide ooo) ops).1.accCur)
    (k : Int) (hk : slide ∣ k) (hck : cx ≤ k) (hin : inSlot size k x = true)
    (hpassed : ∀ c, (run (init size slide ooo) ops).1.cur = some c → k < c) :
    ∃ e ∈ (run (init size slide ooo) ops).2, e.start = k ∧ x ∈ e.rows := by
  have hh := hist size slide ooo hs hl ops hok
  have := hh.hcover (x, cx) hx k (by rw [(run_size _ ops).2]; exact hk) hck
    (by rw [(run_size _ ops).1]; exact hin) hpassed
  exact this

/-- For an on-time row (not behind the watermark on arrival) in a state whose loop has already
advanced, *every* covering slide-aligned interval lies at or after the current slot — so
`in_every_passed_cover` applies to all of them.  (Before the loop has advanced, the current slot is
the earliest slide-aligned start among accepted rows, the lower bound in the property.) -/
theorem ontime_cover_from_arrival (s : SW) (r : Row) (now : Int) (hg : Good s) (hadv : s.advanced = true)
    (hl : lateNow s r now = false) (k : Int) (hk : s.slide ∣ k) (hin : inSlot s.size k r = true) :
    curAfterAdd s r now ≤ k := by
  cases hcur : s.cur with
  | none => have := (hg.hinit hcur).2.2.2; rw [this] at hadv; cases hadv
  | some c =>
    have hci : curInit s r = c := by simp [curInit, hcur]
    have hca : curAfterAdd s r now = c := by
      rcases curAfterAdd_cases s r now with h | ⟨hfr, _, _, _⟩
      · rw [h, hci]
      · rw [hfr] at hadv; cases hadv
    rw [hca]
    have hge := ontime_ge_passed s r now hg c hcur hadv hl
    rcases Int.lt_or_le k c with hlt | hge'
    · exfalso
      have hal : s.slide ∣ (c - s.slide) := Int.dvd_sub (hg.halign c hcur) (Int.dvd_refl _)
      have := lattice_lt_succ k (c - s.slide) s.slide hg.hslide hk hal (by omega)
      simp only [inSlot, Bool.and_eq_true, decide_eq_true_eq] at hin
      omega
    · exact hge'

theorem earliest_start_before_advance (size slide ooo : Int) (hs : 0 < size) (hl : 0 < slide) (ops : List Op)
    (hok : OpsOk ops) (hfresh : (run (init size slide ooo) ops).1.advanced = false)
    (c : Int) (hc : (run (init size slide ooo) ops).1.cur = some c) :
    ∀ x ∈ (run (init size slide ooo) ops).1.acc, c ≤ x.ts :=
  (good_run _ ops (good_init size slide ooo hs hl) hok).hlo hfresh c hc

/-- the pass for watermark `w` ends only when the current slot's end is beyond `w` -/
theorem pass_done (s : SW) (w c : Int) (ht : s.trigW = some w) (hc : s.cur = some c)
    (hdone : (stepIter s).1.trigW = none) : w < c + s.size := by
  unfold stepIter at hdone
  rw [ht, hc] at hdone
  simp only at hdone
  by_cases h : c + s.size ≤ w
  · rw [if_pos h] at hdone
    unfold fireOrSkip at hdone
    split at hdone <;> simp [ht] at hdone
  · omega

/-- The model the driver executes (`SlidingLate`, which also covers ALLOWEDLATENESS > 0) coincides,
for ALLOWEDLATENESS = 0, with the base model all theorems above are about: same state, same results. -/
theorem late_extension_coincides (size slide ooo : Int) (ops : List Op) :
    (SlidingLate.run (SlidingLate.init size slide ooo 0) ops).1.base = (run (init size slide ooo) ops).1 ∧
    (SlidingLate.run (SlidingLate.init size slide ooo 0) ops).2 = (run (init size slide ooo) ops).2 :=
  SlidingLate.run_l0 (SlidingLate.init size slide ooo 0) ops ⟨rfl, rfl⟩

/-! ### non-vacuity: slide > size, slide ∤ size and an early on-time row -/
def demoOps : List Op :=
  [.add ⟨1, 10500⟩ 1000000, .add ⟨2, 9700⟩ 1000000, .add ⟨3, 10600⟩ 1000000, .add ⟨4, 20000⟩ 1000000,
   .pop, .iter, .pop, .iter, .pop, .iter, .iter, .iter, .iter, .iter, .iter, .iter, .iter, .iter, .iter]

example : OpsOk demoOps := by unfold OpsOk; decide
example : ((run (init 2000 1000 2000) demoOps).2.map (fun e => (e.start, e.rows.map (·.id))))
    = [(9000, [1, 2, 3]), (10000, [1, 3])] := by decide
example : ((run (init 700 1000 2000) demoOps).2.map (fun e => (e.start, e.rows.map (·.id))))
    = [(10000, [1, 3])] := by decide

/-- **A late row that a fired interval took in stays buffered** (ALLOWEDLATENESS > 0): intervals overlap, so the row may
also belong to pending intervals; whatever re-delivered it, the Add leaves it in the buffer the pending intervals are cut
from (together with eviction safety, `evict_safe`, that is what puts it into their first firings). -/
theorem redelivered_row_stays_buffered (s : SlidingLate.SWL) (r : Tumbling.Row) (now : Int)
    (h : (SlidingLate.lateTargets s r now).isEmpty = false) :
    r ∈ (SlidingLate.stepAdd s r now).1.base.data := by
  show r ∈ (SlidingLate.addBase s r now).data
  unfold SlidingLate.addBase
  rw [h, Bool.false_or]
  by_cases hk : Sliding.kept s.base r now = true
  · simp [hk, Sliding.stepAdd]
  · simp [hk]

/-- … and so does every late row inside the current, not yet fired interval, with or without an allowance -/
theorem late_row_in_current_slot_stays_buffered (s : SlidingLate.SWL) (r : Tumbling.Row) (now : Int)
    (h : Tumbling.inSlot s.base.size (Sliding.curInit s.base r) r = true) :
    r ∈ (SlidingLate.stepAdd s r now).1.base.data := by
  show r ∈ (SlidingLate.addBase s r now).data
  have hk : Sliding.kept s.base r now = true := by simp [Sliding.kept, h]
  unfold SlidingLate.addBase
  simp [hk, Sliding.stepAdd]

end C08
