/-
C04 — GROUP BY partitions each window's rows by the grouping key tuple.
Property theorems only; helper lemmas live in `Proofs/GroupKey*.lean`, `Proofs/GroupPartition.lean`.
The encoders are the *repaired* ones (length prefix in the aggregator, separator escaping in the
counting / session / global windows); the unrepaired code is reported by the check as a violation.
-/
import SsqlVerif.Proofs.GroupKeyTyped
import SsqlVerif.Proofs.GroupPartition
import SsqlVerif.Generated.Facts
set_option autoImplicit false

namespace C04
open GroupKey GroupBy

/-- Window keys (`getKey`, `extractSessionCompositeKey`, `getKeyAndValues`), cell level: for ALL
byte strings / NULLs — separators, backslashes, the text `\N`, empty strings included — two tuples
of equal arity with the same key are the same tuple. -/
theorem encBar_injective (t t' : List (Option Str)) (hl : t.length = t'.length)
    (h : encBar t = encBar t') : t = t' :=
  GroupKey.encBar_injective t t' hl h

/-- The escaping scheme itself, for any symbol type, escape symbol, separator and NULL letter. -/
theorem escJoin_injective {α : Type} [DecidableEq α] (esc sep nul : α)
    (hes : esc ≠ sep) (hne : nul ≠ esc) (hns : nul ≠ sep)
    (t t' : List (Option (List α))) (hl : t.length = t'.length)
    (h : escJoin esc sep nul t = escJoin esc sep nul t') : t = t' :=
  GroupKey.escJoin_injective esc sep nul hes hne hns t t' hl h

/-- Aggregator key, cell level: injective for all byte strings / NULLs and every arity. -/
theorem encAgg_injective (t t' : List (Option Str)) (h : encAgg t = encAgg t') : t = t' :=
  GroupKey.encAgg_injective t t' h

/-- Typed level, the four encoders: inside the property's quantifier (one scalar type per column,
NULL anywhere; float formatting injective — trusted Go `strconv`, hypothesis `fltOkT`) equal keys
mean equal tuples (NULL = missing): values that differ are never merged. -/
theorem encCounting_injective (t t' : List Val) (ht : sameTypeT t t' = true) (hf : fltOkT t t')
    (h : encCounting t = encCounting t') : normTuple t = normTuple t' :=
  map_render_injective renderCast renderCast_injective t t' ht hf
    (encWindow_injective _ _ _ (by simp [sameTypeT_length t t' ht]) h)

theorem encSession_injective (t t' : List Val) (ht : sameTypeT t t' = true) (hf : fltOkT t t')
    (h : encSession t = encSession t') : normTuple t = normTuple t' :=
  map_render_injective renderCast renderCast_injective t t' ht hf
    (encWindow_injective _ _ _ (by simp [sameTypeT_length t t' ht]) h)

theorem encGlobal_injective (t t' : List Val) (ht : sameTypeT t t' = true) (hf : fltOkT t t')
    (h : encGlobal t = encGlobal t') : normTuple t = normTuple t' :=
  map_render_injective renderV renderV_injective t t' ht hf
    (encWindow_injective _ _ _ (by simp [sameTypeT_length t t' ht]) h)

theorem encAggregator_injective (t t' : List Val) (ht : sameTypeT t t' = true) (hf : fltOkT t t')
    (h : encAggregator t = encAggregator t') : normTuple t = normTuple t' :=
  map_render_injective renderV renderV_injective t t' ht hf (GroupKey.encAgg_injective _ _ h)

/-- Equal values are never split: tuples equal up to NULL = missing have the same key, in all
four encoders. -/
theorem enc_respects_eq (t t' : List Val) (h : normTuple t = normTuple t') :
    encCounting t = encCounting t' ∧ encSession t = encSession t' ∧
    encGlobal t = encGlobal t' ∧ encAggregator t = encAggregator t' := by
  have hc : t.map renderCast = t'.map renderCast := by
    have := congrArg (List.map renderCast) h
    simpa [normTuple, List.map_map, Function.comp_def, renderCast_norm] using this
  have hv : t.map renderV = t'.map renderV := by
    have := congrArg (List.map renderV) h
    simpa [normTuple, List.map_map, Function.comp_def, renderV_norm] using this
  simp only [encCounting, encSession, encGlobal, encAggregator, hc, hv, and_self]

/-- Grouping by an encoded key is the partition by key tuple: for every batch (any size, any
interleaving of groups) and any encoder that is injective on the tuples occurring in it, the
model of `GroupAggregator.Add/GetResults` yields exactly one result per distinct tuple, carrying
that tuple and exactly the rows of that tuple. -/
theorem group_partition_of_injective {κ σ ι : Type} [DecidableEq σ] [DecidableEq κ] [DecidableEq ι]
    (enc : κ → σ) (rows : List (κ × ι))
    (hinj : ∀ r ∈ rows, ∀ r' ∈ rows, enc r.1 = enc r'.1 → r.1 = r'.1) :
    partitionHolds rows (GroupPart.results enc rows) = true :=
  GroupPart.results_partition enc rows hinj

/-- Instance for the aggregator with its real (repaired) encoder, over typed rows: every batch
whose columns are typed as the property says is partitioned exactly by tuple. Rows carry the
normalised tuple (`Add` stores nil for a missing and for a nil column). -/
theorem group_partition_aggregator {ι : Type} [DecidableEq ι] (rows : List (List Val × ι))
    (hN : ∀ r ∈ rows, normTuple r.1 = r.1)
    (hT : ∀ r ∈ rows, ∀ r' ∈ rows, sameTypeT r.1 r'.1 = true ∧ fltOkT r.1 r'.1) :
    partitionHolds rows (GroupPart.results encAggregator rows) = true :=
  GroupPart.results_partition encAggregator rows fun r hr r' hr' h => by
    have := encAggregator_injective r.1 r'.1 (hT r hr r' hr').1 (hT r hr r' hr').2 h
    rwa [hN r hr, hN r' hr'] at this

/-- the same for a window that buffers rows per encoded key (counting / session / global) -/
theorem group_partition_window {ι : Type} [DecidableEq ι] (rows : List (List Val × ι))
    (hN : ∀ r ∈ rows, normTuple r.1 = r.1)
    (hT : ∀ r ∈ rows, ∀ r' ∈ rows, sameTypeT r.1 r'.1 = true ∧ fltOkT r.1 r'.1) :
    partitionHolds rows (GroupPart.results encCounting rows) = true ∧
    partitionHolds rows (GroupPart.results encSession rows) = true ∧
    partitionHolds rows (GroupPart.results encGlobal rows) = true := by
  refine ⟨?_, ?_, ?_⟩
  · exact GroupPart.results_partition encCounting rows fun r hr r' hr' h => by
      have := encCounting_injective r.1 r'.1 (hT r hr r' hr').1 (hT r hr r' hr').2 h
      rwa [hN r hr, hN r' hr'] at this
  · exact GroupPart.results_partition encSession rows fun r hr r' hr' h => by
      have := encSession_injective r.1 r'.1 (hT r hr r' hr').1 (hT r hr r' hr').2 h
      rwa [hN r hr, hN r' hr'] at this
  · exact GroupPart.results_partition encGlobal rows fun r hr r' hr' h => by
      have := encGlobal_injective r.1 r'.1 (hT r hr r' hr').1 (hT r hr r' hr').2 h
      rwa [hN r hr, hN r' hr'] at this

/-! non-vacuity: the colliding pairs of the unrepaired encoders are separated, plain values are
encoded as themselves (the outputs the unedited test-suite pins), NULL ≠ "" ≠ "\N" -/
example : encBar [some "x|y".toList, some "z".toList] = "x\\|y|z".toList := by decide
example : encBar [some "x".toList, some "y|z".toList] = "x|y\\|z".toList := by decide
example : encBar [some "alice".toList, some "30".toList] = "alice|30".toList := by decide
example : encBar [none] ≠ encBar [some []] ∧ encBar [none] ≠ encBar [some "\\N".toList] := by decide
example : encCounting [] = "__global__".toList ∧ encCounting [.str "us".toList] = "us".toList := by decide
example : encAgg [some ['x', Char.ofNat 0x1f, 'y'], some ['z']] ≠ encAgg [some ['x'], some ['y', Char.ofNat 0x1f, 'z']] := by decide
example : encAgg [none] ≠ encAgg [some aggNull] := by decide
example : sameTypeT [.str ['a'], .null] [.missing, .str []] = true := by decide
example : partitionHolds [(1, 10), (2, 11), (1, 12)] (GroupPart.results (fun n : Nat => n) [(1, 10), (2, 11), (1, 12)]) = true := by decide
-- a colliding encoder breaks the partition (so the hypothesis of `group_partition_of_injective` is needed)
example : partitionHolds [(1, 10), (2, 11)] (GroupPart.results (fun _ : Nat => 0) [(1, 10), (2, 11)]) = false := by decide

end C04

/-! tie to the source (regenerated on every run by factsgen): separators, NULL markers, escape
letters and no-key constants of the four encoders -/
theorem C04.facts_encoders :
    Facts.aggregator_groupKeySep = "\x1f" ∧ Facts.aggregator_nullGroupKeyMarker = "\x00NULL" ∧
    Facts.aggregator_groupKeySegment_strlits = [":"] ∧
    Facts.window_groupKeyPartSep = "|" ∧ Facts.window_groupKeyNullPart = "\\N" ∧
    Facts.window_CountingWindow_getKey_strlits = ["__global__"] ∧
    Facts.window_extractSessionCompositeKey_strlits = ["default"] ∧
    Facts.window_GlobalWindow_getKeyAndValues_strlits = ["__global__", "(", "%v"] ∧
    Facts.window_escapeKeyPart_strlits = ["\\|", "\\", "|", "\\"] := by decide
