/-
C18 — lifecycle operations are safe under any interleaving and Stop is a barrier.
Property theorems only; helper lemmas live in `Proofs/Lifecycle*.lean`.

All statements quantify over `Reach c p s`: every state the lifecycle protocol (`Model/Lifecycle`)
reaches from its initial state — any number of sink workers, EmitSync callers and Stop callers,
any lists of registered sinks (plain, panicking, re-entrant), any sink pool size, and *any
interleaving* of their code segments with Emit and AddSink (a schedule is an arbitrary list of
(thread, select-witness) pairs).  No bound on anything.
What the model cannot express — data races, goroutine leaks, Stop's grace period as wall time —
is outside every theorem here (see cfg/C18.py).
-/
import SsqlVerif.Proofs.LifecycleFacts
import SsqlVerif.Generated.Facts
set_option autoImplicit false

namespace C18
open Lifecycle

theorem run_reaches (c : Cfg) (p : Params) (sched : List (Tid × Wit)) :
    Reach c p (run c (init c p.nworkers p.ncallers p.nstops p.asyncs p.syncs) sched) :=
  run_reach c p sched _ Reach.init

/-- **Stop is idempotent.** However many Stop calls race, at most one of them performs the
teardown (the others see the flag and return at once), and a Stop call on a stopped stream
changes nothing but its own program counter. -/
theorem stop_idempotent (c : Cfg) (p : Params) (s : State) (h : Reach c p s) :
    s.stops.countP (fun pc => inTeardown pc) ≤ 1 ∧
    (∀ k : Nat, s.stopped = true → s.stops[k]? = some .sIdle →
      step c s (.stop k) .data = some { s with stops := s.stops.set k .sNoop }) := by
  refine ⟨(linv_reach c p s h).1.st.one, ?_⟩
  intro k hst hk
  simp [step, stepStop, hk, hst]

/-- **Emit after Stop is a silent no-op.** Once a Stop call has returned, an Emit call changes
nothing but the row counter: the row is not buffered, not processed, reaches no sink. (With the
block and expand strategies this already holds from the moment the flag is set.) -/
theorem emit_after_stop_noop (c : Cfg) (p : Params) (s : State) (h : Reach c p s) :
    (s.stopReturned = true → ∀ pn w, step c s (.emit pn) w = some { s with nextId := s.nextId + 2 }) ∧
    (c.dropStrat = false → s.stopped = true → ∀ pn w, step c s (.emit pn) w = some { s with nextId := s.nextId + 2 }) := by
  have hinv := (linv_reach c p s h).1
  constructor
  · intro hr pn w
    obtain ⟨k, hk⟩ := hinv.st.returned hr
    have hn := hinv.st.nil k .sRet hk (Or.inr (Or.inr (Or.inr rfl)))
    simp [step, stepEmit, emitRefused, hn]
  · intro hd hst pn w
    simp [step, stepEmit, emitRefused, hd, hst]

/-- **Stop is a barrier.** Once a Stop call is past `waitLifecycle` (it saw the counter at zero —
i.e. it did not time out): the data processor and every sink worker have exited, no EmitSync
call is inside the instance, so no thread can take a sink-invocation step; and no sink invocation
in the whole history happened after that Stop call returned. -/
theorem stop_barrier (c : Cfg) (p : Params) (s : State) (h : Reach c p s) (hg : c.syncGuard = true) :
    (∀ (k : Nat) (pc : SPC), s.stops[k]? = some pc → pastJoin pc = true →
      s.eng.alive = false ∧ s.eng.act = .idle ∧ (∀ t ∈ s.workers, t.alive = false ∧ t.act = .idle) ∧
      (∀ t ∈ s.callers, t.act = .idle)) ∧
    (∀ e ∈ s.log, e.afterStop = false) := by
  obtain ⟨hinv, hq⟩ := linv_reach c p s h
  refine ⟨?_, hq hg⟩
  intro k pc hk hp
  obtain ⟨h1, h2, h3, h4⟩ := quiescent_after_join c s hinv k pc hk hp
  exact ⟨h1, h2, h3, h4 hg⟩

/-- the same statement without the guard on EmitSync -/
def stop_barrier_unguarded_full : Prop :=
  ∀ (c : Cfg) (p : Params) (s : State), Reach c p s → ∀ e ∈ s.log, e.afterStop = false

def origCfg : Cfg := { copySinks := false, syncGuard := false, qcap := 1, dropStrat := true }
def demoParams (asyncs syncs : List Kind) : Params := { nworkers := 1, ncallers := 1, nstops := 2, asyncs := asyncs, syncs := syncs }

/-- Stop runs to completion, then EmitSync is called: its sync sink is invoked -/
def lateSyncSched : List (Tid × Wit) :=
  [(.stop 0, .data), (.stop 0, .data), (.eng, .done), (.worker 0, .done), (.stop 0, .data), (.stop 0, .data),
   (.stop 0, .data), (.stop 0, .data), (.caller 0, .data), (.caller 0, .data), (.caller 0, .data)]

/-- **Without the guard, EmitSync invokes sinks after Stop has returned** (negation witness:
the behaviour the check found in the code as it was, `corpus/C18/emitsync-after-stop.ops`). -/
theorem stop_barrier_unguarded_fails : ¬ stop_barrier_unguarded_full := by
  intro h
  have := h origCfg (demoParams [] [.plain]) _ (run_reaches origCfg (demoParams [] [.plain]) lateSyncSched)
    { batch := 0, afterStop := true }
  revert this
  decide

/-- **A panicking sink or row is contained.** For the protocol a panicking sink is a plain sink
(the dispatch goes on with the next sink, the worker / data processor goes back to its loop,
the lifecycle counter is untouched); a panicking row leaves the data processor alive in its loop. -/
theorem sink_panic_contained (c : Cfg) (s : State) :
    (∀ b as ss held, actStep c s (.body b .panics as ss held) = actStep c s (.body b .plain as ss held)) ∧
    (∀ r rest, s.eng.alive = true → s.eng.act = .idle → s.buf = r :: rest → rowPanicsB r = true →
      ∃ s', step c s .eng .data = some s' ∧ s'.eng = s.eng ∧ s'.life = s.life ∧ s'.buf = rest) := by
  constructor
  · intro b as ss held; rfl
  · intro r rest ha hi hb hp
    refine ⟨{ s with buf := rest, rowPanics := s.rowPanics ++ [r] }, ?_, rfl, rfl, rfl⟩
    simp [step, stepEng, ha, hi, hb, hp]

/-- **No self-deadlock on a re-entrant sink** (the repaired dispatch). `sinksMux` is never held
across a sink invocation: at every step boundary the reader count is zero and no thread waits
for the write lock while holding the read lock, so `AddSink` — from a sink or from anywhere —
is always enabled. -/
theorem no_self_deadlock_on_reentrant_sink (c : Cfg) (p : Params) (s : State) (h : Reach c p s)
    (hc : c.copySinks = true) :
    s.rd = 0 ∧ (stepAddSink s).isSome = true ∧
    (∀ b as ss held, (actStep c s (.wantW b as ss held)).isSome = true) ∧
    (∀ t ∈ allThreads s, selfWait t.act = false) := by
  have hinv := (linv_reach c p s h).1
  have hrd := copy_rd_zero c s hinv hc
  refine ⟨hrd, by simp [stepAddSink, hrd], by intro b as ss held; simp [actStep, hrd], ?_⟩
  have h0 := hinv.copy hc
  rw [heldCount_eq] at h0
  have e1 : b2n (heldOf s.eng.act) = 0 := by omega
  have e2 : hW s = 0 := by omega
  have e3 : hC s = 0 := by omega
  have key : ∀ a : Act, heldOf a = false → selfWait a = false := by
    intro a ha; cases a <;> simp [selfWait, heldOf] at ha ⊢; exact ha
  intro t ht
  simp only [allThreads, List.mem_cons, List.mem_append] at ht
  rcases ht with rfl | ht | ht
  · apply key
    cases hh : heldOf s.eng.act with
    | false => rfl
    | true => rw [hh] at e1; simp [b2n] at e1
  · exact key _ (countP_zero_forall (fun (x : Thread) => heldOf x.act) s.workers e2 t ht)
  · exact key _ (countP_zero_forall (fun (x : Thread) => heldOf x.act) s.callers e3 t ht)

/-- the same statement for the dispatch that holds the read lock across the invocations -/
def no_self_deadlock_holding_full : Prop :=
  ∀ (c : Cfg) (p : Params) (s : State), Reach c p s → ∀ t ∈ allThreads s, selfWait t.act = false

/-- EmitSync dispatches to a sync sink that calls AddSink -/
def reentrantSched : List (Tid × Wit) := [(.caller 0, .data), (.caller 0, .data), (.caller 0, .data)]

/-- **Holding the read lock across the sink call deadlocks a re-entrant sink** (negation witness:
the behaviour the check found in the code as it was, `corpus/C18/reentrant-addsink.ops`)… -/
theorem no_self_deadlock_holding_fails : ¬ no_self_deadlock_holding_full := by
  intro h
  have := h origCfg (demoParams [] [.adds]) _ (run_reaches origCfg (demoParams [] [.adds]) reentrantSched)
  revert this
  decide

/-- …and such a thread is stuck for good: in every reachable state, a thread that waits for the
write lock while holding the read lock has no enabled step (only it could release the lock). -/
theorem self_wait_is_stuck (c : Cfg) (p : Params) (s : State) (h : Reach c p s) (t : Thread)
    (ht : t ∈ allThreads s) (hw : selfWait t.act = true) : actStep c s t.act = none := by
  have hinv := (linv_reach c p s h).1
  apply selfwait_stuck c s hinv t.act hw
  simp only [allThreads, List.mem_cons, List.mem_append] at ht
  rcases ht with rfl | ht | ht
  · exact Or.inl rfl
  · exact Or.inr (Or.inl ⟨t, ht, rfl⟩)
  · exact Or.inr (Or.inr ⟨t, ht, rfl⟩)

/-! non-vacuity -/

def fixedCfg : Cfg := { copySinks := true, syncGuard := true, qcap := 1, dropStrat := true }

/-- repaired: the re-entrant sink registers its sink and the call returns -/
example : (run fixedCfg (init fixedCfg 1 1 2 [] [.adds]) (reentrantSched ++ [(.caller 0, .data)])).asyncSinks = [.plain] ∧
    ((run fixedCfg (init fixedCfg 1 1 2 [] [.adds]) (reentrantSched ++ [(.caller 0, .data)])).callers.map (·.act)) = [.idle] := by
  decide
/-- unrepaired: the caller sits at `wantW` holding the read lock -/
example : ((run origCfg (init origCfg 1 1 2 [] [.adds]) reentrantSched).callers.map (·.act)) = [.wantW 0 [] [] true] := by
  decide
/-- repaired: EmitSync after Stop is refused, nothing is logged -/
example : (run fixedCfg (init fixedCfg 1 1 2 [] [.plain]) lateSyncSched).refused = [0, 2, 4] ∧
    (run fixedCfg (init fixedCfg 1 1 2 [] [.plain]) lateSyncSched).log = [] := by decide
/-- unrepaired: the sink runs after Stop returned -/
example : (run origCfg (init origCfg 1 1 2 [] [.plain]) lateSyncSched).log = [{ batch := 0, afterStop := true }] := by decide
/-- Stop really gets past the join in the witness (the barrier hypothesis is satisfiable) -/
example : (run fixedCfg (init fixedCfg 1 1 2 [] [.plain]) lateSyncSched).stops = [.sRet, .sIdle] := by decide
/-- a row is processed and reaches a panicking and a plain sink, the processor is back in its loop -/
example : (run fixedCfg (init fixedCfg 1 1 2 [] [.panics, .plain])
    [(.emit false, .data), (.eng, .data), (.eng, .data), (.eng, .data), (.eng, .data)]).log.length = 2 ∧
    (run fixedCfg (init fixedCfg 1 1 2 [] [.panics, .plain])
    [(.emit false, .data), (.eng, .data), (.eng, .data), (.eng, .data), (.eng, .data)]).eng = { act := .idle, alive := true, joined := false } := by
  decide

end C18

/-! tie to the source constants (regenerated on every run from the repository by factsgen) -/
theorem C18.facts_lifecycle :
    Facts.stream_defaultStopGrace = 5000000000 ∧
    Facts.stream_Stream_startSinkWorkerPool_intlits = [0, 8, 0] ∧
    Facts.stream_Stream_Stop_intlits = [0, 1] := by decide
