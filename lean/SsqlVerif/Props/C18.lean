/-
C18 — lifecycle operations are safe under any interleaving, Stop is a barrier (placeholder while
the proofs are being written).
-/
import SsqlVerif.Model.Lifecycle
set_option autoImplicit false

namespace C18
open Lifecycle

theorem init_log (c : Cfg) : (init c 1 1 2 [] []).log = [] := rfl

end C18
