/-
C10 — Session windows split a key's events at gaps above the timeout, each event once.
Property theorems only (helper lemmas: `Proofs/Session*.lean`).  Quantified over every timeout,
MAXOUTOFORDERNESS, key set and op sequence: all arrival orders (in order, out of order within the
tolerance, bridging events that merge two sessions) and all placements of the expiry pass relative
to the Adds.
-/
import SsqlVerif.Proofs.SessionRun
import SsqlVerif.Proofs.SessionOrder
import SsqlVerif.Proofs.SessionFlush
set_option autoImplicit false

namespace C10
open Session
open Tumbling (leOpt)

/-- **Each accepted event exactly once (counting form).** Rows in open sessions plus rows in
delivered sessions equal the rows accepted on time — nothing lost, nothing duplicated, whatever
the schedule of expiry passes and whatever sessions were merged on the way. -/
theorem each_once_counting (timeout ooo : Int) (ops : List Op) (x : Row) :
    (openRows (run (init timeout ooo 0) ops).1).count x + (firstRows (run (init timeout ooo 0) ops).2).count x
      = (acceptedRows (init timeout ooo 0) ops).count x := by
  have := run_conserve (init timeout ooo 0) ops x
  simpa [init, openRows] using this

/-- **window_start / window_end.** A delivered session is non-empty, starts at its earliest row and
ends at its latest row plus the timeout. -/
theorem session_bounds (timeout ooo lateness : Int) (ht : 0 < timeout) (ops : List Op) :
    ∀ e ∈ (run (init timeout ooo lateness) ops).2, e.late = false →
      e.rows ≠ [] ∧ (∀ r ∈ e.rows, e.start ≤ r.ts ∧ r.ts + timeout ≤ e.stop) ∧
      (∃ r ∈ e.rows, r.ts = e.start) ∧ (∃ r ∈ e.rows, r.ts + timeout = e.stop) := by
  intro e he hl
  exact (run_firsts (init timeout ooo lateness) ops (inv_init timeout ooo lateness ht) e he hl).1

/-- **Delivered only after the watermark passed the end** (shared with C02). -/
theorem no_early_delivery (timeout ooo lateness : Int) (ht : 0 < timeout) (ops : List Op) :
    ∀ e ∈ (run (init timeout ooo lateness) ops).2, e.late = false →
      leOpt e.stop (run (init timeout ooo lateness) ops).1.wm.cur := by
  intro e he hl
  exact (run_firsts (init timeout ooo lateness) ops (inv_init timeout ooo lateness ht) e he hl).2.2

/-- the gap clause for one delivered session, without sorting: every row but an earliest one has a
strictly earlier row of the session within the timeout (⇔ consecutive sorted timestamps differ by
at most the timeout ⇔ two rows further apart with nothing in between are never together) -/
def GapClause (timeout : Int) (e : Emission) : Prop := Chain timeout e.start e.rows

/-- **Gap clause.** Every delivered session satisfies it — for every arrival order and every
placement of the expiry passes. -/
theorem gap_splits (timeout ooo lateness : Int) (ht : 0 < timeout) (ops : List Op) :
    ∀ e ∈ (run (init timeout ooo lateness) ops).2, e.late = false → GapClause timeout e := by
  intro e he hl
  exact (run_firsts (init timeout ooo lateness) ops (inv_init timeout ooo lateness ht) e he hl).2.1

/-- **Open sessions of one key stay a full timeout apart** (so an event never has two sessions to
choose from, and what is merged is exactly what the event bridges). -/
theorem open_sessions_apart (timeout ooo lateness : Int) (ht : 0 < timeout) (ops : List Op) :
    (run (init timeout ooo lateness) ops).1.sessions.Pairwise
      (fun a b => a.key = b.key → a.stop ≤ b.start ∨ b.stop ≤ a.start) :=
  (inv_run (init timeout ooo lateness) ops (inv_init timeout ooo lateness ht)).hsep

/-- an on-time event joins every open session of its key it touches, and only those -/
theorem joins_exactly_the_touched (w : SWin) (k : Key) (r : Row) (now : Int) (t : Sess) (os : List Sess)
    (h : fate w k r now = .join t os) (s : Sess) :
    s ∈ t :: os ↔ s ∈ w.sessions ∧ s.key = k ∧ s.start - w.timeout < r.ts ∧ r.ts < s.stop := by
  rw [← (fate_join_touched w k r now t os h).1, mem_touched]
  simp only [touches, Bool.and_eq_true, beq_iff_eq, decide_eq_true_eq]
  constructor
  · rintro ⟨h1, ⟨h2, h3⟩, h4⟩; exact ⟨h1, h2, h3, h4⟩
  · rintro ⟨h1, h2, h3, h4⟩; exact ⟨h1, ⟨h2, h3⟩, h4⟩

/-! ### non-vacuity: an in-order gap splits; an out-of-order bridging event merges -/
def demoOps : List Op :=
  [.add ['a'] ⟨1, 1000⟩ 1000000, .add ['a'] ⟨2, 1005⟩ 1000000, .add ['a'] ⟨3, 1050⟩ 1000000,
   .add ['b'] ⟨4, 9000⟩ 1000000, .deliver, .deliver, .deliver, .deliver]

example : ((run (init 10 0 0) demoOps).2.map (fun e => (e.key, e.start, e.stop, e.rows.map (·.id))))
    = [(['a'], 1000, 1015, [1, 2]), (['a'], 1050, 1060, [3])] := by decide

/-- tolerance 100: 100 and 115 open two sessions of key a, then 108 bridges them into one -/
def bridgeOps : List Op :=
  [.add ['a'] ⟨1, 100⟩ 1000000, .add ['a'] ⟨2, 115⟩ 1000000, .add ['a'] ⟨3, 108⟩ 1000000,
   .add ['a'] ⟨4, 5000⟩ 1000000, .deliver, .deliver, .deliver]

example : (run (init 10 100 0) (bridgeOps.take 2)).1.sessions.length = 2 := by decide
example : ((run (init 10 100 0) bridgeOps).2.map (fun e => (e.start, e.stop, e.rows.map (·.id))))
    = [(100, 125, [1, 2, 3])] := by decide

/-! ### manual flush (`Streamsql.TriggerWindow`) -/

/-- **A manual flush delivers every open row exactly once and leaves nothing behind**: from any reachable
state, the rows it delivers are the rows of the open sessions (multiplicities included), every delivered
session has the bounds and the gap clause of a session, no session stays open, and the flushed window again
satisfies every invariant the theorems above rest on — so they go on holding for the rows that follow. -/
theorem manual_flush (timeout ooo lateness : Int) (ht : 0 < timeout) (ops : List Op) (x : Row) :
    let w := (run (init timeout ooo lateness) ops).1
    (firstRows (flushAll w).2).count x = (openRows w).count x ∧
    (∀ e ∈ (flushAll w).2, e.late = false ∧ EmOk timeout e ∧ Chain timeout e.start e.rows) ∧
    (flushAll w).1.sessions = [] ∧ Inv (flushAll w).1 := by
  intro w
  have hinv : Inv w := inv_run (init timeout ooo lateness) ops (inv_init timeout ooo lateness ht)
  have ht' : w.timeout = timeout := run_timeout (init timeout ooo lateness) ops
  refine ⟨flushAll_rows w x, ?_, rfl, flushAll_inv w hinv⟩
  intro e he
  have := flushAll_emissions w hinv e he
  rw [ht'] at this
  exact this

example : ((flushAll (run (init 10 0 0) (demoOps.take 3)).1).2.map (fun e => (e.start, e.stop, e.rows.map (·.id))))
    = [(1000, 1015, [1, 2]), (1050, 1060, [3])] := by decide

/-! ### in-order input: the outcome does not depend on how fast the events are fed -/

/-- what a history has produced: the sessions delivered (first deliveries) and the sessions still open, as
the user sees them (key, window_start, window_end, rows) -/
def outcome (timeout ooo lateness : Int) (ops : List Op) (x : RefS) : Prop :=
  x ∈ (run (init timeout ooo lateness) ops).1.sessions.map Sess.toRef ∨ x ∈ firstsRef (run (init timeout ooo lateness) ops).2

/-- **In-order input is sessionized like the reference, whatever the schedule.**  `reference` looks at the
Adds only (`reference_ignores_schedule`); for every in-order history without idle ticks — Adds interleaved
with ticker runs and expiry passes in any way, the trigger goroutine lagging arbitrarily — the delivered and
the still open sessions together are exactly the reference's sessions. -/
theorem inorder_outcome_is_reference (timeout ooo lateness : Int) (ht : 0 < timeout) (ho : 0 ≤ ooo) (lo : Int)
    (ops : List Op) (hord : InOrderFrom lo ops) :
    ∀ x, x ∈ reference timeout ops ↔ outcome timeout ooo lateness ops x := by
  obtain ⟨hi, hj⟩ := j_run (init timeout ooo lateness) [] [] lo (j_init timeout ooo lateness ht ho lo) ops hord
  intro x
  have := hj.same x
  rw [List.nil_append] at this
  exact this

theorem reference_ignores_schedule (timeout : Int) (a b : List Op) (h : addsOf a = addsOf b) :
    reference timeout a = reference timeout b := reference_congr timeout a b h

/-- **Schedule independence.**  Two in-order histories with the same Adds — fed fast or slowly, with expiry
passes wherever the scheduler puts them — have produced the same sessions. -/
theorem schedule_independent (timeout ooo lateness : Int) (ht : 0 < timeout) (ho : 0 ≤ ooo) (lo : Int)
    (a b : List Op) (hsame : addsOf a = addsOf b) (ha : InOrderFrom lo a) (hb : InOrderFrom lo b) :
    ∀ x, outcome timeout ooo lateness a x ↔ outcome timeout ooo lateness b x := by
  intro x
  rw [← inorder_outcome_is_reference timeout ooo lateness ht ho lo a ha x,
      ← inorder_outcome_is_reference timeout ooo lateness ht ho lo b hb x,
      reference_congr timeout a b hsame]

/-- … in particular once everything has been delivered: the delivered sessions are the reference's. -/
theorem delivered_is_reference_after_flush (timeout ooo lateness : Int) (ht : 0 < timeout) (ho : 0 ≤ ooo) (lo : Int)
    (ops : List Op) (hord : InOrderFrom lo ops) (hflushed : (run (init timeout ooo lateness) ops).1.sessions = []) :
    ∀ x, x ∈ reference timeout ops ↔ x ∈ firstsRef (run (init timeout ooo lateness) ops).2 := by
  intro x
  rw [inorder_outcome_is_reference timeout ooo lateness ht ho lo ops hord x]
  unfold outcome
  rw [hflushed]
  simp

/-- two schedules of the same in-order Adds: expiry passes after every Add / only at the end -/
def eagerOps : List Op :=
  [.add ['a'] ⟨1, 1000⟩ 1000000, .deliver, .add ['a'] ⟨2, 1005⟩ 1000000, .deliver, .add ['b'] ⟨3, 1007⟩ 1000000, .deliver,
   .add ['a'] ⟨4, 1050⟩ 1000000, .deliver, .add ['b'] ⟨5, 9000⟩ 1000000, .deliver]
def lazyOps : List Op :=
  [.add ['a'] ⟨1, 1000⟩ 1000000, .add ['a'] ⟨2, 1005⟩ 1000000, .tick false 1, .add ['b'] ⟨3, 1007⟩ 1000000,
   .add ['a'] ⟨4, 1050⟩ 1000000, .add ['b'] ⟨5, 9000⟩ 1000000, .deliver, .deliver, .deliver, .deliver, .deliver]
example : InOrderFrom 0 eagerOps ∧ InOrderFrom 0 lazyOps ∧ addsOf eagerOps = addsOf lazyOps := by
  simp [InOrderFrom, eagerOps, lazyOps, addsOf]
example : (reference 10 eagerOps).map (fun x => (x.key, x.start, x.stop, x.rows.map (·.id))) =
    [(['a'], 1000, 1015, [1, 2]), (['b'], 1007, 1017, [3]), (['a'], 1050, 1060, [4]), (['b'], 9000, 9010, [5])] := by decide
example : (firstsRef (run (init 10 0 0) eagerOps).2).length = 3 ∧ (firstsRef (run (init 10 0 0) lazyOps).2).length = 3 := by decide
/-- out-of-order input is outside the theorem for a reason: the reference is then not what the engine
(rightly, C10's merge clause) produces -/
example : ¬ InOrderFrom 0 bridgeOps := by simp [InOrderFrom, bridgeOps]

end C10
