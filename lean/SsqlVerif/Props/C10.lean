/-
C10 — Session windows split a key's events at gaps above the timeout, each event once.
Property theorems only (helper lemmas: `Proofs/Session*.lean`).  Quantified over every timeout,
MAXOUTOFORDERNESS, key set and op sequence (all arrival orders and all placements of the expiry
pass relative to the Adds).  The gap clause holds only under hypothesis `H` (no on-time row
arrives out of order across a gap of its key); its full statement is kept visible, with a proved
negation witness — that class is the recorded finding.
-/
import SsqlVerif.Proofs.SessionRun
set_option autoImplicit false

namespace C10
open Session
open Tumbling (leOpt)

/-- **Each accepted event exactly once (counting form).** Rows in open sessions plus rows in
delivered sessions equal the rows accepted on time — nothing lost, nothing duplicated, whatever
the schedule of expiry passes. -/
theorem each_once_counting (timeout ooo : Int) (ht : 0 < timeout) (ops : List Op) (x : Row) :
    (openRows (run (init timeout ooo 0) ops).1).count x + (firstRows (run (init timeout ooo 0) ops).2).count x
      = (acceptedRows (init timeout ooo 0) ops).count x := by
  have := run_conserve (init timeout ooo 0) ops x (inv_init timeout ooo 0 ht)
  simpa [init, openRows] using this

/-- **window_start / window_end.** A delivered session is non-empty, starts at its earliest row and
ends at its latest row plus the timeout. -/
theorem session_bounds (timeout ooo lateness : Int) (ht : 0 < timeout) (ops : List Op) :
    ∀ e ∈ (run (init timeout ooo lateness) ops).2, e.late = false →
      e.rows ≠ [] ∧ (∀ r ∈ e.rows, e.start ≤ r.ts ∧ r.ts + timeout ≤ e.stop) ∧
      (∃ r ∈ e.rows, r.ts = e.start) ∧ (∃ r ∈ e.rows, r.ts + timeout = e.stop) := by
  intro e he hl
  exact (run_firsts (init timeout ooo lateness) ops (inv_init timeout ooo lateness ht) e he hl).1

/-- **Delivered only after the watermark passed the end** (shared with C02). -/
theorem no_early_delivery (timeout ooo lateness : Int) (ht : 0 < timeout) (ops : List Op) :
    ∀ e ∈ (run (init timeout ooo lateness) ops).2, e.late = false →
      leOpt e.stop (run (init timeout ooo lateness) ops).1.wm.cur := by
  intro e he hl
  exact (run_firsts (init timeout ooo lateness) ops (inv_init timeout ooo lateness ht) e he hl).2

/-- the gap clause for one delivered session, without sorting: every row but an earliest one has a
strictly earlier row of the session within the timeout (⇔ consecutive sorted timestamps differ by
at most the timeout ⇔ two rows further apart with nothing in between are never together) -/
def GapClause (timeout : Int) (e : Emission) : Prop := Chain timeout e.start e.rows

/-- **Gap clause — full statement** (false of the code as it is, see `gap_splits_fails`). -/
def gap_splits_full : Prop :=
  ∀ (timeout ooo : Int), 0 < timeout → ∀ ops : List Op,
    ∀ e ∈ (run (init timeout ooo 0) ops).2, e.late = false → GapClause timeout e

/-- **Gap clause under H.** If no on-time row arrives out of order across a gap of its key
(`NoAcrossGapAll`, a decidable condition on the input history), every delivered session satisfies
the gap clause — for every placement of the expiry passes. -/
theorem gap_splits_partial (timeout ooo lateness : Int) (ht : 0 < timeout) (ops : List Op)
    (hH : NoAcrossGapAll (init timeout ooo lateness) ops) :
    ∀ e ∈ (run (init timeout ooo lateness) ops).2, e.late = false → GapClause timeout e := by
  intro e he hl
  exact run_chain (init timeout ooo lateness) ops (inv_init timeout ooo lateness ht)
    (by intro s hs; cases hs) hH e he hl

/-- the witness history: timeout 10, tolerance 100, one key; 100 arrives, then 50 (on time, a full
timeout or more below the open session's start), flush -/
def witnessOps : List Op :=
  [.add ['a'] ⟨1, 100⟩ 1000000, .add ['a'] ⟨2, 50⟩ 1000000, .add ['a'] ⟨3, 5000⟩ 1000000,
   .deliver, .deliver, .deliver]

theorem gap_splits_fails : ¬ gap_splits_full := by
  intro h
  have h1 := h 10 100 (by decide) witnessOps
    { late := false, key := ['a'], start := 50, stop := 110, rows := [⟨1, 100⟩, ⟨2, 50⟩] } (by decide) rfl
  have h2 := h1 ⟨1, 100⟩ (by simp)
  rcases h2 with h2 | ⟨p, hp, hlt, hd⟩
  · simp at h2
  · simp only [List.mem_cons, List.mem_nil_iff, or_false] at hp
    rcases hp with rfl | rfl
    · simp at hlt
    · simp at hd

/-- the witness is outside H, as it must be -/
example : ¬ NoAcrossGapAll (init 10 100 0) witnessOps := by decide

/-! ### non-vacuity: an in-order history with a gap satisfies H and splits -/
def demoOps : List Op :=
  [.add ['a'] ⟨1, 1000⟩ 1000000, .add ['a'] ⟨2, 1005⟩ 1000000, .add ['a'] ⟨3, 1050⟩ 1000000,
   .add ['b'] ⟨4, 9000⟩ 1000000, .deliver, .deliver, .deliver, .deliver]

example : ((run (init 10 0 0) demoOps).2.map (fun e => (e.key, e.start, e.stop, e.rows.map (·.id))))
    = [(['a'], 1000, 1015, [1, 2]), (['a'], 1050, 1060, [3])] := by decide

example : NoAcrossGapAll (init 10 0 0) demoOps := by decide

end C10
