/-
C16 — Stream-table JOIN enriches each row from the table state at processing time.
Property theorems only; helper lemmas live in `Proofs/Join.lean` (and `Proofs/GroupKey.lean` for
the escaped join key).  `F` is the type of float64 values (-0 = 0, no NaN), `nf.ofInt` Go's
integer→float64 conversion, `nf.fmt` = `strconv.FormatFloat(·,'f',-1,64)`; where a theorem needs
the formatting to be injective this is the explicit hypothesis `hinj` (trusted Go runtime).
A history is a list of critical sections (upsert / delete / processing of one emitted row), so the
theorems range over every interleaving of table updates with row processing at the granularity
of the table's RWMutex.
-/
import SsqlVerif.Proofs.Join
import SsqlVerif.Proofs.GroupKeyTyped
import SsqlVerif.Generated.Facts
set_option autoImplicit false

namespace C16
open Join JoinSpec

/-- Equal keys have the same encoded key — numbers by value: `1`, `1.0`, `int64 1` (all `ofInt 1`
after conversion) — without any assumption on the formatting. -/
theorem encodeKey_respects_keyEq {F : Type} [DecidableEq F] (nf : NumFmt F)
    (k k' : List (KVal F)) (h : keyEq nf k k' = true) : encodeKey nf k = encodeKey nf k' :=
  encodeKey_of_keyEq nf k k' h

/-- Keys of the same arity with the same encoded key are equal, component by component — for all
strings (separator bytes, type-tag look-alikes such as `"\x1fs:x"` included), numbers, bools, NULL. -/
theorem encodeKey_reflects_keyEq {F : Type} [DecidableEq F] (nf : NumFmt F)
    (hinj : ∀ x y : F, nf.fmt x = nf.fmt y → x = y)
    (k k' : List (KVal F)) (hl : k.length = k'.length) (h : encodeKey nf k = encodeKey nf k') :
    keyEq nf k k' = true :=
  (encodeKey_eq_iff nf hinj k k' hl).1 h

/-- Numeric normalisation: an integer and the float64 of the same value have the same key text;
a number never has the key text of a string, a bool or NULL (`1` vs `"1"`). -/
theorem numeric_normalisation {F : Type} (nf : NumFmt F) (i : Int) (s : GroupKey.Str) (b : Bool) :
    encodeOne nf (.int i) = encodeOne nf (.flt (nf.ofInt i)) ∧
    encodeOne nf (.int i) ≠ encodeOne nf (.str s) ∧ encodeOne nf (.int i) ≠ encodeOne nf (.bool b) ∧
    encodeOne nf (.int i) ≠ encodeOne nf .null ∧ encodeOne nf (.str s) ≠ encodeOne nf .null := by
  refine ⟨rfl, ?_, ?_, ?_, ?_⟩ <;> simp [encodeOne]

/-- Composite keys match iff every component matches: the encoded keys of two tuples of the same
arity are equal exactly when all components are pairwise equal. -/
theorem composite_all_components {F : Type} [DecidableEq F] (nf : NumFmt F)
    (hinj : ∀ x y : F, nf.fmt x = nf.fmt y → x = y)
    (k k' : List (KVal F)) (hl : k.length = k'.length) :
    encodeKey nf k = encodeKey nf k' ↔ ∀ i (h : i < k.length), compEq nf k[i] (k'[i]'(hl ▸ h)) = true := by
  rw [encodeKey_eq_iff nf hinj k k' hl]
  induction k generalizing k' with
  | nil => cases k' with
    | nil => simp [keyEq]
    | cons b bs => simp at hl
  | cons a as ih => cases k' with
    | nil => simp at hl
    | cons b bs =>
      have hl' : as.length = bs.length := by simpa using hl
      simp only [keyEq, Bool.and_eq_true, ih bs hl']
      constructor
      · rintro ⟨h0, hr⟩ i hi
        cases i with
        | zero => exact h0
        | succ j => exact hr j (by simpa using hi)
      · intro h
        exact ⟨h 0 (by simp), fun j hj => h (j + 1) (by simpa using hj)⟩

/-- The index refines the abstract map, for every history: whatever sequence of upserts, deletes
and processed rows over keys of arity `n`, every processed row gets exactly the output the
specification gives on the partial map "key (up to key equality) ↦ row". -/
theorem table_refines_map {F ρ : Type} [DecidableEq F] (nf : NumFmt F)
    (hinj : ∀ x y : F, nf.fmt x = nf.fmt y → x = y) (n : Nat) (jt : JoinType)
    (ops : List (Op (List (KVal F)) ρ)) (harity : ∀ op ∈ ops, (opKey op).length = n) :
    run (encodeKey nf) jt [] ops = outputs (keyEq nf) jt JoinSpec.empty ops :=
  run_refines (encodeKey nf) (keyEq nf) (fun k => k.length = n)
    (fun k k' hk hk' => encodeKey_eq_iff nf hinj k k' (hk.trans hk'.symm)) jt ops [] _
    (repr_empty _ _) harity

/-- Rows processed before an update are unaffected by it, rows after it run on the updated table:
the outputs of a prefix of the history do not depend on what follows. -/
theorem earlier_rows_unaffected {κ σ ρ : Type} [DecidableEq σ] (enc : κ → σ) (jt : JoinType)
    (before after : List (Op κ ρ)) :
    run enc jt [] (before ++ after)
      = run enc jt [] before ++ run enc jt (tableAfter enc [] before) after :=
  run_append enc jt before after []

/-- Read your writes: a row processed after `Upsert(row)` returned, with an equal key, is enriched
with exactly that row — whatever happened before. -/
theorem read_your_writes_upsert {F ρ : Type} [DecidableEq F] (nf : NumFmt F) (jt : JoinType)
    (before : List (Op (List (KVal F)) ρ)) (k q : List (KVal F)) (r : ρ) (h : keyEq nf k q = true) :
    run (encodeKey nf) jt [] (before ++ [.upsert k r, .emit q])
      = run (encodeKey nf) jt [] before ++ [.kept (some r)] := by
  rw [run_append]
  simp only [run, lookup_upsert, encodeKey_of_keyEq nf k q h, if_true, enrich]

/-- … and after `Delete(key)` returned it finds nothing: INNER drops it, LEFT keeps it with NULL
table columns. -/
theorem read_your_writes_delete {F ρ : Type} [DecidableEq F] (nf : NumFmt F) (jt : JoinType)
    (before : List (Op (List (KVal F)) ρ)) (k q : List (KVal F)) (h : keyEq nf k q = true) :
    run (encodeKey nf) jt [] (before ++ [.delete k, .emit q])
      = run (encodeKey nf) jt [] before ++ [if jt = .left then .kept none else .dropped] := by
  rw [run_append]
  simp only [run, lookup_erase, encodeKey_of_keyEq nf k q h, if_true]
  cases jt <;> rfl

/-- INNER drops / LEFT keeps: in every history an INNER JOIN never outputs a row without table
row, a LEFT JOIN never drops a row. -/
theorem inner_left_semantics {κ σ ρ : Type} [DecidableEq σ] (enc : κ → σ) :
    ∀ (ops : List (Op κ ρ)) (t : Index σ ρ),
      (∀ o ∈ run enc .inner t ops, o ≠ .kept none) ∧ (∀ o ∈ run enc .left t ops, o ≠ .dropped) := by
  intro ops
  induction ops with
  | nil => intro t; simp [run]
  | cons op ops ih =>
    intro t
    cases op with
    | upsert k r => simpa [run] using ih _
    | delete k => simpa [run] using ih _
    | emit k =>
      obtain ⟨h1, h2⟩ := ih t
      refine ⟨?_, ?_⟩
      · intro o ho
        simp only [run, List.mem_cons] at ho
        rcases ho with rfl | ho
        · cases lookup t (enc k) <;> simp [enrich]
        · exact h1 o ho
      · intro o ho
        simp only [run, List.mem_cons] at ho
        rcases ho with rfl | ho
        · cases lookup t (enc k) <;> simp [enrich]
        · exact h2 o ho

/-! non-vacuity, with a concrete formatter (`F := Int`, decimal text) -/
def nfInt : NumFmt Int := ⟨id, GroupKey.intStr⟩

-- the colliding pair of the unrepaired encodeKey is separated; numbers normalise; "1" is not 1
example : encodeKey nfInt [.str ['x', Char.ofNat 0x1f, 's', ':', 'y'], .str ['z']]
        ≠ encodeKey nfInt [.str ['x'], .str ['y', Char.ofNat 0x1f, 's', ':', 'z']] := by decide
example : encodeKey nfInt [.int 1, .str ['a']] = encodeKey nfInt [.flt 1, .str ['a']] := by decide
example : encodeKey nfInt [.int 1] ≠ encodeKey nfInt [.str ['1']] := by decide
example : encodeKey nfInt [.int 1] = "n:1".toList ∧ encodeKey nfInt [.null] = "<nil>".toList := by decide
example : keyEq nfInt [.int 1, .null] [.flt 1, .null] = true ∧ keyEq nfInt [.int 1] [.int 1, .null] = false := by decide
-- a history: upsert, matching row, delete, same row again (INNER, then LEFT)
example : run (encodeKey nfInt) .inner ([] : Index _ Nat)
    [.upsert [.int 7] 100, .emit [.flt 7], .emit [.int 8], .delete [.flt 7], .emit [.int 7]]
    = [.kept (some 100), .dropped, .dropped] := by decide
example : run (encodeKey nfInt) .left ([] : Index _ Nat)
    [.upsert [.int 7] 100, .emit [.flt 7], .emit [.int 8], .delete [.flt 7], .emit [.int 7]]
    = [.kept (some 100), .kept none, .kept none] := by decide

end C16

/-! tie to the source: type tags, NULL text, separator and escape bytes of the join key -/
theorem C16.facts_join_key :
    Facts.stream_encodeOne_strlits = ["<nil>", "n:", "f", "s:", "b:", "%T:%v"] ∧
    Facts.stream_joinKeySep = "\x1f" ∧
    Facts.stream_escapeJoinKeyPart_strlits = ["\\", "\\", "\\"] := by decide
