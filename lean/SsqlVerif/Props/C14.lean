import SsqlVerif.Model.AnalyticQuery
import SsqlVerif.Spec.AnalyticQuery
import SsqlVerif.Generated.Facts
set_option autoImplicit false
namespace C14
theorem placeholder : True := trivial
end C14
