/-
C14 — analytic functions are sequential per partition and isolated across partitions.
Property theorems only; helper lemmas live in `Proofs/Analytic*.lean`.
All statements are for every number type `ν` with the operations of `NumOps` (no arithmetic
law is used: sums are folds in arrival order, exactly the float64 operations the code performs;
the driver instantiates `ν := Float`), every history, every interleaving, every key set.
-/
import SsqlVerif.Proofs.AnalyticQuery
import SsqlVerif.Generated.Facts
set_option autoImplicit false

namespace C14
open Analytic Analytic.Spec

section functions
variable {ν : Type} [NumOps ν]

/-- `lagState` keeps only the last `offset` recorded values; nothing is lost by that: the value
is the `offset`-th most recent earlier value over the WHOLE history of the partition (NULLs
skipped under `ignoreNull`), else the row's default.  `n` is the offset argument as written
(`effOffset`: non-positive ⇒ 1, as the code does). -/
theorem lag_bounded_history_eq_spec (n : Int) (ign : Bool) (hist : List (LagIn ν)) (cur : LagIn ν) :
    (lagMachine (effOffset n) ign).out hist cur = lagSpec (effOffset n) ign hist cur :=
  lag_out (effOffset n) (effOffset_pos n) ign hist cur

theorem latest_eq_spec (hist : List (LagIn ν)) (cur : LagIn ν) :
    (latestMachine (ν := ν)).out hist cur = latestSpec hist cur :=
  latest_out hist cur

theorem changed_col_eq_spec (ign : Bool) (hist : List (Val ν)) (v : Val ν) :
    (changedColMachine ign).out hist v = changedColSpec ign hist v :=
  changedCol_out ign hist v

/-- `n` = number of column arguments, fixed by the SQL text -/
theorem changed_cols_eq_spec (ign : Bool) (n : Nat) (hist : List (List (Val ν))) (cur : List (Val ν))
    (hw : ∀ r ∈ hist, r.length = n) (hc : cur.length = n) :
    (changedColsMachine ign).out hist cur = changedColsSpec ign hist cur :=
  changedCols_out ign n hist cur hw hc

theorem had_changed_eq_spec (ign : Bool) (n : Nat) (hist : List (List (Val ν))) (cur : List (Val ν))
    (hw : ∀ r ∈ hist, r.length = n) (hc : cur.length = n) :
    (hadChangedMachine ign).out hist cur = hadChangedSpec ign hist cur :=
  hadChanged_out ign n hist cur hw hc

/-- all five accumulators, with and without start/reset arguments: the running state equals the
aggregate over the rows after the last reset, from the first start on -/
theorem acc_eq_spec (kind : AccKind) (hasStart hasReset : Bool) (hist : List (AccIn ν)) (cur : AccIn ν) :
    (accMachine kind hasStart hasReset).out hist cur = accSpec kind hasStart hasReset hist cur :=
  acc_out kind hasStart hasReset hist cur

end functions

/-- The partition key encoding is injective: for all lists of byte strings (fragments), and hence
for all typed key tuples — `("a|","b")` and `("a","|b")`, `int 1` and `"1"`, nil and `"nil"` are
different partitions. -/
theorem partitionKey_injective :
    (∀ xs ys : List (List Char), encAll xs = encAll ys → xs = ys) ∧
    (∀ xs ys : List KVal, partitionKey xs = partitionKey ys → xs = ys) :=
  ⟨encAll_injective, partitionKey_inj⟩

section engine
variable {K σ α β : Type} [DecidableEq K]

/-- While the distinct live keys fit the cap the LRU never evicts: the engine is a total map —
every partition's state is the machine run over ALL its live rows, its cached value the last one. -/
theorem lru_no_evict_of_le_cap (cap : Nat) (m : Machine σ α β) (rows : List (FRow K α))
    (hcap : withinCap cap rows = true) (k : K) :
    absSt m.init (engState cap m (Eng.empty : Eng K σ β) rows) k = m.run m.init (liveArgs (partRows k rows)) ∧
    absLast (engState cap m (Eng.empty : Eng K σ β) rows) k = lastOut m (partRows k rows) :=
  engState_total cap m rows hcap k

/-- Hence every row's value is the definition applied to the earlier live rows of its own
partition (`f` = any definition the machine implements, e.g. the `_eq_spec` theorems above). -/
theorem engine_eq_spec (cap : Nat) (m : Machine σ α β) (f : List α → α → β)
    (hm : ∀ h a, m.out h a = f h a) (rows : List (FRow K α)) (hcap : withinCap cap rows = true) :
    engRun cap m (Eng.empty : Eng K σ β) rows = fieldSpec f rows := by
  rw [engRun_eq_fieldSpec cap m rows hcap]
  have : m.out = f := funext fun h => funext fun a => hm h a
  rw [this]

/-- Isolation: the outputs on the rows of partition `k` inside ANY interleaving equal the outputs
of running the rows of `k` alone. -/
theorem partition_isolation (cap : Nat) (hc : 1 ≤ cap) (m : Machine σ α β) (rows : List (FRow K α))
    (hcap : withinCap cap rows = true) (k : K) :
    restrict k rows (engRun cap m (Eng.empty : Eng K σ β) rows) =
      engRun cap m (Eng.empty : Eng K σ β) (partRows k rows) :=
  engRun_isolation cap hc m rows hcap k

/-- What "within the configured cap" excludes: a live row of a new key arriving at a full engine
evicts the least recently used partition, which restarts from the initial state, its cached
value forgotten. -/
theorem lru_evict_resets (cap : Nat) (m : Machine σ α β) (e : Eng K σ β) (k kb : K) (sb : σ) (a : α)
    (hnd : (keysOf e).Nodup) (hfull : e.lru.length = cap) (hpos : 1 ≤ cap)
    (hnew : k ∉ keysOf e) (hback : e.lru.getLast? = some (kb, sb)) :
    absSt m.init (evalLive cap m e k a).1 kb = m.init ∧ absLast (evalLive cap m e k a).1 kb = none :=
  evict_resets cap m e k kb sb a hnd hfull hpos hnew hback

/-- WHEN gating: a row whose WHEN fails touches nothing (neither state nor LRU order) and repeats
the cached value of its partition. -/
theorem when_gating (cap : Nat) (m : Machine σ α β) (e : Eng K σ β) (k : K) (a : α) :
    evalField cap m e k false a = (e, absLast e k) := rfl

end engine

section whereOrder
variable {S R O : Type}

/-- The rows that count: with a WHERE free of analytic calls the analytic engine sees exactly the
passing rows (and exactly those are emitted); with analytic calls inside WHERE every row is
evaluated first and emission is decided on the row's own analytic values. -/
theorem where_order (plain : R → Bool) (post : R → O → Bool) (A : Machine S R O) (rows : List R) (s : S) :
    ((runRows false plain post A s rows).filterMap id = Spec.whereFreeSpec plain (A.outs s) rows ∧
     (runRows false plain post A s rows).map Option.isSome = rows.map plain) ∧
    runRows true plain post A s rows = Spec.whereAnalyticSpec post (A.outs s) rows :=
  ⟨⟨runRows_free plain post A rows s, runRows_free_emits plain post A rows s⟩, runRows_uses plain post A rows s⟩

end whereOrder

section query
variable {ν : Type} [NumOps ν]

/-- End to end for one field of a query: the engine instance the model runs (keys = encoded
partition strings, state = the field's call machines, wrapper applied) yields, for every row, the
field's definition over the earlier rows of the same typed-key partition — lag/latest/
had_changed/changed_col(s)/acc_* with their arguments, WHEN, wrapper — while the live partitions
fit the cap. -/
theorem field_eq_spec (cap : Nat) (f : Field ν) (rows : List (Row ν))
    (hcap : withinCap cap (fieldRows f rows) = true) :
    engRun cap (fieldMachine f) (Eng.empty : FEng ν) (modelRows f rows) =
      fieldSpec (fieldFn f) (fieldRows f rows) :=
  field_engine_eq_spec cap f rows hcap

/-- The fields of a query (SELECT fields and the WHERE call) do not interfere, and each one
satisfies its definition: over ANY row sequence fed to the query's analytic engine (all rows, or
the rows passing an analytic-free WHERE — `where_order`), column `i` of the results is
`fieldSpec` of field `i`, while that field's live partitions fit the cap. -/
theorem query_column_eq_spec (q : Query ν) (i : Nat) (f : Field ν) (hf : q.allFields[i]? = some f)
    (rows : List (Row ν)) (hcap : withinCap (effCap q.cap) (fieldRows f rows) = true) :
    (q.machine.outs q.machine.init rows).map (fun o => o.getD i none) =
      fieldSpec (fieldFn f) (fieldRows f rows) := by
  rw [query_column q i f hf rows, field_engine_eq_spec _ f rows hcap]

/-- the oracle applies the definition exactly where the theorems' hypothesis holds: its
incremental cap flags are `withinCap` of every prefix of the field's rows -/
theorem oracle_cap_flags (cap : Nat) (rows : List (FRow (List KVal) (Row ν))) :
    capFlags cap rows = prefixFlags cap [] rows :=
  capFlags_eq cap rows

end query

/-! ### non-vacuity: concrete instances over `ν := Int` -/

instance : NumOps Int where
  zero := 0
  add := (· + ·)
  sub := (· - ·)
  div := (· / ·)
  lt := fun a b => decide (a < b)
  beq := fun a b => a == b
  ofInt := id

def li (v : Int) : LagIn Int := { val := .int v, dflt := .int (-1) }
def ln : LagIn Int := { val := .null, dflt := .int (-1) }

-- lag 2 over 5, NULL, 7, 9 (NULL skipped): the second most recent of [5,7,9] is 7; with one value only, the default
example : lagSpec (ν := Int) (effOffset 2) true [li 5, ln, li 7, li 9] (li 0) = .int 7 := by decide
example : (lagMachine (ν := Int) (effOffset 2) true).out [li 5, ln, li 7, li 9] (li 0) = .int 7 := by decide
example : (lagMachine (ν := Int) (effOffset 2) true).out [li 5] (li 0) = .int (-1) := by decide
example : effOffset 0 = 1 ∧ effOffset (-3) = 1 ∧ effOffset 3 = 3 := by decide
example : (latestMachine (ν := Int)).out [li 5, ln] ln = .int 5 := by decide
example : (changedColMachine (ν := Int) true).out [.int 1, .null] (.int 1) = .null := by decide
example : (changedColMachine (ν := Int) false).out [.int 1, .null] (.int 1) = .int 1 := by decide
example : (changedColsMachine (ν := Int) true).out [[.int 1, .int 2]] [.int 1, .int 3] = [none, some (.int 3)] := by decide
example : (hadChangedMachine (ν := Int) true).out [[.int 1, .int 2]] [.null, .int 2] = false := by decide
example : (hadChangedMachine (ν := Int) false).out [[.int 1, .int 2]] [.null, .int 2] = true := by decide
-- acc_sum(v, start, reset): 1 (not started) 2 (start) 3 | reset | 4 (not started) 5 (start)
def ai (v : Int) (st rs : Bool) : AccIn Int := { val := .int v, start := st, reset := rs }
example : (accMachine (ν := Int) .sum true true).out [ai 1 false false, ai 2 true false] (ai 3 false false) = .num 5 := by decide
example : (accMachine (ν := Int) .sum true true).out
    [ai 1 false false, ai 2 true false, ai 3 false false, ai 0 true true, ai 4 false false] (ai 5 true false) = .num 5 := by decide
example : accSpec (ν := Int) .max false false [ai 4 false false, ai 9 false false] (ai 2 false false) = .num 9 := by decide
example : accSpec (ν := Int) .avg false false [] { val := .str ['x'], start := false, reset := false } = .null := by decide
-- keys a naive `|`-join would merge
example : partitionKey [.str ['a','|'], .str ['b']] ≠ partitionKey [.str ['a'], .str ['|','b']] := by decide
example : partitionKey [.int 1] ≠ partitionKey [.str ['1']] := by decide
-- interleaving: partition a = 1,2 ; partition b = 10 in between; cap 2
def fr (k : Nat) (live : Bool) (v : Int) : FRow Nat (LagIn Int) := { key := k, live := live, arg := li v }
example : engRun 2 (lagMachine (ν := Int) 1 true) Eng.empty [fr 0 true 1, fr 1 true 10, fr 0 true 2, fr 0 false 3, fr 1 true 11]
    = [some (.int (-1)), some (.int (-1)), some (.int 1), some (.int 1), some (.int 10)] := by decide
example : withinCap 2 [fr 0 true 1, fr 1 true 10, fr 0 true 2] = true := by decide
-- cap 1: partition 0 is evicted by partition 1 and restarts
example : engRun 1 (lagMachine (ν := Int) 1 true) Eng.empty [fr 0 true 1, fr 1 true 10, fr 0 true 2]
    = [some (.int (-1)), some (.int (-1)), some (.int (-1))] := by decide
example : withinCap 1 [fr 0 true 1, fr 1 true 10, fr 0 true 2] = false := by decide

-- eviction: a full engine (cap 2, keys 1 then 0 at the back), new key 2 arrives: key 0 restarts
def eFull : Eng Nat (List (Val Int)) (Val Int) :=
  { lru := [(1, [.int 5]), (0, [.int 1])], last := [(0, .int 9), (1, .int 4)] }
example : (keysOf eFull).Nodup ∧ eFull.lru.length = 2 ∧ 2 ∉ keysOf eFull ∧ eFull.lru.getLast? = some (0, [.int 1]) := by decide
example : absSt [] (evalLive 2 (lagMachine (ν := Int) 1 true) eFull 2 (li 7)).1 0 = [] ∧
    absLast (evalLive 2 (lagMachine (ν := Int) 1 true) eFull 2 (li 7)).1 0 = none ∧
    absLast (evalLive 2 (lagMachine (ν := Int) 1 true) eFull 2 (li 7)).1 1 = some (.int 4) := by decide
-- WHEN fails: the cached value of the partition, nothing else changes
example : (evalField 2 (lagMachine (ν := Int) 1 true) eFull 0 false (li 7)).2 = some (.int 9) := by decide
-- WHERE order over a counting machine: rows failing a plain WHERE do not count; with analytic WHERE all count
def cnt : Machine Nat Int Nat := { init := 0, step := fun s _ => (s + 1, s + 1) }
example : runRows false (fun r => decide (r > 0)) (fun _ _ => true) cnt 0 [5, -1, 7] = [some 1, none, some 2] := by decide
example : runRows true (fun _ => true) (fun r o => decide (r > 0) && decide (o > 1)) cnt 0 [5, -1, 7] = [none, none, some 3] := by decide
-- one query field end to end: `v - lag(v) OVER (PARTITION BY k1 WHEN g > 0)`, keys "a|" and "a"
def fld : Field Int :=
  { calls := [.lag 0 none none none], wrap := .colMinus 0, part := some [0], when := some { col := 2, cmp := .gt, c := 0 } }
def qrow (k : List Char) (v g : Int) : Row Int :=
  { keys := [.str k, .null], cells := [.present (.int v), .missing, .present (.int g)] }
def qrows : List (Row Int) := [qrow ['a','|'] 10 1, qrow ['a'] 100 1, qrow ['a','|'] 13 1, qrow ['a'] 7 0, qrow ['a','|'] 20 1]
example : withinCap 2 (fieldRows fld qrows) = true := by decide
example : fieldSpec (fieldFn fld) (fieldRows fld qrows) =
    [some (.one .null), some (.one .null), some (.one (.int 3)), some (.one .null), some (.one (.int 7))] := by decide
example : engRun 2 (fieldMachine fld) (Eng.empty : FEng Int) (modelRows fld qrows) =
    [some (.one .null), some (.one .null), some (.one (.int 3)), some (.one .null), some (.one (.int 7))] := by decide

end C14

/-! tie to the source constants (regenerated on every run from /repo by factsgen): the partition
cap default, the type tags and separators of the key encoder, the accumulator kind names -/
theorem C14.facts_constants :
    Facts.stream_defaultMaxPartitions = (Analytic.defaultCap : Int) ∧
    Facts.stream_typeKey_strlits = ["nil|", "string|", "int|", "int64|", "int32|", "float64|", "g", "bool|true", "bool|false", "%T|%v"] ∧
    Facts.stream_analyticFieldEngine_partitionKey_strlits = ["", ":", "|"] ∧
    Facts.stream_analyticFieldEngine_partitionKey_intlits = [0, 4, 0, 10] ∧
    Facts.functions_accState_result_strlits = ["acc_sum", "acc_count", "acc_avg", "acc_max", "acc_min"] := by decide
