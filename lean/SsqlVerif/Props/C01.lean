/-
C01 — Tumbling windows count every accepted event exactly once, in its own window.
Property theorems only (helper lemmas: `Proofs/Tumbling*.lean`).  All statements quantify over
every window size, MAXOUTOFORDERNESS, every op sequence — i.e. every arrival order and every
interleaving of `Add` with the watermark ticker and with the trigger goroutine's critical
sections (pop a watermark, one loop iteration at a time) — with no bound on lengths.
ALLOWEDLATENESS = 0 here; late updates are C02.  Aggregation of an emitted batch is C03/C04.
-/
import SsqlVerif.Proofs.TumblingHist
import SsqlVerif.Proofs.TumblingPT
import SsqlVerif.Proofs.TumblingLateConserve
import SsqlVerif.Generated.Facts
set_option autoImplicit false

namespace C01
open Tumbling

/-- op sequences of the quantifier: timestamps are post-epoch (Go's alignment truncates) -/
def OpsOk (ops : List Op) : Prop := ∀ op ∈ ops, OpOk op

theorem l0_init (size ooo : Int) : L0 (init size ooo 0) := ⟨rfl, rfl⟩

/-- **Exactly once (counting form).** For every row value `x`: occurrences still buffered plus
occurrences in emitted results equal the number of times `x` was accepted. With distinct row
ids, an accepted row is therefore reported at most once, and never in two results. -/
theorem exactly_once_counting (size ooo : Int) (ops : List Op) (x : Row) :
    (run (init size ooo 0) ops).1.data.count x + (rowsOf (run (init size ooo 0) ops).2).count x
      = (acceptedRows (init size ooo 0) ops).count x := by
  have := run_conserve (init size ooo 0) ops x (l0_init size ooo)
  simpa [init] using this

theorem hist (size ooo : Int) (hs : 0 < size) (ops : List Op) (hok : OpsOk ops) :
    GoodH (run (init size ooo 0) ops).1 (run (init size ooo 0) ops).2 := by
  have hh := goodH_run (init size ooo 0) ops [] (good_init size ooo 0 hs) (l0_init size ooo)
    (goodH_init size ooo 0) hok
  rwa [List.nil_append] at hh

/-- **Own window.** Every emitted result is a first firing of a size-aligned interval
`[k·size, (k+1)·size)`, non-empty, and contains only rows whose timestamp lies in that interval. -/
theorem emission_shape (size ooo : Int) (hs : 0 < size) (ops : List Op) (hok : OpsOk ops) :
    ∀ e ∈ (run (init size ooo 0) ops).2,
      e.kind = .first ∧ e.stop = e.start + size ∧ size ∣ e.start ∧ e.rows ≠ [] ∧
      ∀ r ∈ e.rows, e.start ≤ r.ts ∧ r.ts < e.stop := by
  intro e he
  have h := (hist size ooo hs ops hok).hshape e he
  rw [run_size] at h
  obtain ⟨h1, h2, h3, h4, h5⟩ := h
  refine ⟨h1, h2, h3, h4, ?_⟩
  intro r hr
  have := h5 r hr
  simp only [inSlot, Bool.and_eq_true, decide_eq_true_eq] at this
  rw [h2]; exact this

/-- **No interval twice, in order.** First firings come in strictly increasing interval order;
in particular no interval is reported twice. -/
theorem intervals_strictly_increasing (size ooo : Int) (hs : 0 < size) (ops : List Op) (hok : OpsOk ops) :
    (run (init size ooo 0) ops).2.Pairwise (fun a b => a.start < b.start) :=
  (hist size ooo hs ops hok).hincr

/-- **No row in two intervals.** Two results that contain the same row are results for the same
interval (and by `intervals_strictly_increasing` there is only one such result). -/
theorem row_in_one_interval (size ooo : Int) (hs : 0 < size) (ops : List Op) (hok : OpsOk ops)
    (e1 e2 : Emission) (h1 : e1 ∈ (run (init size ooo 0) ops).2) (h2 : e2 ∈ (run (init size ooo 0) ops).2)
    (r : Row) (hr1 : r ∈ e1.rows) (hr2 : r ∈ e2.rows) : e1.start = e2.start := by
  have hh := hist size ooo hs ops hok
  have a := hh.hshape e1 h1
  have b := hh.hshape e2 h2
  rw [run_size] at a b
  exact shared_row_same_start size hs e1 e2 r a b hr1 hr2

/-- **On-time rows are accepted.** A row that is not behind the watermark on arrival is buffered. -/
theorem ontime_accepted (s : TW) (r : Row) (now : Int) (h : lateNow s r now = false) :
    fate s r now = .keep := by
  unfold fate; rw [h]; rfl

/-- **Completeness.** In every reachable state, a row that is still buffered belongs to an interval
whose end the last completed trigger pass (watermark `w`) has not reached. -/
theorem buffered_not_passed (size ooo : Int) (hs : 0 < size) (ops : List Op) (hok : OpsOk ops)
    (w : Int) (hw : (run (init size ooo 0) ops).1.doneW = some w)
    (x : Row) (hx : x ∈ (run (init size ooo 0) ops).1.data) (hts : 0 ≤ x.ts) :
    w < alignDown x.ts size + size := by
  have hg := good_run (init size ooo 0) ops (good_init size ooo 0 hs) hok
  cases hc : (run (init size ooo 0) ops).1.cur with
  | none => rw [(hg.hinit hc).2] at hw; cases hw
  | some c =>
    have h1 := hg.hdata c hc x hx
    have h2 := le_alignDown_of_dvd c x.ts _ hts hg.hsize (hg.halign c hc) h1
    have h3 := hg.hdoneCur w c hw hc
    simp only [run_size, init] at h2 h3
    omega

/-- … hence every accepted row whose interval the last completed pass has passed was emitted —
exactly as often as it was accepted (once, for distinct ids). -/
theorem accepted_and_passed_is_emitted (size ooo : Int) (hs : 0 < size) (ops : List Op) (hok : OpsOk ops)
    (w : Int) (hw : (run (init size ooo 0) ops).1.doneW = some w)
    (x : Row) (hts : 0 ≤ x.ts) (hpassed : alignDown x.ts size + size ≤ w) :
    (rowsOf (run (init size ooo 0) ops).2).count x = (acceptedRows (init size ooo 0) ops).count x := by
  have h1 := exactly_once_counting size ooo ops x
  have h2 : (run (init size ooo 0) ops).1.data.count x = 0 := by
    apply List.count_eq_zero.mpr
    intro hx
    have := buffered_not_passed size ooo hs ops hok w hw x hx hts
    omega
  omega

/-- **Processing time.** Under the clock hypothesis (a row's time never precedes the current
slot: ticks are never early and `now` is non-decreasing) nothing is lost or duplicated:
buffered + emitted = all rows added; each emission is exactly the buffered rows of the slot. -/
theorem processing_time_exactly_once (s : TW) (ops : List PtOp) (x : Row) (hg : PtGood s)
    (hok : PtAllOk s ops) :
    (ptRun s ops).1.data.count x + (rowsOf (ptRun s ops).2).count x
      = s.data.count x + (ops.filterMap (fun o => match o with | .add r => some r | .tick => none)).count x :=
  ptRun_conserve s ops x hg hok

/-- **Exactly once, any ALLOWEDLATENESS.** For every row value `x`, in every reachable state: occurrences still buffered
plus occurrences reported by FIRST firings equal the number of times `x` was accepted.  Late re-deliveries repeat the
rows of their interval and are not counted; neither a late update nor the purge that ends an allowance
(`closeExpiredWindows`) removes a buffered row — no buffered row ever lies inside a triggered window. -/
theorem exactly_once_counting_any_lateness (size ooo lateness : Int) (hs : 0 < size) (ops : List Op) (hok : OpsOk ops) (x : Row) :
    (run (init size ooo lateness) ops).1.data.count x + (firstRowsOf (run (init size ooo lateness) ops).2).count x
      = (acceptedRows (init size ooo lateness) ops).count x := by
  have := run_conserve_late (init size ooo lateness) ops [] x (good_init size ooo lateness hs)
    (goodF_init size ooo lateness) hok
  simpa [init] using this

/-- … in particular the purge at the end of an allowance keeps every buffered row, in every reachable state -/
theorem purge_keeps_pending_rows (size ooo lateness : Int) (hs : 0 < size) (ops : List Op) (hok : OpsOk ops) (w : Int) :
    (closeExpired (run (init size ooo lateness) ops).1 w).data = (run (init size ooo lateness) ops).1.data := by
  have hg := good_run (init size ooo lateness) ops (good_init size ooo lateness hs) hok
  have hf := goodF_run (init size ooo lateness) ops [] (good_init size ooo lateness hs) (goodF_init size ooo lateness) hok
  exact closeExpired_data _ w _ hg hf

/-! constants the model takes from the code (regenerated from /repo on every run) -/
theorem facts_watermark : Facts.window_maxFutureSlack = 86400000000000 := by decide

/-! ### non-vacuity: a concrete history meeting the hypotheses and exercising the re-seat path -/
def demoOps : List Op :=
  [.add ⟨1, 10500⟩ 1000000, .add ⟨2, 9700⟩ 1000000, .add ⟨3, 10600⟩ 1000000, .add ⟨4, 20000⟩ 1000000,
   .pop, .iter, .pop, .iter, .pop, .iter, .iter, .iter, .iter, .iter, .iter, .iter, .iter, .iter, .iter]

example : OpsOk demoOps := by unfold OpsOk; decide
example : ((run (init 1000 2000 0) demoOps).2.map (fun e => (e.start, e.rows.map (·.id))))
    = [(9000, [2]), (10000, [1, 3])] := by decide
example : (run (init 1000 2000 0) demoOps).1.doneW = some 18000 := by decide

/-! ### non-vacuity with ALLOWEDLATENESS > 0: a row exactly on a boundary survives the purge that ends the allowance of the
interval before it (size 1000, ALLOWEDLATENESS 200: [0,1000) fires at watermark 1000 and is purged at 1300) -/
def lateOps : List Op :=
  [.add ⟨1, 100⟩ 1000000, .add ⟨2, 1000⟩ 1000000, .pop, .iter, .pop, .iter, .iter, .add ⟨3, 1300⟩ 1000000, .pop, .iter,
   .add ⟨4, 2100⟩ 1000000, .pop, .iter, .iter, .iter]
example : OpsOk lateOps := by unfold OpsOk; decide
-- after the purge (first ten ops): nothing is registered any more, rows 2 and 3 are still buffered
example : (run (init 1000 0 200) (lateOps.take 10)).1.fired = [] := by decide
example : (run (init 1000 0 200) (lateOps.take 10)).1.data.map (·.id) = [2, 3] := by decide
example : (run (init 1000 0 200) lateOps).2.map (fun e => (e.start, e.rows.map (·.id))) = [(0, [1]), (1000, [2, 3])] := by decide

end C01
