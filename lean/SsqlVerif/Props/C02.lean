/-
C02 — Watermark discipline: no early firing, no on-time loss, bounded late updates.
Property theorems only (helper lemmas: `Proofs/TumblingLate`, `Proofs/WatermarkBound`, `Proofs/Session*`,
`Proofs/Sliding*`).  Quantified over every size / slide / timeout, MAXOUTOFORDERNESS, ALLOWEDLATENESS ≥ 0
and every op sequence (arrival orders, bursts with undelivered watermarks, far-future and
timestamp-less rows, all interleavings of Add with ticker and trigger passes).
"Inside the allowance" is read per window: the current watermark is below window_end + ALLOWEDLATENESS.
For overlapping (sliding) windows a late row re-delivers every open triggered window that contains it.
-/
import SsqlVerif.Proofs.WatermarkBound
import SsqlVerif.Proofs.WatermarkSources
import SsqlVerif.Proofs.TumblingHist
import SsqlVerif.Proofs.SlidingLate
import SsqlVerif.Proofs.SessionLate
import SsqlVerif.Proofs.SlidingLateRun
import SsqlVerif.Generated.Facts
set_option autoImplicit false

namespace C02
open Tumbling (leOpt)

/-! ### tumbling -/
section tumbling
open Tumbling Wm

def OpsOk (ops : List Op) : Prop := ∀ op ∈ ops, OpOk op
def NoIdleAll (ops : List Op) : Prop := ∀ op ∈ ops, NoIdle op

theorem tumbling_goodF (size ooo lateness : Int) (hs : 0 < size) (ops : List Op) (hok : OpsOk ops) :
    Good (run (init size ooo lateness) ops).1 ∧
    GoodF (run (init size ooo lateness) ops).1 (run (init size ooo lateness) ops).2 := by
  have h1 := good_run (init size ooo lateness) ops (good_init size ooo lateness hs) hok
  have h2 := goodF_run (init size ooo lateness) ops [] (good_init size ooo lateness hs) (goodF_init size ooo lateness) hok
  rw [List.nil_append] at h2
  exact ⟨h1, h2⟩

/-- **No early firing.** Without idle ticks, every delivered result (first firing or late update)
of an interval ending at `e.stop` is preceded by an ingested event — one that passed the
far-future guard — with timestamp at least `e.stop + MAXOUTOFORDERNESS`. -/
theorem tumbling_no_early_fire (size ooo lateness : Int) (hs : 0 < size) (ops : List Op)
    (hok : OpsOk ops) (hni : NoIdleAll ops) :
    ∀ e ∈ (run (init size ooo lateness) ops).2, ∃ m ∈ ingested ops, e.stop + ooo ≤ m := by
  intro e he
  obtain ⟨_, hf⟩ := tumbling_goodF size ooo lateness hs ops hok
  obtain ⟨y, hy, hey⟩ := no_early _ _ hf e he
  have hw := run_wm (init size ooo lateness) ops [] (by intro c h; cases h) (by intro m h; cases h) hni
  obtain ⟨m, hm, hle⟩ := hw.1 y hy
  have hoo : (run (init size ooo lateness) ops).1.wm.maxOOO = ooo := by rw [run_maxOOO]; rfl
  rw [hoo] at hle
  exact ⟨m, by simpa using hw.2 m hm, by omega⟩

/-- **No early firing, every history** (idle ticks and far-future rows included).  Every delivered result
(first firing or late update) of an interval ending at `e.stop` is backed by an event the history ingested
*and the far-future guard accepted* with timestamp at least `e.stop + MAXOUTOFORDERNESS`, or by a tick at
which the idle timeout had elapsed, at a wall-clock reading of at least `e.stop + MAXOUTOFORDERNESS`.
The statement holds for every op list, hence for every prefix of a history: the backing event or tick
precedes the delivery (`tumbling_no_early_fire_prefix`). -/
theorem tumbling_no_early_fire_full (size ooo lateness : Int) (hs : 0 < size) (ops : List Op) (hok : OpsOk ops) :
    ∀ e ∈ (run (init size ooo lateness) ops).2,
      (∃ m ∈ accepted ooo Facts.window_maxFutureSlack ops, e.stop + ooo ≤ m) ∨
      (∃ n ∈ idleNows ops, e.stop + ooo ≤ n) := by
  intro e he
  obtain ⟨_, hf⟩ := tumbling_goodF size ooo lateness hs ops hok
  obtain ⟨y, hy, hey⟩ := no_early _ _ hf e he
  have hb := run_backed (init size ooo lateness) ops [] [] ⟨(by intro c h; cases h), (by intro m h; cases h)⟩
  have hoo : (run (init size ooo lateness) ops).1.wm.maxOOO = ooo := by rw [run_maxOOO]; rfl
  have hsl : (init size ooo lateness).wm.slack = Facts.window_maxFutureSlack := rfl
  rw [List.nil_append, List.nil_append, hsl] at hb
  rcases hb.cur y hy with ⟨m, hm, hle⟩ | ⟨n, hn, hle⟩
  · rw [hoo] at hle; exact Or.inl ⟨m, hm, by omega⟩
  · rw [hoo] at hle; exact Or.inr ⟨n, hn, by omega⟩

theorem tumbling_no_early_fire_prefix (size ooo lateness : Int) (hs : 0 < size) (pre post : List Op)
    (hok : OpsOk (pre ++ post)) :
    ∀ e ∈ (run (init size ooo lateness) pre).2,
      (∃ m ∈ accepted ooo Facts.window_maxFutureSlack pre, e.stop + ooo ≤ m) ∨
      (∃ n ∈ idleNows pre, e.stop + ooo ≤ n) :=
  tumbling_no_early_fire_full size ooo lateness hs pre (fun op h => hok op (List.mem_append_left _ h))

/-- a refused (far-future) row is not a source, an accepted one is; an idle tick is a source -/
example : accepted 5 Facts.window_maxFutureSlack [.add ⟨1, 2000000000000000⟩ 1000, .add ⟨2, 1030⟩ 1000, .tick true 77, .tick false 88] = [1030]
    ∧ idleNows [.add ⟨1, 2000000000000000⟩ 1000, .add ⟨2, 1030⟩ 1000, .tick true 77, .tick false 88] = [77] := by decide

/-- **Discarded only if late.** -/
theorem tumbling_drop_only_if_late (s : TW) (r : Row) (now : Int) (h : fate s r now = .drop) :
    lateNow s r now = true := fate_drop_late s r now h

/-- … and a discarded row changes nothing but the watermark bookkeeping: no result, buffer,
triggered windows and (initialised) current slot as before. -/
theorem tumbling_dropped_row_inert (s : TW) (r : Row) (now : Int) (c : Int) (hc : s.cur = some c)
    (h : fate s r now = .drop) :
    (stepAdd s r now).2 = [] ∧ (stepAdd s r now).1.data = s.data ∧ (stepAdd s r now).1.fired = s.fired ∧
    (stepAdd s r now).1.cur = some c := by
  have hl := fate_drop_late s r now h
  refine ⟨by simp [stepAdd, addEmit, h], by simp [stepAdd, addData, h], by simp [stepAdd, addFired, h], ?_⟩
  show some (curAfterAdd s r now) = some c
  rw [late_no_reseat s r now hl]; simp [curInit, hc]

/-- **Late update.** In every reachable state, a late row that falls into a triggered window still
inside its allowance is answered by exactly one re-delivery of the same interval whose contents are
what was last delivered for that interval followed by that row. -/
theorem tumbling_late_update_contents (size ooo lateness : Int) (hs : 0 < size) (ops : List Op) (hok : OpsOk ops)
    (r : Row) (now : Int) (f : Fired)
    (h : fate (run (init size ooo lateness) ops).1 r now = .lateUpdate f) :
    (stepAdd (run (init size ooo lateness) ops).1 r now).2
        = [{ kind := .late, start := f.start, stop := f.start + size, rows := f.snap ++ [r] }] ∧
    lastFor f.start (run (init size ooo lateness) ops).2 = some f.snap ∧
    (f.start ≤ r.ts ∧ r.ts < f.start + size) ∧
    stillOpen (wmAfter (run (init size ooo lateness) ops).1 r now).cur f = true := by
  obtain ⟨hg, hf⟩ := tumbling_goodF size ooo lateness hs ops hok
  obtain ⟨h1, h2, h3, _, h5⟩ := late_update_step _ _ r now hg hf f h
  rw [run_size] at h1 h3
  refine ⟨h1, h2, ?_, h5⟩
  simp only [inSlot, init, Bool.and_eq_true, decide_eq_true_eq] at h3
  exact ⟨h3.1, of_decide_eq_true h3.2⟩

/-- a late update happens only with ALLOWEDLATENESS > 0 and only for a late row -/
theorem tumbling_late_update_only_if_allowed (s : TW) (r : Row) (now : Int) (f : Fired)
    (h : fate s r now = .lateUpdate f) : lateNow s r now = true ∧ 0 < s.lateness :=
  ⟨(fate_lateUpdate s r now f h).1, (fate_lateUpdate s r now f h).2.1⟩

end tumbling

/-! ### watermark -/
section watermark
open Wm

/-- **Far-future timestamps never touch the watermark.** -/
theorem future_never_moves_watermark (w : Wm.Wm) (ts now : Int) (h : now + w.maxOOO + w.slack < ts) :
    updateEventTime w ts now = w :=
  future_inert w ts now (by simp [tooFar, h])

/-- **Monotone.** Whatever was at or below the watermark stays at or below it. -/
theorem watermark_monotone (w : Wm.Wm) (x ts now : Int) (idle : Bool) (h : leOpt x w.cur) :
    leOpt x (updateEventTime w ts now).cur ∧ leOpt x (tick w idle now).cur :=
  ⟨Tumbling.updateEventTime_cur _ _ _ _ h, Tumbling.tick_cur _ _ _ _ h⟩

/-- **Retried delivery.** With room in the channel nothing stays unsent. -/
theorem send_retry (w : Wm.Wm) (c : Int) (hc : w.cur = some c) (hroom : w.chan.length < w.cap) :
    (send w).lastSent = some c ∨ (w.lastSent = (send w).lastSent ∧ after c w.lastSent = false) :=
  send_delivers w c hc hroom

theorem facts_watermark : Facts.window_maxFutureSlack = 86400000000000 := by decide

end watermark

/-! ### sliding (ALLOWEDLATENESS = 0) -/
section sliding
open Sliding

theorem sliding_no_early_fire (size slide ooo : Int) (hs : 0 < size) (hl : 0 < slide) (ops : List Op)
    (hok : ∀ op ∈ ops, OpOk op) :
    ∀ e ∈ (run (init size slide ooo) ops).2, leOpt e.stop (run (init size slide ooo) ops).1.wm.cur := by
  intro e he
  have hg := good_run (init size slide ooo) ops (good_init size slide ooo hs hl) hok
  have hh := goodH_run (init size slide ooo) ops [] (good_init size slide ooo hs hl) (goodH_init size slide ooo) hok
  rw [List.nil_append] at hh
  have hadv : (run (init size slide ooo) ops).1.advanced = true := by
    cases ha : (run (init size slide ooo) ops).1.advanced with
    | true => rfl
    | false => rw [hh.hfreshE ha] at he; cases he
  cases hc : (run (init size slide ooo) ops).1.cur with
  | none => have := (hg.hinit hc).2.2.2; rw [this] at hadv; cases hadv
  | some c =>
    obtain ⟨y, hy, hcy⟩ := hg.hpassed hadv c hc
    have h1 := hh.hbefore c hc e he
    have h2 := (hh.hshape e he).2.1
    exact ⟨y, hy, by omega⟩

/-- the same with the watermark traced back to its sources, for every history (idle ticks, far-future rows) -/
theorem sliding_no_early_fire_full (size slide ooo : Int) (hs : 0 < size) (hl : 0 < slide) (ops : List Op)
    (hok : ∀ op ∈ ops, OpOk op) :
    ∀ e ∈ (run (init size slide ooo) ops).2,
      (∃ m ∈ accepted ooo Facts.window_maxFutureSlack ops, e.stop + ooo ≤ m) ∨
      (∃ n ∈ idleNows ops, e.stop + ooo ≤ n) := by
  intro e he
  obtain ⟨y, hy, hey⟩ := sliding_no_early_fire size slide ooo hs hl ops hok e he
  have hb := run_backed (init size slide ooo) ops [] [] ⟨(by intro c h; cases h), (by intro m h; cases h)⟩
  have hsl : (init size slide ooo).wm.slack = Facts.window_maxFutureSlack := rfl
  have hoo : (init size slide ooo).wm.maxOOO = ooo := rfl
  rw [List.nil_append, List.nil_append, hsl, hoo] at hb
  rcases hb.1.cur y hy with ⟨m, hm, hle⟩ | ⟨n, hn, hle⟩
  · rw [hb.2] at hle; exact Or.inl ⟨m, hm, by omega⟩
  · rw [hb.2] at hle; exact Or.inr ⟨n, hn, by omega⟩

/-- **Sliding late update (ALLOWEDLATENESS > 0).** Every result an Add produces is the re-delivery of
an open triggered window that contains the (late) row — same interval, the window's previous
contents first, then rows of the interval not yet in them, the late row included — … -/
theorem sliding_late_update_contents (s : SlidingLate.SWL) (r : Tumbling.Row) (now : Int) :
    ∀ e ∈ (SlidingLate.stepAdd s r now none).2, ∃ f ∈ s.fired,
      e.kind = .late ∧ e.start = f.start ∧ e.stop = f.start + s.base.size ∧
      Tumbling.inSlot s.base.size f.start r = true ∧
      Tumbling.stillOpen (Sliding.wmAfter s.base r now).cur f = true ∧
      Sliding.lateNow s.base r now = true ∧ 0 < s.lateness ∧
      (∃ extra, e.rows = f.snap ++ extra ∧
        (∀ x ∈ extra, Tumbling.inSlot s.base.size f.start x = true ∧ x ∉ f.snap) ∧ (r ∈ f.snap ∨ r ∈ extra)) :=
  SlidingLate.late_emissions s r now none

/-- … and every open triggered window that contains a late row is re-delivered. -/
theorem sliding_every_open_window_redelivered (s : SlidingLate.SWL) (r : Tumbling.Row) (now : Int)
    (hl : Sliding.lateNow s.base r now = true) (hlat : 0 < s.lateness)
    (f : Tumbling.Fired) (hf : f ∈ s.fired) (hin : Tumbling.inSlot s.base.size f.start r = true)
    (hop : Tumbling.stillOpen (Sliding.wmAfter s.base r now).cur f = true) :
    ∃ e ∈ (SlidingLate.stepAdd s r now none).2, e.start = f.start ∧ e.kind = .late :=
  SlidingLate.every_open_window_redelivered s r now none hl hlat f hf hin hop

/-- **Sliding late update, every history.** In every reachable state (any interleaving of Adds, ticker updates, pops and
trigger-loop iterations from the start, ALLOWEDLATENESS > 0): a late row that lies inside an interval `e` delivered before
(`e.start ≤ ts < e.start + size`), arriving while the watermark has not passed `e.stop + ALLOWEDLATENESS`, re-delivers
that interval. -/
theorem sliding_late_row_redelivered_run (size slide ooo lateness : Int) (hl : 0 < lateness) (ops : List Sliding.Op)
    (e : Tumbling.Emission) (he : e ∈ (SlidingLate.run (SlidingLate.init size slide ooo lateness) ops).2) (hfirst : e.kind = .first)
    (r : Tumbling.Row) (now : Int)
    (hin : Tumbling.inSlot (SlidingLate.run (SlidingLate.init size slide ooo lateness) ops).1.base.size e.start r = true)
    (hlate : Sliding.lateNow (SlidingLate.run (SlidingLate.init size slide ooo lateness) ops).1.base r now = true)
    (hopen : ∀ c, (Sliding.wmAfter (SlidingLate.run (SlidingLate.init size slide ooo lateness) ops).1.base r now).cur = some c →
      c < e.stop + lateness) :
    ∃ e' ∈ (SlidingLate.stepAdd (SlidingLate.run (SlidingLate.init size slide ooo lateness) ops).1 r now none).2,
      e'.start = e.start ∧ e'.kind = .late := by
  have hlat : (SlidingLate.run (SlidingLate.init size slide ooo lateness) ops).1.lateness = lateness := by
    rw [SlidingLate.run_lateness]; rfl
  have hreg := SlidingLate.reg_run (SlidingLate.init size slide ooo lateness) ops []
    (SlidingLate.wmInv_init size slide ooo lateness) hl (by intro e he; cases he)
  rw [List.nil_append] at hreg
  rcases hreg e he hfirst with ⟨f, hf, hs, hc⟩ | hb
  · rw [hlat] at hc
    have hop : Tumbling.stillOpen (Sliding.wmAfter (SlidingLate.run (SlidingLate.init size slide ooo lateness) ops).1.base r now).cur f = true := by
      unfold Tumbling.stillOpen
      split
      · rfl
      · rename_i c hcur
        have := hopen c hcur
        simp only [decide_eq_true_eq]; omega
    obtain ⟨e', he', hst, hk⟩ := SlidingLate.every_open_window_redelivered _ r now none hlate (by rw [hlat]; exact hl) f hf
      (by rw [hs]; exact hin) hop
    exact ⟨e', he', by rw [hst, hs], hk⟩
  · exfalso
    rw [hlat] at hb
    obtain ⟨y, hy, hle⟩ := Tumbling.updateEventTime_cur _ r.ts now _ hb
    have := hopen y hy
    omega

end sliding

/-! ### session -/
section session
open Session Wm

theorem session_no_early_delivery (timeout ooo lateness : Int) (ht : 0 < timeout) (ops : List Op)
    (hni : ∀ op ∈ ops, NoIdle op) :
    ∀ e ∈ (run (init timeout ooo lateness) ops).2, e.late = false → ∃ m ∈ ingested ops, e.stop + ooo ≤ m := by
  intro e he hl
  obtain ⟨_, _, y, hy, hey⟩ := run_firsts (init timeout ooo lateness) ops (inv_init timeout ooo lateness ht) e he hl
  have hw := run_wm (init timeout ooo lateness) ops [] (by intro c h; cases h) (by intro m h; cases h) hni
  obtain ⟨m, hm, hle⟩ := hw.1 y hy
  rw [hw.2.2] at hle
  exact ⟨m, by simpa using hw.2.1 m hm, by simp only [init] at hle; omega⟩

/-- every history: idle ticks and far-future rows included -/
theorem session_no_early_delivery_full (timeout ooo lateness : Int) (ht : 0 < timeout) (ops : List Op) :
    ∀ e ∈ (run (init timeout ooo lateness) ops).2, e.late = false →
      (∃ m ∈ accepted ooo Facts.window_maxFutureSlack ops, e.stop + ooo ≤ m) ∨
      (∃ n ∈ idleNows ops, e.stop + ooo ≤ n) := by
  intro e he hl
  obtain ⟨_, _, y, hy, hey⟩ := run_firsts (init timeout ooo lateness) ops (inv_init timeout ooo lateness ht) e he hl
  have hb := run_backed (init timeout ooo lateness) ops [] [] ⟨(by intro c h; cases h), (by intro m h; cases h)⟩
  have hsl : (init timeout ooo lateness).wm.slack = Facts.window_maxFutureSlack := rfl
  have hoo : (init timeout ooo lateness).wm.maxOOO = ooo := rfl
  rw [List.nil_append, List.nil_append, hsl, hoo] at hb
  rcases hb.1.cur y hy with ⟨m, hm, hle⟩ | ⟨n, hn, hle⟩
  · rw [hb.2] at hle; exact Or.inl ⟨m, hm, by omega⟩
  · rw [hb.2] at hle; exact Or.inr ⟨n, hn, by omega⟩

theorem session_drop_only_if_late (w : SWin) (k : Key) (r : Row) (now : Int) (h : fate w k r now = .lateDrop) :
    lateNow w r now = true := by
  by_cases hl : lateNow w r now = true
  · exact hl
  · have hl' : lateNow w r now = false := by simpa using hl
    rcases fate_ontime w k r now hl' with ⟨h', _⟩ | ⟨t, os, h', _⟩ <;> rw [h'] at h <;> cases h

/-- a late row is absorbed only by a triggered session of its own key that contains it and is still
inside its allowance; the re-delivery carries that session's rows followed by the late row -/
theorem session_late_update (w : SWin) (k : Key) (r : Row) (now : Int) (t : Trig)
    (h : fate w k r now = .lateAbsorb t) :
    (stepAdd w k r now).2 = [{ late := true, key := k, start := t.sess.start, stop := t.sess.stop, rows := t.sess.rows ++ [r] }] ∧
    t ∈ w.trig ∧ t.sess.key = k ∧ (t.sess.start ≤ r.ts ∧ r.ts < t.sess.stop) ∧
    stillOpen (wmAfter w r now).cur t = true ∧ 0 < w.lateness := by
  have hem : (stepAdd w k r now).2 = addEmit w k r now := rfl
  refine ⟨by rw [hem]; simp [addEmit, h], ?_⟩
  unfold fate at h
  split at h
  · split at h
    · rename_i hlat
      unfold lateFate at h
      split at h
      · rename_i t' ht'
        cases h
        unfold findTrig at ht'
        have h1 := List.mem_of_find?_eq_some ht'
        have h2 := List.find?_some ht'
        simp only [Bool.and_eq_true, beq_iff_eq, slotHas, decide_eq_true_eq] at h2
        exact ⟨h1, h2.1.1, h2.1.2, h2.2, hlat⟩
      · cases h
    · cases h
  · unfold onTimeFate at h
    split at h <;> cases h

/-- the sessions an expiry pass registers for late rows: everything that was registered, followed by the sessions it fired -/
theorem session_registered_after_pass (l : List Trig) (ex : List Sess) (lat : Int) :
    ex.foldl (fun acc s => putTrig acc { sess := s, close := s.stop + lat }) l
      = l ++ ex.map (fun s => { sess := s, close := s.stop + lat }) := by
  induction ex generalizing l with
  | nil => simp
  | cons s ss ih => rw [List.foldl_cons, ih]; simp [putTrig]

/-- **A fired session stays open for late rows until its allowance ends**, whatever else of its key fires meanwhile:
an expiry pass at watermark `x` keeps every registered session whose allowance reaches beyond `x` … -/
theorem session_registered_kept (w : SWin) (x : Int) (t : Trig) (hl : 0 < w.lateness) (ht : t ∈ w.trig)
    (hx : x < t.close) : t ∈ (stepExpire w x).1.trig := by
  simp only [stepExpire, hl, if_true, session_registered_after_pass, List.mem_filter, List.mem_append]
  exact ⟨Or.inl ht, by simp; omega⟩

/-- … and registers every session it fires whose allowance reaches beyond `x`, with the rows it delivered -/
theorem session_fired_registered (w : SWin) (x : Int) (e : Emission) (hl : 0 < w.lateness)
    (he : e ∈ (stepExpire w x).2) (hx : x < e.stop + w.lateness) :
    ∃ t ∈ (stepExpire w x).1.trig, t.sess.key = e.key ∧ t.sess.start = e.start ∧ t.sess.stop = e.stop ∧
      t.sess.rows = e.rows ∧ t.close = e.stop + w.lateness := by
  simp only [stepExpire, List.mem_map] at he
  obtain ⟨s, hs, rfl⟩ := he
  refine ⟨{ sess := s, close := s.stop + w.lateness }, ?_, rfl, rfl, rfl, rfl, rfl⟩
  simp only [stepExpire, hl, if_true, session_registered_after_pass, List.mem_filter, List.mem_append, List.mem_map]
  exact ⟨Or.inr ⟨s, hs, rfl⟩, by simp; simpa using hx⟩

/-- **Late update, the other direction.** A late row that falls into a registered session of its key whose allowance
the watermark has not passed is re-delivered: the Add emits one late result of a registered, still open session of
the key containing the row, and its contents are that session's rows followed by the row. -/
theorem session_open_entry_redelivered (w : SWin) (k : Key) (r : Row) (now : Int) (t : Trig)
    (hl : 0 < w.lateness) (hlate : lateNow w r now = true) (ht : t ∈ w.trig) (hk : t.sess.key = k)
    (hin : t.sess.start ≤ r.ts ∧ r.ts < t.sess.stop) (hop : stillOpen (wmAfter w r now).cur t = true) :
    ∃ t' ∈ w.trig, t'.sess.key = k ∧ (t'.sess.start ≤ r.ts ∧ r.ts < t'.sess.stop) ∧
      (stepAdd w k r now).2 = [{ late := true, key := k, start := t'.sess.start, stop := t'.sess.stop, rows := t'.sess.rows ++ [r] }] := by
  have hsome : (findTrig w k r.ts (wmAfter w r now).cur).isSome = true := by
    unfold findTrig
    rw [List.find?_isSome]
    exact ⟨t, ht, by simp [slotHas, hk, hin.1, hin.2, hop]⟩
  obtain ⟨t', ht'⟩ := Option.isSome_iff_exists.mp hsome
  have hf : fate w k r now = .lateAbsorb t' := by
    unfold fate lateFate
    simp [hlate, hl, ht']
  obtain ⟨hem, hmem, hkey, hslot, _, _⟩ := session_late_update w k r now t' hf
  exact ⟨t', hmem, hkey, hslot, hem⟩

/-- **Late update, every history.** In every reachable state (any interleaving of Adds, ticker updates and expiry
passes from the start, ALLOWEDLATENESS > 0): a late row of the key of a session `e` that was delivered before, with a
timestamp inside it, arriving while the watermark has not passed `e.stop + ALLOWEDLATENESS`, is re-delivered — the Add
emits exactly one late result, of a registered session of that key that contains the row, with that session's rows
followed by the row.  (False before /repo abc3247: a later session of the key firing under the reused map key dropped
the registration; `session_fired_registered` and `session_registered_kept` are its one-step parts.) -/
theorem session_late_row_redelivered_run (timeout ooo lateness : Int) (ht : 0 < timeout) (hl : 0 < lateness) (ops : List Op)
    (e : Emission) (he : e ∈ (run (init timeout ooo lateness) ops).2) (hfirst : e.late = false)
    (r : Row) (now : Int) (hin : e.start ≤ r.ts ∧ r.ts < e.stop)
    (hlate : lateNow (run (init timeout ooo lateness) ops).1 r now = true)
    (hopen : ∀ c, (wmAfter (run (init timeout ooo lateness) ops).1 r now).cur = some c → c < e.stop + lateness) :
    ∃ t' ∈ (run (init timeout ooo lateness) ops).1.trig, t'.sess.key = e.key ∧ (t'.sess.start ≤ r.ts ∧ r.ts < t'.sess.stop) ∧
      (stepAdd (run (init timeout ooo lateness) ops).1 e.key r now).2 =
        [{ late := true, key := e.key, start := t'.sess.start, stop := t'.sess.stop, rows := t'.sess.rows ++ [r] }] := by
  have hlat : (run (init timeout ooo lateness) ops).1.lateness = lateness := by rw [run_lateness]; rfl
  have hreg := reg_run (init timeout ooo lateness) ops [] (inv_init timeout ooo lateness ht) hl
    (by intro e he; cases he)
  rw [List.nil_append] at hreg
  rcases hreg e he hfirst with ⟨t, ht', hk, hs, hp, hc⟩ | hb
  · rw [hlat] at hc
    have hop : stillOpen (wmAfter (run (init timeout ooo lateness) ops).1 r now).cur t = true := by
      unfold stillOpen
      split
      · rfl
      · rename_i c hcur
        have := hopen c hcur
        simp only [decide_eq_true_eq]; omega
    exact session_open_entry_redelivered _ e.key r now t (by rw [hlat]; exact hl) hlate ht' hk
      (by rw [hs, hp]; exact hin) hop
  · exfalso
    rw [hlat] at hb
    obtain ⟨y, hy, hle⟩ := Tumbling.updateEventTime_cur _ r.ts now _ hb
    have := hopen y hy
    omega

end session

/-! ### non-vacuity: a late update inside the allowance, one beyond it -/
section demo
open Tumbling
def demoOps : List Op :=
  [.add ⟨1, 1005⟩ 1000000, .add ⟨2, 1030⟩ 1000000, .pop, .iter, .pop, .iter, .iter, .iter, .iter]
example : OpsOk demoOps := by unfold OpsOk; decide
example : NoIdleAll demoOps := by unfold NoIdleAll; decide
-- window [1000,1010) fired; ALLOWEDLATENESS 50 keeps it open until the watermark reaches 1060
example : (match fate (run (init 10 0 50) demoOps).1 ⟨3, 1007⟩ 1000000 with | .lateUpdate f => f.start == 1000 | _ => false) = true := by decide
example : (stepAdd (run (init 10 0 50) demoOps).1 ⟨3, 1007⟩ 1000000).2.map (fun e => e.rows.map (·.id)) = [[1, 3]] := by decide
-- with the watermark already at 1100 (undelivered) the same row is beyond the allowance
example : fate (stepAdd (run (init 10 0 50) demoOps).1 ⟨4, 1100⟩ 1000000).1 ⟨3, 1007⟩ 1000000 = .drop := by decide
end demo

section sessionDemo
open Session
/-- the witness of the repaired defect: key a fires [90,95), later [101,106) under the reused map key; the late row a@92
arrives with the watermark at 120 < 95 + 30 and is re-delivered with the older session -/
def sessOps : List Op :=
  [.add ['a'] ⟨1, 90⟩ 1000000, .add ['b'] ⟨2, 100⟩ 1000000, .deliver, .deliver,
   .add ['a'] ⟨3, 101⟩ 1000000, .add ['b'] ⟨4, 120⟩ 1000000, .deliver, .deliver, .deliver]
example : ((run (init 5 0 30) sessOps).1.trig.map (fun t => (t.sess.start, t.sess.stop))) = [(90, 95), (101, 106), (100, 105)] := by decide
example : (stepAdd (run (init 5 0 30) sessOps).1 ['a'] ⟨5, 92⟩ 1000000).2.map (fun e => (e.late, e.start, e.stop, e.rows.map (·.id)))
    = [(true, 90, 95, [1, 5])] := by decide
end sessionDemo

section slidingDemo
open SlidingLate
/-- non-vacuity of `sliding_late_row_redelivered_run`: [1000,1020) fires, stays open until the watermark reaches 1070; the
late row 3 @ 1007 arrives with the watermark at 1045 and re-delivers it -/
def slideOps : List Sliding.Op :=
  [.add ⟨1, 1005⟩ 1000000, .add ⟨2, 1045⟩ 1000000, .pop, .iter, .pop, .iter, .iter, .iter, .iter, .iter]
example : (run (init 20 10 0 50) slideOps).2.map (fun e => (e.start, e.stop, e.rows.map (·.id))) = [(1000, 1020, [1])] := by decide
example : Sliding.lateNow (run (init 20 10 0 50) slideOps).1.base ⟨3, 1007⟩ 1000000 = true := by decide
example : (Sliding.wmAfter (run (init 20 10 0 50) slideOps).1.base ⟨3, 1007⟩ 1000000).cur = some 1045 := by decide
example : (stepAdd (run (init 20 10 0 50) slideOps).1 ⟨3, 1007⟩ 1000000 none).2.map (fun e => (e.start, e.rows.map (·.id))) = [(1000, [1, 3])] := by decide
end slidingDemo

end C02
