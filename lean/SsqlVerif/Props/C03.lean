/-
C03 — aggregate functions equal their mathematical definition on the rows of the batch.
Property theorems only; helper lemmas live in `Proofs/Agg*.lean`, `Proofs/GroupAgg.lean`.

Reading guide
* `Agg.run e prm k l`  : `New()`, `Add(v)` for each `v` of `l` in order, `Result()` of the aggregator
                          object of kind `k` (model of the Go state machine);
* `AggSpec.*`           : the declarative definitions (functions of the whole list);
* `GroupAgg.*`          : the `GroupAggregator` table (`Add` / `GetResults` / `Reset`, batches).
Number type: theorems without a `Lawful…` hypothesis hold for *every* `ν` — float64 included
(no law of arithmetic is used); `[LawfulOrd ν]` (strict total order: no NaN, no ±0 mix) is
needed where the definition sorts; `[LawfulNum ν]` (commutative, associative `+`) — i.e. exact
arithmetic, `Rat` is an instance — for permutation invariance, which is false of float64.
-/
import SsqlVerif.Proofs.GroupAgg
import SsqlVerif.Generated.Facts
set_option autoImplicit false

namespace C03
open Agg AggSpec GroupAgg AggProofs GroupAggProofs

variable {ν : Type} [NumOps ν]

/-! ## 1. fold of `Add`, then `Result` = the definition — one theorem per function -/

theorem agg_fold_eq_spec_count (e : Env ν) (prm : Param ν) (l : List (Val ν)) :
    run e prm .count l = .one (.flt (NumOps.ofNat (countNonNull l))) :=
  run_eq_value_nosort e prm .count rfl l

theorem agg_fold_eq_spec_sum (e : Env ν) (prm : Param ν) (l : List (Val ν)) :
    run e prm .sum l = .one (numOrNull (nums e l) total) :=
  run_eq_value_nosort e prm .sum rfl l

theorem agg_fold_eq_spec_avg (e : Env ν) (prm : Param ν) (l : List (Val ν)) :
    run e prm .avg l = .one (numOrNull (nums e l) average) :=
  run_eq_value_nosort e prm .avg rfl l

theorem agg_fold_eq_spec_min (e : Env ν) (prm : Param ν) (l : List (Val ν)) :
    run e prm .min l = .one (optNum (least (nums e l))) :=
  run_eq_value_nosort e prm .min rfl l

theorem agg_fold_eq_spec_max (e : Env ν) (prm : Param ν) (l : List (Val ν)) :
    run e prm .max l = .one (optNum (greatest (nums e l))) :=
  run_eq_value_nosort e prm .max rfl l

theorem agg_fold_eq_spec_stddev (e : Env ν) (prm : Param ν) (l : List (Val ν)) :
    run e prm .stddev l = .one (.flt (sampleStdDev (nums e l))) :=
  run_eq_value_nosort e prm .stddev rfl l

theorem agg_fold_eq_spec_stddevs (e : Env ν) (prm : Param ν) (l : List (Val ν)) :
    run e prm .stddevs l = .one (.flt (sampleStdDev (nums e l))) :=
  run_eq_value_nosort e prm .stddevs rfl l

theorem agg_fold_eq_spec_var (e : Env ν) (prm : Param ν) (l : List (Val ν)) :
    run e prm .var l = .one (.flt (populationVariance (nums e l))) :=
  run_eq_value_nosort e prm .var rfl l

theorem agg_fold_eq_spec_vars (e : Env ν) (prm : Param ν) (l : List (Val ν)) :
    run e prm .vars l = .one (.flt (sampleVariance (nums e l))) :=
  run_eq_value_nosort e prm .vars rfl l

/-- median: middle of the sorted values (mean of the two middle ones for an even count) -/
theorem agg_fold_eq_spec_median [LawfulOrd ν] (e : Env ν) (prm : Param ν) (l : List (Val ν)) :
    run e prm .median l = .one (.flt (medianOf (nums e l))) :=
  run_eq_value e prm .median l

/-- percentile: sorted value at index ⌊p·(n-1)⌋ -/
theorem agg_fold_eq_spec_percentile [LawfulOrd ν] (e : Env ν) (prm : Param ν) (l : List (Val ν)) :
    run e prm .percentile l = .one (.flt (percentileOf prm.p (nums e l))) :=
  run_eq_value e prm .percentile l

theorem agg_fold_eq_spec_first_value (e : Env ν) (prm : Param ν) (l : List (Val ν)) :
    run e prm .firstValue l = .one (firstOf l) :=
  run_eq_value_nosort e prm .firstValue rfl l

theorem agg_fold_eq_spec_last_value (e : Env ν) (prm : Param ν) (l : List (Val ν)) :
    run e prm .lastValue l = .one (lastOf l) :=
  run_eq_value_nosort e prm .lastValue rfl l

theorem agg_fold_eq_spec_nth_value (e : Env ν) (prm : Param ν) (l : List (Val ν)) :
    run e prm .nthValue l = .one (nthOf prm.n l) :=
  run_eq_value_nosort e prm .nthValue rfl l

theorem agg_fold_eq_spec_collect (e : Env ν) (prm : Param ν) (l : List (Val ν)) :
    run e prm .collect l = .many l :=
  run_eq_value_nosort e prm .collect rfl l

/-- deduplicate: first occurrences (identity = Go `%v` rendering), arrival order -/
theorem agg_fold_eq_spec_deduplicate (e : Env ν) (prm : Param ν) (l : List (Val ν)) :
    run e prm .dedup l = .many (distinct (keyOf e) l) :=
  run_eq_value_nosort e prm .dedup rfl l

theorem agg_fold_eq_spec_merge_agg (e : Env ν) (prm : Param ν) (l : List (Val ν)) :
    run e prm .mergeAgg l = .one (mergedOf e l) :=
  run_eq_value_nosort e prm .mergeAgg rfl l

/-- all of them at once -/
theorem agg_fold_eq_spec [LawfulOrd ν] (e : Env ν) (prm : Param ν) (k : Kind) (l : List (Val ν)) :
    run e prm k l = value e prm k l :=
  run_eq_value e prm k l

/-- min / max really are the least / greatest usable input -/
theorem agg_min_is_least [LawfulOrd ν] (e : Env ν) (prm : Param ν) (l : List (Val ν)) (m : ν)
    (h : run e prm .min l = .one (.flt m)) :
    m ∈ nums e l ∧ ∀ y ∈ nums e l, NumOps.lt y m = false := by
  rw [agg_fold_eq_spec_min] at h
  cases hl : least (nums e l) with
  | none => simp [hl, optNum] at h
  | some m' =>
    simp only [hl, optNum, Res.one.injEq, Val.flt.injEq] at h
    subst h
    exact least_spec _ _ hl

theorem agg_max_is_greatest [LawfulOrd ν] (e : Env ν) (prm : Param ν) (l : List (Val ν)) (m : ν)
    (h : run e prm .max l = .one (.flt m)) :
    m ∈ nums e l ∧ ∀ y ∈ nums e l, NumOps.lt m y = false := by
  rw [agg_fold_eq_spec_max] at h
  cases hl : greatest (nums e l) with
  | none => simp [hl, optNum] at h
  | some m' =>
    simp only [hl, optNum, Res.one.injEq, Val.flt.injEq] at h
    subst h
    exact greatest_spec _ _ hl

/-! ## 2. permutation invariance (exact arithmetic) -/

/-- count, sum, avg, min, max, stddev, stddevs, var, vars, median, percentile do not depend on
the arrival order of the batch — over exact arithmetic (`LawfulNum`, e.g. `Rat`).
False of float64 (`+` is not associative there). -/
theorem agg_perm_invariant [LawfulNum ν] (e : Env ν) (prm : Param ν) (k : Kind)
    (hk : orderInsensitive k = true) {l l' : List (Val ν)} (h : l.Perm l') :
    run e prm k l = run e prm k l' := by
  rw [run_eq_value, run_eq_value]
  exact value_perm e prm k hk h

theorem agg_perm_invariant_sum [LawfulNum ν] (e : Env ν) (prm : Param ν) {l l' : List (Val ν)}
    (h : l.Perm l') : run e prm .sum l = run e prm .sum l' := agg_perm_invariant e prm .sum rfl h
theorem agg_perm_invariant_avg [LawfulNum ν] (e : Env ν) (prm : Param ν) {l l' : List (Val ν)}
    (h : l.Perm l') : run e prm .avg l = run e prm .avg l' := agg_perm_invariant e prm .avg rfl h
theorem agg_perm_invariant_count [LawfulNum ν] (e : Env ν) (prm : Param ν) {l l' : List (Val ν)}
    (h : l.Perm l') : run e prm .count l = run e prm .count l' := agg_perm_invariant e prm .count rfl h
theorem agg_perm_invariant_min [LawfulNum ν] (e : Env ν) (prm : Param ν) {l l' : List (Val ν)}
    (h : l.Perm l') : run e prm .min l = run e prm .min l' := agg_perm_invariant e prm .min rfl h
theorem agg_perm_invariant_max [LawfulNum ν] (e : Env ν) (prm : Param ν) {l l' : List (Val ν)}
    (h : l.Perm l') : run e prm .max l = run e prm .max l' := agg_perm_invariant e prm .max rfl h
theorem agg_perm_invariant_stddev [LawfulNum ν] (e : Env ν) (prm : Param ν) {l l' : List (Val ν)}
    (h : l.Perm l') : run e prm .stddev l = run e prm .stddev l' := agg_perm_invariant e prm .stddev rfl h
theorem agg_perm_invariant_var [LawfulNum ν] (e : Env ν) (prm : Param ν) {l l' : List (Val ν)}
    (h : l.Perm l') : run e prm .var l = run e prm .var l' := agg_perm_invariant e prm .var rfl h
theorem agg_perm_invariant_median [LawfulNum ν] (e : Env ν) (prm : Param ν) {l l' : List (Val ν)}
    (h : l.Perm l') : run e prm .median l = run e prm .median l' := agg_perm_invariant e prm .median rfl h
theorem agg_perm_invariant_percentile [LawfulNum ν] (e : Env ν) (prm : Param ν) {l l' : List (Val ν)}
    (h : l.Perm l') : run e prm .percentile l = run e prm .percentile l' :=
  agg_perm_invariant e prm .percentile rfl h

/-! ## 3. NULL / missing skipping, empty input -/

/-- an aggregator object of an order-insensitive kind ignores NULLs (any number type) -/
theorem agg_null_skipped (e : Env ν) (prm : Param ν) (k : Kind) (hk : orderInsensitive k = true)
    (l : List (Val ν)) : run e prm k (l.filter fun v => !v.isNull) = run e prm k l :=
  run_filter_null e prm k hk l

/-- sum, avg, min, max over no usable input are NULL; count over NULLs only is 0 -/
theorem agg_no_usable_input (e : Env ν) (prm : Param ν) (l : List (Val ν)) (h : nums e l = []) :
    run e prm .sum l = .one .null ∧ run e prm .avg l = .one .null ∧
    run e prm .min l = .one .null ∧ run e prm .max l = .one .null := by
  obtain ⟨h1, h2, h3, h4⟩ := value_no_input e prm l h
  exact ⟨(run_eq_value_nosort e prm .sum rfl l).trans h1, (run_eq_value_nosort e prm .avg rfl l).trans h2,
    (run_eq_value_nosort e prm .min rfl l).trans h3, (run_eq_value_nosort e prm .max rfl l).trans h4⟩

theorem agg_count_nulls_zero (e : Env ν) (prm : Param ν) (l : List (Val ν))
    (h : ∀ v ∈ l, v.isNull = true) : run e prm .count l = .one (.flt (NumOps.ofNat 0)) :=
  (run_eq_value_nosort e prm .count rfl l).trans (count_no_input e prm l h)

/-- in the `GroupAggregator`: a row whose column is missing, or NULL (except for first_value /
last_value), or whose expression argument fails or is NULL, leaves the accumulator unchanged -/
theorem ga_null_missing_skipped (e : Env ν) (f : Field ν) (r : Row ν) (st : St ν)
    (h : argOf f r = none ∨ (argOf f r = some .null ∧ allowsNull f.kind = false)) :
    stepField e r f st = st := by
  unfold stepField
  rw [dispatch_eq]
  rcases h with h | ⟨h, hk⟩
  · simp [h]
  · have : takesPart f.kind (Val.null : Val ν) = false := by
      rw [allowsNull_iff] at hk
      simp only [Bool.or_eq_false_iff, decide_eq_false_iff_not] at hk
      simp [takesPart, hk.1, hk.2]
    simp [h, Option.filter, this]

/-- `count(*)` counts the rows of the group -/
theorem ga_count_star (e : Env ν) (f : Field ν) (hk : f.kind = .count) (hi : f.input = .star)
    (rows : List (Row ν)) :
    value e f.prm f.kind (inputs f rows) = .one (.flt (NumOps.ofNat rows.length)) := by
  have : inputs f rows = rows.map fun _ => (Val.int 1 : Val ν) := by
    unfold inputs argOf
    rw [hi]
    induction rows with
    | nil => rfl
    | cons r rows ih => simp [List.filterMap_cons, Option.filter, takesPart, ih]
  have h2 : (List.filter (fun v => !v.isNull) (rows.map fun _ => (Val.int 1 : Val ν)))
      = rows.map fun _ => (Val.int 1 : Val ν) := by
    induction rows with
    | nil => rfl
    | cons r rows ih => simp
  rw [this, hk]
  simp only [value, countNonNull, h2, List.length_map]

/-! ## 4. the group table: results of a batch, expression arguments, isolation, reset -/

variable {κ : Type} [DecidableEq κ]

/-- **main theorem of the pipeline**: `GetResults` after `Add`ing the rows of a batch to a fresh
(or reset) aggregator returns one row per group key, in first-appearance order, and every
aggregate of a group is the definition applied to the usable inputs of *that group's rows* in
arrival order. -/
theorem ga_results_eq_spec [LawfulOrd ν] (c : Cfg ν κ) (rows : List (Row ν)) :
    getResults c (rows.foldl (GroupAgg.add c) []) = batchResults c rows :=
  getResults_spec c rows

/-- the same for every number type (float64 included) when no aggregate of the query sorts -/
theorem ga_results_eq_spec_anynum (c : Cfg ν κ) (rows : List (Row ν))
    (hns : ∀ f ∈ c.fields, usesSort f.kind = false) :
    getResults c (rows.foldl (GroupAgg.add c) []) = batchResults c rows :=
  getResults_spec_nosort c rows hns

/-- an expression argument is evaluated per row, then aggregated: the accumulator of such a field
is the aggregator run over `rows.filterMap ev` (evaluation errors dropped), NULL results skipped -/
theorem agg_expr_arg (e : Env ν) (f : Field ν) (ev : Eval ν) (hi : f.input = .expr ev)
    (rows : List (Row ν)) :
    (fieldRun e f rows).result e f.prm
      = run e f.prm f.kind ((rows.filterMap ev).filter (takesPart f.kind)) := by
  rw [fieldRun_result]
  have hp : post e f = some := by funext v; simp [post, hi]
  rw [hp, filterMap_some']
  congr 1
  unfold inputs
  have hf : (fun r => (argOf f r).filter (takesPart f.kind)) = fun r => (ev r).filter (takesPart f.kind) := by
    funext r; simp [argOf, hi]
  rw [hf]
  induction rows with
  | nil => rfl
  | cons r rows ih =>
    simp only [List.filterMap_cons]
    cases h : ev r with
    | none =>
      have hv : Option.filter (takesPart f.kind) (none : Option (Val ν)) = none := rfl
      rw [hv]; exact ih
    | some v =>
      by_cases ht : takesPart f.kind v = true
      · have hv : Option.filter (takesPart f.kind) (some v) = some v := by simp [Option.filter, ht]
        rw [hv, List.filter_cons]
        simp only [ht, if_true, ih]
      · have hv : Option.filter (takesPart f.kind) (some v) = none := by simp [Option.filter, ht]
        rw [hv, List.filter_cons]
        simp only [ht, Bool.false_eq_true, if_false, ih]

/-- rows of other groups do not change a group's accumulators -/
theorem agg_group_isolation (c : Cfg ν κ) (g : State ν κ) (r : Row ν) (k : κ)
    (h : ¬ c.keyOf r = k) (sts : List (St ν)) :
    (k, sts) ∈ GroupAgg.add c g r ↔ (k, sts) ∈ g :=
  lookup_add_other c g r k h sts

/-- `Reset` returns the state of a new aggregator, whatever was added before -/
theorem agg_reset_is_new (c : Cfg ν κ) (g : State ν κ) (rows : List (Row ν)) :
    reset (rows.foldl (GroupAgg.add c) g) = ([] : State ν κ) := rfl

/-- **reset freshness over a sequence of batches**: the results of batch `k` are a function of the
rows of batch `k` only (they are `batchResults` of that batch) — nothing leaks from earlier batches,
for any history, provided the instance starts empty (new or reset). -/
theorem agg_reset_fresh [LawfulOrd ν] (c : Cfg ν κ) (bs : List (List (Row ν))) :
    runBatches c [] bs = bs.map (batchResults c) := by
  cases bs with
  | nil => rfl
  | cons b bs =>
    rw [runBatches_eq, getResults_spec]
    simp only [List.map_cons, List.cons.injEq, true_and]
    apply List.map_congr_left
    intro b' _
    exact getResults_spec c b'

/-- the same without any law on numbers, stated against fresh instances -/
theorem agg_reset_fresh_anynum (c : Cfg ν κ) (g : State ν κ) (b : List (Row ν)) (bs : List (List (Row ν))) :
    runBatches c g (b :: bs)
      = getResults c (b.foldl (GroupAgg.add c) g)
        :: bs.map fun b' => getResults c (b'.foldl (GroupAgg.add c) []) :=
  runBatches_eq c g b bs

end C03

/-! ## non-vacuity: concrete instances over exact rationals -/
namespace C03.Examples
open Agg AggSpec GroupAgg AggProofs

def env : Env Rat := ⟨fun _ => none, fun _ => [], fun _ => []⟩
def prm : Param Rat := ⟨(1 : Rat) / 2, 2⟩
def vals : List (Val Rat) := [.flt 3, .null, .int 1, .flt ((5 : Rat) / 2), .bool true, .str ['x']]

example : run env prm .sum vals = .one (.flt ((15 : Rat) / 2)) := by decide +kernel
example : run env prm .count vals = .one (.flt 5) := by decide +kernel
example : run env prm .avg vals = .one (.flt ((15 : Rat) / 8)) := by decide +kernel
example : run env prm .min vals = .one (.flt 1) := by decide +kernel
example : run env prm .max vals = .one (.flt 3) := by decide +kernel
example : run env prm .median vals = .one (.flt ((7 : Rat) / 4)) := by decide +kernel
example : run env prm .percentile vals = .one (.flt 1) := by decide +kernel
example : run env prm .var vals = .one (.flt ((51 : Rat) / 64)) := by decide +kernel
example : run env prm .vars vals = .one (.flt ((17 : Rat) / 16)) := by decide +kernel
example : run env prm .firstValue vals = .one (.flt 3) := by decide +kernel
example : run env prm .lastValue vals = .one (.str ['x']) := by decide +kernel
example : run env prm .nthValue vals = .one .null := by decide +kernel
example : run env prm .sum [.null, .str ['x']] = .one .null := by decide +kernel
example : run env prm .count [.null, .null] = .one (.flt 0) := by decide +kernel
example : run env prm .collect [.null, .bool true] = .many [.null, .bool true] := by decide +kernel
example : run env prm .dedup [.str ['a'], .bool true, .str ['a'], .str ['t','r','u','e']]
    = .many [.str ['a'], .bool true] := by decide +kernel
example : run env prm .mergeAgg [.str ['a'], .null, .bool false]
    = .one (.str "a,,false".toList) := by decide +kernel
-- the hypotheses of the permutation theorem are satisfiable and the conclusion is not trivial
example : ([.flt 3, .int 1, .null] : List (Val Rat)).Perm [.null, .flt 3, .int 1] := by decide
example : run env prm .median [.flt 3, .int 1, .null] = run env prm .median [.null, .flt 3, .int 1] :=
  C03.agg_perm_invariant env prm .median rfl (by decide)
-- first_value is NOT permutation invariant (so `orderInsensitive` is a real restriction)
example : run env prm .firstValue [.flt 3, .int 1] ≠ run env prm .firstValue [.int 1, .flt 3] := by
  decide +kernel

/-- a two-group, three-field query: `count(*)`, `sum(v)`, `collect(v*2)` grouped by `g` -/
def cfg : Cfg Rat (Option Str) where
  env := env
  fields := [⟨['c'], .count, prm, .star⟩, ⟨['s'], .sum, prm, .col ['v']⟩,
             ⟨['l'], .collect, prm, .expr fun r => match lookup ['v'] r with
                | some (.flt x) => some (.flt (x * 2)) | some .null => some .null | _ => none⟩]
  keyOf r := match lookup ['g'] r with | some (.str s) => some s | _ => none

def rowsA : List (Row Rat) :=
  [[(['g'], .str ['a']), (['v'], .flt 1)], [(['g'], .str ['b']), (['v'], .flt 5)],
   [(['g'], .str ['a']), (['v'], .null)], [(['g'], .str ['a'])], [(['v'], .flt 7)]]

example : getResults cfg (rowsA.foldl (GroupAgg.add cfg) []) =
    [(some ['a'], [(['c'], .one (.flt 3)), (['s'], .one (.flt 1)), (['l'], .many [.flt 2])]),
     (some ['b'], [(['c'], .one (.flt 1)), (['s'], .one (.flt 5)), (['l'], .many [.flt 10])]),
     (none,       [(['c'], .one (.flt 1)), (['s'], .one (.flt 7)), (['l'], .many [.flt 14])])] := by
  decide +kernel
example : runBatches cfg [] [rowsA, [[(['g'], .str ['a'])]]] =
    [batchResults cfg rowsA, [(some ['a'], [(['c'], .one (.flt 1)), (['s'], .one .null), (['l'], .many [])])]] := by
  decide +kernel

end C03.Examples

/-! ## tie to the source constants (regenerated from the repository on every run) -/
theorem C03.facts_constants :
    -- `len(values) < 2`, `math.Pow(_, 2)`, divisor `len-1` (stddev, stddevs, vars); `< 1`, `Pow(_, 2)` (var)
    Facts.functions_StdDevAggregatorFunction_Result_intlits = [2, 2, 1] ∧
    Facts.functions_StdDevSAggregatorFunction_Result_intlits = [2, 2, 1] ∧
    Facts.functions_VarSAggregatorFunction_Result_intlits = [2, 2, 1] ∧
    Facts.functions_VarAggregatorFunction_Result_intlits = [1, 2] ∧
    -- median: `len == 0`, `len/2`, `len%2 == 0`, `mid-1`, `/ 2`; percentile: `len == 0`, `len-1`, `len-1`
    Facts.functions_MedianAggregatorFunction_Result_intlits = [0, 2, 2, 0, 1, 2] ∧
    Facts.functions_PercentileAggregatorFunction_Result_intlits = [0, 1, 1] ∧
    Facts.functions_NthValueFunction_Result_intlits = [0, 1] ∧
    Facts.functions_NewNthValueFunction_intlits = [2, 2, 0, 1] ∧
    Facts.functions_AvgFunction_Result_intlits = [0] ∧
    Facts.functions_MergeAggFunction_Result_strlits = [","] ∧
    Facts.functions_DeduplicateAggregatorFunction_Add_strlits = ["%v"] ∧
    [Facts.functions_SumStr, Facts.functions_AvgStr, Facts.functions_MinStr, Facts.functions_MaxStr,
     Facts.functions_CountStr, Facts.functions_StdDevStr, Facts.functions_StdDevSStr, Facts.functions_VarStr,
     Facts.functions_VarSStr, Facts.functions_MedianStr, Facts.functions_PercentileStr,
     Facts.functions_CollectStr, Facts.functions_FirstValueStr, Facts.functions_LastValueStr,
     Facts.functions_MergeAggStr, Facts.functions_DeduplicateStr]
      = ["sum", "avg", "min", "max", "count", "stddev", "stddevs", "var", "vars", "median", "percentile",
         "collect", "first_value", "last_value", "merge_agg", "deduplicate"] := by decide
