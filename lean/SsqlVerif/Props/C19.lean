/-
C19 — every emitted row is processed exactly once or counted as dropped (placeholder while the
proofs are being written).
-/
import SsqlVerif.Model.Ingest
set_option autoImplicit false

namespace C19
open Ingest

theorem init_processed (c : Cfg) (n : Nat) : (init c n).processed = [] := rfl

end C19
