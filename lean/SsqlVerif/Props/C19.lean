/-
C19 — every emitted row is either processed exactly once or counted as dropped.
Property theorems only; helper lemmas live in `Proofs/Ingest*.lean`.

All statements quantify over `Reach c n s`: every state the ingest protocol (`Model/Ingest`) can
reach from `init c n` — any configuration `c` (strategy, buffer size, growth factor, increment,
threshold, ceiling, timeout), any number `n` of producers, any number of rows, and *any
interleaving* of the producers' code segments with the consumer, the channel migration and
Stop (a schedule is an arbitrary list of (thread, select-witness) pairs; `Reach` is its
inductive closure, `run_reaches` ties the executable `run` to it).  No bound on anything.
-/
import SsqlVerif.Proofs.IngestSpec
import SsqlVerif.Generated.Facts
set_option autoImplicit false

namespace C19
open Ingest

/-- every state produced by running a schedule is reachable -/
theorem run_reaches (c : Cfg) (n : Nat) (sched : List (Tid × Wit)) : Reach c n (run c (init c n) sched) :=
  run_reach c n sched _ Reach.init

/-- **Conservation.** At every moment, under every interleaving, the rows handed to Emit are
exactly (as a multiset): the processed rows, the rows counted as dropped, the rows whose Emit
returned silently because the stream was stopped, the rows buffered in some channel (old or new,
during migration too) and the rows of the Emit calls still in progress. Nothing is lost, nothing
is invented. `input_count` counts the Emit calls. -/
theorem conservation (c : Cfg) (n : Nat) (s : State) (h : Reach c n s) :
    (accounted s).Perm (entered s) ∧ s.input = (entered s).length :=
  ⟨perm_of_cons s (ci_reach c n s h).1, input_entered s (ci_reach c n s h)⟩

/-- **Conservation at quiescence.** While the instance is not stopped, once all Emit calls have
returned, `#processed + input_dropped_count + data_chan_len = input_count`; with the buffer
drained, processed + dropped = Emit calls. -/
theorem conservation_quiescent (c : Cfg) (n : Nat) (s : State) (h : Reach c n s)
    (hst : s.stopped = false) (hidle : allIdle s = true) :
    s.processed.length + s.dropped.length + curLen s = s.input ∧
    (curLen s = 0 → s.processed.length + s.dropped.length = s.input) := by
  have := quiescent_count c s (inv_reach c n s h) (ci_reach c n s h) hst hidle
  exact ⟨this, fun h0 => by omega⟩

/-- **No duplicate.** No row occurs twice anywhere in the system — in particular no row is
processed twice, and a processed row is never also counted as dropped — also while the input
buffer is being expanded. -/
theorem no_duplicate (c : Cfg) (n : Nat) (s : State) (h : Reach c n s) :
    (accounted s).Nodup ∧ s.processed.Nodup := by
  have hnd := accounted_nodup c s (inv_reach c n s h) (ci_reach c n s h).1
  refine ⟨hnd, ?_⟩
  have : s.processed.Sublist (accounted s) := by
    simp only [accounted, List.append_assoc]; exact List.sublist_append_left _ _
  exact this.nodup hnd

/-- **Block never drops.** With the block strategy and no timeout nothing is ever counted as
dropped, and an Emit call returns without delivering its row only if the stream was stopped. -/
theorem block_never_drops (c : Cfg) (n : Nat) (s : State) (h : Reach c n s)
    (hb : c.strat = .block) (ht : c.timeout = false) :
    s.dropped = [] ∧ (s.exits ≠ [] → s.stopped = true) :=
  ⟨(inv_reach c n s h).core.noDrop hb ht, (inv_reach c n s h).core.flags.2.2⟩

/-- **Capacity bound.** Expansion never exceeds the configured maximum: every channel ever
allocated has capacity ≤ max(MaxBufferSize, initial size), and ≥ the initial size. -/
theorem capacity_le_max (c : Cfg) (n : Nat) (s : State) (h : Reach c n s) :
    (0 < c.maxCap → ∀ ch ∈ s.chans, ch.cap ≤ max c.maxCap c.cap0) ∧ (∀ ch ∈ s.chans, c.cap0 ≤ ch.cap) :=
  ⟨(inv_reach c n s h).core.capsMax, (inv_reach c n s h).core.capsMin⟩

/-- **Expansion is monotone.** Every newly allocated channel is strictly larger than all earlier
ones, and (outside a migration) the current channel is the largest. -/
theorem expansion_monotone (c : Cfg) (n : Nat) (s : State) (h : Reach c n s) :
    List.Pairwise (· < ·) (s.chans.map (·.cap)) ∧
    (s.mig = none → ∀ k ch, s.curCh = some k → s.chans[k]? = some ch → ∀ x ∈ s.chans, x.cap ≤ ch.cap) := by
  have hinv := inv_reach c n s h
  refine ⟨hinv.core.capsInc, ?_⟩
  intro hm k ch hk hch
  exact caps_le_last s.chans hinv.core.capsInc k ch hch (hinv.core.curLast hm k hk)

/-- **Single-producer order** (full statement, the repaired consumer): when the consumer
receives under the read lock, each producer's rows are processed in emission order — for any
number of concurrent producers, expansions and migrations. -/
theorem single_producer_order (c : Cfg) (n : Nat) (s : State) (h : Reach c n s) (hcl : c.consLock = true) (p : Nat) :
    List.Pairwise (· < ·) (seqsOf p s.processed) :=
  processed_sorted s ((all_reach c n s h).2.2 hcl) p

/-- the same statement without the hypothesis on the consumer -/
def single_producer_order_unlocked_full : Prop :=
  ∀ (c : Cfg) (n : Nat) (s : State), Reach c n s → ∀ p, List.Pairwise (· < ·) (seqsOf p s.processed)

/-- the schedule of the defect found in the code as it was: the consumer reads the channel
reference, the producer fills the buffer and starts migrating, row 0 moves to the new channel,
the consumer receives row 1 from the old one -/
def staleCfg : Cfg :=
  { strat := .expand, cap0 := 2, maxCap := 10, growNum := 2, growDen := 1, minInc := 1, thrNum := 1, thrDen := 2,
    timeout := false, consLock := false }

def staleSched : List (Tid × Wit) :=
  [(.cons, .tick)] ++ List.replicate 13 (.prod 0, .timer) ++ [(.cons, .recv), (.prod 0, .timer), (.cons, .tick), (.cons, .recv)]

/-- **Without the read lock around the receive the order can invert** (negation witness; this
is the behaviour the check found on the unrepaired code, see `corpus/C19/stale-pointer.ops`). -/
theorem single_producer_order_unlocked_fails : ¬ single_producer_order_unlocked_full := by
  intro h
  have := h staleCfg 1 _ (run_reaches staleCfg 1 staleSched) 0
  revert this
  decide

/-- **The model satisfies the declarative specification** the driver evaluates on the
implementation's observables (once-only, order, counted, accounted, conserved, block-never-drops,
capacity), whenever no migration is in progress at the moment of the look. -/
theorem spec_holds (c : Cfg) (n : Nat) (s : State) (h : Reach c n s) (hcl : c.consLock = true) (hmig : s.mig = none) :
    IngestSpec.holds (kfgOf c) (observe s) = true :=
  Ingest.spec_holds c n s h hcl hmig

/-! non-vacuity: the hypotheses are satisfiable and the conclusions are about non-trivial states -/

def demoCfg : Cfg :=
  { strat := .expand, cap0 := 1, maxCap := 3, growNum := 3, growDen := 2, minInc := 1, thrNum := 1, thrDen := 2,
    timeout := false, consLock := true }

/-- one producer, buffer of 1: rows 0 and 1 are emitted, the buffer expands 1 → 2 with a migration,
the consumer processes both in order -/
def demoSched : List (Tid × Wit) :=
  List.replicate 14 (.prod 0, .timer) ++ [(.cons, .tick), (.cons, .recv), (.cons, .tick), (.cons, .recv)]

example : (run demoCfg (init demoCfg 1) demoSched).processed = [⟨0, 0⟩, ⟨0, 1⟩] := by decide
example : (run demoCfg (init demoCfg 1) demoSched).chans.map (·.cap) = [1, 2] := by decide
example : allIdle (run demoCfg (init demoCfg 1) demoSched) = true ∧
    (run demoCfg (init demoCfg 1) demoSched).input = 2 := by decide
/-- the inversion reached by the witness schedule -/
example : (run staleCfg (init staleCfg 1) staleSched).processed = [⟨0, 1⟩, ⟨0, 0⟩] := by decide
/-- a drop is reachable (drop strategy, buffer of 1, consumer never runs) -/
example : (run { demoCfg with strat := .drop } (init demoCfg 1) (List.replicate 14 (.prod 0, .timer))).dropped = [⟨0, 1⟩] := by
  decide
/-- the block strategy with a timeout does drop: the hypothesis of `block_never_drops` matters -/
example : (run { demoCfg with strat := .block, timeout := true } (init demoCfg 1)
    (List.replicate 5 (.prod 0, .send) ++ [(.prod 0, .timer)])).dropped = [⟨0, 1⟩] := by decide
example : expandDecision demoCfg 1 1 = some 2 := by decide
example : expandDecision demoCfg 3 3 = none := by decide

end C19

/-! tie to the source constants (regenerated on every run from the repository by factsgen):
the defaults and bounds `Model/Ingest` uses are the literals of the Go functions -/
theorem C19.facts_ingest :
    Facts.stream_Stream_expandDataChannel_numlits =
      ["0", "1", "0", "0", "0", "0", "0.8", "1", "1.5", "0", "1000", "0", "5", "0"] ∧
    Facts.stream_ExpansionStrategy_ProcessData_intlits = [1, 0, 3, 100] ∧
    Facts.stream_DropStrategy_ProcessData_intlits = [0, 3, 100] ∧
    Facts.stream_BlockingStrategy_ProcessData_intlits = [1, 0] ∧
    Facts.stream_StrategyDrop = "drop" ∧ Facts.stream_StrategyBlock = "block" ∧ Facts.stream_StrategyExpand = "expand" ∧
    Ingest.defaultMinInc = 1000 ∧ Ingest.defaultGrow = (3, 2) ∧ Ingest.defaultThr = (4, 5) := by decide
