/-
Model of the group-key encoders of rulego/streamsql (C04, shared with C09 and C16):

* `aggregator/group_aggregator.go  (*GroupAggregator).Add`  — `encAgg`:
  every column contributes `<decimal length>:<value><sep>`; a NULL / missing column contributes
  `<nullMarker><sep>` (the marker starts with a NUL byte, never a digit).
* `window/counting_window.go getKey`, `window/session_window.go extractSessionCompositeKey`,
  `window/global_window.go getKeyAndValues` — `encBar`: every column is rendered, the
  separator `|` and the escape byte `\` are escaped (`\|`, `\\`), NULL / missing is `\N`,
  the cells are joined with `|`.  With no GROUP BY column the key is a per-window constant.
* `stream/table_store.go encodeKey` — `encJoin`: the type-tagged parts (`encodeOne`) are
  escaped the same way (escape byte `\`, separator 0x1f) and joined with 0x1f; a single
  (non-tuple) key is the escaped part itself, i.e. the 1-tuple.

Go strings are byte strings; the model is generic in the symbol type for the escaping scheme
and uses `List Char` (bytes as code points < 256) for the length-prefixed scheme.
Core Lean only.
-/
set_option autoImplicit false

namespace GroupKey

abbrev Str := List Char

/-! ### separator escaping (window keys, join keys) -/
section Esc
variable {α : Type} [DecidableEq α] (esc sep nul : α)

/-- a symbol that must be escaped: the escape symbol itself and the separator -/
def special (c : α) : Bool := decide (c = esc) || decide (c = sep)

/-- `escapeKeyPart`: copy the value, putting `esc` before every `esc` and every `sep` -/
def escStr : List α → List α
  | [] => []
  | c :: cs => if special esc sep c then esc :: c :: escStr cs else c :: escStr cs

/-- one column: NULL / missing is the two-symbol token `esc nul`, a value is its escaped text -/
def escCell : Option (List α) → List α
  | none => [esc, nul]
  | some s => escStr esc sep s

/-- the cells after the first one, each preceded by the separator -/
def escTail : List (Option (List α)) → List α
  | [] => []
  | c :: cs => sep :: (escCell esc sep nul c ++ escTail cs)

/-- `strings.Join(parts, sep)` of the escaped cells -/
def escJoin : List (Option (List α)) → List α
  | [] => []
  | c :: cs => escCell esc sep nul c ++ escTail esc sep nul cs

end Esc

/-! ### the three `|`-joined window encoders (identical after the repair) -/

def barEsc : Char := '\\'
def barSep : Char := '|'
def barNul : Char := 'N'

/-- key of a row with at least one GROUP BY column -/
def encBar (t : List (Option Str)) : Str := escJoin barEsc barSep barNul t

/-- `getKey` / `extractSessionCompositeKey` / `getKeyAndValues`: a constant when there is no
GROUP BY column (`"__global__"`, `"default"`, `"__global__"`), `encBar` otherwise -/
def encWindow (noKeys : Str) (t : List (Option Str)) : Str :=
  match t with
  | [] => noKeys
  | _ :: _ => encBar t

/-! ### join key (`encodeKey` over `encodeOne` parts) -/

def joinSep : Char := Char.ofNat 0x1f

def encJoin (parts : List Str) : Str := escJoin barEsc joinSep barNul (parts.map some)

/-! ### aggregator key: length prefix + terminator -/

def aggSep : Str := [Char.ofNat 0x1f]
def aggNull : Str := [Char.ofNat 0, 'N', 'U', 'L', 'L']

def aggCell : Option Str → Str
  | none => aggNull ++ aggSep
  | some s => Nat.toDigits 10 s.length ++ ':' :: (s ++ aggSep)

def encAgg (t : List (Option Str)) : Str := t.flatMap aggCell

/-! ### typed key values and their rendering -/

/-- a grouping value as it sits in a row. `flt` carries the float64 by its bit pattern together
with Go's two renderings of it (`strconv.FormatFloat(v,'f',-1,64)` used by `cast.ToString`, and
`fmt.Sprintf("%v")`): number formatting is trusted Go runtime, reported by the harness. -/
inductive Val where
  | null
  | missing
  | str (s : Str)
  | int (i : Int)
  | bool (b : Bool)
  | flt (bits : Nat) (rf rg : Str)
  deriving DecidableEq, Repr

def natStr (n : Nat) : Str := Nat.toDigits 10 n

def intStr : Int → Str
  | Int.ofNat n => natStr n
  | Int.negSucc n => '-' :: natStr (n + 1)

def boolStr : Bool → Str
  | true => "true".toList
  | false => "false".toList

/-- `cast.ToString` (counting and session windows): nil and a missing column have no text -/
def renderCast : Val → Option Str
  | .null => none
  | .missing => none
  | .str s => some s
  | .int i => some (intStr i)
  | .bool b => some (boolStr b)
  | .flt _ rf _ => some rf

/-- string as is, everything else `%v` (aggregator, global window) -/
def renderV : Val → Option Str
  | .null => none
  | .missing => none
  | .str s => some s
  | .int i => some (intStr i)
  | .bool b => some (boolStr b)
  | .flt _ _ rg => some rg

/-- NULL and missing are one value for grouping -/
def Val.norm : Val → Val
  | .missing => .null
  | v => v

/-- the value a result row reports for the group column (`groupKeyVals`: nil for the NULL group) -/
def normTuple (t : List Val) : List Val := t.map Val.norm

def encCounting (t : List Val) : Str := encWindow "__global__".toList (t.map renderCast)
def encSession (t : List Val) : Str := encWindow "default".toList (t.map renderCast)
def encGlobal (t : List Val) : Str := encWindow "__global__".toList (t.map renderV)
def encAggregator (t : List Val) : Str := encAgg (t.map renderV)

end GroupKey
