/-
Model of the LIKE matcher that exists three times in rulego/streamsql
(`condition/condition.go matchesLikePattern`, `expr/evaluator.go matchLikePattern`,
`functions/expr_bridge.go (*ExprBridge).matchesLikePattern`) and of the pattern
rewriting `functions/expr_bridge.go convertLikeToFunction`.

Go strings are byte strings and all three loops index bytes; the model is generic in
the symbol type `α` (decidable equality) with the two wildcard symbols as parameters.
The driver instantiates it at `Char` (bytes embedded as code points < 256).
Core Lean only.
-/
set_option autoImplicit false

namespace Like
section
variable {α : Type} [DecidableEq α] (pct und : α)

/-- One run of the Go `for ti < len(text)` loop, one recursive call per iteration.
`star = none` is Go's `starIdx == -1`.  The loop has no structural measure, so it takes a
fuel argument; `likeImpl` supplies `(|t|+1)(|p|+1)+1`, proved sufficient in `Proofs/Like`
(the result never is the `fuel = 0` default). Branch order as in the code: the `%` test
comes first, then literal/`_`, then back-tracking to the last `%`. -/
def likeLoop (t p : List α) : Nat → Nat → Nat → Option Nat → Nat → Bool
  | 0, _, _, _, _ => false
  | fuel+1, ti, pi, star, mi =>
    match t[ti]? with
    | none => (p.drop pi).all (fun q => decide (q = pct))      -- trailing `%` loop + `pi == len(pattern)`
    | some c =>
      match p[pi]? with
      | some q =>
        if q = pct then likeLoop t p fuel ti (pi+1) (some pi) ti
        else if q = und ∨ q = c then likeLoop t p fuel (ti+1) (pi+1) star mi
        else match star with
          | some s => likeLoop t p fuel (mi+1) (s+1) star (mi+1)
          | none => false
      | none =>
        match star with
        | some s => likeLoop t p fuel (mi+1) (s+1) star (mi+1)
        | none => false

def likeImpl (t p : List α) : Bool :=
  likeLoop pct und t p ((t.length+1)*(p.length+1)+1) 0 0 none 0

/-! ### `convertLikeToFunction` -/

/-- what a `field LIKE 'pattern'` is rewritten to for expr-lang -/
inductive Rewritten (α : Type) where
  | eq (s : List α)            -- `field == 's'`
  | startsWith (s : List α)    -- `field startsWith 's'`
  | endsWith (s : List α)      -- `field endsWith 's'`
  | contains (s : List α)      -- `field contains 's'`
  | always                      -- `true`
  | likeMatch (p : List α)     -- `like_match(field, 'p')`  → the bridge's matcher
  deriving DecidableEq, Repr

/-- Go `strings.TrimLeft(s, "%")` -/
def trimLeft : List α → List α
  | [] => []
  | c :: cs => if c = pct then trimLeft cs else c :: cs

/-- Go `strings.Trim(s, "%")` -/
def trim (s : List α) : List α := (trimLeft pct (trimLeft pct s).reverse).reverse

def hasPrefixPct : List α → Bool
  | [] => false
  | c :: _ => decide (c = pct)

def hasSuffixPct (s : List α) : Bool := hasPrefixPct pct s.reverse

def convertLike (p : List α) : Rewritten α :=
  if p = [] then .eq []
  else if trim pct p ≠ [] ∧ ((trim pct p).contains und ∨ (trim pct p).contains pct) then .likeMatch p
  else if trim pct p = [] then .always
  else if hasPrefixPct pct p ∧ hasSuffixPct pct p then .contains (trim pct p)
  else if hasPrefixPct pct p then .endsWith (trim pct p)
  else if hasSuffixPct pct p then .startsWith (trim pct p)
  else .eq p

/-- `strings.Contains(t, s)` -/
def isInfix (s : List α) : List α → Bool
  | [] => s.isEmpty
  | c :: t => s.isPrefixOf (c :: t) || isInfix s t

/-- evaluation of the rewritten form on a text value (expr-lang string operators are
Go's `strings.HasPrefix/HasSuffix/Contains`, `==` on strings) -/
def evalRewritten (t : List α) : Rewritten α → Bool
  | .eq s => decide (t = s)
  | .startsWith s => s.isPrefixOf t
  | .endsWith s => s.reverse.isPrefixOf t.reverse
  | .contains s => isInfix s t
  | .always => true
  | .likeMatch p => likeImpl pct und t p

end
end Like
