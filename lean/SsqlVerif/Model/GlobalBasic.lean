/-
C17 — vocabulary shared by the model of `window/global_window.go` and by the specification:
numbers, input cells, aggregate calls, TRIGGER WHEN predicates, rows, queries, results.
Core Lean only.  Nothing here describes engine state.
-/
set_option autoImplicit false

namespace Global

/-- The operations the aggregates and the predicate need from the number type.  No laws are
required: every C17 theorem holds for *any* instance — exact arithmetic (`Int`, `Rat`) as well as
IEEE binary64 (`Float`, used by the driver so that results can be compared bit for bit). -/
class Num (ν : Type) where
  zero : ν
  add : ν → ν → ν
  div : ν → ν → ν
  ofNat : Nat → ν
  lt : ν → ν → Bool
  le : ν → ν → Bool
  eq : ν → ν → Bool

instance : Num Int where
  zero := 0
  add := (· + ·)
  div := (· / ·)
  ofNat := Int.ofNat
  lt a b := decide (a < b)
  le a b := decide (a ≤ b)
  eq a b := decide (a = b)

instance : Num Rat where
  zero := 0
  add := (· + ·)
  div := (· / ·)
  ofNat n := (n : Rat)
  lt a b := decide (a < b)
  le a b := decide (a ≤ b)
  eq a b := decide (a = b)

instance : Num Float where
  zero := 0.0
  add := (· + ·)
  div := (· / ·)
  ofNat := Float.ofNat
  lt a b := a < b
  le a b := a ≤ b
  eq a b := a == b

inductive AggFn where
  | count | sum | avg | min | max
  deriving DecidableEq, Repr, Inhabited

/-- What a row holds for a field: absent, explicit NULL (`nil`), a number, or a value that is
neither NULL nor convertible to a number (`cast.ToFloat64E` fails; e.g. the string "zz"). -/
inductive Cell (ν : Type) where
  | missing
  | null
  | num (x : ν)
  | junk
  deriving DecidableEq, Repr

namespace Cell
variable {ν : Type}

/-- `!ok || val == nil` in `feedAggs` -/
def isNil : Cell ν → Bool
  | missing => true
  | null => true
  | num _ => false
  | junk => false

/-- `cast.ToFloat64E` succeeded -/
def num? : Cell ν → Option ν
  | num x => some x
  | _ => none

end Cell

/-- an aggregate call `fn(field)`; `field = none` is `*` (also the empty argument list) -/
structure AggCall (φ : Type) where
  fn : AggFn
  field : Option φ
  deriving DecidableEq, Repr

inductive Cmp where
  | gt | ge | lt | le | eq | ne
  deriving DecidableEq, Repr

/-- meaning of the six comparison operators on two numbers -/
def cmpNum {ν : Type} [Num ν] : Cmp → ν → ν → Bool
  | .gt, x, l => Num.lt l x
  | .ge, x, l => Num.le l x
  | .lt, x, l => Num.lt x l
  | .le, x, l => Num.le x l
  | .eq, x, l => Num.eq x l
  | .ne, x, l => !Num.eq x l

/-- TRIGGER WHEN predicates: comparisons of aggregate calls with literals under AND / OR -/
inductive Pred (φ ν : Type) where
  | cmp (c : AggCall φ) (op : Cmp) (lit : ν)
  | and (l r : Pred φ ν)
  | or (l r : Pred φ ν)
  deriving Repr

/-- aggregate calls of a predicate in document order (one per occurrence) -/
def Pred.leaves {φ ν : Type} : Pred φ ν → List (AggCall φ)
  | .cmp c _ _ => [c]
  | .and l r => l.leaves ++ r.leaves
  | .or l r => l.leaves ++ r.leaves

/-- one input row: its group-key tuple, its (processing-time) timestamp, its fields -/
structure Row (κ φ ν : Type) where
  key : κ
  ts : Int
  cells : List (φ × Cell ν)
  deriving DecidableEq

def lookupCell {φ ν : Type} [DecidableEq φ] (f : φ) : List (φ × Cell ν) → Cell ν
  | [] => .missing
  | (g, c) :: rest => if g = f then c else lookupCell f rest

def Row.get {κ φ ν : Type} [DecidableEq φ] (r : Row κ φ ν) (f : φ) : Cell ν := lookupCell f r.cells

/-- what an aggregate call reads from a row: `*` reads the constant 1 (`agg.Add(1)`) -/
def cellOf {κ φ ν : Type} [DecidableEq φ] [Num ν] (c : AggCall φ) (r : Row κ φ ν) : Cell ν :=
  match c.field with
  | none => .num (Num.ofNat 1)
  | some f => r.get f

/-- `SELECT <outputs: alias = aggregate call> … GLOBAL WINDOW TRIGGER WHEN pred` -/
structure Query (α φ ν : Type) where
  outputs : List (α × AggCall φ)
  pred : Pred φ ν

/-- one delivered result: group columns, one value per SELECT output (`none` = NULL), window bounds -/
structure Result (κ ν : Type) where
  key : κ
  vals : List (Option ν)
  wstart : Int
  wend : Int
  deriving DecidableEq

end Global
