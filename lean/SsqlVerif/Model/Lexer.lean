/-
Model of `rsql/lexer.go` (complete): `NextToken` with `skipWhitespace`, the operator
switch, `-digit` negative numbers, `readStringToken` (either quote, no escapes),
`readQuotedIdentToken`, `readIdentifier` (letters, digits, dots), `readNumber`, `lookupIdent`
(keyword table), the NUL byte acting as end of input, invalid characters skipped, and the
lexical error events the lexer records in its `ErrorRecovery` (`isValidNumber`,
unterminated literals, unexpected characters, `checkForTypos`).

Go strings are byte strings and the lexer indexes bytes.  A byte is a `Nat` here (the driver
feeds values < 256; the theorems hold for every `Nat`, values ≥ 256 are just "invalid
characters").  The Go lexer state `(input, pos)` is the *remaining suffix* of the input in the
model: `l.ch` is its head, or 0 when it is empty — which is why a NUL byte and the end of the
input are indistinguishable in the code, and in the model.

`nextToken s = (token, n)`: the token `NextToken()` returns when the unread input is `s`, and
the number `n` of bytes it consumed (skipped junk included).  `lexAll` is the loop "call
`NextToken` until `TokenEOF`"; it is *structurally* recursive on the input (a skip counter walks
over the bytes of the token just produced), so termination is Lean's structural check — no fuel.

The keyword spellings come from `Generated/Facts.lean` (string literals of `lookupIdent`,
re-extracted from the Go source on every run); token type codes from the `Token*` constants.
Core Lean only.
-/
import SsqlVerif.Generated.Facts
set_option autoImplicit false

namespace Lexer

/-- a byte is a `Nat` (notation, so that `omega` sees plain `Nat` arithmetic) -/
scoped notation "Byte" => Nat

/-! ### character classes (`isLetter`, `isDigit`, `skipWhitespace`, `strings.ToUpper` on ASCII) -/

def isWs (b : Byte) : Bool := b == 32 || b == 9 || b == 10 || b == 13
def isLower (b : Byte) : Bool := decide (97 ≤ b) && decide (b ≤ 122)
def isUpper (b : Byte) : Bool := decide (65 ≤ b) && decide (b ≤ 90)
def isLetter (b : Byte) : Bool := isLower b || isUpper b || b == 95
def isDigit (b : Byte) : Bool := decide (48 ≤ b) && decide (b ≤ 57)
/-- loop condition of `readIdentifier` -/
def isIdentChar (b : Byte) : Bool := isLetter b || isDigit b || b == 46
/-- loop condition of `readNumber` -/
def isNumChar (b : Byte) : Bool := isDigit b || b == 46
def upper (b : Byte) : Byte := if isLower b then b - 32 else b

/-! ### token kinds -/

inductive Kind where
  | eof | ident | number | string | qident
  | comma | lparen | rparen | plus | minus | asterisk | slash
  | eq | ne | gt | lt | ge | le
  | lbracket | rbracket | dot | question | pipe | lbrace | rbrace
  | kw (i : Nat)      -- the `i`-th case of the `lookupIdent` switch
  deriving DecidableEq, Repr

structure Token where
  kind : Kind
  val  : List Byte
  deriving DecidableEq, Repr

def eofTok : Token := ⟨.eof, []⟩

/-! ### keyword table (`lookupIdent`) -/

def bytesOf (s : String) : List Byte := s.toList.map Char.toNat

/-- the case labels of the `lookupIdent` switch, in source order, as byte strings -/
def keywords : List (List Byte) := Facts.rsql_Lexer_lookupIdent_strlits.map bytesOf

/-- token type constants returned by the cases of `lookupIdent`, in the same source order -/
def kwCodes : List Int :=
  [Facts.rsql_TokenSELECT, Facts.rsql_TokenFROM, Facts.rsql_TokenWHERE, Facts.rsql_TokenGROUP,
   Facts.rsql_TokenBY, Facts.rsql_TokenAS, Facts.rsql_TokenOR, Facts.rsql_TokenAND,
   Facts.rsql_TokenTumbling, Facts.rsql_TokenSliding, Facts.rsql_TokenCounting, Facts.rsql_TokenSession,
   Facts.rsql_TokenGlobal, Facts.rsql_TokenWindow, Facts.rsql_TokenTrigger, Facts.rsql_TokenWITH,
   Facts.rsql_TokenTimestamp, Facts.rsql_TokenTimeUnit, Facts.rsql_TokenMaxOutOfOrderness,
   Facts.rsql_TokenAllowedLateness, Facts.rsql_TokenIdleTimeout, Facts.rsql_TokenStateTTL,
   Facts.rsql_TokenOrder, Facts.rsql_TokenDISTINCT, Facts.rsql_TokenLIMIT, Facts.rsql_TokenHAVING,
   Facts.rsql_TokenLIKE, Facts.rsql_TokenIS, Facts.rsql_TokenNULL, Facts.rsql_TokenNOT,
   Facts.rsql_TokenCASE, Facts.rsql_TokenWHEN, Facts.rsql_TokenTHEN, Facts.rsql_TokenELSE,
   Facts.rsql_TokenEND, Facts.rsql_TokenOVER, Facts.rsql_TokenPARTITION]

/-- position of `w` in a table (first match, as a Go `switch` picks the first equal case) -/
def indexOf (w : List Byte) : List (List Byte) → Nat → Option Nat
  | [], _ => none
  | k :: ks, i => if k = w then some i else indexOf w ks (i + 1)

/-- `lookupIdent`'s decision: the switch runs on `strings.ToUpper(ident)` -/
def wordKindIn (table : List (List Byte)) (w : List Byte) : Kind :=
  match indexOf (w.map upper) table 0 with
  | some i => .kw i
  | none => .ident

def wordKind (w : List Byte) : Kind := wordKindIn keywords w

/-- Go's `TokenType` integer of a kind -/
def Kind.code : Kind → Int
  | .eof => Facts.rsql_TokenEOF | .ident => Facts.rsql_TokenIdent | .number => Facts.rsql_TokenNumber
  | .string => Facts.rsql_TokenString | .qident => Facts.rsql_TokenQuotedIdent
  | .comma => Facts.rsql_TokenComma | .lparen => Facts.rsql_TokenLParen | .rparen => Facts.rsql_TokenRParen
  | .plus => Facts.rsql_TokenPlus | .minus => Facts.rsql_TokenMinus | .asterisk => Facts.rsql_TokenAsterisk
  | .slash => Facts.rsql_TokenSlash | .eq => Facts.rsql_TokenEQ | .ne => Facts.rsql_TokenNE
  | .gt => Facts.rsql_TokenGT | .lt => Facts.rsql_TokenLT | .ge => Facts.rsql_TokenGE | .le => Facts.rsql_TokenLE
  | .lbracket => Facts.rsql_TokenLBracket | .rbracket => Facts.rsql_TokenRBracket | .dot => Facts.rsql_TokenDot
  | .question => Facts.rsql_TokenQuestion | .pipe => Facts.rsql_TokenPipe
  | .lbrace => Facts.rsql_TokenLBrace | .rbrace => Facts.rsql_TokenRBrace
  | .kw i => kwCodes.getD i (-1)

/-- every kind the lexer can produce -/
def allKinds : List Kind :=
  [.eof, .ident, .number, .string, .qident, .comma, .lparen, .rparen, .plus, .minus, .asterisk, .slash,
   .eq, .ne, .gt, .lt, .ge, .le, .lbracket, .rbracket, .dot, .question, .pipe, .lbrace, .rbrace] ++
  (List.range kwCodes.length).map Kind.kw

/-! ### the `switch l.ch` of `NextToken`: what a byte starts -/

inductive Start where
  | eof                       -- `case 0`
  | op1 (k : Kind)            -- single-character tokens
  | minus                     -- `-`: negative number or minus operator
  | cmp (k1 k2 : Kind)        -- `=`, `>`, `<`: kind alone / kind when followed by `=`
  | bang                      -- `!`: `!=` or an invalid character
  | quote                     -- `'` or `"`
  | backtick
  | letter
  | digit
  | ws                        -- skipped by `skipWhitespace`
  | invalid                   -- "Unexpected character": error recorded, skipped
  deriving DecidableEq, Repr

/-- the `case` labels of the `switch l.ch` -/
def punct : Byte → Start
  | 0 => .eof
  | 44 => .op1 .comma
  | 40 => .op1 .lparen
  | 41 => .op1 .rparen
  | 91 => .op1 .lbracket
  | 93 => .op1 .rbracket
  | 46 => .op1 .dot
  | 63 => .op1 .question
  | 124 => .op1 .pipe
  | 123 => .op1 .lbrace
  | 125 => .op1 .rbrace
  | 43 => .op1 .plus
  | 45 => .minus
  | 42 => .op1 .asterisk
  | 47 => .op1 .slash
  | 61 => .cmp .eq .eq
  | 62 => .cmp .gt .ge
  | 60 => .cmp .lt .le
  | 33 => .bang
  | 39 => .quote
  | 34 => .quote
  | 96 => .backtick
  | _ => .invalid

/-- The Go code runs the `switch` first and tests `isLetter`, `isDigit` afterwards (whitespace was
skipped before); no letter, digit or whitespace byte is a `case` label, so the order of the tests is
immaterial and the model asks the class questions first (it keeps the case analysis in proofs small). -/
def startOf (b : Byte) : Start :=
  if isLetter b then .letter
  else if isDigit b then .digit
  else if isWs b then .ws
  else punct b

/-- `l.peekChar() == '='` -/
def nextIsEq : List Byte → Bool
  | 61 :: _ => true
  | _ => false

/-- `l.peekChar() != 0 && isDigit(l.peekChar())` -/
def nextIsDigit : List Byte → Bool
  | c :: _ => isDigit c
  | [] => false

/-- does `NextToken` skip byte `b` (followed by `rest`) before it reads a token?  whitespace,
unexpected characters, and a `!` that is not followed by `=` -/
def isJunkAt (b : Byte) (rest : List Byte) : Bool :=
  match startOf b with
  | .ws => true
  | .invalid => true
  | .bang => !nextIsEq rest
  | _ => false

/-- number of bytes `NextToken` skips before the token starts (`skipWhitespace` and the
"skip invalid character, `return l.NextToken()`" recursion) -/
def junkLen : List Byte → Nat
  | [] => 0
  | b :: rest => if isJunkAt b rest then junkLen rest + 1 else 0

/-! ### readers -/

/-- `readIdentifier` + `lookupIdent`: input starts with a letter -/
def wordAt (s : List Byte) : Token × Nat :=
  (⟨wordKind (s.takeWhile isIdentChar), s.takeWhile isIdentChar⟩, (s.takeWhile isIdentChar).length)

/-- `readNumber`: input starts with a digit -/
def numberAt (s : List Byte) : Token × Nat :=
  (⟨.number, s.takeWhile isNumChar⟩, (s.takeWhile isNumChar).length)

/-- `case '-'`; `rest` is the input after the `-` -/
def minusAt (rest : List Byte) : Token × Nat :=
  if nextIsDigit rest then (⟨.number, 45 :: rest.takeWhile isNumChar⟩, (rest.takeWhile isNumChar).length + 1)
  else (⟨.minus, [45]⟩, 1)

/-- `=`, `>`, `<` (byte `b`), possibly followed by `=` -/
def cmpAt (b : Byte) (k1 k2 : Kind) (rest : List Byte) : Token × Nat :=
  if nextIsEq rest then (⟨k2, [b, 61]⟩, 2) else (⟨k1, [b]⟩, 1)

/-- `!` followed by `=`; a `!` followed by anything else is junk and never reaches `tokenAt` -/
def bangAt (rest : List Byte) : Token × Nat :=
  if nextIsEq rest then (⟨.ne, [33, 61]⟩, 2) else (eofTok, 0)

/-- loop condition of `readStringToken` / `readQuotedIdentToken`: `l.ch != quote && l.ch != 0` -/
def inLiteral (q : Byte) (c : Byte) : Bool := c != q && c != 0

/-- is the literal closed, i.e. does the scan stop at the quote (not at NUL / end of input)? -/
def closedBy (q : Byte) (after : List Byte) : Bool :=
  match after with
  | c :: _ => c == q
  | [] => false

/-- `readStringToken` / `readQuotedIdentToken`; `rest` is the input after the opening quote `q`.
The value keeps the quotes; an unterminated literal runs to NUL / end of input. -/
def quotedAt (k : Kind) (q : Byte) (rest : List Byte) : Token × Nat :=
  if closedBy q (rest.dropWhile (inLiteral q)) then
    (⟨k, q :: (rest.takeWhile (inLiteral q) ++ [q])⟩, (rest.takeWhile (inLiteral q)).length + 2)
  else
    (⟨k, q :: rest.takeWhile (inLiteral q)⟩, (rest.takeWhile (inLiteral q)).length + 1)

/-- the token that starts at the head of `s` (no junk in front), and its length -/
def tokenAt : List Byte → Token × Nat
  | [] => (eofTok, 0)
  | b :: rest =>
    match startOf b with
    | .eof => (eofTok, 0)
    | .op1 k => (⟨k, [b]⟩, 1)
    | .minus => minusAt rest
    | .cmp k1 k2 => cmpAt b k1 k2 rest
    | .bang => bangAt rest
    | .quote => quotedAt .string b rest
    | .backtick => quotedAt .qident b rest
    | .letter => wordAt (b :: rest)
    | .digit => numberAt (b :: rest)
    | .ws => (eofTok, 0)                      -- unreachable after `junkLen` bytes are dropped
    | .invalid => (eofTok, 0)                 -- unreachable after `junkLen` bytes are dropped

/-- `NextToken()`: token and total number of bytes consumed -/
def nextToken (s : List Byte) : Token × Nat :=
  ((tokenAt (s.drop (junkLen s))).1, junkLen s + (tokenAt (s.drop (junkLen s))).2)

/-- `Token.Pos` relative to the unread input -/
def tokenStart (s : List Byte) : Nat := junkLen s

/-! ### positions in the whole input (`readChar`'s line / column bookkeeping, `readPreviousIdentifier`)

The Go lexer keeps `line`/`column` up to date in `readChar`: reading a `\n` bumps the line and resets the
column to 0, any other byte (the 0 standing for the end of input included) bumps the column.  Both are
therefore functions of the input and the position `p` of the current byte (`p ≤ input.length`). -/

/-- `Token.Line` of a token starting at `p` -/
def lineAt (input : List Byte) (p : Nat) : Nat := 1 + ((input.take (p + 1)).filter (· == 10)).length

/-- `Token.Column` of a token starting at `p` -/
def colAt (input : List Byte) (p : Nat) : Nat :=
  (((input ++ [0]).take (p + 1)).reverse.takeWhile (· != 10)).length

/-- `readPreviousIdentifier` when the lexer's position is `p`: the letters that end right before `p` -/
def prevIdent (input : List Byte) (p : Nat) : List Byte :=
  ((input.take p).reverse.takeWhile isLetter).reverse

/-- the token stream: `NextToken` until `TokenEOF` (inclusive).  First argument: bytes of
the current token still to walk over. -/
def lexAux : Nat → List Byte → List Token
  | _, [] => [eofTok]
  | n + 1, _ :: rest => lexAux n rest
  | 0, b :: rest =>
    if (nextToken (b :: rest)).1.kind = .eof then [eofTok]
    else (nextToken (b :: rest)).1 :: lexAux ((nextToken (b :: rest)).2 - 1) rest

def lexAll (s : List Byte) : List Token := lexAux 0 s

/-! ### lexical error events (what the lexer adds to its `ErrorRecovery`) -/

inductive LexErr where
  | unexpectedChar      -- ErrorTypeLexical: "Unexpected character" / "Invalid character '!'"
  | invalidNumber       -- ErrorTypeInvalidNumber
  | unterminated        -- ErrorTypeUnterminatedString (string or backtick identifier)
  | typo                -- ErrorTypeUnknownKeyword from `checkForTypos`
  deriving DecidableEq, Repr

/-- Go's `ErrorType` integer -/
def LexErr.code : LexErr → Int
  | .unexpectedChar => Facts.rsql_ErrorTypeLexical
  | .invalidNumber => Facts.rsql_ErrorTypeInvalidNumber
  | .unterminated => Facts.rsql_ErrorTypeUnterminatedString
  | .typo => Facts.rsql_ErrorTypeUnknownKeyword

/-- `isValidNumber` on the digits-and-dots part (after an optional `-`): non-empty, at most
one dot, not starting or ending with a dot -/
def validDigits (d : List Byte) : Bool :=
  d != [] && (d.filter (· == 46)).length ≤ 1 && d.head? != some 46 && d.getLast? != some 46

def validNumber (v : List Byte) : Bool :=
  match v with
  | 45 :: d => validDigits d
  | d => validDigits d

/-- the misspellings `checkForTypos` knows -/
def typos : List (List Byte) := Facts.rsql_Lexer_checkForTypos_strlits.map bytesOf

/-- `checkForTypos` (only called from the `default` branch of `lookupIdent`) reports when the
upper-cased identifier is one of its case labels.  The other string literals of that function are
the suggested keywords (which never reach the `default` branch) and a message format containing
spaces (never an identifier), so membership in the whole literal list decides the same thing. -/
def isTypo (w : List Byte) : Bool := wordKind w == .ident && typos.contains (w.map upper)

/-- errors recorded while skipping junk: one per byte that is not whitespace -/
def junkErrs : List Byte → Nat → List (LexErr × Nat)
  | [], _ => []
  | b :: rest, pos =>
    if isJunkAt b rest then
      (if isWs b then [] else [(LexErr.unexpectedChar, pos)]) ++ junkErrs rest (pos + 1)
    else []

/-- errors recorded while reading the token itself; `pos` = token start, `n` = token length -/
def tokenErrs (t : Token) (closed : Bool) (pos n : Nat) : List (LexErr × Nat) :=
  match t.kind with
  | .number => if validNumber t.val then [] else [(.invalidNumber, pos)]
  | .string => if closed then [] else [(.unterminated, pos)]
  | .qident => if closed then [] else [(.unterminated, pos)]
  | .ident => if isTypo t.val then [(.typo, pos + n)] else []
  | _ => []

/-- was the literal token at the head of `s` closed by its quote? -/
def literalClosed (s : List Byte) : Bool :=
  match s with
  | q :: rest => closedBy q (rest.dropWhile (inLiteral q))
  | [] => false

/-- all error events of one `NextToken` call on unread input `s` whose first byte has absolute
position `pos` -/
def nextErrs (s : List Byte) (pos : Nat) : List (LexErr × Nat) :=
  junkErrs s pos ++
    tokenErrs (nextToken s).1 (literalClosed (s.drop (junkLen s))) (pos + junkLen s) (tokenAt (s.drop (junkLen s))).2

end Lexer
