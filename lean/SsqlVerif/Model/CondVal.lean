/-
C12 — values, numbers and comparison primitives shared by the predicate fast path
(`condition/condition.go`) and the table of the general evaluator (expr-lang).

* Go strings are byte strings: `Str = List Char` with every `Char` a byte (code < 256), as in the
  line protocol.
* `F64` is the *exact* value of an IEEE-754 binary64: NaN, ±Inf, or a finite value counted in units
  of 2^-1074 (the smallest subnormal), so every finite float64 is an `Int` and comparisons of
  floats are comparisons of integers. `-0` and `+0` are the same value (no comparison tells them
  apart). The theorems quantify over every `F64` (a superset of the representable ones).
* Go's `float64(i)` for an integer `i` is `round53 i`: round-to-nearest, ties-to-even at 53
  significant bits — an exact function `Int → Int`, so "beyond 2^53" is inside the theorems.
* Row integers carry their Go width as a Lean fixed-width machine integer, hence are in range by
  construction (`int`/`uint` are 64-bit on the platforms the harness runs on).
Core Lean only.
-/
set_option autoImplicit false

namespace Cond

abbrev Str := List Char

/-! ### float64 values -/

inductive F64 where
  | nan | ninf | pinf
  | fin (k : Int)          -- k · 2^-1074
  deriving DecidableEq, Repr

/-- number of 2^-1074 units in 1 -/
def scale : Int := 2 ^ 1074

/-- IEEE `a < b` -/
def F64.lt : F64 → F64 → Bool
  | .fin a, .fin b => decide (a < b)
  | .fin _, .pinf => true
  | .ninf, .fin _ => true
  | .ninf, .pinf => true
  | _, _ => false

/-- IEEE `a == b` -/
def F64.eq : F64 → F64 → Bool
  | .fin a, .fin b => decide (a = b)
  | .pinf, .pinf => true
  | .ninf, .ninf => true
  | _, _ => false

/-! ### integer → float64 -/

/-- round-half-even of `q + r/(2·half)` given quotient, remainder and half a unit -/
def roundQR (q r half : Nat) : Nat :=
  if r < half then q else if half < r then q + 1 else if q % 2 = 0 then q else q + 1

/-- keep the bits above position `s`, rounding the `s` low bits to nearest-even -/
def roundShift (n s : Nat) : Nat :=
  if s = 0 then n else roundQR (n / 2 ^ s) (n % 2 ^ s) (2 ^ (s - 1)) * 2 ^ s

/-- how many low bits do not fit into a 53-bit significand -/
def shift53 (n : Nat) : Nat := (n.log2 + 1) - 53

def roundNat53 (n : Nat) : Nat := roundShift n (shift53 n)

/-- the integer that `float64(i)` holds -/
def round53 (i : Int) : Int :=
  if i < 0 then -((roundNat53 i.natAbs : Nat) : Int) else ((roundNat53 i.natAbs : Nat) : Int)

def F64.ofInt (i : Int) : F64 := .fin (round53 i * scale)

/-- 2^53: every integer of smaller magnitude is a float64 -/
def exactLimit : Int := 9007199254740992

/-! ### operators -/

/-- the six comparison operators expr-lang knows -/
inductive Op where
  | eq | ne | lt | le | gt | ge
  deriving DecidableEq, Repr

/-- Go `compareNum(a, op, b)` on float64 (`condition.go:259`) -/
def compareNum (a : F64) (op : Op) (b : F64) : Bool :=
  match op with
  | .gt => F64.lt b a
  | .ge => F64.lt b a || F64.eq a b
  | .lt => F64.lt a b
  | .le => F64.lt a b || F64.eq a b
  | .eq => F64.eq a b
  | .ne => !F64.eq a b

/-- exact integer comparison (expr-lang int/int) -/
def compareInt (a : Int) (op : Op) (b : Int) : Bool :=
  match op with
  | .gt => decide (b < a)
  | .ge => decide (b < a) || decide (a = b)
  | .lt => decide (a < b)
  | .le => decide (a < b) || decide (a = b)
  | .eq => decide (a = b)
  | .ne => !decide (a = b)

/-- byte-wise lexicographic `a < b` (Go string `<`) -/
def strLt : Str → Str → Bool
  | [], [] => false
  | [], _ :: _ => true
  | _ :: _, [] => false
  | a :: as, b :: bs => if a.toNat < b.toNat then true else if b.toNat < a.toNat then false else strLt as bs

/-- Go `compareStr(a, op, b)` (`condition.go:277`); expr-lang's string comparison is the same
Go string comparison -/
def compareStr (a : Str) (op : Op) (b : Str) : Bool :=
  match op with
  | .eq => decide (a = b)
  | .ne => !decide (a = b)
  | .gt => strLt b a
  | .ge => strLt b a || decide (a = b)
  | .lt => strLt a b
  | .le => strLt a b || decide (a = b)

/-! ### row values -/

/-- a Go integer of one of the ten widths -/
inductive IntV where
  | i (v : Int64) | i8 (v : Int8) | i16 (v : Int16) | i32 (v : Int32) | i64 (v : Int64)
  | u (v : UInt64) | u8 (v : UInt8) | u16 (v : UInt16) | u32 (v : UInt32) | u64 (v : UInt64)
  deriving DecidableEq

/-- mathematical value -/
def IntV.val : IntV → Int
  | .i v => v.toInt | .i8 v => v.toInt | .i16 v => v.toInt | .i32 v => v.toInt | .i64 v => v.toInt
  | .u v => v.toNat | .u8 v => v.toNat | .u16 v => v.toNat | .u32 v => v.toNat | .u64 v => v.toNat

/-- Go `int(x)` (64-bit): unsigned values from 2^63 on wrap to negative -/
def wrap64 (n : Int) : Int := if n < 9223372036854775808 then n else n - 18446744073709551616

def IntV.asGoInt : IntV → Int
  | .u v => wrap64 v.toNat
  | .u64 v => wrap64 v.toNat
  | x => x.val

inductive Val where
  | null                         -- Go nil
  | bool (b : Bool)
  | str (s : Str)
  | int (x : IntV)
  | flt (is32 : Bool) (x : F64)  -- float32 values are carried by their (exact) float64 image
  | other                        -- slices, maps, … : no comparison applies
  deriving DecidableEq

/-- a row: association list, first binding wins (keys of a Go map are unique) -/
abbrev Row := List (Str × Val)

def Row.get : Row → Str → Option Val
  | [], _ => none
  | (k, v) :: r, f => if k = f then some v else Row.get r f

/-! ### literals and comparisons -/

inductive Lit where
  | int (n : Int)       -- `-?\d+`          expr-lang: IntegerNode
  | flt (x : F64)       -- `-?\d+\.\d+`     expr-lang: FloatNode (strconv.ParseFloat)
  | str (s : Str)       -- `'…'`            expr-lang: StringNode
  deriving DecidableEq

structure Cmp where
  field : Str
  op : Op
  lit : Lit
  deriving DecidableEq

end Cond
