/-
C12 — shape recognition (`condition.go:105-123 tryFastCompare`, `:198-235 tryFastCompound`).

The two regexes

  fastFieldOpNum = ^\s*([A-Za-z_][A-Za-z0-9_]*)\s*(>=|<=|!=|<>|==|=|>|<)\s*(-?\d+(?:\.\d+)?)\s*$
  fastFieldOpStr = ^\s*([A-Za-z_][A-Za-z0-9_]*)\s*(>=|<=|!=|<>|==|=|>|<)\s*'([^']*)'\s*$

(their sources are pinned by `C12.facts_regexes`) are modelled by a hand-written deterministic
recogniser on byte lists. It is deterministic because the character classes that follow one
another are disjoint (identifier bytes / white space / operator bytes / `-`, digits, `'`), so the
regex engine's back-tracking never finds a second way; and the alternation lists every operator
that is a prefix of another one after it (`>=` before `>`, `<=`,`<>` before `<`, `==` before `=`),
while the byte after the operator can never start a literal if it is `=` or `>`.
`\s` is RE2's `[\t\n\f\r ]`; `^`/`$` are text anchors (no `m` flag). All classes are ASCII, so
working on bytes instead of runes makes no difference (`[^']` accepts any byte but `'`).

The repaired `tryFastCompare` then refuses (falls back to the general evaluator for) the texts
whose general meaning is *not* "look the column up and compare it with these literal bytes /
this float64": a column called `nil`/`true`/`false` (expr-lang literals), a string
literal containing `\` (escapes), CR (normalised to LF by expr-lang) or invalid UTF-8 (replaced
by U+FFFD). Core Lean only.
-/
import SsqlVerif.Model.Cond
set_option autoImplicit false

namespace Cond

/-! ### character classes -/

def isWs (c : Char) : Bool := c = ' ' || c = '\t' || c = '\n' || c = '\x0c' || c = '\r'
def isDigit (c : Char) : Bool := decide ('0'.toNat ≤ c.toNat) && decide (c.toNat ≤ '9'.toNat)
def isIdentStart (c : Char) : Bool :=
  (decide ('A'.toNat ≤ c.toNat) && decide (c.toNat ≤ 'Z'.toNat)) ||
  (decide ('a'.toNat ≤ c.toNat) && decide (c.toNat ≤ 'z'.toNat)) || c = '_'
def isIdentChar (c : Char) : Bool := isIdentStart c || isDigit c

def dropWs (t : Str) : Str := t.dropWhile isWs
def allWs (t : Str) : Bool := t.all isWs

/-! ### operator tokens, in the order of the regex alternation -/

inductive OpTok where
  | ge | le | ne | ltgt | eq2 | eq1 | gt | lt
  deriving DecidableEq, Repr

/-- how `compareNum`/`compareStr` read the operator string -/
def OpTok.toOp : OpTok → Op
  | .ge => .ge | .le => .le | .ne => .ne | .ltgt => .ne
  | .eq2 => .eq | .eq1 => .eq | .gt => .gt | .lt => .lt

/-- expr-lang has no `=` and no `<>`: `expr.Compile` fails, `NewExprCondition` returns the error -/
def OpTok.compiles : OpTok → Bool
  | .eq1 => false | .ltgt => false | _ => true

def OpTok.text : OpTok → Str
  | .ge => ['>', '='] | .le => ['<', '='] | .ne => ['!', '='] | .ltgt => ['<', '>']
  | .eq2 => ['=', '='] | .eq1 => ['='] | .gt => ['>'] | .lt => ['<']

def takeOp : Str → Option (OpTok × Str)
  | '>' :: '=' :: r => some (.ge, r)
  | '<' :: '=' :: r => some (.le, r)
  | '!' :: '=' :: r => some (.ne, r)
  | '<' :: '>' :: r => some (.ltgt, r)
  | '=' :: '=' :: r => some (.eq2, r)
  | '=' :: r => some (.eq1, r)
  | '>' :: r => some (.gt, r)
  | '<' :: r => some (.lt, r)
  | _ => none

/-! ### literals as text -/

inductive RawLit where
  | num (neg : Bool) (ip : Str) (fp : Option Str)   -- `-?` digits, optional `.` digits
  | str (raw : Str)                                  -- the bytes between the quotes
  deriving DecidableEq, Repr

structure RawCmp where
  field : Str
  op : OpTok
  lit : RawLit
  deriving DecidableEq, Repr

/-- `(?:\.\d+)?\s*$` after the integer digits -/
def matchFrac (neg : Bool) (ip : Str) : Str → Option RawLit
  | '.' :: r =>
    if (r.takeWhile isDigit).isEmpty then none
    else if allWs (r.dropWhile isDigit) then some (.num neg ip (some (r.takeWhile isDigit))) else none
  | t => if allWs t then some (.num neg ip none) else none

/-- `\d+(?:\.\d+)?\s*$` -/
def matchDigits (neg : Bool) (t : Str) : Option RawLit :=
  if (t.takeWhile isDigit).isEmpty then none
  else matchFrac neg (t.takeWhile isDigit) (t.dropWhile isDigit)

/-- `[^']*'\s*$` after the opening quote -/
def matchQuoted (t : Str) : Option RawLit :=
  match t.dropWhile (fun c => c != '\'') with
  | '\'' :: r => if allWs r then some (.str (t.takeWhile (fun c => c != '\''))) else none
  | _ => none

/-- `(-?\d+(?:\.\d+)?|'[^']*')\s*$` -/
def matchLit : Str → Option RawLit
  | '\'' :: r => matchQuoted r
  | '-' :: r => matchDigits true r
  | t => matchDigits false t

/-- `([A-Za-z_][A-Za-z0-9_]*)` at the head of the text -/
def matchIdent : Str → Option (Str × Str)
  | [] => none
  | c :: r => if isIdentStart c then some (c :: r.takeWhile isIdentChar, r.dropWhile isIdentChar) else none

def matchAfterOp (field : Str) (x : OpTok × Str) : Option RawCmp :=
  (matchLit (dropWs x.2)).map (fun l => { field := field, op := x.1, lit := l })

def matchAfterIdent (x : Str × Str) : Option RawCmp :=
  (takeOp (dropWs x.2)).bind (matchAfterOp x.1)

/-- the union of the two regexes -/
def matchCmp (t : Str) : Option RawCmp := (matchIdent (dropWs t)).bind matchAfterIdent

/-! ### the texts the recogniser stands for (used by the soundness/completeness theorems) -/

def RawLit.text : RawLit → Str
  | .num neg ip none => (if neg then ['-'] else []) ++ ip
  | .num neg ip (some fp) => (if neg then ['-'] else []) ++ ip ++ '.' :: fp
  | .str raw => '\'' :: raw ++ ['\'']

def isDigits (s : Str) : Bool := !s.isEmpty && s.all isDigit

def RawLit.wf : RawLit → Bool
  | .num _ ip none => isDigits ip
  | .num _ ip (some fp) => isDigits ip && isDigits fp
  | .str raw => raw.all (fun c => c != '\'')

def isIdent : Str → Bool
  | [] => false
  | c :: r => isIdentStart c && r.all isIdentChar

def RawCmp.wf (r : RawCmp) : Bool := isIdent r.field && r.lit.wf

/-- `field OP literal` with white space `w1 … w4` around the three tokens -/
def RawCmp.render (r : RawCmp) (w1 w2 w3 w4 : Str) : Str :=
  w1 ++ r.field ++ w2 ++ r.op.text ++ w3 ++ r.lit.text ++ w4

/-! ### what the literal text denotes -/

def digitVal (c : Char) : Nat := c.toNat - '0'.toNat

def digitsVal (ds : Str) : Nat := ds.foldl (fun a c => 10 * a + digitVal c) 0

def signed (neg : Bool) (n : Nat) : Int := if neg then -(n : Int) else (n : Int)

/-- nearest-even float64 (in 2^-1074 units) to the rational `N / D` -/
def roundRat53 (N D : Nat) : Nat :=
  roundQR (N / (D * 2 ^ shift53 (N / D))) (2 * (N % (D * 2 ^ shift53 (N / D)))) (D * 2 ^ shift53 (N / D))
    * 2 ^ shift53 (N / D)

/-- first unit count that is no float64 any more: 2^1024 -/
def overflowUnits : Nat := 2 ^ 2098

/-- `strconv.ParseFloat` on `ip.fp` (correctly rounded; `none` = out of range ⇒ error) -/
def parseDec (neg : Bool) (ip fp : Str) : Option F64 :=
  if roundRat53 (digitsVal (ip ++ fp) * 2 ^ 1074) (10 ^ fp.length) < overflowUnits
  then some (.fin (signed neg (roundRat53 (digitsVal (ip ++ fp) * 2 ^ 1074) (10 ^ fp.length))))
  else none

/-- Go `utf8.ValidString` on a byte list -/
def validUtf8 : List Nat → Bool
  | [] => true
  | a :: rest =>
    if a < 0x80 then validUtf8 rest
    else match rest with
      | [] => false
      | b :: rest2 =>
        if 0xC2 ≤ a ∧ a ≤ 0xDF then (0x80 ≤ b ∧ b ≤ 0xBF) && validUtf8 rest2
        else match rest2 with
          | [] => false
          | c :: rest3 =>
            if 0xE0 ≤ a ∧ a ≤ 0xEF then
              (decide ((if a = 0xE0 then 0xA0 else 0x80) ≤ b ∧ b ≤ (if a = 0xED then 0x9F else 0xBF)))
                && (0x80 ≤ c ∧ c ≤ 0xBF) && validUtf8 rest3
            else match rest3 with
              | [] => false
              | d :: rest4 =>
                if 0xF0 ≤ a ∧ a ≤ 0xF4 then
                  (decide ((if a = 0xF0 then 0x90 else 0x80) ≤ b ∧ b ≤ (if a = 0xF4 then 0x8F else 0xBF)))
                    && (0x80 ≤ c ∧ c ≤ 0xBF) && (0x80 ≤ d ∧ d ≤ 0xBF) && validUtf8 rest4
                else false

/-- the bytes between the quotes are the string expr-lang compares with -/
def rawStrOk (raw : Str) : Bool :=
  !raw.contains '\\' && !raw.contains '\r' && validUtf8 (raw.map Char.toNat)

/-- identifiers expr-lang reads as literals -/
def litNames : List Str := [['n', 'i', 'l'], ['t', 'r', 'u', 'e'], ['f', 'a', 'l', 's', 'e']]

def RawLit.denote : RawLit → Lit
  | .num neg ip none => .int (signed neg (digitsVal ip))
  | .num neg ip (some fp) => .flt ((parseDec neg ip fp).getD .nan)
  | .str raw => .str raw

def RawCmp.denote (r : RawCmp) : Cmp := { field := r.field, op := r.op.toOp, lit := r.lit.denote }

/-- the literal can be served by the shortcut -/
def RawLit.ok : RawLit → Bool
  | .num _ ip none => decide (roundNat53 (digitsVal ip) < 2 ^ 1024)     -- else ParseFloat: ErrRange
  | .num neg ip (some fp) => (parseDec neg ip fp).isSome
  | .str raw => rawStrOk raw

def RawCmp.ok (r : RawCmp) : Bool := !litNames.contains r.field && r.lit.ok

/-- `tryFastCompare` -/
def tryFastCompare (t : Str) : Option RawCmp := (matchCmp t).filter RawCmp.ok

/-! ### `tryFastCompound` -/

/-- `strings.Contains(t, "&&")` / `"||"` -/
def hasPair (a : Char) : Str → Bool
  | [] => false
  | [_] => false
  | x :: y :: r => (x = a && y = a) || hasPair a (y :: r)

/-- `fastAndOr.Split(t, -1)` up to the white space around the operators, which every part's
recogniser skips anyway: cut at each leftmost `&&` / `||` -/
def splitOps : Str → Str → List Str
  | [], cur => [cur.reverse]
  | [c], cur => [(c :: cur).reverse]
  | x :: y :: r, cur =>
    if (x = '&' && y = '&') || (x = '|' && y = '|') then cur.reverse :: splitOps r []
    else splitOps (y :: r) (x :: cur)

def allParts : List Str → Option (List RawCmp)
  | [] => some []
  | p :: ps =>
    match tryFastCompare p, allParts ps with
    | some c, some cs => some (c :: cs)
    | _, _ => none

/-- `tryFastCompound`: no parentheses, exactly one kind of connective, at least two parts, every
part a recognised comparison. The result carries `isAnd`. -/
def tryFastCompound (t : Str) : Option (Bool × List RawCmp) :=
  if t.contains '(' || t.contains ')' then none
  else if hasPair '&' t && hasPair '|' t then none
  else if !hasPair '&' t && !hasPair '|' t then none
  else (allParts (splitOps t [])).map (fun cs => (hasPair '&' t, cs))

/-- `NewExprCondition` (`condition.go:31-74`) given what `expr.Compile` made of the text
(`none` = compile error): the compound shortcut is tried first, the single comparison only if
there is no compound -/
def newCond (t : Str) (compiled : Option Pred) : Option CondM :=
  compiled.map (fun p =>
    { pred := p
      compound := (tryFastCompound t).map (fun x => (x.1, x.2.map RawCmp.denote))
      fast := if (tryFastCompound t).isSome then none else (tryFastCompare t).map RawCmp.denote })

/-- `p₀ ++ sep ++ p₁ ++ sep ++ … ++ pₙ` -/
def joinWith (sep : Str) : List Str → Str
  | [] => []
  | [p] => p
  | p :: q :: ps => p ++ sep ++ joinWith sep (q :: ps)

/-- the one thing about expr-lang's *parser* the theorems need (`C12.newCond_evaluate`): the
shortcut recognised in the text denotes the predicate the compiled program evaluates. Evaluated by
the driver on every generated case against the predicate the harness built the text from. -/
def parseAgrees (t : Str) (p : Pred) : Bool :=
  match tryFastCompound t with
  | some (isAnd, rs) => decide (chainPred isAnd (rs.map RawCmp.denote) = some p)
  | none =>
    match tryFastCompare t with
    | some r => decide (p = .cmp r.denote)
    | none => true

end Cond
