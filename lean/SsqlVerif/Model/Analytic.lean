/-
Model of the analytic-function layer of rulego/streamsql (C14).

* the per-call state machines of `functions/functions_analytical.go` (`lagState`, `latestState`,
  `hadChangedState`), `functions/analytic_state.go` (`changedColState`, `changedColsState`,
  `analyticEqual`, `toFloat64Generic`) and `functions/analytic_acc.go` (`accState`, five kinds,
  optional start/reset arguments);
* the per-field engine of `stream/analytic.go`: `partitionKey` (typed, length-prefixed),
  `getStateLocked` (LRU: hit = move to front, miss = push front + evict back together with its
  cached last result), WHEN gating with `lastResults`, wrapper expressions over the call results;
* `stream/stream.go applyWhereAndAnalytic`: analytic evaluation before or after WHERE.

One named definition per sub-decision of the Go code; no `let`, no nested `match` in step
functions.  Numbers are generic in `ν` (`NumOps`): the theorems hold for every instance (they
never use an arithmetic law), the driver instantiates `ν := Float` (the operations Go performs,
in the same order).  Core Lean only.
-/
set_option autoImplicit false

namespace Analytic

/-- the float64 operations the state machines and wrappers use -/
class NumOps (ν : Type) where
  zero : ν
  add : ν → ν → ν
  sub : ν → ν → ν
  div : ν → ν → ν
  lt : ν → ν → Bool
  beq : ν → ν → Bool
  ofInt : Int → ν

/-- a Go value as it reaches an analytic state machine (`any`): nil, int, float64, string, bool -/
inductive Val (ν : Type) where
  | null : Val ν
  | int (i : Int) : Val ν
  | num (x : ν) : Val ν
  | str (s : List Char) : Val ν
  | bool (b : Bool) : Val ν
  deriving DecidableEq, Repr

/-- a column of an input row: the key may be absent from the map -/
inductive Cell (ν : Type) where
  | missing : Cell ν
  | present (v : Val ν) : Cell ν
  deriving DecidableEq, Repr

/-- Value of a bare column argument.  An absent column is NULL (repaired behaviour: the
unrepaired `parseFunctionArgs` fell back to the argument's source text, see the C14 fix). -/
def Cell.val {ν : Type} : Cell ν → Val ν
  | .missing => .null
  | .present v => v

section vals
variable {ν : Type} [NumOps ν]

def Val.isNull : Val ν → Bool
  | .null => true
  | _ => false

/-- `toFloat64Generic`: int/float64 only -/
def toNum : Val ν → Option ν
  | .int i => some (NumOps.ofInt i)
  | .num x => some x
  | _ => none

/-- `reflect.DeepEqual` on two non-nil values that are not both numeric -/
def deepEq : Val ν → Val ν → Bool
  | .str a, .str b => a == b
  | .bool a, .bool b => a == b
  | _, _ => false

def numEq : Option ν → Option ν → Option Bool
  | some x, some y => some (NumOps.beq x y)
  | _, _ => none

/-- `analyticEqual` -/
def aeq (a b : Val ν) : Bool :=
  if a.isNull || b.isNull then a.isNull && b.isNull
  else match numEq (toNum a) (toNum b) with
    | some r => r
    | none => deepEq a b

/-- is a value written into a state under `ignoreNull = ign`? (`!(ignoreNull && val == nil)`) -/
def recorded (ign : Bool) (v : Val ν) : Bool := !(ign && v.isNull)

end vals

/-! ### state machines -/

/-- a per-partition state machine: `Apply` = `step` -/
structure Machine (σ α β : Type) where
  init : σ
  step : σ → α → σ × β

namespace Machine
variable {σ α β : Type} (m : Machine σ α β)

/-- state after a list of inputs -/
def run : σ → List α → σ
  | s, [] => s
  | s, a :: as => run (m.step s a).1 as

/-- outputs of a list of inputs -/
def outs : σ → List α → List β
  | _, [] => []
  | s, a :: as => (m.step s a).2 :: outs (m.step s a).1 as

/-- the value produced for a row that arrives after `hist` in a fresh partition -/
def out (hist : List α) (a : α) : β := (m.step (m.run m.init hist) a).2

end Machine

section machines
variable {ν : Type} [NumOps ν]

/-- the last `k` elements (`s.history[len(s.history)-offset:]`) -/
def lastN {γ : Type} (k : Nat) (l : List γ) : List γ := l.drop (l.length - k)

/-- `offset := 1; if n, ok := analyticToInt(args[1]); ok && n > 0 { offset = n }` -/
def effOffset (n : Int) : Nat := if 0 < n then n.toNat else 1

/-- argument pair of `lag` / `latest`: the value and the default (NULL when no default is given) -/
structure LagIn (ν : Type) where
  val : Val ν
  dflt : Val ν

/-- `if len(history) >= offset { history[len-offset] } else default` -/
def lagResult (k : Nat) (hist : List (Val ν)) (d : Val ν) : Val ν :=
  if k ≤ hist.length then hist.getD (hist.length - k) .null else d

/-- append unless an ignored NULL, then truncate to the last `offset` -/
def lagPush (k : Nat) (ign : Bool) (hist : List (Val ν)) (v : Val ν) : List (Val ν) :=
  if recorded ign v then lastN k (hist ++ [v]) else hist

def lagMachine (k : Nat) (ign : Bool) : Machine (List (Val ν)) (LagIn ν) (Val ν) where
  init := []
  step := fun h a => (lagPush k ign h a.val, lagResult k h a.dflt)

/-- `latestState`: the last non-NULL value -/
def latestUpd (s : Option (Val ν)) (v : Val ν) : Option (Val ν) := if v.isNull then s else some v

def latestRes (s : Option (Val ν)) (d : Val ν) : Val ν :=
  match s with
  | some v => v
  | none => d

def latestMachine : Machine (Option (Val ν)) (LagIn ν) (Val ν) where
  init := none
  step := fun s a => (latestUpd s a.val, latestRes (latestUpd s a.val) a.dflt)

/-- `!s.hasPrev || !analyticEqual(s.prev, val)` -/
def chgChanged (prev : Option (Val ν)) (v : Val ν) : Bool :=
  match prev with
  | none => true
  | some p => !aeq p v

/-- one column of `changed_col` / `changed_cols`: `some v` = "changed, new value v" (v may be NULL),
`none` = unchanged or ignored NULL -/
def chgStep (ign : Bool) (s : Option (Val ν)) (v : Val ν) : Option (Val ν) × Option (Val ν) :=
  if recorded ign v then (some v, if chgChanged s v then some v else none) else (s, none)

def chgMachine (ign : Bool) : Machine (Option (Val ν)) (Val ν) (Option (Val ν)) where
  init := none
  step := chgStep ign

/-- `changedColState.Apply` returns nil both for "unchanged" and for "ignored" -/
def changedColMachine (ign : Bool) : Machine (Option (Val ν)) (Val ν) (Val ν) where
  init := none
  step := fun s v => ((chgStep ign s v).1, ((chgStep ign s v).2).getD .null)

/-- `changedColsState.ApplyColumns`: every column independently (the Go map is keyed by the
column name; the column list is fixed by the SQL text, so a position stands for a name) -/
def colsStep (ign : Bool) : List (Option (Val ν)) → List (Val ν) →
    List (Option (Val ν)) × List (Option (Val ν))
  | st, [] => (st, [])
  | st, v :: vs =>
    ((chgStep ign (st.headD none) v).1 :: (colsStep ign st.tail vs).1,
     (chgStep ign (st.headD none) v).2 :: (colsStep ign st.tail vs).2)

def changedColsMachine (ign : Bool) : Machine (List (Option (Val ν))) (List (Val ν)) (List (Option (Val ν))) where
  init := []
  step := colsStep ign

/-- `hadChangedState.Apply`, new baseline: an ignored NULL keeps the old one -/
def hcNewPrev (ign : Bool) : List (Val ν) → List (Val ν) → List (Val ν)
  | _, [] => []
  | prev, v :: vs => (if recorded ign v then v else prev.headD .null) :: hcNewPrev ign prev.tail vs

def hcColChanged (prev : List (Val ν)) (v : Val ν) : Bool :=
  match prev.head? with
  | none => true
  | some p => !aeq p v

def hcChanged (ign : Bool) : List (Val ν) → List (Val ν) → Bool
  | _, [] => false
  | prev, v :: vs => (recorded ign v && hcColChanged prev v) || hcChanged ign prev.tail vs

def hcStep (ign : Bool) (s : Option (List (Val ν))) (vals : List (Val ν)) : Option (List (Val ν)) × Bool :=
  match s with
  | none => (some vals, true)
  | some prev => (some (hcNewPrev ign prev vals), hcChanged ign prev vals)

def hadChangedMachine (ign : Bool) : Machine (Option (List (Val ν))) (List (Val ν)) Bool where
  init := none
  step := hcStep ign

/-! #### `accState` -/

inductive AccKind where
  | sum | count | avg | min | max
  deriving DecidableEq, Repr

structure AccSt (ν : Type) where
  sum : ν
  count : Nat
  num : ν
  hasNum : Bool
  started : Bool

/-- argument triple of `acc_*`: value, start condition, reset condition (the conditions are
ignored when the call has no such argument) -/
structure AccIn (ν : Type) where
  val : Val ν
  start : Bool
  reset : Bool

def accInit : AccSt ν := { sum := NumOps.zero, count := 0, num := NumOps.zero, hasNum := false, started := false }

/-- the numeric branch of `Apply` (`toFloat64Generic` succeeded) -/
def accAddNum (kind : AccKind) (s : AccSt ν) (x : ν) : AccSt ν :=
  match kind with
  | .sum => { s with count := s.count + 1, sum := NumOps.add s.sum x, hasNum := true }
  | .avg => { s with count := s.count + 1, sum := NumOps.add s.sum x, hasNum := true }
  | .max => { s with count := s.count + 1, num := if !s.hasNum || NumOps.lt s.num x then x else s.num, hasNum := true }
  | .min => { s with count := s.count + 1, num := if !s.hasNum || NumOps.lt x s.num then x else s.num, hasNum := true }
  | .count => { s with count := s.count + 1, hasNum := true }

/-- the non-numeric branch: `acc_count` counts every non-NULL value -/
def accAddOther (kind : AccKind) (s : AccSt ν) (v : Val ν) : AccSt ν :=
  if kind = .count && !v.isNull then { s with count := s.count + 1 } else s

def accAdd (kind : AccKind) (s : AccSt ν) (v : Val ν) : AccSt ν :=
  match toNum v with
  | some x => accAddNum kind s x
  | none => accAddOther kind s v

def accResult (kind : AccKind) (s : AccSt ν) : Val ν :=
  match kind with
  | .sum => .num s.sum
  | .count => .int s.count
  | .avg => if s.count = 0 then .null else .num (NumOps.div s.sum (NumOps.ofInt s.count))
  | .max => if s.hasNum then .num s.num else .null
  | .min => if s.hasNum then .num s.num else .null

/-- `hasStart && !start && !s.started`: not yet in the accumulating phase -/
def accSkips (hasStart : Bool) (s : AccSt ν) (a : AccIn ν) : Bool := hasStart && !a.start && !s.started

def accMark (hasStart : Bool) (s : AccSt ν) : AccSt ν := if hasStart then { s with started := true } else s

def accStep (kind : AccKind) (hasStart hasReset : Bool) (s : AccSt ν) (a : AccIn ν) : AccSt ν :=
  if hasReset && a.reset then accInit
  else if accSkips hasStart s a then s
  else accAdd kind (accMark hasStart s) a.val

def accMachine (kind : AccKind) (hasStart hasReset : Bool) : Machine (AccSt ν) (AccIn ν) (Val ν) where
  init := accInit
  step := fun s a => (accStep kind hasStart hasReset s a, accResult kind (accStep kind hasStart hasReset s a))

end machines

/-! ### the per-field engine: partition states in an LRU list, cached last results -/

section engine
variable {K σ α β γ : Type} [DecidableEq K]

/-- front = most recently used (`fe.lru`), `last` = `fe.lastResults` -/
structure Eng (K σ β : Type) where
  lru : List (K × σ)
  last : List (K × β)

def Eng.empty : Eng K σ β := { lru := [], last := [] }

def lookupK (k : K) : List (K × γ) → Option γ
  | [] => none
  | p :: rest => if p.1 = k then some p.2 else lookupK k rest

def eraseK (k : K) (l : List (K × γ)) : List (K × γ) := l.filter (fun p => decide (p.1 ≠ k))

/-- remove the back entry and its cached last result -/
def evict (e : Eng K σ β) : Eng K σ β :=
  match e.lru.getLast? with
  | some p => { lru := e.lru.dropLast, last := eraseK p.1 e.last }
  | none => e

/-- `if fe.lru.Len() > fe.maxPartitions { evict back }` -/
def evictIfOver (cap : Nat) (e : Eng K σ β) : Eng K σ β := if cap < e.lru.length then evict e else e

/-- `getStateLocked`: afterwards the entry of `k` is at the front -/
def touch (cap : Nat) (init : σ) (e : Eng K σ β) (k : K) : Eng K σ β :=
  match lookupK k e.lru with
  | some s => { e with lru := (k, s) :: eraseK k e.lru }
  | none => evictIfOver cap { e with lru := (k, init) :: e.lru }

def headState (init : σ) (e : Eng K σ β) : σ :=
  match e.lru with
  | p :: _ => p.2
  | [] => init

def setHead (e : Eng K σ β) (s : σ) : Eng K σ β :=
  match e.lru with
  | p :: rest => { e with lru := (p.1, s) :: rest }
  | [] => e

def setLast (e : Eng K σ β) (k : K) (r : β) : Eng K σ β := { e with last := (k, r) :: eraseK k e.last }

/-- a row whose WHEN holds (or no WHEN): fetch the partition state, apply, cache the result -/
def evalLive (cap : Nat) (m : Machine σ α β) (e : Eng K σ β) (k : K) (a : α) : Eng K σ β × β :=
  (setLast (setHead (touch cap m.init e k) (m.step (headState m.init (touch cap m.init e k)) a).1) k
      (m.step (headState m.init (touch cap m.init e k)) a).2,
   (m.step (headState m.init (touch cap m.init e k)) a).2)

/-- one row through one field engine; `none` = "no cached result" (Go returns nil) -/
def evalField (cap : Nat) (m : Machine σ α β) (e : Eng K σ β) (k : K) (live : Bool) (a : α) :
    Eng K σ β × Option β :=
  if live then ((evalLive cap m e k a).1, some (evalLive cap m e k a).2) else (e, lookupK k e.last)

/-- a row as one field engine sees it -/
structure FRow (K α : Type) where
  key : K
  live : Bool
  arg : α

def engRun (cap : Nat) (m : Machine σ α β) : Eng K σ β → List (FRow K α) → List (Option β)
  | _, [] => []
  | e, r :: rs => (evalField cap m e r.key r.live r.arg).2 :: engRun cap m (evalField cap m e r.key r.live r.arg).1 rs

def engState (cap : Nat) (m : Machine σ α β) : Eng K σ β → List (FRow K α) → Eng K σ β
  | e, [] => e
  | e, r :: rs => engState cap m (evalField cap m e r.key r.live r.arg).1 rs

end engine

/-- `defaultMaxPartitions` (pinned against the source by `C14.facts_constants`) -/
def defaultCap : Nat := 10000

/-- `maxPart := defaultMaxPartitions; if AnalyticMaxPartitions > 0 { maxPart = it }` -/
def effCap (n : Int) : Nat := if 0 < n then n.toNat else defaultCap

/-! ### partition key encoding (`partitionKey`, `typeKey`) -/

/-- a partition-column value; a float64 is carried by its `strconv.FormatFloat(x,'g',-1,64)` text -/
inductive KVal where
  | null : KVal
  | str (s : List Char) : KVal
  | int (i : Int) : KVal
  | flt (repr : List Char) : KVal
  | bool (b : Bool) : KVal
  deriving DecidableEq, Repr

/-- `strconv.Itoa` -/
def intRepr : Int → List Char
  | .ofNat n => Nat.toDigits 10 n
  | .negSucc n => '-' :: Nat.toDigits 10 (n + 1)

/-- `typeKey`: type name, `|`, value text -/
def typeKey : KVal → List Char
  | .null => "nil|".toList
  | .str s => "string|".toList ++ s
  | .int i => "int|".toList ++ intRepr i
  | .flt r => "float64|".toList ++ r
  | .bool true => "bool|true".toList
  | .bool false => "bool|false".toList

/-- one fragment: decimal length, `:`, the text, `|` -/
def encOne (s : List Char) : List Char := Nat.toDigits 10 s.length ++ ':' :: (s ++ ['|'])

def encAll (xs : List (List Char)) : List Char := xs.flatMap encOne

/-- `partitionKey` of the values of the PARTITION BY columns (absent column = nil) -/
def partitionKey (vals : List KVal) : List Char := encAll (vals.map typeKey)

/-! ### WHERE and analytic evaluation order (`applyWhereAndAnalytic`) -/

section whereOrder
variable {S R O : Type}

/-- `uses` = the WHERE text contains analytic calls. `plain r` = the WHERE without analytic calls
holds; `post r o` = the rewritten WHERE holds given the analytic results of this row. -/
def stepRow (uses : Bool) (plain : R → Bool) (post : R → O → Bool) (A : Machine S R O) (s : S) (r : R) :
    S × Option O :=
  if uses then ((A.step s r).1, if post r (A.step s r).2 then some (A.step s r).2 else none)
  else if plain r then ((A.step s r).1, some (A.step s r).2)
  else (s, none)

def runRows (uses : Bool) (plain : R → Bool) (post : R → O → Bool) (A : Machine S R O) : S → List R → List (Option O)
  | _, [] => []
  | s, r :: rs => (stepRow uses plain post A s r).2 :: runRows uses plain post A (stepRow uses plain post A s r).1 rs

end whereOrder

end Analytic
