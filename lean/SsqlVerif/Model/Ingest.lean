/-
Model of the ingest protocol of `stream` (C19): `Stream.Emit` → `strategy.ProcessData`
(`strategy.go:70,129,190`), `safeSendToDataChan` (`handler_data.go:34`), `expandDataChannel`
(`handler_data.go:52`), the consumer loop of `DataProcessor.Process` (`processor_data.go:44`)
and the first half of `Stop` (`stream.go:260`).

A transition system: one step = the code segment of one thread between two consecutive
synchronisation points (the verif yield points `send.lock`, `send.send`, `expand.enter`,
`expand.read`, `expand.wlock`, `expand.mig`, `expand.done`, `expand.retry`, `drop.retry`,
`drop.get`, `block.get`, `block.send`, `cons.recv`, `stop.flag`, `stop.done`, `stop.nil`).  A schedule is a list of
(thread, witness) pairs; the witness resolves what Go's `select` leaves open (which ready case
fires, whether the 100µs/100ms timers win).  `dataChanMux` is not a state component: who is
inside a read section / the write section is read off the program counters, so mutual
exclusion is a guard on the steps that acquire the lock (the write side is the state component
`mig`, which also names the old and the new channel of the migration in progress).

`Cfg.consLock` selects the consumer: `true` = the consumer receives while holding the read
lock (the repaired code), `false` = it reads the channel pointer under the lock, releases it
and only then receives (the code as found; kept so that the order inversion it allows stays a
checked statement, see `Props/C19.lean`).
Core Lean only.
-/
set_option autoImplicit false

namespace Ingest

/-- the `k`-th row emitted by producer `prod` -/
structure Row where
  prod : Nat
  seq  : Nat
  deriving DecidableEq, Repr

inductive Strat where | drop | block | expand
  deriving DecidableEq, Repr

structure Cfg where
  strat    : Strat
  cap0     : Nat            -- BufferConfig.DataChannelSize
  maxCap   : Nat            -- BufferConfig.MaxBufferSize (0 = no ceiling)
  growNum  : Nat            -- ExpansionConfig.GrowthFactor = growNum / growDen
  growDen  : Nat
  minInc   : Nat            -- ExpansionConfig.MinIncrement
  thrNum   : Nat            -- ExpansionConfig.TriggerThreshold = thrNum / thrDen
  thrDen   : Nat
  timeout  : Bool           -- block strategy: BlockTimeout > 0
  consLock : Bool           -- consumer receives under the read lock
  deriving Repr

/-! ### growth arithmetic of `expandDataChannel` -/

/-- defaults the code substitutes for non-positive knobs -/
def defaultMinInc : Nat := 1000
def defaultGrow : Nat × Nat := (3, 2)       -- 1.5
def defaultThr : Nat × Nat := (4, 5)        -- 0.8

def effMinInc (c : Cfg) : Nat := if c.minInc = 0 then defaultMinInc else c.minInc
/-- `growth <= 1` ⇒ 1.5 -/
def effGrow (c : Cfg) : Nat × Nat :=
  if c.growDen = 0 ∨ c.growNum ≤ c.growDen then defaultGrow else (c.growNum, c.growDen)
/-- `threshold <= 0` ⇒ 0.8 -/
def effThr (c : Cfg) : Nat × Nat :=
  if c.thrNum = 0 ∨ c.thrDen = 0 then defaultThr else (c.thrNum, c.thrDen)

/-- `int(float64(oldCap) * growth)` -/
def grown (c : Cfg) (cap : Nat) : Nat := cap * (effGrow c).1 / (effGrow c).2
/-- at least `oldCap + minInc` -/
def wantCap (c : Cfg) (cap : Nat) : Nat :=
  if grown c cap < cap + effMinInc c then cap + effMinInc c else grown c cap
/-- honour the ceiling -/
def ceilCap (c : Cfg) (n : Nat) : Nat := if 0 < c.maxCap ∧ c.maxCap < n then c.maxCap else n
def newCap (c : Cfg) (cap : Nat) : Nat := ceilCap c (wantCap c cap)
/-- `float64(len)/float64(cap) < threshold` -/
def belowThr (c : Cfg) (len cap : Nat) : Bool := decide (len * (effThr c).2 < (effThr c).1 * cap)
def atCeiling (c : Cfg) (cap : Nat) : Bool := decide (0 < c.maxCap ∧ c.maxCap ≤ cap)

/-- the decision part of `expandDataChannel`: `some n` = grow to capacity `n` -/
def expandDecision (c : Cfg) (cap len : Nat) : Option Nat :=
  if cap = 0 then none
  else if atCeiling c cap then none
  else if belowThr c len cap then none
  else if newCap c cap ≤ cap then none
  else some (newCap c cap)

/-! ### state -/

/-- program counter of a producer = the yield point it is parked at -/
inductive PC where
  | idle                                   -- outside Emit (`emit.call`)
  | sendLock (att : Nat)                   -- `send.lock`, attempt number `att`
  | sendSend (att : Nat)                   -- `send.send` (inside the read section)
  | expEnter                               -- `expand.enter`
  | expRead                                -- `expand.read` (CAS won)
  | expWLock (n : Nat)                     -- `expand.wlock`, new capacity decided
  | expMig                                 -- `expand.mig` (inside the write section, see `State.mig`)
  | expDone                                -- `expand.done`
  | expRetry (i : Nat)                     -- `expand.retry`
  | dropGet                                -- `drop.get`: about to read the channel pointer
  | dropRetry (i : Nat) (h : Nat)          -- `drop.retry`, cached channel `h`
  | blockGet                               -- `block.get`
  | blockSend (h : Nat)                    -- `block.send`, cached channel `h`
  deriving DecidableEq, Repr

structure Prod where
  id   : Nat
  pc   : PC
  next : Nat            -- rows emitted so far = seq of the next row
  cur  : Option Row     -- the row of the Emit call in progress
  deriving DecidableEq, Repr

structure Chan where
  cap : Nat
  buf : List Row
  deriving DecidableEq, Repr

inductive CPC where
  | cRead               -- about to read the channel pointer under the read lock
  | cHold (h : Nat)     -- `cons.recv`: holds channel `h`, about to `select`
  | cExit
  deriving DecidableEq, Repr

inductive SPC where
  | sIdle | sFlag | sDone | sNil | sWait | sRet
  deriving DecidableEq, Repr

structure State where
  prods     : List Prod
  chans     : List Chan          -- every channel ever allocated; index = identity
  curCh     : Option Nat         -- `s.dataChan` (`none` = nil after Stop)
  cons      : CPC
  stopPc    : SPC
  processed : List Row           -- rows handed to query processing, in order
  dropped   : List Row           -- rows counted in input_dropped_count
  exits     : List Row           -- rows whose Emit returned silently because the stream stopped
  input     : Nat                -- input_count
  expanding : Option Nat         -- the CAS guard `expanding` (with the producer that won it)
  mig       : Option (Nat × Option Nat × Nat)
                                 -- `dataChanMux` write-held by expander `i` migrating `old → new`
  stopped   : Bool
  done      : Bool
  deriving Repr

inductive Tid where
  | prod (i : Nat) | cons | stop
  deriving DecidableEq, Repr

/-- resolves `select` -/
inductive Wit where
  | send | recv | done | timer | tick
  deriving DecidableEq, Repr

def init (c : Cfg) (n : Nat) : State :=
  { prods := (List.range n).map (fun i => { id := i, pc := .idle, next := 0, cur := none }),
    chans := [{ cap := c.cap0, buf := [] }], curCh := some 0, cons := .cRead, stopPc := .sIdle,
    processed := [], dropped := [], exits := [], input := 0,
    expanding := none, mig := none, stopped := false, done := false }

/-! ### the lock, read off the program counters -/

def isRdPc : PC → Bool
  | .sendSend _ => true
  | _ => false

def isHold : CPC → Bool
  | .cHold _ => true
  | _ => false

/-- some producer is inside the write section -/
def wHeld (s : State) : Bool := s.mig.isSome
/-- somebody is inside a read section -/
def rdIn (c : Cfg) (s : State) : Bool :=
  s.prods.any (fun p => isRdPc p.pc) || (c.consLock && isHold s.cons)
def rGuard (s : State) : Bool := !wHeld s
def wGuard (c : Cfg) (s : State) : Bool := !wHeld s && !rdIn c s

/-! ### channel helpers -/

def room (s : State) (h : Nat) : Bool :=
  match s.chans[h]? with
  | some ch => decide (ch.buf.length < ch.cap)
  | none => false

def curCap (s : State) : Nat :=
  match s.curCh with
  | none => 0
  | some h => match s.chans[h]? with
    | some ch => ch.cap
    | none => 0

def curLen (s : State) : Nat :=
  match s.curCh with
  | none => 0
  | some h => match s.chans[h]? with
    | some ch => ch.buf.length
    | none => 0

/-! ### where a producer goes next -/

inductive Next where
  | goto (pc : PC)
  | drop             -- `mInputDropped.Inc()`, return
  | exit             -- return without sending or counting (stream stopped)
  deriving DecidableEq, Repr

def idled (p : Prod) : Prod := { p with pc := .idle, cur := none }

def Next.apply (s : State) (i : Nat) (p : Prod) : Next → State
  | .goto pc => { s with prods := s.prods.set i { p with pc := pc } }
  | .drop => { s with prods := s.prods.set i (idled p), dropped := s.dropped ++ p.cur.toList }
  | .exit => { s with prods := s.prods.set i (idled p), exits := s.exits ++ p.cur.toList }

/-- a failed send attempt number `att` -/
def afterFail (c : Cfg) (att : Nat) : Next :=
  match c.strat with
  | .drop => .goto .dropGet
  | .expand =>
    if att = 0 then .goto .expEnter
    else if att < 4 then .goto (.expRetry (att - 1))
    else .drop
  | .block => .exit

/-- `safeSendToDataChan`'s first line: a stopped stream fails the attempt at once -/
def trySend (c : Cfg) (s : State) (att : Nat) : Next :=
  if s.stopped then afterFail c att else .goto (.sendLock att)

/-- the row leaves the producer for channel `h`; Emit returns -/
def pushTo (s : State) (i : Nat) (p : Prod) (h : Nat) : Option State :=
  match s.chans[h]? with
  | none => none
  | some ch =>
    some { s with chans := s.chans.set h { ch with buf := ch.buf ++ p.cur.toList },
                  prods := s.prods.set i (idled p) }

/-! ### producer steps, one per yield point -/

def emitted (p : Prod) : Prod := { p with cur := some ⟨p.id, p.next⟩, next := p.next + 1 }

/-- `Emit`: count, then the strategy's entry up to its first yield point -/
def emitNext (c : Cfg) (s : State) : Next :=
  match c.strat with
  | .drop => trySend c s 0
  | .expand => if s.stopped then .exit else .goto (.sendLock 0)
  | .block => if s.stopped then .exit else .goto .blockGet

def doEmit (c : Cfg) (s : State) (i : Nat) (p : Prod) : Option State :=
  some ((emitNext c s).apply { s with input := s.input + 1 } i (emitted p))

/-- `RLock`, nil check -/
def doSendLock (c : Cfg) (s : State) (i : Nat) (p : Prod) (att : Nat) : Option State :=
  if rGuard s then
    match s.curCh with
    | none => some ((afterFail c att).apply s i p)
    | some _ => some ((Next.goto (.sendSend att)).apply s i p)
  else none

/-- the non-blocking send, `RUnlock` -/
def doSendSend (c : Cfg) (s : State) (i : Nat) (p : Prod) (att : Nat) : Option State :=
  match s.curCh with
  | none => some ((afterFail c att).apply s i p)
  | some h => if room s h then pushTo s i p h else some ((afterFail c att).apply s i p)

/-- the CAS guard -/
def doExpEnter (c : Cfg) (s : State) (i : Nat) (p : Prod) : Option State :=
  if s.expanding.isSome then some ((trySend c s 1).apply s i p)
  else some ((Next.goto .expRead).apply { s with expanding := some i } i p)

/-- read `cap`/`len` under the read lock, decide -/
def doExpRead (c : Cfg) (s : State) (i : Nat) (p : Prod) : Option State :=
  if rGuard s then
    match expandDecision c (curCap s) (curLen s) with
    | none => some ((trySend c s 1).apply { s with expanding := none } i p)
    | some n => some ((Next.goto (.expWLock n)).apply s i p)
  else none

/-- `Lock`, `oldChan := s.dataChan` (the new channel is allocated here in the model) -/
def doExpWLock (c : Cfg) (s : State) (i : Nat) (p : Prod) (n : Nat) : Option State :=
  if wGuard c s then
    some ((Next.goto .expMig).apply
      { s with chans := s.chans ++ [{ cap := n, buf := [] }], mig := some (i, s.curCh, s.chans.length) } i p)
  else none

def oldEmpty (s : State) : Option Nat → Bool
  | none => true
  | some o => match s.chans[o]? with
    | some co => co.buf.isEmpty
    | none => true

/-- one migration iteration that moves a row (`newChan <- data` never blocks: the new channel
is larger than the old one; a full new channel would be the 5 s migration timeout, not modelled) -/
def migOne (s : State) (o n : Nat) : Option State :=
  if o = n then none else
  match s.chans[o]?, s.chans[n]? with
  | some co, some cn =>
    match co.buf with
    | [] => none
    | r :: rest =>
      if cn.buf.length < cn.cap then
        some { s with chans := (s.chans.set o { co with buf := rest }).set n { cn with buf := cn.buf ++ [r] } }
      else none
  | _, _ => none

def migStep (s : State) (i : Nat) (p : Prod) (o : Option Nat) (n : Nat) : Option State :=
  if oldEmpty s o then some ((Next.goto .expDone).apply { s with curCh := some n, mig := none } i p)
  else match o with
    | some o' => migOne s o' n
    | none => none

/-- `expand.mig`: move one row, or (old channel empty) swap the reference and `Unlock` -/
def doExpMig (s : State) (i : Nat) (p : Prod) : Option State :=
  match s.mig with
  | some (j, o, n) => if j = i then migStep s i p o n else none
  | none => none

/-- deferred `expanding := 0`, then the retry send -/
def doExpDone (c : Cfg) (s : State) (i : Nat) (p : Prod) : Option State :=
  some ((trySend c s 1).apply { s with expanding := none } i p)

/-- `select { timer 100µs | done }`, then `safeSendToDataChan` -/
def doExpRetry (c : Cfg) (s : State) (i : Nat) (p : Prod) (k : Nat) : Wit → Option State
  | .done => if s.done then some (Next.exit.apply s i p) else none
  | _ => some ((trySend c s (k + 2)).apply s i p)

/-- `safeGetDataChan` of the drop strategy: `nil` ⇒ return -/
def doDropGet (s : State) (i : Nat) (p : Prod) : Option State :=
  if rGuard s then
    match s.curCh with
    | none => some (Next.exit.apply s i p)
    | some h => some ((Next.goto (.dropRetry 0 h)).apply s i p)
  else none

/-- `safeGetDataChan` of the block strategy -/
def doBlockGet (s : State) (i : Nat) (p : Prod) : Option State :=
  if rGuard s then
    match s.curCh with
    | none => some (Next.exit.apply s i p)
    | some h => some ((Next.goto (.blockSend h)).apply s i p)
  else none

def dropTimer (k h : Nat) : Next := if k < 2 then .goto (.dropRetry (k + 1) h) else .drop

/-- `select { dataChan <- data | timer 100µs | done }` on the cached channel -/
def doDropRetry (s : State) (i : Nat) (p : Prod) (k h : Nat) : Wit → Option State
  | .send => if room s h then pushTo s i p h else none
  | .done => if s.done then some (Next.exit.apply s i p) else none
  | _ => some ((dropTimer k h).apply s i p)

/-- `select { dataChan <- data | [timer] | done }` on the cached channel -/
def doBlockSend (c : Cfg) (s : State) (i : Nat) (p : Prod) (h : Nat) : Wit → Option State
  | .send => if room s h then pushTo s i p h else none
  | .done => if s.done then some (Next.exit.apply s i p) else none
  | .timer => if c.timeout then some (Next.drop.apply s i p) else none
  | _ => none

def stepPc (c : Cfg) (s : State) (i : Nat) (p : Prod) (w : Wit) : PC → Option State
  | .idle => doEmit c s i p
  | .sendLock att => doSendLock c s i p att
  | .sendSend att => doSendSend c s i p att
  | .expEnter => doExpEnter c s i p
  | .expRead => doExpRead c s i p
  | .expWLock n => doExpWLock c s i p n
  | .expMig => doExpMig s i p
  | .expDone => doExpDone c s i p
  | .expRetry k => doExpRetry c s i p k w
  | .dropGet => doDropGet s i p
  | .dropRetry k h => doDropRetry s i p k h w
  | .blockGet => doBlockGet s i p
  | .blockSend h => doBlockSend c s i p h w

def stepProd (c : Cfg) (s : State) (i : Nat) (w : Wit) : Option State :=
  match s.prods[i]? with
  | none => none
  | some p => stepPc c s i p w p.pc

/-! ### consumer -/

/-- `RLock; currentDataChan := s.dataChan` (and `RUnlock` when `consLock = false`) -/
def doConsRead (s : State) : Option State :=
  if rGuard s then
    match s.curCh with
    | none => some { s with cons := .cExit }
    | some h => some { s with cons := .cHold h }
  else none

def recvFrom (s : State) (h : Nat) : Option State :=
  match s.chans[h]? with
  | none => none
  | some ch =>
    match ch.buf with
    | [] => none
    | r :: rest =>
      some { s with chans := s.chans.set h { ch with buf := rest },
                    processed := s.processed ++ [r], cons := .cRead }

/-- `select { data := <-currentDataChan | done | ticker }` -/
def doConsHold (s : State) (h : Nat) : Wit → Option State
  | .recv => recvFrom s h
  | .done => if s.done then some { s with cons := .cExit } else none
  | .tick => some { s with cons := .cRead }
  | _ => none

def stepCons (s : State) (w : Wit) : Option State :=
  match s.cons with
  | .cRead => doConsRead s
  | .cHold h => doConsHold s h w
  | .cExit => none

/-! ### Stop (up to the point where the input buffer reference is nil) -/

def stepStop (c : Cfg) (s : State) : Option State :=
  match s.stopPc with
  | .sIdle => if s.stopped then some { s with stopPc := .sRet } else some { s with stopped := true, stopPc := .sFlag }
  | .sFlag => some { s with done := true, stopPc := .sDone }
  | .sDone => if wGuard c s then some { s with curCh := none, stopPc := .sNil } else none
  | .sNil => some { s with stopPc := .sWait }
  | .sWait => none
  | .sRet => none

def step (c : Cfg) (s : State) (t : Tid) (w : Wit) : Option State :=
  match t with
  | .prod i => stepProd c s i w
  | .cons => stepCons s w
  | .stop => stepStop c s

/-- run a schedule; a disabled step is skipped (the thread stays where it is) -/
def run (c : Cfg) : State → List (Tid × Wit) → State
  | s, [] => s
  | s, (t, w) :: rest =>
    match step c s t w with
    | some s' => run c s' rest
    | none => run c s rest

/-! ### what is visible from outside -/

/-- every Emit call has returned -/
def allIdle (s : State) : Bool := s.prods.all (fun p => p.pc == .idle)
def droppedCount (s : State) : Nat := s.dropped.length

end Ingest
