/-
Model of `window/session_window.go` (event time).  A key has one *head* session (map key = the
composite key) and any number of *parked* sessions (an on-time event at or beyond the head's end
parks the head under a fresh map key and opens a new head); each is expired by the watermark.
One model op per critical section.  Core Lean only.
-/
import SsqlVerif.Model.Watermark
set_option autoImplicit false

namespace Session
open Wm

abbrev Key := List Char

structure Row where
  id : Nat
  ts : Int
  deriving DecidableEq, Repr

structure Sess where
  key   : Key
  park  : Nat            -- 0 = head session of the key, n > 0 = n-th parked session
  rows  : List Row
  lastActive : Int
  start : Int
  stop  : Int
  deriving DecidableEq, Repr

structure Trig where
  sess  : Sess
  close : Int
  deriving DecidableEq, Repr

structure Emission where
  late  : Bool
  key   : Key
  start : Int
  stop  : Int
  rows  : List Row
  deriving DecidableEq, Repr

structure SWin where
  timeout  : Int
  lateness : Int := 0
  sessions : List Sess := []
  trig     : List Trig := []
  parkSeq  : Nat := 0
  wm       : Wm.Wm
  deriving Repr

def isHead (k : Key) (s : Sess) : Bool := s.key == k && s.park == 0

def head? (w : SWin) (k : Key) : Option Sess := w.sessions.find? (isHead k)

def newSess (k : Key) (r : Row) (timeout : Int) : Sess :=
  { key := k, park := 0, rows := [r], lastActive := r.ts, start := r.ts, stop := r.ts + timeout }

/-- extension of the head session by an on-time row inside it -/
def extend (s : Sess) (r : Row) (timeout : Int) : Sess :=
  { s with rows := s.rows ++ [r],
           lastActive := if s.lastActive < r.ts then r.ts else s.lastActive,
           stop := if s.lastActive < r.ts ∧ s.stop < r.ts + timeout then r.ts + timeout else s.stop,
           start := if r.ts < s.start then r.ts else s.start }

def replaceHead (l : List Sess) (k : Key) (f : Sess → Sess) : List Sess :=
  l.map (fun s => if isHead k s then f s else s)

def slotHas (t : Trig) (ts : Int) : Bool := decide (t.sess.start ≤ ts) && decide (ts < t.sess.stop)

def stillOpen (cur : Option Int) (t : Trig) : Bool :=
  match cur with
  | none => true
  | some c => decide (c < t.close)

/-- the triggered session of the same key, still inside its allowance by the watermark `cur`, a late row falls into -/
def findTrig (w : SWin) (k : Key) (ts : Int) (cur : Option Int) : Option Trig :=
  w.trig.find? (fun t => t.sess.key == k && slotHas t ts && stillOpen cur t)

def absorb (w : SWin) (t : Trig) (r : Row) : List Trig :=
  w.trig.map (fun u => if u.sess.key == t.sess.key && u.sess.park == t.sess.park then
                          { u with sess := { u.sess with rows := u.sess.rows ++ [r] } } else u)

def wmAfter (w : SWin) (r : Row) (now : Int) : Wm.Wm := updateEventTime w.wm r.ts now
def lateNow (w : SWin) (r : Row) (now : Int) : Bool := isLate (wmAfter w r now) r.ts

/-- what an Add does with a row that has a usable timestamp -/
inductive Fate where
  | lateAbsorb (t : Trig)     -- late, inside an open triggered session of its key: re-delivery
  | lateDrop                  -- late otherwise
  | create                    -- on time, the key has no open head session
  | park (h : Sess)           -- on time, at or beyond the head's end: park the head, open a new head
  | extendHead (h : Sess)     -- on time, below the head's end: joins the head
  deriving Repr, DecidableEq

def lateFate (w : SWin) (k : Key) (r : Row) (cur : Option Int) : Fate :=
  match findTrig w k r.ts cur with
  | some t => .lateAbsorb t
  | none => .lateDrop

def headFate (r : Row) (h : Sess) : Fate := if h.stop ≤ r.ts then .park h else .extendHead h

def onTimeFate (w : SWin) (k : Key) (r : Row) : Fate :=
  match head? w k with
  | none => .create
  | some h => headFate r h

def fate (w : SWin) (k : Key) (r : Row) (now : Int) : Fate :=
  if lateNow w r now then (if 0 < w.lateness then lateFate w k r (wmAfter w r now).cur else .lateDrop)
  else onTimeFate w k r

def addSessions (w : SWin) (k : Key) (r : Row) (now : Int) : List Sess :=
  match fate w k r now with
  | .create => w.sessions ++ [newSess k r w.timeout]
  | .park _ => replaceHead w.sessions k (fun s => { s with park := w.parkSeq + 1 }) ++ [newSess k r w.timeout]
  | .extendHead _ => replaceHead w.sessions k (fun s => extend s r w.timeout)
  | _ => w.sessions

def addTrig (w : SWin) (k : Key) (r : Row) (now : Int) : List Trig :=
  match fate w k r now with
  | .lateAbsorb t => absorb w t r
  | _ => w.trig

def addPark (w : SWin) (k : Key) (r : Row) (now : Int) : Nat :=
  match fate w k r now with
  | .park _ => w.parkSeq + 1
  | _ => w.parkSeq

def addEmit (w : SWin) (k : Key) (r : Row) (now : Int) : List Emission :=
  match fate w k r now with
  | .lateAbsorb t => [{ late := true, key := k, start := t.sess.start, stop := t.sess.stop, rows := t.sess.rows ++ [r] }]
  | _ => []

/-- Add of a row with a usable timestamp -/
def stepAdd (w : SWin) (k : Key) (r : Row) (now : Int) : SWin × List Emission :=
  ({ w with wm := wmAfter w r now, sessions := addSessions w k r now, trig := addTrig w k r now,
            parkSeq := addPark w k r now }, addEmit w k r now)

def expiredBy (w : SWin) (x : Int) (s : Sess) : Bool := decide (s.stop ≤ x) || decide (w.timeout < x - s.lastActive)

/-- canonical order of one expiry pass (the implementation iterates a Go map): key, then start -/
def sessLt (a b : Sess) : Bool :=
  (String.ofList a.key < String.ofList b.key) || (a.key == b.key && a.start < b.start)

def insertSorted (s : Sess) : List Sess → List Sess
  | [] => [s]
  | x :: xs => if sessLt s x then s :: x :: xs else x :: insertSorted s xs

def sortSess (l : List Sess) : List Sess := l.foldr insertSorted []

def putTrig (l : List Trig) (t : Trig) : List Trig :=
  (l.filter (fun u => !(u.sess.key == t.sess.key && u.sess.park == t.sess.park))) ++ [t]

/-- the trigger goroutine handles one received watermark value -/
def stepExpire (w : SWin) (x : Int) : SWin × List Emission :=
  let ex := sortSess (w.sessions.filter (expiredBy w x))
  let keep := w.sessions.filter (fun s => !expiredBy w x s)
  let trig1 := if 0 < w.lateness then ex.foldl (fun acc s => putTrig acc { sess := s, close := s.stop + w.lateness }) w.trig else w.trig
  let trig2 := trig1.filter (fun t => !decide (t.close ≤ x))
  ({ w with sessions := keep, trig := trig2 },
   ex.map (fun s => { late := false, key := s.key, start := s.start, stop := s.stop, rows := s.rows }))

def init (timeout ooo lateness : Int) : SWin := { timeout := timeout, lateness := lateness, wm := { maxOOO := ooo } }

end Session

namespace Session
open Wm

inductive Op where
  | add (k : Key) (r : Row) (now : Int)
  | addNoTs
  | tick (idle : Bool) (now : Int)
  | deliver                       -- the trigger goroutine receives one watermark value and runs the expiry pass
  deriving Repr

def stepDeliver (w : SWin) : SWin × List Emission :=
  match Wm.pop w.wm with
  | none => (w, [])
  | some (x, wm') => stepExpire { w with wm := wm' } x

def step (w : SWin) : Op → SWin × List Emission
  | .add k r now => stepAdd w k r now
  | .addNoTs => (w, [])
  | .tick idle now => ({ w with wm := Wm.tick w.wm idle now }, [])
  | .deliver => stepDeliver w

def run (w : SWin) : List Op → SWin × List Emission
  | [] => (w, [])
  | op :: ops => ((run (step w op).1 ops).1, (step w op).2 ++ (run (step w op).1 ops).2)

/-- rows accepted on time by one op -/
def acceptedBy (w : SWin) : Op → List Row
  | .add _ r now => if lateNow w r now then [] else [r]
  | _ => []

def acceptedRows (w : SWin) : List Op → List Row
  | [] => []
  | op :: ops => acceptedBy w op ++ acceptedRows (step w op).1 ops

end Session
