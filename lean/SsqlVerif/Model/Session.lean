/-
Model of `window/session_window.go` (event time).  A key may have several open sessions; an
on-time event joins every session of its key it touches (less than the timeout before the
session's first event and before its end), merging them when it bridges a gap, and opens a new
session when it touches none; each session is expired by the watermark.
One model op per critical section.  Core Lean only.
-/
import SsqlVerif.Model.Watermark
set_option autoImplicit false

namespace Session
open Wm

abbrev Key := List Char

structure Row where
  id : Nat
  ts : Int
  deriving DecidableEq, Repr

structure Sess where
  key   : Key
  park  : Nat            -- 0 = head session of the key, n > 0 = n-th parked session
  rows  : List Row
  lastActive : Int
  start : Int
  stop  : Int
  deriving DecidableEq, Repr

structure Trig where
  sess  : Sess
  close : Int
  deriving DecidableEq, Repr

structure Emission where
  late  : Bool
  key   : Key
  start : Int
  stop  : Int
  rows  : List Row
  deriving DecidableEq, Repr

structure SWin where
  timeout  : Int
  lateness : Int := 0
  sessions : List Sess := []
  trig     : List Trig := []
  parkSeq  : Nat := 0
  wm       : Wm.Wm
  deriving Repr

def newSess (k : Key) (r : Row) (timeout : Int) (park : Nat) : Sess :=
  { key := k, park := park, rows := [r], lastActive := r.ts, start := r.ts, stop := r.ts + timeout }

/-- the event at `ts` of key `k` touches session `s`: less than the timeout before its first event
and before its end (last event + timeout) -/
def touches (timeout : Int) (k : Key) (ts : Int) (s : Sess) : Bool :=
  s.key == k && decide (s.start - timeout < ts) && decide (ts < s.stop)

def maxLast : List Sess → Int → Int
  | [], m => m
  | s :: ss, m => maxLast ss (if m < s.lastActive then s.lastActive else m)

def minStart : List Sess → Int → Int
  | [], m => m
  | s :: ss, m => minStart ss (if s.start < m then s.start else m)

/-- the session obtained by merging the touched sessions `t :: os` (in start order) and the row -/
def merged (timeout : Int) (t : Sess) (os : List Sess) (r : Row) : Sess :=
  { key := t.key, park := t.park, rows := (t :: os).flatMap (·.rows) ++ [r],
    lastActive := maxLast (t :: os) r.ts, start := minStart (t :: os) r.ts,
    stop := maxLast (t :: os) r.ts + timeout }

def slotHas (t : Trig) (ts : Int) : Bool := decide (t.sess.start ≤ ts) && decide (ts < t.sess.stop)

def stillOpen (cur : Option Int) (t : Trig) : Bool :=
  match cur with
  | none => true
  | some c => decide (c < t.close)

/-- the triggered session of the same key, still inside its allowance by the watermark `cur`, a late row falls into -/
def findTrig (w : SWin) (k : Key) (ts : Int) (cur : Option Int) : Option Trig :=
  w.trig.find? (fun t => t.sess.key == k && slotHas t ts && stillOpen cur t)

def absorb (w : SWin) (t : Trig) (r : Row) : List Trig :=
  w.trig.map (fun u => if u == t then { u with sess := { u.sess with rows := u.sess.rows ++ [r] } } else u)

def wmAfter (w : SWin) (r : Row) (now : Int) : Wm.Wm := updateEventTime w.wm r.ts now
def lateNow (w : SWin) (r : Row) (now : Int) : Bool := isLate (wmAfter w r now) r.ts

/-- canonical order: key, then start (one expiry pass of the implementation iterates a Go map;
the touched sessions of one key are merged in start order) -/
def sessLt (a b : Sess) : Bool :=
  (String.ofList a.key < String.ofList b.key) || (a.key == b.key && a.start < b.start)

def insertSorted (s : Sess) : List Sess → List Sess
  | [] => [s]
  | x :: xs => if sessLt s x then s :: x :: xs else x :: insertSorted s xs

def sortSess (l : List Sess) : List Sess := l.foldr insertSorted []

/-- the open sessions of key `k` the row touches, in start order -/
def touched (w : SWin) (k : Key) (r : Row) : List Sess :=
  sortSess (w.sessions.filter (touches w.timeout k r.ts))

/-- map key of a new session: the composite key itself when free, else a fresh numbered one -/
def freshPark (w : SWin) (k : Key) : Nat :=
  if w.sessions.any (fun s => s.key == k && s.park == 0) then w.parkSeq + 1 else 0

/-- what an Add does with a row that has a usable timestamp -/
inductive Fate where
  | lateAbsorb (t : Trig)     -- late, inside an open triggered session of its key: re-delivery
  | lateDrop                  -- late otherwise
  | create                    -- on time, touches no open session of its key: a new session
  | join (t : Sess) (os : List Sess)   -- on time, touches `t :: os`: joins (and merges) them
  deriving Repr, DecidableEq

def lateFate (w : SWin) (k : Key) (r : Row) (cur : Option Int) : Fate :=
  match findTrig w k r.ts cur with
  | some t => .lateAbsorb t
  | none => .lateDrop

def onTimeFate (w : SWin) (k : Key) (r : Row) : Fate :=
  match touched w k r with
  | [] => .create
  | t :: os => .join t os

def fate (w : SWin) (k : Key) (r : Row) (now : Int) : Fate :=
  if lateNow w r now then (if 0 < w.lateness then lateFate w k r (wmAfter w r now).cur else .lateDrop)
  else onTimeFate w k r

def addSessions (w : SWin) (k : Key) (r : Row) (now : Int) : List Sess :=
  match fate w k r now with
  | .create => w.sessions ++ [newSess k r w.timeout (freshPark w k)]
  | .join t os => w.sessions.filter (fun s => !touches w.timeout k r.ts s) ++ [merged w.timeout t os r]
  | _ => w.sessions

def addTrig (w : SWin) (k : Key) (r : Row) (now : Int) : List Trig :=
  match fate w k r now with
  | .lateAbsorb t => absorb w t r
  | _ => w.trig

def addPark (w : SWin) (k : Key) (r : Row) (now : Int) : Nat :=
  match fate w k r now with
  | .create => if freshPark w k = 0 then w.parkSeq else w.parkSeq + 1
  | _ => w.parkSeq

def addEmit (w : SWin) (k : Key) (r : Row) (now : Int) : List Emission :=
  match fate w k r now with
  | .lateAbsorb t => [{ late := true, key := k, start := t.sess.start, stop := t.sess.stop, rows := t.sess.rows ++ [r] }]
  | _ => []

/-- Add of a row with a usable timestamp -/
def stepAdd (w : SWin) (k : Key) (r : Row) (now : Int) : SWin × List Emission :=
  ({ w with wm := wmAfter w r now, sessions := addSessions w k r now, trig := addTrig w k r now,
            parkSeq := addPark w k r now }, addEmit w k r now)

def expiredBy (w : SWin) (x : Int) (s : Sess) : Bool := decide (s.stop ≤ x) || decide (w.timeout < x - s.lastActive)

/-- every fired session is kept, whatever else of its key is still open for late rows (the implementation gives the
entry a fresh map key when the session's own one is taken) -/
def putTrig (l : List Trig) (t : Trig) : List Trig := l ++ [t]

/-- the trigger goroutine handles one received watermark value -/
def stepExpire (w : SWin) (x : Int) : SWin × List Emission :=
  let ex := sortSess (w.sessions.filter (expiredBy w x))
  let keep := w.sessions.filter (fun s => !expiredBy w x s)
  let trig1 := if 0 < w.lateness then ex.foldl (fun acc s => putTrig acc { sess := s, close := s.stop + w.lateness }) w.trig else w.trig
  let trig2 := trig1.filter (fun t => !decide (t.close ≤ x))
  ({ w with sessions := keep, trig := trig2 },
   ex.map (fun s => { late := false, key := s.key, start := s.start, stop := s.stop, rows := s.rows }))

/-- manual flush (`Trigger()`, public as `TriggerWindow`): every open session is delivered as it stands and
forgotten; nothing is registered for late data. Not an op of `step`: the theorems about watermark-driven
delivery do not speak about it; conservation is `flushAll_rows`. -/
def flushAll (w : SWin) : SWin × List Emission :=
  ({ w with sessions := [] },
   (sortSess w.sessions).map (fun s => { late := false, key := s.key, start := s.start, stop := s.stop, rows := s.rows }))

def init (timeout ooo lateness : Int) : SWin := { timeout := timeout, lateness := lateness, wm := { maxOOO := ooo } }

end Session

namespace Session
open Wm

inductive Op where
  | add (k : Key) (r : Row) (now : Int)
  | addNoTs
  | tick (idle : Bool) (now : Int)
  | deliver                       -- the trigger goroutine receives one watermark value and runs the expiry pass
  deriving Repr

def stepDeliver (w : SWin) : SWin × List Emission :=
  match Wm.pop w.wm with
  | none => (w, [])
  | some (x, wm') => stepExpire { w with wm := wm' } x

def step (w : SWin) : Op → SWin × List Emission
  | .add k r now => stepAdd w k r now
  | .addNoTs => (w, [])
  | .tick idle now => ({ w with wm := Wm.tick w.wm idle now }, [])
  | .deliver => stepDeliver w

def run (w : SWin) : List Op → SWin × List Emission
  | [] => (w, [])
  | op :: ops => ((run (step w op).1 ops).1, (step w op).2 ++ (run (step w op).1 ops).2)

/-- rows accepted on time by one op -/
def acceptedBy (w : SWin) : Op → List Row
  | .add _ r now => if lateNow w r now then [] else [r]
  | _ => []

def acceptedRows (w : SWin) : List Op → List Row
  | [] => []
  | op :: ops => acceptedBy w op ++ acceptedRows (step w op).1 ops

end Session
