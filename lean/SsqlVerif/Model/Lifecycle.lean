/-
Model of the lifecycle protocol of `stream` (C18): `Stop` (`stream.go:260`: flag under startMu,
close(done), nil the data channel, `waitLifecycle` `:375`, return), the data processor loop
with per-row recover (`processor_data.go:44,84`), `callSinksAsync` / `submitSinkTask`
(`handler_result.go:118,148`), the sink worker pool (`:25`), `AddSink`, `Emit` and `EmitSync`.

A transition system with one step per code segment between synchronisation points (the verif
yield points `cons.recv`, `sinks.call`, `sinks.submit`, `stop.flag`, `stop.done`, `stop.nil`,
`stop.wait`, `stop.joined`, and the harness sinks' own `sink.enter`).  Threads: the data
processor (`eng`), the sink workers, user threads calling `EmitSync`, any number of `Stop`
callers, and the atomic environment actions `Emit` and `AddSink`.  Sinks are user code: a sink
body is `plain`, `panics`, or `adds` (calls `AddSink` on the same instance — re-entrant).

Two switches select the code variant:
`copySinks = true`: `callSinksAsync` copies the sink slices under `sinksMux.RLock` and invokes
the sinks after releasing it (repaired); `false`: it holds the read lock across the invocations
(the code as found — an `adds` sink then waits for a lock its own caller holds).
`syncGuard = true`: `ProcessSync` refuses after Stop and is joined by `waitLifecycle`
(repaired); `false`: `EmitSync` is unaware of Stop (as found — sinks run after Stop returned).
Core Lean only.
-/
set_option autoImplicit false

namespace Lifecycle

inductive Kind where | plain | panics | adds
  deriving DecidableEq, Repr

structure Cfg where
  copySinks : Bool
  syncGuard : Bool
  qcap      : Nat            -- SinkPoolSize
  dropStrat : Bool           -- overflow strategy "drop": its retry select does not look at the stopped flag
  deriving Repr

/-- what a thread inside `callSinksAsync` / a sink task is doing -/
inductive Act where
  | idle
  | call (b : Nat)                                              -- `sinks.call`: results of row `b` ready
  | submit (b : Nat) (as ss : List Kind) (held : Bool)          -- `sinks.submit`: head of `as` is next
  | body (b : Nat) (k : Kind) (as ss : List Kind) (held : Bool) -- `sink.enter`: a sink of kind `k` was called
  | wantW (b : Nat) (as ss : List Kind) (held : Bool)           -- inside an `adds` sink: at `sinksMux.Lock`
  deriving DecidableEq, Repr

structure Thread where
  act    : Act
  alive  : Bool      -- lifecycle-tracked goroutine still running (eng, workers)
  joined : Bool      -- holds one count of the lifecycle WaitGroup on behalf of a call (EmitSync)
  deriving DecidableEq, Repr

inductive SPC where
  | sIdle | sFlag | sDone | sNil | sWait | sJoined | sRet | sNoop
  deriving DecidableEq, Repr

/-- one sink invocation (ghost log) -/
structure Inv where
  batch     : Nat
  afterStop : Bool     -- some Stop call that performed the teardown had already returned
  deriving DecidableEq, Repr

structure State where
  stopped      : Bool
  done         : Bool
  chanNil      : Bool
  life         : Nat                 -- lifecycle WaitGroup counter
  buf          : List Nat            -- data channel
  queue        : List (Kind × Nat)   -- sinkWorkerPool
  rd           : Nat                 -- sinksMux readers
  asyncSinks   : List Kind
  syncSinks    : List Kind
  eng          : Thread
  workers      : List Thread
  callers      : List Thread
  stops        : List SPC
  log          : List Inv
  rowPanics    : List Nat            -- rows whose processing panicked (recovered)
  refused      : List Nat            -- EmitSync calls refused because the stream is stopped
  nextId       : Nat
  stopReturned : Bool                -- ghost
  deriving Repr

inductive Tid where
  | emit (panics : Bool)     -- a user thread calls Emit (the row's evaluation panics or not)
  | addSink                  -- a user thread calls AddSink
  | eng | worker (j : Nat) | caller (i : Nat) | stop (k : Nat)
  deriving DecidableEq, Repr

/-- resolves `select` -/
inductive Wit where
  | data | done | tick
  deriving DecidableEq, Repr

def init (c : Cfg) (nworkers ncallers nstops : Nat) (asyncs syncs : List Kind) : State :=
  { stopped := false, done := false, chanNil := false, life := 1 + nworkers, buf := [], queue := [], rd := 0,
    asyncSinks := asyncs, syncSinks := syncs,
    eng := { act := .idle, alive := true, joined := false },
    workers := List.replicate nworkers { act := .idle, alive := true, joined := false },
    callers := List.replicate ncallers { act := .idle, alive := false, joined := false },
    stops := List.replicate nstops .sIdle, log := [], rowPanics := [], refused := [], nextId := 0,
    stopReturned := false }

/-- rows whose evaluation panics are marked by the emitter (ghost): odd ids -/
def rowPanicsB (r : Nat) : Bool := r % 2 == 1

/-! ### inside `callSinksAsync` -/

/-- where the dispatch goes after the current sink: next async submit, next sync sink, or done
(`finish` = `RUnlock` if the read lock is still held) -/
def nextAct (b : Nat) (as ss : List Kind) (held : Bool) : Act :=
  match as, ss with
  | _ :: _, _ => .submit b as ss held
  | [], k :: ss' => .body b k [] ss' held
  | [], [] => .idle

/-- readers after the dispatch step that leads to `a` (the lock is released when it ends) -/
def rdAfter (rd : Nat) (held : Bool) (a : Act) : Nat :=
  if held && a == .idle then rd - 1 else rd

structure Shared where
  queue      : List (Kind × Nat)
  rd         : Nat
  asyncSinks : List Kind
  log        : List Inv

/-- one dispatch step of a thread with activity `a`; returns the new activity and the shared parts -/
def actStep (c : Cfg) (s : State) : Act → Option (Act × Shared)
  | .idle => none
  | .call b =>
    -- `RLock` (no writer in this model: AddSink's write section is atomic), empty check, copy or hold
    if s.asyncSinks.isEmpty && s.syncSinks.isEmpty then
      some (.idle, { queue := s.queue, rd := s.rd, asyncSinks := s.asyncSinks, log := s.log })
    else if c.copySinks then
      some (nextAct b s.asyncSinks s.syncSinks false,
            { queue := s.queue, rd := s.rd, asyncSinks := s.asyncSinks, log := s.log })
    else
      some (nextAct b s.asyncSinks s.syncSinks true,
            { queue := s.queue, rd := s.rd + 1, asyncSinks := s.asyncSinks, log := s.log })
  | .submit b as ss held =>
    match as with
    | [] => none
    | k :: as' =>
      if s.queue.length < c.qcap then
        some (nextAct b as' ss held,
              { queue := s.queue ++ [(k, b)], rd := rdAfter s.rd held (nextAct b as' ss held),
                asyncSinks := s.asyncSinks, log := s.log })
      else if s.done then
        -- pool full during shutdown: the task is dropped
        some (nextAct b as' ss held,
              { queue := s.queue, rd := rdAfter s.rd held (nextAct b as' ss held),
                asyncSinks := s.asyncSinks, log := s.log })
      else
        -- pool full: run the sink in the calling goroutine
        some (.body b k as' ss held, { queue := s.queue, rd := s.rd, asyncSinks := s.asyncSinks, log := s.log })
  | .body b k as ss held =>
    match k with
    | .adds => some (.wantW b as ss held,
                     { queue := s.queue, rd := s.rd, asyncSinks := s.asyncSinks,
                       log := s.log ++ [{ batch := b, afterStop := s.stopReturned }] })
    | _ => -- plain, or panics (recovered by the per-sink `recover`): the dispatch goes on
      some (nextAct b as ss held,
            { queue := s.queue, rd := rdAfter s.rd held (nextAct b as ss held), asyncSinks := s.asyncSinks,
              log := s.log ++ [{ batch := b, afterStop := s.stopReturned }] })
  | .wantW b as ss held =>
    -- `AddSink` from inside a sink: `sinksMux.Lock` needs all readers gone
    if s.rd = 0 then
      some (nextAct b as ss held,
            { queue := s.queue, rd := rdAfter s.rd held (nextAct b as ss held),
              asyncSinks := s.asyncSinks ++ [.plain], log := s.log })
    else none

def withShared (s : State) (sh : Shared) : State :=
  { s with queue := sh.queue, rd := sh.rd, asyncSinks := sh.asyncSinks, log := sh.log }

/-! ### threads -/

/-- the data processor: `select { row | done | tick }`, per-row recover, `callSinksAsync` -/
def stepEng (c : Cfg) (s : State) (w : Wit) : Option State :=
  if !s.eng.alive then none
  else match s.eng.act with
    | .idle =>
      match w with
      | .data =>
        match s.buf with
        | [] => none
        | r :: rest =>
          if rowPanicsB r then
            some { s with buf := rest, rowPanics := s.rowPanics ++ [r] }       -- recovered, back to the loop
          else some { s with buf := rest, eng := { s.eng with act := .call r } }
      | .done => if s.done then some { s with eng := { s.eng with alive := false }, life := s.life - 1 } else none
      | .tick => some s
    | a =>
      match actStep c s a with
      | some (a', sh) =>
        -- back at the top of the loop: a nil data channel ends the goroutine
        if a' == .idle && s.chanNil then
          some { withShared s sh with eng := { s.eng with act := a', alive := false }, life := s.life - 1 }
        else some { withShared s sh with eng := { s.eng with act := a' } }
      | none => none

/-- a sink worker: `select { task | done }`, run the task under recover -/
def stepWorker (c : Cfg) (s : State) (j : Nat) (w : Wit) : Option State :=
  match s.workers[j]? with
  | none => none
  | some t =>
    if !t.alive then none
    else match t.act with
      | .idle =>
        match w with
        | .done =>
          if s.done then some { s with workers := s.workers.set j { t with alive := false }, life := s.life - 1 }
          else none
        | _ =>
          match s.queue with
          | [] => none
          | (k, b) :: rest =>
            some { s with queue := rest, workers := s.workers.set j { t with act := .body b k [] [] false } }
      | a =>
        match actStep c s a with
        | some (a', sh) => some { withShared s sh with workers := s.workers.set j { t with act := a' } }
        | none => none

/-- a user thread calling `EmitSync(row)`: the row is processed and dispatched in the caller -/
def stepCaller (c : Cfg) (s : State) (i : Nat) : Option State :=
  match s.callers[i]? with
  | none => none
  | some t =>
    match t.act with
    | .idle =>
      if c.syncGuard then
        if s.stopped then some { s with refused := s.refused ++ [s.nextId], nextId := s.nextId + 2 }
        else some { s with callers := s.callers.set i { t with act := .call s.nextId, joined := true },
                           life := s.life + 1, nextId := s.nextId + 2 }
      else some { s with callers := s.callers.set i { t with act := .call s.nextId }, nextId := s.nextId + 2 }
    | a =>
      match actStep c s a with
      | some (a', sh) =>
        if a' == .idle && t.joined then
          some { withShared s sh with callers := s.callers.set i { t with act := a', joined := false }, life := s.life - 1 }
        else some { withShared s sh with callers := s.callers.set i { t with act := a' } }
      | none => none

/-- the strategy returns without sending: nil data channel (after Stop), the stopped flag
(block / expand check it first; the drop strategy only notices `done` in its retry select) -/
def emitRefused (c : Cfg) (s : State) (w : Wit) : Bool :=
  s.chanNil || (s.stopped && (!c.dropStrat || (s.done && w == .done)))

/-- `Emit`: count, then the strategy: nothing happens on a stopped stream -/
def stepEmit (c : Cfg) (s : State) (panics : Bool) (w : Wit) : Option State :=
  if emitRefused c s w then some { s with nextId := s.nextId + 2 }
  else some { s with buf := s.buf ++ [if panics then s.nextId + 1 else s.nextId], nextId := s.nextId + 2 }

/-- `AddSink`: the write section is atomic; it needs the readers gone -/
def stepAddSink (s : State) : Option State :=
  if s.rd = 0 then some { s with asyncSinks := s.asyncSinks ++ [.plain] } else none

def stepStop (s : State) (k : Nat) : Option State :=
  match s.stops[k]? with
  | none => none
  | some pc =>
    match pc with
    | .sIdle =>
      if s.stopped then some { s with stops := s.stops.set k .sNoop }
      else some { s with stopped := true, stops := s.stops.set k .sFlag }
    | .sFlag => some { s with done := true, stops := s.stops.set k .sDone }
    | .sDone =>
      -- `dataChanMux.Lock`: the data processor holds the read lock while it waits in its select
      if s.eng.alive && s.eng.act == .idle then none
      else some { s with chanNil := true, stops := s.stops.set k .sNil }
    | .sNil => some { s with stops := s.stops.set k .sWait }
    | .sWait => if s.life = 0 then some { s with stops := s.stops.set k .sJoined } else none
    | .sJoined => some { s with stops := s.stops.set k .sRet, stopReturned := true }
    | .sRet => none
    | .sNoop => none

def step (c : Cfg) (s : State) (t : Tid) (w : Wit) : Option State :=
  match t with
  | .emit p => stepEmit c s p w
  | .addSink => stepAddSink s
  | .eng => stepEng c s w
  | .worker j => stepWorker c s j w
  | .caller i => stepCaller c s i
  | .stop k => stepStop s k

/-- run a schedule; a disabled step is skipped -/
def run (c : Cfg) : State → List (Tid × Wit) → State
  | s, [] => s
  | s, (t, w) :: rest =>
    match step c s t w with
    | some s' => run c s' rest
    | none => run c s rest

/-! ### derived notions used by the statements -/

def inTeardown : SPC → Bool
  | .sFlag | .sDone | .sNil | .sWait | .sJoined | .sRet => true
  | _ => false

def pastJoin : SPC → Bool
  | .sJoined | .sRet => true
  | _ => false

/-- the thread waits for `sinksMux.Lock` while its own caller holds the read lock -/
def selfWait : Act → Bool
  | .wantW _ _ _ held => held
  | _ => false

def allThreads (s : State) : List Thread := s.eng :: (s.workers ++ s.callers)

end Lifecycle
