/-
C12 — model of the predicate fast paths of `condition/condition.go` (repaired tree):
`toFloat64Fast`, `fastCompare.eval`/`evalMap`, `fastCompound.eval`, and `ExprCondition.Evaluate`
(shortcut if it answers, else the general evaluator; an evaluation error rejects the row).

A compiled `fastCompare{field, op, numLit|strLit}` is represented by the comparison `Cmp` it was
compiled from: `numLit` is `litNum c.lit` (for an integer literal the float64 nearest to it, which
is what `strconv.ParseFloat` returns for a decimal integer — possibly another integer). The value
guard of `toFloat64Fast` is strict (`|x| < 2^53`): then `x` is its own image and no literal's image
can coincide with it unless the literal is `x` itself (`Proofs/Cond.lean compareInt_round53`).

`fastEvalOld`/`toFloat64FastOld` are the *unrepaired* conversions (snapshot d262363); they only
serve the witness theorem `C12.guard_needed`.
Core Lean only.
-/
import SsqlVerif.Model.CondGeneral
set_option autoImplicit false

namespace Cond

/-- `-2^53 < n < 2^53`: the float64 image of `n` is `n` itself and of no other integer -/
def exactInt (n : Int) : Bool := decide (-exactLimit < n ∧ n < exactLimit)

/-- `toFloat64Fast` on the integer cases: `int8/int16/uint8/uint16` have no case (fall back);
32-bit values always fit; 64-bit ones are converted only inside the exact range -/
def toFloat64FastInt : IntV → Option F64
  | .i v => if exactInt v.toInt then some (F64.ofInt v.toInt) else none
  | .i64 v => if exactInt v.toInt then some (F64.ofInt v.toInt) else none
  | .i32 v => some (F64.ofInt v.toInt)
  | .u v => if exactInt v.toNat then some (F64.ofInt v.toNat) else none
  | .u64 v => if exactInt v.toNat then some (F64.ofInt v.toNat) else none
  | .u32 v => some (F64.ofInt v.toNat)
  | _ => none

def toFloat64Fast : Val → Option F64
  | .flt _ x => some x
  | .int x => toFloat64FastInt x
  | _ => none

/-- `fastCompare.numLit` -/
def litNum : Lit → F64
  | .int n => F64.ofInt n
  | .flt x => x
  | .str _ => .nan            -- unused: `isString`

/-- the numeric branch of `fastCompare.eval` -/
def fastNum (v : Val) (op : Op) (lit : Lit) : Option Bool :=
  match toFloat64Fast v with
  | some f => some (compareNum f op (litNum lit))
  | none => none

/-- the string branch -/
def fastStr (v : Val) (op : Op) (t : Str) : Option Bool :=
  match v with
  | .str s => some (compareStr s op t)
  | _ => none

/-- `fastCompare.eval` after the lookup succeeded with a non-nil value -/
def fastVal (v : Val) (op : Op) (lit : Lit) : Option Bool :=
  match lit with
  | .str t => fastStr v op t
  | _ => fastNum v op lit

/-- `fastCompare.eval` / `evalMap` (`condition.go:127-148, 179-196`): `none` = "could not handle
this value, fall back to expr-lang" -/
def fastEval (c : Cmp) (row : Row) : Option Bool :=
  match row.get c.field with
  | none => none
  | some .null => none
  | some v => fastVal v c.op c.lit

/-- every part must answer, else the whole chain falls back -/
def fastAll (row : Row) : List Cmp → Option (List Bool)
  | [] => some []
  | c :: cs =>
    match fastEval c row, fastAll row cs with
    | some b, some bs => some (b :: bs)
    | _, _ => none

def combine (isAnd : Bool) (bs : List Bool) : Bool := if isAnd then bs.all id else bs.any id

/-- `fastCompound.eval` (`condition.go:158-176`) -/
def fastCompound (isAnd : Bool) (cs : List Cmp) (row : Row) : Option Bool :=
  (fastAll row cs).map (combine isAnd)

/-- `ExprCondition`: the compiled program (as the predicate expr-lang parsed) and the optional
shortcuts -/
structure CondM where
  pred : Pred
  fast : Option Cmp
  compound : Option (Bool × List Cmp)

/-- the shortcut consulted by `Evaluate`, `condition.go:77-85` -/
def CondM.fastPath (c : CondM) (row : Row) : Option Bool :=
  match c.compound with
  | some (isAnd, parts) => fastCompound isAnd parts row
  | none =>
    match c.fast with
    | some f => fastEval f row
    | none => none

/-- `ExprCondition.Evaluate` -/
def CondM.evaluate (c : CondM) (row : Row) : Bool :=
  (c.fastPath row).getD (generalEval c.pred row).decision

/-! ### the unrepaired conversion (for the witness theorem only) -/

def toFloat64FastOld : Val → Option F64
  | .flt _ x => some x
  | .int (.i v) => some (F64.ofInt v.toInt)
  | .int (.i64 v) => some (F64.ofInt v.toInt)
  | .int (.i32 v) => some (F64.ofInt v.toInt)
  | .int (.u v) => some (F64.ofInt v.toNat)
  | .int (.u64 v) => some (F64.ofInt v.toNat)
  | .int (.u32 v) => some (F64.ofInt v.toNat)
  | _ => none

def fastEvalOld (c : Cmp) (row : Row) : Option Bool :=
  match row.get c.field, c.lit with
  | none, _ => none
  | some .null, _ => none
  | some v, .str t => fastStr v c.op t
  | some v, l => (toFloat64FastOld v).map (fun f => compareNum f c.op (litNum l))

end Cond
