/-
Model of `window/sliding_window.go`, event time, ALLOWEDLATENESS = 0 (the late-update path of the
sliding window picks its target through Go map iteration and is not modelled; C02 covers late
updates on the tumbling and session models).  One model op per critical section / loop iteration.
Reuses `Row`, `Emission`, `inSlot`, `alignDown` and the watermark model.  Core Lean only.
-/
import SsqlVerif.Model.Tumbling
set_option autoImplicit false

namespace Sliding
open Wm Tumbling

structure SW where
  size     : Int
  slide    : Int
  cur      : Option Int := none      -- currentSlot.Start
  data     : List Row := []
  wm       : Wm.Wm
  trigW    : Option Int := none
  doneW    : Option Int := none      -- ghost: last completed trigger pass
  advanced : Bool := false           -- the trigger loop has moved the current slot at least once
  acc      : List Row := []          -- ghost: every row accepted so far, arrival order
  accCur   : List (Row × Int) := []  -- ghost: accepted rows with the current slot start right after their Add
  deriving Repr

def curInit (s : SW) (r : Row) : Int :=
  match s.cur with
  | none => alignDown r.ts s.slide
  | some c => c

def wmAfter (s : SW) (r : Row) (now : Int) : Wm.Wm := updateEventTime s.wm r.ts now
def lateNow (s : SW) (r : Row) (now : Int) : Bool := isLate (wmAfter s r now) r.ts

/-- an on-time row preceding the slot created from the first event re-seats the slot (only while
the trigger loop has not advanced it) -/
def curAfterAdd (s : SW) (r : Row) (now : Int) : Int :=
  if lateNow s r now then curInit s r
  else if r.ts < curInit s r ∧ s.advanced = false then alignDown r.ts s.slide else curInit s r

/-- kept or dropped (ALLOWEDLATENESS = 0): late rows survive only inside the current slot -/
def kept (s : SW) (r : Row) (now : Int) : Bool :=
  !lateNow s r now || inSlot s.size (curInit s r) r

def stepAdd (s : SW) (r : Row) (now : Int) : SW :=
  { s with wm := wmAfter s r now, cur := some (curAfterAdd s r now),
           data := if kept s r now then s.data ++ [r] else s.data,
           acc := if kept s r now then s.acc ++ [r] else s.acc,
           accCur := if kept s r now then s.accCur ++ [(r, curAfterAdd s r now)] else s.accCur }

def stepPop (s : SW) : SW :=
  match s.trigW, Wm.pop s.wm with
  | none, some (w, wm') => { s with trigW := some w, wm := wm' }
  | _, _ => s

def slotRows (s : SW) (c : Int) : List Row := s.data.filter (inSlot s.size c)

/-- eviction rule of `extractWindowDataLocked`: keep rows at or after the next slot's start -/
def evict (s : SW) (c : Int) : List Row := s.data.filter (fun r => decide (c + s.slide ≤ r.ts))

def fireOrSkip (s : SW) (c : Int) : SW × List Emission :=
  if (slotRows s c).isEmpty then ({ s with cur := some (c + s.slide), advanced := true }, [])
  else ({ s with cur := some (c + s.slide), advanced := true, data := evict s c },
        [{ kind := .first, start := c, stop := c + s.size, rows := slotRows s c }])

def stepIter (s : SW) : SW × List Emission :=
  match s.trigW, s.cur with
  | some w, some c => if c + s.size ≤ w then fireOrSkip s c else ({ s with trigW := none, doneW := some w }, [])
  | some _, none => ({ s with trigW := none }, [])
  | none, _ => (s, [])

inductive Op where
  | add (r : Row) (now : Int)
  | addNoTs
  | tick (idle : Bool) (now : Int)
  | pop
  | iter
  deriving Repr

def step (s : SW) : Op → SW × List Emission
  | .add r now => (stepAdd s r now, [])
  | .addNoTs => (s, [])
  | .tick idle now => ({ s with wm := Wm.tick s.wm idle now }, [])
  | .pop => (stepPop s, [])
  | .iter => stepIter s

def run (s : SW) : List Op → SW × List Emission
  | [] => (s, [])
  | op :: ops => ((run (step s op).1 ops).1, (step s op).2 ++ (run (step s op).1 ops).2)

def init (size slide ooo : Int) : SW := { size := size, slide := slide, wm := { maxOOO := ooo } }

end Sliding
