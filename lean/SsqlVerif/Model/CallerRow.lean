/-
Model for C20 — who owns which map.

(1) The caller's row.  `Emit`/`EmitSync` hand the caller's `map[string]any` through the input buffer without
copying.  Inside the engine the working map `dataMap` is either *the caller's map itself* (alias) or a map
the engine made (`enrichJoin`'s copy, or the copy made before the first injected write).  `Work` carries
both; a write goes to whichever map `dataMap` denotes, so a write through an alias is a write into the
caller's map.  Every stage returns the `Work` after it — i.e. `(callerRowAfter, …)`.
   stream/stream.go       enrichData, evalAnalytic (analytic results, multi-column fan-out, WHERE placeholders),
                          applyWhereAndAnalytic, processDirectDataSync
   stream/processor_data.go  processItem (window branch), processDirectData
   stream/processor_field.go injectGroupKeyExprs
   stream/join.go         enrichJoin (copy + aliases)
What the analytic engine, the expression bridge, the table lookup and WHERE *compute* is abstract (`QEnv`):
the theorems hold for every such function, hence for every history of the per-instance state.

(2) Result rows.  A tiny heap: result rows are objects allocated by the engine; a step may write only to
objects it allocated in that step, then hands their ids to the sinks.

(3) Process-wide caches of the expression bridge (`programCache`, `preprocessCache`) as memo tables threaded
through every expression evaluation of every instance.

Values nested in a row are shared by reference between the caller's map, the working copy and `SELECT *`
results; no modelled stage writes *through* a nested value (the code has no such write; the harness
compares deep snapshots), so nested values stay immutable trees here.  Core Lean only.
-/
import SsqlVerif.Model.Pipeline
set_option autoImplicit false

namespace Caller
open Pipe

/-! ### (1) the caller's row -/

structure Work where
  caller : Row              -- the map the caller passed (as the caller sees it now)
  own : Option Row          -- `none`: dataMap *is* the caller's map; `some m`: dataMap is the engine's map `m`

/-- what `dataMap[k]` reads -/
def Work.read (w : Work) : Row := w.own.getD w.caller

/-- `dataMap[k] = v` -/
def Work.write (w : Work) (k : Str) (v : Value) : Work :=
  match w.own with
  | none => { w with caller := setKey k v w.caller }
  | some m => { w with own := some (setKey k v m) }

/-- shallow copy of `dataMap` unless it is already the engine's own map -/
def Work.detach (w : Work) : Work :=
  match w.own with
  | none => { w with own := some w.caller }
  | some _ => w

def Work.writeAll (w : Work) : List (Str × Value) → Work
  | [] => w
  | (k, v) :: rest => (w.write k v).writeAll rest

/-- the part of `types.Config` that decides which stages write -/
structure QCfg where
  hasJoin : Bool                       -- len(JoinConfigs) > 0
  analytic : List (Str × Bool)         -- AnalyticFields: (alias, MultiColumn)
  wherePlaceholders : List Str         -- WhereAnalyticCalls placeholders (`__analytic_N__`)
  groupFields : List Str               -- GroupFields

/-- everything the stages compute, abstractly -/
structure QEnv where
  joinRow : Row → Option (List (Str × Value))   -- enrichJoin: `none` = INNER JOIN without match; else the alias entries
  analyticEval : Row → Row                      -- AnalyticEngine.Evaluate: alias / placeholder ↦ value
  fanOut : Value → List (Str × Value)           -- a multi-column result as prefix+column entries
  whereP : Row → Bool
  groupKeyEval : Str → Row → Option Value       -- bridge.EvaluateExpression(gf, row); `none` = error (skipped)
  project : Row → Row → Option Row              -- projectDirectRow(dataMap, analyticResults) incl. omit-empty

/-- `enrichData`: without JOIN the working map is the caller's map; with JOIN it is a fresh copy plus aliases -/
def enrich (q : QCfg) (e : QEnv) (w : Work) : Option Work :=
  if !q.hasJoin then some w
  else match e.joinRow w.read with
    | none => none
    | some extra => some ({ w with own := some w.read }.writeAll extra)

/-- the entries `evalAnalytic` injects for the SELECT analytic fields -/
def selectInjections (e : QEnv) (results : Row) : List (Str × Bool) → List (Str × Value)
  | [] => []
  | (alias, multi) :: rest =>
    match lookupKey alias results with
    | none => selectInjections e results rest
    | some v => (if multi then e.fanOut v else [(alias, v)]) ++ selectInjections e results rest

def whereInjections (results : Row) : List Str → List (Str × Value)
  | [] => []
  | p :: rest =>
    match lookupKey p results with
    | none => whereInjections results rest
    | some v => (p, v) :: whereInjections results rest

def hasAnalytic (q : QCfg) : Bool := !q.analytic.isEmpty || !q.wherePlaceholders.isEmpty

/-- `evalAnalytic` as repaired: evaluate on the row, then copy before the first injected write -/
def evalAnalytic (q : QCfg) (e : QEnv) (w : Work) : Work × Row :=
  if !hasAnalytic q then (w, [])
  else
    ((w.detach.writeAll (selectInjections e (e.analyticEval w.read) q.analytic)).writeAll
        (whereInjections (e.analyticEval w.read) q.wherePlaceholders),
     e.analyticEval w.read)

/-- the same stage without the copy — the code before the repair (kept as the refutation witness) -/
def evalAnalyticInPlace (q : QCfg) (e : QEnv) (w : Work) : Work × Row :=
  if !hasAnalytic q then (w, [])
  else
    ((w.writeAll (selectInjections e (e.analyticEval w.read) q.analytic)).writeAll
        (whereInjections (e.analyticEval w.read) q.wherePlaceholders),
     e.analyticEval w.read)

/-- `applyWhereAndAnalytic`: analytic first iff WHERE refers to it -/
def applyWhereAndAnalytic (q : QCfg) (e : QEnv) (w : Work) : Work × Option Row :=
  if !q.wherePlaceholders.isEmpty then
    (if e.whereP (evalAnalytic q e w).1.read then ((evalAnalytic q e w).1, some (evalAnalytic q e w).2)
     else ((evalAnalytic q e w).1, none))
  else if e.whereP w.read then ((evalAnalytic q e w).1, some (evalAnalytic q e w).2)
  else (w, none)

/-- `processDirectDataSync` / `processDirectData`: (caller's row afterwards, result row if any) -/
def directStep (q : QCfg) (e : QEnv) (row : Row) : Row × Option Row :=
  match enrich q e { caller := row, own := none } with
  | none => (row, none)
  | some w =>
    match (applyWhereAndAnalytic q e w).2 with
    | none => ((applyWhereAndAnalytic q e w).1.caller, none)
    | some ar => ((applyWhereAndAnalytic q e w).1.caller, e.project (applyWhereAndAnalytic q e w).1.read ar)

def isFnKey (gf : Str) : Bool := gf.contains '('

/-- the entries `injectGroupKeyExprs` writes: one per function-expression group key that evaluates -/
def groupInjections (e : QEnv) (row : Row) : List Str → List (Str × Value)
  | [] => []
  | gf :: rest =>
    if isFnKey gf then
      match e.groupKeyEval gf row with
      | none => groupInjections e row rest
      | some v => (gf, v) :: groupInjections e (setKey gf v row) rest
    else groupInjections e row rest

def hasFnKey (q : QCfg) : Bool := q.groupFields.any isFnKey

/-- `injectGroupKeyExprs` as repaired: copy before the first computed key is written (no copy when no
function-expression key evaluates) -/
def injectGroupKeys (q : QCfg) (e : QEnv) (w : Work) : Work :=
  if (groupInjections e w.read q.groupFields).isEmpty then w
  else w.detach.writeAll (groupInjections e w.read q.groupFields)

def injectGroupKeysInPlace (q : QCfg) (e : QEnv) (w : Work) : Work :=
  w.writeAll (groupInjections e w.read q.groupFields)

/-- `processItem`, window branch: (caller's row afterwards, the row handed to `Window.Add` if kept) -/
def windowStep (q : QCfg) (e : QEnv) (row : Row) : Row × Option Row :=
  match enrich q e { caller := row, own := none } with
  | none => (row, none)
  | some w =>
    if e.whereP w.read then ((injectGroupKeys q e w).caller, some (injectGroupKeys q e w).read)
    else (w.caller, none)

/-! ### (2) result rows on a heap -/

abbrev Heap := List Row     -- object id = position

def heapSet (h : Heap) (id : Nat) (r : Row) : Heap := h.set id r

/-- one engine step on result rows: allocate `fresh` objects, apply writes (each to an object allocated in
this step: ids are offsets from the old heap size), deliver all objects of this step -/
structure RStep where
  fresh : List Row
  writes : List (Nat × Str × Value)       -- (offset, key, value)

def applyWrites (base : Nat) : Heap → List (Nat × Str × Value) → Heap
  | h, [] => h
  | h, (off, k, v) :: rest =>
    applyWrites base (match h[base + off]? with
      | some r => heapSet h (base + off) (setKey k v r)
      | none => h) rest

structure RState where
  heap : Heap := []
  delivered : List (Nat × Row) := []     -- (object id, content at delivery)

def rstep (s : RState) (st : RStep) : RState :=
  { heap := applyWrites s.heap.length (s.heap ++ st.fresh) st.writes
    delivered := s.delivered ++
      ((List.range st.fresh.length).map fun i =>
        (s.heap.length + i, ((applyWrites s.heap.length (s.heap ++ st.fresh) st.writes)[s.heap.length + i]?).getD [])) }

def rrun : RState → List RStep → RState
  | s, [] => s
  | s, st :: rest => rrun (rstep s st) rest

/-! ### (3) shared memo tables -/

/-- compiled program: abstractly, the function it computes -/
structure Shared (Ty Prog : Type) where
  prog : List (Str × Ty × Prog) := []     -- programCache: expression text ↦ (env type, program)
  prep : List (Str × Str) := []           -- preprocessCache: text ↦ preprocessed text

def assocGet {β : Type} (k : Str) : List (Str × β) → Option β
  | [] => none
  | (k', v) :: rest => if k' = k then some v else assocGet k rest

def assocSet {β : Type} (k : Str) (v : β) : List (Str × β) → List (Str × β)
  | [] => [(k, v)]
  | (k', v') :: rest => if k' = k then (k, v) :: rest else (k', v') :: assocSet k v rest

section
variable {Ty Prog : Type} [DecidableEq Ty]

/-- `preprocessCached` -/
def prepCached (prep : Str → Str) (g : Shared Ty Prog) (text : Str) : Shared Ty Prog × Str :=
  match assocGet text g.prep with
  | some r => (g, r)
  | none => ({ g with prep := assocSet text (prep text) g.prep }, prep text)

/-- `CompileExpressionWithStreamSQLFunctions`: reuse only for the same env type; failures are not cached -/
def compileCached (compile : Str → Ty → Option Prog) (g : Shared Ty Prog) (text : Str) (ty : Ty) :
    Shared Ty Prog × Option Prog :=
  match assocGet text g.prog with
  | some (ty', p) =>
    if ty' = ty then (g, some p)
    else match compile text ty with
      | some p' => ({ g with prog := assocSet text (ty, p') g.prog }, some p')
      | none => (g, none)
  | none =>
    match compile text ty with
    | some p' => ({ g with prog := assocSet text (ty, p') g.prog }, some p')
    | none => (g, none)

/-- the pure parts of the bridge -/
structure Bridge (Ty Prog : Type) where
  prep : Str → Str
  compile : Str → Ty → Option Prog
  typeOf : Row → Ty
  run : Prog → Row → Value
  fallback : Str → Row → Value       -- env path when compilation fails

/-- `EvaluateExpression` through the caches -/
def evalCached (b : Bridge Ty Prog) (g : Shared Ty Prog) (text : Str) (row : Row) : Shared Ty Prog × Value :=
  match (compileCached b.compile (prepCached b.prep g text).1 (prepCached b.prep g text).2 (b.typeOf row)).2 with
  | some p => ((compileCached b.compile (prepCached b.prep g text).1 (prepCached b.prep g text).2 (b.typeOf row)).1, b.run p row)
  | none => ((compileCached b.compile (prepCached b.prep g text).1 (prepCached b.prep g text).2 (b.typeOf row)).1,
             b.fallback (prepCached b.prep g text).2 row)

/-- the same without any cache -/
def evalPure (b : Bridge Ty Prog) (text : Str) (row : Row) : Value :=
  match b.compile (b.prep text) (b.typeOf row) with
  | some p => b.run p row
  | none => b.fallback (b.prep text) row

def evalAllCached (b : Bridge Ty Prog) : Shared Ty Prog → List Str → Row → Shared Ty Prog × List Value
  | g, [], _ => (g, [])
  | g, t :: ts, row =>
    ((evalAllCached b (evalCached b g t row).1 ts row).1,
     (evalCached b g t row).2 :: (evalAllCached b (evalCached b g t row).1 ts row).2)

/-- an instance: the expressions it sends to the bridge per row, and what it does with the values
(windows, aggregation, analytic state, projection … all private state `σ`) -/
structure Inst (σ : Type) where
  exprs : List Str
  combine : σ → Row → List Value → σ × List Row

def instStep {σ : Type} (b : Bridge Ty Prog) (i : Inst σ) (g : Shared Ty Prog) (s : σ) (row : Row) :
    Shared Ty Prog × σ × List Row :=
  ((evalAllCached b g i.exprs row).1, i.combine s row (evalAllCached b g i.exprs row).2)

def instStepPure {σ : Type} (b : Bridge Ty Prog) (i : Inst σ) (s : σ) (row : Row) : σ × List Row :=
  i.combine s row (i.exprs.map fun t => evalPure b t row)

/-- instance A alone, no cache -/
def runAlone {σ : Type} (b : Bridge Ty Prog) (i : Inst σ) : σ → List Row → List (List Row)
  | _, [] => []
  | s, r :: rs => (instStepPure b i s r).2 :: runAlone b i (instStepPure b i s r).1 rs

/-- two instances sharing the caches, fed by a schedule (`true` = the row goes to A); returns A's and B's outputs -/
def runBoth {σ τ : Type} (b : Bridge Ty Prog) (ia : Inst σ) (ib : Inst τ) :
    Shared Ty Prog → σ → τ → List (Bool × Row) → List (List Row) × List (List Row)
  | _, _, _, [] => ([], [])
  | g, sa, sb, (true, r) :: rest =>
    ((instStep b ia g sa r).2.2 :: (runBoth b ia ib (instStep b ia g sa r).1 (instStep b ia g sa r).2.1 sb rest).1,
     (runBoth b ia ib (instStep b ia g sa r).1 (instStep b ia g sa r).2.1 sb rest).2)
  | g, sa, sb, (false, r) :: rest =>
    ((runBoth b ia ib (instStep b ib g sb r).1 sa (instStep b ib g sb r).2.1 rest).1,
     (instStep b ib g sb r).2.2 :: (runBoth b ia ib (instStep b ib g sb r).1 sa (instStep b ib g sb r).2.1 rest).2)

def rowsOf (who : Bool) : List (Bool × Row) → List Row
  | [] => []
  | (w, r) :: rest => if w = who then r :: rowsOf who rest else rowsOf who rest

end

end Caller
