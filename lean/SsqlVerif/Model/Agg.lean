/-
C03 — model of the built-in aggregators (state machines `new / add / result`).

Mirrors, one definition per Go method:
* `functions/functions_aggregation.go`: SumFunction (:59 Add, :72 Result), AvgFunction (:138/:151),
  MinFunction (:218/:232), MaxFunction (:299/:313), CountFunction (:367/:374),
  StdDevAggregatorFunction (:1129/:1135, registered as `stddev`), MedianAggregatorFunction (:1197/:1203),
  PercentileAggregatorFunction (:1263/:1269, `Init` :1302), CollectFunction (:588/:592),
  FirstValueFunction (:650/:657), LastValueFunction (:710/:714), MergeAggFunction (:770/:774),
  StdDevSAggregatorFunction (:1504/:1512), DeduplicateAggregatorFunction (:1578/:1586),
  VarAggregatorFunction (:1636/:1644), VarSAggregatorFunction (:1707/:1715);
* `functions/functions_window.go`: NthValueFunction (:315 Add, :319 Result, `Init` :327);
* `utils/cast/cast.go`: ToFloat64E (:228), ToStringE (:335).
(`functions/builtin.go:94-114` says which of the duplicate implementations is registered; the
adapter/wrapper layers `aggregator_adapter.go`, `aggregator_types.go:118` only forward.)

Everything is polymorphic in a number type `ν` with the small operation class `NumOps`.
The theorems instantiate exact arithmetic (`Rat`), the driver instantiates `Float`
(binary64, same operations in the same order as the Go code).
Functions of the Go runtime that the aggregators call and that are not arithmetic
(`strconv.ParseFloat`, the `%v` and `'f'` renderings of a float64) are parameters (`Env`).
Core Lean only.
-/
set_option autoImplicit false

namespace Agg

/-- operations on numbers used by the aggregators -/
class NumOps (ν : Type) where
  add : ν → ν → ν
  sub : ν → ν → ν
  mul : ν → ν → ν
  div : ν → ν → ν
  ofNat : Nat → ν                -- `float64(n)` for a Go `int` that is a length/count
  ofInt : Int → ν                -- `float64(i)` for a Go `int`/`int64`
  lt : ν → ν → Bool              -- Go `<` on float64
  sortLt : ν → ν → Bool          -- the order of `sort.Float64s` (`<`, NaN first)
  sqrt : ν → ν                   -- `math.Sqrt`
  floorNat : ν → Nat             -- `int(math.Floor(x))` for `x ≥ 0`

open NumOps

abbrev Str := List Char

/-- a Go `any` handed to an aggregator (`nil`, `int`/`int64`, `float64`, `string`, `bool`) -/
inductive Val (ν : Type) where
  | null
  | int (i : Int)
  | flt (x : ν)
  | str (s : Str)
  | bool (b : Bool)
  deriving DecidableEq

/-- what `Result()` returns: one value, or a slice (`collect`, `deduplicate`) -/
inductive Res (ν : Type) where
  | one (v : Val ν)
  | many (l : List (Val ν))
  deriving DecidableEq

/-- Go runtime functions the aggregators call (not arithmetic, not modelled: parameters) -/
structure Env (ν : Type) where
  parseFloat : Str → Option ν     -- `strconv.ParseFloat(s, 64)`, `none` = error
  fmtV : ν → Str                  -- `fmt.Sprintf("%v", x)` for a float64
  fmtF : ν → Str                  -- `strconv.FormatFloat(x, 'f', -1, 64)`

variable {ν : Type} [NumOps ν]

def Val.isNull : Val ν → Bool
  | .null => true
  | _ => false

def boolNum (b : Bool) : ν := if b then ofNat 1 else ofNat 0

/-- `cast.ToFloat64E` (`none` = error; `nil` falls into the `default` branch: error) -/
def toFloat (e : Env ν) : Val ν → Option ν
  | .null => none
  | .int i => some (ofInt i)
  | .flt x => some x
  | .str s => e.parseFloat s
  | .bool b => some (boolNum b)

def boolStr (b : Bool) : Str := if b then "true".toList else "false".toList

def intStr (i : Int) : Str := (toString i).toList

/-- `cast.ToString` -/
def toStr (e : Env ν) : Val ν → Str
  | .null => []
  | .int i => intStr i
  | .flt x => e.fmtF x
  | .str s => s
  | .bool b => boolStr b

/-- `fmt.Sprintf("%v", v)` — the identity used by `deduplicate` -/
def keyOf (e : Env ν) : Val ν → Str
  | .null => "<nil>".toList
  | .int i => intStr i
  | .flt x => e.fmtV x
  | .str s => s
  | .bool b => boolStr b

/-! ### sum -/
structure SumSt (ν : Type) where
  value : ν
  has : Bool

def SumSt.new : SumSt ν := ⟨ofNat 0, false⟩
def SumSt.addNum (s : SumSt ν) (x : ν) : SumSt ν := ⟨add s.value x, true⟩
def SumSt.add (e : Env ν) (s : SumSt ν) (v : Val ν) : SumSt ν :=
  match toFloat e v with
  | none => s
  | some x => s.addNum x
def SumSt.result (s : SumSt ν) : Val ν := if s.has then .flt s.value else .null

/-! ### avg -/
structure AvgSt (ν : Type) where
  sum : ν
  count : Nat

def AvgSt.new : AvgSt ν := ⟨ofNat 0, 0⟩
def AvgSt.addNum (s : AvgSt ν) (x : ν) : AvgSt ν := ⟨add s.sum x, s.count + 1⟩
def AvgSt.add (e : Env ν) (s : AvgSt ν) (v : Val ν) : AvgSt ν :=
  match toFloat e v with
  | none => s
  | some x => s.addNum x
def AvgSt.result (s : AvgSt ν) : Val ν :=
  if s.count = 0 then .null else .flt (div s.sum (ofNat s.count))

/-! ### min / max -/
structure ExtSt (ν : Type) where
  value : ν
  first : Bool

def ExtSt.new : ExtSt ν := ⟨ofNat 0, true⟩
/-- `if f.first || val < f.value` -/
def ExtSt.minNum (s : ExtSt ν) (x : ν) : ExtSt ν := if s.first || lt x s.value then ⟨x, false⟩ else s
/-- `if f.first || val > f.value` -/
def ExtSt.maxNum (s : ExtSt ν) (x : ν) : ExtSt ν := if s.first || lt s.value x then ⟨x, false⟩ else s
def ExtSt.addMin (e : Env ν) (s : ExtSt ν) (v : Val ν) : ExtSt ν :=
  match toFloat e v with
  | none => s
  | some x => s.minNum x
def ExtSt.addMax (e : Env ν) (s : ExtSt ν) (v : Val ν) : ExtSt ν :=
  match toFloat e v with
  | none => s
  | some x => s.maxNum x
def ExtSt.result (s : ExtSt ν) : Val ν := if s.first then .null else .flt s.value

/-! ### count -/
def countAdd (n : Nat) (v : Val ν) : Nat := if v.isNull then n else n + 1
def countResult (n : Nat) : Val ν := .flt (ofNat n)

/-! ### the aggregators that keep the list of converted values
(`stddev`, `stddevs`, `var`, `vars`, `median`, `percentile`) -/
def numsAdd (e : Env ν) (l : List ν) (v : Val ν) : List ν :=
  match toFloat e v with
  | none => l
  | some x => l ++ [x]

/-- `sum := 0.0; for _, v := range values { sum += v }` -/
def sumSeq (l : List ν) : ν := l.foldl add (ofNat 0)
def mean (l : List ν) : ν := div (sumSeq l) (ofNat l.length)
/-- `variance += math.Pow(v-mean, 2)` (`math.Pow(x, 2)` is `x*x`) -/
def sqDev (m : ν) (acc v : ν) : ν := add acc (mul (sub v m) (sub v m))
def sqDevSum (l : List ν) (m : ν) : ν := l.foldl (sqDev m) (ofNat 0)

/-- StdDevAggregatorFunction.Result / StdDevSAggregatorFunction.Result (same formula, `n-1`) -/
def stddevResult (l : List ν) : ν :=
  if l.length < 2 then ofNat 0 else sqrt (div (sqDevSum l (mean l)) (ofNat (l.length - 1)))
/-- VarAggregatorFunction.Result -/
def varResult (l : List ν) : ν :=
  if l.length < 1 then ofNat 0 else div (sqDevSum l (mean l)) (ofNat l.length)
/-- VarSAggregatorFunction.Result -/
def varsResult (l : List ν) : ν :=
  if l.length < 2 then ofNat 0 else div (sqDevSum l (mean l)) (ofNat (l.length - 1))

/-- stands for `sort.Float64s` (any correct sort gives the same slice up to ties) -/
def insertSorted (x : ν) : List ν → List ν
  | [] => [x]
  | y :: ys => if sortLt x y then x :: y :: ys else y :: insertSorted x ys
def isort : List ν → List ν
  | [] => []
  | x :: xs => insertSorted x (isort xs)

def nthNum (l : List ν) (i : Nat) : ν := l.getD i (ofNat 0)

/-- the middle of a sorted slice: `sorted[mid]`, or the mean of `sorted[mid-1]`, `sorted[mid]` -/
def middle (s : List ν) : ν :=
  if s.length % 2 = 0 then div (add (nthNum s (s.length / 2 - 1)) (nthNum s (s.length / 2))) (ofNat 2)
  else nthNum s (s.length / 2)
def medianResult (l : List ν) : ν := if l.length = 0 then ofNat 0 else middle (isort l)

/-- `index := int(math.Floor(p * float64(n-1))); if index >= n { index = n-1 }` -/
def pctIndex (p : ν) (n : Nat) : Nat :=
  if floorNat (mul p (ofNat (n - 1))) ≥ n then n - 1 else floorNat (mul p (ofNat (n - 1)))
def percentileResult (p : ν) (l : List ν) : ν :=
  if l.length = 0 then ofNat 0 else nthNum (isort l) (pctIndex p l.length)

/-! ### first_value / last_value -/
structure FirstSt (ν : Type) where
  value : Val ν
  has : Bool

def FirstSt.new : FirstSt ν := ⟨.null, false⟩
def FirstSt.add (s : FirstSt ν) (v : Val ν) : FirstSt ν := if s.has then s else ⟨v, true⟩

/-! ### the aggregators that keep the list of raw values (`collect`, `nth_value`, `merge_agg`) -/
def anysAdd (l : List (Val ν)) (v : Val ν) : List (Val ν) := l ++ [v]

/-- NthValueFunction.Result: `if len(values) >= n && n > 0 { values[n-1] } else nil` -/
def nthResult (n : Nat) (l : List (Val ν)) : Val ν :=
  if l.length ≥ n ∧ n > 0 then l.getD (n - 1) .null else .null

def joinComma : List Str → Str
  | [] => []
  | [s] => s
  | s :: t :: rest => s ++ ',' :: joinComma (t :: rest)

/-- MergeAggFunction.Result -/
def mergeResult (e : Env ν) (l : List (Val ν)) : Val ν :=
  if l.length = 0 then .null else .str (joinComma (l.map (toStr e)))

/-! ### deduplicate -/
structure DedupSt (ν : Type) where
  seen : List Str
  values : List (Val ν)

def DedupSt.new : DedupSt ν := ⟨[], []⟩
def DedupSt.add (e : Env ν) (s : DedupSt ν) (v : Val ν) : DedupSt ν :=
  if s.seen.contains (keyOf e v) then s else ⟨s.seen ++ [keyOf e v], s.values ++ [v]⟩

/-! ### one type for all of them -/
inductive Kind where
  | count | sum | avg | min | max | stddev | stddevs | var | vars | median | percentile
  | firstValue | lastValue | nthValue | collect | dedup | mergeAgg
  deriving DecidableEq, Repr

/-- parameters fixed at construction (`Init`): percentile `p` (default 0.95), nth_value `n` (default 1) -/
structure Param (ν : Type) where
  p : ν
  n : Nat

inductive St (ν : Type) where
  | sum (s : SumSt ν)
  | avg (s : AvgSt ν)
  | min (s : ExtSt ν)
  | max (s : ExtSt ν)
  | count (n : Nat)
  | nums (k : Kind) (l : List ν)
  | first (s : FirstSt ν)
  | last (v : Val ν)
  | anys (k : Kind) (l : List (Val ν))
  | dedup (s : DedupSt ν)

/-- `New()` -/
def St.new : Kind → St ν
  | .sum => .sum SumSt.new
  | .avg => .avg AvgSt.new
  | .min => .min ExtSt.new
  | .max => .max ExtSt.new
  | .count => .count 0
  | .stddev => .nums .stddev []
  | .stddevs => .nums .stddevs []
  | .var => .nums .var []
  | .vars => .nums .vars []
  | .median => .nums .median []
  | .percentile => .nums .percentile []
  | .firstValue => .first FirstSt.new
  | .lastValue => .last .null
  | .nthValue => .anys .nthValue []
  | .collect => .anys .collect []
  | .mergeAgg => .anys .mergeAgg []
  | .dedup => .dedup DedupSt.new

/-- `Add(value)` -/
def St.add (e : Env ν) : St ν → Val ν → St ν
  | .sum s, v => .sum (s.add e v)
  | .avg s, v => .avg (s.add e v)
  | .min s, v => .min (s.addMin e v)
  | .max s, v => .max (s.addMax e v)
  | .count n, v => .count (countAdd n v)
  | .nums k l, v => .nums k (numsAdd e l v)
  | .first s, v => .first (s.add v)
  | .last _, v => .last v
  | .anys k l, v => .anys k (anysAdd l v)
  | .dedup s, v => .dedup (s.add e v)

def numsResult (prm : Param ν) : Kind → List ν → ν
  | .stddev, l => stddevResult l
  | .stddevs, l => stddevResult l
  | .var, l => varResult l
  | .vars, l => varsResult l
  | .median, l => medianResult l
  | .percentile, l => percentileResult prm.p l
  | _, _ => ofNat 0

def anysResult (e : Env ν) (prm : Param ν) : Kind → List (Val ν) → Res ν
  | .nthValue, l => .one (nthResult prm.n l)
  | .mergeAgg, l => .one (mergeResult e l)
  | _, l => .many l

/-- `Result()` -/
def St.result (e : Env ν) (prm : Param ν) : St ν → Res ν
  | .sum s => .one s.result
  | .avg s => .one s.result
  | .min s => .one s.result
  | .max s => .one s.result
  | .count n => .one (countResult n)
  | .nums k l => .one (.flt (numsResult prm k l))
  | .first s => .one s.value
  | .last v => .one v
  | .anys k l => anysResult e prm k l
  | .dedup s => .many s.values

/-- a whole run of one aggregator object: `New()`, then `Add` for each value, then `Result()` -/
def run (e : Env ν) (prm : Param ν) (k : Kind) (l : List (Val ν)) : Res ν :=
  (l.foldl (St.add e) (St.new k)).result e prm

end Agg
