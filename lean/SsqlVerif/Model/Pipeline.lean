/-
Model of the direct (non-aggregate, non-window) path of rulego/streamsql  — properties C05, C20.

Mirrors, one named definition per sub-decision of the Go code:
  utils/fieldpath/fieldpath.go   ParseFieldPath / parseComplexPart / parseBracketContent /
                                 GetNestedField / accessFieldPart / getArrayElement / getMapValue /
                                 getNestedFieldSimple / getFieldValue
  stream/processor_field.go      compileSimpleFieldInfo (splitFieldSpec, backticks, literal / call /
                                 nested classification), compileOutputNames (direct branch),
                                 processSimpleField, processExpressionField (literal expressions only;
                                 every other expression is an abstract `Env.exprEval`)
  stream/stream.go               applyWhereAndAnalytic (no analytic fields), projectDirectRow,
                                 processDirectDataSync
  stream/processor_data.go       processDirectData, expandUnnestResults (guard only), applyOrderBy guard
  stream/handler_result.go       sendResultNonBlocking / handleResultChannelBackpressure, callSinksAsync

Strings are byte lists (`List Char`, one `Char` per byte).  Rows are association lists; a key that is
absent is *missing* (`none`), a key bound to `Value.null` is SQL NULL.  Core Lean only.
-/
set_option autoImplicit false

namespace Pipe

abbrev Str := List Char

/-- JSON-like values a caller can put into a row (`map[string]any`, `[]any`, scalars, nil). -/
inductive Value where
  | null
  | int (i : Int)
  | float (bits : UInt64)
  | str (s : Str)
  | bool (b : Bool)
  | list (xs : List Value)
  | map (kvs : List (Str × Value))

abbrev Row := List (Str × Value)

/-! ### maps as association lists -/

/-- `m[k]` with the comma-ok result: `none` = key absent -/
def lookupKey (k : Str) : Row → Option Value
  | [] => none
  | (k', v) :: rest => if k' = k then some v else lookupKey k rest

/-- `m[k] = v` -/
def setKey (k : Str) (v : Value) : Row → Row
  | [] => [(k, v)]
  | (k', v') :: rest => if k' = k then (k, v) :: rest else (k', v') :: setKey k v rest

def hasKey (k : Str) (m : Row) : Bool := (lookupKey k m).isSome

def keysOf (m : Row) : List Str := m.map Prod.fst

/-! ### small string functions (Go `strings` package on bytes) -/

def consHead (c : Char) : List Str → List Str
  | [] => [[c]]
  | h :: t => (c :: h) :: t

/-- `strings.Split(s, string(sep))` for a one-byte separator -/
def splitChar (sep : Char) : Str → List Str
  | [] => [[]]
  | c :: cs => if c = sep then [] :: splitChar sep cs else consHead c (splitChar sep cs)

/-- text before the first `c` (whole string if there is none) -/
def takeUntil (c : Char) : Str → Str
  | [] => []
  | x :: xs => if x = c then [] else x :: takeUntil c xs

/-- text after the first `c`; `none` if `c` does not occur (`strings.Index = -1`) -/
def dropAfter (c : Char) : Str → Option Str
  | [] => none
  | x :: xs => if x = c then some xs else dropAfter c xs

def isAsciiSpace (c : Char) : Bool :=
  c = ' ' || c = '\t' || c = '\n' || c = '\r' || c = Char.ofNat 11 || c = Char.ofNat 12

def trimLeft : Str → Str
  | [] => []
  | c :: cs => if isAsciiSpace c then trimLeft cs else c :: cs

/-- `strings.TrimSpace` (ASCII white space) -/
def trimSpace (s : Str) : Str := (trimLeft (trimLeft s).reverse).reverse

/-- `len(s) ≥ 2 ∧ s[0] = q ∧ s[len-1] = q` -/
def wrappedIn (q : Char) (s : Str) : Bool :=
  decide (2 ≤ s.length) && s.head? == some q && s.getLast? == some q

/-- `s[1 : len(s)-1]` -/
def inner (s : Str) : Str := (s.drop 1).dropLast

/-! ### integers in bracket subscripts (`strconv.Atoi` / `strconv.Itoa`) -/

def natOfDigits (ds : Str) : Option Nat :=
  if ds ≠ [] ∧ ds.all Char.isDigit = true then some (Nat.ofDigitChars 10 ds 0) else none

def int64Bound : Nat := 9223372036854775808

/-- `strconv.Atoi`: optional sign, at least one decimal digit, result inside int64 -/
def atoi : Str → Option Int
  | '-' :: ds => (natOfDigits ds).bind fun n => if n ≤ int64Bound then some (-(n : Int)) else none
  | '+' :: ds => (natOfDigits ds).bind fun n => if n < int64Bound then some (n : Int) else none
  | ds => (natOfDigits ds).bind fun n => if n < int64Bound then some (n : Int) else none

/-- `strconv.Itoa` -/
def itoa (i : Int) : Str :=
  if i < 0 then '-' :: Nat.toDigits 10 (-i).toNat else Nat.toDigits 10 i.toNat

/-! ### fieldpath.ParseFieldPath -/

/-- `FieldPart`: `field` (Name), `array_index` (Index), `map_key` (Key, KeyType "string") -/
inductive Part where
  | field (name : Str)
  | index (i : Int)
  | key (k : Str)
  deriving DecidableEq, Repr

/-- how `ParseFieldPath` can fail; `sliceBounds` is the Go run-time panic of `content[1:len-1]` on a
one-byte content that is a single quote character -/
inductive PErr where
  | unmatched
  | invalid
  | sliceBounds
  deriving DecidableEq, Repr

def isQuoted (content : Str) : Bool :=
  (content.head? == some '\'' && content.getLast? == some '\'') ||
  (content.head? == some '"' && content.getLast? == some '"')

/-- `parseBracketContent` -/
def parseBracketContent (content0 : Str) : Except PErr Part :=
  if isQuoted (trimSpace content0) then
    (if (trimSpace content0).length < 2 then .error .sliceBounds else .ok (.key (inner (trimSpace content0))))
  else
    match atoi (trimSpace content0) with
    | some n => .ok (.index n)
    | none => .error .invalid

/-- the `for len(remaining) > 0 && HasPrefix(remaining, "[")` loop of `parseComplexPart`; every
iteration consumes at least two bytes, so `fuel = len(remaining)` is enough (`bracketLoop_fuel`). -/
def bracketLoop : Nat → Str → List Part → Except PErr (List Part)
  | 0, _, acc => .ok acc
  | fuel + 1, rem, acc =>
    match rem with
    | '[' :: rest =>
      match dropAfter ']' rest with
      | none => .error .unmatched
      | some after =>
        match parseBracketContent (takeUntil ']' rest) with
        | .error e => .error e
        | .ok p => bracketLoop fuel after (acc ++ [p])
    | _ => .ok acc

/-- the leading field name of a bracketed part (`part[:bracketIndex]`, only if non-empty) -/
def leadingField (part : Str) : List Part :=
  if takeUntil '[' part = [] then [] else [.field (takeUntil '[' part)]

/-- `parseComplexPart` (called only when the part contains `[`) -/
def parseComplexPart (part : Str) (acc : List Part) : Except PErr (List Part) :=
  bracketLoop part.length (part.drop (takeUntil '[' part).length) (acc ++ leadingField part)

def parsePart (part : Str) (acc : List Part) : Except PErr (List Part) :=
  if part = [] then .ok acc
  else if part.contains '[' then parseComplexPart part acc
  else .ok (acc ++ [.field part])

def parseParts : List Str → List Part → Except PErr (List Part)
  | [], acc => .ok acc
  | p :: ps, acc =>
    match parsePart p acc with
    | .error e => .error e
    | .ok acc' => parseParts ps acc'

/-- `ParseFieldPath` for a non-empty path -/
def parseFieldPath (path : Str) : Except PErr (List Part) :=
  parseParts (splitChar '.' path) []

/-! ### fieldpath.GetNestedField -/

/-- `getFieldValue` on the values a row can hold: only a map with string keys has fields -/
def fieldOf (v : Value) (name : Str) : Option Value :=
  match v with
  | .map kvs => lookupKey name kvs
  | _ => none

/-- Go: `if index < 0 { index = length + index }; if index < 0 || index >= length { not found }` -/
def wrapIndex (len : Nat) (i : Int) : Option Nat :=
  if 0 ≤ i then (if i.toNat < len then some i.toNat else none)
  else if 0 ≤ (len : Int) + i then some ((len : Int) + i).toNat
  else none

/-- `getArrayElement`: slices by (possibly negative) position, `map[string]any` by the decimal text -/
def elemOf (v : Value) (i : Int) : Option Value :=
  match v with
  | .list xs => (wrapIndex xs.length i).bind fun n => xs[n]?
  | .map kvs => lookupKey (itoa i) kvs
  | _ => none

/-- `getMapValue` with a string key -/
def keyOf (v : Value) (k : Str) : Option Value :=
  match v with
  | .map kvs => lookupKey k kvs
  | _ => none

/-- `accessFieldPart` (a nil datum has no parts: all three helpers answer `none` on `.null`) -/
def accessPart (v : Value) : Part → Option Value
  | .field n => fieldOf v n
  | .index i => elemOf v i
  | .key k => keyOf v k

def walkParts : Value → List Part → Option Value
  | v, [] => some v
  | v, p :: ps => (accessPart v p).bind fun v' => walkParts v' ps

/-- `getNestedFieldSimple`: plain dot access, no skipping of empty segments -/
def walkFields : Value → List Str → Option Value
  | v, [] => some v
  | v, f :: fs => (fieldOf v f).bind fun v' => walkFields v' fs

/-- `GetNestedField`: `.error ()` is the propagated run-time panic; `.ok none` = not found -/
def getNestedField (data : Value) (path : Str) : Except Unit (Option Value) :=
  if path = [] then .ok none
  else match parseFieldPath path with
    | .error .sliceBounds => .error ()
    | .error _ => .ok (walkFields data (splitChar '.' path))
    | .ok [] => .ok none
    | .ok parts => .ok (walkParts data parts)

/-! ### compileSimpleFieldInfo -/

def isQuoteChar (c : Char) : Bool := c = '\'' || c = '"' || c = '`'

/-- quote state after reading `c` (`q` = the open quote character, if any) -/
def quoteNext (q : Option Char) (c : Char) : Option Char :=
  match q with
  | some q' => if c = q' then none else some q'
  | none => if isQuoteChar c then some c else none

/-- `c` is the separator: a `:` outside quotes -/
def isCut (q : Option Char) (c : Char) : Bool := q.isNone && c = ':'

/-- `splitFieldSpec(spec)[0]`: the text before the first `:` outside quotes -/
def specBefore : Option Char → Str → Str
  | _, [] => []
  | q, c :: cs => if isCut q c then [] else c :: specBefore (quoteNext q c) cs

/-- `splitFieldSpec(spec)[1]` if there is a separator -/
def specAfter : Option Char → Str → Option Str
  | _, [] => none
  | q, c :: cs => if isCut q c then some cs else specAfter (quoteNext q c) cs

def stripBackticks (s : Str) : Str := if wrappedIn '`' s then inner s else s

structure FieldInfo where
  selectAll : Bool
  fieldName : Str
  outputName : Str
  isFunctionCall : Bool
  hasNested : Bool
  isLiteral : Bool
  literal : Str
  deriving DecidableEq, Repr

def specFieldName (spec : Str) : Str := stripBackticks (specBefore none spec)

def specOutputName (spec : Str) : Str :=
  match specAfter none spec with
  | some a => stripBackticks a
  | none => specFieldName spec

def isCall (name : Str) : Bool := name.contains '(' && name.contains ')'

def isNestedName (name : Str) : Bool := name.contains '.' || name.contains '['

def isLiteralName (name : Str) : Bool := wrappedIn '\'' name || wrappedIn '"' name

/-- `compileSimpleFieldInfo` (join-alias stripping of the output name does not apply: no JOIN, no FROM alias) -/
def compileField (spec : Str) : FieldInfo :=
  if spec = ['*'] then
    { selectAll := true, fieldName := [], outputName := ['*'], isFunctionCall := false,
      hasNested := false, isLiteral := false, literal := [] }
  else
    { selectAll := false, fieldName := specFieldName spec, outputName := specOutputName spec,
      isFunctionCall := isCall (specFieldName spec),
      hasNested := !isCall (specFieldName spec) && isNestedName (specFieldName spec),
      isLiteral := isLiteralName (specFieldName spec),
      literal := if isLiteralName (specFieldName spec) then inner (specFieldName spec) else [] }

/-! ### configuration handed to the stream (`types.Config`, the part the direct path reads) -/

/-- a SELECT item that went to `FieldExpressions`: a quoted literal, or anything else (opaque) -/
inductive FieldExpr where
  | lit (s : Str)
  | other (text : Str)
  deriving DecidableEq, Repr

structure Config where
  simpleFields : List Str
  fieldExprs : List (Str × FieldExpr)     -- Go map: keys pairwise distinct
  hasOrderBy : Bool := false
  hasUnnest : Bool := false

/-- what the model does not interpret: the WHERE predicate (`s.filter`, nil when there is no WHERE),
non-literal expressions, function-call items, the unnest expansion and the ORDER BY sorter -/
structure Env where
  whereP : Option (Row → Bool)
  exprEval : Str → Row → Value
  unnest : Row → List Row
  sortRows : List Row → List Row

/-- `FieldExpressions[name] = e` while the front end builds the map -/
def setExpr (n : Str) (e : FieldExpr) : List (Str × FieldExpr) → List (Str × FieldExpr)
  | [] => [(n, e)]
  | (n', e') :: rest => if n' = n then (n, e) :: rest else (n', e') :: setExpr n e rest

def isExprName (cfg : Config) (name : Str) : Bool := (cfg.fieldExprs.map Prod.fst).contains name

/-! ### compileOutputNames (direct branch): reject colliding output columns -/

def checkSimple (cfg : Config) : List FieldInfo → List Str → Except Str (List Str)
  | [], seen => .ok seen
  | fi :: rest, seen =>
    if fi.selectAll || isExprName cfg fi.outputName then checkSimple cfg rest seen
    else if seen.contains fi.outputName then .error fi.outputName
    else checkSimple cfg rest (fi.outputName :: seen)

def checkExprs : List Str → List Str → Except Str Unit
  | [], _ => .ok ()
  | n :: rest, seen => if seen.contains n then .error n else checkExprs rest (n :: seen)

/-- `.error name` = Execute fails with "ambiguous output column name" -/
def checkOutputNames (cfg : Config) : Except Str Unit :=
  match checkSimple cfg (cfg.simpleFields.map compileField) [] with
  | .error n => .error n
  | .ok seen => checkExprs (cfg.fieldExprs.map Prod.fst) seen

/-! ### projection -/

def evalFieldExpr (env : Env) (row : Row) : FieldExpr → Value
  | .lit s => .str s
  | .other t => env.exprEval t row

/-- `for fieldName := range FieldExpressions { processExpressionField }` -/
def projectExprs (env : Env) (row : Row) : List (Str × FieldExpr) → Row → Row
  | [], res => res
  | (n, e) :: rest, res => projectExprs env row rest (setKey n (evalFieldExpr env row e) res)

/-- `for k, v := range dataMap { if k is not an expression field { result[k] = v } }` -/
def copyAll (cfg : Config) : Row → Row → Row
  | [], res => res
  | (k, v) :: rest, res => copyAll cfg rest (if isExprName cfg k then res else setKey k v res)

/-- the value of an ordinary (non-literal, non-call) simple field: `exists ? value : nil` -/
def plainValue (fi : FieldInfo) (row : Row) : Except Unit Value :=
  if fi.hasNested then
    match getNestedField (.map row) fi.fieldName with
    | .error e => .error e
    | .ok v => .ok (v.getD .null)
  else .ok ((lookupKey fi.fieldName row).getD .null)

/-- `processSimpleField` -/
def processSimple (cfg : Config) (env : Env) (row : Row) (fi : FieldInfo) (res : Row) : Except Unit Row :=
  if fi.selectAll then .ok (copyAll cfg row res)
  else if isExprName cfg fi.outputName then .ok res
  else if fi.isLiteral then .ok (setKey fi.outputName (.str fi.literal) res)
  else if fi.isFunctionCall then .ok (setKey fi.outputName (env.exprEval fi.fieldName row) res)
  else match plainValue fi row with
    | .error e => .error e
    | .ok v => .ok (setKey fi.outputName v res)

def projectSimple (cfg : Config) (env : Env) (row : Row) : List FieldInfo → Row → Except Unit Row
  | [], res => .ok res
  | fi :: rest, res =>
    match processSimple cfg env row fi res with
    | .error e => .error e
    | .ok res' => projectSimple cfg env row rest res'

/-- `projectDirectRow` for a query without analytic fields -/
def projectDirectRow (cfg : Config) (env : Env) (row : Row) : Except Unit Row :=
  if cfg.simpleFields ≠ [] then
    projectSimple cfg env row (cfg.simpleFields.map compileField) (projectExprs env row cfg.fieldExprs [])
  else if cfg.fieldExprs = [] then .ok (copyAll cfg row [])
  else .ok (projectExprs env row cfg.fieldExprs [])

/-! ### the two direct pipelines -/

/-- `s.filter != nil && !s.filter.Evaluate(dataMap)` negated -/
def passesWhere (env : Env) (row : Row) : Bool :=
  match env.whereP with
  | none => true
  | some p => p row

/-- outcome of processing one row -/
inductive Outcome where
  | filtered
  | result (r : Row)
  | panic

/-- `processDirectDataSync`: what `EmitSync` returns (and hands to the sinks as a one-row batch) -/
def directSync (cfg : Config) (env : Env) (row : Row) : Outcome :=
  if passesWhere env row then
    match projectDirectRow cfg env row with
    | .ok r => .result r
    | .error _ => .panic
  else .filtered

/-- `expandUnnestResults`: the early return when the query has no unnest call -/
def expandUnnest (cfg : Config) (env : Env) (r : Row) : List Row :=
  if cfg.hasUnnest then env.unnest r else [r]

/-- `applyOrderBy` -/
def applyOrderBy (cfg : Config) (env : Env) (rs : List Row) : List Row :=
  if !cfg.hasOrderBy || rs.length < 2 then rs else env.sortRows rs

/-- `processDirectData`: the batches sent to the result channel and to the sinks for one input row
(a panic is recovered by `processItem`: nothing is sent) -/
def directAsync (cfg : Config) (env : Env) (row : Row) : List (List Row) :=
  if passesWhere env row then
    match projectDirectRow cfg env row with
    | .ok r => [applyOrderBy cfg env (expandUnnest cfg env r)]
    | .error _ => []
  else []

/-! ### delivery: input queue, single consumer, sync sinks in registration order, result channel -/

abbrev Batch := List Row

structure DState where
  inQ : List Row := []                     -- dataChan (FIFO)
  chan : List Batch := []                  -- resultChan (FIFO), at most `cap` entries
  sinkLog : List (Nat × Batch) := []       -- (sink number, batch) in invocation order
  received : List Batch := []              -- what the channel's reader has taken so far
  accepted : List Row := []                -- rows that entered `inQ`, in order (ghost)
  processed : List Row := []               -- rows the consumer has taken, in order (ghost)

structure DCfg where
  inCap : Nat          -- DataChannelSize
  chanCap : Nat        -- ResultChannelSize
  nSinks : Nat         -- number of registered synchronous sinks

inductive DOp where
  | emit (row : Row)             -- producer: `Emit` with the drop strategy (non-blocking send)
  | consume (dropOldest : Bool)  -- consumer goroutine: one `processItem`; the flag is the back-pressure
                                 -- branch taken when the result channel is full (usage > 90 % or not)
  | recv                         -- the reader of `ToChannel()` takes one batch

/-- `sendResultNonBlocking` + `handleResultChannelBackpressure` -/
def chanSend (cap : Nat) (dropOldest : Bool) (ch : List Batch) (b : Batch) : List Batch :=
  if ch.length < cap then ch ++ [b]
  else if dropOldest then (ch.drop 1 ++ [b]).take cap
  else ch

/-- `callSinksAsync` for synchronous sinks: each registered sink, in registration order -/
def sinkCalls (n : Nat) (b : Batch) : List (Nat × Batch) := (List.range n).map fun i => (i, b)

def deliver (dc : DCfg) (dropOldest : Bool) (s : DState) (b : Batch) : DState :=
  { s with chan := chanSend dc.chanCap dropOldest s.chan b, sinkLog := s.sinkLog ++ sinkCalls dc.nSinks b }

def deliverAll (dc : DCfg) (dropOldest : Bool) : DState → List Batch → DState
  | s, [] => s
  | s, b :: bs => deliverAll dc dropOldest (deliver dc dropOldest s b) bs

def dstep (cfg : Config) (env : Env) (dc : DCfg) (s : DState) : DOp → DState
  | .emit row =>
    if s.inQ.length < dc.inCap then { s with inQ := s.inQ ++ [row], accepted := s.accepted ++ [row] } else s
  | .consume d =>
    match s.inQ with
    | [] => s
    | row :: rest =>
      deliverAll dc d { s with inQ := rest, processed := s.processed ++ [row] } (directAsync cfg env row)
  | .recv =>
    match s.chan with
    | [] => s
    | b :: rest => { s with chan := rest, received := s.received ++ [b] }

def drun (cfg : Config) (env : Env) (dc : DCfg) : DState → List DOp → DState
  | s, [] => s
  | s, op :: ops => drun cfg env dc (dstep cfg env dc s op) ops

end Pipe
