/-
Model of `window/tumbling_window.go` (event time and processing time), one model op per
critical section / loop iteration (DESIGN §2.1, §2.5).
Core Lean only.
-/
import SsqlVerif.Model.Watermark
set_option autoImplicit false

namespace Tumbling
open Wm

structure Row where
  id : Nat
  ts : Int
  deriving DecidableEq, Repr

inductive Kind where | first | late
  deriving DecidableEq, Repr

structure Emission where
  kind  : Kind
  start : Int
  stop  : Int
  rows  : List Row
  deriving DecidableEq, Repr

/-- a triggered window still open for late data (`triggeredWindowInfo`) -/
structure Fired where
  start : Int
  close : Int          -- end + allowedLateness
  snap  : List Row
  deriving DecidableEq, Repr

structure TW where
  size     : Int
  lateness : Int := 0
  cur      : Option Int := none      -- currentSlot.Start (`none` = not initialised)
  data     : List Row := []
  fired    : List Fired := []        -- triggeredWindows
  wm       : Wm.Wm
  trigW    : Option Int := none      -- watermark value the trigger goroutine is working on
  doneW    : Option Int := none      -- ghost: watermark value of the last completed trigger pass
  deriving Repr

/-- `alignWindowStart`: Go's truncating division -/
def alignDown (t size : Int) : Int := (Int.tdiv t size) * size

/-- `TimeSlot.Contains` for the slot `[s, s+size)` -/
def inSlot (size s : Int) (r : Row) : Bool := decide (s ≤ r.ts) && decide (r.ts < s + size)

/-! ### Add (event time) -/

/-- slot after lazy initialisation -/
def curInit (s : TW) (r : Row) : Int :=
  match s.cur with
  | none => alignDown r.ts s.size
  | some c => c

/-- the watermark after this Add's `UpdateEventTime` -/
def wmAfter (s : TW) (r : Row) (now : Int) : Wm.Wm := updateEventTime s.wm r.ts now

def lateNow (s : TW) (r : Row) (now : Int) : Bool := isLate (wmAfter s r now) r.ts

/-- an on-time row that precedes the current slot re-seats the slot to its own aligned
interval (nothing can have fired yet in that situation, see `Proofs/Tumbling`) -/
def curAfterAdd (s : TW) (r : Row) (now : Int) : Int :=
  if lateNow s r now then curInit s r
  else if r.ts < curInit s r then alignDown r.ts s.size else curInit s r

/-- the window's allowance has not expired by the watermark `cur` -/
def stillOpen (cur : Option Int) (f : Fired) : Bool :=
  match cur with
  | none => true
  | some c => decide (c < f.close)

/-- the triggered window, still inside its allowance by the current watermark, a late row falls into -/
def findFired (s : TW) (r : Row) (now : Int) : Option Fired :=
  s.fired.find? (fun f => inSlot s.size f.start r && stillOpen (wmAfter s r now).cur f)

/-- what happens to the appended row -/
inductive Fate where
  | keep            -- buffered for a future first firing
  | lateUpdate (f : Fired)
  | drop
  deriving DecidableEq, Repr

def fate (s : TW) (r : Row) (now : Int) : Fate :=
  if lateNow s r now then
    if inSlot s.size (curInit s r) r then .keep
    else if 0 < s.lateness then
      match findFired s r now with
      | some f => .lateUpdate f
      | none => .drop
    else .drop
  else .keep

/-- `extractLateUpdateDataLocked` on the buffer that already holds the new row -/
def lateRows (s : TW) (f : Fired) (r : Row) : List Row :=
  f.snap ++ (s.data ++ [r]).filter (inSlot s.size f.start)

def lateData (s : TW) (f : Fired) (r : Row) : List Row :=
  (s.data ++ [r]).filter (fun x => !inSlot s.size f.start x)

def updFired (s : TW) (f : Fired) (r : Row) : List Fired :=
  s.fired.map (fun g => if g.start = f.start then { g with snap := lateRows s f r } else g)

def addData (s : TW) (r : Row) (now : Int) : List Row :=
  match fate s r now with
  | .keep => s.data ++ [r]
  | .lateUpdate f => lateData s f r
  | .drop => s.data

def addFired (s : TW) (r : Row) (now : Int) : List Fired :=
  match fate s r now with
  | .lateUpdate f => updFired s f r
  | _ => s.fired

def addEmit (s : TW) (r : Row) (now : Int) : List Emission :=
  match fate s r now with
  | .lateUpdate f => [{ kind := .late, start := f.start, stop := f.start + s.size, rows := lateRows s f r }]
  | _ => []

/-- `Add` with a usable timestamp -/
def stepAdd (s : TW) (r : Row) (now : Int) : TW × List Emission :=
  ({ s with wm := wmAfter s r now, cur := some (curAfterAdd s r now),
            data := addData s r now, fired := addFired s r now }, addEmit s r now)

/-! ### trigger goroutine -/

/-- receive one watermark from the channel (only when the goroutine is not inside the loop) -/
def stepPop (s : TW) : TW :=
  match s.trigW, Wm.pop s.wm with
  | none, some (w, wm') => { s with trigW := some w, wm := wm' }
  | _, _ => s

def slotRows (s : TW) (c : Int) : List Row := s.data.filter (inSlot s.size c)
def restRows (s : TW) (c : Int) : List Row := s.data.filter (fun r => !inSlot s.size c r)

def firedAfter (s : TW) (c : Int) : List Fired :=
  if 0 < s.lateness then s.fired ++ [{ start := c, close := c + s.size + s.lateness, snap := slotRows s c }]
  else s.fired

/-- one iteration of the `for tw.currentSlot != nil` loop for a slot the watermark has passed -/
def fireOrSkip (s : TW) (c : Int) : TW × List Emission :=
  if (slotRows s c).isEmpty then ({ s with cur := some (c + s.size) }, [])
  else ({ s with cur := some (c + s.size), data := restRows s c, fired := firedAfter s c },
        [{ kind := .first, start := c, stop := c + s.size, rows := slotRows s c }])

def expired (s : TW) (w : Int) : List Fired := s.fired.filter (fun f => decide (f.close ≤ w))

/-- `closeExpiredWindows` -/
def closeExpired (s : TW) (w : Int) : TW :=
  { s with fired := s.fired.filter (fun f => !decide (f.close ≤ w)),
           data := s.data.filter (fun r => !(expired s w).any (fun f => inSlot s.size f.start r)),
           trigW := none, doneW := some w }

/-- one loop iteration; when the loop is over, `closeExpiredWindows` runs and the goroutine
goes back to the channel -/
def stepIter (s : TW) : TW × List Emission :=
  match s.trigW, s.cur with
  | some w, some c => if c + s.size ≤ w then fireOrSkip s c else (closeExpired s w, [])
  | some _, none => ({ s with trigW := none }, [])      -- not initialised: return at once
  | none, _ => (s, [])

/-! ### processing time (`Trigger()` on the timer) -/

def ptAdd (s : TW) (r : Row) : TW :=
  { s with cur := some (curInit s r), data := s.data ++ [r] }

def ptTick (s : TW) : TW × List Emission :=
  match s.cur with
  | none => (s, [])
  | some c =>
    if (slotRows s c).isEmpty then
      ({ s with cur := some (c + s.size), data := s.data.filter (fun r => decide (c + s.size ≤ r.ts)) }, [])
    else
      ({ s with cur := some (c + s.size), data := s.data.filter (fun r => decide (c + s.size ≤ r.ts)) },
       [{ kind := .first, start := c, stop := c + s.size, rows := slotRows s c }])

/-! ### op language -/

inductive Op where
  | add (r : Row) (now : Int)        -- Add with a usable timestamp
  | addNoTs                          -- Add without a usable timestamp: dropped, nothing changes
  | tick (idle : Bool) (now : Int)   -- watermark ticker
  | pop                              -- trigger goroutine receives from the channel
  | iter                             -- one loop iteration of checkAndTriggerWindows
  deriving Repr

def step (s : TW) : Op → TW × List Emission
  | .add r now => stepAdd s r now
  | .addNoTs => (s, [])
  | .tick idle now => ({ s with wm := Wm.tick s.wm idle now }, [])
  | .pop => (stepPop s, [])
  | .iter => stepIter s

def run (s : TW) : List Op → TW × List Emission
  | [] => (s, [])
  | op :: ops => ((run (step s op).1 ops).1, (step s op).2 ++ (run (step s op).1 ops).2)

def init (size ooo lateness : Int) : TW := { size := size, lateness := lateness, wm := { maxOOO := ooo } }

end Tumbling
