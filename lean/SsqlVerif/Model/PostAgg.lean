/-
Model of the post-aggregation path of rulego/streamsql for one emitted batch (C07):

* `rsql/ast.go buildSelectFieldsWithExpressions / isComplexAggregationExpression /
  parseComplexAggExpressionInternal`: a SELECT item is either a *plain* aggregate call
  (its own aggregator, keyed by the alias) or a *compound* expression whose aggregate calls are
  replaced by placeholder columns (`template`, `placeholders`); `extractHavingAggregates`: the
  aggregate calls of HAVING become hidden columns (`havingCalls`, `templateP`).
* `aggregator/group_aggregator.go GetResults`: one row per group (`aggRow`);
  `aggregator/post_aggregation.go ProcessResults / evaluateExpression`: templates evaluated on
  that row, placeholder columns deleted (`postProcess`).
* `stream/processor_data.go processAggregationResults`: DISTINCT → HAVING (+ removal of the
  hidden columns) → ORDER BY → LIMIT (`pipeline`); `stream/sorter.go` (`cmpVal`, `lessBy`,
  `sortBy`).

The rewriting is modelled on an AST, not on text.  A placeholder / hidden column is identified
by the call it stands for (`Key.ph f a`, `Key.hv f a`); the Go code names it by a hash of the
call text resp. by a per-query sequence number — both name the calls of one query injectively
(for the hash this is an assumption) and the names never leave the pipeline.
Go result rows are maps; the model uses association lists whose order carries no meaning
(`get` finds the first binding; WF queries never bind a key twice with different values).
Numbers are abstract (`Num ν`): theorems hold for every interpretation, the driver uses binary64.
Core Lean only.
-/
set_option autoImplicit false

namespace PostAgg

abbrev Name := List Char

/-- the number operations the pipeline performs -/
structure Num (ν : Type) where
  zero : ν
  one  : ν
  add  : ν → ν → ν
  sub  : ν → ν → ν
  mul  : ν → ν → ν
  div  : ν → ν → ν
  lt   : ν → ν → Bool
  eq   : ν → ν → Bool          -- `==` of HAVING (IEEE equality in the driver)
  render : ν → List Char       -- fmt `%v`; reached only by ORDER BY over mixed-type keys

inductive Op | add | sub | mul | div
  deriving DecidableEq, Repr

inductive AggFn | sum | avg | min | max | count
  deriving DecidableEq, Repr

inductive Cmp | gt | ge | lt | le | eq | ne
  deriving DecidableEq, Repr

/-- row-level expression: the argument of an aggregate call -/
inductive Arg (ν : Type) where
  | col (c : Name)
  | star
  | lit (x : ν)
  | bin (o : Op) (l r : Arg ν)
  deriving DecidableEq, Repr

/-- expression over aggregates: SELECT item or HAVING operand (`ref` = output column, HAVING only) -/
inductive Expr (ν : Type) where
  | agg (f : AggFn) (a : Arg ν)
  | lit (x : ν)
  | bin (o : Op) (l r : Expr ν)
  | ref (n : Name)
  deriving DecidableEq, Repr

inductive Pred (ν : Type) where
  | cmp (c : Cmp) (l r : Expr ν)
  | and (p q : Pred ν)
  | or  (p q : Pred ν)
  deriving DecidableEq, Repr

inductive Val (ν : Type) where
  | num (x : ν)
  | str (s : Name)
  | bool (b : Bool)
  | null
  deriving DecidableEq, Repr

/-- column of a result row: an output column, a SELECT placeholder, a hidden HAVING column -/
inductive Key (ν : Type) where
  | col (n : Name)
  | ph (f : AggFn) (a : Arg ν)
  | hv (f : AggFn) (a : Arg ν)
  deriving DecidableEq, Repr

abbrev Row (ν : Type) := List (Key ν × Val ν)
/-- input event -/
abbrev InRow (ν : Type) := List (Name × Val ν)

structure Group (ν : Type) where
  key  : Val ν
  rows : List (InRow ν)

structure Query (ν : Type) where
  gcol     : Name
  items    : List (Name × Expr ν)
  having   : Option (Pred ν)
  orderBy  : List (Name × Bool)        -- (output column, descending?)
  limit    : Option Nat
  distinct : Bool

section
variable {ν : Type} (N : Num ν)

/-! ### values -/

def applyOp : Op → ν → ν → ν
  | .add => N.add | .sub => N.sub | .mul => N.mul | .div => N.div

/-- an operation with a missing/NULL operand has no value (expr-lang: evaluation error) -/
def bin2 (f : ν → ν → ν) : Option ν → Option ν → Option ν
  | some a, some b => some (f a b)
  | _, _ => none

def numOf : Option (Val ν) → Option ν
  | some (.num x) => some x
  | _ => none

/-- Go `nil` for "no value" -/
def optVal : Option ν → Val ν
  | some x => .num x
  | none => .null

def lookupIn : Name → InRow ν → Option (Val ν)
  | _, [] => none
  | n, (k, v) :: r => if k = n then some v else lookupIn n r

/-! ### aggregates of one group (definitions are C03's subject; only what C07's generator uses) -/

def argEval : Arg ν → InRow ν → Option ν
  | .col c, r => numOf (lookupIn c r)
  | .star, _ => some N.one
  | .lit x, _ => some x
  | .bin o l r, row => bin2 (applyOp N o) (argEval l row) (argEval r row)

def countOf (vals : List ν) : ν := vals.foldl (fun c _ => N.add c N.one) N.zero
def sumOf (vals : List ν) : ν := vals.foldl N.add N.zero
def minStep (m x : ν) : ν := if N.lt x m then x else m
def maxStep (m x : ν) : ν := if N.lt m x then x else m

def aggOfVals : AggFn → List ν → Option ν
  | .count, vals => some (countOf N vals)
  | _, [] => none
  | .sum, vals => some (sumOf N vals)
  | .avg, vals => some (N.div (sumOf N vals) (countOf N vals))
  | .min, v :: vals => some (vals.foldl (minStep N) v)
  | .max, v :: vals => some (vals.foldl (maxStep N) v)

/-- rows whose argument has no value are skipped (`continue` in `GroupAggregator.Add`) -/
def aggEval (f : AggFn) (a : Arg ν) (rows : List (InRow ν)) : Option ν :=
  aggOfVals N f (rows.filterMap (argEval N a))

/-! ### parse-time rewriting -/

/-- expression template: aggregate calls replaced by column references -/
inductive TExpr (ν : Type) where
  | key (k : Key ν)
  | lit (x : ν)
  | bin (o : Op) (l r : TExpr ν)

inductive TPred (ν : Type) where
  | cmp (c : Cmp) (l r : TExpr ν)
  | and (p q : TPred ν)
  | or  (p q : TPred ν)

/-- `parseComplexAggExpressionInternal`: SELECT-side template -/
def template : Expr ν → TExpr ν
  | .agg f a => .key (.ph f a)
  | .lit x => .lit x
  | .bin o l r => .bin o (template l) (template r)
  | .ref n => .key (.col n)

/-- the aggregate calls of an expression (`RequiredFields`) -/
def calls : Expr ν → List (AggFn × Arg ν)
  | .agg f a => [(f, a)]
  | .lit _ => []
  | .bin _ l r => calls l ++ calls r
  | .ref _ => []

/-- `extractHavingAggregates`: HAVING-side template -/
def templateH : Expr ν → TExpr ν
  | .agg f a => .key (.hv f a)
  | .lit x => .lit x
  | .bin o l r => .bin o (templateH l) (templateH r)
  | .ref n => .key (.col n)

def templateP : Pred ν → TPred ν
  | .cmp c l r => .cmp c (templateH l) (templateH r)
  | .and p q => .and (templateP p) (templateP q)
  | .or p q => .or (templateP p) (templateP q)

def predCalls : Pred ν → List (AggFn × Arg ν)
  | .cmp _ l r => calls l ++ calls r
  | .and p q => predCalls p ++ predCalls q
  | .or p q => predCalls p ++ predCalls q

def havingCalls : Option (Pred ν) → List (AggFn × Arg ν)
  | none => []
  | some p => predCalls p

/-- `isComplexAggregationExpression` (repaired): an item is plain iff it is one aggregate call -/
def isPlain : Expr ν → Bool
  | .agg _ _ => true
  | _ => false

/-! ### rows -/

variable [DecidableEq ν]

def get (k : Key ν) : Row ν → Option (Val ν)
  | [] => none
  | (k', v) :: r => if k' = k then some v else get k r

def aggCell (g : Group ν) (k : Key ν) (c : AggFn × Arg ν) : Key ν × Val ν :=
  (k, optVal (aggEval N c.1 c.2 g.rows))

/-- aggregator columns of one SELECT item: a plain call is computed under the alias; a compound
item has a `post_aggregation` placeholder aggregator (result `nil`) under the alias plus one
aggregator per call under the call's placeholder -/
def itemCells (g : Group ν) (it : Name × Expr ν) : Row ν :=
  match it.2 with
  | .agg f a => [aggCell N g (.col it.1) (f, a)]
  | e => (Key.col it.1, Val.null) :: (calls e).map (fun c => aggCell N g (.ph c.1 c.2) c)

/-- `GroupAggregator.GetResults` for one group -/
def aggRow (q : Query ν) (g : Group ν) : Row ν :=
  (Key.col q.gcol, g.key) :: (q.items.flatMap (itemCells N g) ++
    (havingCalls q.having).map (fun c => aggCell N g (.hv c.1 c.2) c))

def evalT : TExpr ν → Row ν → Option ν
  | .key k, r => numOf (get k r)
  | .lit x, _ => some x
  | .bin o l r, row => bin2 (applyOp N o) (evalT l row) (evalT r row)

/-- the post-aggregation expression registered for an output column, if any -/
def postExprFor : List (Name × Expr ν) → Key ν → Option (Expr ν)
  | [], _ => none
  | it :: its, k => if !isPlain it.2 && Key.col it.1 = k then some it.2 else postExprFor its k

def isPh : Key ν → Bool
  | .ph _ _ => true
  | _ => false

def isHv : Key ν → Bool
  | .hv _ _ => true
  | _ => false

def postCell (q : Query ν) (r : Row ν) (kv : Key ν × Val ν) : Key ν × Val ν :=
  match postExprFor q.items kv.1 with
  | some e => (kv.1, optVal (evalT N (template e) r))
  | none => kv

/-- `PostAggregationProcessor.ProcessResults` on one row: every compound item's template is
evaluated on the aggregator row (failure → `nil`), then the placeholder columns are deleted -/
def postProcess (q : Query ν) (r : Row ν) : Row ν :=
  (r.map (postCell N q r)).filter (fun kv => !isPh kv.1)

/-- the result row of a group as it enters `processAggregationResults` -/
def fullRow (q : Query ν) (g : Group ν) : Row ν := postProcess N q (aggRow N q g)

/-! ### HAVING on a result row (`applyHavingWithCondition`; expr-lang's behaviour for the
shapes involved: a comparison with a non-numeric/absent operand is an evaluation error, an
error makes the predicate false, `&&`/`||` short-circuit left to right) -/

def cmpNum : Cmp → ν → ν → Bool
  | .gt, x, y => N.lt y x
  | .ge, x, y => N.lt y x || N.eq x y
  | .lt, x, y => N.lt x y
  | .le, x, y => N.lt x y || N.eq x y
  | .eq, x, y => N.eq x y
  | .ne, x, y => !N.eq x y

def cmp2 (c : Cmp) : Option ν → Option ν → Option Bool
  | some x, some y => some (cmpNum N c x y)
  | _, _ => none

def and2 (a : Option Bool) (b : Option Bool) : Option Bool :=
  match a with
  | some true => b
  | some false => some false
  | none => none

def or2 (a : Option Bool) (b : Option Bool) : Option Bool :=
  match a with
  | some true => some true
  | some false => b
  | none => none

def evalTP : TPred ν → Row ν → Option Bool
  | .cmp c l r, row => cmp2 N c (evalT N l row) (evalT N r row)
  | .and p q, row => and2 (evalTP p row) (evalTP q row)
  | .or p q, row => or2 (evalTP p row) (evalTP q row)

def havingKeep (p : Pred ν) (r : Row ν) : Bool := evalTP N (templateP p) r == some true

def stripHidden (r : Row ν) : Row ν := r.filter (fun kv => !isHv kv.1)

/-- HAVING filter followed by the deletion of the `__having_N__` columns -/
def havingStage : Option (Pred ν) → List (Row ν) → List (Row ν)
  | none, rows => rows
  | some p, rows => (rows.filter (havingKeep N p)).map stripHidden

/-! ### DISTINCT (`applyDistinct`): first occurrence w.r.t. the rows seen so far -/

def distinctAux {α : Type} [DecidableEq α] : List α → List α → List α
  | _, [] => []
  | seen, x :: xs => if x ∈ seen then distinctAux seen xs else x :: distinctAux (x :: seen) xs

def distinctStage {α : Type} [DecidableEq α] (d : Bool) (rows : List α) : List α :=
  if d then distinctAux [] rows else rows

end

/-! ### ORDER BY (`stream/sorter.go`) -/
section
variable {ν : Type} (N : Num ν)

def cmpChars : List Char → List Char → Ordering
  | [], [] => .eq
  | [], _ :: _ => .lt
  | _ :: _, [] => .gt
  | a :: as, b :: bs => if a.toNat < b.toNat then .lt else if b.toNat < a.toNat then .gt else cmpChars as bs

def cmpBool : Bool → Bool → Ordering
  | false, true => .lt
  | true, false => .gt
  | _, _ => .eq

/-- `orderString` -/
def renderVal : Val ν → List Char
  | .num x => N.render x
  | .str s => s
  | .bool true => "true".toList
  | .bool false => "false".toList
  | .null => "<nil>".toList

def cmpNumOrd (x y : ν) : Ordering := if N.lt x y then .lt else if N.lt y x then .gt else .eq

/-- `compareOrderValues` for two present values -/
def cmpPresent : Val ν → Val ν → Ordering
  | .num x, .num y => cmpNumOrd N x y
  | .bool x, .bool y => cmpBool x y
  | a, b => cmpChars (renderVal N a) (renderVal N b)

/-- `compareOrderValues`: a missing key sorts first -/
def cmpVal : Option (Val ν) → Option (Val ν) → Ordering
  | none, none => .eq
  | none, some _ => .lt
  | some _, none => .gt
  | some a, some b => cmpPresent N a b

def dirLess (desc : Bool) : Ordering → Option Bool
  | .eq => none
  | .lt => some (!desc)
  | .gt => some desc

/-- `Sorter.less`, generic in the row representation -/
def lessBy {κ ρ : Type} (getv : κ → ρ → Option (Val ν)) : List (κ × Bool) → ρ → ρ → Bool
  | [], _, _ => false
  | (k, desc) :: ks, a, b =>
    match dirLess desc (cmpVal N (getv k a) (getv k b)) with
    | some r => r
    | none => lessBy getv ks a b

end

/-- stable insertion: `x` originally precedes every element of the (sorted) list -/
def insertBy {α : Type} (less : α → α → Bool) (x : α) : List α → List α
  | [] => [x]
  | y :: ys => if less y x then y :: insertBy less x ys else x :: y :: ys

/-- stable sort by a strict `less` (what `sort.SliceStable` computes when `less` is a strict weak order) -/
def sortBy {α : Type} (less : α → α → Bool) : List α → List α
  | [] => []
  | x :: xs => insertBy less x (sortBy less xs)

def applyLimit {α : Type} : Option Nat → List α → List α
  | none, l => l
  | some n, l => l.take n

section
variable {ν : Type} (N : Num ν) [DecidableEq ν]

def orderKeys (q : Query ν) : List (Key ν × Bool) := q.orderBy.map (fun kd => (Key.col kd.1, kd.2))

def rowLess (q : Query ν) : Row ν → Row ν → Bool := lessBy N get (orderKeys q)

/-- `applyOrderBy` / `Sorter.Sort`: no-op without keys or with fewer than two rows -/
def applyOrderBy (q : Query ν) (rows : List (Row ν)) : List (Row ν) :=
  if q.orderBy.isEmpty || rows.length < 2 then rows else sortBy (rowLess N q) rows

/-- `processAggregationResults` (LIMIT repaired: `LIMIT 0` keeps no row) -/
def pipeline (q : Query ν) (rows : List (Row ν)) : List (Row ν) :=
  applyLimit q.limit (applyOrderBy N q (havingStage N q.having (distinctStage q.distinct rows)))

/-- one emitted batch: the groups in the order the aggregator's map yields them -/
def run (q : Query ν) (gs : List (Group ν)) : List (Row ν) :=
  pipeline N q (gs.map (fullRow N q))

/-! ### what the sink sees, and which queries the theorems cover -/

/-- the output columns of a result row (`Key.col n` is the column named `n`) -/
def visible (r : Row ν) : List (Name × Val ν) :=
  r.filterMap (fun kv => match kv.1 with
    | .col n => some (n, kv.2)
    | _ => none)

/-- the row has no placeholder / hidden column -/
def allVisible (r : Row ν) : Bool :=
  r.all (fun kv => match kv.1 with
    | .col _ => true
    | _ => false)

def noRef : Expr ν → Bool
  | .ref _ => false
  | .bin _ l r => noRef l && noRef r
  | _ => true

def nodupNames : List Name → Bool
  | [] => true
  | n :: ns => !ns.contains n && nodupNames ns

/-- well-formed query: output column names pairwise different and different from the group
column; SELECT items do not reference output columns (only HAVING may) -/
def wf (q : Query ν) : Bool :=
  nodupNames (q.gcol :: q.items.map (·.1)) && q.items.all (fun it => noRef it.2)

/-! ### grouping of a batch (first-occurrence order; the real order is Go map order) -/

def addToGroups (gcol : Name) (r : InRow ν) : List (Group ν) → List (Group ν)
  | [] => [⟨(lookupIn gcol r).getD .null, [r]⟩]
  | g :: gs => if g.key = (lookupIn gcol r).getD .null then ⟨g.key, g.rows ++ [r]⟩ :: gs
               else g :: addToGroups gcol r gs

def groupBatch (gcol : Name) (batch : List (InRow ν)) : List (Group ν) :=
  batch.foldl (fun gs r => addToGroups gcol r gs) []

end
end PostAgg
