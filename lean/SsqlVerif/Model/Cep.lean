/-
C15 — model of `cep/engine.go`: one partition's NFA simulation (`step`, `advance`,
`ingestPending`, `emitGreedy`, `emitLazy`, `emitOne`, `skipTo`, `pruneSurvivors`,
`prunePending`, `Flush`) and the engine's partition table (`Process`, `getPartition`).

Modelled as repaired (see `fix:` commits of C15 in the repo worktree):
* arrival numbers are per partition (`Part.seq`), so `startSeq + nrows - 1` is the arrival
  number of a run's last row;
* greedy mode remembers every accepting successor in `pending` (not only runs that die or are
  complete), so an accepted prefix is not lost when its extensions fail later;
* `emitGreedy` emits a pending start only when no live run has an earlier or equal start.

DEFINE is a parameter `define : Sym → history → candidate row → Bool` (history = the rows
matched so far with their classification, oldest first), the ORDER BY field is `ts`.
Not modelled (guards, outside the property's "while the guards are not hit"): `maxRuns`,
`capPending`, partition LRU eviction, the wall-clock sweeper.  `maxRunRows` is modelled.
Go's `closure` returns its set in map order, so which of two equally long classifications of
the same rows survives in `pending` is not determined by the code; the model fixes discovery order.
Core Lean only.
-/
import SsqlVerif.Model.CepNfa
import SsqlVerif.Generated.Facts
set_option autoImplicit false

namespace Cep

/-- `types.DefaultMatchWithin` (nanoseconds) and `defaultMaxRunRows`, as the source has them now -/
def defaultWithin : Int := Facts.types_DefaultMatchWithin
def defaultMaxRunRows : Nat := Facts.cep_defaultMaxRunRows.toNat

/-- `NewEngine`: `if e.within <= 0 { e.within = types.DefaultMatchWithin }` -/
def effWithin (w : Int) : Int := if w ≤ 0 then defaultWithin else w

/-- what `NewEngine` fixes for the lifetime of an engine -/
structure Cfg (ρ : Type) where
  tbl : Tbl
  start : Nat
  lazy : Bool
  skip : Skip
  within : Int
  maxRunRows : Nat
  define : Sym → List (ρ × Sym) → ρ → Bool
  ts : ρ → Int

/-- Go `run`: `hist` is the materialised cons-list (oldest first), `nrows = hist.length` -/
structure Run (ρ : Type) where
  states : List Nat
  hist : List (ρ × Sym)
  startTs : Int
  startSeq : Nat

/-- one emitted match before MEASURES projection -/
structure Match (ρ : Type) where
  matchNo : Nat
  startSeq : Nat
  rows : List (ρ × Sym)

/-- Go `partition` (+ the per-partition arrival counter of the repair) -/
structure Part (ρ : Type) where
  runs : List (Run ρ) := []
  pending : List (Run ρ) := []
  matchNo : Nat := 0
  nextStart : Nat := 0
  seq : Nat := 0

section
variable {ρ : Type}

/-! ### `advance` -/

def succRun (c : Cfg ρ) (r : Run ρ) (row : ρ) (ao : Sym × Nat) : Run ρ :=
  { states := closure c.tbl ao.2, hist := r.hist ++ [(row, ao.1)], startTs := r.startTs, startSeq := r.startSeq }

/-- the match states of `r` whose DEFINE accepts `row` -/
def takers (c : Cfg ρ) (r : Run ρ) (row : ρ) : List (Sym × Nat) :=
  (matchOuts c.tbl r.states).filter fun ao => c.define ao.1 r.hist row

def advance (c : Cfg ρ) (r : Run ρ) (row : ρ) : List (Run ρ) := (takers c r row).map (succRun c r row)

/-! ### `step`, part 1 and 2: successors of the live runs and of the seed -/

/-- `withinOk(r, ts) && !(r.nrows > maxRunRows)` -/
def live (c : Cfg ρ) (ts : Int) (r : Run ρ) : Bool :=
  decide (ts - r.startTs ≤ c.within) && decide (r.hist.length ≤ c.maxRunRows)

def runComplete (c : Cfg ρ) (r : Run ρ) : Bool := isComplete c.tbl r.states
def runAccepting (c : Cfg ρ) (r : Run ρ) : Bool := hasAccept c.tbl r.states

/-- completions contributed by one run of `p.runs` -/
def runCompletions (c : Cfg ρ) (row : ρ) (ts : Int) (r : Run ρ) : List (Run ρ) :=
  if live c ts r then
    if (advance c r row).isEmpty then (if runAccepting c r then [r] else [])
    else (advance c r row).filter (runComplete c)
  else []

/-- survivors contributed by one run of `p.runs` -/
def runSurvivors (c : Cfg ρ) (row : ρ) (ts : Int) (r : Run ρ) : List (Run ρ) :=
  if live c ts r then (advance c r row).filter (fun s => !runComplete c s) else []

def seedRun (c : Cfg ρ) (ts : Int) (seq : Nat) : Run ρ :=
  { states := closure c.tbl c.start, hist := [], startTs := ts, startSeq := seq }

/-- `if seq >= p.nextStart { … advance(seed, row) … }` -/
def seedSucc (c : Cfg ρ) (nextStart : Nat) (row : ρ) (ts : Int) (seq : Nat) : List (Run ρ) :=
  if nextStart ≤ seq then advance c (seedRun c ts seq) row else []

def completionsOf (c : Cfg ρ) (p : Part ρ) (row : ρ) : List (Run ρ) :=
  p.runs.flatMap (runCompletions c row (c.ts row)) ++
    (seedSucc c p.nextStart row (c.ts row) (p.seq + 1)).filter (runComplete c)

def survivorsOf (c : Cfg ρ) (p : Part ρ) (row : ρ) : List (Run ρ) :=
  p.runs.flatMap (runSurvivors c row (c.ts row)) ++
    (seedSucc c p.nextStart row (c.ts row) (p.seq + 1)).filter (fun s => !runComplete c s)

/-! ### `skipTo`, `seqOfLabel` -/

def idxFirst (a : Sym) : List (ρ × Sym) → Option Nat
  | [] => none
  | x :: xs => if x.2 = a then some 0 else (idxFirst a xs).map (· + 1)

def idxLast (a : Sym) : List (ρ × Sym) → Option Nat
  | [] => none
  | x :: xs => match idxLast a xs with
    | some i => some (i + 1)
    | none => if x.2 = a then some 0 else none

/-- `seqOfLabel(...) + 1` when the label occurs, else `endSeq + 1` -/
def skipAfterLabel (r : Run ρ) : Option Nat → Nat
  | some i => r.startSeq + i + 1
  | none => r.startSeq + r.hist.length

def skipTo (c : Cfg ρ) (r : Run ρ) : Nat :=
  match c.skip with
  | .pastLast => r.startSeq + r.hist.length            -- endSeq + 1, endSeq = startSeq + nrows - 1
  | .nextRow => r.startSeq + 1
  | .toFirst none => r.startSeq + r.hist.length
  | .toFirst (some a) => skipAfterLabel r (idxFirst a r.hist)
  | .toLast none => r.startSeq + r.hist.length
  | .toLast (some a) => skipAfterLabel r (idxLast a r.hist)

/-! ### emission (`emitOne`, `emitGreedy`, `emitLazy`) -/

/-- the mutable part of a partition during one `step` / `Flush` -/
structure ES (ρ : Type) where
  pending : List (Run ρ)
  surv : List (Run ρ)
  matchNo : Nat
  nextStart : Nat

def mkMatch (s : ES ρ) (b : Run ρ) : Match ρ := { matchNo := s.matchNo + 1, startSeq := b.startSeq, rows := b.hist }

/-- `emitOne` (+ `delete(p.pending, s)` of `emitGreedy`) -/
def emitOne (c : Cfg ρ) (s : ES ρ) (b : Run ρ) : ES ρ :=
  { pending := s.pending.filter (fun x => x.startSeq != b.startSeq),
    surv := s.surv.filter (fun x => decide (skipTo c b ≤ x.startSeq)),     -- pruneSurvivors
    matchNo := s.matchNo + 1,
    nextStart := skipTo c b }

/-- prepend one emitted match to the result of the rest of an emission loop -/
def consMatch (m : Match ρ) (r : ES ρ × List (Match ρ)) : ES ρ × List (Match ρ) := (r.1, m :: r.2)

/-- `ingestPending`, one completion: keep the longest per `startSeq` (first wins ties) -/
def ingestOne (ns : Nat) (pend : List (Run ρ)) (x : Run ρ) : List (Run ρ) :=
  if x.startSeq < ns then pend
  else match pend.find? (fun y => y.startSeq == x.startSeq) with
    | none => pend ++ [x]
    | some cur =>
      if cur.hist.length < x.hist.length then pend.map (fun y => if y.startSeq == x.startSeq then x else y)
      else pend

def ingest (ns : Nat) (pend : List (Run ρ)) (cs : List (Run ρ)) : List (Run ρ) := cs.foldl (ingestOne ns) pend

/-- the pending entry with the smallest `startSeq ≥ ns` (`ready` sorted ascending, first usable) -/
def minStart (ns : Nat) : List (Run ρ) → Option (Run ρ)
  | [] => none
  | r :: rs =>
    match minStart ns rs with
    | none => if ns ≤ r.startSeq then some r else none
    | some b => if ns ≤ r.startSeq ∧ r.startSeq ≤ b.startSeq then some r else some b

/-- a live run with an earlier or equal start is still extending -/
def blocked (surv : List (Run ρ)) (s : Nat) : Bool := surv.any fun r => decide (r.startSeq ≤ s)

/-- the emission loop of `emitGreedy`, one emitted match per iteration -/
def emitGreedy (c : Cfg ρ) : Nat → ES ρ → ES ρ × List (Match ρ)
  | 0, s => (s, [])
  | f+1, s =>
    match minStart s.nextStart s.pending with
    | none => (s, [])
    | some b =>
      if blocked s.surv b.startSeq then (s, [])
      else consMatch (mkMatch s b) (emitGreedy c f (emitOne c s b))

/-- `prunePending` -/
def prunePending (s : ES ρ) : ES ρ := { s with pending := s.pending.filter fun x => decide (s.nextStart ≤ x.startSeq) }

/-- `sort.SliceStable` by (startSeq, nrows): stable insertion -/
def lazyLe (x y : Run ρ) : Bool :=
  decide (x.startSeq < y.startSeq) || (x.startSeq == y.startSeq && decide (x.hist.length ≤ y.hist.length))

def insertLazy (x : Run ρ) : List (Run ρ) → List (Run ρ)
  | [] => [x]
  | y :: ys => if lazyLe y x then y :: insertLazy x ys else x :: y :: ys

def sortLazy (cs : List (Run ρ)) : List (Run ρ) := cs.foldl (fun acc x => insertLazy x acc) []

/-- `emitLazy` over the sorted completions -/
def emitLazy (c : Cfg ρ) : List (Run ρ) → ES ρ → ES ρ × List (Match ρ)
  | [], s => (s, [])
  | x :: xs, s =>
    if x.startSeq < s.nextStart then emitLazy c xs s
    else consMatch (mkMatch s x) (emitLazy c xs (emitOne c s x))

/-! ### `step` and `Flush` for one partition -/

def greedyStart (c : Cfg ρ) (p : Part ρ) (row : ρ) : ES ρ :=
  { pending := ingest p.nextStart p.pending
      (completionsOf c p row ++ (survivorsOf c p row).filter (runAccepting c)),
    surv := survivorsOf c p row, matchNo := p.matchNo, nextStart := p.nextStart }

def lazyStart (c : Cfg ρ) (p : Part ρ) (row : ρ) : ES ρ :=
  { pending := p.pending, surv := survivorsOf c p row, matchNo := p.matchNo, nextStart := p.nextStart }

def emitStep (c : Cfg ρ) (p : Part ρ) (row : ρ) : ES ρ × List (Match ρ) :=
  if c.lazy then emitLazy c (sortLazy (completionsOf c p row)) (lazyStart c p row)
  else ((prunePending (emitGreedy c ((greedyStart c p row).pending.length + 1) (greedyStart c p row)).1),
        (emitGreedy c ((greedyStart c p row).pending.length + 1) (greedyStart c p row)).2)

def partOf (seq : Nat) (s : ES ρ) : Part ρ :=
  { runs := s.surv, pending := s.pending, matchNo := s.matchNo, nextStart := s.nextStart, seq := seq }

/-- `Process` restricted to the partition of the row -/
def stepPart (c : Cfg ρ) (p : Part ρ) (row : ρ) : Part ρ × List (Match ρ) :=
  (partOf (p.seq + 1) (emitStep c p row).1, (emitStep c p row).2)

def flushStart (c : Cfg ρ) (p : Part ρ) : ES ρ :=
  { pending := ingest p.nextStart p.pending (p.runs.filter (runAccepting c)),
    surv := [], matchNo := p.matchNo, nextStart := p.nextStart }

def emitFlush (c : Cfg ρ) (p : Part ρ) : ES ρ × List (Match ρ) :=
  if c.lazy then emitLazy c (sortLazy (p.runs.filter (runAccepting c)))
      { pending := p.pending, surv := [], matchNo := p.matchNo, nextStart := p.nextStart }
  else ((prunePending (emitGreedy c ((flushStart c p).pending.length + 1) (flushStart c p)).1),
        (emitGreedy c ((flushStart c p).pending.length + 1) (flushStart c p)).2)

/-- `Flush` for one partition: `p.runs` stays, the rest as after an emission -/
def flushPart (c : Cfg ρ) (p : Part ρ) : Part ρ × List (Match ρ) :=
  ({ runs := p.runs, pending := (emitFlush c p).1.pending, matchNo := (emitFlush c p).1.matchNo,
     nextStart := (emitFlush c p).1.nextStart, seq := p.seq }, (emitFlush c p).2)

/-! ### the engine: partition table -/

variable {κ : Type} [DecidableEq κ]

/-- partitions in first-seen order (Go: LRU list; the order only shows in the order in which
`Flush` lists partitions, which the harness canonicalises) -/
structure Engine (κ ρ : Type) where
  parts : List (κ × Part ρ) := []

def getPart (e : Engine κ ρ) (k : κ) : Part ρ :=
  match e.parts.find? (fun x => x.1 == k) with
  | some x => x.2
  | none => {}

def setPart (e : Engine κ ρ) (k : κ) (p : Part ρ) : Engine κ ρ :=
  if e.parts.any (fun x => x.1 == k) then { parts := e.parts.map fun x => if x.1 == k then (k, p) else x }
  else { parts := e.parts ++ [(k, p)] }

inductive Op (κ ρ : Type) where
  | row (k : κ) (r : ρ)
  | flush

def tagKey (k : κ) (ms : List (Match ρ)) : List (κ × Match ρ) := ms.map fun m => (k, m)

def consFlush (k : κ) (a : Part ρ × List (Match ρ)) (r : List (κ × Part ρ) × List (κ × Match ρ)) :
    List (κ × Part ρ) × List (κ × Match ρ) := ((k, a.1) :: r.1, tagKey k a.2 ++ r.2)

def flushAll (c : Cfg ρ) : List (κ × Part ρ) → List (κ × Part ρ) × List (κ × Match ρ)
  | [] => ([], [])
  | (k, p) :: rest =>
    consFlush k (flushPart c p) (flushAll c rest)

def step (c : Cfg ρ) (e : Engine κ ρ) : Op κ ρ → Engine κ ρ × List (κ × Match ρ)
  | .row k r => (setPart e k (stepPart c (getPart e k) r).1, tagKey k (stepPart c (getPart e k) r).2)
  | .flush => ({ parts := (flushAll c e.parts).1 }, (flushAll c e.parts).2)

def consOut (o : List (κ × Match ρ)) (r : Engine κ ρ × List (List (κ × Match ρ))) :
    Engine κ ρ × List (List (κ × Match ρ)) := (r.1, o :: r.2)

/-- run a whole history; outputs per op -/
def run (c : Cfg ρ) : Engine κ ρ → List (Op κ ρ) → Engine κ ρ × List (List (κ × Match ρ))
  | e, [] => (e, [])
  | e, op :: ops => consOut (step c e op).2 (run c (step c e op).1 ops)

end
end Cep
