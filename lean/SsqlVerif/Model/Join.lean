/-
Model of the stream-table JOIN of rulego/streamsql (C16):

* `stream/table_store.go encodeOne / encodeKey` — type-tagged key text: NULL `<nil>`; every numeric
  Go type is converted to float64, -0 becomes 0, text `n:` + `FormatFloat(f,'f',-1,64)`; strings
  `s:`+s; bools `b:true|false`.  The parts of a tuple are escaped and joined with 0x1f
  (`GroupKey.encJoin`, the repaired form); a single non-tuple key is the 1-tuple.
* `MemoryTableSource` (`Upsert`, `Delete`, `Lookup`, constructor) — `index` is a map from the encoded
  key to the row; each method is one critical section of the RWMutex = one model op.
* `stream/join.go enrichJoin` for one JOIN: stream key = the ON pairs' stream-side field values in
  order (missing field = nil), lookup, INNER drops a row without match, LEFT keeps it with an empty
  table row; `stream/stream.go JoinKeyFields`: the table is indexed by the ON pairs' table-side
  fields in the same order.

Numbers: the float64 values are an abstract type `F` with the conversion `ofInt` from integers and
the formatting `fmt` (Go runtime, trusted; `F` identifies -0 with 0 and has no NaN). The driver
instantiates `F` with bit patterns.  Core Lean only.
-/
import SsqlVerif.Model.GroupKey
set_option autoImplicit false

namespace Join
open GroupKey (Str encJoin)

/-- Go's number conversion and formatting, as far as `encodeOne` uses it -/
structure NumFmt (F : Type) where
  ofInt : Int → F
  fmt : F → Str

/-- a key component as it sits in a stream row / table row / explicit key -/
inductive KVal (F : Type) where
  | null
  | int (i : Int)
  | flt (f : F)
  | str (s : Str)
  | bool (b : Bool)
  deriving DecidableEq

section
variable {F : Type} (nf : NumFmt F)

/-- `numericKeyFloat` -/
def numOf : KVal F → Option F
  | .int i => some (nf.ofInt i)
  | .flt f => some f
  | _ => none

/-- `encodeOne` -/
def encodeOne : KVal F → Str
  | .null => ['<', 'n', 'i', 'l', '>']
  | .int i => 'n' :: ':' :: nf.fmt (nf.ofInt i)
  | .flt f => 'n' :: ':' :: nf.fmt f
  | .str s => 's' :: ':' :: s
  | .bool b => 'b' :: ':' :: GroupKey.boolStr b

/-- `encodeKey` on a tuple -/
def encodeKey (k : List (KVal F)) : Str := encJoin (k.map (encodeOne nf))

end

/-! ### the table -/
section Table
variable {σ ρ : Type} [DecidableEq σ]

/-- `index map[string]map[string]any` as an association list (a key occurs at most once) -/
abbrev Index (σ ρ : Type) := List (σ × ρ)

/-- `m.index[k]` -/
def lookup : Index σ ρ → σ → Option ρ
  | [], _ => none
  | e :: rest, k => if e.1 = k then some e.2 else lookup rest k

/-- `delete(m.index, k)` -/
def erase : Index σ ρ → σ → Index σ ρ
  | [], _ => []
  | e :: rest, k => if e.1 = k then erase rest k else e :: erase rest k

/-- `m.index[k] = row` -/
def upsert (t : Index σ ρ) (k : σ) (r : ρ) : Index σ ρ := (k, r) :: erase t k

end Table

/-! ### join processing -/

inductive JoinType where
  | inner
  | left
  deriving DecidableEq

/-- result of `enrichJoin` for one row and one JOIN: dropped, or kept with the matched table row
(`none` = LEFT JOIN without match: the alias maps to the empty row, all its columns are NULL) -/
inductive Enriched (ρ : Type) where
  | dropped
  | kept (tableRow : Option ρ)
  deriving DecidableEq

def enrich {ρ : Type} (jt : JoinType) (found : Option ρ) : Enriched ρ :=
  match found, jt with
  | some r, _ => .kept (some r)
  | none, .left => .kept none
  | none, .inner => .dropped

/-- ops of one stream with one registered table, each one critical section:
`UpsertTable` / `Delete` (returning = the op is over) and the processing of one emitted row -/
inductive Op (κ ρ : Type) where
  | upsert (key : κ) (row : ρ)     -- key = the row's key-field values (`encodeRow`)
  | delete (key : κ)
  | emit (key : κ)                 -- key = the stream row's ON-field values

/-- run a history; one output per `emit` -/
def run {κ σ ρ : Type} [DecidableEq σ] (enc : κ → σ) (jt : JoinType) :
    Index σ ρ → List (Op κ ρ) → List (Enriched ρ)
  | _, [] => []
  | t, .upsert k r :: ops => run enc jt (upsert t (enc k) r) ops
  | t, .delete k :: ops => run enc jt (erase t (enc k)) ops
  | t, .emit k :: ops => enrich jt (lookup t (enc k)) :: run enc jt t ops

/-- the table after a history -/
def tableAfter {κ σ ρ : Type} [DecidableEq σ] (enc : κ → σ) : Index σ ρ → List (Op κ ρ) → Index σ ρ
  | t, [] => t
  | t, .upsert k r :: ops => tableAfter enc (upsert t (enc k) r) ops
  | t, .delete k :: ops => tableAfter enc (erase t (enc k)) ops
  | t, .emit _ :: ops => tableAfter enc t ops

/-! ### ON pairs -/

/-- a row: field name ↦ value, absent fields read as NULL (`row[f]` on a Go map) -/
def fieldOf {F : Type} (row : List (Str × KVal F)) (f : Str) : KVal F :=
  match row.find? (fun e => e.1 == f) with
  | some e => e.2
  | none => .null

/-- stream-side key of a row / index key of a table row, in ON-pair order -/
def keyOf {F : Type} (fields : List Str) (row : List (Str × KVal F)) : List (KVal F) :=
  fields.map (fieldOf row)

end Join
