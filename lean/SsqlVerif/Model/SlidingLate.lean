/-
Extension of the sliding-window model (`Model/Sliding.lean`) with ALLOWEDLATENESS > 0:
triggered windows kept open with a snapshot, late updates, allowance expiry.
A late row re-delivers every open triggered window that contains it, in window order, and is
also kept for the current not-yet-triggered window when it lies inside it.
For ALLOWEDLATENESS = 0 the extension coincides with the base model (`Proofs/SlidingLate`).
Core Lean only.
-/
import SsqlVerif.Model.Sliding
set_option autoImplicit false

namespace SlidingLate
open Wm Tumbling Sliding

structure SWL where
  base     : SW
  lateness : Int := 0
  fired    : List Fired := []        -- triggeredWindows
  deriving Repr

/-- open triggered windows (allowance not expired by the watermark `cur`) that contain the row -/
def candidates (s : SWL) (r : Row) (cur : Option Int) : List Fired :=
  s.fired.filter (fun f => inSlot s.base.size f.start r && stillOpen cur f)

/-- rows of a late update: the snapshot, then the buffered rows of the interval not yet in it -/
def lateRows (s : SWL) (f : Fired) (r : Row) : List Row :=
  f.snap ++ ((s.base.data ++ [r]).filter (fun x => inSlot s.base.size f.start x && !f.snap.contains x))

/-- the triggered windows a late row re-delivers: every one that contains it and is still inside
its allowance by the current watermark, in window order (the list is kept in firing order) -/
def lateTargets (s : SWL) (r : Row) (now : Int) : List Fired :=
  if Sliding.lateNow s.base r now && decide (0 < s.lateness) then
    candidates s r (Sliding.wmAfter s.base r now).cur
  else []

def isTarget (ts : List Fired) (g : Fired) : Bool := ts.any (fun f => f.start = g.start)

def updFired (s : SWL) (ts : List Fired) (r : Row) : List Fired :=
  s.fired.map (fun g => if isTarget ts g then { g with snap := lateRows s g r } else g)

/-- the base state after an Add: the base model's step (kept when on time or inside the current
slot, dropped otherwise) — except that a late row that re-delivered a triggered window stays in
the buffer although it is not an accepted row of any pending window -/
def addBase (s : SWL) (r : Row) (now : Int) : SW :=
  if (lateTargets s r now).isEmpty || Sliding.kept s.base r now then Sliding.stepAdd s.base r now
  else { s.base with wm := Sliding.wmAfter s.base r now, cur := some (Sliding.curInit s.base r),
                     data := s.base.data ++ [r] }

def stepAdd (s : SWL) (r : Row) (now : Int) (_hint : Option Int := none) : SWL × List Emission :=
  ({ s with base := addBase s r now, fired := updFired s (lateTargets s r now) r },
   (lateTargets s r now).map (fun f =>
      { kind := .late, start := f.start, stop := f.start + s.base.size, rows := lateRows s f r }))

def register (s : SWL) (es : List Emission) : List Fired :=
  if 0 < s.lateness then
    s.fired ++ es.map (fun e => { start := e.start, close := e.stop + s.lateness, snap := e.rows })
  else s.fired

/-- one trigger-loop iteration; a fired window is registered (with its snapshot) before the lock
is released for the delivery; at the end of the pass expired entries are dropped -/
def stepIter (s : SWL) : SWL × List Emission :=
  match s.base.trigW, s.base.cur with
  | some w, some c =>
    if c + s.base.size ≤ w then
      ({ s with base := (Sliding.fireOrSkip s.base c).1, fired := register s (Sliding.fireOrSkip s.base c).2 },
       (Sliding.fireOrSkip s.base c).2)
    else
      ({ s with base := (Sliding.stepIter s.base).1, fired := s.fired.filter (fun f => !decide (f.close ≤ w)) }, [])
  | _, _ => ({ s with base := (Sliding.stepIter s.base).1 }, [])

def stepPop (s : SWL) : SWL := { s with base := Sliding.stepPop s.base }
def tick (s : SWL) (idle : Bool) (now : Int) : SWL := { s with base := { s.base with wm := Wm.tick s.base.wm idle now } }

def init (size slide ooo lateness : Int) : SWL := { base := Sliding.init size slide ooo, lateness := lateness }

end SlidingLate
