/-
C06 — decidable predicates on the *input* (expression shape, expression × row) that delimit the
fragments the theorems of `Props/C06` speak about.  Their negations are the classes the driver
prints in the `class` line.  Core Lean only.
-/
import SsqlVerif.Spec.Expr
set_option autoImplicit false

namespace Ex

/-- the expression is a condition (its value is a truth value), looking through parentheses and
CASE arms -/
def boolTyped : Expr → Bool
  | .cmp _ _ _ => true
  | .and _ _ => true
  | .or _ _ => true
  | .not _ => true
  | .paren e => boolTyped e
  | .caseS ch => boolTyped ch
  | .caseV _ ch => boolTyped ch
  | .whenL _ r rest => boolTyped r || boolTyped rest
  | .elseL e => boolTyped e
  | _ => false

/-- the expression may stand where a condition is expected: a comparison, a connective, a column,
a call — not a literal, arithmetic or a CASE -/
def boolShaped : Expr → Bool
  | .cmp _ _ _ => true
  | .and _ _ => true
  | .or _ _ => true
  | .not _ => true
  | .col _ => true
  | .call1 _ _ => true
  | .call2 _ _ _ => true
  | .call3 _ _ _ _ => true
  | .paren e => boolShaped e
  | _ => false

inductive Kind where | e | chS | chV deriving DecidableEq, Repr

/-- well-formed and sort-correct: operands of arithmetic / comparison / calls / simple-CASE values are
value expressions, operands of AND/OR and searched-CASE conditions are condition-shaped, chains
only occur under their CASE. -/
def shapeOK : Expr → Kind → Bool
  | .lit _, .e => true
  | .str _, .e => true
  | .col _, .e => true
  | .paren e, .e => shapeOK e .e
  | .neg e, .e => shapeOK e .e && !boolTyped e
  | .arith _ l r, .e => shapeOK l .e && shapeOK r .e && !boolTyped l && !boolTyped r
  | .cmp _ l r, .e => shapeOK l .e && shapeOK r .e && !boolTyped l && !boolTyped r
  | .and l r, .e => shapeOK l .e && shapeOK r .e && boolShaped l && boolShaped r
  | .or l r, .e => shapeOK l .e && shapeOK r .e && boolShaped l && boolShaped r
  | .not e, .e => shapeOK e .e && boolShaped e
  | .caseS ch, .e => shapeOK ch .chS
  | .caseV sc ch, .e => shapeOK sc .e && !boolTyped sc && shapeOK ch .chV
  | .call1 _ a, .e => shapeOK a .e && !boolTyped a
  | .call2 _ a b, .e => shapeOK a .e && shapeOK b .e && !boolTyped a && !boolTyped b
  | .call3 _ a b c, .e => shapeOK a .e && shapeOK b .e && shapeOK c .e && !boolTyped a && !boolTyped b && !boolTyped c
  | .whenL c r rest, .chS => shapeOK c .e && boolShaped c && shapeOK r .e && shapeOK rest .chS
  | .elseL e, .chS => shapeOK e .e
  | .endL, .chS => true
  | .whenL c r rest, .chV => shapeOK c .e && !boolTyped c && shapeOK r .e && shapeOK rest .chV
  | .elseL e, .chV => shapeOK e .e
  | .endL, .chV => true
  | _, _ => false

/-- no CASE anywhere (expr-lang has no CASE) -/
def noCase : Expr → Bool
  | .lit _ => true
  | .str _ => true
  | .col _ => true
  | .paren e => noCase e
  | .neg e => noCase e
  | .arith _ l r => noCase l && noCase r
  | .cmp _ l r => noCase l && noCase r
  | .and l r => noCase l && noCase r
  | .or l r => noCase l && noCase r
  | .not e => noCase e
  | .call1 _ a => noCase a
  | .call2 _ a b => noCase a && noCase b
  | .call3 _ a b c => noCase a && noCase b && noCase c
  | _ => false

section
variable {ν : Type} [NumOps ν]

/-- the SQL value of `e` on this row is defined and not NULL -/
def nonNull (env : Env ν) (row : Row ν) (e : Expr) : Bool :=
  match sqlEval env row e .e with
  | .ok .null => false
  | .ok _ => true
  | .bad _ => false

/-- no sub-expression is NULL on this row (columns present and non-NULL, no function returns NULL, …) -/
def allNonNull (env : Env ν) (row : Row ν) : Expr → Bool
  | .lit _ => true
  | .str _ => true
  | .col c => nonNull env row (.col c)
  | .paren e => allNonNull env row e
  | .neg e => allNonNull env row e && nonNull env row (.neg e)
  | .arith op l r => allNonNull env row l && allNonNull env row r && nonNull env row (.arith op l r)
  | .cmp op l r => allNonNull env row l && allNonNull env row r && nonNull env row (.cmp op l r)
  | .and l r => allNonNull env row l && allNonNull env row r && nonNull env row (.and l r)
  | .or l r => allNonNull env row l && allNonNull env row r && nonNull env row (.or l r)
  | .not e => allNonNull env row e && nonNull env row (.not e)
  | .call1 f a => allNonNull env row a && nonNull env row (.call1 f a)
  | .call2 f a b => allNonNull env row a && allNonNull env row b && nonNull env row (.call2 f a b)
  | .call3 f a b c => allNonNull env row a && allNonNull env row b && allNonNull env row c && nonNull env row (.call3 f a b c)
  | _ => false

end
end Ex
