/-
C12 — the general evaluator: a *table* of what the third-party expr-lang VM (v1.17.8, options of
`condition.NewExprCondition`: `AllowUndefinedVariables`, `AsBool`) answers for `field OP literal`
comparisons and `&&`/`||` combinations of them. expr-lang is not modelled beyond this table; the
table is validated by the correspondence check only (the harness evaluates the parenthesised twin
`(…)`, which no shortcut recognises, and the compiled program directly).

What the table records (`vm/runtime/helpers[generated].go`, `vm/vm.go`):
* a map environment yields `nil` for an absent key, so *missing* and *NULL* behave alike;
* `==`: integer/integer pairs compare as `int(x) == int(y)` (a `uint64` from 2^63 on wraps),
  any pair with a float compares as `float64(x) == float64(y)`, string/string compares bytes,
  every other pair falls to `reflect.DeepEqual` and is `false`; `!=` is its negation;
* `<`,`<=`,`>`,`>=`: the same numeric and string pairs; every other pair panics inside the VM,
  `expr.Run` returns an error;
* `a && b`, `a || b` evaluate left to right and short-circuit; an error aborts the evaluation.
Core Lean only.
-/
import SsqlVerif.Model.CondVal
set_option autoImplicit false

namespace Cond

/-- outcome of `expr.Run` on a predicate -/
inductive Res where
  | ok (b : Bool)
  | err
  deriving DecidableEq, Repr

/-- `condition.go:86-90`: an evaluation error rejects the row -/
def Res.decision : Res → Bool
  | .ok b => b
  | .err => false

/-- a pair of operands no comparison helper has a case for -/
def mismatch (op : Op) : Res :=
  match op with
  | .eq => .ok false
  | .ne => .ok true
  | _ => .err

/-- integer value against a literal -/
def generalInt (x : IntV) (op : Op) (lit : Lit) : Res :=
  match lit with
  | .int n => .ok (compareInt x.asGoInt op n)
  | .flt y => .ok (compareNum (F64.ofInt x.val) op y)
  | .str _ => mismatch op

/-- float value against a literal -/
def generalFlt (x : F64) (op : Op) (lit : Lit) : Res :=
  match lit with
  | .int n => .ok (compareNum x op (F64.ofInt n))
  | .flt y => .ok (compareNum x op y)
  | .str _ => mismatch op

def generalStr (s : Str) (op : Op) (lit : Lit) : Res :=
  match lit with
  | .str t => .ok (compareStr s op t)
  | _ => mismatch op

/-- `value OP literal` in the VM; `none` = the key is absent -/
def generalVal (v : Option Val) (op : Op) (lit : Lit) : Res :=
  match v with
  | some (.int x) => generalInt x op lit
  | some (.flt _ x) => generalFlt x op lit
  | some (.str s) => generalStr s op lit
  | _ => mismatch op          -- nil, missing, bool, slices, maps

def generalCmp (c : Cmp) (row : Row) : Res := generalVal (row.get c.field) c.op c.lit

/-- the predicates of C12's quantifier as expr-lang parses them; `paren` records a pair of
parentheses in the text (the parenthesised twin `(p)` that forces the general path) — it leaves
no trace in the compiled program -/
inductive Pred where
  | cmp (c : Cmp)
  | and (a b : Pred)
  | or (a b : Pred)
  | paren (p : Pred)
  deriving DecidableEq

/-- `a && b` given both outcomes (`b`'s is only looked at when `a` is `true`) -/
def Res.and : Res → Res → Res
  | .err, _ => .err
  | .ok false, _ => .ok false
  | .ok true, r => r

def Res.or : Res → Res → Res
  | .err, _ => .err
  | .ok true, _ => .ok true
  | .ok false, r => r

def generalEval : Pred → Row → Res
  | .cmp c, row => generalCmp c row
  | .and a b, row => Res.and (generalEval a row) (generalEval b row)
  | .or a b, row => Res.or (generalEval a row) (generalEval b row)
  | .paren p, row => generalEval p row

/-- `c₀ && c₁ && …` is left-associative in expr-lang -/
def chainFrom (isAnd : Bool) (acc : Pred) : List Cmp → Pred
  | [] => acc
  | c :: cs => chainFrom isAnd (if isAnd then .and acc (.cmp c) else .or acc (.cmp c)) cs

/-- the parse of a flat chain; `none` for the empty list (no such text) -/
def chainPred (isAnd : Bool) : List Cmp → Option Pred
  | [] => none
  | c :: cs => some (chainFrom isAnd (.cmp c) cs)

end Cond
