/-
Model of `window/watermark.go` (shared by the tumbling, sliding and session models).
Time is `Int` nanoseconds since the Unix epoch.  Go's zero `time.Time` (year 1) is `none`;
every modelled timestamp lies after it, so `x.After(zero)` is `true`.
`now` (wall clock) only feeds the far-future guard and the idle rule; it is an explicit argument.
Core Lean only.
-/
set_option autoImplicit false

namespace Wm

structure Wm where
  maxOOO   : Int                 -- maxOutOfOrderness
  cur      : Option Int := none  -- currentWatermark
  maxEv    : Option Int := none  -- maxEventTime
  lastSent : Option Int := none  -- lastSentWatermark
  chan     : List Int := []      -- watermarkChan (FIFO, capacity `cap`)
  cap      : Nat := 100
  slack    : Int := 86400000000000   -- maxFutureSlack
  deriving Repr

/-- `x.After(o)` with `o = none` the zero time -/
def after (x : Int) (o : Option Int) : Bool :=
  match o with
  | none => true
  | some y => decide (y < x)

/-- monotone raise of the current watermark -/
def raise (cur : Option Int) (nw : Int) : Option Int :=
  if after nw cur then some nw else cur

/-- `sendWatermarkLocked`: deliver `cur` if higher than the last delivered value and the
channel has room; a full channel leaves `lastSent` stale so the next call retries -/
def send (w : Wm) : Wm :=
  match w.cur with
  | none => w
  | some c =>
    if after c w.lastSent then
      if w.chan.length < w.cap then { w with chan := w.chan ++ [c], lastSent := some c } else w
    else w

/-- far-future guard of `UpdateEventTime` -/
def tooFar (w : Wm) (ts now : Int) : Bool := decide (now + w.maxOOO + w.slack < ts)

def bumpMax (w : Wm) (ts : Int) : Wm :=
  if after ts w.maxEv then { w with maxEv := some ts, cur := raise w.cur (ts - w.maxOOO) } else w

/-- `UpdateEventTime` -/
def updateEventTime (w : Wm) (ts now : Int) : Wm :=
  if tooFar w ts now then w else send (bumpMax w ts)

/-- `update()` (ticker): `idle` = idle timeout configured and elapsed -/
def tick (w : Wm) (idle : Bool) (now : Int) : Wm :=
  match w.maxEv with
  | none => w
  | some m => send { w with cur := raise w.cur (if idle then now - w.maxOOO else m - w.maxOOO) }

/-- `IsEventTimeLate` -/
def isLate (w : Wm) (ts : Int) : Bool :=
  match w.cur with
  | none => false
  | some c => decide (ts < c)

/-- the trigger goroutine receives one value -/
def pop (w : Wm) : Option (Int × Wm) :=
  match w.chan with
  | [] => none
  | x :: rest => some (x, { w with chan := rest })

end Wm
