/-
C03 — model of `aggregator.GroupAggregator` (`aggregator/group_aggregator.go`):
`Add` (:180, the per-field dispatch :248-372), `GetResults` (:374), `Reset` (:379 in the pinned
tree), and of the batch loop `stream/processor_data.go processWindowBatch` (:395-417:
Add every row of the batch, GetResults, Reset).

One critical section (`ga.mu`) = one op: `add row`, `getResults`, `reset`.

Modelled as it is *after* the repair `fix: NULL results of an expression argument are skipped
like NULL columns`: the Go code before the repair handed a `nil` expression result to every
aggregator (`collect(x*y)` collected NULLs, `nth_value`, `deduplicate`, `merge_agg` likewise).

Not modelled: the `ga.context` lookup for a missing field (only `window_start` / `window_end`
implement `ContextAggregator`; they are not among the aggregates of C03), struct rows
(rows are `map[string]any`), nested *group* fields.  The group key is a parameter `keyOf`
(its encoding is the subject of C04); groups are kept in first-appearance order, the Go map
order is canonicalised away by the harness (sorted by key).
Core Lean only.
-/
import SsqlVerif.Model.Agg
set_option autoImplicit false

namespace GroupAgg
open Agg

variable {ν : Type} [NumOps ν]

/-- a row `map[string]any`: a key that does not occur is *missing* -/
abbrev Row (ν : Type) := List (Str × Val ν)

def lookup (name : Str) : Row ν → Option (Val ν)
  | [] => none
  | (k, v) :: rest => if k = name then some v else lookup name rest

/-- result of a registered expression evaluator (`evaluateFunc`): error, or a value (maybe NULL) -/
abbrev Eval (ν : Type) := Row ν → Option (Val ν)

/-- the argument of an aggregate: `count(*)`, a bare column, or a registered expression -/
inductive Input (ν : Type) where
  | star
  | col (name : Str)
  | expr (f : Eval ν)

structure Field (ν : Type) where
  alias : Str
  kind : Kind
  prm : Param ν
  input : Input ν

/-- `shouldAllowNullValues` (:174) -/
def allowsNull : Kind → Bool
  | .firstValue => true
  | .lastValue => true
  | _ => false

/-- `isNumericAggregator` (:108) restricted to the aggregates of C03 (tied by `facts_numeric_names`) -/
def isNumeric : Kind → Bool
  | .sum | .avg | .min | .max | .count | .stddev | .stddevs | .var | .vars | .median | .percentile => true
  | _ => false

/-- bare column, value present and not skipped: `Count` takes it as it is, numeric aggregates take
`cast.ToFloat64E` of it (conversion error ⇒ skipped), the others take it as it is (:341-369) -/
def coerce (e : Env ν) (k : Kind) (v : Val ν) : Option (Val ν) :=
  if k = .count then some v
  else if isNumeric k then (toFloat e v).map .flt
  else some v

/-- NULL is skipped except for first_value / last_value (:336) -/
def nullGate (k : Kind) (v : Val ν) : Option (Val ν) :=
  if v.isNull && !allowsNull k then none else some v

def colInput (e : Env ν) (k : Kind) (cell : Option (Val ν)) : Option (Val ν) :=
  match cell with
  | none => none                                   -- missing: (context lookup, then) `continue`
  | some v => (nullGate k v).bind (coerce e k)

def exprInput (k : Kind) (r : Option (Val ν)) : Option (Val ν) :=
  match r with
  | none => none                                   -- evaluator error: `continue`
  | some v => nullGate k v

/-- what `Add` hands to the field's aggregator for this row (`none`: nothing) -/
def dispatch (e : Env ν) (f : Field ν) (row : Row ν) : Option (Val ν) :=
  match f.input with
  | .star => some (.int 1)
  | .col name => colInput e f.kind (lookup name row)
  | .expr ev => exprInput f.kind (ev row)

def stepField (e : Env ν) (row : Row ν) (f : Field ν) (st : St ν) : St ν :=
  match dispatch e f row with
  | none => st
  | some v => st.add e v

/-- static configuration of one `GroupAggregator` -/
structure Cfg (ν κ : Type) where
  env : Env ν
  fields : List (Field ν)
  keyOf : Row ν → κ

/-- accumulators of one group, positionally one per field -/
def stepGroup (e : Env ν) (row : Row ν) : List (Field ν) → List (St ν) → List (St ν)
  | f :: fs, st :: sts => stepField e row f st :: stepGroup e row fs sts
  | _, _ => []

def newGroup (fields : List (Field ν)) : List (St ν) := fields.map fun f => St.new f.kind

/-- state: `ga.groups` (with `ga.groupKeyVals` folded into the key) in first-appearance order -/
abbrev State (ν κ : Type) := List (κ × List (St ν))

variable {κ : Type} [DecidableEq κ]

def upsert (k : κ) (f : List (St ν) → List (St ν)) (init : List (St ν)) : State ν κ → State ν κ
  | [] => [(k, f init)]
  | (k', s) :: rest => if k' = k then (k', f s) :: rest else (k', s) :: upsert k f init rest

/-- `Add(row)` -/
def add (c : Cfg ν κ) (g : State ν κ) (row : Row ν) : State ν κ :=
  upsert (c.keyOf row) (stepGroup c.env row c.fields) (newGroup c.fields) g

def resultsOf (e : Env ν) : List (Field ν) → List (St ν) → List (Str × Res ν)
  | f :: fs, st :: sts => (f.alias, st.result e f.prm) :: resultsOf e fs sts
  | _, _ => []

/-- `GetResults()` -/
def getResults (c : Cfg ν κ) (g : State ν κ) : List (κ × List (Str × Res ν)) :=
  g.map fun (k, sts) => (k, resultsOf c.env c.fields sts)

/-- `Reset()` -/
def reset (_g : State ν κ) : State ν κ := []

/-- `processWindowBatch`: Add every row, GetResults, Reset — returns the results and the next state -/
def processBatch (c : Cfg ν κ) (g : State ν κ) (batch : List (Row ν)) :
    List (κ × List (Str × Res ν)) × State ν κ :=
  (getResults c (batch.foldl (add c) g), reset (batch.foldl (add c) g))

/-- a sequence of consecutive batches on one aggregator instance -/
def runBatches (c : Cfg ν κ) : State ν κ → List (List (Row ν)) → List (List (κ × List (Str × Res ν)))
  | _, [] => []
  | g, b :: bs => (processBatch c g b).1 :: runBatches c (processBatch c g b).2 bs

end GroupAgg
