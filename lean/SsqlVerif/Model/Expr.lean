/-
C06 — model of the scalar-expression machinery of rulego/streamsql.

(i)   `Expr`        the AST the generator draws from (literals, columns, unary minus, + - * /,
                    comparisons, AND/OR/NOT, searched and simple CASE, calls, parentheses);
(ii)  `ev`          transliteration of the hand-written evaluator `expr/evaluator.go` (mode `.t` = evaluateTruth) +
                    `expr/case_expression.go` as reached from `Expression.EvaluateValueWithNull`:
                    mode `.w` = evaluateNodeValueWithNull, `.v` = evaluateNodeValue,
                    `.b` = evaluateBoolNode, `.chS`/`.chV` = the WHEN loops of
                    evaluateCaseExpressionWithNull / evaluateCaseExpressionValueWithNull;
(iii) `handParses`  which ASTs `expr/parser.go` can build (all of the grammar, since the repairs);
(iv)  `xl`          table model of the expr-lang VM for the operator shapes of the grammar
                    (strict: nil operands raise, `==`/`!=` never raise) — validated by
                    correspondence only (DESIGN §4);
(v)   `routeOf` / `engineSelect`   the textual dispatch of `stream/processor_field.go`
                    (`compileExpressionInfo`, `processExpressionField`) over the two evaluators;
(vi)  `whereEval`   WHERE position: `rsql.parseWhere` lowering + expr-lang `AsBool`, error ⇒ reject;
(vii) `Cache`       the two process-wide memo tables of `functions/expr_bridge.go:35-41`.

Everything is polymorphic in the number type `ν` (class `NumOps`, no laws): theorems hold for
every instance (exact arithmetic included); the driver instantiates `Float`.
Strings are byte lists (`List Char`, code points < 256).  Core Lean only.
-/
set_option autoImplicit false

namespace Ex

abbrev Str := List Char

/-- the float64 operations the evaluators use -/
class NumOps (ν : Type) where
  add : ν → ν → ν
  sub : ν → ν → ν
  mul : ν → ν → ν
  div : ν → ν → ν
  ofNat : Nat → ν
  isZero : ν → Bool
  isNaN : ν → Bool
  eq : ν → ν → Bool
  lt : ν → ν → Bool
  le : ν → ν → Bool

inductive Value (ν : Type) where
  | null
  | num (x : ν)
  | str (s : Str)
  | bool (b : Bool)
  deriving DecidableEq, Repr

def Value.isNull {ν : Type} : Value ν → Bool
  | .null => true
  | _ => false

/-- a row: association list; an absent key is a *missing* column -/
abbrev Row (ν : Type) := List (Str × Value ν)

def lookup {ν : Type} (c : Str) : Row ν → Option (Value ν)
  | [] => none
  | (k, v) :: rest => if k = c then some v else lookup c rest

inductive AOp where | add | sub | mul | div deriving DecidableEq, Repr
inductive COp where | eq | ne | lt | le | gt | ge deriving DecidableEq, Repr

/-- numeric literal in source form: `whole` or `whole.25/.5/.75` -/
structure NumLit where
  whole : Nat
  q : Nat        -- quarters, 0..3
  deriving DecidableEq, Repr

/-- The AST.  CASE arms are a right-nested chain (`whenL … (whenL … (elseL e | endL))`) so that the
type is not nested through `List` and every function below is plain structural recursion.
In a `caseV` chain the first component of `whenL` is the WHEN *value*. -/
inductive Expr where
  | lit (l : NumLit)
  | str (s : Str)
  | col (c : Str)
  | paren (e : Expr)
  | neg (e : Expr)
  | arith (op : AOp) (l r : Expr)
  | cmp (op : COp) (l r : Expr)
  | and (l r : Expr)
  | or (l r : Expr)
  | not (e : Expr)
  | caseS (chain : Expr)
  | caseV (scrut chain : Expr)
  | whenL (c r rest : Expr)
  | elseL (e : Expr)
  | endL
  | call1 (f : Str) (a : Expr)
  | call2 (f : Str) (a b : Expr)
  | call3 (f : Str) (a b c : Expr)
  deriving DecidableEq, Repr

/-- what the evaluators take from their surroundings (shared by model and spec) -/
structure Env (ν : Type) where
  parseNum : Str → Option ν                            -- strconv.ParseFloat on a Go string
  parseBool : Str → Option Bool                        -- strconv.ParseBool
  fmtNum : ν → Str                                     -- fmt.Sprintf("%v", float64/int)
  fn : Str → List (Value ν) → Option (Value ν)         -- functions.Get(name) → Validate → Execute; none = error

section
variable {ν : Type} [NumOps ν]
open NumOps

def litVal (l : NumLit) : ν :=
  if l.q = 0 then ofNat l.whole else add (ofNat l.whole) (div (ofNat l.q) (ofNat 4))

def aop : AOp → ν → ν → ν
  | .add => add | .sub => sub | .mul => mul | .div => div

/-- Go's float64 comparison operators (`compareFloats`) -/
def numCmp : COp → ν → ν → Bool
  | .eq, x, y => eq x y
  | .ne, x, y => !(eq x y)
  | .lt, x, y => lt x y
  | .le, x, y => le x y
  | .gt, x, y => lt y x
  | .ge, x, y => le y x

/-- byte-wise `<` on Go strings -/
def strLt : Str → Str → Bool
  | _, [] => false
  | [], _ :: _ => true
  | a :: as, b :: bs => if a.toNat < b.toNat then true else if a = b then strLt as bs else false

/-- Go's string comparison operators (`compareStrings`) -/
def strCmp : COp → Str → Str → Bool
  | .eq, s, t => decide (s = t)
  | .ne, s, t => !decide (s = t)
  | .lt, s, t => strLt s t
  | .le, s, t => strLt s t || decide (s = t)
  | .gt, s, t => strLt t s
  | .ge, s, t => strLt t s || decide (s = t)

def boolStr (b : Bool) : Str := if b then "true".toList else "false".toList

/-! ## (ii) the hand-written evaluator -/

/-- result of one evaluator call: Go's `(value, isNull, err)` -/
inductive Res (ν : Type) where
  | err
  | val (v : Value ν) (isNull : Bool)
  deriving DecidableEq, Repr

inductive Mode (ν : Type) where
  | w                                   -- evaluateNodeValueWithNull
  | v                                   -- evaluateNodeValue
  | b                                   -- evaluateBoolNode
  | t                                   -- evaluateTruth (three-valued; UNKNOWN = `.val .null true`)
  | chS                                 -- WHEN loop of a searched CASE
  | chV (sv : Value ν) (sn : Bool)      -- WHEN loop of a simple CASE with the scrutinee's (value, isNull)

/-- `convertToFloatSafe` = `cast.ToFloat64E` -/
def toFloat (env : Env ν) : Value ν → Option ν
  | .null => none
  | .num x => some x
  | .bool b => some (if b then ofNat 1 else ofNat 0)
  | .str s => env.parseNum s

/-- `fmt.Sprintf("%v", x)` -/
def fmtV (env : Env ν) : Value ν → Str
  | .null => "<nil>".toList
  | .num x => env.fmtNum x
  | .bool b => boolStr b
  | .str s => s

/-- `convertToBool` = `cast.ToBool` -/
def toBool (env : Env ν) : Value ν → Bool
  | .null => false
  | .num x => !(isZero x)
  | .bool b => b
  | .str s => (env.parseBool s).getD false

def isEqOp : COp → Bool
  | .eq => true | .ne => true | _ => false

/-- `compareValues` (evaluator.go:430); `none` = error.  Two Go strings are compared as
strings (repaired behaviour: they used to be compared numerically when both parse as numbers). -/
def compareValues (env : Env ν) (op : COp) : Value ν → Value ν → Option Bool
  | .null, _ => some false
  | _, .null => some false
  | .str s, .str t => some (strCmp op s t)
  | l, r =>
    match toFloat env l, toFloat env r with
    | some x, some y => some (numCmp op x y)
    | none, none => some (strCmp op (fmtV env l) (fmtV env r))
    | _, _ => if isEqOp op then some (strCmp op (fmtV env l) (fmtV env r)) else none

/-- comparison branch of `evaluateOperatorValue` / `evaluateBoolOperator`: operands through mode `.v` -/
def cmpStep (env : Env ν) (op : COp) : Res ν → Res ν → Res ν
  | .val l _, .val r _ =>
    match compareValues env op l r with
    | some b => .val (.bool b) false
    | none => .err
  | _, _ => .err

/-- Go `valueRes v` = `(v, v == nil, nil)` -/
def valueRes (v : Value ν) : Res ν := .val v v.isNull

/-- arithmetic branch of `evaluateOperatorValue` (evaluator.go:337-394), operands through mode `.w` -/
def arithStep (env : Env ν) (op : AOp) : Res ν → Res ν → Res ν
  | .val l ln, .val r rn =>
    if ln || rn then .val .null true
    else match toFloat env l, toFloat env r with
      | some x, some y =>
        if op = .div && isZero y then .err
        else if isNaN (aop op x y) then .err
        else .val (.num (aop op x y)) false
      | _, _ => .err
  | _, _ => .err

/-- AND of `evaluateBoolOperator` (short circuit: the right operand only counts when the left is true) -/
def andStep : Res ν → Res ν → Res ν
  | .val (.bool true) _, r => r
  | .val (.bool false) _, _ => .val (.bool false) false
  | _, _ => .err

def orStep : Res ν → Res ν → Res ν
  | .val (.bool false) _, r => r
  | .val (.bool true) _, _ => .val (.bool true) false
  | _, _ => .err

/-- NOT of `evaluateBoolOperator`: the operand comes from `evaluateTruth` (mode `.t`);
NOT UNKNOWN is UNKNOWN, which a condition reports as "not true" -/
def notB : Res ν → Res ν
  | .val (.bool b) _ => .val (.bool (!b)) false
  | .val .null _ => .val (.bool false) false
  | _ => .err

/-! #### `evaluateTruth`: three-valued conditions -/

/-- a field value / function result as a truth value: nil is UNKNOWN -/
def truthOfRes (env : Env ν) : Res ν → Res ν
  | .err => .err
  | .val .null _ => .val .null true
  | .val v _ => .val (.bool (toBool env v)) false

/-- `false AND x` without looking at `x`; then `x AND false`; UNKNOWN if either is; else TRUE -/
def andT : Res ν → Res ν → Res ν
  | .err, _ => .err
  | .val (.bool false) _, _ => .val (.bool false) false
  | .val _ _, .val (.bool false) _ => .val (.bool false) false
  | .val l _, .val r _ => if l.isNull || r.isNull then .val .null true else .val (.bool true) false
  | .val _ _, .err => .err

def orT : Res ν → Res ν → Res ν
  | .err, _ => .err
  | .val (.bool true) _, _ => .val (.bool true) false
  | .val _ _, .val (.bool true) _ => .val (.bool true) false
  | .val l _, .val r _ => if l.isNull || r.isNull then .val .null true else .val (.bool false) false
  | .val _ _, .err => .err

def notT : Res ν → Res ν
  | .val (.bool b) _ => .val (.bool (!b)) false
  | .val .null _ => .val .null true
  | _ => .err

/-- comparison in `evaluateTruth`: a nil operand is UNKNOWN -/
def cmpT (env : Env ν) (op : COp) : Res ν → Res ν → Res ν
  | .val l _, .val r _ =>
    if l.isNull || r.isNull then .val .null true
    else match compareValues env op l r with
      | some b => .val (.bool b) false
      | none => .err
  | _, _ => .err

/-- mode `.b` applied to a value obtained in mode `.v` (fields, function results) -/
def boolOfRes (env : Env ν) : Res ν → Res ν
  | .val v _ => .val (.bool (toBool env v)) false
  | .err => .err

/-- `compareValuesWithNullForEquality` (repaired: a NULL on either side never matches) -/
def caseEq (env : Env ν) (sv : Value ν) (sn : Bool) (wv : Value ν) (wn : Bool) : Bool :=
  if sn || wn then false
  else match sv, wv with
    | .null, _ => false
    | _, .null => false
    | .str s, .str t => decide (s = t)
    | l, r =>
      match toFloat env l, toFloat env r with
      | some x, some y => eq x y
      | _, _ => decide (fmtV env l = fmtV env r)

/-- function call: `evaluateFunctionValue` — arguments in mode `.v`, then Validate/Execute -/
def callStep (env : Env ν) (f : Str) : List (Res ν) → Res ν
  | args =>
    if args.any (fun r => match r with | .err => true | _ => false) then .err
    else match env.fn f (args.map fun r => match r with | .val v _ => v | .err => .null) with
      | some v => valueRes v
      | none => .err

def colRes (row : Row ν) (c : Str) : Res ν :=
  match lookup c row with
  | none => .val .null true
  | some v => valueRes v

/-- the hand-written evaluator -/
def ev (env : Env ν) (row : Row ν) : Expr → Mode ν → Res ν
  | .lit l, .b => .val (.bool (!(isZero (litVal l : ν)))) false
  | .lit l, .t => .val (.bool (!(isZero (litVal l : ν)))) false
  | .lit l, .w => .val (.num (litVal l)) false
  | .lit l, .v => .val (.num (litVal l)) false
  | .str s, .b => .val (.bool (s ≠ [])) false
  | .str s, .t => .val (.bool (s ≠ [])) false
  | .str s, .w => .val (.str s) false
  | .str s, .v => .val (.str s) false
  | .col c, .b => boolOfRes env (colRes row c)
  | .col c, .t => truthOfRes env (colRes row c)
  | .col c, .w => colRes row c
  | .col c, .v => colRes row c
  | .paren e, .b => ev env row e .b
  | .paren e, .t => ev env row e .t
  | .paren e, .w => ev env row e .w
  | .paren e, .v => ev env row e .v
  | .neg e, .b => .err
  | .neg e, .t => .err
  | .neg e, .w => arithStep env .sub (.val (.num (ofNat 0)) false) (ev env row e .w)
  | .neg e, .v => arithStep env .sub (.val (.num (ofNat 0)) false) (ev env row e .w)
  | .arith _ _ _, .b => .err
  | .arith _ _ _, .t => .err
  | .arith op l r, .w => arithStep env op (ev env row l .w) (ev env row r .w)
  | .arith op l r, .v => arithStep env op (ev env row l .w) (ev env row r .w)
  | .cmp op l r, .b => cmpStep env op (ev env row l .v) (ev env row r .v)
  | .cmp op l r, .t => cmpT env op (ev env row l .v) (ev env row r .v)
  | .cmp op l r, .w => cmpStep env op (ev env row l .v) (ev env row r .v)
  | .cmp op l r, .v => cmpStep env op (ev env row l .v) (ev env row r .v)
  | .and l r, .b => andStep (ev env row l .b) (ev env row r .b)
  | .and l r, .t => andT (ev env row l .t) (ev env row r .t)
  | .and l r, .w => andStep (ev env row l .b) (ev env row r .b)
  | .and l r, .v => andStep (ev env row l .b) (ev env row r .b)
  | .or l r, .b => orStep (ev env row l .b) (ev env row r .b)
  | .or l r, .t => orT (ev env row l .t) (ev env row r .t)
  | .or l r, .w => orStep (ev env row l .b) (ev env row r .b)
  | .or l r, .v => orStep (ev env row l .b) (ev env row r .b)
  | .not e, .b => notB (ev env row e .t)
  | .not e, .t => notT (ev env row e .t)
  | .not e, .w => notB (ev env row e .t)
  | .not e, .v => notB (ev env row e .t)
  | .caseS _, .b => .err
  | .caseS _, .t => .err
  | .caseS ch, .w => ev env row ch .chS
  | .caseS ch, .v => ev env row ch .chS
  | .caseV _ _, .b => .err
  | .caseV _ _, .t => .err
  | .caseV sc ch, .w =>
    match ev env row sc .w with
    | .val sv sn => ev env row ch (.chV sv sn)
    | .err => .err
  | .caseV sc ch, .v =>
    match ev env row sc .w with
    | .val sv sn => ev env row ch (.chV sv sn)
    | .err => .err
  | .call1 f a, .b => boolOfRes env (callStep env f [ev env row a .v])
  | .call1 f a, .t => truthOfRes env (callStep env f [ev env row a .v])
  | .call1 f a, .w => callStep env f [ev env row a .v]
  | .call1 f a, .v => callStep env f [ev env row a .v]
  | .call2 f a b, .b => boolOfRes env (callStep env f [ev env row a .v, ev env row b .v])
  | .call2 f a b, .t => truthOfRes env (callStep env f [ev env row a .v, ev env row b .v])
  | .call2 f a b, .w => callStep env f [ev env row a .v, ev env row b .v]
  | .call2 f a b, .v => callStep env f [ev env row a .v, ev env row b .v]
  | .call3 f a b c, .b => boolOfRes env (callStep env f [ev env row a .v, ev env row b .v, ev env row c .v])
  | .call3 f a b c, .t => truthOfRes env (callStep env f [ev env row a .v, ev env row b .v, ev env row c .v])
  | .call3 f a b c, .w => callStep env f [ev env row a .v, ev env row b .v, ev env row c .v]
  | .call3 f a b c, .v => callStep env f [ev env row a .v, ev env row b .v, ev env row c .v]
  -- WHEN loops
  | .whenL c r rest, .chS =>
    match ev env row c .b with
    | .val (.bool true) _ => ev env row r .w
    | .val _ _ => ev env row rest .chS
    | .err => .err
  | .elseL e, .chS => ev env row e .w
  | .endL, .chS => .val .null true
  | .whenL c r rest, .chV sv sn =>
    match ev env row c .w with
    | .val wv wn => if caseEq env sv sn wv wn then ev env row r .w else ev env row rest (.chV sv sn)
    | .err => .err
  | .elseL e, .chV _ _ => ev env row e .w
  | .endL, .chV _ _ => .val .null true
  -- a chain link outside a CASE / an expression where a chain link is expected: not produced by any parser
  | .whenL _ _ _, _ => .err
  | .elseL _, _ => .err
  | .endL, _ => .err
  | _, .chS => .err
  | _, .chV _ _ => .err

/-- `Expression.EvaluateValueWithNull` on a successfully parsed expression -/
def handEval (env : Env ν) (row : Row ν) (e : Expr) : Res ν := ev env row e .w

/-! ## (iii) what `expr/parser.go` can build -/

/-- Every constructor of the grammar has a production in `expr/parser.go` since the repairs (NOT
between AND and the comparison, CASE in operand position); only a chain link outside its CASE is
not an expression.  Kept as a definition so that a parser regression has a place to show. -/
def handParses : Expr → Bool
  | .lit _ => true
  | .str _ => true
  | .col _ => true
  | .paren e => handParses e
  | .neg e => handParses e
  | .arith _ l r => handParses l && handParses r
  | .cmp _ l r => handParses l && handParses r
  | .and l r => handParses l && handParses r
  | .or l r => handParses l && handParses r
  | .not e => handParses e
  | .caseS ch => handParses ch
  | .caseV sc ch => handParses sc && handParses ch
  | .whenL c r rest => handParses c && handParses r && handParses rest
  | .elseL e => handParses e
  | .endL => true
  | .call1 _ a => handParses a
  | .call2 _ a b => handParses a && handParses b
  | .call3 _ a b c => handParses a && handParses b && handParses c

/-! ## (iv) table model of expr-lang for the operator shapes of the grammar -/

/-- expr-lang `runtime.Equal` on the value kinds of the quantifier -/
def xlEqual : Value ν → Value ν → Bool
  | .null, .null => true
  | .num x, .num y => eq x y
  | .str s, .str t => decide (s = t)
  | .bool a, .bool b => decide (a = b)
  | _, _ => false

/-- ordered comparison: numbers with numbers, strings with strings, everything else raises -/
def xlOrd (op : COp) : Value ν → Value ν → Option Bool
  | .num x, .num y => some (numCmp op x y)
  | .str s, .str t => some (strCmp op s t)
  | _, _ => none

def xlCmp (op : COp) (l r : Value ν) : Option Bool :=
  match op with
  | .eq => some (xlEqual l r)
  | .ne => some (!(xlEqual l r))
  | _ => xlOrd op l r

/-- expr-lang arithmetic: numbers only (`/` is float division, so x/0 = ±Inf, not an error);
`+` also concatenates two strings -/
def xlArith (op : AOp) : Value ν → Value ν → Option (Value ν)
  | .num x, .num y => some (.num (aop op x y))
  | .str s, .str t => if op = .add then some (.str (s ++ t)) else none
  | _, _ => none

/-- expr-lang's optimizer folds integer-literal arithmetic (`optimizer/fold.go`) … -/
def constInt : Expr → Option ν
  | .lit l => if l.q = 0 then some (ofNat l.whole) else none
  | .paren e => constInt e
  | .neg e => (constInt e).map fun x => sub (ofNat 0) x
  | .arith .add l r => match constInt l, constInt r with | some x, some y => some (add x y) | _, _ => none
  | .arith .sub l r => match constInt l, constInt r with | some x, some y => some (sub x y) | _, _ => none
  | .arith .mul l r => match constInt l, constInt r with | some x, some y => some (mul x y) | _, _ => none
  | _ => none

def constStr : Expr → Option Str
  | .str s => some s
  | .paren e => constStr e
  | _ => none

def foldStrEq (l r : Expr) : Option Bool :=
  match constStr l, constStr r with
  | some s, some t => some (decide (s = t))
  | _, _ => none

def foldIntEq (l r : Expr) : Option Bool :=
  match constInt (ν := ν) l, constInt (ν := ν) r with
  | some x, some y => some (eq x y)
  | _, _ => none

/-- `true && x` → x, `x && true` → x, `x && false` / `false && x` → false -/
def andTable : Option Bool → Option Bool → Option Bool
  | some true, b => b
  | a, some true => a
  | some false, _ => some false
  | _, some false => some false
  | none, none => none

def orTable : Option Bool → Option Bool → Option Bool
  | some false, b => b
  | a, some false => a
  | some true, _ => some true
  | _, some true => some true
  | none, none => none

/-- … and conditions that are constant at compile time: `==` of two integer or two string
literals, `!` of a constant, and `&&`/`||` with a constant operand — *dropping the other
operand*, so `X && false` is `false` even when `X` would raise at run time. -/
def foldBool : Expr → Option Bool
  | .paren e => foldBool e
  | .cmp .eq l r =>
    match foldStrEq l r with
    | some b => some b
    | none => foldIntEq (ν := ν) l r
  | .not e => (foldBool e).map (!·)
  | .and l r => andTable (foldBool l) (foldBool r)
  | .or l r => orTable (foldBool l) (foldBool r)
  | _ => none

/-- strict evaluation (`none` = compile or run-time error).  `sel` = SELECT position, where the SQL
keywords AND/OR/NOT, `=` and CASE reach expr-lang unlowered and do not compile. -/
def xl (env : Env ν) (row : Row ν) (sel : Bool) : Expr → Option (Value ν)
  | .lit l => some (.num (litVal l))
  | .str s => some (.str s)
  | .col c => some ((lookup c row).getD .null)
  | .paren e => xl env row sel e
  | .neg e =>
    match xl env row sel e with
    | some (.num x) => some (.num (sub (ofNat 0) x))
    | _ => none
  | .arith op l r =>
    match xl env row sel l, xl env row sel r with
    | some a, some b => xlArith op a b
    | _, _ => none
  | .cmp op l r =>
    if sel && op = .eq then none
    else match xl env row sel l, xl env row sel r with
      | some a, some b => (xlCmp op a b).map .bool
      | _, _ => none
  | .and l r =>
    if sel then none
    else match foldBool (ν := ν) (.and l r) with
    | some b => some (.bool b)
    | none =>
    match xl env row sel l with
      | some (.bool false) => some (.bool false)
      | some (.bool true) =>
        match xl env row sel r with
        | some (.bool b) => some (.bool b)
        | _ => none
      | _ => none
  | .or l r =>
    if sel then none
    else match foldBool (ν := ν) (.or l r) with
    | some b => some (.bool b)
    | none =>
    match xl env row sel l with
      | some (.bool true) => some (.bool true)
      | some (.bool false) =>
        match xl env row sel r with
        | some (.bool b) => some (.bool b)
        | _ => none
      | _ => none
  | .not e =>
    if sel then none
    else match foldBool (ν := ν) (.not e) with
    | some b => some (.bool b)
    | none =>
    match xl env row sel e with
      | some (.bool b) => some (.bool (!b))
      | _ => none
  | .caseS _ => none
  | .caseV _ _ => none
  | .whenL _ _ _ => none
  | .elseL _ => none
  | .endL => none
  | .call1 f a =>
    match xl env row sel a with
    | some x => env.fn f [x]
    | none => none
  | .call2 f a b =>
    match xl env row sel a, xl env row sel b with
    | some x, some y => env.fn f [x, y]
    | _, _ => none
  | .call3 f a b c =>
    match xl env row sel a, xl env row sel b, xl env row sel c with
    | some x, some y, some z => env.fn f [x, y, z]
    | _, _, _ => none

/-! ## (v) routing of a SELECT expression field (`processor_field.go:339-487`) -/

/-- the three textual tests of `compileExpressionInfo` on the expression text -/
structure TextFlags where
  paren : Bool      -- contains "(" and ")"   → `isFunctionCall`
  dot : Bool        -- contains "."            → `hasNestedFields` (when not a function call)
  quote : Bool      -- contains ' " or `       → no `compiledExprFastPath`
  deriving DecidableEq, Repr

inductive Route where
  | bridgeThenHand   -- function-call shape: bridge; on error the pre-compiled expression (repaired: used to give NULL)
  | handOnly         -- "nested field" shape
  | handThenBridge   -- quote-free fast path, bridge on error
  deriving DecidableEq, Repr

def routeOf (t : TextFlags) : Route :=
  if t.paren then .bridgeThenHand
  else if t.dot then .handOnly
  else if !t.quote then .handThenBridge
  else .bridgeThenHand

/-- outcome of one evaluator as the router sees it: `none` = error -/
def resOpt : Res ν → Option (Value ν)
  | .err => none
  | .val v n => some (if n then .null else v)

def orElse {α : Type} : Option α → Option α → Option α
  | some x, _ => some x
  | none, y => y

/-- value written to the result row; an evaluation error is logged and shows as NULL -/
def engineSelect (r : Route) (hand bridge : Option (Value ν)) : Value ν :=
  match r with
  | .bridgeThenHand => (orElse bridge hand).getD .null
  | .handOnly => hand.getD .null
  | .handThenBridge => (orElse hand bridge).getD .null

/-! ## (vi) WHERE position -/

/-- `ExprCondition.Evaluate`: the lowered predicate runs on expr-lang with `AsBool`;
an error or a non-bool result rejects the row -/
def whereEval (env : Env ν) (row : Row ν) (e : Expr) : Bool :=
  match xl env row false e with
  | some (.bool b) => b
  | _ => false

end

/-! ## (vii) the process-wide caches of the bridge -/

namespace Cache
section
variable {Text Ty Prog Res' Row' : Type} [DecidableEq Text] [DecidableEq Ty]

/-- `programCache` (text ↦ (env type, program)) and `preprocessCache` (text ↦ text) -/
structure State (Text Ty Prog : Type) where
  prog : List (Text × (Ty × Prog))
  pre : List (Text × Text)

def find {α β : Type} [DecidableEq α] (k : α) : List (α × β) → Option β
  | [] => none
  | (a, b) :: rest => if a = k then some b else find k rest

/-- `preprocessCached` -/
def preStep (prep : Text → Text) (s : State Text Ty Prog) (t : Text) : State Text Ty Prog × Text :=
  match find t s.pre with
  | some t' => (s, t')
  | none => ({ s with pre := (t, prep t) :: s.pre }, prep t)

/-- `CompileExpressionWithStreamSQLFunctions`: reuse the entry only when the env type matches,
otherwise compile and overwrite; a failed compilation stores nothing -/
def progStep (compile : Text → Ty → Option Prog) (s : State Text Ty Prog) (t : Text) (ty : Ty) :
    State Text Ty Prog × Option Prog :=
  match find t s.prog with
  | some (ty', p) =>
    if ty' = ty then (s, some p)
    else match compile t ty with
      | some p' => ({ s with prog := (t, (ty, p')) :: s.prog }, some p')
      | none => (s, none)
  | none =>
    match compile t ty with
    | some p' => ({ s with prog := (t, (ty, p')) :: s.prog }, some p')
    | none => (s, none)

/-- one `EvaluateExpression` through both caches -/
def evalStep (prep : Text → Text) (compile : Text → Ty → Option Prog) (run : Option Prog → Row' → Res')
    (tyOf : Row' → Ty) (s : State Text Ty Prog) (q : Text × Row') : State Text Ty Prog × Res' :=
  ((progStep compile (preStep prep s q.1).1 (preStep prep s q.1).2 (tyOf q.2)).1,
   run (progStep compile (preStep prep s q.1).1 (preStep prep s q.1).2 (tyOf q.2)).2 q.2)

/-- the same evaluation with no cache at all -/
def evalPure (prep : Text → Text) (compile : Text → Ty → Option Prog) (run : Option Prog → Row' → Res')
    (tyOf : Row' → Ty) (q : Text × Row') : Res' :=
  run (compile (prep q.1) (tyOf q.2)) q.2

/-- any sequence of evaluations (by any number of engine instances: the caches are process-wide) -/
def runAll (prep : Text → Text) (compile : Text → Ty → Option Prog) (run : Option Prog → Row' → Res')
    (tyOf : Row' → Ty) : State Text Ty Prog → List (Text × Row') → State Text Ty Prog × List Res'
  | s, [] => (s, [])
  | s, q :: qs =>
    ((runAll prep compile run tyOf (evalStep prep compile run tyOf s q).1 qs).1,
     (evalStep prep compile run tyOf s q).2 :: (runAll prep compile run tyOf (evalStep prep compile run tyOf s q).1 qs).2)

end
end Cache

end Ex
