/-
C15 — model of `cep/nfa.go` and `cep/pattern.go`: Thompson construction and ε-closure.

Go builds fragments forwards with dangling out-pointers (`frag.dots`) that `patch` fills in
later.  The model builds the same graph with the target already known ("continuation
passing"): `frag p k t` appends the states of `p` to the state table `t`, with every dangling
out of the Go fragment pointing to state `k`, and returns the index of the fragment's start
state.  One table entry per Go `&state{…}` allocation, with the same out-edges after patching:

| Go                         | model                                             |
|----------------------------|---------------------------------------------------|
| `newMatchFrag(sym)`        | `.mtch sym k`                                     |
| `newEpsFrag()`             | `.eps (some k) none`                              |
| `concat(a, b)`             | `frag a (start of b)` after `frag b k`            |
| `alt(a, b)`                | `.eps (some a.start) (some b.start)`              |
| `starFrag(child)`          | `.eps (some child.start) (some k)`, child → itself |
| `optFrag(child)`           | `.eps (some child.start) (some k)`                |
| `compileRepeat`            | `iter` copies, then star / `iter` optional copies |
| `Compile`'s accept state   | table entry 0                                     |

The table only grows by appending, so the index of the star state (needed by its child before
the child's states exist) is computed from `size`.  State numbering is not observable.
Core Lean only.
-/
import SsqlVerif.Model.CepTypes
set_option autoImplicit false

namespace Cep

/-- Go `state`: kind, symbol, out1, out2 -/
inductive Node where
  | eps (o1 o2 : Option Nat)
  | mtch (a : Sym) (o : Nat)
  | accept
  deriving DecidableEq, Repr, Inhabited

abbrev Tbl := List Node

/-- number of states `compileNode` allocates for a core tree -/
def size : Pat → Nat
  | .lit _ => 1
  | .empty => 1
  | .seq p q => size p + size q
  | .alt p q => size p + size q + 1
  | .rep p mn none => mn * size p + (size p + 1)
  | .rep p mn (some mx) => if mn = 0 ∧ mx = 0 then 1 else mn * size p + (mx - mn) * (size p + 1)

/-- a fragment builder: target → table → (start, table') -/
abbrev Frag := Nat → Tbl → Nat × Tbl

def litF (a : Sym) : Frag := fun k t => (t.length, t ++ [.mtch a k])
def epsF : Frag := fun k t => (t.length, t ++ [.eps (some k) none])
def seqF (f g : Frag) : Frag := fun k t => f (g k t).1 (g k t).2
def altF (f g : Frag) : Frag := fun k t =>
  ((g k (f k t).2).2.length, (g k (f k t).2).2 ++ [.eps (some (f k t).1) (some (g k (f k t).2).1)])
/-- `optFrag` -/
def optF (f : Frag) : Frag := fun k t => ((f k t).2.length, (f k t).2 ++ [.eps (some (f k t).1) (some k)])
/-- `starFrag`; `sz` = number of states of the child, so `t.length + sz` is the index the
branching state will get -/
def starF (f : Frag) (sz : Nat) : Frag := fun k t =>
  (t.length + sz, (f (t.length + sz) t).2 ++ [.eps (some (f (t.length + sz) t).1) (some k)])
/-- `n` copies in sequence (`n = 0`: no state at all, the start is the target) -/
def iterF (f : Frag) : Nat → Frag
  | 0 => fun k t => (k, t)
  | n+1 => fun k t => f (iterF f n k t).1 (iterF f n k t).2

/-- `compileNode` / `compileRepeat` on the core tree -/
def frag : Pat → Frag
  | .lit a => litF a
  | .empty => epsF
  | .seq p q => seqF (frag p) (frag q)
  | .alt p q => altF (frag p) (frag q)
  | .rep p mn none => seqF (iterF (frag p) mn) (starF (frag p) (size p))
  | .rep p mn (some mx) =>
    if mn = 0 ∧ mx = 0 then epsF
    else seqF (iterF (frag p) mn) (iterF (optF (frag p)) (mx - mn))

structure NFA where
  tbl : Tbl
  start : Nat
  deriving Repr, Inhabited

/-- the accept state is entry 0 -/
def acceptIdx : Nat := 0

/-- `Compile` on a core tree -/
def compile (p : Pat) : NFA := { tbl := (frag p acceptIdx [.accept]).2, start := (frag p acceptIdx [.accept]).1 }

/-- `Compile` on the parser's tree -/
def compileNode (n : PNode) : Except CompileErr NFA := (lower n).map compile

/-! ### ε-closure (`closure`) -/

/-- Go's `push`: mark and stack a state not seen before; `acc = (seen, stack)` -/
def pushNew (o : Option Nat) (acc : List Nat × List Nat) : List Nat × List Nat :=
  match o with
  | none => acc
  | some j => if acc.1.contains j then acc else (acc.1 ++ [j], j :: acc.2)

/-- the `for len(stack) > 0` loop, one iteration per call; the result is Go's `seen` set
(in discovery order; Go returns it in map order) -/
def closureLoop (t : Tbl) : Nat → List Nat → List Nat → List Nat
  | 0, _, seen => seen
  | _+1, [], seen => seen
  | f+1, s :: st, seen =>
    match t[s]? with
    | some (.eps a b) => closureLoop t f (pushNew b (pushNew a (seen, st))).2 (pushNew b (pushNew a (seen, st))).1
    | _ => closureLoop t f st seen

/-- every state is pushed at most once, so `|t| + 1` iterations suffice -/
def closure (t : Tbl) (i : Nat) : List Nat := closureLoop t (t.length + 1) [i] [i]

/-- `matchStates`: the match states of a state set, as (symbol, out1) -/
def matchOuts (t : Tbl) (states : List Nat) : List (Sym × Nat) :=
  states.filterMap fun (i : Nat) => match (t[i]? : Option Node) with
    | some (Node.mtch a o) => some (a, o)
    | _ => none

def isAcceptAt (t : Tbl) (i : Nat) : Bool :=
  match t[i]? with
  | some .accept => true
  | _ => false

/-- `hasAccept` -/
def hasAccept (t : Tbl) (states : List Nat) : Bool := states.any (isAcceptAt t)

/-- `isComplete`: accepting and no match state left -/
def isComplete (t : Tbl) (states : List Nat) : Bool := hasAccept t states && (matchOuts t states).isEmpty

end Cep
