/-
C06 — (a) the SQL printer `render` (minimal parentheses by SQL precedence) that the harness's Go
printer must reproduce byte for byte; (b) transliterations of the built-in scalar functions of
the first slice whose value the driver predicts (`functions/functions_*.go`): they are the
`Env.fn` the evaluators and the reference semantics share.  Functions outside this table are
checked for "no panic" and history-independence only.  Core Lean only.
-/
import SsqlVerif.Model.Expr
set_option autoImplicit false

namespace Ex

/-! ## printer -/

def digitChar (d : Nat) : Char := Char.ofNat ('0'.toNat + d % 10)

def natDigits : Nat → Nat → Str → Str
  | 0, _, acc => acc
  | fuel+1, n, acc => if n < 10 then digitChar n :: acc else natDigits fuel (n / 10) (digitChar (n % 10) :: acc)

def natStr (n : Nat) : Str := natDigits 40 n []

def litStr (l : NumLit) : Str :=
  natStr l.whole ++
    (if l.q % 4 = 1 then ".25".toList else if l.q % 4 = 2 then ".5".toList else if l.q % 4 = 3 then ".75".toList else [])

def aopStr : AOp → Str
  | .add => ['+'] | .sub => ['-'] | .mul => ['*'] | .div => ['/']

def copStr : COp → Str
  | .eq => ['='] | .ne => ['!', '='] | .lt => ['<'] | .le => ['<', '='] | .gt => ['>'] | .ge => ['>', '=']

/-- binding strength: OR 1 < AND 2 < NOT 3 < comparison 4 < + - 5 < * / 6 < unary minus 7 < primary 9 -/
def prec : Expr → Nat
  | .or _ _ => 1
  | .and _ _ => 2
  | .not _ => 3
  | .cmp _ _ _ => 4
  | .arith .add _ _ => 5
  | .arith .sub _ _ => 5
  | .arith .mul _ _ => 6
  | .arith .div _ _ => 6
  | .neg _ => 7
  | _ => 9

def wrapIf (b : Bool) (s : Str) : Str := if b then ['('] ++ s ++ [')'] else s

def sp : Str := [' ']

/-- left operands keep their place when they bind at least as tightly, right operands only when they
bind strictly tighter (so the printed text parses back to the same tree, also for `-` and `/`);
comparisons do not chain; unary minus takes a primary -/
def render : Expr → Str
  | .lit l => litStr l
  | .str s => ['\''] ++ s ++ ['\'']
  | .col c => c
  | .paren e => ['('] ++ render e ++ [')']
  | .neg e => ['-'] ++ wrapIf (prec e < 9) (render e)
  | .arith op l r =>
    wrapIf (prec l < prec (.arith op l r)) (render l) ++ sp ++ aopStr op ++ sp ++
      wrapIf (prec r ≤ prec (.arith op l r)) (render r)
  | .cmp op l r =>
    wrapIf (prec l ≤ 4) (render l) ++ sp ++ copStr op ++ sp ++ wrapIf (prec r ≤ 4) (render r)
  | .and l r => wrapIf (prec l < 2) (render l) ++ " AND ".toList ++ wrapIf (prec r ≤ 2) (render r)
  | .or l r => render l ++ " OR ".toList ++ wrapIf (prec r ≤ 1) (render r)
  | .not e => "NOT ".toList ++ wrapIf (prec e < 3) (render e)
  | .caseS ch => "CASE".toList ++ render ch ++ " END".toList
  | .caseV sc ch => "CASE ".toList ++ render sc ++ render ch ++ " END".toList
  | .whenL c r rest => " WHEN ".toList ++ render c ++ " THEN ".toList ++ render r ++ render rest
  | .elseL e => " ELSE ".toList ++ render e
  | .endL => []
  | .call1 f a => f ++ ['('] ++ render a ++ [')']
  | .call2 f a b => f ++ ['('] ++ render a ++ [',', ' '] ++ render b ++ [')']
  | .call3 f a b c => f ++ ['('] ++ render a ++ [',', ' '] ++ render b ++ [',', ' '] ++ render c ++ [')']

/-- the three textual tests of `compileExpressionInfo` -/
def textFlags (t : Str) : TextFlags :=
  { paren := t.contains '(' && t.contains ')',
    dot := t.contains '.',
    quote := t.contains '\'' || t.contains '"' || t.contains '`' }

/-! ## built-in functions -/

section
variable {ν : Type} [NumOps ν]
open NumOps

/-- `cast.ToFloat64E` -/
def castFloat (pn : Str → Option ν) : Value ν → Option ν
  | .null => none
  | .num x => some x
  | .bool b => some (if b then ofNat 1 else ofNat 0)
  | .str s => pn s

/-- `cast.ToStringE` on the value kinds of the quantifier (never fails on them) -/
def castStr (fmtNum : ν → Str) : Value ν → Str
  | .null => []
  | .num x => fmtNum x
  | .bool b => boolStr b
  | .str s => s

def upperC (c : Char) : Char := if 'a' ≤ c ∧ c ≤ 'z' then Char.ofNat (c.toNat - 32) else c
def lowerC (c : Char) : Char := if 'A' ≤ c ∧ c ≤ 'Z' then Char.ofNat (c.toNat + 32) else c

def isPrefix : Str → Str → Bool
  | [], _ => true
  | _ :: _, [] => false
  | a :: as, b :: bs => a = b && isPrefix as bs

/-- `strings.TrimSpace` on ASCII -/
def isSpaceC (c : Char) : Bool := c = ' ' || c = '\t' || c = '\n' || c = '\r' || c.toNat = 11 || c.toNat = 12
def trimL : Str → Str
  | [] => []
  | c :: cs => if isSpaceC c then trimL cs else c :: cs
def trimR (s : Str) : Str := (trimL s.reverse).reverse

def firstNonNull : List (Value ν) → Value ν
  | [] => .null
  | .null :: rest => firstNonNull rest
  | v :: _ => v

def name (s : String) : Str := s.toList

/-- the modelled slice of `functions.Get(name)` → `Validate` (argument count) → `Execute`;
`none` = unknown here, or an error -/
def builtin (pn : Str → Option ν) (fmtNum : ν → Str) (f : Str) (args : List (Value ν)) : Option (Value ν) :=
  if f = name "abs" then
    match args with
    | [x] => (castFloat pn x).map fun v => .num (if lt v (ofNat 0) then sub (ofNat 0) v else v)
    | _ => none
  else if f = name "sign" then
    match args with
    | [x] => (castFloat pn x).map fun v =>
        .num (if lt (ofNat 0) v then ofNat 1 else if lt v (ofNat 0) then sub (ofNat 0) (ofNat 1) else ofNat 0)
    | _ => none
  else if f = name "coalesce" then
    match args with
    | [] => none
    | _ => some (firstNonNull args)
  else if f = name "if_null" then
    match args with
    | [.null, y] => some y
    | [x, _] => some x
    | _ => none
  else if f = name "upper" then
    match args with
    | [x] => some (.str ((castStr fmtNum x).map upperC))
    | _ => none
  else if f = name "lower" then
    match args with
    | [x] => some (.str ((castStr fmtNum x).map lowerC))
    | _ => none
  else if f = name "concat" then
    match args with
    | [] => none
    | _ => some (.str (args.flatMap (castStr fmtNum)))
  else if f = name "trim" then
    match args with
    | [x] => some (.str (trimR (trimL (castStr fmtNum x))))
    | _ => none
  else if f = name "startswith" then
    match args with
    | [x, y] => some (.bool (isPrefix (castStr fmtNum y) (castStr fmtNum x)))
    | _ => none
  else if f = name "endswith" then
    match args with
    | [x, y] => some (.bool (isPrefix (castStr fmtNum y).reverse (castStr fmtNum x).reverse))
    | _ => none
  else if f = name "is_null" then
    match args with
    | [x] => some (.bool x.isNull)
    | _ => none
  else if f = name "is_not_null" then
    match args with
    | [x] => some (.bool (!x.isNull))
    | _ => none
  else if f = name "is_string" then
    match args with
    | [.str _] => some (.bool true)
    | [_] => some (.bool false)
    | _ => none
  else if f = name "is_bool" then
    match args with
    | [.bool _] => some (.bool true)
    | [_] => some (.bool false)
    | _ => none
  else if f = name "is_numeric" then
    match args with
    | [.num _] => some (.bool true)
    | [_] => some (.bool false)
    | _ => none
  else none

/-- names whose value `builtin` predicts -/
def modelled (f : Str) : Bool :=
  [name "abs", name "sign", name "coalesce", name "if_null", name "upper", name "lower", name "concat",
   name "trim", name "startswith", name "endswith", name "is_null", name "is_not_null", name "is_string",
   name "is_bool", name "is_numeric"].contains f

end
end Ex
