/-
Query-level model for C14: how one row travels through `Stream.applyWhereAndAnalytic`,
`AnalyticEngine.Evaluate`, `analyticFieldEngine.evaluate` (argument evaluation, WHEN, partition
key, LRU state lookup, per-call `Apply`, wrapper expression, `lastResults`) and
`projectAnalytic`.  The query vocabulary (`Call`, `Field`, `Query`) is the structured form of the
SQL text the harness builds; columns are numbered (the harness schema is fixed).
Core Lean only.
-/
import SsqlVerif.Model.Analytic
set_option autoImplicit false

namespace Analytic

/-- an input row: partition-column values (absent = nil, see `resolvePartitionField`) and the
value columns -/
structure Row (ν : Type) where
  keys : List KVal
  cells : List (Cell ν)

inductive Cmp where
  | gt | lt
  deriving DecidableEq, Repr

/-- `col > c` / `col < c` (WHEN, start/reset arguments, WHERE) -/
structure Pred (ν : Type) where
  col : Nat
  cmp : Cmp
  c : ν

/-- where a `lag`/`latest` default comes from -/
inductive ArgSrc (ν : Type) where
  | col (c : Nat) : ArgSrc ν
  | const (v : Val ν) : ArgSrc ν

inductive Call (ν : Type) where
  | lag (col : Nat) (offset : Option Int) (dflt : Option (ArgSrc ν)) (ign : Option Bool) : Call ν
  | latest (col : Nat) (dflt : Option (ArgSrc ν)) : Call ν
  | hadChanged (ign : Bool) (cols : List Nat) : Call ν
  | changedCol (ign : Bool) (col : Nat) : Call ν
  | changedCols (ign : Bool) (cols : List Nat) : Call ν
  | acc (kind : AccKind) (col : Nat) (start reset : Option (Pred ν)) : Call ν

/-- the expression around the analytic call(s) of a field -/
inductive Wrap where
  | none                 -- the field is the call
  | colMinus (c : Nat)   -- `col - call₀`
  | selfDiff             -- `call₀ - call₁`
  deriving DecidableEq, Repr

structure Field (ν : Type) where
  calls : List (Call ν)
  wrap : Wrap
  part : Option (List Nat)     -- PARTITION BY: indices into `Row.keys`
  when : Option (Pred ν)

structure WhereSpec (ν : Type) where
  plain : Option (Pred ν)                       -- `col cmp c`
  ana : List (Field ν × Option (Cmp × ν))       -- analytic calls in WHERE (`call cmp c`, or used as a boolean), AND-ed

structure Query (ν : Type) where
  cap : Int
  fields : List (Field ν)
  wher : WhereSpec ν

/-- state of one call -/
inductive CallSt (ν : Type) where
  | lag (h : List (Val ν)) : CallSt ν
  | latest (s : Option (Val ν)) : CallSt ν
  | hc (s : Option (List (Val ν))) : CallSt ν
  | chg (s : Option (Val ν)) : CallSt ν
  | cols (s : List (Option (Val ν))) : CallSt ν
  | acc (s : AccSt ν) : CallSt ν

/-- result of one call / one field -/
inductive COut (ν : Type) where
  | one (v : Val ν) : COut ν
  | many (cols : List (Option (Val ν))) : COut ν
  deriving DecidableEq, Repr

section
variable {ν : Type} [NumOps ν]

def Row.cell (r : Row ν) (c : Nat) : Cell ν := r.cells.getD c .missing
def Row.val (r : Row ν) (c : Nat) : Val ν := (r.cell c).val

def cmpHolds (cmp : Cmp) (x c : ν) : Bool :=
  match cmp with
  | .gt => NumOps.lt c x
  | .lt => NumOps.lt x c

/-- a comparison with a non-numeric operand (NULL, absent, string, bool) fails to evaluate and
counts as false -/
def valCmp (cmp : Cmp) (c : ν) (v : Val ν) : Bool :=
  match toNum v with
  | some x => cmpHolds cmp x c
  | none => false

def predHolds (p : Pred ν) (r : Row ν) : Bool := valCmp p.cmp p.c (r.val p.col)

def optPred (p : Option (Pred ν)) (r : Row ν) : Bool :=
  match p with
  | some q => predHolds q r
  | none => true

def argVal (a : ArgSrc ν) (r : Row ν) : Val ν :=
  match a with
  | .col c => r.val c
  | .const v => v

def dfltVal (d : Option (ArgSrc ν)) (r : Row ν) : Val ν :=
  match d with
  | some a => argVal a r
  | none => .null

def lagIn (col : Nat) (d : Option (ArgSrc ν)) (r : Row ν) : LagIn ν := { val := r.val col, dflt := dfltVal d r }

def accIn (col : Nat) (start reset : Option (Pred ν)) (r : Row ν) : AccIn ν :=
  { val := r.val col, start := optPred start r, reset := optPred reset r }

def lagK (offset : Option Int) : Nat :=
  match offset with
  | some n => effOffset n
  | none => 1

def callInit : Call ν → CallSt ν
  | .lag .. => .lag []
  | .latest .. => .latest none
  | .hadChanged .. => .hc none
  | .changedCol .. => .chg none
  | .changedCols .. => .cols []
  | .acc .. => .acc accInit

/-- `applyCall`: evaluate the arguments on the row, `Apply` them to the call's state -/
def callStep (c : Call ν) (s : CallSt ν) (r : Row ν) : CallSt ν × COut ν :=
  match c, s with
  | .lag col off d ign, .lag h =>
    (.lag ((lagMachine (lagK off) (ign.getD true)).step h (lagIn col d r)).1,
     .one ((lagMachine (lagK off) (ign.getD true)).step h (lagIn col d r)).2)
  | .latest col d, .latest st =>
    (.latest (latestMachine.step st (lagIn col d r)).1, .one (latestMachine.step st (lagIn col d r)).2)
  | .hadChanged ign cols, .hc st =>
    (.hc ((hadChangedMachine ign).step st (cols.map r.val)).1, .one (.bool ((hadChangedMachine ign).step st (cols.map r.val)).2))
  | .changedCol ign col, .chg st =>
    (.chg ((changedColMachine ign).step st (r.val col)).1, .one ((changedColMachine ign).step st (r.val col)).2)
  | .changedCols ign cols, .cols st =>
    (.cols ((changedColsMachine ign).step st (cols.map r.val)).1, .many ((changedColsMachine ign).step st (cols.map r.val)).2)
  | .acc kind col start reset, .acc st =>
    (.acc ((accMachine kind start.isSome reset.isSome).step st (accIn col start reset r)).1,
     .one ((accMachine kind start.isSome reset.isSome).step st (accIn col start reset r)).2)
  | _, s => (s, .one .null)

def callsStep : List (Call ν) → List (CallSt ν) → Row ν → List (CallSt ν) × List (COut ν)
  | c :: cs, s :: ss, r => ((callStep c s r).1 :: (callsStep cs ss r).1, (callStep c s r).2 :: (callsStep cs ss r).2)
  | _, ss, _ => (ss, [])

def outVal : COut ν → Val ν
  | .one v => v
  | .many _ => .null

/-- expr-lang `a - b`: int − int is an int, any float operand makes it a float, anything else is
an evaluation error, which the engine turns into NULL -/
def wrapSub (a b : Val ν) : Val ν :=
  match a, b with
  | .int x, .int y => .int (x - y)
  | _, _ =>
    match toNum a, toNum b with
    | some x, some y => .num (NumOps.sub x y)
    | _, _ => .null

def applyWrap (w : Wrap) (r : Row ν) (outs : List (COut ν)) : COut ν :=
  match w with
  | .none => outs.headD (.one .null)
  | .colMinus c => .one (wrapSub (r.val c) (outVal (outs.headD (.one .null))))
  | .selfDiff => .one (wrapSub (outVal (outs.headD (.one .null))) (outVal (outs.tail.headD (.one .null))))

/-- all calls of a field on one row of its partition, then the wrapper -/
def fieldMachine (f : Field ν) : Machine (List (CallSt ν)) (Row ν) (COut ν) where
  init := f.calls.map callInit
  step := fun ss r => ((callsStep f.calls ss r).1, applyWrap f.wrap r (callsStep f.calls ss r).2)

def fieldKeyVals (f : Field ν) (r : Row ν) : List KVal :=
  match f.part with
  | some cs => cs.map (fun c => r.keys.getD c .null)
  | none => []

/-- no PARTITION BY: the single `noPart` state, modelled as the one partition `""` -/
def fieldKey (f : Field ν) (r : Row ν) : List Char := partitionKey (fieldKeyVals f r)

def fieldLive (f : Field ν) (r : Row ν) : Bool := optPred f.when r

abbrev FEng (ν : Type) := Eng (List Char) (List (CallSt ν)) (COut ν)

def fieldEval (cap : Nat) (f : Field ν) (e : FEng ν) (r : Row ν) : FEng ν × Option (COut ν) :=
  evalField cap (fieldMachine f) e (fieldKey f r) (fieldLive f r) r

/-- `AnalyticEngine.Evaluate`: every field engine (SELECT fields, then the WHERE call) on the row -/
def evalAll (cap : Nat) : List (Field ν) → List (FEng ν) → Row ν → List (FEng ν) × List (Option (COut ν))
  | f :: fs, e :: es, r => ((fieldEval cap f e r).1 :: (evalAll cap fs es r).1, (fieldEval cap f e r).2 :: (evalAll cap fs es r).2)
  | _, es, _ => (es, [])

def Query.allFields (q : Query ν) : List (Field ν) := q.fields ++ q.wher.ana.map Prod.fst

def Query.machine (q : Query ν) : Machine (List (FEng ν)) (Row ν) (List (Option (COut ν))) where
  init := q.allFields.map (fun _ => Eng.empty)
  step := evalAll (effCap q.cap) q.allFields

def anaHolds (c : Option (Cmp × ν)) (o : Option (COut ν)) : Bool :=
  match c, o with
  | some p, some (.one v) => valCmp p.1 p.2 v
  | none, some (.one (.bool b)) => b
  | _, _ => false

/-- the rewritten WHERE on the row with the placeholder value injected -/
def Query.post (q : Query ν) (r : Row ν) (outs : List (Option (COut ν))) : Bool :=
  optPred q.wher.plain r &&
    q.wher.ana.zipIdx.all (fun p => anaHolds p.1.2 (outs.getD (q.fields.length + p.2) none))

def Query.uses (q : Query ν) : Bool := !q.wher.ana.isEmpty

/-- one row through `applyWhereAndAnalytic` -/
def Query.step (q : Query ν) (s : List (FEng ν)) (r : Row ν) : List (FEng ν) × Option (List (Option (COut ν))) :=
  stepRow q.uses (optPred q.wher.plain) q.post q.machine s r

/-- `projectAnalytic`: (field index, column index for changed_cols, value) -/
def isChangedCol (f : Field ν) : Bool :=
  match f.calls.head? with
  | some (.changedCol ..) => true
  | _ => false

def manyEntries (i : Nat) : Nat → List (Option (Val ν)) → List (Nat × Option Nat × Val ν)
  | _, [] => []
  | j, none :: rest => manyEntries i (j + 1) rest
  | j, some v :: rest => (i, some j, v) :: manyEntries i (j + 1) rest

def projectField (i : Nat) (f : Field ν) (o : Option (COut ν)) : List (Nat × Option Nat × Val ν) :=
  match o with
  | some (.many cols) => manyEntries i 0 cols
  | some (.one v) => if isChangedCol f && v.isNull then [] else [(i, none, v)]
  | none => match f.calls.head? with
    | some (.changedCols ..) => []
    | _ => if isChangedCol f then [] else [(i, none, .null)]

def projectAll : Nat → List (Field ν) → List (Option (COut ν)) → List (Nat × Option Nat × Val ν)
  | i, f :: fs, o :: os => projectField i f o ++ projectAll (i + 1) fs os
  | _, _, _ => []

end
end Analytic
