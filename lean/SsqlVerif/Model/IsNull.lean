/-
IS [NOT] NULL on the three evaluation paths (C13).
A column is `missing` (key absent from the row map), `null` (Go `nil`, or a typed nil
pointer/slice/map), or `present`.
* `rewritten`  : `functions/expr_bridge.go PreprocessIsNullExpression` turns `f IS NULL` into
  `f == nil` for expr-lang; a map environment yields nil for an absent key.
* `fnPath`     : `is_null(x)` / `is_not_null(x)` (`functions/functions_conditional.go`), also what
  `condition.go:45-56` registers, deciding with `isNilValue`.
* `handWritten`: `expr/evaluator.go evaluateIsOperator` on the value produced by
  `evaluateNodeValueWithNull` (absent field ⇒ NULL).
Core Lean only.
-/
set_option autoImplicit false
namespace IsNull

inductive Cell where
  | missing | null | present
  deriving DecidableEq, Repr

/-- the value an environment lookup yields: `none` = Go nil -/
def lookup : Cell → Option Unit
  | .missing => none
  | .null => none
  | .present => some ()

def rewrittenIsNull (c : Cell) : Bool := (lookup c).isNone          -- `f == nil`
def rewrittenIsNotNull (c : Cell) : Bool := (lookup c).isSome       -- `f != nil`
def fnIsNull (c : Cell) : Bool := match lookup c with | none => true | some _ => false   -- isNilValue
def fnIsNotNull (c : Cell) : Bool := !fnIsNull c
def handIsNull (c : Cell) : Bool := match c with | .present => false | _ => true
def handIsNotNull (c : Cell) : Bool := !handIsNull c

/-- specification: NULL or absent -/
def isNullSpec (c : Cell) : Bool := decide (c = .missing ∨ c = .null)

end IsNull
