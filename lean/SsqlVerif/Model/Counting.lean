/-
Model of `window/counting_window.go` (C09): the single goroutine started by `Start()` takes one
row at a time from `triggerChan` (`Add` only sends to that FIFO channel) and runs one critical
section per row (lines 155–186): append the row to the buffer of its encoded key; if the buffer
holds at least `threshold` rows, cut off the first `threshold` rows as the batch to emit and keep
the remainder.  `reapIdleKeys` (STATETTL) is a separate op that drops the buffers of the keys it
is given (the keys whose `lastActive` is older than the TTL — wall-clock, decided outside).
Generic in the encoded key type `σ` and the row type `ρ`.  Core Lean only.
-/
set_option autoImplicit false

namespace Counting
section
variable {σ ρ : Type} [DecidableEq σ]

/-- `keyedBuffer` as an association list (a key is present at most once) -/
abbrev Bufs (σ ρ : Type) := List (σ × List ρ)

/-- `cw.keyedBuffer[key]` (nil slice when absent) -/
def bufOf : Bufs σ ρ → σ → List ρ
  | [], _ => []
  | e :: rest, k => if e.1 = k then e.2 else bufOf rest k

/-- `cw.keyedBuffer[key] = b` -/
def setBuf : Bufs σ ρ → σ → List ρ → Bufs σ ρ
  | [], k, b => [(k, b)]
  | e :: rest, k, b => if e.1 = k then (k, b) :: rest else e :: setBuf rest k b

/-- `buf := append(cw.keyedBuffer[key], row)` -/
def appended (s : Bufs σ ρ) (k : σ) (r : ρ) : List ρ := bufOf s k ++ [r]

/-- `cw.keyedCount[key] >= cw.threshold` -/
def fires (n : Nat) (s : Bufs σ ρ) (k : σ) (r : ρ) : Bool := decide (n ≤ (appended s k r).length)

/-- the batch handed to the callback / `outputChan`: `buf[:threshold]` -/
def batch (n : Nat) (s : Bufs σ ρ) (k : σ) (r : ρ) : List ρ := (appended s k r).take n

/-- what stays buffered: `buf[threshold:]` after firing, the appended buffer otherwise -/
def kept (n : Nat) (s : Bufs σ ρ) (k : σ) (r : ρ) : List ρ :=
  if fires n s k r then (appended s k r).drop n else appended s k r

/-- one iteration of the goroutine for a row with encoded key `k` -/
def add (n : Nat) (s : Bufs σ ρ) (k : σ) (r : ρ) : Bufs σ ρ × Option (List ρ) :=
  (setBuf s k (kept n s k r), if fires n s k r then some (batch n s k r) else none)

/-- `reapIdleKeys`: delete the buffers of the given (idle) keys -/
def reap (s : Bufs σ ρ) (idle : List σ) : Bufs σ ρ := s.filter fun e => !idle.contains e.1

/-- input ops of the window -/
inductive Op (σ ρ : Type) where
  | row (k : σ) (r : ρ)
  | reap (idle : List σ)

/-- run a history; emissions in delivery order, each tagged with its encoded key -/
def run (n : Nat) : Bufs σ ρ → List (Op σ ρ) → List (σ × List ρ)
  | _, [] => []
  | s, .row k r :: ops =>
    match (add n s k r).2 with
    | some b => (k, b) :: run n (add n s k r).1 ops
    | none => run n (add n s k r).1 ops
  | s, .reap idle :: ops => run n (reap s idle) ops

end
end Counting

/-! ### key derivation as coded (`getKey`, `extractSessionCompositeKey`)

The window looks a GROUP BY column up as a top-level entry of the row.  A *qualified* column —
a dotted path such as `m.location` (joined table column, stored as `row["m"]["location"]`) or
`o.loc` (nested field) — is never found there and contributes the NULL part, whereas the
aggregator resolves the path and groups by the real value.  `qualified` says, per GROUP BY column,
whether it is such a path. -/
namespace Counting

/-- the tuple the window key is built from, given the tuple of real group values -/
def windowTuple {ν : Type} (null : ν) : List Bool → List ν → List ν
  | q :: qs, v :: vs => (if q then null else v) :: windowTuple null qs vs
  | _, vs => vs

end Counting
