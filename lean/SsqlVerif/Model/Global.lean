/-
C17 — model of `window/global_window.go` (GLOBAL WINDOW … TRIGGER WHEN p), one critical section
(`processRow`) per step.  Core Lean only.

Go                                             model
---------------------------------------------  ------------------------------------------------
functions.{Count,Sum,Avg,Min,Max}Function      `Acc`, `Acc.feed`, `Acc.result`
feedAggs / feedTriggerAggs                     `feedOuts`, `feedTrigs`  (`cellOf`: `*` feeds 1)
findAggCalls (document order, per occurrence)  `Pred.leaves`
findOutputSpec                                 `findOutputSpec` (repaired: field names compared exactly)
buildTrigger                                   `trigSpecs` (one per occurrence; bound or own accumulator)
condition.ExprCondition.Evaluate               `evalWith` (expr-lang: NULL ==/!= → false/true, NULL in an
                                               ordering comparison → error; an error aborts ⇒ false)
shouldFire / buildResult                       `shouldFire`, `buildResult`
processRow                                     `step`   (groups map: `State = ε → Option Group`)
getKeyAndValues                                `encGlobal` (= `GroupKey.encWindow "__global__"`: escaped parts joined with "|", nil ↦ `\N`)
The textual part of buildTrigger (regexp, first-occurrence strings.Replace) is not modelled: the
predicate arrives as an AST and is tied to its text by the correspondence check only.
-/
import SsqlVerif.Model.GlobalBasic
import SsqlVerif.Model.GroupKey
set_option autoImplicit false

namespace Global

variable {α κ φ ε ν : Type}

/-! ### running aggregates -/

/-- the fields of the five Go aggregator structs, overlaid:
`n` = `CountFunction.count` / `AvgFunction.count`; `s` = `SumFunction.value` / `AvgFunction.sum` /
`Min/MaxFunction.value`; `has` = `SumFunction.hasValues` / `!Min/MaxFunction.first` -/
structure Acc (ν : Type) where
  n : Nat
  s : ν
  has : Bool

def Acc.init [Num ν] : Acc ν := ⟨0, Num.zero, false⟩

def feedCount (a : Acc ν) (c : Cell ν) : Acc ν :=
  if c.isNil then a else { a with n := a.n + 1 }

def feedSumNum [Num ν] (a : Acc ν) (x : ν) : Acc ν := { a with s := Num.add a.s x, has := true }

def feedAvgNum [Num ν] (a : Acc ν) (x : ν) : Acc ν := { a with s := Num.add a.s x, n := a.n + 1 }

/-- `if f.first || val < f.value { f.value = val; f.first = false }` -/
def feedMinNum [Num ν] (a : Acc ν) (x : ν) : Acc ν :=
  if !a.has || Num.lt x a.s then { a with s := x, has := true } else a

def feedMaxNum [Num ν] (a : Acc ν) (x : ν) : Acc ν :=
  if !a.has || Num.lt a.s x then { a with s := x, has := true } else a

/-- numeric-only aggregators ignore NULL and values that do not convert -/
def onNum (f : Acc ν → ν → Acc ν) (a : Acc ν) (c : Cell ν) : Acc ν :=
  match c.num? with
  | none => a
  | some x => f a x

def Acc.feed [Num ν] : AggFn → Acc ν → Cell ν → Acc ν
  | .count => feedCount
  | .sum => onNum feedSumNum
  | .avg => onNum feedAvgNum
  | .min => onNum feedMinNum
  | .max => onNum feedMaxNum

def hasResult (a : Acc ν) : Option ν := if a.has then some a.s else none

def avgResult [Num ν] (a : Acc ν) : Option ν :=
  if a.n = 0 then none else some (Num.div a.s (Num.ofNat a.n))

/-- `Result()`; `none` is Go `nil` (SQL NULL) -/
def Acc.result [Num ν] : AggFn → Acc ν → Option ν
  | .count, a => some (Num.ofNat a.n)
  | .sum, a => hasResult a
  | .avg, a => avgResult a
  | .min, a => hasResult a
  | .max, a => hasResult a

/-! ### the compiled trigger -/

/-- index of the first SELECT output computing the same aggregate call (type and field) -/
def findOutputSpec [DecidableEq φ] : List (α × AggCall φ) → AggCall φ → Option Nat
  | [], _ => none
  | o :: os, c => if o.2 = c then some 0 else (findOutputSpec os c).map (· + 1)

/-- one `triggerSpec` per aggregate call occurrence of the predicate: the call and, when it is
bound to a SELECT output, that output's index (`prototype == nil` in Go) -/
def trigSpecs [DecidableEq φ] (q : Query α φ ν) : List (AggCall φ × Option Nat) :=
  q.pred.leaves.map fun c => (c, findOutputSpec q.outputs c)

/-- result of evaluating the rewritten predicate in expr-lang -/
inductive Res where
  | err
  | ok (b : Bool)
  deriving DecidableEq, Repr

/-- a comparison whose aggregate is NULL: `nil == x` is false, `nil != x` is true, an ordering
comparison with `nil` is a runtime error -/
def evalNullCmp : Cmp → Res
  | .eq => .ok false
  | .ne => .ok true
  | _ => .err

def evalLeaf [Num ν] (op : Cmp) (v : Option ν) (lit : ν) : Res :=
  match v with
  | none => evalNullCmp op
  | some x => .ok (cmpNum op x lit)

/-- `l && r` : left to right, short-circuit, an error aborts -/
def combAnd : Res → Res → Res
  | .err, _ => .err
  | .ok false, _ => .ok false
  | .ok true, r => r

def combOr : Res → Res → Res
  | .err, _ => .err
  | .ok true, _ => .ok true
  | .ok false, r => r

/-- evaluation against the environment `__trig_i__ ↦ vs[i]` (placeholders in document order) -/
def evalWith [Num ν] : Pred φ ν → List (Option ν) → Res
  | .cmp _ op lit, vs => evalLeaf op (vs.head?).join lit
  | .and l r, vs => combAnd (evalWith l (vs.take l.leaves.length)) (evalWith r (vs.drop l.leaves.length))
  | .or l r, vs => combOr (evalWith l (vs.take l.leaves.length)) (evalWith r (vs.drop l.leaves.length))

/-- the same evaluation reading each aggregate call's value from `f` -/
def evalDirect [Num ν] : Pred φ ν → (AggCall φ → Option ν) → Res
  | .cmp c op lit, f => evalLeaf op (f c) lit
  | .and l r, f => combAnd (evalDirect l f) (evalDirect r f)
  | .or l r, f => combOr (evalDirect l f) (evalDirect r f)

/-! ### per-group state and `processRow` -/

structure Group (κ ν : Type) where
  key : κ                          -- keyValues, refreshed by every row
  outs : List (Acc ν)              -- outputAggs, in the order of `q.outputs`
  trigs : List (Option (Acc ν))    -- triggerAggs, one slot per predicate occurrence; `none` when bound
  wstart : Int
  wend : Int

/-- `gw.groups` -/
abbrev State (ε κ ν : Type) := ε → Option (Group κ ν)

def State.empty : State ε κ ν := fun _ => none

def State.set [DecidableEq ε] (st : State ε κ ν) (e : ε) (g : Group κ ν) : State ε κ ν :=
  fun e' => if e' = e then some g else st e'

def State.erase [DecidableEq ε] (st : State ε κ ν) (e : ε) : State ε κ ν :=
  fun e' => if e' = e then none else st e'

def newTrigSlot [Num ν] (t : AggCall φ × Option Nat) : Option (Acc ν) :=
  if t.2.isSome then none else some Acc.init

/-- `newGroupState` + `gs.windowStart = row.Timestamp` -/
def newGroup [DecidableEq φ] [Num ν] (q : Query α φ ν) (r : Row κ φ ν) : Group κ ν :=
  { key := r.key, outs := q.outputs.map fun _ => Acc.init, trigs := (trigSpecs q).map newTrigSlot,
    wstart := r.ts, wend := r.ts }

def feedOuts [DecidableEq φ] [Num ν] (q : Query α φ ν) (accs : List (Acc ν)) (r : Row κ φ ν) : List (Acc ν) :=
  List.zipWith (fun o a => a.feed o.2.fn (cellOf o.2 r)) q.outputs accs

def feedTrigSlot [DecidableEq φ] [Num ν] (r : Row κ φ ν) (t : AggCall φ × Option Nat) (a : Option (Acc ν)) :
    Option (Acc ν) :=
  a.map fun acc => acc.feed t.1.fn (cellOf t.1 r)

def feedTrigs [DecidableEq φ] [Num ν] (q : Query α φ ν) (ts : List (Option (Acc ν))) (r : Row κ φ ν) :
    List (Option (Acc ν)) :=
  List.zipWith (feedTrigSlot r) (trigSpecs q) ts

/-- the group a row works on: the existing one or a fresh one -/
def groupFor [DecidableEq φ] [Num ν] (q : Query α φ ν) (g? : Option (Group κ ν)) (r : Row κ φ ν) : Group κ ν :=
  g?.getD (newGroup q r)

/-- the group after the row was applied (key values refreshed, end bound moved, aggregates fed) -/
def updated [DecidableEq φ] [Num ν] (q : Query α φ ν) (g? : Option (Group κ ν)) (r : Row κ φ ν) : Group κ ν :=
  { key := r.key,
    outs := feedOuts q (groupFor q g? r).outs r,
    trigs := feedTrigs q (groupFor q g? r).trigs r,
    wstart := (groupFor q g? r).wstart,
    wend := r.ts }

/-- current values of the SELECT outputs (`agg.Result()` per alias) -/
def outVals [Num ν] (q : Query α φ ν) (g : Group κ ν) : List (Option ν) :=
  List.zipWith (fun o a => a.result o.2.fn) q.outputs g.outs

def ownVal [Num ν] (t : AggCall φ × Option Nat) (a : Option (Acc ν)) : Option ν :=
  a.bind fun acc => acc.result t.1.fn

/-- the value `shouldFire` puts into the environment for one placeholder -/
def leafVal [Num ν] (ov : List (Option ν)) (t : AggCall φ × Option Nat) (a : Option (Acc ν)) : Option ν :=
  match t.2 with
  | some j => (ov[j]?).join
  | none => ownVal t a

def trigVals [DecidableEq φ] [Num ν] (q : Query α φ ν) (g : Group κ ν) : List (Option ν) :=
  List.zipWith (leafVal (outVals q g)) (trigSpecs q) g.trigs

def shouldFire [DecidableEq φ] [Num ν] (q : Query α φ ν) (g : Group κ ν) : Bool :=
  evalWith q.pred (trigVals q g) = .ok true

def buildResult [Num ν] (q : Query α φ ν) (g : Group κ ν) : Result κ ν :=
  { key := g.key, vals := outVals q g, wstart := g.wstart, wend := g.wend }

/-- `processRow`: update the row's group, test the predicate; on a hit deliver and purge -/
def step [DecidableEq φ] [DecidableEq ε] [Num ν] (enc : κ → ε) (q : Query α φ ν)
    (st : State ε κ ν) (r : Row κ φ ν) : State ε κ ν × Option (Result κ ν) :=
  if shouldFire q (updated q (st (enc r.key)) r) then
    (st.erase (enc r.key), some (buildResult q (updated q (st (enc r.key)) r)))
  else
    (st.set (enc r.key) (updated q (st (enc r.key)) r), none)

def runFrom [DecidableEq φ] [DecidableEq ε] [Num ν] (enc : κ → ε) (q : Query α φ ν) :
    State ε κ ν → List (Row κ φ ν) → List (Option (Result κ ν))
  | _, [] => []
  | st, r :: rs => (step enc q st r).2 :: runFrom enc q (step enc q st r).1 rs

def stateFrom [DecidableEq φ] [DecidableEq ε] [Num ν] (enc : κ → ε) (q : Query α φ ν) :
    State ε κ ν → List (Row κ φ ν) → State ε κ ν
  | st, [] => st
  | st, r :: rs => stateFrom enc q (step enc q st r).1 rs

/-- per row: the delivered result, if the row made its group fire -/
def run [DecidableEq φ] [DecidableEq ε] [Num ν] (enc : κ → ε) (q : Query α φ ν)
    (rows : List (Row κ φ ν)) : List (Option (Result κ ν)) :=
  runFrom enc q State.empty rows

def stateAfter [DecidableEq φ] [DecidableEq ε] [Num ν] (enc : κ → ε) (q : Query α φ ν)
    (rows : List (Row κ φ ν)) : State ε κ ν :=
  stateFrom enc q State.empty rows

/-- what `processRow` delivers for `r` after the rows `pre` -/
def outAt [DecidableEq φ] [DecidableEq ε] [Num ν] (enc : κ → ε) (q : Query α φ ν)
    (pre : List (Row κ φ ν)) (r : Row κ φ ν) : Option (Result κ ν) :=
  (step enc q (stateAfter enc q pre) r).2

/-! ### the group-key encoder of `getKeyAndValues` (shared `window/group_key.go`, modelled for C04) -/

/-- a key part: `nil` (absent or NULL) or a string -/
abbrev KeyPart := Option (List Char)

/-- `"__global__"` without GROUP BY keys; otherwise the parts, `|` and `\` escaped, NULL as `\N`,
joined with `|` — `GroupKey.encWindow` is the model C04 proves injective -/
def encGlobal (k : List KeyPart) : List Char := GroupKey.encWindow "__global__".toList k

end Global
