/-
C15 — input vocabulary shared by the model (`Model/CepNfa`, `Model/Cep`) and the spec
(`Spec/Cep`): pattern variables, the pattern tree as the parser builds it
(`types.PatternNode`), its lowering to the core regular-expression tree the theorems speak
about, and the AFTER MATCH SKIP modes (`types.AfterMatchSkip`).  Nothing here is engine state.
Core Lean only.
-/
set_option autoImplicit false

namespace Cep

/-- a pattern variable (`A`, `B`, …); the driver numbers the names of a query -/
abbrev Sym := Nat

/-- Core pattern tree.  `rep p min max` is Go's `Quantifier{Min, Max}` with `Max < 0` = `none`. -/
inductive Pat where
  | lit (a : Sym)
  | empty                                        -- empty sequence / empty group / `{0}` (Go `newEpsFrag`)
  | seq (p q : Pat)
  | alt (p q : Pat)
  | rep (p : Pat) (min : Nat) (max : Option Nat)
  deriving DecidableEq, Repr, Inhabited

/-- `types.PatternNode` as produced by `rsql/parser_match_pattern.go` (n-ary, with groups,
PERMUTE and the exclusion node that `Compile` rejects). -/
inductive PNode where
  | lit (a : Sym)
  | seq (cs : List PNode)
  | alt (cs : List PNode)
  | group (cs : List PNode)
  | rep (c : PNode) (min max : Int) (greedy : Bool)
  | permute (cs : List PNode)
  | exclusion
  deriving Repr, Inhabited

/-- `types.AfterMatchSkip` (`SkipToVariable` behaves as `toLast`, see `skipTo`) -/
inductive Skip where
  | pastLast
  | nextRow
  | toFirst (a : Option Sym)      -- `none`: empty SkipSymbol (falls back to past-last-row)
  | toLast (a : Option Sym)
  deriving DecidableEq, Repr, Inhabited

/-! ### lowering `PNode → Pat` (mirrors `compileNode`'s folds) -/

/-- Go `permutations(n)`: all permutations of `[0,n)`, built by inserting `n-1` at every
position of every permutation of `[0,n-1)`, in that order. -/
def insertAt (x : Nat) (s : List Nat) (i : Nat) : List Nat := s.take i ++ x :: s.drop i

def permutations : Nat → List (List Nat)
  | 0 => [[]]
  | n+1 => (permutations n).flatMap fun s => (List.range (s.length + 1)).map (insertAt n s)

/-- left fold `f = concat(f, cf)`; the empty sequence is the ε fragment -/
def seqOf : List Pat → Pat
  | [] => .empty
  | [p] => p
  | p :: ps => .seq p (seqOf ps)

/-- left fold `f = alt(f, cf)` -/
def altFold (acc : Pat) : List Pat → Pat
  | [] => acc
  | p :: ps => altFold (.alt acc p) ps

def altOf : List Pat → Pat
  | [] => .empty
  | p :: ps => altFold p ps

/-- `compilePermute`: alternation of the sequences of all permutations (each permutation
re-compiles its children: independent states). -/
def permAlt (ps : List Pat) : Pat :=
  altOf ((permutations ps.length).map fun perm => seqOf (perm.map fun i => ps.getD i .empty))

/-- errors of `Compile` -/
inductive CompileErr where
  | minNegative | maxLtMin | permuteTooLarge | exclusion
  deriving DecidableEq, Repr

mutual
/-- `compileNode` up to the construction of states: which core tree is compiled, or which error -/
def lower : PNode → Except CompileErr Pat
  | .lit a => .ok (.lit a)
  | .seq cs => (lowerList cs).map seqOf
  | .alt cs => (lowerList cs).map altOf
  | .group cs => (lowerHead cs)
  | .rep c mn mx _ =>
    -- `compileRepeat`: Min<0 is rejected first; `{0}` / `{0,0}` never compiles the child
    if mn < 0 then .error .minNegative
    else if mn = 0 ∧ mx = 0 then .ok .empty
    else match lower c with
      | .error e => .error e
      | .ok p =>
        if mx < 0 then .ok (.rep p mn.toNat none)
        else if mx < mn then .error .maxLtMin
        else .ok (.rep p mn.toNat (some mx.toNat))
  | .permute cs =>
    if cs.length > 6 then .error .permuteTooLarge
    else (lowerList cs).map permAlt
  | .exclusion => .error .exclusion
def lowerList : List PNode → Except CompileErr (List Pat)
  | [] => .ok []
  | c :: cs =>
    match lower c, lowerList cs with
    | .ok p, .ok ps => .ok (p :: ps)
    | .error e, _ => .error e
    | _, .error e => .error e
/-- `PatternGroup`: compiles `Children[0]` only -/
def lowerHead : List PNode → Except CompileErr Pat
  | [] => .ok .empty
  | c :: _ => lower c
end

mutual
/-- `hasReluctant`: some quantifier in the tree is reluctant -/
def hasReluctant : PNode → Bool
  | .lit _ => false
  | .seq cs => hasReluctantList cs
  | .alt cs => hasReluctantList cs
  | .group cs => hasReluctantList cs
  | .rep c _ _ g => !g || hasReluctant c
  | .permute cs => hasReluctantList cs
  | .exclusion => false
def hasReluctantList : List PNode → Bool
  | [] => false
  | c :: cs => hasReluctant c || hasReluctantList cs
end

end Cep
