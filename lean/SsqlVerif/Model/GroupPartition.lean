/-
Model of the grouping step of `aggregator/group_aggregator.go` (`Add` / `GetResults`):
`groups` and `groupKeyVals` are maps keyed by the *encoded* key string; the first row of a
group stores its typed key values, every row is added to the accumulators of its key.
The two accumulators the property observes are `count(*)` and `collect(id)`; both are
determined by the list of member ids in arrival order, which is what the model keeps.
Go map iteration order of `GetResults` is not part of the behaviour (the harness sorts);
the model keeps first-seen order.  Generic in key type `κ`, encoded type `σ`, row id `ι`.
Core Lean only.
-/
set_option autoImplicit false

namespace GroupPart
section
variable {κ σ ι : Type} [DecidableEq σ] (enc : κ → σ)

/-- one entry of `groups` + `groupKeyVals`: encoded key, first-seen typed key, member ids -/
abbrev Entry (κ σ ι : Type) := σ × κ × List ι

/-- `Add(row)`: find the entry of the row's encoded key or create it -/
def insertRow : List (Entry κ σ ι) → κ × ι → List (Entry κ σ ι)
  | [], r => [(enc r.1, r.1, [r.2])]
  | e :: rest, r =>
    if e.1 = enc r.1 then (e.1, e.2.1, e.2.2 ++ [r.2]) :: rest
    else e :: insertRow rest r

/-- a whole batch -/
def groups (rows : List (κ × ι)) : List (Entry κ σ ι) := rows.foldl (insertRow enc) []

/-- `GetResults`: the typed key values and the aggregated members of every group -/
def results (rows : List (κ × ι)) : List (κ × List ι) := (groups enc rows).map fun e => e.2

end
end GroupPart
