/-
Specification of C07: what relational evaluation prescribes for one emitted batch.

For the groups `gs` of a batch (keys pairwise different) and a query
`SELECT [DISTINCT] g, e₁ AS a₁, … GROUP BY g HAVING p ORDER BY k₁ [DESC], … LIMIT n`:

* the output row of a group has the group column and, per item, the value of the item's
  arithmetic applied to the group's aggregate values (`specRow`);
* HAVING is the predicate over the group's aggregates and the output columns (`specHaving`);
* the batch is `limit n (sortBy keys (distinct (rows of the groups satisfying HAVING)))`.

Because the pre-sort order of the groups is not defined (Go map order), the oracle for an
*observed* batch is `valid`: the delivered rows are some legal outcome — they are candidate rows
without repetition, sorted w.r.t. the keys, as many as LIMIT allows, and no omitted candidate
sorts strictly before a delivered row.

Shares only vocabulary with the model (AST, values, the aggregate definitions `aggEval` that are
C03's subject, the value comparator `cmpVal`/`lessBy` that *is* the ORDER BY definition);
never mentions templates, placeholders or hidden columns.  Core Lean only.
-/
import SsqlVerif.Model.PostAgg
set_option autoImplicit false

namespace PostAgg
namespace Spec

abbrev SRow (ν : Type) := List (Name × Val ν)

section
variable {ν : Type} (N : Num ν)

/-- value of an expression over aggregates for one group; `env` resolves output-column references -/
def exprVal (env : Name → Option (Val ν)) (rows : List (InRow ν)) : Expr ν → Option ν
  | .agg f a => aggEval N f a rows
  | .lit x => some x
  | .bin o l r => bin2 (applyOp N o) (exprVal env rows l) (exprVal env rows r)
  | .ref n => numOf (env n)

def noEnv : Name → Option (Val ν) := fun _ => none

/-- the row a group contributes: group column, then one column per SELECT item -/
def specRow (q : Query ν) (g : Group ν) : SRow ν :=
  (q.gcol, g.key) :: q.items.map (fun it => (it.1, optVal (exprVal N noEnv g.rows it.2)))

def predVal (env : Name → Option (Val ν)) (rows : List (InRow ν)) : Pred ν → Option Bool
  | .cmp c l r => cmp2 N c (exprVal N env rows l) (exprVal N env rows r)
  | .and p q => and2 (predVal env rows p) (predVal env rows q)
  | .or p q => or2 (predVal env rows p) (predVal env rows q)

def specHaving (q : Query ν) (g : Group ν) : Bool :=
  match q.having with
  | none => true
  | some p => predVal N (fun n => lookupIn n (specRow N q g)) g.rows p == some true

def specLess (q : Query ν) : SRow ν → SRow ν → Bool := lessBy N lookupIn q.orderBy

end

/-- keep the first occurrence of every row -/
def dedup {α : Type} [DecidableEq α] : List α → List α
  | [] => []
  | x :: xs => x :: (dedup xs).filter (fun y => decide (y ≠ x))

section
variable {ν : Type} (N : Num ν) [DecidableEq ν]

/-- candidate rows of a batch: HAVING, projection, DISTINCT -/
def candidates (q : Query ν) (gs : List (Group ν)) : List (SRow ν) :=
  let rows := (gs.filter (specHaving N q)).map (specRow N q)
  if q.distinct then dedup rows else rows

/-- the batch for a given pre-sort order of the groups -/
def run (q : Query ν) (gs : List (Group ν)) : List (SRow ν) :=
  applyLimit q.limit (sortBy (specLess N q) (candidates N q gs))

def limitLen : Option Nat → Nat → Nat
  | none, m => m
  | some n, m => min n m

def sortedBy {α : Type} (less : α → α → Bool) : List α → Bool
  | [] => true
  | x :: xs => xs.all (fun y => !less y x) && sortedBy less xs

def nodupB {α : Type} [DecidableEq α] : List α → Bool
  | [] => true
  | x :: xs => !(xs.contains x) && nodupB xs

/-- oracle for an observed batch `out` (any pre-sort order of the groups).  `clause` names the
first failing condition. -/
def validClause (q : Query ν) (gs : List (Group ν)) (out : List (SRow ν)) : Option String :=
  let cand := candidates N q gs
  if !out.all (fun r => cand.contains r) then some "row-not-a-candidate"
  else if !nodupB out then some "row-delivered-twice"
  else if out.length != limitLen q.limit cand.length then some "row-count"
  else if !sortedBy (specLess N q) out then some "not-sorted"
  else if !(cand.all fun c => out.contains c || out.all (fun x => !specLess N q c x)) then some "omitted-row-sorts-before-delivered"
  else none

def valid (q : Query ν) (gs : List (Group ν)) (out : List (SRow ν)) : Bool :=
  (validClause N q gs out).isNone

end
end Spec
end PostAgg
