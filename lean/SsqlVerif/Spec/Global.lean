/-
C17 — specification, the way a user would say it.  Core Lean only; no engine state.

For each group, `seg` = the rows of that group received since the group last produced a result
(including the row just received).  After a row, its group produces a result iff the TRIGGER WHEN
predicate is TRUE (SQL three-valued logic) on the aggregates of `seg`; the result carries the group
columns and the SELECT aggregates of exactly `seg`; afterwards the group's segment is empty again.
Rows of other groups are not in `seg`.
-/
import SsqlVerif.Model.GlobalBasic
set_option autoImplicit false

namespace Global
namespace Spec

variable {α κ φ ν : Type}

/-! ### aggregates of a list of cells (values listed in arrival order) -/

def nums (cs : List (Cell ν)) : List ν := cs.filterMap Cell.num?

/-- sum of the values in arrival order -/
def sumL [Num ν] (xs : List ν) : ν := xs.foldl Num.add Num.zero

/-- the extreme element under `better` (`better y m` = "y replaces the current extreme m") -/
def extL (better : ν → ν → Bool) : List ν → Option ν
  | [] => none
  | x :: xs => some (xs.foldl (fun m y => if better y m then y else m) x)

/-- COUNT counts non-NULL cells; SUM/AVG/MIN/MAX range over the numeric cells and are NULL when
there is none; AVG = SUM / number of numeric cells -/
def aggList [Num ν] : AggFn → List (Cell ν) → Option ν
  | .count, cs => some (Num.ofNat (cs.filter fun c => !c.isNil).length)
  | .sum, cs => if (nums cs).isEmpty then none else some (sumL (nums cs))
  | .avg, cs => if (nums cs).isEmpty then none else some (Num.div (sumL (nums cs)) (Num.ofNat (nums cs).length))
  | .min, cs => extL (fun y m => Num.lt y m) (nums cs)
  | .max, cs => extL (fun y m => Num.lt m y) (nums cs)

/-- the aggregate call evaluated over exactly the rows `seg` -/
def aggOf [DecidableEq φ] [Num ν] (c : AggCall φ) (seg : List (Row κ φ ν)) : Option ν :=
  aggList c.fn (seg.map (cellOf c))

/-! ### the predicate under SQL three-valued logic (`none` = UNKNOWN) -/

def and3 : Option Bool → Option Bool → Option Bool
  | some false, _ => some false
  | _, some false => some false
  | some true, some true => some true
  | _, _ => none

def or3 : Option Bool → Option Bool → Option Bool
  | some true, _ => some true
  | _, some true => some true
  | some false, some false => some false
  | _, _ => none

def holds3 [DecidableEq φ] [Num ν] (seg : List (Row κ φ ν)) : Pred φ ν → Option Bool
  | .cmp c op lit => (aggOf c seg).map fun x => cmpNum op x lit
  | .and l r => and3 (holds3 seg l) (holds3 seg r)
  | .or l r => or3 (holds3 seg l) (holds3 seg r)

/-- TRIGGER WHEN fires on TRUE only -/
def predTrue [DecidableEq φ] [Num ν] (p : Pred φ ν) (seg : List (Row κ φ ν)) : Bool :=
  holds3 seg p = some true

/-! ### segments, from the observed history -/

/-- `hist` lists the earlier rows, most recent first, each with "its group produced a result at this
row".  `openSeg k hist` = the rows of group `k` since that group last produced a result, in arrival
order. -/
def openSeg [DecidableEq κ] (k : κ) : List (Row κ φ ν × Bool) → List (Row κ φ ν)
  | [] => []
  | (r, fired) :: rest =>
    if r.key = k then (if fired then [] else openSeg k rest ++ [r]) else openSeg k rest

def firstTs (seg : List (Row κ φ ν)) (dflt : Int) : Int :=
  match seg with
  | [] => dflt
  | r :: _ => r.ts

/-- the result the group of `r` must deliver when it fires on segment `seg` (which ends with `r`) -/
def expected [DecidableEq φ] [Num ν] (q : Query α φ ν) (seg : List (Row κ φ ν)) (r : Row κ φ ν) : Result κ ν :=
  { key := r.key, vals := q.outputs.map fun o => aggOf o.2 seg, wstart := firstTs seg r.ts, wend := r.ts }

def optEq (eqv : ν → ν → Bool) : Option ν → Option ν → Bool
  | none, none => true
  | some a, some b => eqv a b
  | _, _ => false

def valsEq (eqv : ν → ν → Bool) : List (Option ν) → List (Option ν) → Bool
  | [], [] => true
  | a :: as, b :: bs => optEq eqv a b && valsEq eqv as bs
  | _, _ => false

/-- verdict on one row -/
inductive Verdict where
  | ok
  | firedNotTrue        -- a result although the predicate is not TRUE on the segment
  | trueNotFired        -- the predicate is TRUE on the segment but no result
  | wrongGroupColumns
  | wrongAggregates     -- the result is not the aggregates of exactly the segment
  | wrongBounds
  deriving DecidableEq, Repr

/-- `eqv` compares two result values (bitwise equality in the driver); `bounds = false` skips the
window-bound clause (bounds are wall-clock times outside the synchronous drive) -/
def resultVerdict [DecidableEq κ] (eqv : ν → ν → Bool) (bounds : Bool) (want got : Result κ ν) : Verdict :=
  if got.key ≠ want.key then .wrongGroupColumns
  else if !valsEq eqv got.vals want.vals then .wrongAggregates
  else if bounds && (got.wstart ≠ want.wstart || got.wend ≠ want.wend) then .wrongBounds
  else .ok

def stepVerdict [DecidableEq κ] [DecidableEq φ] [Num ν] (eqv : ν → ν → Bool) (bounds : Bool)
    (q : Query α φ ν) (seg : List (Row κ φ ν)) (r : Row κ φ ν) (o : Option (Result κ ν)) : Verdict :=
  match o with
  | none => if predTrue q.pred seg then .trueNotFired else .ok
  | some res => if predTrue q.pred seg then resultVerdict eqv bounds (expected q seg r) res else .firedNotTrue

/-- first failing row (index, verdict) of an observed trace, `none` when every row is as specified -/
def checkFrom [DecidableEq κ] [DecidableEq φ] [Num ν] (eqv : ν → ν → Bool) (bounds : Bool) (q : Query α φ ν) :
    Nat → List (Row κ φ ν × Bool) → List (Row κ φ ν) → List (Option (Result κ ν)) → Option (Nat × Verdict)
  | _, _, [], _ => none
  | _, _, _ :: _, [] => none
  | i, hist, r :: rows, o :: outs =>
    if stepVerdict eqv bounds q (openSeg r.key hist ++ [r]) r o = .ok then
      checkFrom eqv bounds q (i + 1) ((r, o.isSome) :: hist) rows outs
    else some (i, stepVerdict eqv bounds q (openSeg r.key hist ++ [r]) r o)

/-- the property on an observed trace: `outs[i]` is what was delivered at row `i` -/
def holds [DecidableEq κ] [DecidableEq φ] [Num ν] (eqv : ν → ν → Bool) (bounds : Bool) (q : Query α φ ν)
    (rows : List (Row κ φ ν)) (outs : List (Option (Result κ ν))) : Bool :=
  rows.length = outs.length && (checkFrom eqv bounds q 0 [] rows outs).isNone

/-! ### where the engine's evaluator and SQL can part: NULL aggregates in the predicate -/

/-- no `!=` comparison and no OR -/
def conjNoNe : Pred φ ν → Bool
  | .cmp _ op _ => op ≠ .ne
  | .and l r => conjNoNe l && conjNoNe r
  | .or _ _ => false

def allNonNull [DecidableEq φ] [Num ν] (p : Pred φ ν) (seg : List (Row κ φ ν)) : Bool :=
  p.leaves.all fun c => (aggOf c seg).isSome

/-- decidable hypothesis of the `_partial` theorems at one evaluation point: every aggregate the
predicate mentions is non-NULL on the segment, or the predicate is a conjunction without `!=` -/
def pointSafe [DecidableEq φ] [Num ν] (p : Pred φ ν) (seg : List (Row κ φ ν)) : Bool :=
  allNonNull p seg || conjNoNe p

end Spec
end Global
