/-
C19 as a user would say it, over what can be seen from outside an instance:
the rows handed to `Emit` (`calls`), the `Emit` calls that have returned (`rets`), the rows a
sync sink of `SELECT p, k FROM stream` has seen, in order (`procs`), and the `GetStats()`
counters `input_count`, `input_dropped_count`, `data_chan_len`, `data_chan_cap`.
Declarative and executable; never mentions model state.  Core Lean only.
-/
set_option autoImplicit false

namespace IngestSpec

/-- (producer, sequence number within the producer) -/
abbrev Row := Nat × Nat

/-- externally known configuration -/
structure Kfg where
  block   : Bool        -- overflow strategy "block"
  timeout : Bool        -- BlockTimeout > 0
  cap0    : Nat         -- DataChannelSize
  maxCap  : Nat         -- MaxBufferSize (0 = none)
  deriving Repr

/-- one look at the instance -/
structure Obs where
  calls   : List Row
  rets    : List Row
  procs   : List Row
  input   : Nat
  dropped : Nat
  len     : Nat
  cap     : Nat
  stopped : Bool        -- Stop has been called
  deriving Repr

def nodupB : List Row → Bool
  | [] => true
  | x :: xs => !xs.contains x && nodupB xs

def increasing : List Nat → Bool
  | [] => true
  | [_] => true
  | a :: b :: r => decide (a < b) && increasing (b :: r)

/-- the sequence numbers of producer `p`'s rows, in the order they were processed -/
def seqsOf (p : Nat) (l : List Row) : List Nat := (l.filter (fun r => r.1 == p)).map (·.2)

/-- a single producer's rows are processed in emission order -/
def ordered (l : List Row) : Bool := l.all (fun r => increasing (seqsOf r.1 l))

def subsetB (a b : List Row) : Bool := a.all (fun r => b.contains r)

/-- no row is processed twice, and only emitted rows are processed -/
def onceOnly (o : Obs) : Bool := nodupB o.procs && subsetB o.procs o.calls

/-- processed + dropped (+ still buffered) never exceeds the Emit calls, and every call is counted -/
def counted (o : Obs) : Bool :=
  o.input == o.calls.length && decide (o.procs.length + o.dropped + o.len ≤ o.calls.length)

/-- every returned Emit is processed, counted as dropped, or still in the input buffer -/
def accounted (o : Obs) : Bool :=
  o.stopped || decide (o.rets.length ≤ o.procs.length + o.dropped + o.len)

/-- quiescent (all Emit calls returned, buffer drained): processed + dropped = Emit calls -/
def conserved (o : Obs) : Bool :=
  o.stopped || !(o.rets.length == o.calls.length && o.len == 0) ||
    o.procs.length + o.dropped == o.calls.length

def blockNeverDrops (k : Kfg) (o : Obs) : Bool := !(k.block && !k.timeout) || o.dropped == 0

def capBounded (k : Kfg) (o : Obs) : Bool :=
  (k.maxCap == 0 || decide (o.cap ≤ max k.maxCap k.cap0)) && (o.stopped || decide (k.cap0 ≤ o.cap))

/-- the clauses with their names (the driver reports the first failing one) -/
def clauses (k : Kfg) (o : Obs) : List (String × Bool) :=
  [("once-only", onceOnly o), ("order", ordered o.procs), ("counted", counted o),
   ("accounted", accounted o), ("conserved", conserved o),
   ("block-never-drops", blockNeverDrops k o), ("capacity", capBounded k o)]

def holds (k : Kfg) (o : Obs) : Bool := (clauses k o).all (·.2)

/-- the capacity never shrinks between two looks (no Stop in between) -/
def capMonotone (before after : Obs) : Bool := after.stopped || decide (before.cap ≤ after.cap)

end IngestSpec
