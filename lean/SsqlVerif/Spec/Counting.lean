/-
Specification of counting windows (C09): for each key, the results delivered for that key are
the consecutive full chunks of `N` of that key's rows in arrival order; a trailing short chunk
produces nothing.  Never mentions buffers.  Core Lean only.
-/
set_option autoImplicit false

namespace CountingSpec
section
variable {ρ : Type}

/-- the full chunks of size `n` of `l`: chunk number `i` (from 0) is rows `i*n+1 … (i+1)*n`;
there are `⌊|l| / n⌋` of them, so fewer than `n` trailing rows produce nothing -/
def fullChunks (n : Nat) (l : List ρ) : List (List ρ) :=
  (List.range (l.length / n)).map fun i => (l.drop (i * n)).take n

variable {σ : Type} [DecidableEq σ]

/-- rows of key `k`, in arrival order -/
def rowsOf (rows : List (σ × ρ)) (k : σ) : List ρ :=
  (rows.filter fun r => decide (r.1 = k)).map Prod.snd

/-- emissions delivered for key `k`, in delivery order -/
def emissionsOf (ems : List (σ × List ρ)) (k : σ) : List (List ρ) :=
  (ems.filter fun e => decide (e.1 = k)).map Prod.snd

/-- executable form of the property for a finite set of keys -/
def holds [DecidableEq ρ] (n : Nat) (rows : List (σ × ρ)) (ems : List (σ × List ρ)) (keys : List σ) : Bool :=
  keys.all fun k => decide (emissionsOf ems k = fullChunks n (rowsOf rows k))

end
end CountingSpec
