/-
Specification of counting windows (C09): for each key, the results delivered for that key are
the consecutive full chunks of `N` of that key's rows in arrival order; a trailing short chunk
produces nothing.  Never mentions buffers.  Core Lean only.
-/
set_option autoImplicit false

namespace CountingSpec
section
variable {ρ : Type}

/-- the full chunks of size `n` of `l`, in order (`fuel` bounds the number of chunks; `fullChunks`
supplies `l.length`, which is always enough) -/
def chunksFuel (n : Nat) : Nat → List ρ → List (List ρ)
  | 0, _ => []
  | fuel + 1, l => if n ≤ l.length then l.take n :: chunksFuel n fuel (l.drop n) else []

def fullChunks (n : Nat) (l : List ρ) : List (List ρ) := chunksFuel n l.length l

variable {σ : Type} [DecidableEq σ]

/-- rows of key `k`, in arrival order -/
def rowsOf (rows : List (σ × ρ)) (k : σ) : List ρ :=
  (rows.filter fun r => decide (r.1 = k)).map Prod.snd

/-- emissions delivered for key `k`, in delivery order -/
def emissionsOf (ems : List (σ × List ρ)) (k : σ) : List (List ρ) :=
  (ems.filter fun e => decide (e.1 = k)).map Prod.snd

/-- executable form of the property for a finite set of keys -/
def holds [DecidableEq ρ] (n : Nat) (rows : List (σ × ρ)) (ems : List (σ × List ρ)) (keys : List σ) : Bool :=
  keys.all fun k => decide (emissionsOf ems k = fullChunks n (rowsOf rows k))

end
end CountingSpec
