/-
Spec for C05: what a user means by a non-aggregate query.

A SELECT list is a list of *items*; an item is `*`, a column / nested path (dotted components, each
with `[i]` / `['k']` subscripts), a back-quoted column, or a quoted literal — optionally `AS alias`.
The result of one row is `none` iff the WHERE predicate is not true for the row, otherwise exactly one
column per item, named by the alias (or the item's text), holding the value found by walking the row
*structurally*; anything not found is NULL.  Nothing here looks at strings being parsed or at any state.

`toConfig` is the (trusted, correspondence-checked) description of what the SQL front end hands to the
stream for such a SELECT list (`rsql.ToStreamConfig`: `SimpleFields`, `FieldExpressions`).
-/
import SsqlVerif.Model.Pipeline
set_option autoImplicit false

namespace PipeSpec
open Pipe

/-- a subscript: `[i]` or `['k']` -/
inductive Sub where
  | idx (i : Int)
  | key (k : Str)
  deriving DecidableEq, Repr

/-- one dotted component with its subscripts: `name[i]['k']…` -/
structure Comp where
  name : Str
  subs : List Sub
  deriving DecidableEq, Repr

inductive Src where
  | star
  | path (first : Comp) (rest : List Comp)
  | bqcol (name : Str)
  | lit (s : Str)
  deriving DecidableEq, Repr

structure Item where
  src : Src
  alias : Option Str := none
  aliasBq : Bool := false        -- alias written in back quotes
  deriving DecidableEq, Repr

/-! ### structural lookup -/

/-- element `i` of a list; a negative `i` counts from the end -/
def nth (xs : List Value) (i : Int) : Option Value :=
  if 0 ≤ i then xs[i.toNat]?
  else if i.natAbs ≤ xs.length then xs[xs.length - i.natAbs]?
  else none

/-- `v[i]` / `v['k']`: lists are indexed by position, maps by key (a number is looked up as its
decimal text); everything else has no elements -/
def subLookup (v : Value) : Sub → Option Value
  | .idx i =>
    match v with
    | .list xs => nth xs i
    | .map kvs => lookupKey (itoa i) kvs
    | _ => none
  | .key k =>
    match v with
    | .map kvs => lookupKey k kvs
    | _ => none

def walkSubs : Value → List Sub → Option Value
  | v, [] => some v
  | v, s :: ss => (subLookup v s).bind fun v' => walkSubs v' ss

/-- `v.name[…]…`: only maps have fields -/
def compLookup (v : Value) (c : Comp) : Option Value :=
  match v with
  | .map kvs => (lookupKey c.name kvs).bind fun v' => walkSubs v' c.subs
  | _ => none

def walkComps : Value → List Comp → Option Value
  | v, [] => some v
  | v, c :: cs => (compLookup v c).bind fun v' => walkComps v' cs

/-- `none` = some step of the path does not exist in the row -/
def pathLookup (row : Row) (first : Comp) (rest : List Comp) : Option Value :=
  walkComps (.map row) (first :: rest)

/-! ### text of an item -/

def renderSub : Sub → Str
  | .idx i => '[' :: (itoa i ++ [']'])
  | .key k => '[' :: '\'' :: (k ++ ['\'', ']'])

def renderSubs : List Sub → Str
  | [] => []
  | s :: ss => renderSub s ++ renderSubs ss

def renderComp (c : Comp) : Str := c.name ++ renderSubs c.subs

def renderRest : List Comp → Str
  | [] => []
  | c :: cs => '.' :: (renderComp c ++ renderRest cs)

def renderPath (first : Comp) (rest : List Comp) : Str := renderComp first ++ renderRest rest

def srcText : Src → Str
  | .star => ['*']
  | .path f r => renderPath f r
  | .bqcol n => '`' :: (n ++ ['`'])
  | .lit s => '\'' :: (s ++ ['\''])

/-- column name when there is no alias: the item's text; for a literal its content, for a back-quoted
column the name without the quotes -/
def defaultName : Src → Str
  | .star => ['*']
  | .path f r => renderPath f r
  | .bqcol n => n
  | .lit s => s

def outName (it : Item) : Str := it.alias.getD (defaultName it.src)

/-! ### the result -/

def itemValue (row : Row) : Src → Value
  | .star => .null
  | .path f r => (pathLookup row f r).getD .null
  | .bqcol n => (lookupKey n row).getD .null
  | .lit s => .str s

def isStarOnly : List Item → Bool
  | [it] => it.src == .star
  | _ => false

/-- the columns of the result row (as a list; the result is a map: order is immaterial) -/
def selectedColumns (items : List Item) (row : Row) : Row :=
  if isStarOnly items then row else items.map fun it => (outName it, itemValue row it.src)

/-- C05, row-wise: `none` iff WHERE is not true, else exactly the selected columns -/
def directSpec (whereTrue : Row → Bool) (items : List Item) (row : Row) : Option Row :=
  if whereTrue row then some (selectedColumns items row) else none

/-! ### well-formed items (the quantifier of the property: "SELECT lists of the supported grammar") -/

def identChar (c : Char) : Bool := c.isAlphanum || c = '_'

def isIdent (s : Str) : Bool := !s.isEmpty && s.all identChar

/-- key text inside `['…']`: identifier characters (may be empty) -/
def isKeyText (s : Str) : Bool := s.all identChar

/-- back-quoted names may also contain blanks -/
def isBqName (s : Str) : Bool := !s.isEmpty && s.all fun c => identChar c || c = ' '

/-- literal content: identifier characters, blank, `:`, `.`, `-` -/
def litChar (c : Char) : Bool := identChar c || c = ' ' || c = ':' || c = '.' || c = '-'

def subWF : Sub → Bool
  | .idx i => decide (-(int64Bound : Int) ≤ i) && decide (i < (int64Bound : Int))
  | .key k => isKeyText k

def compWF (c : Comp) : Bool := isIdent c.name && c.subs.all subWF

/-- inside a SELECT list a negative subscript makes the item an arithmetic *expression* for the SQL front
end (evaluated by the expression engine, property C06), so the projection grammar has `0 ≤ i` -/
def subSel : Sub → Bool
  | .idx i => decide (0 ≤ i)
  | .key _ => true

def compSel (c : Comp) : Bool := compWF c && c.subs.all subSel

def aliasWF (it : Item) : Bool :=
  match it.alias with
  | none => !it.aliasBq
  | some a => if it.aliasBq then isBqName a else isIdent a

def itemWF (it : Item) : Bool :=
  aliasWF it &&
  match it.src with
  | .star => false                       -- `*` is only supported alone (see `isStarOnly`)
  | .path f r => compSel f && r.all compSel
  | .bqcol n => isBqName n
  | .lit s => s.all litChar && !it.aliasBq

def itemsWF (items : List Item) : Bool := isStarOnly items || items.all itemWF

/-! ### what the SQL front end produces for the list (`SimpleFields`, `FieldExpressions`) -/

def aliasText (it : Item) (a : Str) : Str := if it.aliasBq then '`' :: (a ++ ['`']) else a

/-- `fieldName + ":" + alias`; an unaliased literal is `'text':text` -/
def simpleSpec (it : Item) : Str :=
  match it.alias with
  | some a => srcText it.src ++ ':' :: aliasText it a
  | none =>
    match it.src with
    | .lit s => srcText (.lit s) ++ ':' :: s
    | s => srcText s

def exprOf (it : Item) : Option (Str × FieldExpr) :=
  match it.src with
  | .lit s => some (outName it, .lit s)
  | _ => none

/-- the `FieldExpressions` map: one entry per literal item, a later item with the same name replaces -/
def exprMap : List Item → List (Str × FieldExpr) → List (Str × FieldExpr)
  | [], acc => acc
  | it :: rest, acc =>
    match exprOf it with
    | some (n, e) => exprMap rest (setExpr n e acc)
    | none => exprMap rest acc

def toConfig (items : List Item) : Config :=
  if isStarOnly items then { simpleFields := [['*']], fieldExprs := [] }
  else { simpleFields := items.map simpleSpec, fieldExprs := exprMap items [] }

end PipeSpec
