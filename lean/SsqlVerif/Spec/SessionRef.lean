/-
Reference sessionization of an in-order stream (C10, last clause): a function of the Adds alone.
Used by the theorems of `Proofs/SessionOrder.lean` / `Props/C10.lean` and, unchanged, by the driver's oracle.
Core Lean only.
-/
import SsqlVerif.Model.Session
set_option autoImplicit false

namespace Session

/-- what a user sees of a session -/
structure RefS where
  key   : Key
  start : Int
  stop  : Int
  rows  : List Row
  deriving DecidableEq, Repr

def Sess.toRef (s : Sess) : RefS := ⟨s.key, s.start, s.stop, s.rows⟩
def Emission.toRef (e : Emission) : RefS := ⟨e.key, e.start, e.stop, e.rows⟩

/-- the row of key `k` at `ts` arrives before the end of session `x` of that key -/
def hits (k : Key) (ts : Int) (x : RefS) : Bool := x.key == k && decide (ts < x.stop)

def extend (timeout : Int) (r : Row) (x : RefS) : RefS := { x with stop := r.ts + timeout, rows := x.rows ++ [r] }

/-- reference sessionization of an in-order stream, one row at a time -/
def refAdd (timeout : Int) (acc : List RefS) (k : Key) (r : Row) : List RefS :=
  if acc.any (hits k r.ts) then acc.map (fun x => if hits k r.ts x then extend timeout r x else x)
  else acc ++ [⟨k, r.ts, r.ts + timeout, [r]⟩]

def refOp (timeout : Int) (acc : List RefS) : Op → List RefS
  | .add k r _ => refAdd timeout acc k r
  | _ => acc

/-- a function of the Adds alone: ticks and expiry passes are ignored -/
def reference (timeout : Int) (ops : List Op) : List RefS := ops.foldl (refOp timeout) []

/-- the Adds of a history, in order -/
def addsOf : List Op → List (Key × Row)
  | [] => []
  | .add k r _ :: ops => (k, r) :: addsOf ops
  | _ :: ops => addsOf ops

/-- in-order history without idle ticks: every Add's timestamp is at least `lo` and at least every earlier one -/
def InOrderFrom : Int → List Op → Prop
  | _, [] => True
  | lo, .add _ r _ :: ops => lo ≤ r.ts ∧ InOrderFrom r.ts ops
  | lo, .tick idle _ :: ops => idle = false ∧ InOrderFrom lo ops
  | lo, _ :: ops => InOrderFrom lo ops

/-- executable form of `InOrderFrom` for the driver -/
def inOrderB : Int → List Op → Bool
  | _, [] => true
  | lo, .add _ r _ :: ops => decide (lo ≤ r.ts) && inOrderB r.ts ops
  | lo, .tick idle _ :: ops => !idle && inOrderB lo ops
  | lo, _ :: ops => inOrderB lo ops

theorem inOrderB_iff (lo : Int) (ops : List Op) : inOrderB lo ops = true ↔ InOrderFrom lo ops := by
  induction ops generalizing lo with
  | nil => simp [inOrderB, InOrderFrom]
  | cons op ops ih =>
    cases op with
    | add k r now => simp [inOrderB, InOrderFrom, ih]
    | addNoTs => simp [inOrderB, InOrderFrom, ih]
    | tick idle now => cases idle <;> simp [inOrderB, InOrderFrom, ih]
    | deliver => simp [inOrderB, InOrderFrom, ih]

end Session
