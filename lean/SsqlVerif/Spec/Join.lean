/-
Specification of the stream-table JOIN (C16), as a user would say it:

* two key components are equal when they are both NULL (as coded — SQL would say unknown; noted in
  the evidence), equal strings, equal booleans, or numbers with the same value after conversion to
  float64 (1, 1.0, int64 1 — but not the string "1"); composite keys are equal when they have the
  same arity and every component is equal;
* the table is a partial map from keys (up to that equality) to rows: an upsert binds every equal
  key to the new row, a delete unbinds every equal key;
* a processed row is enriched from the table as it is after all updates that precede it in the
  history (= returned before it was processed): INNER drops it when its key is unbound, LEFT keeps
  it with NULL table columns.

Never mentions encoded key strings or the index.  Core Lean only.
-/
import SsqlVerif.Model.Join
set_option autoImplicit false

namespace JoinSpec
open Join

section
variable {F : Type} [DecidableEq F] (nf : NumFmt F)

/-- the number a component denotes, if it is one -/
def numVal : KVal F → Option F
  | .int i => some (nf.ofInt i)
  | .flt f => some f
  | _ => none

/-- equality of key components -/
def compEq : KVal F → KVal F → Bool
  | .null, .null => true
  | .str a, .str b => decide (a = b)
  | .bool a, .bool b => decide (a = b)
  | .int i, .int j => decide (nf.ofInt i = nf.ofInt j)
  | .int i, .flt g => decide (nf.ofInt i = g)
  | .flt f, .int j => decide (f = nf.ofInt j)
  | .flt f, .flt g => decide (f = g)
  | _, _ => false

/-- equality of (composite) keys: same arity, every component equal -/
def keyEq : List (KVal F) → List (KVal F) → Bool
  | [], [] => true
  | a :: as, b :: bs => compEq nf a b && keyEq as bs
  | _, _ => false

end

section
variable {κ ρ : Type} (eqv : κ → κ → Bool)

/-- the table as a partial map on keys -/
abbrev AMap (κ ρ : Type) := κ → Option ρ

def empty : AMap κ ρ := fun _ => none

/-- effect of one table update on the map -/
def step (m : AMap κ ρ) : Op κ ρ → AMap κ ρ
  | .upsert k r => fun q => if eqv k q then some r else m q
  | .delete k => fun q => if eqv k q then none else m q
  | .emit _ => m

/-- what a row with a bound / unbound key becomes -/
def expected (jt : JoinType) : Option ρ → Enriched ρ
  | some r => .kept (some r)
  | none => if jt = .left then .kept none else .dropped

/-- outputs of a history: every emitted row sees the map produced by the updates before it -/
def outputs (jt : JoinType) : AMap κ ρ → List (Op κ ρ) → List (Enriched ρ)
  | _, [] => []
  | m, .emit k :: ops => expected jt (m k) :: outputs jt m ops
  | m, op :: ops => outputs jt (step eqv m op) ops

end
end JoinSpec
