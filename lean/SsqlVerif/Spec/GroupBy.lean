/-
Specification of GROUP BY (C04): the result of one batch is the partition of the batch's rows
by their key tuple — exactly one result row per distinct tuple occurring in the batch, carrying
that tuple, aggregating exactly the rows that have this tuple (in arrival order, which is what
`collect(id)` shows) and no others.  Never mentions encoded keys.  Core Lean only.
-/
import SsqlVerif.Model.GroupKey
set_option autoImplicit false

namespace GroupBy
section
variable {κ ι : Type} [DecidableEq κ] [DecidableEq ι]

/-- ids of the rows whose key tuple is `k`, in arrival order -/
def members (rows : List (κ × ι)) (k : κ) : List ι :=
  (rows.filter fun r => decide (r.1 = k)).map Prod.snd

/-- no key tuple is reported twice -/
def distinctKeys : List (κ × List ι) → Bool
  | [] => true
  | r :: rs => (rs.all fun r' => decide (r'.1 ≠ r.1)) && distinctKeys rs

/-- `res` is the partition of `rows` by key tuple -/
def partitionHolds (rows : List (κ × ι)) (res : List (κ × List ι)) : Bool :=
  distinctKeys res &&
  (res.all fun g => decide (g.2 = members rows g.1) && !g.2.isEmpty) &&
  (rows.all fun r => res.any fun g => decide (g.1 = r.1))

end
end GroupBy

/-! ### the property's quantifier: "key values of one scalar type per column (… ; NULL)" -/
namespace GroupBy
open GroupKey

/-- two values may sit in the same GROUP BY column: NULL / missing fits every column type -/
def sameType : Val → Val → Bool
  | .null, _ => true
  | .missing, _ => true
  | _, .null => true
  | _, .missing => true
  | .str _, .str _ => true
  | .int _, .int _ => true
  | .bool _, .bool _ => true
  | .flt _ _ _, .flt _ _ _ => true
  | _, _ => false

def sameTypeT : List Val → List Val → Bool
  | [], [] => true
  | v :: vs, w :: ws => sameType v w && sameTypeT vs ws
  | _, _ => false

/-- trusted Go number formatting, as an explicit hypothesis on the float values that occur:
the two renderings reported for a float64 are a function of its bit pattern, and an injective one -/
def fltOk (v w : Val) : Prop :=
  match v, w with
  | .flt b rf rg, .flt b' rf' rg' => (b = b' ↔ rf = rf') ∧ (b = b' ↔ rg = rg')
  | _, _ => True

def fltOkT : List Val → List Val → Prop
  | v :: vs, w :: ws => fltOk v w ∧ fltOkT vs ws
  | _, _ => True

end GroupBy
