/-
Spec for C20, as a user would say it.

(a) After `Emit` / `EmitSync` return (and the engine is quiescent) the caller's map reads exactly as before
    the call — same keys, same values, nested maps and slices included.
(b) A row handed to a sink reads, at any later time, as it did at delivery.
(c) The outputs an instance produces for its inputs are the same whether or not another instance runs in
    the same process, whatever the interleaving of their inputs.

Rows are finite maps; equality of maps is extensional (`sameMap`).  The driver evaluates (a)–(c) on the
implementation's observables by comparing canonical renderings (keys sorted), which decides `sameMap`
for rows with distinct keys.
-/
import SsqlVerif.Model.Pipeline
set_option autoImplicit false

namespace CallerSpec
open Pipe

def sameMap (a b : Row) : Prop := ∀ k, lookupKey k a = lookupKey k b

/-- (a) -/
def callerUntouched (before after : Row) : Prop := sameMap after before

/-- (b): `log` = (content at delivery, content now) for every delivered row -/
def sinkRowsStable (log : List (Row × Row)) : Prop := ∀ p ∈ log, sameMap p.2 p.1

/-- (c): outputs in company = outputs alone -/
def independent (alone paired : List (List Row)) : Prop := paired = alone

theorem sameMap_refl (a : Row) : sameMap a a := fun _ => rfl

end CallerSpec
