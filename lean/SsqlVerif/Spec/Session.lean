/-
Declarative, executable specification of event-time session-window output (C10, C02), evaluated on
a history of arrivals and deliveries.  Never mentions model state.  Core Lean only.
-/
set_option autoImplicit false

namespace SessSpec

abbrev Key := List Char

inductive Ev where
  | arr (key : Key) (id : Nat) (ts : Option Int)
  | emit (late : Bool) (key : Key) (start stop : Int) (ids : List Nat)
  | forced (key : Key) (start stop : Int) (ids : List Nat)   -- delivered by a manual flush (`TriggerWindow`): every clause but the watermark one
  | idle (now : Int)   -- a ticker update found the source idle (IDLETIMEOUT elapsed) at wall-clock reading `now`
  deriving Repr, DecidableEq

structure Cfg where
  timeout  : Int
  ooo      : Int
  lateness : Int := 0
  now      : Int
  slack    : Int := 86400000000000
  deriving Repr

structure Seen where
  key : Key
  id : Nat
  ts : Int
  onTime : Bool
  corrupt : Bool
  wmAtArrival : Option Int
  deriving Repr

structure Scan where
  seen   : List Seen := []
  maxTs  : Option Int := none
  floor  : Option Int := none                        -- the watermark an idle ticker update set from the wall clock (largest so far)
  firsts : List (Key × Int × Int × List Nat) := []   -- delivered sessions: key, start, stop, current ids (updated by late deliveries)
  forcedIds : List Nat := []                         -- rows of sessions delivered by a manual flush (those are not kept open for late rows)
  expect : List (Key × Nat) := []                    -- late rows that fell into a delivered session still inside the allowance: a re-delivery must follow
  err    : Option String := none
  deriving Repr

def maxOpt (o : Option Int) (x : Int) : Int := match o with | none => x | some y => if y < x then x else y
def wmOf (c : Cfg) (s : Scan) : Option Int := s.maxTs.map (fun m => maxOpt s.floor (m - c.ooo))

/-- an idle ticker update: no effect before the first valid event -/
def stepIdle (c : Cfg) (s : Scan) (now : Int) : Scan :=
  match s.maxTs with
  | none => s
  | some _ => { s with floor := some (maxOpt s.floor (now - c.ooo)) }
def fail (s : Scan) (m : String) : Scan := if s.err.isSome then s else { s with err := some m }
def lookup (s : Scan) (id : Nat) : Option Seen := s.seen.find? (·.id = id)

def stepArr (c : Cfg) (s : Scan) (k : Key) (id : Nat) (ts : Int) : Scan :=
  if c.now + c.ooo + c.slack < ts then
    { s with seen := s.seen ++ [{ key := k, id := id, ts := ts, onTime := true, corrupt := true, wmAtArrival := wmOf c s }] }
  else
    let m := maxOpt s.maxTs ts
    let w := maxOpt s.floor (m - c.ooo)
    { s with maxTs := some m,
             seen := s.seen ++ [{ key := k, id := id, ts := ts, onTime := decide (w ≤ ts), corrupt := false,
                                  wmAtArrival := some w }] }

def insertInt (x : Int) : List Int → List Int
  | [] => [x]
  | y :: ys => if x ≤ y then x :: y :: ys else y :: insertInt x ys
def sortInts (l : List Int) : List Int := l.foldr insertInt []

def gapsOk (timeout : Int) : List Int → Bool
  | a :: b :: rest => decide (b - a ≤ timeout) && gapsOk timeout (b :: rest)
  | _ => true

def emittedIds (s : Scan) : List Nat := s.firsts.flatMap (fun f => f.2.2.2)

def checkFirst (c : Cfg) (s : Scan) (k : Key) (start stop : Int) (ids : List Nat) (forced : Bool := false) : Scan :=
  let rows := ids.filterMap (lookup s)
  let s1 := if rows.length = ids.length && ids.length > 0 then s else fail s "unknown-or-no-row-in-session"
  let s2 := if rows.all (fun r => r.key == k) then s1 else fail s1 "row-of-another-key"
  let s3 := if ids.all (fun i => !(emittedIds s).contains i) && ids.eraseDups.length = ids.length then s2 else fail s2 "row-in-two-sessions"
  let tss := sortInts (rows.map (·.ts))
  let s4 := if gapsOk c.timeout tss then s3 else fail s3 "gap-above-timeout-inside-session"
  let s5 := match tss.head?, tss.getLast? with
            | some lo, some hi =>
              let a := if start = lo then s4 else fail s4 "window_start-not-earliest"
              if stop = hi + c.timeout then a else fail a "window_end-not-latest-plus-timeout"
            | _, _ => s4
  let s6 := if forced then s5 else match wmOf c s with
            | some w => if stop ≤ w then s5 else fail s5 "session-delivered-before-watermark"
            | none => fail s5 "session-delivered-before-watermark"
  -- maximal: no on-time, not yet delivered row of the key strictly inside the session's reach
  let s7 := if s.seen.all (fun r => !(r.key == k && r.onTime && !r.corrupt && !ids.contains r.id && !(emittedIds s).contains r.id &&
                                      decide (start - c.timeout < r.ts) && decide (r.ts < stop)))
            then s6 else fail s6 "on-time-row-within-timeout-left-out"
  { s7 with firsts := s7.firsts ++ [(k, start, stop, ids)], forcedIds := if forced then s7.forcedIds ++ ids else s7.forcedIds }

def checkLate (c : Cfg) (s : Scan) (k : Key) (start stop : Int) (ids : List Nat) : Scan :=
  let s1 := if 0 < c.lateness then s else fail s "late-update-without-allowance"
  -- the LATEST delivery with these bounds: after a manual flush a new session of the key may have the bounds of a flushed one
  match s.firsts.reverse.find? (fun f => f.1 == k && f.2.1 = start && f.2.2.1 = stop) with
  | none => fail s1 "late-update-of-undelivered-session"
  | some f =>
    let prev := f.2.2.2
    let s2 := if ids.take prev.length = prev && ids.length = prev.length + 1 then s1 else fail s1 "late-update-not-previous-plus-one"
    let s3 := match ids.getLast? with
      | some i => match lookup s i with
        | some r =>
          let a := if r.key == k then s2 else fail s2 "late-row-of-another-key"
          let b := if start ≤ r.ts ∧ r.ts < stop then a else fail a "late-row-outside-session"
          let d := if !r.onTime then b else fail b "late-update-by-on-time-row"
          match r.wmAtArrival with
          | some w => if w < stop + c.lateness then d else fail d "late-update-after-allowance"
          | none => d
        | none => fail s2 "late-update-unknown-row"
      | none => s2
    { s3 with firsts := s3.firsts.map (fun g => if g == f then (k, start, stop, ids) else g),
              expect := s3.expect.filter (fun e => !(e.1 == k && ids.contains e.2)) }

/-- a late row that falls in a session of its key that was delivered by the watermark and is still inside the allowance
(watermark at its arrival < end + lateness) must be re-delivered with it -/
def expectation (c : Cfg) (s : Scan) (k : Key) (id : Nat) (ts : Int) : List (Key × Nat) :=
  if c.lateness ≤ 0 then [] else
  match s.seen.getLast? with
  | some r =>
    if r.id = id ∧ !r.onTime ∧ !r.corrupt then
      match r.wmAtArrival with
      | some w =>
        if s.firsts.any (fun f => f.1 == k && decide (f.2.1 ≤ ts) && decide (ts < f.2.2.1) && decide (w < f.2.2.1 + c.lateness) &&
                                   !(f.2.2.2.any (fun i => s.forcedIds.contains i)))
        then [(k, id)] else []
      | none => []
    else []
  | none => []

def step (c : Cfg) (s : Scan) : Ev → Scan
  | .arr _ _ none => s
  | .arr k id (some ts) =>
    let s1 := stepArr c s k id ts
    { s1 with expect := s1.expect ++ expectation c s1 k id ts }
  | .emit false k a b ids => checkFirst c s k a b ids
  | .forced k a b ids => checkFirst c s k a b ids true
  | .emit true k a b ids => checkLate c s k a b ids
  | .idle now => stepIdle c s now

def scan (c : Cfg) (evs : List Ev) : Scan := evs.foldl (step c) {}

/-- reference sessionization of one key's on-time timestamps: split where the gap reaches the timeout -/
def splitRef (timeout : Int) : List Int → List (List Int)
  | [] => []
  | x :: xs =>
    match splitRef timeout xs with
    | [] => [[x]]
    | (y :: ys) :: rest => if y - x < timeout then (x :: y :: ys) :: rest else [x] :: (y :: ys) :: rest
    | [] :: rest => [x] :: rest

/-- completeness at the end of a flushed history: every on-time row whose reference session has
ended at or below the final watermark has been delivered -/
def complete (c : Cfg) (s : Scan) : Option String :=
  match wmOf c s with
  | none => none
  | some w =>
    let keys := (s.seen.map (·.key)).eraseDups
    let em := emittedIds s
    let bad := keys.filterMap fun k =>
      let rows := s.seen.filter (fun r => r.key == k && r.onTime && !r.corrupt)
      let groups := splitRef c.timeout (sortInts (rows.map (·.ts)))
      let closed := groups.filter (fun g => match g.getLast? with | some hi => decide (hi + c.timeout ≤ w) | none => false)
      (rows.find? (fun r => closed.any (fun g => g.contains r.ts) && !em.contains r.id)).map (·.id)
    match bad with
    | [] => none
    | i :: _ => some s!"on-time-row-never-delivered id={i}"

def holds (c : Cfg) (evs : List Ev) (flushed : Bool) : Option String :=
  let s := scan c evs
  match s.err, s.expect with
  | some e, _ => some e
  | none, _ :: _ => some "late-row-inside-allowance-not-redelivered"
  | none, [] => if flushed then complete c s else none

end SessSpec
