/-
C11, parser layer — translation-validation-style oracle (no model of `rsql/parser.go`).

One case is one statement of the reference grammar, written down in several layouts / keyword
spellings.  For every layout the harness reports the clauses `rsql` extracted (canonical lines).
The property, as far as it is checked here:
  * faithful:            every layout's clause lines equal the clauses the author wrote (`expected`);
  * layout-insensitive:  all layouts yield identical lines — including the lines nobody predicted
                         (the complete canonical `types.Config`).
Core Lean only.
-/
set_option autoImplicit false

namespace ParserTV

abbrev Line := List String

/-- lines the reference grammar predicts: every line whose first token is in `keys` -/
def predicted (keys : List String) (obs : List Line) : List Line :=
  obs.filter fun l => match l with
    | k :: _ => keys.contains k
    | [] => false

/-- first layout (index in the list) whose observation differs from the first one -/
def firstDiffering : List (List Line) → Option Nat
  | [] => none
  | o :: rest => (rest.findIdx? (· != o)).map (· + 1)

/-- `none` = holds; `some clause` = the clause that fails -/
def check (expected : List Line) (keys : List String) (layouts : List (List Line)) : Option String :=
  match layouts.findIdx? (fun o => predicted keys o != expected) with
  | some i => some s!"clauses-differ-from-statement-layout{i}"
  | none =>
    match firstDiffering layouts with
    | some i => some s!"layout{i}-differs-from-layout0"
    | none => none

end ParserTV
