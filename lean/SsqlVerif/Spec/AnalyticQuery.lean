/-
C14 at the level of a query: what each emitted row must contain, written from the input
history alone.  Partitions are compared by their typed key values (never by an encoded
string), every function by its definition over the whole list of earlier rows
(`Spec/Analytic.lean`), the rows that count by the WHERE rule.  No engine state, no LRU:
rows for which a field's live partitions exceed the cap are not constrained (`none`).
Core Lean only.
-/
import SsqlVerif.Model.AnalyticQuery
import SsqlVerif.Spec.Analytic
set_option autoImplicit false

namespace Analytic
namespace Spec

section
variable {ν : Type} [NumOps ν]

/-- the definition of one call: value for row `r` after the earlier rows `hist` of its partition -/
def callFn (c : Call ν) (hist : List (Row ν)) (r : Row ν) : COut ν :=
  match c with
  | .lag col off d ign => .one (lagSpec (lagK off) (ign.getD true) (hist.map (lagIn col d)) (lagIn col d r))
  | .latest col d => .one (latestSpec (hist.map (lagIn col d)) (lagIn col d r))
  | .hadChanged ign cols => .one (.bool (hadChangedSpec ign (hist.map (fun h => cols.map h.val)) (cols.map r.val)))
  | .changedCol ign col => .one (changedColSpec ign (hist.map (fun h => h.val col)) (r.val col))
  | .changedCols ign cols => .many (changedColsSpec ign (hist.map (fun h => cols.map h.val)) (cols.map r.val))
  | .acc kind col start reset =>
    .one (accSpec kind start.isSome reset.isSome (hist.map (accIn col start reset)) (accIn col start reset r))

/-- a field: its calls by definition, then the surrounding expression -/
def fieldFn (f : Field ν) (hist : List (Row ν)) (r : Row ν) : COut ν :=
  applyWrap f.wrap r (f.calls.map (fun c => callFn c hist r))

/-- rows as the field sees them: typed partition key values, WHEN, the row -/
def fieldRows (f : Field ν) (rows : List (Row ν)) : List (FRow (List KVal) (Row ν)) :=
  rows.map (fun r => { key := fieldKeyVals f r, live := fieldLive f r, arg := r })

/-- is the number of live partitions within the cap after each row? (one flag per prefix) -/
def capFlags (cap : Nat) (rows : List (FRow (List KVal) (Row ν))) : List Bool :=
  (rows.foldl (fun (acc : List (List KVal) × List Bool) r =>
      let keys := if r.live && !acc.1.contains r.key then r.key :: acc.1 else acc.1
      (keys, decide (keys.length ≤ cap) :: acc.2)) ([], [])).2.reverse

/-- value of every counted row for one field; `none` = beyond the cap, unconstrained -/
def fieldValues (cap : Nat) (f : Field ν) (rows : List (Row ν)) : List (Option (Option (COut ν))) :=
  ((fieldSpec (fieldFn f) (fieldRows f rows)).zip (capFlags cap (fieldRows f rows))).map
    (fun p => if p.2 then some p.1 else none)

/-- transpose: per row the list of its field values; `none` if some field is unconstrained -/
def transposeVals : List (List (Option (Option (COut ν)))) → Nat → List (Option (List (Option (COut ν))))
  | _, 0 => []
  | cols, n + 1 =>
    (cols.foldr (fun col acc =>
      match col.head?, acc with
      | some (some v), some l => some (v :: l)
      | _, _ => none) (some [])) :: transposeVals (cols.map List.tail) n

def rowValues (cap : Nat) (fs : List (Field ν)) (rows : List (Row ν)) : List (Option (List (Option (COut ν)))) :=
  transposeVals (fs.map (fun f => fieldValues cap f rows)) rows.length

/-- expected result per input row:
`none` = unconstrained, `some none` = filtered, `some (some vals)` = emitted with these values -/
def expected (q : Query ν) (rows : List (Row ν)) : List (Option (Option (List (Option (COut ν))))) :=
  if q.uses then
    -- all rows count; emitted iff the rewritten WHERE holds on the row's own analytic values
    (rows.zip (rowValues (effCap q.cap) q.allFields rows)).map (fun p =>
      match p.2 with
      | none => none
      | some vals => some (if q.post p.1 vals then some vals else none))
  else
    -- only passing rows count
    let passing := rows.filter (optPred q.wher.plain)
    let vals := rowValues (effCap q.cap) q.allFields passing
    (rows.foldl (fun (acc : List (Option (Option (List (Option (COut ν))))) × Nat) r =>
        if optPred q.wher.plain r then
          (acc.1 ++ [match vals.getD acc.2 none with | some v => some (some v) | none => none], acc.2 + 1)
        else (acc.1 ++ [some none], acc.2)) ([], 0)).1

end
end Spec
end Analytic
