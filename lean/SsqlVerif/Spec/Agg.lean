/-
C03 — specification: what each aggregate *is*, said over the list of the group's rows in
arrival order.  No accumulator, no state: functions of the whole list.

* `value k prm e l` : the definition of aggregate `k` on the list `l` of argument values;
* `inputs f rows`   : the argument values of the rows of one group that take part in the
  aggregate (NULL and missing skipped; `count(*)` counts rows; `first_value` / `last_value`
  see an explicit NULL; an expression argument is evaluated per row);
* `batchResults c rows` : the result rows of one batch — one per group key in first-appearance
  order, each aggregate computed from the rows of that group only.

Numbers: sums are taken in arrival order (`total`), which is what "over float64 arithmetic"
means for a sequence; over exact arithmetic the order is immaterial (`Props/C03.lean`,
`agg_perm_invariant_*`).  Sorting is core's `List.mergeSort`.
Only the *types* of the model modules are used (`Val`, `Res`, `Env`, `Kind`, `Param`, `Row`,
`Field`); no model state or step function occurs.  Core Lean only.
-/
import SsqlVerif.Model.GroupAgg
set_option autoImplicit false

namespace AggSpec
open Agg GroupAgg NumOps

variable {ν : Type} [NumOps ν]

/-- the usable numeric inputs: numbers, booleans as 0/1, strings that parse; in arrival order -/
def nums (e : Env ν) (l : List (Val ν)) : List ν := l.filterMap (toFloat e)

/-- Σ in arrival order -/
def total (l : List ν) : ν := l.foldl add (ofNat 0)

def countNonNull (l : List (Val ν)) : Nat := (l.filter fun v => !v.isNull).length

def average (l : List ν) : ν := div (total l) (ofNat l.length)

/-- least / greatest element (first one among equals) -/
def least : List ν → Option ν
  | [] => none
  | x :: xs => some (xs.foldl (fun m y => if lt y m then y else m) x)
def greatest : List ν → Option ν
  | [] => none
  | x :: xs => some (xs.foldl (fun m y => if lt m y then y else m) x)

/-- Σ (x - mean)² -/
def sqDevTotal (l : List ν) : ν :=
  total (l.map fun v => mul (sub v (average l)) (sub v (average l)))

/-- sample variance (divisor n-1), 0 for fewer than two values -/
def sampleVariance (l : List ν) : ν :=
  if l.length < 2 then ofNat 0 else div (sqDevTotal l) (ofNat (l.length - 1))
/-- population variance (divisor n), 0 for no value -/
def populationVariance (l : List ν) : ν :=
  if l.length < 1 then ofNat 0 else div (sqDevTotal l) (ofNat l.length)
/-- sample standard deviation; what both `stddev` and `stddevs` compute (the test-suite pins
`stddev` to the n-1 divisor: functions_aggregation_test.go:316, test/e2e/function_test.go:490) -/
def sampleStdDev (l : List ν) : ν :=
  if l.length < 2 then ofNat 0 else sqrt (div (sqDevTotal l) (ofNat (l.length - 1)))

def sorted (l : List ν) : List ν := l.mergeSort fun a b => !sortLt b a

def at0 (l : List ν) (i : Nat) : ν := l.getD i (ofNat 0)

/-- middle of the sorted values, mean of the two middle ones for an even count; 0 for none -/
def medianOf (l : List ν) : ν :=
  if l.length = 0 then ofNat 0
  else if l.length % 2 = 1 then at0 (sorted l) (l.length / 2)
  else div (add (at0 (sorted l) (l.length / 2 - 1)) (at0 (sorted l) (l.length / 2))) (ofNat 2)

/-- nearest-rank-below percentile: the sorted value at index ⌊p·(n-1)⌋ (capped at n-1); 0 for none -/
def percentileOf (p : ν) (l : List ν) : ν :=
  if l.length = 0 then ofNat 0
  else at0 (sorted l) (Nat.min (floorNat (mul p (ofNat (l.length - 1)))) (l.length - 1))

def firstOf (l : List (Val ν)) : Val ν := l.head?.getD .null
def lastOf (l : List (Val ν)) : Val ν := l.getLast?.getD .null
/-- 1-based n-th value, NULL when there is none -/
def nthOf (n : Nat) (l : List (Val ν)) : Val ν :=
  if n = 0 then .null else (l[n - 1]?).getD .null

/-- values latest-first: the latest one is kept iff no earlier one has the same identity -/
def distinctRev {α β : Type} [DecidableEq β] (key : α → β) : List α → List α
  | [] => []
  | x :: earlier =>
    if earlier.any (fun y => decide (key y = key x)) then distinctRev key earlier
    else distinctRev key earlier ++ [x]
/-- first occurrences, in arrival order -/
def distinct {α β : Type} [DecidableEq β] (key : α → β) (l : List α) : List α :=
  distinctRev key l.reverse

/-- the renderings joined by "," ; NULL for no value -/
def mergedOf (e : Env ν) (l : List (Val ν)) : Val ν :=
  match l with
  | [] => .null
  | _ :: _ => .str (joinComma (l.map (toStr e)))

def optNum : Option ν → Val ν
  | none => .null
  | some m => .flt m

def numOrNull (l : List ν) (f : List ν → ν) : Val ν :=
  match l with
  | [] => .null
  | _ :: _ => .flt (f l)

/-- **the definition of each aggregate** on the list of its argument values -/
def value (e : Env ν) (prm : Param ν) : Kind → List (Val ν) → Res ν
  | .count, l => .one (.flt (ofNat (countNonNull l)))
  | .sum, l => .one (numOrNull (nums e l) total)
  | .avg, l => .one (numOrNull (nums e l) average)
  | .min, l => .one (optNum (least (nums e l)))
  | .max, l => .one (optNum (greatest (nums e l)))
  | .stddev, l => .one (.flt (sampleStdDev (nums e l)))
  | .stddevs, l => .one (.flt (sampleStdDev (nums e l)))
  | .var, l => .one (.flt (populationVariance (nums e l)))
  | .vars, l => .one (.flt (sampleVariance (nums e l)))
  | .median, l => .one (.flt (medianOf (nums e l)))
  | .percentile, l => .one (.flt (percentileOf prm.p (nums e l)))
  | .firstValue, l => .one (firstOf l)
  | .lastValue, l => .one (lastOf l)
  | .nthValue, l => .one (nthOf prm.n l)
  | .collect, l => .many l
  | .dedup, l => .many (distinct (keyOf e) l)
  | .mergeAgg, l => .one (mergedOf e l)

/-! ### which values of a group's rows take part -/

/-- the argument of the aggregate for one row: `none` = missing column / evaluation error -/
def argOf (f : Field ν) (row : Row ν) : Option (Val ν) :=
  match f.input with
  | .star => some (.int 1)
  | .col name => lookup name row
  | .expr ev => ev row

/-- NULL takes part only in first_value / last_value -/
def takesPart (k : Kind) (v : Val ν) : Bool :=
  !v.isNull || k = .firstValue || k = .lastValue

def inputs (f : Field ν) (rows : List (Row ν)) : List (Val ν) :=
  rows.filterMap fun r => (argOf f r).filter (takesPart f.kind)

/-- result row of one group -/
def groupResult (e : Env ν) (fields : List (Field ν)) (rows : List (Row ν)) : List (Str × Res ν) :=
  fields.map fun f => (f.alias, value e f.prm f.kind (inputs f rows))

variable {κ : Type} [DecidableEq κ]

/-- result rows of one batch: groups in first-appearance order, each from its own rows only -/
def batchResults (c : Cfg ν κ) (rows : List (Row ν)) : List (κ × List (Str × Res ν)) :=
  (distinct id (rows.map c.keyOf)).map fun k =>
    (k, groupResult c.env c.fields (rows.filter fun r => decide (c.keyOf r = k)))

end AggSpec
