/-
Declarative, executable specification of event-time tumbling / sliding window output
(C01, C02, C08), evaluated on a history of arrivals and emissions. It never mentions
model state: only what a user can see (rows sent, results delivered) and the configured
size / slide / MAXOUTOFORDERNESS.  Tumbling = sliding with slide = size.
Core Lean only.
-/
set_option autoImplicit false

namespace WinSpec

inductive Ev where
  | arr (id : Nat) (ts : Option Int) (grp : Nat := 0)      -- a row was ingested (`none`: no usable timestamp); `grp` = its GROUP BY key
  | emit (late : Bool) (start stop : Int) (ids : List Nat) (grp : Nat := 0) -- a result (of group `grp`) was delivered (late = re-delivery caused by a late row)
  | idle (now : Int)   -- a ticker update found the source idle (IDLETIMEOUT elapsed) at wall-clock reading `now`
  deriving Repr, DecidableEq

structure Cfg where
  size  : Int
  slide : Int
  ooo   : Int
  lateness : Int := 0
  now   : Int            -- wall clock (far-future guard: ts > now + ooo + 24h is corrupt)
  slack : Int := 86400000000000
  deriving Repr

/-- what the scan knows about a row that arrived -/
structure Seen where
  id : Nat
  ts : Int
  onTime : Bool      -- not late on arrival: ts ≥ (largest valid ts seen so far, itself included) − ooo
  corrupt : Bool     -- beyond the far-future guard
  wmAtArrival : Option Int := none   -- the watermark right after this arrival
  grp : Nat := 0
  deriving Repr

structure Scan where
  seen : List Seen := []
  maxTs : Option Int := none          -- largest valid timestamp seen so far
  floor : Option Int := none          -- the watermark an idle ticker update set from the wall clock (largest so far)
  firsts : List (Int × Int × List Nat) := []   -- delivered intervals so far (start, stop, current ids), in order (all groups)
  firstGrp : List Nat := []                    -- group of each entry of `firsts`
  expect : List (Int × Int × Nat) := []        -- a late row inside the allowance of delivered intervals: the next events must be their re-deliveries (start, stop, id), in interval order
  err : Option String := none
  deriving Repr

def alignDown (t m : Int) : Int := (Int.tdiv t m) * m

def maxOpt (o : Option Int) (x : Int) : Int := match o with | none => x | some y => if y < x then x else y

/-- the watermark: largest valid timestamp − tolerance, or what an idle ticker update set, whichever is larger -/
def wmOf (c : Cfg) (s : Scan) : Option Int := s.maxTs.map (fun m => maxOpt s.floor (m - c.ooo))

/-- an idle ticker update: no effect before the first valid event -/
def stepIdle (c : Cfg) (s : Scan) (now : Int) : Scan :=
  match s.maxTs with
  | none => s
  | some _ => { s with floor := some (maxOpt s.floor (now - c.ooo)) }

def fail (s : Scan) (m : String) : Scan := if s.err.isSome then s else { s with err := some m }

def stepArr (c : Cfg) (s : Scan) (id : Nat) (ts : Int) (g : Nat := 0) : Scan :=
  if c.now + c.ooo + c.slack < ts then
    { s with seen := s.seen ++ [{ id := id, ts := ts, onTime := true, corrupt := true, wmAtArrival := wmOf c s, grp := g }] }
  else
    let w := maxOpt s.floor (maxOpt s.maxTs ts - c.ooo)
    { s with maxTs := some (maxOpt s.maxTs ts),
             seen := s.seen ++ [{ id := id, ts := ts, onTime := decide (w ≤ ts), corrupt := false,
                                  wmAtArrival := some w, grp := g }] }

def lookup (s : Scan) (id : Nat) : Option Seen := s.seen.find? (·.id = id)

/-- clauses checked when a first firing `[start, stop)` with `ids` is delivered -/
def checkFirst (c : Cfg) (s : Scan) (start stop : Int) (ids : List Nat) (g : Nat := 0) : Scan :=
  let s1 := if stop = start + c.size then s else fail s "interval-length"
  let s2 := if start % c.slide = 0 then s1 else fail s1 "interval-not-aligned"
  -- every reported row arrived before and lies inside the interval
  let s3 := if ids.all (fun i => match lookup s i with
              | some r => decide (start ≤ r.ts) && decide (r.ts < stop) && r.grp == g
              | none => false) then s2 else fail s2 "row-outside-its-interval"
  let s4 := if ids.eraseDups.length = ids.length then s3 else fail s3 "row-twice-in-one-result"
  -- every on-time row of the interval that has arrived is reported
  let s5 := if s.seen.all (fun r => !(r.onTime && !r.corrupt && r.grp == g && decide (start ≤ r.ts) && decide (r.ts < stop)) || ids.contains r.id)
            then s4 else fail s4 "on-time-row-missing-from-its-interval"
  -- acceptance is all or nothing: a row that was reported in an earlier result (a late row kept for the pending interval,
  -- or folded into a fired one) is in every later first firing that covers it
  let s5b := if s.seen.all (fun r => !(!r.corrupt && r.grp == g && decide (start ≤ r.ts) && decide (r.ts < stop) &&
                  s.firsts.any (fun f => f.2.2.contains r.id)) || ids.contains r.id)
            then s5 else fail s5 "row-reported-before-missing-from-covering-interval"
  -- first firings are strictly increasing, hence no interval twice
  let s6 := match ((s.firsts.zip s.firstGrp).filter (fun p => p.2 == g)).getLast? with
            | some ((ps, _, _), _) => if ps < start then s5b else fail s5b "intervals-not-increasing"
            | none => s5b
  -- never before the watermark passed the end
  let s7 := match wmOf c s with
            | some w => if stop ≤ w then s6 else fail s6 "fired-before-watermark"
            | none => fail s6 "fired-before-watermark"
  -- not earlier than the slide-aligned start of the earliest accepted event
  let s8 := match (s.seen.filter (fun r => r.onTime && !r.corrupt)).map (·.ts) |>.min? with
            | some m => if alignDown m c.slide ≤ start then s7 else fail s7 "interval-before-earliest-event"
            | none => s7
  { s8 with firsts := s8.firsts ++ [(start, stop, ids)], firstGrp := s8.firstGrp ++ [g] }

/-- a late re-delivery: same interval as an earlier delivery, contents = what was delivered for
that interval before followed by one or more new rows (for overlapping intervals a row that
updated another interval earlier may follow along), all of them late rows of the interval; the
last one is the row that caused the re-delivery and arrived while the interval was still inside
the allowance (watermark at its arrival < end + lateness) -/
def checkLate (c : Cfg) (s : Scan) (start stop : Int) (ids : List Nat) : Scan :=
  let s1 := if 0 < c.lateness then s else fail s "late-update-without-allowance"
  match s.firsts.find? (fun f => f.1 = start && f.2.1 = stop) with
  | none => fail s1 "late-update-of-unfired-window"
  | some f =>
    let prev := f.2.2
    let s2 := if ids.take prev.length = prev && ids.length > prev.length && ids.eraseDups.length = ids.length
              then s1 else fail s1 "late-update-not-previous-plus-new"
    let extra := ids.drop prev.length
    let s2a := if extra.all (fun i => match lookup s i with
                | some r => decide (start ≤ r.ts) && decide (r.ts < stop) && !r.onTime
                | none => false) then s2 else fail s2 "late-update-row-not-a-late-row-of-the-interval"
    let s3 := match ids.getLast? with
      | some i => match lookup s i with
        | some r =>
          match r.wmAtArrival with
          | some w => if w < stop + c.lateness then s2a else fail s2a "late-update-after-allowance"
          | none => s2a
        | none => s2a
      | none => s2a
    { s3 with firsts := s3.firsts.map (fun g => if g.1 = start && g.2.1 = stop then (start, stop, ids) else g) }

/-- a late row that falls in an already delivered interval still inside the allowance must be
re-delivered at once -/
def expectation (c : Cfg) (s : Scan) (id : Nat) (ts : Int) : List (Int × Int × Nat) :=
  if c.lateness ≤ 0 then [] else
  match s.seen.getLast? with
  | some r =>
    if r.id = id ∧ !r.onTime ∧ !r.corrupt then
      match r.wmAtArrival with
      | some w =>
        (s.firsts.filter (fun f => decide (f.1 ≤ ts) && decide (ts < f.2.1) && decide (w < f.2.1 + c.lateness))).map
          (fun f => (f.1, f.2.1, id))
      | none => []
    else []
  | none => []

def stepCore (c : Cfg) (s : Scan) : Ev → Scan
  | .arr _ none _ => s
  | .arr id (some ts) g =>
    let s1 := stepArr c s id ts g
    { s1 with expect := expectation c s1 id ts }
  | .emit false a b ids g => checkFirst c s a b ids g
  | .emit true a b ids _ => checkLate c s a b ids
  | .idle now => stepIdle c s now

def step (c : Cfg) (s : Scan) (e : Ev) : Scan :=
  match s.expect with
  | [] => stepCore c s e
  | (a, b, id) :: rest =>
    match e with
    | .emit true a' b' ids _ =>
      if a' = a ∧ b' = b ∧ ids.contains id then stepCore c { s with expect := rest } e
      else stepCore c (fail { s with expect := [] } "late-row-inside-allowance-not-redelivered") e
    | _ => stepCore c (fail { s with expect := [] } "late-row-inside-allowance-not-redelivered") e

def scan (c : Cfg) (evs : List Ev) : Scan := evs.foldl (step c) {}

/-- slide-aligned starts of the intervals covering `ts` -/
def coverStarts (c : Cfg) (ts : Int) : List Int :=
  let top := alignDown ts c.slide
  let n := (c.size / c.slide + 1).toNat
  (List.range (n + 1)).filterMap fun (k : Nat) =>
    let s := top - (Int.ofNat k) * c.slide
    if s ≤ ts ∧ ts < s + c.size then some s else none

/-- completeness at the end of a flushed history: every on-time, non-corrupt row is in the
first firing of every covering interval (not earlier than the earliest accepted event's
aligned start) whose end the final watermark has passed -/
def complete (c : Cfg) (s : Scan) : Option String :=
  match wmOf c s with
  | none => none
  | some w =>
    let lo := match (s.seen.filter (fun r => r.onTime && !r.corrupt)).map (·.ts) |>.min? with
              | some m => alignDown m c.slide | none => 0
    let missing := s.seen.filter fun r =>
      r.onTime && !r.corrupt && (coverStarts c r.ts).any fun st =>
        decide (lo ≤ st) && decide (st + c.size ≤ w) &&
          !((s.firsts.zip s.firstGrp).any fun f => f.1.1 = st && f.2 == r.grp && f.1.2.2.contains r.id)
    match missing with
    | [] => none
    | r :: _ => some s!"on-time-row-never-reported id={r.id}"

/-- the whole oracle: `none` = holds -/
def holds (c : Cfg) (evs : List Ev) (flushed : Bool) : Option String :=
  let s := scan c evs
  match s.err, s.expect with
  | some e, _ => some e
  | none, _ :: _ => some "late-row-inside-allowance-not-redelivered"
  | none, [] => if flushed then complete c s else none

/-- processing-time oracle (tumbling): every delivered result is a size-aligned interval holding
only rows of that interval, no row is reported twice, and after `ticks` timer ticks every row whose
interval lies among the first `ticks` intervals (counted from the first row's interval) has been
reported exactly once -/
def holdsPT (c : Cfg) (evs : List Ev) (ticks : Nat) : Option String :=
  let arrs := evs.filterMap fun e => match e with | .arr id (some ts) _ => some (id, ts) | _ => none
  let ems := evs.filterMap fun e => match e with | .emit _ a b ids _ => some (a, b, ids) | _ => none
  let tsOf (i : Nat) : Option Int := (arrs.find? (·.1 = i)).map (·.2)
  let badShape := ems.find? fun e => !(decide (e.2.1 = e.1 + c.size) && decide (e.1 % c.size = 0) &&
      e.2.2.all fun i => match tsOf i with | some t => decide (e.1 ≤ t) && decide (t < e.2.1) | none => false)
  let allIds := ems.flatMap (·.2.2)
  match badShape with
  | some _ => some "pt-row-outside-its-interval"
  | none =>
    if allIds.eraseDups.length ≠ allIds.length then some "pt-row-reported-twice" else
    match arrs.head? with
    | none => none
    | some (_, t0) =>
      let passedEnd := alignDown t0 c.size + (Int.ofNat ticks) * c.size
      match arrs.find? (fun a => decide (alignDown a.2 c.size + c.size ≤ passedEnd) && !allIds.contains a.1) with
      | some a => some s!"pt-row-never-reported id={a.1}"
      | none => none

end WinSpec
