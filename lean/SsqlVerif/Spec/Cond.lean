/-
C12 — the property as a user would say it.

For a predicate text `p` and a row, three things can be observed on the implementation:
`ev`   — the accept/reject decision `NewExprCondition(p).Evaluate(row)`;
`twin` — the decision for the parenthesised text `(p)`, which no shortcut recognises, i.e. the
         decision of the general expression engine for that predicate;
`fast` — what the compiled shortcut answered, if it answered;
`failed` — whether running the compiled program on the row returned an evaluation error.
The property: the decision is the general engine's (`ev = twin`), a shortcut that answers
answers the same (`fast ∈ {none, some twin}`), and a predicate whose evaluation fails rejects the
row (`failed → ev = false`; `Evaluate` has no other way to fail: its result is a Bool).
The reference semantics of the general engine for the shapes of the quantifier is the table
`Cond.generalEval` (`Model/CondGeneral.lean`). Core Lean only.
-/
import SsqlVerif.Model.CondGeneral
set_option autoImplicit false

namespace SpecC12
open Cond

structure Obs where
  ev : Bool
  twin : Bool
  fast : Option Bool
  failed : Bool
  deriving DecidableEq, Repr

def decisionAgrees (o : Obs) : Bool := o.ev == o.twin

def shortcutAgrees (o : Obs) : Bool :=
  match o.fast with
  | none => true
  | some b => b == o.twin

def failureRejects (o : Obs) : Bool := !o.failed || !o.ev

def holds (o : Obs) : Bool := decisionAgrees o && shortcutAgrees o && failureRejects o

/-- name of the first violated clause -/
def verdict (o : Obs) : String :=
  if !decisionAgrees o then "fail:decision-differs-from-general-engine"
  else if !shortcutAgrees o then "fail:shortcut-differs-from-general-engine"
  else if !failureRejects o then "fail:evaluation-failure-accepts-row"
  else "ok"

/-- what the general engine decides for a predicate: its outcome, an error rejecting the row -/
def generalDecision (p : Pred) (row : Row) : Bool := (generalEval p row).decision

end SpecC12
