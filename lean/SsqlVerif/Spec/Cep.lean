/-
C15 — specification of MATCH_RECOGNIZE, the way a user reads the clause; never mentions the
NFA, runs, pending or any other engine state.

* `Lang p` — the regular language of the PATTERN over pattern variables.
* `defOK` — every row of a classified run satisfies the DEFINE condition of its variable,
  evaluated against the rows matched before it.
* `ValidMatch` — a non-empty run of consecutive rows of one partition with a classification in
  `Lang p`, DEFINE satisfied, all rows within WITHIN of the first.
* `walk` / `validLens` — executable brute-force reference: all ways the pattern can consume a
  prefix of the rows, by recursion on the pattern (no automaton).
* `scan` — the per-partition output must be the greedy leftmost-longest scan with the
  AFTER MATCH SKIP rule and MATCH_NUMBER 1,2,3,…; evaluated on what the implementation emitted.
Core Lean only.
-/
import SsqlVerif.Model.CepTypes
set_option autoImplicit false

namespace Cep
namespace Spec

/-! ### the pattern language -/

/-- `n`-fold concatenation power of a language -/
def Pow (L : List Sym → Prop) : Nat → List Sym → Prop
  | 0, w => w = []
  | n+1, w => ∃ u v, w = u ++ v ∧ L u ∧ Pow L n v

def Lang : Pat → List Sym → Prop
  | .lit a, w => w = [a]
  | .empty, w => w = []
  | .seq p q, w => ∃ u v, w = u ++ v ∧ Lang p u ∧ Lang q v
  | .alt p q, w => Lang p w ∨ Lang q w
  | .rep p mn mx, w => ∃ n, mn ≤ n ∧ (∀ m, mx = some m → n ≤ m) ∧ Pow (Lang p) n w

/-! ### the language of the pattern tree as the user writes it (`types.PatternNode`) -/

/-- concatenation of languages, in order -/
def ConcatL : List (List Sym → Prop) → List Sym → Prop
  | [], w => w = []
  | L :: Ls, w => ∃ u v, w = u ++ v ∧ L u ∧ ConcatL Ls v

/-- some language of the list -/
def AnyL : List (List Sym → Prop) → List Sym → Prop
  | [], _ => False
  | L :: Ls, w => L w ∨ AnyL Ls w

/-- the first language of the list (ε if there is none) -/
def HeadL : List (List Sym → Prop) → List Sym → Prop
  | [], w => w = []
  | L :: _, w => L w

mutual
/-- `A B` sequence, `A | B` alternation, `( … )` group, `A{n,m}` / `*` / `+` / `?` repetition
(`max < 0`: unbounded), `PERMUTE(A, B, …)`: the operands in some order of their positions.
An exclusion `{- … -}` has no words (the compiler rejects it). -/
def LangN : PNode → List Sym → Prop
  | .lit a, w => w = [a]
  | .seq cs, w => ConcatL (LangNs cs) w
  | .alt cs, w => (cs = [] ∧ w = []) ∨ AnyL (LangNs cs) w
  | .group cs, w => HeadL (LangNs cs) w
  | .rep c mn mx _, w => ∃ n : Nat, mn ≤ (n : Int) ∧ (0 ≤ mx → (n : Int) ≤ mx) ∧ Pow (LangN c) n w
  | .permute cs, w => ∃ σ : List Nat, σ.Perm (List.range cs.length) ∧
      ConcatL (σ.map fun i => (LangNs cs).getD i (fun w => w = [])) w
  | .exclusion, _ => False
def LangNs : List PNode → List (List Sym → Prop)
  | [] => []
  | c :: cs => LangN c :: LangNs cs
end

section
variable {ρ : Type}

/-- DEFINE along a classified run: `pre` = rows already matched, `rest` = rows still to check -/
def defOK (define : Sym → List (ρ × Sym) → ρ → Bool) : List (ρ × Sym) → List (ρ × Sym) → Bool
  | _, [] => true
  | pre, x :: xs => define x.2 pre x.1 && defOK define (pre ++ [x]) xs

/-- every row within `within` of the first row -/
def withinOK (ts : ρ → Int) (within : Int) : List ρ → Bool
  | [] => true
  | r :: rs => rs.all fun x => decide (ts x - ts r ≤ within)

/-- what the query fixes -/
structure Query (ρ : Type) where
  pat : Pat
  skip : Skip
  within : Int
  define : Sym → List (ρ × Sym) → ρ → Bool
  ts : ρ → Int
  greedy : Bool            -- false: some quantifier is reluctant (only validity is required then)
  keySyms : Option (List Sym) := none  -- variables whose earlier classification DEFINE conditions look at (search pruning only)

/-- a classified run of rows is a valid match of the query -/
structure ValidMatch (q : Query ρ) (m : List (ρ × Sym)) : Prop where
  nonempty : m ≠ []
  word : Lang q.pat (m.map (·.2))
  define : defOK q.define [] m = true
  within : withinOK q.ts q.within (m.map (·.1)) = true

/-! ### brute-force reference matcher -/

/-- classified history so far, rows not yet consumed -/
abbrev WS (ρ : Type) := List (ρ × Sym) × List ρ

def labelsOf (s : WS ρ) : List Sym := s.1.map (·.2)

/-- Two states with the same key have the same future.  The classification always is such a
key (`ks = none`; the consumed rows are a prefix of one fixed row list).  When the DEFINE
conditions look at the classification of earlier rows only for the variables in `ks`, the
classification with all other variables collapsed already is one (search pruning only). -/
def stateKey (ks : Option (List Sym)) (s : WS ρ) : List Nat :=
  match ks with
  | none => labelsOf s
  | some l => (labelsOf s).map fun a => if l.contains a then a + 1 else 0

/-- drop states whose key was already reached -/
def dedup (lf : Option (List Sym)) : List (WS ρ) → List (WS ρ)
  | [] => []
  | s :: ss => if (dedup lf ss).any (fun t => stateKey lf t == stateKey lf s) then dedup lf ss else s :: dedup lf ss

def walkLit (define : Sym → List (ρ × Sym) → ρ → Bool) (a : Sym) (s : WS ρ) : List (WS ρ) :=
  match s.2 with
  | [] => []
  | r :: rs => if define a s.1 r then [(s.1 ++ [(r, a)], rs)] else []

/-- exactly `k` more iterations of `f` -/
def iterWalk (lf : Option (List Sym)) (f : WS ρ → List (WS ρ)) : Nat → List (WS ρ) → List (WS ρ)
  | 0, S => S
  | k+1, S => iterWalk lf f k (dedup lf (S.flatMap f))

/-- between 0 and `extra` more iterations of `f` -/
def iterRange (lf : Option (List Sym)) (f : WS ρ → List (WS ρ)) : Nat → List (WS ρ) → List (WS ρ)
  | 0, S => S
  | e+1, S => S ++ iterRange lf f e (dedup lf (S.flatMap f))

/-- all ways `p` can consume a prefix of the remaining rows.  For an unbounded quantifier,
iterations that consume no row do not change the state, so `min + |rows|` iterations reach
everything reachable. -/
def walk (lf : Option (List Sym)) (define : Sym → List (ρ × Sym) → ρ → Bool) : Pat → WS ρ → List (WS ρ)
  | .lit a, s => walkLit define a s
  | .empty, s => [s]
  | .seq p q, s => dedup lf ((walk lf define p s).flatMap (walk lf define q))
  | .alt p q, s => dedup lf (walk lf define p s ++ walk lf define q s)
  | .rep p mn none, s => dedup lf (iterRange lf (walk lf define p) s.2.length (iterWalk lf (walk lf define p) mn [s]))
  | .rep p mn (some mx), s => dedup lf (iterRange lf (walk lf define p) (mx - mn) (iterWalk lf (walk lf define p) mn [s]))

/-- all valid non-empty classified matches that start with the first of `rows` -/
def matchesFrom (q : Query ρ) (rows : List ρ) : List (List (ρ × Sym)) :=
  ((walk q.keySyms q.define q.pat ([], rows)).map (·.1)).filter fun m =>
    !m.isEmpty && withinOK q.ts q.within (m.map (·.1))

def validLens (q : Query ρ) (rows : List ρ) : List Nat := (matchesFrom q rows).map (·.length)

def longest (q : Query ρ) (rows : List ρ) : Nat := (validLens q rows).foldl max 0

/-- DEFINE restricted to one given classification: position `i` may only be classified `labels[i]` -/
def defineAs (define : Sym → List (ρ × Sym) → ρ → Bool) (labels : List Sym) (a : Sym) (h : List (ρ × Sym)) (r : ρ) : Bool :=
  labels[h.length]? == some a && define a h r

/-- is `labels` a valid classification of the first `labels.length` rows? -/
def validLabels (q : Query ρ) (rows : List ρ) (labels : List Sym) : Bool :=
  ((walk none (defineAs q.define labels) q.pat ([], rows)).map (·.1)).any fun m =>
    !m.isEmpty && m.map (·.2) == labels && withinOK q.ts q.within (m.map (·.1))

/-! ### the AFTER MATCH SKIP rule (positions are 0-based indices into the partition's rows) -/

def firstIdx (a : Sym) : List Sym → Option Nat
  | [] => none
  | x :: xs => if x = a then some 0 else (firstIdx a xs).map (· + 1)

def lastIdx (a : Sym) (l : List Sym) : Option Nat := (firstIdx a l.reverse).map fun i => l.length - 1 - i

/-- where the scan resumes after a match at `start` with classification `labels`.
TO FIRST / TO LAST resume after the designated row (the engine's documented rule), and past the
last row when the variable is not in the match. -/
def resumeAt (skip : Skip) (start : Nat) (labels : List Sym) : Nat :=
  match skip with
  | .pastLast => start + labels.length
  | .nextRow => start + 1
  | .toFirst none => start + labels.length
  | .toLast none => start + labels.length
  | .toFirst (some a) => match firstIdx a labels with
    | some i => start + i + 1
    | none => start + labels.length
  | .toLast (some a) => match lastIdx a labels with
    | some i => start + i + 1
    | none => start + labels.length

/-! ### the oracle -/

/-- one reported match of a partition, as reconstructed from the sink rows -/
structure Obs where
  matchNo : Nat
  start : Nat                     -- 0-based position of the first row in the partition's arrival order
  len : Nat
  labels : Option (List Sym)      -- CLASSIFIER() per row, when the output shows it
  deriving Repr

/-- some position in `[lo, hi)` starts a valid match -/
def anyStart (q : Query ρ) (all : List ρ) (lo hi : Nat) : Bool :=
  (List.range (hi - lo)).any fun d => !(validLens q (all.drop (lo + d))).isEmpty

/-- the classification used for the SKIP rule: the reported one, else the reference's -/
def labelsFor (q : Query ρ) (all : List ρ) (o : Obs) : List Sym :=
  match o.labels with
  | some l => l
  | none => match (matchesFrom q (all.drop o.start)).find? (fun m => m.length == o.len) with
    | some m => m.map (·.2)
    | none => List.replicate o.len 0

/-- `all`: the partition's rows in arrival order; `pos`: where the scan stands; `no`: next
MATCH_NUMBER; `final`: the stream has ended and was flushed (otherwise matches may still be pending) -/
def scan (q : Query ρ) (all : List ρ) (final : Bool) : Nat → Nat → List Obs → String
  | pos, _, [] => if final && q.greedy && anyStart q all pos all.length then "fail:valid-match-omitted" else "ok"
  | pos, no, o :: os =>
    if o.matchNo != no then "fail:match-number-not-sequential"
    else if o.len == 0 || all.length < o.start + o.len then "fail:not-rows-of-the-partition"
    else if o.start < pos then "fail:skip-rule-violated"
    else if !(validLens q (all.drop o.start)).contains o.len then "fail:not-a-valid-match"
    else if (match o.labels with | some l => !validLabels q (all.drop o.start) l | none => false) then
      "fail:classification-not-valid"
    else if q.greedy && anyStart q all pos o.start then "fail:not-leftmost"
    else if q.greedy && o.len != longest q (all.drop o.start) then "fail:not-longest"
    else scan q all final (resumeAt q.skip o.start (labelsFor q all o)) (no + 1) os

/-- the oracle for one partition -/
def holds (q : Query ρ) (all : List ρ) (final : Bool) (obs : List Obs) : String := scan q all final 0 1 obs

end
end Spec
end Cep
