/-
Specification of the analytic functions (C14), the way a user would state it: the value of a
row is the function's definition applied to the WHOLE list of earlier rows of the same
partition, in arrival order.  Nothing in here mentions a state, a truncated history, an LRU
list or an encoded key.  (The value vocabulary `Val`, `aeq`, `recorded`, `toNum` and the
argument records are shared with the model.)  Core Lean only.
-/
import SsqlVerif.Model.Analytic
set_option autoImplicit false

namespace Analytic
namespace Spec

section functions
variable {ν : Type} [NumOps ν]

/-- `lag(x, k, d, ign)`, `k ≥ 1`: the `k`-th most recent earlier value (NULLs skipped when `ign`),
else the current row's default -/
def lagSpec (k : Nat) (ign : Bool) (hist : List (LagIn ν)) (cur : LagIn ν) : Val ν :=
  match ((hist.map (·.val)).filter (recorded ign)).reverse[k - 1]? with
  | some v => v
  | none => cur.dflt

/-- `latest(x, d)`: the most recent non-NULL value up to and including this row, else the default -/
def latestSpec (hist : List (LagIn ν)) (cur : LagIn ν) : Val ν :=
  match ((hist.map (·.val) ++ [cur.val]).filter (fun v => !v.isNull)).getLast? with
  | some v => v
  | none => cur.dflt

/-- the value a column is compared with: the most recent earlier value that was not an ignored NULL -/
def baseline (ign : Bool) (col : List (Val ν)) : Option (Val ν) := (col.filter (recorded ign)).getLast?

/-- one column of `changed_col` / `changed_cols`: `some v` when the row's value is not an ignored
NULL and differs from the baseline (or there is none) -/
def chgSpec (ign : Bool) (col : List (Val ν)) (v : Val ν) : Option (Val ν) :=
  if recorded ign v then
    match baseline ign col with
    | none => some v
    | some p => if aeq p v then none else some v
  else none

/-- `changed_col(ign, x)`: the new value when it changed, else NULL -/
def changedColSpec (ign : Bool) (col : List (Val ν)) (v : Val ν) : Val ν := (chgSpec ign col v).getD .null

/-- column `j` of a history of argument tuples -/
def column (j : Nat) (hist : List (List (Val ν))) : List (Val ν) := hist.map (fun r => r.getD j .null)

/-- `changed_cols(prefix, ign, x₀ … xₙ₋₁)`: per column, the new value if it changed -/
def changedColsSpec (ign : Bool) (hist : List (List (Val ν))) (cur : List (Val ν)) : List (Option (Val ν)) :=
  (List.range cur.length).map (fun j => chgSpec ign (column j hist) (cur.getD j .null))

/-- `had_changed(ign, x₀ … xₙ₋₁)`: true on the first row of the partition; afterwards true iff some
column's value is not an ignored NULL and differs from that column's baseline (NULL if none) -/
def hadChangedSpec (ign : Bool) (hist : List (List (Val ν))) (cur : List (Val ν)) : Bool :=
  if hist.isEmpty then true
  else (List.range cur.length).any (fun j =>
    recorded ign (cur.getD j .null) && !aeq ((baseline ign (column j hist)).getD .null) (cur.getD j .null))

/-- rows after the last reset (all rows when the call has no reset argument) -/
def afterLastReset (hasReset : Bool) (rows : List (AccIn ν)) : List (AccIn ν) :=
  if hasReset then (rows.reverse.takeWhile (fun a => !a.reset)).reverse else rows

/-- from the first start on (all rows when the call has no start argument) -/
def fromFirstStart (hasStart : Bool) (rows : List (AccIn ν)) : List (AccIn ν) :=
  if hasStart then rows.dropWhile (fun a => !a.start) else rows

/-- the values that are accumulated for the current row (`rows` = earlier rows ++ [current]) -/
def accCounted (hasStart hasReset : Bool) (rows : List (AccIn ν)) : List (Val ν) :=
  (fromFirstStart hasStart (afterLastReset hasReset rows)).map (·.val)

def numsOf (vals : List (Val ν)) : List ν := vals.filterMap toNum

def foldBest (better : ν → ν → Bool) : List ν → Option ν
  | [] => none
  | x :: xs => some (xs.foldl (fun m v => if better v m then v else m) x)

/-- the five accumulators over the counted values (sums are left folds in arrival order — this
is float64 addition in the order the rows arrived, stated as such) -/
def accAgg (kind : AccKind) (vals : List (Val ν)) : Val ν :=
  match kind with
  | .sum => .num ((numsOf vals).foldl NumOps.add NumOps.zero)
  | .count => .int ((vals.filter (fun v => !v.isNull)).length)
  | .avg => if (numsOf vals).length = 0 then .null
            else .num (NumOps.div ((numsOf vals).foldl NumOps.add NumOps.zero) (NumOps.ofInt (numsOf vals).length))
  | .max => match foldBest (fun v m => NumOps.lt m v) (numsOf vals) with
            | some x => .num x
            | none => .null
  | .min => match foldBest (fun v m => NumOps.lt v m) (numsOf vals) with
            | some x => .num x
            | none => .null

/-- `acc_<kind>(x [, start [, reset]])` -/
def accSpec (kind : AccKind) (hasStart hasReset : Bool) (hist : List (AccIn ν)) (cur : AccIn ν) : Val ν :=
  accAgg kind (accCounted hasStart hasReset (hist ++ [cur]))

end functions

/-! ### partitions, WHEN gating -/

section field
variable {K α β : Type} [DecidableEq K]

/-- the rows of partition `k` -/
def partRows (k : K) (rows : List (FRow K α)) : List (FRow K α) := rows.filter (fun r => decide (r.key = k))

/-- arguments of the rows whose WHEN held -/
def liveArgs (rows : List (FRow K α)) : List α := (rows.filter (·.live)).map (·.arg)

/-- `f hist a` = the function's definition for a row with argument `a` after the earlier arguments
`hist`.  A row whose WHEN holds gets `f` over the earlier live rows of its partition; a row whose
WHEN fails repeats the value of the most recent live row (none if there was none). -/
def gated (f : List α → α → β) (earlier : List (FRow K α)) (cur : FRow K α) : Option β :=
  if cur.live then some (f (liveArgs earlier) cur.arg)
  else match (liveArgs earlier).reverse with
    | [] => none
    | a :: before => some (f before.reverse a)

/-- value of every row of `rows` arriving after `hist` -/
def fieldSpecFrom (f : List α → α → β) : List (FRow K α) → List (FRow K α) → List (Option β)
  | _, [] => []
  | hist, r :: rs => gated f (partRows r.key hist) r :: fieldSpecFrom f (hist ++ [r]) rs

/-- the property for one analytic field: each row's value = the definition applied to the earlier
rows of the same partition -/
def fieldSpec (f : List α → α → β) (rows : List (FRow K α)) : List (Option β) := fieldSpecFrom f [] rows

/-- distinct keys, first occurrence order irrelevant -/
def distinct : List K → List K
  | [] => []
  | k :: ks => if k ∈ ks then distinct ks else k :: distinct ks

/-- partitions that own state: keys of rows whose WHEN held -/
def liveKeys (rows : List (FRow K α)) : List K := (rows.filter (·.live)).map (·.key)

/-- the number of live partitions stays within the cap -/
def withinCap (cap : Nat) (rows : List (FRow K α)) : Bool := decide ((distinct (liveKeys rows)).length ≤ cap)

/-- the cap condition after every row: one flag per prefix of `rows` (arriving after `pre`) -/
def prefixFlags (cap : Nat) : List (FRow K α) → List (FRow K α) → List Bool
  | _, [] => []
  | pre, r :: rs => withinCap cap (pre ++ [r]) :: prefixFlags cap (pre ++ [r]) rs

end field

/-! ### which rows count (WHERE) -/

section whereSpec
variable {R O : Type}

/-- WHERE free of analytic calls: only passing rows count, each is emitted with the value
computed over the passing rows.  `F rows` = the analytic values of `rows` (one per row). -/
def whereFreeSpec (plain : R → Bool) (F : List R → List O) (rows : List R) : List O :=
  F (rows.filter plain)

/-- WHERE with analytic calls: all rows count; a row is emitted iff the rewritten WHERE holds on
its own analytic values -/
def whereAnalyticSpec (post : R → O → Bool) (F : List R → List O) (rows : List R) : List (Option O) :=
  (rows.zip (F rows)).map (fun p => if post p.1 p.2 then some p.2 else none)

end whereSpec

end Spec
end Analytic
