/-
C18 as a user would say it, over what can be seen from outside an instance: the order of
sink invocations, Emit / EmitSync calls, returns of Stop, and which calls never returned.
Declarative and executable; never mentions model state.  Core Lean only.
-/
set_option autoImplicit false

namespace LifecycleSpec

inductive Ev where
  | emit (id : Nat)            -- Emit(row id) called and returned
  | sync (id : Nat)            -- EmitSync(row id) called
  | refused (id : Nat)         -- EmitSync(row id) returned an error
  | sink (id : Nat)            -- some sink was invoked with the result of row id
  | stopCalled                 -- a Stop call started
  | stopReturned               -- a Stop call returned
  | panicked (thread : String) -- a panic escaped from a call of the public API
  | stuck (thread : String)    -- at the end of the run this call (Emit, EmitSync, AddSink, Stop, a sink) had not
                               -- returned and cannot proceed
  deriving DecidableEq, Repr

/-- after a Stop call has returned no sink is invoked -/
def barrier : List Ev → Bool
  | [] => true
  | .stopReturned :: rest => rest.all (fun e => match e with
      | .sink _ => false
      | _ => true)
  | _ :: rest => barrier rest

/-- no call is left waiting forever (a sink calling back into the instance included) -/
def noDeadlock (evs : List Ev) : Bool := evs.all (fun e => match e with
  | .stuck _ => false
  | _ => true)

/-- no panic escapes from Emit, EmitSync, AddSink or Stop (sink and row panics are contained) -/
def noPanic (evs : List Ev) : Bool := evs.all (fun e => match e with
  | .panicked _ => false
  | _ => true)

/-- rows handed to Emit after a Stop call returned never reach a sink -/
def emitAfterStopNoop : List Ev → Bool
  | [] => true
  | .stopReturned :: rest =>
    let late := rest.filterMap (fun e => match e with
      | .emit id => some id
      | _ => none)
    rest.all (fun e => match e with
      | .sink id => !late.contains id
      | _ => true)
  | _ :: rest => emitAfterStopNoop rest

/-- without Stop, every emitted row reaches the sinks even if sinks (or other rows) panic -/
def allDelivered (hasSinks : Bool) (evs : List Ev) : Bool :=
  !hasSinks || evs.contains .stopCalled ||
    evs.all (fun e => match e with
      | .emit id => evs.contains (.sink id)
      | .sync id => evs.contains (.sink id)
      | _ => true)

def clauses (hasSinks : Bool) (evs : List Ev) : List (String × Bool) :=
  [("stop-barrier", barrier evs), ("deadlock", noDeadlock evs), ("panic", noPanic evs), ("emit-after-stop", emitAfterStopNoop evs),
   ("all-delivered", allDelivered hasSinks evs)]

def holds (hasSinks : Bool) (evs : List Ev) : Bool := (clauses hasSinks evs).all (·.2)

end LifecycleSpec
