/-
C11, lexer layer — the property as a user would say it.

A statement is a list of *source tokens* (`Src`: a word, a number, a quoted literal, a backtick
identifier, an operator).  Writing it down means choosing, for every token, the whitespace in
front of it (`pre`) and a case variation (`mask`: which letters of a word get their case flipped),
plus trailing whitespace: `render`.  The spec of the lexer is `expected`: the token stream is
the list of source tokens — a word that spells a keyword in any letter case is that keyword,
any other word is an identifier, literals are one token whatever they contain — *independent of
the layout*, provided the layout does not glue two tokens into one (`Sep`, the explicit
separation predicate).

This file shares only vocabulary with the model (character classes, token kinds, the keyword
table, `wordKind`); it never mentions the lexer's scanning functions.
Core Lean only.
-/
import SsqlVerif.Model.Lexer
set_option autoImplicit false

namespace LexSpec
open Lexer

/-- operators of the token language, by spelling -/
inductive Op where
  | comma | lparen | rparen | lbracket | rbracket | dot | question | pipe | lbrace | rbrace
  | plus | minus | asterisk | slash | eq1 | eq2 | ne | gt | lt | ge | le
  deriving DecidableEq, Repr

def Op.text : Op → List Byte
  | .comma => [44] | .lparen => [40] | .rparen => [41] | .lbracket => [91] | .rbracket => [93]
  | .dot => [46] | .question => [63] | .pipe => [124] | .lbrace => [123] | .rbrace => [125]
  | .plus => [43] | .minus => [45] | .asterisk => [42] | .slash => [47]
  | .eq1 => [61] | .eq2 => [61, 61] | .ne => [33, 61]
  | .gt => [62] | .lt => [60] | .ge => [62, 61] | .le => [60, 61]

def Op.kind : Op → Kind
  | .comma => .comma | .lparen => .lparen | .rparen => .rparen | .lbracket => .lbracket
  | .rbracket => .rbracket | .dot => .dot | .question => .question | .pipe => .pipe
  | .lbrace => .lbrace | .rbrace => .rbrace | .plus => .plus | .minus => .minus
  | .asterisk => .asterisk | .slash => .slash | .eq1 => .eq | .eq2 => .eq | .ne => .ne
  | .gt => .gt | .lt => .lt | .ge => .ge | .le => .le

/-- a token as the author of a statement thinks of it -/
inductive Src where
  | word (w : List Byte)                 -- keyword or identifier (letters, digits, `_`, dots)
  | num (neg : Bool) (d : List Byte)     -- digits and dots, optionally glued to a leading `-`
  | str (q : Byte) (body : List Byte)    -- `'…'` or `"…"`, no escapes
  | qid (body : List Byte)               -- `` `…` ``
  | op (o : Op)
  deriving DecidableEq, Repr

/-- flip the case of a letter -/
def flipCase (b : Byte) : Byte :=
  if isLower b then b - 32 else if isUpper b then b + 32 else b

/-- apply a case variation: `true` at position `i` flips the case of the `i`-th byte -/
def applyMask : List Bool → List Byte → List Byte
  | true :: m, b :: w => flipCase b :: applyMask m w
  | false :: m, b :: w => b :: applyMask m w
  | [], w => w
  | _, [] => []

/-- the spelling of a source token under a case variation (only words have case) -/
def Src.text (m : List Bool) : Src → List Byte
  | .word w => applyMask m w
  | .num neg d => if neg then 45 :: d else d
  | .str q body => q :: (body ++ [q])
  | .qid body => 96 :: (body ++ [96])
  | .op o => o.text

/-- well-formed source tokens -/
def Src.valid : Src → Bool
  | .word w => (match w with | b :: tl => isLetter b && tl.all isIdentChar | [] => false)
  | .num _ d => (match d with | b :: tl => isDigit b && tl.all isNumChar | [] => false)
  | .str q body => (q == 39 || q == 34) && body.all (fun c => c != q && c != 0)
  | .qid body => body.all (fun c => c != 96 && c != 0)
  | .op _ => true

/-- the kind of token a source token is — no layout, no case variation in sight -/
def Src.kind : Src → Kind
  | .word w => wordKind w
  | .num _ _ => .number
  | .str _ _ => .string
  | .qid _ => .qident
  | .op o => o.kind

/-- a source token placed in a layout -/
structure Placed where
  src  : Src
  pre  : List Byte      -- whitespace written before the token
  mask : List Bool      -- case variation
  deriving DecidableEq, Repr

def Placed.text (p : Placed) : List Byte := p.src.text p.mask

/-- the statement as written -/
def render : List Placed → List Byte → List Byte
  | [], trail => trail
  | p :: ps, trail => p.pre ++ (p.text ++ render ps trail)

/-- the token the lexer must deliver for a placed source token: kind from the source token,
value = the spelling as written -/
def emit (p : Placed) : Token := ⟨p.src.kind, p.text⟩

def expected (ps : List Placed) : List Token := ps.map emit ++ [eofTok]

/-- must `a` and `b` be separated by whitespace when `b` directly follows `a`?
(word/number followed by something that continues it; `-` before a digit; `=` `<` `>` before `=`) -/
def needSep : Src → Src → Bool
  | .word _, .word _ => true
  | .word _, .num false _ => true
  | .word _, .op .dot => true
  | .num _ _, .num false _ => true
  | .num _ _, .op .dot => true
  | .op .minus, .num false _ => true
  | .op .eq1, .op .eq1 => true
  | .op .eq1, .op .eq2 => true
  | .op .gt, .op .eq1 => true
  | .op .gt, .op .eq2 => true
  | .op .lt, .op .eq1 => true
  | .op .lt, .op .eq2 => true
  | _, _ => false

/-- the explicit separation predicate: wherever two tokens need it, the layout has at least one
whitespace byte between them -/
def Sep : List Placed → Bool
  | [] => true
  | [_] => true
  | p :: q :: ps => (!(needSep p.src q.src) || q.pre != []) && Sep (q :: ps)

/-- a layout: only whitespace between tokens -/
def LayoutOk (ps : List Placed) (trail : List Byte) : Bool :=
  ps.all (fun p => p.pre.all isWs) && trail.all isWs

def AllValid (ps : List Placed) : Bool := ps.all (fun p => p.src.valid)

/-- keyword tokens compare up to spelling: upper-case their value -/
def normTok (t : Token) : Token :=
  match t.kind with
  | .kw _ => ⟨t.kind, t.val.map upper⟩
  | _ => t

/-- a case variation that touches keywords only (identifiers are case-sensitive data) -/
def maskKwOnly (p : Placed) : Bool :=
  match p.src with
  | .word w => (match wordKind w with | .kw _ => true | _ => p.mask.all (· == false))
  | _ => true

/-! ### what any byte string must lex to: a tokenization (totality layer) -/

/-- `toks` (with start offsets) is a tokenization of `input`: offsets increase, every token
value is the slice of the input at its offset — except that nothing is claimed about the
bytes skipped between tokens — every token but the last is non-empty and not EOF, the last one is EOF -/
def isTokenization (input : List Byte) : List (Token × Nat) → Nat → Bool
  | [], _ => false
  | [(t, p)], from_ => t.kind == .eof && t.val == [] && from_ ≤ p && p ≤ input.length
  | (t, p) :: rest, from_ =>
    t.kind != .eof && t.val != [] && from_ ≤ p &&
      (input.drop p).take t.val.length == t.val && isTokenization input rest (p + t.val.length)

end LexSpec
