/-
Specification of SQL LIKE (C13): `%` any possibly empty sequence, `_` exactly one symbol,
every other symbol itself — including a literal `%`/`_` in the *text*.  Structural on the
pattern; never mentions the matcher's loop state.  Core Lean only.
-/
set_option autoImplicit false

namespace Like
section
variable {α : Type} [DecidableEq α] (pct und : α)

def tails : List α → List (List α)
  | [] => [[]]
  | x :: xs => (x :: xs) :: tails xs

/-- `likeSpec p t` : the whole text `t` matches pattern `p` -/
def likeSpec : List α → List α → Bool
  | [], t => t.isEmpty
  | q :: p, t =>
    if q = pct then (tails t).any (likeSpec p)
    else match t with
      | [] => false
      | c :: t' => (decide (q = und) || decide (q = c)) && likeSpec p t'

end
end Like
