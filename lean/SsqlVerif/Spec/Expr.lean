/-
C06 — the reference semantics: ordinary SQL scalar evaluation with three-valued logic.

`sqlEval env row e .e : SRes ν` — NULL and a missing column are the same thing (`Value.null`);
arithmetic with a NULL operand is NULL; a comparison with a NULL operand is UNKNOWN (= NULL);
AND/OR/NOT are Kleene's; CASE returns the first arm whose condition is TRUE, else ELSE, else NULL;
simple CASE compares with `=` (so a NULL never matches); a call applies the function's documented
value (`env.fn`) to the evaluated arguments.  Operand kinds are checked dynamically: an operation
applied to the wrong kind of value is `bad .typeError` — such (expression, row) pairs lie outside
the well-typed fragment; so does division by zero and a NaN result.
The spec never mentions evaluator modes, routes or caches.  Core Lean only.
-/
import SsqlVerif.Model.Expr
set_option autoImplicit false

namespace Ex

inductive SqlErr where
  | typeError | divZero | nan | fnError | malformed
  deriving DecidableEq, Repr

inductive SRes (ν : Type) where
  | ok (v : Value ν)
  | bad (why : SqlErr)
  deriving DecidableEq, Repr

inductive SMode (ν : Type) where
  | e                      -- an expression
  | chS                    -- arms of a searched CASE
  | chV (sv : Value ν)     -- arms of a simple CASE whose scrutinee has value `sv`

section
variable {ν : Type} [NumOps ν]
open NumOps

def sqlArith (op : AOp) : Value ν → Value ν → SRes ν
  | .num x, .num y =>
    if op = .div && isZero y then .bad .divZero
    else if isNaN (aop op x y) then .bad .nan
    else .ok (.num (aop op x y))
  | .null, .num _ => .ok .null
  | .num _, .null => .ok .null
  | .null, .null => .ok .null
  | _, _ => .bad .typeError

/-- comparison of two values of the same kind; NULL on either side ⇒ UNKNOWN.
Booleans compare with `=` / `!=` only. -/
def sqlCmp (op : COp) : Value ν → Value ν → SRes ν
  | .null, _ => .ok .null
  | _, .null => .ok .null
  | .num x, .num y => .ok (.bool (numCmp op x y))
  | .str s, .str t => .ok (.bool (strCmp op s t))
  | .bool a, .bool b =>
    match op with
    | .eq => .ok (.bool (decide (a = b)))
    | .ne => .ok (.bool (!decide (a = b)))
    | _ => .bad .typeError
  | _, _ => .bad .typeError

def sqlAnd : Value ν → Value ν → SRes ν
  | .bool false, .bool _ => .ok (.bool false)
  | .bool false, .null => .ok (.bool false)
  | .bool true, .bool b => .ok (.bool b)
  | .bool true, .null => .ok .null
  | .null, .bool false => .ok (.bool false)
  | .null, .bool true => .ok .null
  | .null, .null => .ok .null
  | _, _ => .bad .typeError

def sqlOr : Value ν → Value ν → SRes ν
  | .bool true, .bool _ => .ok (.bool true)
  | .bool true, .null => .ok (.bool true)
  | .bool false, .bool b => .ok (.bool b)
  | .bool false, .null => .ok .null
  | .null, .bool true => .ok (.bool true)
  | .null, .bool false => .ok .null
  | .null, .null => .ok .null
  | _, _ => .bad .typeError

def sqlNot : Value ν → SRes ν
  | .bool b => .ok (.bool (!b))
  | .null => .ok .null
  | _ => .bad .typeError

def bind2 (a b : SRes ν) (f : Value ν → Value ν → SRes ν) : SRes ν :=
  match a, b with
  | .ok x, .ok y => f x y
  | .bad w, _ => .bad w
  | _, .bad w => .bad w

def sqlCall (env : Env ν) (f : Str) (args : List (Value ν)) : SRes ν :=
  match env.fn f args with
  | some v => .ok v
  | none => .bad .fnError

def sqlEval (env : Env ν) (row : Row ν) : Expr → SMode ν → SRes ν
  | .lit l, .e => .ok (.num (litVal l))
  | .str s, .e => .ok (.str s)
  | .col c, .e => .ok ((lookup c row).getD .null)
  | .paren e, .e => sqlEval env row e .e
  | .neg e, .e => bind2 (.ok (.num (ofNat 0))) (sqlEval env row e .e) (sqlArith .sub)
  | .arith op l r, .e => bind2 (sqlEval env row l .e) (sqlEval env row r .e) (sqlArith op)
  | .cmp op l r, .e => bind2 (sqlEval env row l .e) (sqlEval env row r .e) (sqlCmp op)
  | .and l r, .e => bind2 (sqlEval env row l .e) (sqlEval env row r .e) sqlAnd
  | .or l r, .e => bind2 (sqlEval env row l .e) (sqlEval env row r .e) sqlOr
  | .not e, .e =>
    match sqlEval env row e .e with
    | .ok v => sqlNot v
    | .bad w => .bad w
  | .caseS ch, .e => sqlEval env row ch .chS
  | .caseV sc ch, .e =>
    match sqlEval env row sc .e with
    | .ok sv => sqlEval env row ch (.chV sv)
    | .bad w => .bad w
  | .call1 f a, .e =>
    match sqlEval env row a .e with
    | .ok x => sqlCall env f [x]
    | .bad w => .bad w
  | .call2 f a b, .e =>
    match sqlEval env row a .e, sqlEval env row b .e with
    | .ok x, .ok y => sqlCall env f [x, y]
    | .bad w, _ => .bad w
    | _, .bad w => .bad w
  | .call3 f a b c, .e =>
    match sqlEval env row a .e, sqlEval env row b .e, sqlEval env row c .e with
    | .ok x, .ok y, .ok z => sqlCall env f [x, y, z]
    | .bad w, _, _ => .bad w
    | _, .bad w, _ => .bad w
    | _, _, .bad w => .bad w
  | .whenL c r rest, .chS =>
    match sqlEval env row c .e with
    | .ok (.bool true) => sqlEval env row r .e
    | .ok (.bool false) => sqlEval env row rest .chS
    | .ok .null => sqlEval env row rest .chS
    | .ok _ => .bad .typeError
    | .bad w => .bad w
  | .elseL e, .chS => sqlEval env row e .e
  | .endL, .chS => .ok .null
  | .whenL c r rest, .chV sv =>
    match sqlEval env row c .e with
    | .ok wv =>
      match sqlCmp .eq sv wv with
      | .ok (.bool true) => sqlEval env row r .e
      | .ok _ => sqlEval env row rest (.chV sv)
      | .bad w => .bad w
    | .bad w => .bad w
  | .elseL e, .chV _ => sqlEval env row e .e
  | .endL, .chV _ => .ok .null
  | .whenL _ _ _, .e => .bad .malformed
  | .elseL _, .e => .bad .malformed
  | .endL, .e => .bad .malformed
  | _, .chS => .bad .malformed
  | _, .chV _ => .bad .malformed

/-- the value of an expression -/
def sqlValue (env : Env ν) (row : Row ν) (e : Expr) : SRes ν := sqlEval env row e .e

/-- WHERE keeps a row iff the predicate is TRUE (not FALSE, not UNKNOWN) -/
def sqlKeeps (env : Env ν) (row : Row ν) (e : Expr) : Option Bool :=
  match sqlValue env row e with
  | .ok (.bool b) => some b
  | .ok .null => some false
  | _ => none

/-! ### what an observer of a result cell can tell apart -/

/-- observable content of a result cell: FALSE and NULL are both "not true" for a condition, but
distinct as cells -/
inductive Obs (ν : Type) where
  | null | num (x : ν) | str (s : Str) | tt | ff
  deriving DecidableEq, Repr

def obsV : Value ν → Obs ν
  | .null => .null
  | .num x => .num x
  | .str s => .str s
  | .bool true => .tt
  | .bool false => .ff

def Obs.notTrue : Obs ν → Bool
  | .null => true
  | .ff => true
  | _ => false

/-- the oracle's comparison: equal cells, or both not-true (the property asks a comparison with a
NULL operand to be *not true*; it may show as FALSE or as NULL) -/
def sameObs [DecidableEq ν] (a b : Obs ν) : Bool := decide (a = b) || (a.notTrue && b.notTrue)

end
end Ex
