/-
Helper lemmas for C16: the type-tagged key text decides key equality (given injective float
formatting), the index refines the abstract map, histories are sequentially consistent.
-/
import SsqlVerif.Model.Join
import SsqlVerif.Spec.Join
import SsqlVerif.Proofs.GroupKey
set_option autoImplicit false
set_option linter.unusedSectionVars false

namespace Join
open JoinSpec GroupKey

section Keys
variable {F : Type} [DecidableEq F] (nf : NumFmt F)

/-- one component: same text ⇔ equal (float formatting injective) -/
theorem boolStr_inj (a b : Bool) (h : boolStr a = boolStr b) : a = b := by
  cases a <;> cases b <;> first | rfl | (exact absurd h (by decide))

theorem encodeOne_eq_iff (hinj : ∀ x y : F, nf.fmt x = nf.fmt y → x = y) (a b : KVal F) :
    encodeOne nf a = encodeOne nf b ↔ compEq nf a b = true := by
  cases a <;> cases b <;> simp [encodeOne, compEq]
  all_goals first
    | exact ⟨fun h => hinj _ _ h, fun h => by rw [h]⟩
    | exact ⟨boolStr_inj _ _, fun h => by rw [h]⟩

theorem map_encodeOne_eq_iff (hinj : ∀ x y : F, nf.fmt x = nf.fmt y → x = y) :
    ∀ (k k' : List (KVal F)), k.map (encodeOne nf) = k'.map (encodeOne nf) ↔ keyEq nf k k' = true := by
  intro k
  induction k with
  | nil => intro k'; cases k' <;> simp [keyEq]
  | cons a as ih =>
    intro k'
    cases k' with
    | nil => simp [keyEq]
    | cons b bs =>
      simp only [List.map_cons, List.cons.injEq, keyEq, Bool.and_eq_true]
      rw [encodeOne_eq_iff nf hinj a b, ih bs]

theorem keyEq_length : ∀ (k k' : List (KVal F)), keyEq nf k k' = true → k.length = k'.length := by
  intro k
  induction k with
  | nil => intro k' h; cases k' with
    | nil => rfl
    | cons b bs => simp [keyEq] at h
  | cons a as ih => intro k' h; cases k' with
    | nil => simp [keyEq] at h
    | cons b bs =>
      simp only [keyEq, Bool.and_eq_true] at h
      simp [ih bs h.2]

/-- the encoded key decides key equality, for keys of the same arity -/
theorem encodeKey_eq_iff (hinj : ∀ x y : F, nf.fmt x = nf.fmt y → x = y)
    (k k' : List (KVal F)) (hl : k.length = k'.length) :
    encodeKey nf k = encodeKey nf k' ↔ keyEq nf k k' = true := by
  rw [← map_encodeOne_eq_iff nf hinj]
  constructor
  · intro h
    exact encJoin_injective _ _ (by simpa using hl) h
  · intro h
    unfold encodeKey
    rw [h]

end Keys

section Table
variable {σ ρ : Type} [DecidableEq σ]

theorem lookup_erase (t : Index σ ρ) (k q : σ) :
    lookup (erase t k) q = if k = q then none else lookup t q := by
  induction t with
  | nil => simp [erase, lookup]
  | cons e rest ih =>
    unfold erase
    by_cases h1 : e.1 = k
    · rw [if_pos h1, ih]
      by_cases h2 : k = q
      · simp [h2]
      · have : ¬ e.1 = q := fun h => h2 (h1.symm.trans h)
        simp [lookup, h2, this]
    · rw [if_neg h1]
      by_cases h2 : e.1 = q
      · have : ¬ k = q := fun h => h1 (h2.trans h.symm)
        simp [lookup, h2, this]
      · simp only [lookup, if_neg h2, ih]

theorem lookup_upsert (t : Index σ ρ) (k q : σ) (r : ρ) :
    lookup (upsert t k r) q = if k = q then some r else lookup t q := by
  unfold upsert
  by_cases h : k = q
  · simp [lookup, h]
  · simp [lookup, h, lookup_erase]

end Table

section Refine
variable {κ σ ρ : Type} [DecidableEq σ] (enc : κ → σ) (eqv : κ → κ → Bool) (P : κ → Prop)

/-- the key carried by an op -/
def opKey : Op κ ρ → κ
  | .upsert k _ => k
  | .delete k => k
  | .emit k => k

/-- the index represents the abstract map on the keys of interest -/
def Repr (t : Index σ ρ) (m : AMap κ ρ) : Prop := ∀ q, P q → lookup t (enc q) = m q

theorem enrich_eq_expected (jt : JoinType) (o : Option ρ) : enrich jt o = expected jt o := by
  cases o <;> cases jt <;> rfl

theorem repr_step (henc : ∀ k k', P k → P k' → (enc k = enc k' ↔ eqv k k' = true))
    (t : Index σ ρ) (m : AMap κ ρ) (h : Repr enc P t m) (op : Op κ ρ) (hop : P (opKey op)) :
    Repr enc P (tableAfter enc t [op]) (step eqv m op) := by
  intro q hq
  cases op with
  | upsert k r =>
    simp only [tableAfter, step, lookup_upsert]
    have := henc k q hop hq
    by_cases he : enc k = enc q
    · rw [if_pos he, if_pos (this.1 he)]
    · have : ¬ eqv k q = true := fun h' => he (this.2 h')
      rw [if_neg he, if_neg this]; exact h q hq
  | delete k =>
    simp only [tableAfter, step, lookup_erase]
    have := henc k q hop hq
    by_cases he : enc k = enc q
    · rw [if_pos he, if_pos (this.1 he)]
    · have : ¬ eqv k q = true := fun h' => he (this.2 h')
      rw [if_neg he, if_neg this]; exact h q hq
  | emit k => simpa [tableAfter, step] using h q hq

/-- the model's outputs are the specified outputs, for every history over keys in `P` -/
theorem run_refines (henc : ∀ k k', P k → P k' → (enc k = enc k' ↔ eqv k k' = true)) (jt : JoinType) :
    ∀ (ops : List (Op κ ρ)) (t : Index σ ρ) (m : AMap κ ρ), Repr enc P t m →
      (∀ op ∈ ops, P (opKey op)) → run enc jt t ops = outputs eqv jt m ops := by
  intro ops
  induction ops with
  | nil => intro t m _ _; rfl
  | cons op ops ih =>
    intro t m h hP
    have hop : P (opKey op) := hP op (by simp)
    have hrest : ∀ op' ∈ ops, P (opKey op') := fun op' h' => hP op' (by simp [h'])
    have hs := repr_step enc eqv P henc t m h op hop
    cases op with
    | upsert k r =>
      simp only [run, outputs]
      exact ih _ _ (by simpa [tableAfter] using hs) hrest
    | delete k =>
      simp only [run, outputs]
      exact ih _ _ (by simpa [tableAfter] using hs) hrest
    | emit k =>
      simp only [run, outputs]
      rw [h k hop, enrich_eq_expected, ih t m h hrest]

theorem repr_empty : Repr enc P ([] : Index σ ρ) (JoinSpec.empty : AMap κ ρ) := fun _ _ => rfl

/-- sequential consistency: the outputs of a prefix do not depend on what follows, and what
follows runs on the table the prefix produced -/
theorem run_append (jt : JoinType) : ∀ (a b : List (Op κ ρ)) (t : Index σ ρ),
    run enc jt t (a ++ b) = run enc jt t a ++ run enc jt (tableAfter enc t a) b := by
  intro a
  induction a with
  | nil => intro b t; rfl
  | cons op a ih =>
    intro b t
    cases op with
    | upsert k r => simp only [List.cons_append, run, tableAfter, ih]
    | delete k => simp only [List.cons_append, run, tableAfter, ih]
    | emit k => simp only [List.cons_append, run, tableAfter, ih]

end Refine
end Join

namespace Join
open JoinSpec GroupKey
section
variable {F : Type} [DecidableEq F] (nf : NumFmt F)

/-- equal components have the same text — no assumption on the formatting -/
theorem encodeOne_of_compEq (a b : KVal F) (h : compEq nf a b = true) :
    encodeOne nf a = encodeOne nf b := by
  cases a <;> cases b <;> simp [encodeOne, compEq] at h ⊢ <;> rw [h]

theorem encodeKey_of_keyEq : ∀ (k k' : List (KVal F)), keyEq nf k k' = true →
    encodeKey nf k = encodeKey nf k' := by
  intro k k' h
  unfold encodeKey
  congr 1
  induction k generalizing k' with
  | nil => cases k' with
    | nil => rfl
    | cons b bs => simp [keyEq] at h
  | cons a as ih => cases k' with
    | nil => simp [keyEq] at h
    | cons b bs =>
      simp only [keyEq, Bool.and_eq_true] at h
      simp only [List.map_cons, List.cons.injEq]
      exact ⟨encodeOne_of_compEq nf a b h.1, ih bs h.2⟩

end
end Join
