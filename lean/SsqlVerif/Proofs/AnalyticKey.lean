/-
Helper lemmas for C14: the partition key encoding is injective.  `encOne` (decimal length, `:`,
text, `|`) is a prefix code, so the concatenation of fragments determines the fragments, for
all byte strings; `typeKey` (type name, `|`, value text) determines the typed value.
Core Lean only (proof shape of /root/ssqlverif-notes/Enc.lean).
-/
import SsqlVerif.Model.Analytic
set_option autoImplicit false
set_option linter.unusedSimpArgs false
set_option linter.unusedVariables false

namespace Analytic

/-- split off the leading decimal digits -/
def spanDigits : List Char → List Char × List Char
  | [] => ([], [])
  | c :: cs => if c.isDigit then ((c :: (spanDigits cs).1), (spanDigits cs).2) else ([], c :: cs)

theorem spanDigits_append (ds : List Char) (hd : ∀ c ∈ ds, c.isDigit = true) (c : Char)
    (hc : c.isDigit = false) (r : List Char) : spanDigits (ds ++ c :: r) = (ds, c :: r) := by
  induction ds with
  | nil => simp [spanDigits, hc]
  | cons d ds ih =>
    have h1 : d.isDigit = true := hd d (by simp)
    have h2 := ih (fun c hc' => hd c (by simp [hc']))
    simp [spanDigits, h1, h2]

/-- decode one fragment from the front -/
def decOne (l : List Char) : Option (List Char × List Char) :=
  match (spanDigits l).2 with
  | ':' :: r' =>
    if Nat.ofDigitChars 10 (spanDigits l).1 0 + 1 ≤ r'.length then
      some (r'.take (Nat.ofDigitChars 10 (spanDigits l).1 0), r'.drop (Nat.ofDigitChars 10 (spanDigits l).1 0 + 1))
    else none
  | _ => none

theorem decOne_encOne (s r : List Char) : decOne (encOne s ++ r) = some (s, r) := by
  unfold decOne encOne
  have hd : ∀ c ∈ Nat.toDigits 10 s.length, c.isDigit = true := fun c hc =>
    Nat.isDigit_of_mem_toDigits (by decide) (by decide) hc
  have : Nat.toDigits 10 s.length ++ ':' :: (s ++ ['|']) ++ r
       = Nat.toDigits 10 s.length ++ ':' :: (s ++ '|' :: r) := by simp
  rw [this, spanDigits_append _ hd ':' (by decide)]
  simp [Nat.ofDigitChars_toDigits]

theorem encOne_cancel (s t r r' : List Char) (h : encOne s ++ r = encOne t ++ r') : s = t ∧ r = r' := by
  have h1 := decOne_encOne s r
  rw [h, decOne_encOne] at h1
  simpa [eq_comm] using h1

theorem encAll_injective : ∀ xs ys : List (List Char), encAll xs = encAll ys → xs = ys := by
  intro xs
  induction xs with
  | nil =>
    intro ys h
    cases ys with
    | nil => rfl
    | cons y ys => simp [encAll, encOne] at h
  | cons x xs ih =>
    intro ys h
    cases ys with
    | nil => simp [encAll, encOne] at h
    | cons y ys =>
      have h' : encOne x ++ encAll xs = encOne y ++ encAll ys := by simpa [encAll] using h
      obtain ⟨hxy, hrest⟩ := encOne_cancel _ _ _ _ h'
      rw [hxy, ih ys hrest]

/-! ### `typeKey` -/

theorem toDigits_injective (a b : Nat) (h : Nat.toDigits 10 a = Nat.toDigits 10 b) : a = b := by
  have ha := Nat.ofDigitChars_toDigits (b := 10) (n := a) (by decide) (by decide)
  have hb := Nat.ofDigitChars_toDigits (b := 10) (n := b) (by decide) (by decide)
  rw [h] at ha
  omega

theorem toDigits_head_digit (n : Nat) : ∀ c ∈ Nat.toDigits 10 n, c ≠ '-' := by
  intro c hc hce
  have := Nat.isDigit_of_mem_toDigits (b := 10) (by decide) (by decide) hc
  rw [hce] at this
  exact absurd this (by decide)

theorem intRepr_injective (a b : Int) (h : intRepr a = intRepr b) : a = b := by
  cases a with
  | ofNat x =>
    cases b with
    | ofNat y => simp only [intRepr] at h; rw [toDigits_injective x y h]
    | negSucc y =>
      simp only [intRepr] at h
      exact absurd rfl (toDigits_head_digit x '-' (by rw [h]; simp))
  | negSucc x =>
    cases b with
    | ofNat y =>
      simp only [intRepr] at h
      exact absurd rfl (toDigits_head_digit y '-' (by rw [← h]; simp))
    | negSucc y =>
      simp only [intRepr, List.cons.injEq, true_and] at h
      have := toDigits_injective _ _ h
      have : x = y := by omega
      rw [this]

def tagChar : KVal → Char
  | .null => 'n'
  | .str _ => 's'
  | .int _ => 'i'
  | .flt _ => 'f'
  | .bool _ => 'b'

theorem typeKey_head (a : KVal) : (typeKey a).head? = some (tagChar a) := by
  cases a with
  | bool b => cases b <;> rfl
  | _ => rfl

theorem tag_of_eq (a b : KVal) (h : typeKey a = typeKey b) : tagChar a = tagChar b := by
  have := congrArg List.head? h
  rw [typeKey_head, typeKey_head] at this
  exact Option.some.inj this

/-- the type tag and the value text determine the typed value (a float64 is identified with its
`FormatFloat(x,'g',-1,64)` text: trusted base, strconv formatting) -/
theorem typeKey_injective (a b : KVal) (h : typeKey a = typeKey b) : a = b := by
  have ht := tag_of_eq a b h
  cases a with
  | null => cases b with
    | null => rfl
    | _ => simp [tagChar] at ht
  | str s => cases b with
    | str t =>
      have h' : "string|".toList ++ s = "string|".toList ++ t := h
      rw [List.append_cancel_left h']
    | _ => simp [tagChar] at ht
  | int i => cases b with
    | int j =>
      have h' : "int|".toList ++ intRepr i = "int|".toList ++ intRepr j := h
      rw [intRepr_injective i j (List.append_cancel_left h')]
    | _ => simp [tagChar] at ht
  | flt s => cases b with
    | flt t =>
      have h' : "float64|".toList ++ s = "float64|".toList ++ t := h
      rw [List.append_cancel_left h']
    | _ => simp [tagChar] at ht
  | bool d => cases b with
    | bool c =>
      cases c <;> cases d
      · rfl
      · exact absurd h (by decide)
      · exact absurd h (by decide)
      · rfl
    | _ => simp [tagChar] at ht

theorem map_typeKey_injective (xs ys : List KVal) (h : xs.map typeKey = ys.map typeKey) : xs = ys := by
  induction xs generalizing ys with
  | nil => cases ys with
    | nil => rfl
    | cons y ys => simp at h
  | cons x xs ih => cases ys with
    | nil => simp at h
    | cons y ys =>
      simp only [List.map_cons, List.cons.injEq] at h
      rw [typeKey_injective x y h.1, ih ys h.2]

theorem partitionKey_inj (xs ys : List KVal) (h : partitionKey xs = partitionKey ys) : xs = ys :=
  map_typeKey_injective xs ys (encAll_injective _ _ h)

end Analytic
