/-
Delivery model (input queue → single consumer → result channel with drop-on-full + synchronous sinks):
invariants of every reachable state, by induction over the op sequence (= over all interleavings of the
producer, the consumer goroutine and the channel's reader).
-/
import SsqlVerif.Model.Pipeline
set_option autoImplicit false

namespace Pipe

/-- batches produced for a sequence of consumed rows, in order -/
def resultsOf (cfg : Config) (env : Env) (rows : List Row) : List Batch :=
  rows.flatMap (directAsync cfg env)

/-- rows the producer tried to emit, in order -/
def emitted : List DOp → List Row
  | [] => []
  | .emit r :: ops => r :: emitted ops
  | _ :: ops => emitted ops

theorem resultsOf_append (cfg : Config) (env : Env) (a b : List Row) :
    resultsOf cfg env (a ++ b) = resultsOf cfg env a ++ resultsOf cfg env b := by
  simp [resultsOf]

/-! ### the result channel never reorders -/

theorem chanSend_sublist (cap : Nat) (d : Bool) (ch : List Batch) (b : Batch) :
    (chanSend cap d ch b).Sublist (ch ++ [b]) := by
  unfold chanSend
  split
  · exact List.Sublist.refl _
  · split
    · exact (List.take_sublist _ _).trans ((List.drop_sublist 1 ch).append (List.Sublist.refl _))
    · exact List.sublist_append_left ch [b]

theorem chanSend_length (cap : Nat) (d : Bool) (ch : List Batch) (b : Batch) (h : ch.length ≤ cap) :
    (chanSend cap d ch b).length ≤ cap := by
  unfold chanSend
  split
  · simp; omega
  · split
    · simp [List.length_take]; omega
    · exact h

/-! ### invariant -/

structure Inv (cfg : Config) (env : Env) (dc : DCfg) (s : DState) : Prop where
  fifo : s.accepted = s.processed ++ s.inQ
  sinks : s.sinkLog = (resultsOf cfg env s.processed).flatMap (sinkCalls dc.nSinks)
  chanOrder : (s.received ++ s.chan).Sublist (resultsOf cfg env s.processed)
  chanCap : s.chan.length ≤ dc.chanCap

theorem inv_init (cfg : Config) (env : Env) (dc : DCfg) : Inv cfg env dc {} :=
  ⟨rfl, rfl, by simp [resultsOf], by simp⟩

/-- delivering the batches `bs` of one consumed row -/
theorem deliverAll_spec (dc : DCfg) (d : Bool) (bs : List Batch) (s : DState) :
    (deliverAll dc d s bs).inQ = s.inQ ∧ (deliverAll dc d s bs).accepted = s.accepted ∧
    (deliverAll dc d s bs).processed = s.processed ∧ (deliverAll dc d s bs).received = s.received ∧
    (deliverAll dc d s bs).sinkLog = s.sinkLog ++ bs.flatMap (sinkCalls dc.nSinks) ∧
    ((deliverAll dc d s bs).chan).Sublist (s.chan ++ bs) ∧
    (s.chan.length ≤ dc.chanCap → (deliverAll dc d s bs).chan.length ≤ dc.chanCap) := by
  induction bs generalizing s with
  | nil => simp [deliverAll]
  | cons b rest ih =>
    obtain ⟨h1, h2, h3, h4, h5, h6, h7⟩ := ih (deliver dc d s b)
    simp only [deliverAll]
    refine ⟨by rw [h1]; rfl, by rw [h2]; rfl, by rw [h3]; rfl, by rw [h4]; rfl, ?_, ?_, ?_⟩
    · rw [h5]; simp [deliver]
    · refine h6.trans ?_
      have := (chanSend_sublist dc.chanCap d s.chan b).append (List.Sublist.refl rest)
      simpa [deliver] using this
    · intro hc
      exact h7 (chanSend_length _ _ _ _ hc)

theorem inv_step (cfg : Config) (env : Env) (dc : DCfg) (s : DState) (op : DOp)
    (h : Inv cfg env dc s) : Inv cfg env dc (dstep cfg env dc s op) := by
  obtain ⟨hf, hs, hc, hl⟩ := h
  cases op with
  | emit row =>
    simp only [dstep]
    split
    · exact ⟨by simp [hf], hs, hc, hl⟩
    · exact ⟨hf, hs, hc, hl⟩
  | consume d =>
    simp only [dstep]
    cases hq : s.inQ with
    | nil => simp only []; exact ⟨hf, hs, hc, hl⟩
    | cons row rest =>
      simp only []
      obtain ⟨h1, h2, h3, h4, h5, h6, h7⟩ :=
        deliverAll_spec dc d (directAsync cfg env row) { s with inQ := rest, processed := s.processed ++ [row] }
      refine ⟨?_, ?_, ?_, ?_⟩
      · rw [h2, h3, h1]; simp [hf, hq]
      · rw [h5, h3]
        simp only [resultsOf_append, List.flatMap_append, hs]
        simp [resultsOf]
      · rw [h4, h3, resultsOf_append]
        have hr : resultsOf cfg env [row] = directAsync cfg env row := by simp [resultsOf]
        rw [hr]
        have := (List.Sublist.refl s.received).append h6
        refine this.trans ?_
        have := hc.append (List.Sublist.refl (directAsync cfg env row))
        simpa [List.append_assoc] using this
      · exact h7 hl
  | recv =>
    simp only [dstep]
    cases hq : s.chan with
    | nil => simp only []; exact ⟨hf, hs, hc, hl⟩
    | cons b rest =>
      simp only []
      refine ⟨hf, hs, ?_, ?_⟩
      · rw [hq] at hc; simpa [List.append_assoc] using hc
      · rw [hq] at hl; simp at hl ⊢; omega

theorem inv_run (cfg : Config) (env : Env) (dc : DCfg) (s : DState) (ops : List DOp)
    (h : Inv cfg env dc s) : Inv cfg env dc (drun cfg env dc s ops) := by
  induction ops generalizing s with
  | nil => exact h
  | cons op rest ih => exact ih _ (inv_step cfg env dc s op h)

/-! ### accepted rows are the emitted ones, in order (all of them when the input queue never overflows) -/

theorem accepted_sublist (cfg : Config) (env : Env) (dc : DCfg) (s : DState) (ops : List DOp) :
    ∃ extra, (drun cfg env dc s ops).accepted = s.accepted ++ extra ∧ extra.Sublist (emitted ops) := by
  induction ops generalizing s with
  | nil => exact ⟨[], by simp [drun], List.Sublist.refl _⟩
  | cons op rest ih =>
    obtain ⟨extra, he, hs⟩ := ih (dstep cfg env dc s op)
    cases op with
    | emit row =>
      simp only [drun, emitted]
      by_cases hcap : s.inQ.length < dc.inCap
      · refine ⟨row :: extra, ?_, hs.cons_cons row⟩
        rw [he]; simp [dstep, hcap]
      · refine ⟨extra, ?_, hs.cons row⟩
        rw [he]; simp [dstep, hcap]
    | consume d =>
      refine ⟨extra, ?_, by simpa [emitted] using hs⟩
      simp only [drun]; rw [he]
      congr 1
      simp only [dstep]
      cases hq : s.inQ with
      | nil => rfl
      | cons row rest' =>
        exact (deliverAll_spec dc d (directAsync cfg env row) { s with inQ := rest', processed := s.processed ++ [row] }).2.1
    | recv =>
      refine ⟨extra, ?_, by simpa [emitted] using hs⟩
      simp only [drun]; rw [he]
      congr 1
      simp only [dstep]
      cases hq : s.chan <;> rfl

/-! ### one sink's view -/

theorem filter_sinkCalls (n i : Nat) (b : Batch) :
    (sinkCalls n b).filter (fun p => p.1 == i) = if i < n then [(i, b)] else [] := by
  unfold sinkCalls
  induction n with
  | zero => simp
  | succ n ih =>
    rw [List.range_succ, List.map_append, List.filter_append, ih]
    by_cases h1 : i < n
    · have : ¬ n = i := by omega
      simp [h1, Nat.lt_succ_of_lt h1, this]
    · by_cases h2 : i = n
      · subst h2; simp
      · have h3 : ¬ i < n + 1 := by omega
        have : ¬ n = i := fun e => h2 e.symm
        simp [h1, h3, this]

/-- what sink number `i` received, in order -/
def sinkView (i : Nat) (log : List (Nat × Batch)) : List Batch := (log.filter fun p => p.1 == i).map Prod.snd

theorem sinkView_flatMap (n i : Nat) (hi : i < n) (bs : List Batch) :
    sinkView i (bs.flatMap (sinkCalls n)) = bs := by
  induction bs with
  | nil => rfl
  | cons b rest ih =>
    unfold sinkView at ih ⊢
    simp only [List.flatMap_cons, List.filter_append, List.map_append, filter_sinkCalls, hi, if_true, ih]
    simp

end Pipe
