/-
Helper lemmas for C01 with ALLOWEDLATENESS ≥ 0: conservation of the accepted rows.  Neither a
late update nor the purge at the end of an allowance (`closeExpiredWindows`) touches a buffered
row: in every reachable state no buffered row lies inside a triggered window, so the rows
accepted so far are exactly the buffered ones plus those reported by first firings.
Core Lean only.
-/
import SsqlVerif.Proofs.TumblingLate
set_option autoImplicit false
set_option linter.unusedVariables false
set_option linter.unusedSimpArgs false

namespace Tumbling
open Wm

/-- rows reported by first firings (late re-deliveries repeat rows and are left out) -/
def firstRowsOf (es : List Emission) : List Row := rowsOf (es.filter (fun e => decide (e.kind = .first)))

theorem firstRowsOf_append (a b : List Emission) : firstRowsOf (a ++ b) = firstRowsOf a ++ firstRowsOf b := by
  simp [firstRowsOf, rowsOf_append, List.filter_append]

theorem filter_id_of_all {α : Type} (p : α → Bool) (l : List α) (h : ∀ x ∈ l, p x = true) : l.filter p = l := by
  induction l with
  | nil => rfl
  | cons y ys ih =>
    have hy := h y (by simp)
    simp only [List.filter_cons, hy, if_true]
    rw [ih (fun x hx => h x (by simp [hx]))]

/-- the purge of `closeExpiredWindows` removes no buffered row -/
theorem closeExpired_data (s : TW) (w : Int) (es : List Emission) (hg : Good s) (hf : GoodF s es) :
    (closeExpired s w).data = s.data := by
  show s.data.filter (fun r => !(expired s w).any (fun f => inSlot s.size f.start r)) = s.data
  apply filter_id_of_all
  intro x hx
  simp only [Bool.not_eq_true', List.any_eq_false]
  intro f hfm
  have hfm' : f ∈ s.fired := (List.mem_filter.mp hfm).1
  rw [data_not_in_fired s es hg hf f hfm' x hx]
  decide

/-- a late update leaves the buffer as it was: the late row goes to the triggered window's snapshot -/
theorem lateUpdate_data (s : TW) (es : List Emission) (r : Row) (now : Int) (f : Fired) (hg : Good s) (hf : GoodF s es)
    (h : fate s r now = .lateUpdate f) : addData s r now = s.data := by
  obtain ⟨_, _, hfind⟩ := fate_lateUpdate s r now f h
  obtain ⟨hfm, hin, _⟩ := findFired_mem s r now f hfind
  unfold addData
  rw [h]
  show (s.data ++ [r]).filter (fun x => !inSlot s.size f.start x) = s.data
  rw [List.filter_append]
  have h1 : s.data.filter (fun x => !inSlot s.size f.start x) = s.data := by
    apply filter_id_of_all
    intro x hx
    rw [data_not_in_fired s es hg hf f hfm x hx]; rfl
  rw [h1]
  simp [hin]

theorem fireOrSkip_conserve_first (s : TW) (c : Int) (x : Row) :
    (fireOrSkip s c).1.data.count x + (firstRowsOf (fireOrSkip s c).2).count x = s.data.count x := by
  unfold fireOrSkip
  split
  · simp [firstRowsOf, rowsOf]
  · simp [firstRowsOf, rowsOf, slotRows, restRows, count_filter_split, Nat.add_comm]

theorem step_conserve_late (s : TW) (op : Op) (es : List Emission) (x : Row) (hg : Good s) (hf : GoodF s es) :
    (step s op).1.data.count x + (firstRowsOf (step s op).2).count x
      = s.data.count x + (acceptedBy s op).count x := by
  cases op with
  | add r now =>
    cases hfate : fate s r now with
    | keep => simp [step, stepAdd, addData, addEmit, acceptedBy, hfate, firstRowsOf, rowsOf]
    | drop => simp [step, stepAdd, addData, addEmit, acceptedBy, hfate, firstRowsOf, rowsOf]
    | lateUpdate f =>
      have hd := lateUpdate_data s es r now f hg hf hfate
      have he : (step s (.add r now)).2 = [{ kind := .late, start := f.start, stop := f.start + s.size, rows := lateRows s f r }] := by
        simp [step, stepAdd, addEmit, hfate]
      have hdd : (step s (.add r now)).1.data = s.data := by
        show addData s r now = s.data
        exact hd
      rw [he, hdd]
      simp [acceptedBy, hfate, firstRowsOf, rowsOf]
  | addNoTs => simp [step, acceptedBy, firstRowsOf, rowsOf]
  | tick idle now => simp [step, acceptedBy, firstRowsOf, rowsOf]
  | pop =>
    simp only [step, stepPop, acceptedBy]
    split <;> simp [firstRowsOf, rowsOf]
  | iter =>
    simp only [step, stepIter, acceptedBy]
    split
    · split
      · simpa using fireOrSkip_conserve_first s _ x
      · simp [firstRowsOf, rowsOf, closeExpired_data s _ es hg hf]
    · simp [firstRowsOf, rowsOf]
    · simp [firstRowsOf, rowsOf]

theorem run_conserve_late (s : TW) (ops : List Op) (es : List Emission) (x : Row) (hg : Good s) (hf : GoodF s es)
    (hok : ∀ op ∈ ops, OpOk op) :
    (run s ops).1.data.count x + (firstRowsOf (run s ops).2).count x
      = s.data.count x + (acceptedRows s ops).count x := by
  induction ops generalizing s es with
  | nil => simp [run, acceptedRows, firstRowsOf, rowsOf]
  | cons op ops ih =>
    have hop : OpOk op := hok op (by simp)
    have h1 := step_conserve_late s op es x hg hf
    have h2 := ih (step s op).1 (es ++ (step s op).2) (good_step s op hg hop) (goodF_step s op es hg hf hop)
      (fun o ho => hok o (by simp [ho]))
    simp only [run, acceptedRows, firstRowsOf_append, List.count_append] at *
    omega

end Tumbling
