/-
C03 helper lemmas about the `GroupAggregator` model: after any sequence of `Add`s the state
holds, per group key in first-appearance order, exactly the accumulators obtained from the rows
of that group; hence `GetResults` is `AggSpec.batchResults`, and `Reset` makes batches independent.
-/
import SsqlVerif.Proofs.AggRun
set_option autoImplicit false
set_option linter.unusedSectionVars false

namespace GroupAggProofs
open Agg GroupAgg AggSpec AggProofs

variable {ν : Type} [NumOps ν]

/-! ### one field -/

/-- accumulator of one field after the rows `rs` of its group -/
def fieldRun (e : Env ν) (f : Field ν) (rs : List (Row ν)) : St ν :=
  rs.foldl (fun st r => stepField e r f st) (St.new f.kind)

theorem fieldRun_eq (e : Env ν) (f : Field ν) (rs : List (Row ν)) :
    fieldRun e f rs = (rs.filterMap (dispatch e f)).foldl (St.add e) (St.new f.kind) := by
  unfold fieldRun
  generalize (St.new f.kind : St ν) = s
  induction rs generalizing s with
  | nil => rfl
  | cons r rs ih =>
    simp only [List.foldl_cons, List.filterMap_cons, stepField]
    cases h : dispatch e f r with
    | none => exact ih s
    | some v => simp only [List.foldl_cons]; exact ih _

theorem allowsNull_iff (k : Kind) : allowsNull k = (decide (k = .firstValue) || decide (k = .lastValue)) := by
  cases k <;> rfl

/-- what `Add` does after the declarative "takes part" filter: bare columns of numeric
aggregates are converted with `cast.ToFloat64E` -/
def post (e : Env ν) (f : Field ν) (v : Val ν) : Option (Val ν) :=
  match f.input with
  | .col _ => coerce e f.kind v
  | _ => some v

theorem nullGate_eq (k : Kind) (v : Val ν) : nullGate k v = (some v).filter (takesPart k) := by
  unfold nullGate takesPart
  rw [allowsNull_iff]
  cases h : v.isNull <;> cases h1 : decide (k = .firstValue) <;> cases h2 : decide (k = .lastValue) <;>
    simp [Option.filter, h, h1, h2]

theorem dispatch_eq (e : Env ν) (f : Field ν) (r : Row ν) :
    dispatch e f r = ((argOf f r).filter (takesPart f.kind)).bind (post e f) := by
  unfold dispatch argOf post
  cases hi : f.input with
  | star => simp [Option.filter, takesPart]
  | col name =>
    simp only [colInput]
    cases lookup name r with
    | none => rfl
    | some v => simp only [nullGate_eq]
  | expr ev =>
    simp only [exprInput]
    cases ev r with
    | none => rfl
    | some v =>
      simp only [nullGate_eq]
      cases h : (some v).filter (takesPart f.kind) <;> simp [h]

theorem filterMap_dispatch (e : Env ν) (f : Field ν) (rs : List (Row ν)) :
    rs.filterMap (dispatch e f) = (inputs f rs).filterMap (post e f) := by
  unfold inputs
  rw [List.filterMap_filterMap]
  congr 1
  funext r
  exact dispatch_eq e f r

theorem toFloat_flt_roundtrip (e : Env ν) (v : Val ν) :
    ((toFloat e v).map Val.flt).bind (toFloat e) = toFloat e v := by
  cases h : toFloat e v <;> simp [toFloat]

theorem nums_coerced (e : Env ν) (l : List (Val ν)) :
    nums e (l.filterMap fun v => (toFloat e v).map Val.flt) = nums e l := by
  unfold nums
  rw [List.filterMap_filterMap]
  congr 1
  funext v
  exact toFloat_flt_roundtrip e v

theorem filterMap_some' {α : Type} (l : List α) : l.filterMap some = l := by
  induction l with
  | nil => rfl
  | cons a l ih => simp [ih]

theorem coerce_fun (e : Env ν) (k : Kind) :
    coerce e k = if k = .count then some else if isNumeric k then (fun v => (toFloat e v).map Val.flt) else some := by
  funext v
  unfold coerce
  by_cases h1 : k = .count
  · simp [h1]
  · by_cases h2 : isNumeric k = true
    · simp [h1, h2]
    · simp [h1, h2]

/-- the numeric conversion in front of a numeric aggregate does not change its value -/
theorem value_coerce (e : Env ν) (prm : Param ν) (k : Kind) (l : List (Val ν)) :
    value e prm k (l.filterMap (coerce e k)) = value e prm k l := by
  rw [coerce_fun]
  cases k <;>
    simp only [isNumeric, if_true, if_false, reduceCtorEq, filterMap_some', value, nums_coerced]

theorem value_post (e : Env ν) (f : Field ν) (l : List (Val ν)) :
    value e f.prm f.kind (l.filterMap (post e f)) = value e f.prm f.kind l := by
  unfold post
  cases hi : f.input with
  | star => simp only [filterMap_some']
  | col name => exact value_coerce e f.prm f.kind l
  | expr ev => simp only [filterMap_some']

/-- the result of one field over the rows of its group, as a run of the aggregator object -/
theorem fieldRun_result (e : Env ν) (f : Field ν) (rs : List (Row ν)) :
    (fieldRun e f rs).result e f.prm = run e f.prm f.kind ((inputs f rs).filterMap (post e f)) := by
  rw [fieldRun_eq, filterMap_dispatch]; rfl

/-! ### one group: positional list of accumulators -/

theorem stepGroup_map (e : Env ν) (r : Row ν) (fields : List (Field ν)) (g : Field ν → St ν) :
    stepGroup e r fields (fields.map g) = fields.map (fun f => stepField e r f (g f)) := by
  induction fields with
  | nil => rfl
  | cons f fs ih => simp [stepGroup, ih]

theorem foldl_stepGroup_map (e : Env ν) (fields : List (Field ν)) (rs : List (Row ν)) (g : Field ν → St ν) :
    rs.foldl (fun sts r => stepGroup e r fields sts) (fields.map g)
      = fields.map (fun f => rs.foldl (fun st r => stepField e r f st) (g f)) := by
  induction rs generalizing g with
  | nil => rfl
  | cons r rs ih =>
    simp only [List.foldl_cons, stepGroup_map]
    exact ih _

/-- accumulators of one group after its rows `rs` -/
def statesFor (e : Env ν) (fields : List (Field ν)) (rs : List (Row ν)) : List (St ν) :=
  rs.foldl (fun sts r => stepGroup e r fields sts) (newGroup fields)

theorem statesFor_eq (e : Env ν) (fields : List (Field ν)) (rs : List (Row ν)) :
    statesFor e fields rs = fields.map (fun f => fieldRun e f rs) := by
  unfold statesFor newGroup fieldRun
  exact foldl_stepGroup_map e fields rs _

theorem resultsOf_map (e : Env ν) (fields : List (Field ν)) (h : Field ν → St ν) :
    resultsOf e fields (fields.map h) = fields.map (fun f => (f.alias, (h f).result e f.prm)) := by
  induction fields with
  | nil => rfl
  | cons f fs ih => simp [resultsOf, ih]

theorem statesFor_snoc (e : Env ν) (fields : List (Field ν)) (rs : List (Row ν)) (r : Row ν) :
    statesFor e fields (rs ++ [r]) = stepGroup e r fields (statesFor e fields rs) := by
  unfold statesFor
  rw [List.foldl_append]; rfl

/-! ### the group table -/

variable {κ : Type} [DecidableEq κ]

theorem nodup_distinct {α : Type} [DecidableEq α] (l : List α) : (distinct id l).Nodup := by
  induction l using rev_ind with
  | h0 => simp [distinct, distinctRev]
  | hs l x ih =>
    rw [distinct_snoc]
    by_cases h : l.any (fun y => decide (id y = id x)) = true
    · simp only [h, if_true]; exact ih
    · simp only [h, Bool.false_eq_true, if_false]
      rw [List.nodup_append]
      refine ⟨ih, by simp, ?_⟩
      intro a ha b hb
      simp only [List.mem_singleton] at hb
      subst hb
      intro hab
      subst hab
      have := (mem_distinct_keys id l a).mp (by simpa using ha)
      simp only [List.map_id_fun, id_eq] at this
      apply h
      simp only [List.any_eq_true, decide_eq_true_eq, id_eq]
      exact ⟨a, this, rfl⟩

theorem mem_distinct_id {α : Type} [DecidableEq α] (l : List α) (a : α) :
    a ∈ distinct id l ↔ a ∈ l := by
  have := mem_distinct_keys id l a
  simpa using this

/-- `upsert` on a table presented as `keys.map (k ↦ (k, G k))`, key absent -/
theorem upsert_map_absent (k : κ) (f : List (St ν) → List (St ν)) (init : List (St ν))
    (ks : List κ) (G : κ → List (St ν)) (h : k ∉ ks) :
    upsert k f init (ks.map fun k' => (k', G k')) = (ks.map fun k' => (k', G k')) ++ [(k, f init)] := by
  induction ks with
  | nil => rfl
  | cons a ks ih =>
    have ha : ¬ a = k := fun h' => h (by rw [h']; exact List.mem_cons_self)
    have hks : k ∉ ks := fun h' => h (List.mem_cons_of_mem _ h')
    simp only [List.map_cons, upsert, ha, if_false, ih hks, List.cons_append]

/-- `upsert` on such a table, key present once -/
theorem upsert_map_present (k : κ) (f : List (St ν) → List (St ν)) (init : List (St ν))
    (ks : List κ) (G : κ → List (St ν)) (h : k ∈ ks) (hn : ks.Nodup) :
    upsert k f init (ks.map fun k' => (k', G k'))
      = ks.map fun k' => (k', if k' = k then f (G k') else G k') := by
  induction ks with
  | nil => cases h
  | cons a ks ih =>
    have hn' := List.nodup_cons.mp hn
    by_cases ha : a = k
    · subst ha
      simp only [List.map_cons, upsert, if_true]
      congr 1
      apply List.map_congr_left
      intro b hb
      have : ¬ b = a := fun h' => hn'.1 (h' ▸ hb)
      simp [this]
    · have hk : k ∈ ks := by
        rcases List.mem_cons.mp h with h' | h'
        · exact absurd h'.symm ha
        · exact h'
      simp only [List.map_cons, upsert, ha, if_false, ih hk hn'.2]

/-- accumulators of group `k` after the rows `rows` (of all groups) -/
def groupStates (c : Cfg ν κ) (rows : List (Row ν)) (k : κ) : List (St ν) :=
  statesFor c.env c.fields (rows.filter fun r => decide (c.keyOf r = k))

theorem groupStates_snoc_same (c : Cfg ν κ) (rows : List (Row ν)) (r : Row ν) :
    groupStates c (rows ++ [r]) (c.keyOf r)
      = stepGroup c.env r c.fields (groupStates c rows (c.keyOf r)) := by
  unfold groupStates
  rw [List.filter_append]
  simp only [List.filter_cons, decide_true, if_true, List.filter_nil]
  exact statesFor_snoc _ _ _ _

theorem groupStates_snoc_other (c : Cfg ν κ) (rows : List (Row ν)) (r : Row ν) (k : κ)
    (h : ¬ c.keyOf r = k) : groupStates c (rows ++ [r]) k = groupStates c rows k := by
  unfold groupStates
  rw [List.filter_append]
  simp [List.filter_cons, h]

theorem groupStates_absent (c : Cfg ν κ) (rows : List (Row ν)) (k : κ) (h : k ∉ rows.map c.keyOf) :
    groupStates c rows k = newGroup c.fields := by
  unfold groupStates
  have : (rows.filter fun r => decide (c.keyOf r = k)) = [] := by
    rw [List.filter_eq_nil_iff]
    intro r hr
    simp only [decide_eq_true_eq]
    intro hk
    exact h (List.mem_map.mpr ⟨r, hr, hk⟩)
  rw [this]; rfl

/-- **state invariant**: after `Add`ing `rows` to an empty table it holds, for every key in
first-appearance order, the accumulators of that key's rows -/
theorem state_after (c : Cfg ν κ) (rows : List (Row ν)) :
    rows.foldl (GroupAgg.add c) [] =
      (distinct id (rows.map c.keyOf)).map fun k => (k, groupStates c rows k) := by
  induction rows using rev_ind with
  | h0 => simp [distinct, distinctRev]
  | hs rows r ih =>
    rw [List.foldl_append, ih]
    simp only [List.foldl_cons, List.foldl_nil, GroupAgg.add, List.map_append, List.map_cons, List.map_nil]
    rw [distinct_snoc]
    by_cases h : (rows.map c.keyOf).any (fun y => decide (id y = id (c.keyOf r))) = true
    · -- key already present
      have hmem : c.keyOf r ∈ distinct id (rows.map c.keyOf) := by
        rw [mem_distinct_id]
        simp only [List.any_eq_true, decide_eq_true_eq, id_eq] at h
        obtain ⟨y, hy, hyk⟩ := h
        rw [← hyk]; exact hy
      simp only [h, if_true]
      rw [upsert_map_present _ _ _ _ _ hmem (nodup_distinct _)]
      apply List.map_congr_left
      intro k _
      by_cases hk : k = c.keyOf r
      · subst hk
        simp only [if_true, groupStates_snoc_same]
      · have : ¬ c.keyOf r = k := fun h' => hk h'.symm
        simp only [hk, if_false, groupStates_snoc_other c rows r k this]
    · -- new key
      have hnot : c.keyOf r ∉ rows.map c.keyOf := by
        intro hm
        apply h
        simp only [List.any_eq_true, decide_eq_true_eq, id_eq]
        exact ⟨_, hm, rfl⟩
      have hnot' : c.keyOf r ∉ distinct id (rows.map c.keyOf) := by
        rw [mem_distinct_id]; exact hnot
      simp only [h, Bool.false_eq_true, if_false]
      rw [upsert_map_absent _ _ _ _ _ hnot']
      simp only [List.map_append, List.map_cons, List.map_nil]
      congr 1
      · apply List.map_congr_left
        intro k hk
        have : ¬ c.keyOf r = k := by
          intro h'; subst h'; exact hnot' hk
        rw [groupStates_snoc_other c rows r k this]
      · rw [groupStates_snoc_same, groupStates_absent c rows _ hnot]

/-- `GetResults` after `Add`ing `rows` to an empty table, in terms of runs of aggregator objects
(holds for every number type, float64 included) -/
theorem getResults_runs (c : Cfg ν κ) (rows : List (Row ν)) :
    getResults c (rows.foldl (GroupAgg.add c) []) =
      (distinct id (rows.map c.keyOf)).map fun k =>
        (k, c.fields.map fun f => (f.alias,
          run c.env f.prm f.kind
            ((inputs f (rows.filter fun r => decide (c.keyOf r = k))).filterMap (post c.env f)))) := by
  rw [state_after]
  unfold getResults
  rw [List.map_map]
  apply List.map_congr_left
  intro k _
  simp only [Function.comp, groupStates, statesFor_eq, resultsOf_map, fieldRun_result]

/-- … and in terms of the declarative definitions (order laws needed only for median/percentile) -/
theorem getResults_spec [LawfulOrd ν] (c : Cfg ν κ) (rows : List (Row ν)) :
    getResults c (rows.foldl (GroupAgg.add c) []) = batchResults c rows := by
  rw [getResults_runs]
  unfold batchResults groupResult
  apply List.map_congr_left
  intro k _
  congr 1
  apply List.map_congr_left
  intro f _
  rw [run_eq_value, value_post]

theorem getResults_spec_nosort (c : Cfg ν κ) (rows : List (Row ν))
    (hns : ∀ f ∈ c.fields, usesSort f.kind = false) :
    getResults c (rows.foldl (GroupAgg.add c) []) = batchResults c rows := by
  rw [getResults_runs]
  unfold batchResults groupResult
  apply List.map_congr_left
  intro k _
  congr 1
  apply List.map_congr_left
  intro f hf
  rw [run_eq_value_nosort _ _ _ (hns f hf), value_post]

/-- adding a row of another group leaves a group's accumulators untouched -/
theorem lookup_add_other (c : Cfg ν κ) (g : State ν κ) (r : Row ν) (k : κ) (h : ¬ c.keyOf r = k)
    (sts : List (St ν)) : (k, sts) ∈ GroupAgg.add c g r ↔ (k, sts) ∈ g := by
  unfold GroupAgg.add
  generalize c.keyOf r = kr at h
  generalize stepGroup c.env r c.fields = f
  generalize newGroup c.fields = init
  induction g with
  | nil =>
    simp only [upsert, List.mem_singleton, Prod.mk.injEq, List.not_mem_nil, iff_false]
    intro h'; exact h h'.1.symm
  | cons p rest ih =>
    obtain ⟨k0, s0⟩ := p
    unfold upsert
    by_cases hk : k0 = kr
    · subst hk
      simp only [if_true, List.mem_cons, Prod.mk.injEq]
      constructor
      · rintro (⟨h1, _⟩ | h1)
        · exact absurd h1.symm h
        · exact Or.inr h1
      · rintro (⟨h1, _⟩ | h1)
        · exact absurd h1.symm h
        · exact Or.inr h1
    · simp only [hk, if_false, List.mem_cons, ih]

/-! ### batches -/

theorem runBatches_eq (c : Cfg ν κ) (g : State ν κ) (b : List (Row ν)) (bs : List (List (Row ν))) :
    runBatches c g (b :: bs)
      = getResults c (b.foldl (GroupAgg.add c) g) :: bs.map fun b' => getResults c (b'.foldl (GroupAgg.add c) []) := by
  simp only [runBatches, processBatch, reset, List.cons.injEq, true_and]
  induction bs with
  | nil => rfl
  | cons b' bs ih =>
    simp only [runBatches, processBatch, reset, List.map_cons, List.cons.injEq, true_and]
    exact ih

end GroupAggProofs
