/-
Helper lemmas for C19, part 2: the structural invariant of the ingest protocol — what each
program counter implies about the lock, the expansion guard and the channels.
Core Lean only.
-/
import SsqlVerif.Proofs.Ingest
set_option autoImplicit false
set_option linter.unusedVariables false
set_option linter.unusedSimpArgs false

namespace Ingest

/-- what a producer parked at `pc` knows about the shared state -/
def PcOk (c : Cfg) (s : State) (j : Nat) : PC → Prop
  | .idle => True
  | .sendLock att => (c.strat = .drop ∧ att = 0) ∨ c.strat = .expand
  | .sendSend att => s.mig = none ∧ ((c.strat = .drop ∧ att = 0) ∨ c.strat = .expand)
  | .expEnter => c.strat = .expand
  | .expRead => c.strat = .expand ∧ s.expanding = some j
  | .expWLock n => c.strat = .expand ∧ s.expanding = some j ∧ (0 < c.maxCap → n ≤ c.maxCap) ∧
      (∀ ch ∈ s.chans, ch.cap < n)
  | .expMig => c.strat = .expand ∧ s.expanding = some j ∧ ∃ o n, s.mig = some (j, o, n)
  | .expDone => c.strat = .expand ∧ s.expanding = some j
  | .expRetry _ => c.strat = .expand
  | .dropGet => c.strat = .drop
  | .dropRetry _ h => c.strat = .drop ∧ h = 0
  | .blockGet => c.strat = .block
  | .blockSend h => c.strat = .block ∧ h = 0

/-- per-producer invariant -/
structure PInv (c : Cfg) (s : State) (j : Nat) (p : Prod) : Prop where
  hid : p.id = j
  hcur : ∀ r, p.cur = some r → r = ⟨j, p.next - 1⟩ ∧ 0 < p.next
  hpc : PcOk c s j p.pc

/-- global invariant (the part that does not mention the producers) -/
structure GCore (c : Cfg) (s : State) : Prop where
  migShape : ∀ j o n, s.mig = some (j, o, n) →
    s.curCh = o ∧ n + 1 = s.chans.length ∧ (∀ o', o = some o' → o' < n) ∧ c.strat = .expand
  curLast : s.mig = none → ∀ h, s.curCh = some h → h + 1 = s.chans.length
  single : c.strat ≠ .expand → s.chans.length = 1
  flags : (s.done = true → s.stopped = true) ∧ (s.curCh = none → s.stopped = true) ∧ (s.exits ≠ [] → s.stopped = true)
  hold : c.consLock = true → ∀ h, s.cons = .cHold h → s.mig = none ∧ s.curCh = some h
  others : ∀ h ch, s.chans[h]? = some ch → ch.buf ≠ [] →
    s.stopped = true ∨ s.curCh = some h ∨ ∃ j o, s.mig = some (j, o, h)
  capsInc : List.Pairwise (· < ·) (s.chans.map (·.cap))
  capsMax : 0 < c.maxCap → ∀ ch ∈ s.chans, ch.cap ≤ max c.maxCap c.cap0
  capsMin : ∀ ch ∈ s.chans, c.cap0 ≤ ch.cap
  noDrop : c.strat = .block → c.timeout = false → s.dropped = []
  nonempty : 0 < s.chans.length
  stopping : s.stopPc ≠ .sIdle → s.stopped = true

structure Inv (c : Cfg) (s : State) : Prop where
  core : GCore c s
  /-- the write lock is held by a producer parked inside the migration -/
  own : ∀ j o n, s.mig = some (j, o, n) → ∃ p, s.prods[j]? = some p ∧ p.pc = .expMig
  p : ∀ (j : Nat) (q : Prod), s.prods[j]? = some q → PInv c s j q

/-! ### arithmetic of the expansion decision -/

theorem ceilCap_le (c : Cfg) (n : Nat) (h : 0 < c.maxCap) (hn : ceilCap c n ≠ n) : ceilCap c n ≤ c.maxCap := by
  unfold ceilCap at *
  split at hn
  · split <;> simp_all
  · exact absurd rfl hn

theorem expandDecision_some (c : Cfg) (cap len n : Nat) (h : expandDecision c cap len = some n) :
    cap < n ∧ (0 < c.maxCap → n ≤ c.maxCap) := by
  unfold expandDecision at h
  split at h
  · simp at h
  · split at h
    · simp at h
    · rename_i hceil
      split at h
      · simp at h
      · split at h
        · simp at h
        · rename_i hle
          simp at h; subst h
          refine ⟨by omega, ?_⟩
          intro hm
          unfold newCap at *
          unfold ceilCap at *
          split
          · omega
          · rename_i hh
            simp [atCeiling, hm] at hceil
            have : wantCap c cap ≤ c.maxCap := by
              rcases Nat.lt_or_ge c.maxCap (wantCap c cap) with h1 | h1
              · exact absurd ⟨hm, h1⟩ hh
              · exact h1
            exact this

/-- the last channel has the largest capacity -/
theorem caps_le_last (cs : List Chan) (h : List.Pairwise (· < ·) (cs.map (·.cap))) (k : Nat) (ch : Chan)
    (hk : cs[k]? = some ch) (hl : k + 1 = cs.length) : ∀ x ∈ cs, x.cap ≤ ch.cap := by
  induction cs generalizing k with
  | nil => simp at hk
  | cons a rest ih =>
    intro x hx
    simp at h
    cases k with
    | zero =>
      simp at hk; subst hk
      have : rest = [] := by
        cases rest with
        | nil => rfl
        | cons b r => simp at hl
      subst this
      simp at hx; subst hx; exact Nat.le_refl _
    | succ k' =>
      simp at hk hl
      rcases List.mem_cons.mp hx with rfl | hx'
      · have hmem : ch ∈ rest := List.mem_of_getElem? hk
        have := h.1 ch hmem
        omega
      · exact ih h.2 k' hk (by omega) x hx'

end Ingest

namespace Ingest

/-! ### frames -/

/-- `GCore` only reads these fields -/
theorem gcore_congr (c : Cfg) (s s' : State) (h1 : s'.mig = s.mig)
    (h3 : s'.curCh = s.curCh) (h4 : s'.chans = s.chans) (h5 : s'.done = s.done) (h6 : s'.stopped = s.stopped)
    (h7 : s'.exits = s.exits) (h8 : s'.cons = s.cons) (h9 : s'.dropped = s.dropped)
    (h10 : s'.stopPc = s.stopPc) (hg : GCore c s) : GCore c s' := by
  constructor
  · rw [h1, h3, h4]; exact hg.migShape
  · rw [h1, h3, h4]; exact hg.curLast
  · rw [h4]; exact hg.single
  · rw [h5, h6, h3, h7]; exact hg.flags
  · rw [h8, h1, h3]; exact hg.hold
  · rw [h4, h6, h3, h1]; exact hg.others
  · rw [h4]; exact hg.capsInc
  · rw [h4]; exact hg.capsMax
  · rw [h4]; exact hg.capsMin
  · rw [h9]; exact hg.noDrop
  · rw [h4]; exact hg.nonempty
  · rw [h10, h6]; exact hg.stopping

/-- what may change around a parked producer without invalidating what it knows -/
theorem pcOk_frame (c : Cfg) (s s' : State) (j : Nat) (pc : PC) (h : PcOk c s j pc)
    (he : s.expanding = some j → s'.expanding = some j)
    (hm1 : isRdPc pc = true → s.mig = none → s'.mig = none)
    (hm2 : ∀ o n, s.mig = some (j, o, n) → ∃ o' n', s'.mig = some (j, o', n'))
    (hc : s.expanding = some j → ∀ n, (∀ ch ∈ s.chans, ch.cap < n) → ∀ ch ∈ s'.chans, ch.cap < n) :
    PcOk c s' j pc := by
  cases pc with
  | idle => trivial
  | sendLock att => exact h
  | sendSend att => exact ⟨hm1 rfl h.1, h.2⟩
  | expEnter => exact h
  | expRead => exact ⟨h.1, he h.2⟩
  | expWLock n => exact ⟨h.1, he h.2.1, h.2.2.1, hc h.2.1 n h.2.2.2⟩
  | expMig =>
    obtain ⟨h1, h2, o, n, h3⟩ := h
    exact ⟨h1, he h2, hm2 o n h3⟩
  | expDone => exact ⟨h.1, he h.2⟩
  | expRetry k => exact h
  | dropGet => exact h
  | dropRetry k hh => exact h
  | blockGet => exact h
  | blockSend hh => exact h

theorem pcOk_congr (c : Cfg) (s s' : State) (j : Nat) (pc : PC) (h : PcOk c s j pc)
    (h1 : s'.expanding = s.expanding) (h2 : s'.mig = s.mig) (h3 : s'.chans.map (·.cap) = s.chans.map (·.cap)) :
    PcOk c s' j pc := by
  apply pcOk_frame c s s' j pc h
  · rw [h1]; exact id
  · intro _ hm; rw [h2]; exact hm
  · intro o n hm; rw [h2]; exact ⟨o, n, hm⟩
  · intro _ n hn ch hch
    have : ch.cap ∈ s'.chans.map (·.cap) := List.mem_map.mpr ⟨ch, hch, rfl⟩
    rw [h3] at this
    obtain ⟨x, hx, hxe⟩ := List.mem_map.mp this
    have := hn x hx
    omega

/-- justification of the place a producer goes to -/
def NxOk (c : Cfg) (s : State) (i : Nat) : Next → Prop
  | .goto pc => PcOk c s i pc ∧ pc ≠ .idle
  | .drop => ¬ (c.strat = .block ∧ c.timeout = false)
  | .exit => s.stopped = true

theorem getElem?_set_ne' {α : Type} (l : List α) (i j : Nat) (a : α) (h : j ≠ i) : (l.set i a)[j]? = l[j]? := by
  rw [List.getElem?_set]; simp [Ne.symm h]

theorem getElem?_set_self' {α : Type} (l : List α) (i : Nat) (a b : α) (h : l[i]? = some b) : (l.set i a)[i]? = some a := by
  rw [List.getElem?_set]
  have : i < l.length := by
    rcases Nat.lt_or_ge i l.length with h1 | h1
    · exact h1
    · rw [List.getElem?_eq_none h1] at h; simp at h
  simp [this]

/-- `Next.apply` keeps the core: a silent return needs a stopped stream, a counted drop is never
the block strategy without timeout -/
theorem gcore_apply (c : Cfg) (s0 : State) (i : Nat) (p : Prod) (nx : Next) (hg : GCore c s0)
    (hnx : NxOk c s0 i nx) : GCore c (nx.apply s0 i p) := by
  have hst' : (nx.apply s0 i p).stopped = s0.stopped := by cases nx <;> rfl
  constructor
  · cases nx <;> exact hg.migShape
  · cases nx <;> exact hg.curLast
  · cases nx <;> exact hg.single
  · refine ⟨?_, ?_, ?_⟩
    · cases nx <;> exact hg.flags.1
    · cases nx <;> exact hg.flags.2.1
    · cases nx with
      | goto pc => exact hg.flags.2.2
      | drop => exact hg.flags.2.2
      | exit => intro _; exact hnx
  · cases nx <;> exact hg.hold
  · cases nx <;> exact hg.others
  · cases nx <;> exact hg.capsInc
  · cases nx <;> exact hg.capsMax
  · cases nx <;> exact hg.capsMin
  · intro hb ht
    cases nx with
    | goto pc => exact hg.noDrop hb ht
    | exit => exact hg.noDrop hb ht
    | drop => exact absurd ⟨hb, ht⟩ hnx
  · cases nx <;> exact hg.nonempty
  · cases nx <;> exact hg.stopping

/-- the generic producer step: producer `i` is replaced by `q`; lock, guard and capacities as in `s0` -/
theorem inv_upd (c : Cfg) (s0 s' : State) (i : Nat) (q p0 : Prod)
    (hcore : GCore c s')
    (hprods : s'.prods = s0.prods.set i q) (hi : s0.prods[i]? = some p0)
    (hmig : s'.mig = s0.mig) (hexp : s'.expanding = s0.expanding)
    (hcaps : s'.chans.map (·.cap) = s0.chans.map (·.cap))
    (hq : PInv c s0 i q)
    (hoth : ∀ (j : Nat) (r : Prod), j ≠ i → s0.prods[j]? = some r → PInv c s0 j r)
    (hown : ∀ j o n, s0.mig = some (j, o, n) →
      (j = i → q.pc = .expMig) ∧ (j ≠ i → ∃ pp, s0.prods[j]? = some pp ∧ pp.pc = .expMig)) :
    Inv c s' := by
  refine ⟨hcore, ?_, ?_⟩
  · intro j o n hm
    rw [hmig] at hm
    obtain ⟨h1, h2⟩ := hown j o n hm
    by_cases hji : j = i
    · subst hji
      exact ⟨q, by rw [hprods]; exact getElem?_set_self' _ _ _ _ hi, h1 rfl⟩
    · obtain ⟨pp, hpp, hpc⟩ := h2 hji
      exact ⟨pp, by rw [hprods, getElem?_set_ne' _ _ _ _ hji]; exact hpp, hpc⟩
  · intro j qq hj
    rw [hprods] at hj
    by_cases hji : j = i
    · subst hji
      rw [getElem?_set_self' _ _ _ _ hi] at hj
      simp at hj; subst hj
      exact ⟨hq.hid, hq.hcur, pcOk_congr c s0 _ j q.pc hq.hpc hexp hmig hcaps⟩
    · rw [getElem?_set_ne' _ _ _ _ hji] at hj
      have := hoth j qq hji hj
      exact ⟨this.hid, this.hcur, pcOk_congr c s0 _ j qq.pc this.hpc hexp hmig hcaps⟩

/-- the record `Next.apply` writes -/
def Next.rec' (p : Prod) : Next → Prod
  | .goto pc => { p with pc := pc }
  | _ => idled p

theorem apply_prods (s0 : State) (i : Nat) (p : Prod) (nx : Next) :
    (nx.apply s0 i p).prods = s0.prods.set i (nx.rec' p) := by cases nx <;> rfl

theorem pinv_rec' (c : Cfg) (s0 : State) (i : Nat) (p : Prod) (nx : Next) (hnx : NxOk c s0 i nx)
    (hid : p.id = i) (hcur : ∀ r, p.cur = some r → r = ⟨i, p.next - 1⟩ ∧ 0 < p.next) :
    PInv c s0 i (nx.rec' p) := by
  cases nx with
  | goto pc => exact ⟨hid, hcur, hnx.1⟩
  | drop => exact ⟨hid, by intro r hr; simp [Next.rec', idled] at hr, trivial⟩
  | exit => exact ⟨hid, by intro r hr; simp [Next.rec', idled] at hr, trivial⟩

/-- a producer that is not inside the migration moves on (`s0` = `s` up to guard/lock fields
already justified by the caller) -/
theorem inv_apply (c : Cfg) (s0 : State) (i : Nat) (p p0 : Prod) (nx : Next)
    (hg : GCore c s0) (hi : s0.prods[i]? = some p0)
    (hid : p.id = i) (hcur : ∀ r, p.cur = some r → r = ⟨i, p.next - 1⟩ ∧ 0 < p.next)
    (hoth : ∀ (j : Nat) (q : Prod), j ≠ i → s0.prods[j]? = some q → PInv c s0 j q)
    (hnx : NxOk c s0 i nx)
    (hown : ∀ j o n, s0.mig = some (j, o, n) →
      (j = i → (nx.rec' p).pc = .expMig) ∧ (j ≠ i → ∃ pp, s0.prods[j]? = some pp ∧ pp.pc = .expMig)) :
    Inv c (nx.apply s0 i p) :=
  inv_upd c s0 _ i (nx.rec' p) p0 (gcore_apply c s0 i p nx hg hnx) (apply_prods s0 i p nx) hi
    (by cases nx <;> rfl) (by cases nx <;> rfl) (by cases nx <;> rfl)
    (pinv_rec' c s0 i p nx hnx hid hcur) hoth hown

end Ingest
