/-
Helper lemmas for C01: invariants over the emission history (ALLOWEDLATENESS = 0).
Core Lean only.
-/
import SsqlVerif.Proofs.TumblingInv
set_option autoImplicit false
set_option linter.unusedVariables false
set_option linter.unusedSimpArgs false

namespace Tumbling
open Wm

/-- shape of one first-firing emission -/
def EmOk (size : Int) (e : Emission) : Prop :=
  e.kind = .first ∧ e.stop = e.start + size ∧ size ∣ e.start ∧ e.rows ≠ [] ∧
  ∀ r ∈ e.rows, inSlot size e.start r = true

structure GoodH (s : TW) (es : List Emission) : Prop where
  hbefore : ∀ c, s.cur = some c → ∀ e ∈ es, e.start + s.size ≤ c
  hincr : es.Pairwise (fun a b => a.start < b.start)
  hadv : ∀ c, s.cur = some c → leOpt c s.wm.cur ∨ es = []
  hnone : s.cur = none → es = []
  hshape : ∀ e ∈ es, EmOk s.size e

theorem goodH_init (size ooo lateness : Int) : GoodH (init size ooo lateness) [] :=
  { hbefore := by intro c h; cases h
    hincr := List.Pairwise.nil
    hadv := by intro c h; cases h
    hnone := fun _ => rfl
    hshape := by intro e h; cases h }

theorem goodH_add (s : TW) (r : Row) (now : Int) (es : List Emission) (hg : Good s) (hl : L0 s)
    (hh : GoodH s es) (ht : 0 ≤ r.ts) : GoodH (stepAdd s r now).1 (es ++ (stepAdd s r now).2) := by
  rw [(stepAdd_l0 s r now hl).2, List.append_nil]
  have hmono : ∀ x, leOpt x s.wm.cur → leOpt x (wmAfter s r now).cur :=
    fun x hx => updateEventTime_cur _ _ _ _ hx
  -- either the slot is unchanged, or it was re-seated and then nothing has been emitted yet
  have hcases : (∃ c0, s.cur = some c0 ∧ curAfterAdd s r now = c0) ∨ es = [] := by
    cases hcur : s.cur with
    | none => exact Or.inr (hh.hnone hcur)
    | some c0 =>
      have hci : curInit s r = c0 := by simp [curInit, hcur]
      unfold curAfterAdd
      split
      · exact Or.inl ⟨c0, rfl, hci⟩
      · rename_i hlate
        split
        · rename_i hlt
          rcases hh.hadv c0 hcur with hle | hnil
          · exfalso
            have := not_late_ge (wmAfter s r now) r.ts c0 (by simpa [lateNow] using hlate) (hmono c0 hle)
            omega
          · exact Or.inr hnil
        · exact Or.inl ⟨c0, rfl, hci⟩
  rcases hcases with ⟨c0, hcur, hsame⟩ | hnil
  · exact
      { hbefore := by
          intro c hc e he
          simp only [stepAdd, Option.some.injEq] at hc
          rw [← hc, hsame]; exact hh.hbefore c0 hcur e he
        hincr := hh.hincr
        hadv := by
          intro c hc
          simp only [stepAdd, Option.some.injEq] at hc
          rw [← hc, hsame]
          rcases hh.hadv c0 hcur with h | h
          · exact Or.inl (hmono c0 h)
          · exact Or.inr h
        hnone := by intro h; simp [stepAdd] at h
        hshape := hh.hshape }
  · subst hnil
    exact
      { hbefore := by intro c hc e he; cases he
        hincr := List.Pairwise.nil
        hadv := fun c hc => Or.inr rfl
        hnone := fun _ => rfl
        hshape := by intro e he; cases he }

theorem goodH_fireOrSkip (s : TW) (c w : Int) (es : List Emission) (hg : Good s) (hh : GoodH s es)
    (hcur : s.cur = some c) (htr : s.trigW = some w) (hw : c + s.size ≤ w) :
    GoodH (fireOrSkip s c).1 (es ++ (fireOrSkip s c).2) := by
  have hsz := hg.hsize
  have hadv' : leOpt (c + s.size) s.wm.cur := by
    obtain ⟨y, hy, hwy⟩ := hg.htrig w htr
    exact ⟨y, hy, by omega⟩
  unfold fireOrSkip
  split
  · rw [List.append_nil]
    exact
      { hbefore := by
          intro c' hc' e he; cases hc'
          have := hh.hbefore c hcur e he
          show e.start + s.size ≤ c + s.size
          omega
        hincr := hh.hincr
        hadv := by intro c' hc'; cases hc'; exact Or.inl hadv'
        hnone := by intro h; cases h
        hshape := hh.hshape }
  · rename_i hne
    exact
      { hbefore := by
          intro c' hc' e he; cases hc'
          show e.start + s.size ≤ c + s.size
          simp only [List.mem_append, List.mem_singleton] at he
          rcases he with he | he
          · have := hh.hbefore c hcur e he; omega
          · rw [he]; exact Int.le_refl _
        hincr := by
          rw [List.pairwise_append]
          refine ⟨hh.hincr, List.pairwise_singleton _ _, ?_⟩
          intro a ha b hb
          simp only [List.mem_singleton] at hb
          rw [hb]
          have := hh.hbefore c hcur a ha
          show a.start < c
          omega
        hadv := by intro c' hc'; cases hc'; exact Or.inl hadv'
        hnone := by intro h; cases h
        hshape := by
          intro e he
          simp only [List.mem_append, List.mem_singleton] at he
          rcases he with he | he
          · exact hh.hshape e he
          · rw [he]
            refine ⟨rfl, rfl, hg.halign c hcur, ?_, ?_⟩
            · intro hnil; apply hne; simp only at hnil; rw [hnil]; rfl
            · intro r hr; simp only [slotRows, List.mem_filter] at hr; exact hr.2 }

theorem goodH_iter (s : TW) (es : List Emission) (hg : Good s) (hh : GoodH s es) :
    GoodH (stepIter s).1 (es ++ (stepIter s).2) := by
  unfold stepIter
  split
  · rename_i w c htr hcur
    split
    · rename_i hw; exact goodH_fireOrSkip s c w es hg hh hcur htr hw
    · rw [List.append_nil]
      exact
        { hbefore := hh.hbefore, hincr := hh.hincr, hadv := hh.hadv, hnone := hh.hnone, hshape := hh.hshape }
  · rw [List.append_nil]
    exact { hbefore := hh.hbefore, hincr := hh.hincr, hadv := hh.hadv, hnone := hh.hnone, hshape := hh.hshape }
  · rw [List.append_nil]; exact hh

theorem goodH_step (s : TW) (op : Op) (es : List Emission) (hg : Good s) (hl : L0 s) (hh : GoodH s es)
    (hok : OpOk op) : GoodH (step s op).1 (es ++ (step s op).2) := by
  cases op with
  | add r now => exact goodH_add s r now es hg hl hh hok
  | addNoTs => simpa [step] using hh
  | tick idle now =>
    simp only [step, List.append_nil]
    exact
      { hbefore := hh.hbefore, hincr := hh.hincr
        hadv := by
          intro c hc
          rcases hh.hadv c hc with h | h
          · exact Or.inl (tick_cur _ _ _ _ h)
          · exact Or.inr h
        hnone := hh.hnone, hshape := hh.hshape }
  | pop =>
    simp only [step, List.append_nil]
    unfold stepPop
    split
    · rename_i w wm' htr hp
      obtain ⟨_, hcur, _⟩ := pop_mem _ _ _ hp
      exact
        { hbefore := hh.hbefore, hincr := hh.hincr
          hadv := by intro c hc; rw [hcur]; exact hh.hadv c hc
          hnone := hh.hnone, hshape := hh.hshape }
    · exact hh
  | iter => exact goodH_iter s es hg hh

theorem goodH_run (s : TW) (ops : List Op) (es : List Emission) (hg : Good s) (hl : L0 s) (hh : GoodH s es)
    (hok : ∀ op ∈ ops, OpOk op) : GoodH (run s ops).1 (es ++ (run s ops).2) := by
  induction ops generalizing s es with
  | nil => simpa [run] using hh
  | cons op ops ih =>
    simp only [run]
    have hok1 := hok op (by simp)
    have := ih (step s op).1 (es ++ (step s op).2) (good_step s op hg hok1) (step_l0 s op hl)
      (goodH_step s op es hg hl hh hok1) (fun o ho => hok o (by simp [ho]))
    rwa [List.append_assoc] at this

theorem step_size (s : TW) (op : Op) : (step s op).1.size = s.size := by
  cases op with
  | add r now => rfl
  | addNoTs => rfl
  | tick idle now => rfl
  | pop => simp only [step, stepPop]; split <;> rfl
  | iter =>
    simp only [step, stepIter]
    split
    · split
      · unfold fireOrSkip; split <;> rfl
      · rfl
    · rfl
    · rfl

theorem run_size (s : TW) (ops : List Op) : (run s ops).1.size = s.size := by
  induction ops generalizing s with
  | nil => rfl
  | cons op ops ih => simp only [run]; rw [ih, step_size]

/-- two first firings that share a row are the same interval -/
theorem shared_row_same_start (size : Int) (hs : 0 < size) (e1 e2 : Emission) (r : Row)
    (h1 : EmOk size e1) (h2 : EmOk size e2) (hr1 : r ∈ e1.rows) (hr2 : r ∈ e2.rows) :
    e1.start = e2.start :=
  inSlot_unique size _ _ r hs h1.2.2.1 h2.2.2.1 (h1.2.2.2.2 r hr1) (h2.2.2.2.2 r hr2)

end Tumbling
