/-
C10, last clause: for in-order input the outcome of a session query does not depend on how fast the events
are fed, i.e. on where ticker and expiry passes fall between the Adds.

`reference` is a function of the Adds alone (the textbook sessionization of an in-order stream: a row extends
its key's session when it arrives before that session's end, otherwise it opens a new one).  The invariant
`J` shows that for every in-order history without idle ticks the sessions delivered so far together with the
sessions still open are exactly the reference's sessions.  Core Lean only.
-/
import SsqlVerif.Proofs.SessionRun
import SsqlVerif.Proofs.WatermarkBound
import SsqlVerif.Spec.SessionRef
set_option autoImplicit false
set_option linter.unusedVariables false
set_option linter.unusedSimpArgs false

namespace Session
open Wm
open Tumbling (leOpt)

theorem foldl_refOp_eq (timeout : Int) (ops : List Op) (acc : List RefS) :
    ops.foldl (refOp timeout) acc = (addsOf ops).foldl (fun a kr => refAdd timeout a kr.1 kr.2) acc := by
  induction ops generalizing acc with
  | nil => rfl
  | cons op ops ih => cases op <;> simp [addsOf, refOp, ih]

/-- two histories with the same Adds have the same reference -/
theorem reference_congr (timeout : Int) (a b : List Op) (h : addsOf a = addsOf b) :
    reference timeout a = reference timeout b := by
  unfold reference; rw [foldl_refOp_eq, foldl_refOp_eq, h]

/-- first deliveries as the user sees them -/
def firstsRef (es : List Emission) : List RefS := (es.filter (fun e => !e.late)).map Emission.toRef

theorem firstsRef_append (a b : List Emission) : firstsRef (a ++ b) = firstsRef a ++ firstsRef b := by
  simp [firstsRef, List.filter_append]

/-- the invariant: `hi` bounds every timestamp seen so far -/
structure J (w : SWin) (E : List Emission) (R : List RefS) (hi : Int) : Prop where
  inv : Inv w
  ooo : 0 ≤ w.wm.maxOOO
  bnd : Bnd w.wm
  maxle : ∀ m, w.wm.maxEv = some m → m ≤ hi
  openle : ∀ s ∈ w.sessions, s.lastActive ≤ hi
  donele : ∀ x ∈ firstsRef E, x.stop ≤ hi
  same : ∀ x, x ∈ R ↔ (x ∈ w.sessions.map Sess.toRef ∨ x ∈ firstsRef E)

theorem j_cur_le {w : SWin} {E : List Emission} {R : List RefS} {hi : Int} (h : J w E R hi) :
    ∀ c, w.wm.cur = some c → c ≤ hi := by
  intro c hc
  obtain ⟨m, hm, hle⟩ := h.bnd c hc
  have := h.maxle m hm
  have := h.ooo
  omega

/-! ### Add -/

theorem updateEventTime_maxEv_le (w : Wm.Wm) (ts now hi : Int) (h : ∀ m, w.maxEv = some m → m ≤ hi) (hle : hi ≤ ts) :
    ∀ m, (updateEventTime w ts now).maxEv = some m → m ≤ ts := by
  intro m hm
  unfold updateEventTime at hm
  split at hm
  · have := h m hm; omega
  · rw [send_maxEv] at hm
    unfold bumpMax at hm
    split at hm
    · simp only [Option.some.injEq] at hm; omega
    · have := h m hm; omega

theorem inorder_not_late {w : SWin} {E : List Emission} {R : List RefS} {hi : Int} (h : J w E R hi)
    (r : Row) (now : Int) (hle : hi ≤ r.ts) : lateNow w r now = false := by
  unfold lateNow isLate wmAfter
  split
  · rfl
  · rename_i c hc
    have hb := bnd_updateEventTime w.wm r.ts now h.bnd
    obtain ⟨m, hm, hcm⟩ := hb c hc
    have := updateEventTime_maxEv_le w.wm r.ts now hi h.maxle hle m hm
    have ho : (updateEventTime w.wm r.ts now).maxOOO = w.wm.maxOOO := updateEventTime_maxOOO _ _ _
    have := h.ooo
    rw [ho] at hcm
    simp only [decide_eq_false_iff_not, Int.not_lt]
    omega

/-- an open session of the row's key with the row before its end is touched (in-order: the row is not
before the session's first event) -/
theorem touches_of_hits {w : SWin} {E : List Emission} {R : List RefS} {hi : Int} (h : J w E R hi)
    (k : Key) (r : Row) (hle : hi ≤ r.ts) (s : Sess) (hs : s ∈ w.sessions) :
    touches w.timeout k r.ts s = hits k r.ts s.toRef := by
  have hok := h.inv.hok s hs
  have h1 := h.openle s hs
  obtain ⟨m, hm, hmt⟩ := hok.hmin
  have h2 := (hok.hbounds m hm).2
  have ht := h.inv.htime
  have : decide (s.start - w.timeout < r.ts) = true := by
    simp only [decide_eq_true_eq]; omega
  unfold touches hits Sess.toRef
  rw [this, Bool.and_true]

theorem touched_unique {w : SWin} {E : List Emission} {R : List RefS} {hi : Int} (h : J w E R hi)
    (k : Key) (r : Row) (hle : hi ≤ r.ts) (t : Sess) (os : List Sess) (ht : touched w k r = t :: os) : os = [] := by
  cases os with
  | nil => rfl
  | cons o os' =>
    exfalso
    have hperm : (touched w k r).Perm (w.sessions.filter (touches w.timeout k r.ts)) := perm_sortSess _
    have hpw : (w.sessions.filter (touches w.timeout k r.ts)).Pairwise SameKeyApart :=
      List.Pairwise.sublist List.filter_sublist h.inv.hsep
    have hpw' : (touched w k r).Pairwise SameKeyApart :=
      (List.Perm.pairwise_iff (fun {a b} hab => sameKeyApart_symm a b hab) hperm).mpr hpw
    rw [ht, List.pairwise_cons] at hpw'
    have hto := hpw'.1 o (by simp)
    have hmt : t ∈ touched w k r := by rw [ht]; simp
    have hmo : o ∈ touched w k r := by rw [ht]; simp
    rw [mem_touched] at hmt hmo
    have hk : t.key = o.key := by rw [touches_key _ _ _ _ hmt.2, touches_key _ _ _ _ hmo.2]
    have hap := hto hk
    have tt := hmt.2; have to := hmo.2
    simp only [touches, Bool.and_eq_true, decide_eq_true_eq] at tt to
    have okt := h.inv.hok t hmt.1; have oko := h.inv.hok o hmo.1
    have lt := h.openle t hmt.1; have lo := h.openle o hmo.1
    obtain ⟨mt, hmt1, hmt2⟩ := okt.hmin
    obtain ⟨mo, hmo1, hmo2⟩ := oko.hmin
    have bt := (okt.hbounds mt hmt1).2; have bo := (oko.hbounds mo hmo1).2
    rcases hap with hap | hap <;> omega

theorem merged_single_toRef {w : SWin} {E : List Emission} {R : List RefS} {hi : Int} (h : J w E R hi)
    (k : Key) (r : Row) (hle : hi ≤ r.ts) (t : Sess) (hs : t ∈ w.sessions) :
    (merged w.timeout t [] r).toRef = extend w.timeout r t.toRef ∧ (merged w.timeout t [] r).lastActive = r.ts := by
  have hok := h.inv.hok t hs
  have h1 := h.openle t hs
  obtain ⟨m, hm, hmt⟩ := hok.hmin
  have h2 := (hok.hbounds m hm).2
  have hl : maxLast [t] r.ts = r.ts := by
    simp only [maxLast]; split <;> omega
  have hst : minStart [t] r.ts = t.start := by
    simp only [minStart]; split <;> omega
  constructor
  · simp only [merged, Sess.toRef, extend, hl, hst, List.flatMap_cons, List.flatMap_nil, List.append_nil]
  · simp only [merged, hl]

theorem addEmit_ontime (w : SWin) (k : Key) (r : Row) (now : Int) (hl : lateNow w r now = false) :
    addEmit w k r now = [] := by
  unfold addEmit
  rcases fate_ontime w k r now hl with ⟨hf, _⟩ | ⟨t, os, hf, _⟩ <;> rw [hf]

theorem j_add {w : SWin} {E : List Emission} {R : List RefS} {hi : Int} (h : J w E R hi)
    (k : Key) (r : Row) (now : Int) (hle : hi ≤ r.ts) :
    J (stepAdd w k r now).1 (E ++ (stepAdd w k r now).2) (refAdd w.timeout R k r) r.ts := by
  have hl := inorder_not_late h r now hle
  have hem : (stepAdd w k r now).2 = [] := addEmit_ontime w k r now hl
  have hbnd := bnd_updateEventTime w.wm r.ts now h.bnd
  have hmax := updateEventTime_maxEv_le w.wm r.ts now hi h.maxle hle
  have hooo : 0 ≤ (stepAdd w k r now).1.wm.maxOOO := by
    show 0 ≤ (updateEventTime w.wm r.ts now).maxOOO
    rw [updateEventTime_maxOOO]; exact h.ooo
  have hdone : ∀ x ∈ firstsRef (E ++ (stepAdd w k r now).2), x.stop ≤ r.ts := by
    intro x hx; rw [hem, List.append_nil] at hx; have := h.donele x hx; omega
  have hhit : ∀ s ∈ w.sessions, touches w.timeout k r.ts s = hits k r.ts s.toRef :=
    fun s hs => touches_of_hits h k r hle s hs
  have hdone_nohit : ∀ x ∈ firstsRef E, hits k r.ts x = false := by
    intro x hx
    have := h.donele x hx
    simp only [hits, Bool.and_eq_false_iff, decide_eq_false_iff_not, Int.not_lt]
    exact Or.inr (by omega)
  rcases fate_ontime w k r now hl with ⟨hf, htch⟩ | ⟨t, os, hf, htch⟩
  · -- a new session
    have hsess : (stepAdd w k r now).1.sessions = w.sessions ++ [newSess k r w.timeout (freshPark w k)] := by
      show addSessions w k r now = _
      unfold addSessions; rw [hf]
    have hany : R.any (hits k r.ts) = false := by
      rw [Bool.eq_false_iff]
      intro hc
      rw [List.any_eq_true] at hc
      obtain ⟨x, hx, hxh⟩ := hc
      rcases (h.same x).mp hx with hx' | hx'
      · rw [List.mem_map] at hx'
        obtain ⟨s, hs, rfl⟩ := hx'
        have : s ∈ touched w k r := by rw [mem_touched]; exact ⟨hs, by rw [hhit s hs]; exact hxh⟩
        rw [htch] at this; cases this
      · rw [hdone_nohit x hx'] at hxh; cases hxh
    refine { inv := inv_add w k r now h.inv, ooo := hooo, bnd := hbnd, maxle := hmax, openle := ?_, donele := hdone, same := ?_ }
    · intro s hs
      rw [hsess, List.mem_append, List.mem_singleton] at hs
      rcases hs with hs | rfl
      · have := h.openle s hs; omega
      · simp [newSess]
    · intro x
      rw [hsess, hem, List.append_nil]
      unfold refAdd
      rw [hany]
      simp only [Bool.false_eq_true, if_false, List.mem_append, List.mem_singleton, List.map_append, List.map_cons,
        List.map_nil]
      rw [h.same x]
      simp only [newSess, Sess.toRef]
      constructor
      · rintro ((h1 | h1) | h1)
        · exact Or.inl (Or.inl h1)
        · exact Or.inr h1
        · exact Or.inl (Or.inr h1)
      · rintro ((h1 | h1) | h1)
        · exact Or.inl (Or.inl h1)
        · exact Or.inr h1
        · exact Or.inl (Or.inr h1)
  · -- joins the key's open session
    have hos : os = [] := touched_unique h k r hle t os htch
    subst hos
    have htm : t ∈ touched w k r := by rw [htch]; simp
    rw [mem_touched] at htm
    have hsess : (stepAdd w k r now).1.sessions =
        w.sessions.filter (fun s => !touches w.timeout k r.ts s) ++ [merged w.timeout t [] r] := by
      show addSessions w k r now = _
      unfold addSessions; rw [hf]
    have hmr := merged_single_toRef h k r hle t htm.1
    have htR : t.toRef ∈ R := (h.same _).mpr (Or.inl (List.mem_map.mpr ⟨t, htm.1, rfl⟩))
    have hthit : hits k r.ts t.toRef = true := by rw [← hhit t htm.1]; exact htm.2
    have hany : R.any (hits k r.ts) = true := List.any_eq_true.mpr ⟨_, htR, hthit⟩
    refine { inv := inv_add w k r now h.inv, ooo := hooo, bnd := hbnd, maxle := hmax, openle := ?_, donele := hdone, same := ?_ }
    · intro s hs
      rw [hsess, List.mem_append, List.mem_singleton, List.mem_filter] at hs
      rcases hs with hs | rfl
      · have := h.openle s hs.1; omega
      · rw [hmr.2]; exact Int.le_refl _
    · intro x
      rw [hsess, hem, List.append_nil]
      unfold refAdd
      rw [hany]
      simp only [if_true, List.mem_map, List.mem_append, List.mem_singleton, List.mem_filter]
      constructor
      · rintro ⟨y, hy, rfl⟩
        by_cases hyh : hits k r.ts y = true
        · rw [if_pos hyh]
          rcases (h.same y).mp hy with hy' | hy'
          · rw [List.mem_map] at hy'
            obtain ⟨s, hs, rfl⟩ := hy'
            have : s ∈ touched w k r := by rw [mem_touched]; exact ⟨hs, by rw [hhit s hs]; exact hyh⟩
            rw [htch, List.mem_singleton] at this
            subst this
            exact Or.inl ⟨merged w.timeout s [] r, Or.inr rfl, hmr.1⟩
          · rw [hdone_nohit y hy'] at hyh; cases hyh
        · rw [if_neg hyh]
          rcases (h.same y).mp hy with hy' | hy'
          · rw [List.mem_map] at hy'
            obtain ⟨s, hs, rfl⟩ := hy'
            refine Or.inl ⟨s, Or.inl ⟨hs, ?_⟩, rfl⟩
            rw [hhit s hs]; simpa using hyh
          · exact Or.inr hy'
      · rintro (⟨s, (⟨hs, hnt⟩ | rfl), rfl⟩ | hx)
        · refine ⟨s.toRef, (h.same _).mpr (Or.inl (List.mem_map.mpr ⟨s, hs, rfl⟩)), ?_⟩
          rw [hhit s hs] at hnt
          have : hits k r.ts s.toRef = false := by simpa using hnt
          rw [this]; simp
        · exact ⟨t.toRef, htR, by rw [hthit, if_pos rfl]; exact hmr.1.symm⟩
        · refine ⟨x, (h.same x).mpr (Or.inr hx), ?_⟩
          rw [hdone_nohit x hx]; simp

/-! ### ticks and expiry passes -/

theorem j_tick {w : SWin} {E : List Emission} {R : List RefS} {hi : Int} (h : J w E R hi) (now : Int) :
    J { w with wm := Wm.tick w.wm false now } (E ++ []) R hi := by
  rw [List.append_nil]
  have hi' := inv_step w (.tick false now) h.inv
  exact { inv := hi', ooo := by show 0 ≤ (Wm.tick w.wm false now).maxOOO; rw [tick_maxOOO]; exact h.ooo,
          bnd := bnd_tick w.wm now h.bnd,
          maxle := by intro m hm; simp only [tick_maxEv] at hm; exact h.maxle m hm,
          openle := h.openle, donele := h.donele, same := h.same }

theorem mem_keep_or_ex (w : SWin) (x : Int) (s : Sess) :
    s ∈ w.sessions ↔ (s ∈ w.sessions.filter (fun s => !expiredBy w x s) ∨ s ∈ sortSess (w.sessions.filter (expiredBy w x))) := by
  rw [mem_sortSess, List.mem_filter, List.mem_filter]
  constructor
  · intro hs
    cases he : expiredBy w x s
    · exact Or.inl ⟨hs, by simp [he]⟩
    · exact Or.inr ⟨hs, rfl⟩
  · rintro (h | h) <;> exact h.1

theorem expire_firstsRef (w : SWin) (x : Int) :
    firstsRef (stepExpire w x).2 = (sortSess (w.sessions.filter (expiredBy w x))).map Sess.toRef := by
  simp only [stepExpire, firstsRef, List.filter_map, List.map_map]
  have : (List.filter ((fun e => !e.late) ∘ fun s => ({ late := false, key := s.key, start := s.start, stop := s.stop, rows := s.rows } : Emission))
      (sortSess (w.sessions.filter (expiredBy w x)))) = sortSess (w.sessions.filter (expiredBy w x)) := by
    apply List.filter_eq_self.mpr; intro a _; rfl
  rw [this]
  apply List.map_congr_left
  intro a _; rfl

theorem j_expire {w : SWin} {E : List Emission} {R : List RefS} {hi : Int} (h : J w E R hi) (x : Int) (hx : x ≤ hi) :
    J (stepExpire w x).1 (E ++ (stepExpire w x).2) R hi := by
  refine { inv := inv_expire w x h.inv, ooo := h.ooo, bnd := h.bnd, maxle := h.maxle, openle := ?_, donele := ?_, same := ?_ }
  · intro s hs
    simp only [stepExpire, List.mem_filter] at hs
    exact h.openle s hs.1
  · intro y hy
    rw [firstsRef_append, List.mem_append] at hy
    rcases hy with hy | hy
    · exact h.donele y hy
    · rw [expire_firstsRef, List.mem_map] at hy
      obtain ⟨s, hs, rfl⟩ := hy
      rw [mem_sortSess, List.mem_filter] at hs
      have hok := h.inv.hok s hs.1
      have he := hs.2
      simp only [expiredBy, Bool.or_eq_true, decide_eq_true_eq] at he
      have hst := hok.hstop
      show s.stop ≤ hi
      rcases he with he | he <;> omega
  · intro y
    rw [h.same y, firstsRef_append, List.mem_append, expire_firstsRef]
    show _ ↔ (y ∈ (w.sessions.filter (fun s => !expiredBy w x s)).map Sess.toRef ∨ _)
    simp only [List.mem_map]
    constructor
    · rintro (⟨s, hs, rfl⟩ | hy)
      · rcases (mem_keep_or_ex w x s).mp hs with hk | he
        · exact Or.inl ⟨s, hk, rfl⟩
        · exact Or.inr (Or.inr ⟨s, he, rfl⟩)
      · exact Or.inr (Or.inl hy)
    · rintro (⟨s, hs, rfl⟩ | hy | ⟨s, hs, rfl⟩)
      · exact Or.inl ⟨s, (mem_keep_or_ex w x s).mpr (Or.inl hs), rfl⟩
      · exact Or.inr hy
      · exact Or.inl ⟨s, (mem_keep_or_ex w x s).mpr (Or.inr hs), rfl⟩

theorem j_deliver {w : SWin} {E : List Emission} {R : List RefS} {hi : Int} (h : J w E R hi) :
    J (stepDeliver w).1 (E ++ (stepDeliver w).2) R hi := by
  unfold stepDeliver
  split
  · simpa using h
  · rename_i x wm' hp
    have hxc : leOpt x w.wm.cur := by
      apply h.inv.hchan
      unfold pop at hp
      split at hp
      · cases hp
      · rename_i y rest hch
        simp only [Option.some.injEq, Prod.mk.injEq] at hp
        rw [hch, ← hp.1]; simp
    obtain ⟨c, hc, hxle⟩ := hxc
    have hchi := j_cur_le h c hc
    have hpm := pop_maxEv _ _ _ hp
    have hcur : wm'.cur = w.wm.cur := by
      unfold pop at hp
      split at hp
      · cases hp
      · simp only [Option.some.injEq, Prod.mk.injEq] at hp
        rw [← hp.2]
    have hJ' : J { w with wm := wm' } E R hi :=
      { inv := by
          have := inv_step w .deliver h.inv
          -- the popped state keeps every invariant of `w` (only the channel shrank)
          exact { hok := h.inv.hok, hchain := h.inv.hchain, hsep := h.inv.hsep,
                  hchan := by
                    intro y hy
                    show leOpt y wm'.cur
                    rw [hcur]
                    apply h.inv.hchan
                    unfold pop at hp
                    split at hp
                    · cases hp
                    · rename_i z rest hch
                      simp only [Option.some.injEq, Prod.mk.injEq] at hp
                      rw [hch]; rw [← hp.2] at hy; exact List.mem_cons_of_mem _ hy
                  htime := h.inv.htime }
        ooo := by show 0 ≤ wm'.maxOOO; rw [hpm.2]; exact h.ooo
        bnd := bnd_pop _ _ _ h.bnd hp
        maxle := by intro m hm; apply h.maxle m; rw [← hpm.1]; exact hm
        openle := h.openle, donele := h.donele, same := h.same }
    exact j_expire hJ' x (by omega)

/-! ### whole histories -/

theorem j_step {w : SWin} {E : List Emission} {R : List RefS} {hi : Int} (h : J w E R hi) (op : Op) (ops : List Op)
    (hord : InOrderFrom hi (op :: ops)) :
    ∃ hi', J (step w op).1 (E ++ (step w op).2) (refOp w.timeout R op) hi' ∧ InOrderFrom hi' ops := by
  cases op with
  | add k r now => exact ⟨r.ts, j_add h k r now hord.1, hord.2⟩
  | addNoTs => exact ⟨hi, by simpa [step, refOp] using h, hord⟩
  | tick idle now =>
    obtain ⟨hidle, hrest⟩ := hord
    subst hidle
    exact ⟨hi, j_tick h now, hrest⟩
  | deliver => exact ⟨hi, j_deliver h, hord⟩

theorem j_run (w : SWin) (E : List Emission) (R : List RefS) (hi : Int) (h : J w E R hi) (ops : List Op)
    (hord : InOrderFrom hi ops) :
    ∃ hi', J (run w ops).1 (E ++ (run w ops).2) (ops.foldl (refOp w.timeout) R) hi' := by
  induction ops generalizing w E R hi with
  | nil => exact ⟨hi, by simpa [run] using h⟩
  | cons op ops ih =>
    obtain ⟨hi', hj, hrest⟩ := j_step h op ops hord
    obtain ⟨hi'', hj'⟩ := ih (step w op).1 _ _ hi' hj hrest
    refine ⟨hi'', ?_⟩
    simp only [run, List.foldl_cons]
    rw [step_timeout] at hj'
    rw [← List.append_assoc]
    exact hj'

theorem j_init (timeout ooo lateness : Int) (ht : 0 < timeout) (ho : 0 ≤ ooo) (lo : Int) :
    J (init timeout ooo lateness) [] [] lo :=
  { inv := inv_init timeout ooo lateness ht, ooo := ho
    bnd := by intro c hc; cases hc
    maxle := by intro m hm; cases hm
    openle := by intro s hs; cases hs
    donele := by intro x hx; cases hx
    same := by intro x; simp [init, firstsRef] }

end Session
