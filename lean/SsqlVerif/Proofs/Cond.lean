/-
C12 — helper lemmas, value level: `round53` is the identity strictly inside ±2^53 and never maps
an integer from outside into it (so an exact integer never collides with another one's image); on exactly converted integers the float64 comparison is the
integer comparison; hence `fastCompare.eval` answers what the expr-lang table answers whenever it
answers at all; chains. Core Lean only (no Mathlib import needed).
-/
import SsqlVerif.Model.Cond
set_option autoImplicit false
namespace Cond

/-! ### `round53` -/

theorem le_roundQR (q r half : Nat) : q ≤ roundQR q r half := by
  unfold roundQR
  split
  · exact Nat.le_refl _
  · split
    · exact Nat.le_succ _
    · split
      · exact Nat.le_refl _
      · exact Nat.le_succ _

theorem shift53_of_lt {n : Nat} (h : n < 2 ^ 53) : shift53 n = 0 := by
  unfold shift53
  by_cases h0 : n = 0
  · subst h0; simp
  · have := (Nat.log2_lt h0).2 h
    omega

theorem roundNat53_of_lt {n : Nat} (h : n < 2 ^ 53) : roundNat53 n = n := by
  unfold roundNat53 roundShift
  rw [shift53_of_lt h]; simp

theorem le_roundNat53 {n : Nat} (h : 2 ^ 53 ≤ n) : 2 ^ 53 ≤ roundNat53 n := by
  have h0 : n ≠ 0 := by
    intro h0; subst h0; simp at h
  have hlog : 53 ≤ n.log2 := by
    apply Nat.le_of_not_lt
    intro hl
    have := (Nat.log2_lt h0).1 hl
    omega
  have hs : shift53 n = n.log2 - 52 := by unfold shift53; omega
  have hs1 : 1 ≤ shift53 n := by omega
  have hpow : 2 ^ 52 * 2 ^ shift53 n ≤ n := by
    rw [← Nat.pow_add]
    have : 52 + shift53 n = n.log2 := by omega
    rw [this]
    exact Nat.log2_self_le h0
  have hq : 2 ^ 52 ≤ n / 2 ^ shift53 n := by
    rw [Nat.le_div_iff_mul_le (Nat.pow_pos (by decide))]
    exact hpow
  unfold roundNat53 roundShift
  rw [if_neg (by omega)]
  have h1 := le_roundQR (n / 2 ^ shift53 n) (n % 2 ^ shift53 n) (2 ^ (shift53 n - 1))
  have h2 : 2 ^ 1 ≤ 2 ^ shift53 n := Nat.pow_le_pow_right (by decide) hs1
  calc 2 ^ 53 = 2 ^ 52 * 2 ^ 1 := by decide
    _ ≤ 2 ^ 52 * 2 ^ shift53 n := Nat.mul_le_mul_left _ h2
    _ ≤ roundQR (n / 2 ^ shift53 n) (n % 2 ^ shift53 n) (2 ^ (shift53 n - 1)) * 2 ^ shift53 n :=
        Nat.mul_le_mul_right _ (Nat.le_trans hq h1)

theorem exactLimit_eq : exactLimit = ((2 ^ 53 : Nat) : Int) := by decide

theorem round53_of_exact {i : Int} (h : exactInt i = true) : round53 i = i := by
  unfold exactInt at h
  have h' := of_decide_eq_true h
  rw [exactLimit_eq] at h'
  have hn : i.natAbs < 2 ^ 53 := by omega
  unfold round53
  rw [roundNat53_of_lt hn]
  split <;> omega

/-- the literal guard is evaluated on the float64 image; it implies the image is the literal -/
theorem round53_of_exact_image {n : Int} (h : exactInt (round53 n) = true) : round53 n = n := by
  by_cases hn : n.natAbs < 2 ^ 53
  · unfold round53
    rw [roundNat53_of_lt hn]
    split <;> omega
  · exfalso
    have hge := le_roundNat53 (Nat.le_of_not_lt hn)
    unfold exactInt at h
    have h' := of_decide_eq_true h
    rw [exactLimit_eq] at h'
    unfold round53 at h'
    split at h' <;> omega


/-! ### comparisons on converted integers -/

theorem scale_pos : 0 < scale := by unfold scale; exact Int.pow_pos (by decide)

theorem scale_lt (a b : Int) : a * scale < b * scale ↔ a < b :=
  ⟨fun h => Int.lt_of_mul_lt_mul_right h (Int.le_of_lt scale_pos), fun h => Int.mul_lt_mul_of_pos_right h scale_pos⟩

theorem scale_eq (a b : Int) : a * scale = b * scale ↔ a = b :=
  ⟨fun h => Int.eq_of_mul_eq_mul_right (Int.ne_of_gt scale_pos) h, fun h => by rw [h]⟩

/-- on exactly converted integers the float comparison is the integer comparison -/
theorem compareNum_scaled (a b : Int) (op : Op) :
    compareNum (.fin (a * scale)) op (.fin (b * scale)) = compareInt a op b := by
  cases op <;> simp [compareNum, compareInt, F64.lt, F64.eq, scale_lt, scale_eq]
  all_goals (try (constructor <;> intro h <;> omega))

theorem exactInt_bounds {n : Int} (h : exactInt n = true) : -9007199254740992 < n ∧ n < 9007199254740992 := by
  unfold exactInt exactLimit at h
  exact of_decide_eq_true h

theorem exactInt_of_bounds {n : Int} (h1 : -9007199254740992 < n) (h2 : n < 9007199254740992) : exactInt n = true := by
  unfold exactInt exactLimit
  exact decide_eq_true ⟨h1, h2⟩

/-- what `toFloat64Fast` returns for an integer: its exact value, and only inside ±2^53 -/
theorem toFloat64FastInt_some {x : IntV} {f : F64} (h : toFloat64FastInt x = some f) :
    f = F64.ofInt x.val ∧ exactInt x.val = true := by
  cases x with
  | i v => simp only [toFloat64FastInt] at h; split at h <;> simp_all [IntV.val]
  | i64 v => simp only [toFloat64FastInt] at h; split at h <;> simp_all [IntV.val]
  | u v => simp only [toFloat64FastInt] at h; split at h <;> simp_all [IntV.val]
  | u64 v => simp only [toFloat64FastInt] at h; split at h <;> simp_all [IntV.val]
  | i32 v =>
    simp only [toFloat64FastInt, Option.some.injEq] at h
    refine ⟨h.symm, exactInt_of_bounds ?_ ?_⟩
    · have := Int32.le_toInt v; simp only [IntV.val]; omega
    · have := Int32.toInt_lt v; simp only [IntV.val]; omega
  | u32 v =>
    simp only [toFloat64FastInt, Option.some.injEq] at h
    refine ⟨h.symm, exactInt_of_bounds ?_ ?_⟩
    · simp only [IntV.val]; omega
    · have := UInt32.toNat_lt v; simp only [IntV.val]; omega
  | i8 v => simp [toFloat64FastInt] at h
  | i16 v => simp [toFloat64FastInt] at h
  | u8 v => simp [toFloat64FastInt] at h
  | u16 v => simp [toFloat64FastInt] at h

/-- inside ±2^53 Go's `int(x)` is the value itself (no uint64 wrap) -/
theorem asGoInt_of_exact {x : IntV} (h : exactInt x.val = true) : x.asGoInt = x.val := by
  have hb := exactInt_bounds h
  cases x with
  | u v =>
    simp only [IntV.val] at hb
    simp only [IntV.asGoInt, IntV.val, wrap64]
    rw [if_pos (by omega)]
  | u64 v =>
    simp only [IntV.val] at hb
    simp only [IntV.asGoInt, IntV.val, wrap64]
    rw [if_pos (by omega)]
  | _ => rfl


/-! ### single comparison -/

/-- an integer strictly inside ±2^53 compares with the float64 image of any integer as with
the integer itself (the image of an integer from outside stays outside) -/
theorem compareInt_round53 {x : Int} (hx : exactInt x = true) (n : Int) (op : Op) :
    compareInt x op (round53 n) = compareInt x op n := by
  have hb := exactInt_bounds hx
  by_cases hn : n.natAbs < 2 ^ 53
  · have : round53 n = n := by
      unfold round53
      rw [roundNat53_of_lt hn]
      split <;> omega
    rw [this]
  · have hge := le_roundNat53 (Nat.le_of_not_lt hn)
    have hr : (0 ≤ n ∧ 9007199254740992 ≤ round53 n ∧ 9007199254740992 ≤ n) ∨
              (n < 0 ∧ round53 n ≤ -9007199254740992 ∧ n ≤ -9007199254740992) := by
      unfold round53
      split <;> omega
    have hd : ∀ (p q : Prop) [Decidable p] [Decidable q], (p ↔ q) → decide p = decide q :=
      fun p q _ _ hpq => by simp [hpq]
    have e1 : decide (round53 n < x) = decide (n < x) := hd _ _ (by omega)
    have e2 : decide (x < round53 n) = decide (x < n) := hd _ _ (by omega)
    have e3 : decide (x = round53 n) = decide (x = n) := hd _ _ (by omega)
    cases op <;> simp only [compareInt, e1, e2, e3]

/-- integer value inside the exact range, integer literal: float compare = exact compare -/
theorem fastNum_int_int {x : IntV} {f : F64} (n : Int) (op : Op)
    (hf : toFloat64FastInt x = some f) :
    compareNum f op (litNum (.int n)) = compareInt x.asGoInt op n := by
  obtain ⟨hf1, hx⟩ := toFloat64FastInt_some hf
  rw [hf1, asGoInt_of_exact hx]
  simp only [litNum, F64.ofInt]
  rw [round53_of_exact hx, compareNum_scaled, compareInt_round53 hx]

theorem fastVal_agrees {v : Val} {op : Op} {lit : Lit} {b : Bool}
    (h : fastVal v op lit = some b) : generalVal (some v) op lit = .ok b := by
  cases lit with
  | str t =>
    cases v <;> simp [fastVal, fastStr] at h
    simp [generalVal, generalStr, h]
  | int n =>
    simp only [fastVal, fastNum] at h
    cases v with
    | flt w x =>
      simp only [toFloat64Fast, Option.some.injEq] at h
      simp [generalVal, generalFlt, litNum] at *
      exact h
    | int x =>
      simp only [toFloat64Fast] at h
      cases hf : toFloat64FastInt x with
      | none => simp [hf] at h
      | some f =>
        simp only [hf, Option.some.injEq] at h
        simp only [generalVal, generalInt]
        rw [← fastNum_int_int n op hf, h]
    | null => simp [toFloat64Fast] at h
    | bool _ => simp [toFloat64Fast] at h
    | str _ => simp [toFloat64Fast] at h
    | other => simp [toFloat64Fast] at h
  | flt y =>
    simp only [fastVal, fastNum] at h
    cases v with
    | flt w x =>
      simp only [toFloat64Fast, Option.some.injEq] at h
      simp [generalVal, generalFlt, litNum] at *
      exact h
    | int x =>
      simp only [toFloat64Fast] at h
      cases hf : toFloat64FastInt x with
      | none => simp [hf] at h
      | some f =>
        simp only [hf, Option.some.injEq] at h
        obtain ⟨hf1, _⟩ := toFloat64FastInt_some hf
        simp only [generalVal, generalInt]
        rw [← hf1]
        simp only [litNum] at h
        rw [h]
    | null => simp [toFloat64Fast] at h
    | bool _ => simp [toFloat64Fast] at h
    | str _ => simp [toFloat64Fast] at h
    | other => simp [toFloat64Fast] at h

theorem fastEval_agrees {c : Cmp} {row : Row} {b : Bool}
    (h : fastEval c row = some b) : generalCmp c row = .ok b := by
  unfold fastEval at h
  unfold generalCmp
  cases hg : row.get c.field with
  | none => simp [hg] at h
  | some v =>
    cases v with
    | null => simp [hg] at h
    | _ =>
      simp only [hg] at h
      exact fastVal_agrees h


/-! ### chains -/

theorem chainFrom_eval {isAnd : Bool} {row : Row} :
    ∀ (cs : List Cmp) (acc : Pred) (a : Bool) (bs : List Bool),
      generalEval acc row = .ok a → fastAll row cs = some bs →
      generalEval (chainFrom isAnd acc cs) row =
        .ok (if isAnd then a && bs.all id else a || bs.any id)
  | [], acc, a, bs, hacc, hall => by
    simp only [fastAll, Option.some.injEq] at hall
    subst hall
    simp [chainFrom, hacc]
  | c :: cs, acc, a, bs, hacc, hall => by
    simp only [fastAll] at hall
    cases h1 : fastEval c row with
    | none => simp [h1] at hall
    | some b1 =>
      cases h2 : fastAll row cs with
      | none => simp [h1, h2] at hall
      | some bs' =>
        simp only [h1, h2, Option.some.injEq] at hall
        subst hall
        have hc := fastEval_agrees h1
        have hstep : generalEval (if isAnd then Pred.and acc (.cmp c) else Pred.or acc (.cmp c)) row
            = .ok (if isAnd then a && b1 else a || b1) := by
          cases isAnd <;> cases a <;> simp [generalEval, hacc, hc, Res.and, Res.or]
        have ih := chainFrom_eval (isAnd := isAnd) cs _ _ bs' hstep h2
        simp only [chainFrom]
        rw [ih]
        cases isAnd <;> simp [Bool.and_assoc, Bool.or_assoc]

theorem fastCompound_agrees {isAnd : Bool} {cs : List Cmp} {row : Row} {b : Bool} {p : Pred}
    (hp : chainPred isAnd cs = some p)
    (h : fastCompound isAnd cs row = some b) : generalEval p row = .ok b := by
  cases cs with
  | nil => simp [chainPred] at hp
  | cons c cs =>
    simp only [chainPred, Option.some.injEq] at hp
    subst hp
    unfold fastCompound at h
    simp only [fastAll] at h
    cases h1 : fastEval c row with
    | none => simp [h1] at h
    | some b1 =>
      cases h2 : fastAll row cs with
      | none => simp [h1, h2] at h
      | some bs =>
        simp only [h1, h2, Option.map_some, Option.some.injEq] at h
        have hc := fastEval_agrees h1
        have := chainFrom_eval (isAnd := isAnd) cs (.cmp c) b1 bs (by simpa [generalEval] using hc) h2
        rw [this, ← h]
        cases isAnd <;> simp [combine]

/-! ### `Evaluate` -/

/-- the shortcuts of a condition were compiled from the predicate the program evaluates -/
def CondM.Sound (c : CondM) : Prop :=
  (∀ f, c.fast = some f → c.pred = .cmp f) ∧
  (∀ isAnd parts, c.compound = some (isAnd, parts) → chainPred isAnd parts = some c.pred)

theorem fastPath_agrees {c : CondM} (hs : c.Sound) {row : Row} {b : Bool}
    (h : c.fastPath row = some b) : generalEval c.pred row = .ok b := by
  unfold CondM.fastPath at h
  cases hc : c.compound with
  | some x =>
    obtain ⟨isAnd, parts⟩ := x
    simp only [hc] at h
    exact fastCompound_agrees (hs.2 isAnd parts hc) h
  | none =>
    simp only [hc] at h
    cases hf : c.fast with
    | none => simp [hf] at h
    | some f =>
      simp only [hf] at h
      rw [hs.1 f hf]
      simpa [generalEval] using fastEval_agrees h

theorem evaluate_eq_general' {c : CondM} (hs : c.Sound) (row : Row) :
    c.evaluate row = (generalEval c.pred row).decision := by
  unfold CondM.evaluate
  cases h : c.fastPath row with
  | none => rfl
  | some b => simp [fastPath_agrees hs h, Res.decision]

end Cond
