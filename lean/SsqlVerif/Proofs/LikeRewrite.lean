/-
Helper lemmas for C13: soundness of `convertLikeToFunction` (pattern → operator rewriting).
Core Lean only.
-/
import SsqlVerif.Proofs.Like
set_option autoImplicit false
set_option linter.unusedSectionVars false
set_option linter.unusedSimpArgs false
set_option linter.unusedVariables false

namespace Like
section
variable {α : Type} [DecidableEq α] (pct und : α)

/-- a wildcard-free word -/
def Plain (l : List α) : Prop := ∀ x ∈ l, x ≠ pct ∧ x ≠ und

theorem spec_plain_eq (l : List α) (h : Plain pct und l) (t : List α) :
    likeSpec pct und l t = decide (t = l) := by
  induction l generalizing t with
  | nil => cases t <;> simp [likeSpec]
  | cons x xs ih =>
    have hx := h x (by simp)
    have hxs : Plain pct und xs := fun y hy => h y (by simp [hy])
    cases t with
    | nil => simp [spec_lit_nil pct und x hx.1]
    | cons c t' =>
      rw [spec_lit pct und x hx.1, ih hxs]
      by_cases hc : x = c
      · subst hc; simp [hx.2]
      · have : ¬ c = x := fun h => hc h.symm
        simp [hx.2, hc, this]

/-- a run of one or more `%` in front of `p` -/
theorem spec_pcts (n : Nat) (p t : List α) :
    likeSpec pct und (List.replicate (n+1) pct ++ p) t = true ↔
      ∃ k, k ≤ t.length ∧ likeSpec pct und p (t.drop k) = true := by
  induction n generalizing t with
  | zero => simpa using spec_pct pct und p t
  | succ n ih =>
    have : List.replicate (n+1+1) pct ++ p = pct :: (List.replicate (n+1) pct ++ p) := by
      simp [List.replicate_succ]
    rw [this, spec_pct]
    constructor
    · rintro ⟨k, hk, h⟩
      obtain ⟨j, hj, hm⟩ := (ih (t.drop k)).mp h
      refine ⟨k + j, ?_, ?_⟩
      · simp at hj; omega
      · simpa [List.drop_drop] using hm
    · rintro ⟨k, hk, h⟩
      exact ⟨k, hk, (ih (t.drop k)).mpr ⟨0, by simp, by simpa using h⟩⟩

theorem spec_allpct (n : Nat) (t : List α) :
    likeSpec pct und (List.replicate (n+1) pct) t = true := by
  have := (spec_pcts pct und n [] t).mpr ⟨t.length, Nat.le_refl _, by simp [likeSpec]⟩
  simpa using this

theorem spec_prefix (l : List α) (h : Plain pct und l) (n : Nat) (t : List α) :
    likeSpec pct und (l ++ List.replicate (n+1) pct) t = l.isPrefixOf t := by
  induction l generalizing t with
  | nil => simp [spec_allpct]
  | cons x xs ih =>
    have hx := h x (by simp)
    have hxs : Plain pct und xs := fun y hy => h y (by simp [hy])
    cases t with
    | nil => simp [spec_lit_nil pct und x hx.1]
    | cons c t' =>
      rw [List.cons_append, spec_lit pct und x hx.1, ih hxs]
      simp only [List.isPrefixOf, hx.2, decide_false, Bool.false_or]
      rfl

theorem isInfix_iff (s t : List α) :
    isInfix s t = true ↔ ∃ k, k ≤ t.length ∧ s.isPrefixOf (t.drop k) = true := by
  induction t with
  | nil =>
    cases s <;> simp [isInfix, List.isPrefixOf]
  | cons c t ih =>
    simp only [isInfix, Bool.or_eq_true, ih]
    constructor
    · rintro (h | ⟨k, hk, h⟩)
      · exact ⟨0, by simp, by simpa using h⟩
      · exact ⟨k+1, by simp; omega, by simpa using h⟩
    · rintro ⟨k, hk, h⟩
      cases k with
      | zero => left; simpa using h
      | succ k => right; exact ⟨k, by simp at hk; omega, by simpa using h⟩

theorem spec_contains (l : List α) (h : Plain pct und l) (a b : Nat) (t : List α) :
    likeSpec pct und (List.replicate (a+1) pct ++ (l ++ List.replicate (b+1) pct)) t = isInfix l t := by
  have h1 := spec_pcts pct und a (l ++ List.replicate (b+1) pct) t
  have h2 := isInfix_iff l t
  have : (∃ k, k ≤ t.length ∧ likeSpec pct und (l ++ List.replicate (b+1) pct) (t.drop k) = true) ↔
         (∃ k, k ≤ t.length ∧ l.isPrefixOf (t.drop k) = true) := by
    constructor <;> rintro ⟨k, hk, hm⟩ <;> refine ⟨k, hk, ?_⟩
    · rwa [spec_prefix pct und l h] at hm
    · rwa [spec_prefix pct und l h]
  rw [Bool.eq_iff_iff, h1, h2]
  exact this

theorem rev_prefix_iff (l t : List α) :
    l.reverse.isPrefixOf t.reverse = true ↔ ∃ k, k ≤ t.length ∧ t.drop k = l := by
  rw [List.isPrefixOf_iff_prefix]
  rw [List.reverse_prefix]
  constructor
  · rintro ⟨u, hu⟩
    refine ⟨u.length, by rw [← hu]; simp, by rw [← hu]; simp⟩
  · rintro ⟨k, hk, h⟩
    exact ⟨t.take k, by rw [← h]; simp⟩

theorem spec_suffix (l : List α) (h : Plain pct und l) (a : Nat) (t : List α) :
    likeSpec pct und (List.replicate (a+1) pct ++ l) t = l.reverse.isPrefixOf t.reverse := by
  have h1 := spec_pcts pct und a l t
  have h2 := rev_prefix_iff l t
  have : (∃ k, k ≤ t.length ∧ likeSpec pct und l (t.drop k) = true) ↔
         (∃ k, k ≤ t.length ∧ t.drop k = l) := by
    constructor <;> rintro ⟨k, hk, hm⟩ <;> refine ⟨k, hk, ?_⟩
    · rw [spec_plain_eq pct und l h] at hm; simpa using hm
    · rw [spec_plain_eq pct und l h]; simpa using hm
  rw [Bool.eq_iff_iff, h1, h2]
  exact this

/-! ### structure of `trim` -/

theorem trimLeft_decomp (s : List α) :
    ∃ a, s = List.replicate a pct ++ trimLeft pct s ∧ hasPrefixPct pct (trimLeft pct s) = false ∧
      (hasPrefixPct pct s = decide (0 < a)) := by
  induction s with
  | nil => exact ⟨0, by simp [trimLeft], by simp [trimLeft, hasPrefixPct], by simp [hasPrefixPct]⟩
  | cons c cs ih =>
    by_cases hc : c = pct
    · obtain ⟨a, h1, h2, _⟩ := ih
      refine ⟨a+1, ?_, ?_, ?_⟩
      · simp only [trimLeft, hc, if_true, List.replicate_succ, List.cons_append]
        rw [← h1]
      · simpa [trimLeft, hc] using h2
      · simp [hasPrefixPct, hc]
    · exact ⟨0, by simp [trimLeft, hc], by simp [trimLeft, hc, hasPrefixPct], by simp [hasPrefixPct, hc]⟩

theorem trim_decomp (p : List α) :
    ∃ a b, p = List.replicate a pct ++ (trim pct p ++ List.replicate b pct) ∧
      (trim pct p ≠ [] → hasPrefixPct pct p = decide (0 < a) ∧ hasSuffixPct pct p = decide (0 < b)) := by
  obtain ⟨a, ha, hua, hpa⟩ := trimLeft_decomp pct p
  obtain ⟨b, hb, hub, hpb⟩ := trimLeft_decomp pct (trimLeft pct p).reverse
  have hu : trimLeft pct p = trim pct p ++ List.replicate b pct := by
    have := congrArg List.reverse hb
    simpa [trim] using this
  refine ⟨a, b, by rw [← hu]; exact ha, ?_⟩
  intro hne
  refine ⟨hpa, ?_⟩
  -- suffix: p.reverse = replicate b pct ++ (trim p).reverse ++ replicate a pct
  unfold hasSuffixPct
  have hp' : p = List.replicate a pct ++ (trim pct p ++ List.replicate b pct) := by
    rw [← hu]; exact ha
  have hrev : p.reverse = List.replicate b pct ++ ((trim pct p).reverse ++ List.replicate a pct) := by
    have := congrArg List.reverse hp'
    simpa only [List.reverse_append, List.reverse_replicate, List.append_assoc] using this
  have htr : (trim pct p).reverse = trimLeft pct (trimLeft pct p).reverse := by simp [trim]
  cases b with
  | zero =>
    rw [hrev]
    simp only [List.replicate_zero, List.nil_append, Nat.lt_irrefl, decide_false]
    cases hr : (trim pct p).reverse with
    | nil => simp at hr; exact absurd hr hne
    | cons c cs =>
      rw [htr] at hr
      rw [hr] at hub
      simpa [hasPrefixPct] using hub
  | succ b =>
    rw [hrev]; simp [List.replicate_succ, hasPrefixPct]

theorem trim_nil_all (p : List α) (h : trim pct p = []) : ∃ n, p = List.replicate n pct := by
  obtain ⟨a, b, hp, _⟩ := trim_decomp pct p
  rw [h] at hp
  exact ⟨a + b, by rw [hp]; simp [List.replicate_append_replicate]⟩

/-- the rewritten operator form decides exactly what the declarative spec says -/
theorem convertLike_sound' (likeImplSpec : ∀ t p : List α, likeImpl pct und t p = likeSpec pct und p t)
    (p t : List α) : evalRewritten pct und t (convertLike pct und p) = likeSpec pct und p t := by
  unfold convertLike
  by_cases h0 : p = []
  · subst h0; cases t <;> simp [evalRewritten, likeSpec]
  rw [if_neg h0]
  by_cases h1 : trim pct p ≠ [] ∧ ((trim pct p).contains und ∨ (trim pct p).contains pct)
  · rw [if_pos h1]; simp [evalRewritten, likeImplSpec]
  rw [if_neg h1]
  by_cases h2 : trim pct p = []
  · rw [if_pos h2]
    obtain ⟨n, hn⟩ := trim_nil_all pct p h2
    cases n with
    | zero => simp at hn; exact absurd hn h0
    | succ n => rw [hn]; simp [evalRewritten, spec_allpct]
  rw [if_neg h2]
  have hplain : Plain pct und (trim pct p) := by
    intro x hx
    have hh : ¬ ((trim pct p).contains und ∨ (trim pct p).contains pct) := fun hc => h1 ⟨h2, hc⟩
    simp only [List.contains_iff_mem, not_or] at hh
    constructor
    · intro hxp; subst hxp; exact hh.2 hx
    · intro hxu; subst hxu; exact hh.1 hx
  obtain ⟨a, b, hp, hps⟩ := trim_decomp pct p
  obtain ⟨hpre, hsuf⟩ := hps h2
  rw [hpre, hsuf]
  cases a with
  | zero =>
    cases b with
    | zero =>
      simp only [Nat.lt_irrefl, decide_false, Bool.false_eq_true, false_and, if_false]
      have : p = trim pct p := by simpa using hp
      rw [evalRewritten, spec_plain_eq pct und p (by rw [this]; exact hplain) t]
    | succ b =>
      simp only [Nat.lt_irrefl, decide_false, Bool.false_eq_true, false_and, if_false,
        Nat.zero_lt_succ, decide_true, if_true]
      have : p = trim pct p ++ List.replicate (b+1) pct := by simpa using hp
      rw [evalRewritten]
      conv => rhs; rw [this]
      rw [spec_prefix pct und _ hplain]
  | succ a =>
    cases b with
    | zero =>
      simp only [Nat.zero_lt_succ, decide_true, Nat.lt_irrefl, decide_false, Bool.false_eq_true,
        and_false, if_false, if_true]
      have : p = List.replicate (a+1) pct ++ trim pct p := by simpa using hp
      rw [evalRewritten]
      conv => rhs; rw [this]
      rw [spec_suffix pct und _ hplain]
    | succ b =>
      simp only [Nat.zero_lt_succ, decide_true, and_self, if_true]
      rw [evalRewritten]
      conv => rhs; rw [hp]
      rw [spec_contains pct und _ hplain]

end
end Like
