/-
String-level lemmas for the pipeline model (C05): splitting on one byte, scanning to a byte,
white-space trimming, `atoi ∘ itoa`, the alias separator scan of `splitFieldSpec`.
-/
import SsqlVerif.Model.Pipeline
set_option autoImplicit false

namespace Pipe

/-! ### splitChar / takeUntil / dropAfter -/

theorem splitChar_ne_nil (sep : Char) (s : Str) : splitChar sep s ≠ [] := by
  induction s with
  | nil => simp [splitChar]
  | cons c cs ih =>
    unfold splitChar
    split
    · simp
    · cases h : splitChar sep cs with
      | nil => exact absurd h ih
      | cons a b => simp [consHead]

theorem splitChar_nosep (sep : Char) (a : Str) (h : sep ∉ a) : splitChar sep a = [a] := by
  induction a with
  | nil => rfl
  | cons c cs ih =>
    have hc : c ≠ sep := fun e => h (by simp [e])
    have hcs : sep ∉ cs := fun e => h (by simp [e])
    simp [splitChar, hc, ih hcs, consHead]

theorem splitChar_append_sep (sep : Char) (a b : Str) (h : sep ∉ a) :
    splitChar sep (a ++ sep :: b) = a :: splitChar sep b := by
  induction a with
  | nil => simp [splitChar]
  | cons c cs ih =>
    have hc : c ≠ sep := fun e => h (by simp [e])
    have hcs : sep ∉ cs := fun e => h (by simp [e])
    simp [splitChar, hc, ih hcs, consHead]

theorem takeUntil_nosep (c : Char) (a : Str) (h : c ∉ a) : takeUntil c a = a := by
  induction a with
  | nil => rfl
  | cons x xs ih =>
    have hx : x ≠ c := fun e => h (by simp [e])
    have hxs : c ∉ xs := fun e => h (by simp [e])
    simp [takeUntil, hx, ih hxs]

theorem takeUntil_append_sep (c : Char) (a b : Str) (h : c ∉ a) : takeUntil c (a ++ c :: b) = a := by
  induction a with
  | nil => simp [takeUntil]
  | cons x xs ih =>
    have hx : x ≠ c := fun e => h (by simp [e])
    have hxs : c ∉ xs := fun e => h (by simp [e])
    simp [takeUntil, hx, ih hxs]

theorem dropAfter_append_sep (c : Char) (a b : Str) (h : c ∉ a) : dropAfter c (a ++ c :: b) = some b := by
  induction a with
  | nil => simp [dropAfter]
  | cons x xs ih =>
    have hx : x ≠ c := fun e => h (by simp [e])
    have hxs : c ∉ xs := fun e => h (by simp [e])
    simp [dropAfter, hx, ih hxs]

theorem takeUntil_length_le (c : Char) (s : Str) : (takeUntil c s).length ≤ s.length := by
  induction s with
  | nil => simp [takeUntil]
  | cons x xs ih =>
    unfold takeUntil
    split
    · simp
    · simp; omega

theorem dropAfter_length_lt (c : Char) (s t : Str) (h : dropAfter c s = some t) : t.length < s.length := by
  induction s with
  | nil => simp [dropAfter] at h
  | cons x xs ih =>
    unfold dropAfter at h
    split at h
    · cases h; simp
    · have := ih h; simp; omega

/-! ### trimSpace -/

theorem trimLeft_id (s : Str) (h : ∀ c ∈ s, isAsciiSpace c = false) : trimLeft s = s := by
  cases s with
  | nil => rfl
  | cons c cs => simp [trimLeft, h c (by simp)]

theorem trimSpace_id (s : Str) (h : ∀ c ∈ s, isAsciiSpace c = false) : trimSpace s = s := by
  unfold trimSpace
  rw [trimLeft_id s h, trimLeft_id s.reverse (fun c hc => h c (by simpa using hc))]
  simp

/-! ### digits -/

theorem isDigit_not_space (c : Char) (h : c.isDigit = true) : isAsciiSpace c = false := by
  have h1 : 48 ≤ c.val := by
    simp [Char.isDigit] at h; exact h.1
  unfold isAsciiSpace
  have hne : ∀ d : Char, d.val < 48 → c ≠ d := by
    intro d hd e; subst e; exact absurd h1 (by simpa using hd)
  simp [hne ' ' (by decide), hne '\t' (by decide), hne '\n' (by decide), hne '\r' (by decide),
    hne (Char.ofNat 11) (by decide), hne (Char.ofNat 12) (by decide)]

theorem toDigits_all_isDigit (n : Nat) : (Nat.toDigits 10 n).all Char.isDigit = true := by
  rw [List.all_eq_true]
  intro c hc
  exact Nat.isDigit_of_mem_toDigits (by decide) (by decide) hc

theorem natOfDigits_toDigits (n : Nat) : natOfDigits (Nat.toDigits 10 n) = some n := by
  unfold natOfDigits
  rw [if_pos ⟨Nat.toDigits_ne_nil, toDigits_all_isDigit n⟩, Nat.ofDigitChars_ten_toDigits]

theorem toDigits_head_ne (n : Nat) (c : Char) (hc : c.isDigit = false) :
    ∀ rest, Nat.toDigits 10 n ≠ c :: rest := by
  intro rest e
  have : c ∈ Nat.toDigits 10 n := by rw [e]; simp
  have := Nat.isDigit_of_mem_toDigits (b := 10) (by decide) (by decide) this
  rw [hc] at this; exact absurd this (by decide)

/-- `strconv.Atoi(strconv.Itoa(i)) = i` for every `i` of Go's `int` -/
theorem atoi_itoa (i : Int) (hlo : -(int64Bound : Int) ≤ i) (hhi : i < (int64Bound : Int)) :
    atoi (itoa i) = some i := by
  unfold itoa
  by_cases hneg : i < 0
  · rw [if_pos hneg]
    simp only [atoi, natOfDigits_toDigits, Option.bind_some]
    have h1 : (-i).toNat ≤ int64Bound := by omega
    rw [if_pos h1]
    congr 1; omega
  · rw [if_neg hneg]
    have hd := natOfDigits_toDigits i.toNat
    cases hds : Nat.toDigits 10 i.toNat with
    | nil => exact absurd hds Nat.toDigits_ne_nil
    | cons c cs =>
      have hm : c ≠ '-' := fun e => toDigits_head_ne i.toNat '-' (by decide) cs (by rw [hds, e])
      have hp : c ≠ '+' := fun e => toDigits_head_ne i.toNat '+' (by decide) cs (by rw [hds, e])
      rw [hds] at hd
      have h1 : i.toNat < int64Bound := by omega
      unfold atoi
      split
      · rename_i ds heq; cases heq; exact absurd rfl hm
      · rename_i ds heq; cases heq; exact absurd rfl hp
      · simp only [hd, Option.bind_some, if_pos h1]
        congr 1; omega

theorem itoa_chars (i : Int) : ∀ c ∈ itoa i, c.isDigit = true ∨ c = '-' := by
  intro c hc
  unfold itoa at hc
  split at hc
  · rcases List.mem_cons.mp hc with h | h
    · exact Or.inr h
    · exact Or.inl (Nat.isDigit_of_mem_toDigits (by decide) (by decide) h)
  · exact Or.inl (Nat.isDigit_of_mem_toDigits (by decide) (by decide) hc)

theorem itoa_ne_nil (i : Int) : itoa i ≠ [] := by
  unfold itoa
  split
  · simp
  · exact Nat.toDigits_ne_nil

/-- a digit or minus sign is none of the characters the parsers look for -/
theorem digitOrMinus_ne (c d : Char) (h : c.isDigit = true ∨ c = '-')
    (hd : d.isDigit = false) (hd' : d ≠ '-') : c ≠ d := by
  intro e; subst e
  rcases h with h | h
  · rw [hd] at h; exact absurd h (by decide)
  · exact hd' h

theorem itoa_not_mem (i : Int) (d : Char) (hd : d.isDigit = false) (hd' : d ≠ '-') : d ∉ itoa i :=
  fun hm => digitOrMinus_ne d d (itoa_chars i d hm) hd hd' rfl

theorem itoa_no_space (i : Int) : ∀ c ∈ itoa i, isAsciiSpace c = false := by
  intro c hc
  rcases itoa_chars i c hc with h | h
  · exact isDigit_not_space c h
  · subst h; decide

theorem itoa_head_not_quote (i : Int) : (itoa i).head? ≠ some '\'' ∧ (itoa i).head? ≠ some '"' := by
  cases h : itoa i with
  | nil => simp
  | cons c cs =>
    have hc := itoa_chars i c (by rw [h]; simp)
    simp only [List.head?_cons, ne_eq, Option.some.injEq]
    exact ⟨digitOrMinus_ne c '\'' hc (by decide) (by decide), digitOrMinus_ne c '"' hc (by decide) (by decide)⟩

/-! ### the alias-separator scan -/

/-- scanning `s` from quote state `q` meets no separator and ends in state `q'` -/
def scanTo : Option Char → Str → Option (Option Char)
  | q, [] => some q
  | q, c :: cs => if isCut q c then none else scanTo (quoteNext q c) cs

theorem specBefore_append (q q' : Option Char) (s t : Str) (h : scanTo q s = some q') :
    specBefore q (s ++ t) = s ++ specBefore q' t := by
  induction s generalizing q with
  | nil => simp [scanTo] at h; subst h; rfl
  | cons c cs ih =>
    unfold scanTo at h
    split at h
    · cases h
    · rename_i hc
      simp only [List.cons_append, specBefore, hc]
      simp [ih _ h]

theorem specAfter_append (q q' : Option Char) (s t : Str) (h : scanTo q s = some q') :
    specAfter q (s ++ t) = specAfter q' t := by
  induction s generalizing q with
  | nil => simp [scanTo] at h; subst h; rfl
  | cons c cs ih =>
    unfold scanTo at h
    split at h
    · cases h
    · rename_i hc
      simp only [List.cons_append, specAfter, hc]
      simp [ih _ h]

theorem scanTo_append (q q' q'' : Option Char) (s t : Str) (h1 : scanTo q s = some q') (h2 : scanTo q' t = some q'') :
    scanTo q (s ++ t) = some q'' := by
  induction s generalizing q with
  | nil => simp [scanTo] at h1; subst h1; exact h2
  | cons c cs ih =>
    unfold scanTo at h1
    split at h1
    · cases h1
    · rename_i hc
      simp only [List.cons_append, scanTo, hc]
      simp [ih _ h1]

/-- plain text (no quote characters, no `:`) leaves the scan outside quotes -/
theorem scanTo_plain (s : Str) (h : ∀ c ∈ s, isQuoteChar c = false ∧ c ≠ ':') : scanTo none s = some none := by
  induction s with
  | nil => rfl
  | cons c cs ih =>
    have hc := h c (by simp)
    have : isCut none c = false := by simp [isCut, hc.2]
    simp only [scanTo, this]
    simp [quoteNext, hc.1, ih (fun d hd => h d (by simp [hd]))]

/-- inside a quote everything up to the closing quote is skipped, `:` included -/
theorem scanTo_quoted (qc : Char) (s : Str) (h : qc ∉ s) : scanTo (some qc) (s ++ [qc]) = some none := by
  induction s with
  | nil => simp [scanTo, isCut, quoteNext]
  | cons c cs ih =>
    have hc : c ≠ qc := fun e => h (by simp [e])
    simp only [List.cons_append, scanTo, isCut]
    simp [quoteNext, hc, ih (fun hm => h (by simp [hm]))]

theorem specBefore_cut (t : Str) : specBefore none (':' :: t) = [] := by simp [specBefore, isCut]
theorem specAfter_cut (t : Str) : specAfter none (':' :: t) = some t := by simp [specAfter, isCut]
theorem specBefore_nil (q : Option Char) : specBefore q [] = [] := rfl
theorem specAfter_nil (q : Option Char) : specAfter q [] = none := rfl

end Pipe
