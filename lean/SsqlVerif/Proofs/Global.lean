/-
C17 helper lemmas, part 2: the state invariant of `processRow` (every group's accumulators are the
running aggregates of exactly the rows of that group since it last fired), the step lemma, and
the consequences for whole runs.
-/
import SsqlVerif.Proofs.GlobalAgg
set_option autoImplicit false

namespace Global
open Spec

variable {α κ φ ε ν : Type}

/-! ### list helpers -/

theorem zipWith_self_map {β γ δ : Type} (g : β → γ → δ) (f : β → γ) (l : List β) :
    List.zipWith g l (l.map f) = l.map fun a => g a (f a) := by
  induction l with
  | nil => rfl
  | cons a l ih => simp [ih]

theorem findOutputSpec_some [DecidableEq φ] (outs : List (α × AggCall φ)) (c : AggCall φ) (j : Nat)
    (h : findOutputSpec outs c = some j) : ∃ o, outs[j]? = some o ∧ o.2 = c := by
  induction outs generalizing j with
  | nil => simp [findOutputSpec] at h
  | cons o os ih =>
    simp only [findOutputSpec] at h
    by_cases ho : o.2 = c
    · simp [ho] at h; subst h; exact ⟨o, by simp, ho⟩
    · simp [ho] at h
      obtain ⟨i, hi, hj⟩ := h
      subst hj
      obtain ⟨o', h1, h2⟩ := ih i hi
      exact ⟨o', by simpa using h1, h2⟩

/-! ### ghost description of a group by its open segment -/

/-- accumulator of an aggregate call after the rows `seg` -/
def accOf [DecidableEq φ] [Num ν] (c : AggCall φ) (seg : List (Row κ φ ν)) : Acc ν :=
  accCells c.fn (seg.map (cellOf c))

theorem accOf_snoc [DecidableEq φ] [Num ν] (c : AggCall φ) (seg : List (Row κ φ ν)) (r : Row κ φ ν) :
    accOf c (seg ++ [r]) = (accOf c seg).feed c.fn (cellOf c r) := by
  simp [accOf, accCells_snoc]

theorem result_accOf [DecidableEq φ] [Num ν] (c : AggCall φ) (seg : List (Row κ φ ν)) :
    (accOf c seg).result c.fn = aggOf c seg := by
  simp [accOf, aggOf, result_accCells]

def lastTs (seg : List (Row κ φ ν)) (dflt : Int) : Int :=
  match seg.getLast? with
  | none => dflt
  | some r => r.ts

def trigSlotOf [DecidableEq φ] [Num ν] (seg : List (Row κ φ ν)) (t : AggCall φ × Option Nat) : Option (Acc ν) :=
  if t.2.isSome then none else some (accOf t.1 seg)

/-- the group whose open segment is `seg` -/
def mkGroup [DecidableEq φ] [Num ν] (q : Query α φ ν) (k : κ) (seg : List (Row κ φ ν)) : Group κ ν :=
  { key := k,
    outs := q.outputs.map fun o => accOf o.2 seg,
    trigs := (trigSpecs q).map (trigSlotOf seg),
    wstart := firstTs seg 0,
    wend := lastTs seg 0 }

def groupOf [DecidableEq φ] [Num ν] (q : Query α φ ν) (k : κ) (seg : List (Row κ φ ν)) : Option (Group κ ν) :=
  if seg.isEmpty then none else some (mkGroup q k seg)

theorem firstTs_snoc (seg : List (Row κ φ ν)) (r : Row κ φ ν) (d : Int) :
    firstTs (seg ++ [r]) d = firstTs seg r.ts := by
  cases seg <;> simp [firstTs]

theorem firstTs_nonempty (seg : List (Row κ φ ν)) (d d' : Int) (h : seg.isEmpty = false) :
    firstTs seg d = firstTs seg d' := by
  cases seg with
  | nil => simp at h
  | cons a l => rfl

theorem lastTs_snoc (seg : List (Row κ φ ν)) (r : Row κ φ ν) (d : Int) :
    lastTs (seg ++ [r]) d = r.ts := by
  simp [lastTs]

/-- applying a row to the group of segment `seg` gives the group of segment `seg ++ [r]` -/
theorem updated_groupOf [DecidableEq φ] [Num ν] (q : Query α φ ν) (k : κ) (seg : List (Row κ φ ν))
    (r : Row κ φ ν) : updated q (groupOf q k seg) r = mkGroup q r.key (seg ++ [r]) := by
  have houts : feedOuts q (groupFor q (groupOf q k seg) r).outs r = q.outputs.map fun o => accOf o.2 (seg ++ [r]) := by
    have : (groupFor q (groupOf q k seg) r).outs = q.outputs.map fun o => accOf o.2 seg := by
      cases seg with
      | nil => simp [groupOf, groupFor, newGroup, accOf, accCells]
      | cons a l => simp [groupOf, groupFor, mkGroup]
    rw [this, feedOuts, zipWith_self_map]
    simp [accOf_snoc]
  have htrigs : feedTrigs q (groupFor q (groupOf q k seg) r).trigs r = (trigSpecs q).map (trigSlotOf (seg ++ [r])) := by
    have : (groupFor q (groupOf q k seg) r).trigs = (trigSpecs q).map (trigSlotOf seg) := by
      cases seg with
      | nil =>
        simp only [groupOf, groupFor, newGroup, List.isEmpty_nil, if_true, Option.getD_none]
        apply List.map_congr_left
        intro t _
        simp [newTrigSlot, trigSlotOf, accOf, accCells]
      | cons a l => simp [groupOf, groupFor, mkGroup]
    rw [this, feedTrigs, zipWith_self_map]
    apply List.map_congr_left
    intro t _
    cases h : t.2.isSome <;> simp [feedTrigSlot, trigSlotOf, h, accOf_snoc]
  have hws : (groupFor q (groupOf q k seg) r).wstart = firstTs (seg ++ [r]) 0 := by
    cases seg with
    | nil => simp [groupOf, groupFor, newGroup, firstTs]
    | cons a l => simp [groupOf, groupFor, mkGroup, firstTs]
  simp only [updated, mkGroup, houts, htrigs, hws, lastTs_snoc]

theorem outVals_mkGroup [DecidableEq φ] [Num ν] (q : Query α φ ν) (k : κ) (seg : List (Row κ φ ν)) :
    outVals q (mkGroup q k seg) = q.outputs.map fun o => aggOf o.2 seg := by
  simp only [outVals, mkGroup, zipWith_self_map, result_accOf]

/-- every placeholder of the rewritten predicate — bound to a SELECT output or computed by its own
accumulator — holds the aggregate of exactly the segment -/
theorem trigVals_mkGroup [DecidableEq φ] [Num ν] (q : Query α φ ν) (k : κ) (seg : List (Row κ φ ν)) :
    trigVals q (mkGroup q k seg) = q.pred.leaves.map fun c => aggOf c seg := by
  simp only [trigVals, outVals_mkGroup]
  have : (mkGroup q k seg).trigs = (trigSpecs q).map (trigSlotOf seg) := rfl
  rw [this, zipWith_self_map]
  simp only [trigSpecs, List.map_map]
  apply List.map_congr_left
  intro c _
  simp only [Function.comp, leafVal]
  cases h : findOutputSpec q.outputs c with
  | none => simp [trigSlotOf, ownVal, result_accOf]
  | some j =>
    obtain ⟨o, ho1, ho2⟩ := findOutputSpec_some q.outputs c j h
    simp [ho1, ho2]

theorem shouldFire_mkGroup [DecidableEq φ] [Num ν] (q : Query α φ ν) (k : κ) (seg : List (Row κ φ ν)) :
    shouldFire q (mkGroup q k seg) = engineTrue q.pred seg := by
  simp only [shouldFire, trigVals_mkGroup, evalWith_map, engineTrue]

theorem buildResult_mkGroup [DecidableEq φ] [Num ν] (q : Query α φ ν) (seg : List (Row κ φ ν)) (r : Row κ φ ν) :
    buildResult q (mkGroup q r.key (seg ++ [r])) = expected q (seg ++ [r]) r := by
  simp only [buildResult, outVals_mkGroup, expected]
  simp [mkGroup, firstTs_snoc, lastTs_snoc]

/-! ### the invariant -/

/-- distinct keys of `K` have distinct encodings -/
def InjOn (enc : κ → ε) (K : List κ) : Prop :=
  ∀ k₁ ∈ K, ∀ k₂ ∈ K, enc k₁ = enc k₂ → k₁ = k₂

/-- for every key of `K`: the stored group is the group of the key's open segment -/
def Inv [DecidableEq κ] [DecidableEq φ] [Num ν] (enc : κ → ε) (q : Query α φ ν) (K : List κ)
    (st : State ε κ ν) (hist : List (Row κ φ ν × Bool)) : Prop :=
  ∀ k ∈ K, st (enc k) = groupOf q k (openSeg k hist)

theorem inv_empty [DecidableEq κ] [DecidableEq φ] [Num ν] (enc : κ → ε) (q : Query α φ ν) (K : List κ) :
    Inv enc q K (State.empty : State ε κ ν) ([] : List (Row κ φ ν × Bool)) := by
  intro k _; simp [State.empty, openSeg, groupOf]

/-- what `processRow` delivers, in terms of the segment -/
theorem step_out [DecidableEq κ] [DecidableEq φ] [DecidableEq ε] [Num ν] (enc : κ → ε) (q : Query α φ ν)
    (K : List κ) (st : State ε κ ν) (hist : List (Row κ φ ν × Bool)) (r : Row κ φ ν)
    (hinv : Inv enc q K st hist) (hr : r.key ∈ K) :
    (step enc q st r).2 =
      if engineTrue q.pred (openSeg r.key hist ++ [r]) then some (expected q (openSeg r.key hist ++ [r]) r)
      else none := by
  simp only [step, hinv r.key hr, updated_groupOf, shouldFire_mkGroup, buildResult_mkGroup]
  split <;> rfl

theorem step_inv [DecidableEq κ] [DecidableEq φ] [DecidableEq ε] [Num ν] (enc : κ → ε) (q : Query α φ ν)
    (K : List κ) (hK : InjOn enc K) (st : State ε κ ν) (hist : List (Row κ φ ν × Bool)) (r : Row κ φ ν)
    (hinv : Inv enc q K st hist) (hr : r.key ∈ K) :
    Inv enc q K (step enc q st r).1 ((r, (step enc q st r).2.isSome) :: hist) := by
  intro k hk
  have hup := updated_groupOf q r.key (openSeg r.key hist) r
  by_cases hkr : r.key = k
  · subst hkr
    simp only [step, hinv r.key hr, hup, shouldFire_mkGroup]
    by_cases hf : engineTrue q.pred (openSeg r.key hist ++ [r]) = true
    · simp [hf, State.erase, openSeg, groupOf]
    · simp [hf, State.set, openSeg, groupOf]
  · have henc : enc k ≠ enc r.key := fun h => hkr (hK k hk r.key hr h).symm
    have hst : (step enc q st r).1 (enc k) = st (enc k) := by
      simp only [step]
      split <;> simp [State.erase, State.set, henc]
    rw [hst, hinv k hk]
    simp [openSeg, hkr]

/-! ### histories of runs -/

/-- the observed history of a run, most recent row first -/
def histOf (rows : List (Row κ φ ν)) (outs : List (Option (Result κ ν))) : List (Row κ φ ν × Bool) :=
  (rows.zip (outs.map Option.isSome)).reverse

theorem histOf_cons (r : Row κ φ ν) (rows : List (Row κ φ ν)) (o : Option (Result κ ν))
    (outs : List (Option (Result κ ν))) :
    histOf (r :: rows) (o :: outs) = histOf rows outs ++ [(r, o.isSome)] := by
  simp [histOf]

theorem inv_stateFrom [DecidableEq κ] [DecidableEq φ] [DecidableEq ε] [Num ν] (enc : κ → ε) (q : Query α φ ν)
    (K : List κ) (hK : InjOn enc K) (rows : List (Row κ φ ν)) (hrows : ∀ r ∈ rows, r.key ∈ K)
    (st : State ε κ ν) (hist : List (Row κ φ ν × Bool)) (hinv : Inv enc q K st hist) :
    Inv enc q K (stateFrom enc q st rows) (histOf rows (runFrom enc q st rows) ++ hist) := by
  induction rows generalizing st hist with
  | nil => simpa [stateFrom, runFrom, histOf] using hinv
  | cons r rs ih =>
    have hr : r.key ∈ K := hrows r (by simp)
    have := ih (fun x hx => hrows x (by simp [hx])) (step enc q st r).1 _ (step_inv enc q K hK st hist r hinv hr)
    simpa [stateFrom, runFrom, histOf_cons, List.append_assoc] using this

/-- `KeysInj enc rows`: the decidable hypothesis "encoded keys distinct" on an input -/
def KeysInj (enc : κ → ε) (rows : List (Row κ φ ν)) : Prop := InjOn enc (rows.map (·.key))

theorem inv_stateAfter [DecidableEq κ] [DecidableEq φ] [DecidableEq ε] [Num ν] (enc : κ → ε) (q : Query α φ ν)
    (K : List κ) (hK : InjOn enc K) (pre : List (Row κ φ ν)) (hpre : ∀ r ∈ pre, r.key ∈ K) :
    Inv enc q K (stateAfter enc q pre) (histOf pre (run enc q pre)) := by
  have := inv_stateFrom enc q K hK pre hpre State.empty [] (inv_empty enc q K)
  simpa [stateAfter, run] using this

/-- the rows of `r`'s group since that group last fired in the run over `pre`, including `r` -/
def segAt [DecidableEq κ] [DecidableEq φ] [DecidableEq ε] [Num ν] (enc : κ → ε) (q : Query α φ ν)
    (pre : List (Row κ φ ν)) (r : Row κ φ ν) : List (Row κ φ ν) :=
  openSeg r.key (histOf pre (run enc q pre)) ++ [r]

theorem outAt_eq [DecidableEq κ] [DecidableEq φ] [DecidableEq ε] [Num ν] (enc : κ → ε) (q : Query α φ ν)
    (pre : List (Row κ φ ν)) (r : Row κ φ ν) (hK : KeysInj enc (pre ++ [r])) :
    outAt enc q pre r =
      if engineTrue q.pred (segAt enc q pre r) then some (expected q (segAt enc q pre r) r) else none := by
  have hinv := inv_stateAfter enc q _ hK pre (fun x hx => by
    simp only [List.map_append, List.mem_append, List.mem_map]; exact Or.inl ⟨x, hx, rfl⟩)
  exact step_out enc q _ _ _ r hinv (by simp)

theorem runFrom_append [DecidableEq φ] [DecidableEq ε] [Num ν] (enc : κ → ε) (q : Query α φ ν)
    (st : State ε κ ν) (a b : List (Row κ φ ν)) :
    runFrom enc q st (a ++ b) = runFrom enc q st a ++ runFrom enc q (stateFrom enc q st a) b := by
  induction a generalizing st with
  | nil => rfl
  | cons r rs ih => simp [runFrom, stateFrom, ih]

theorem stateFrom_append [DecidableEq φ] [DecidableEq ε] [Num ν] (enc : κ → ε) (q : Query α φ ν)
    (st : State ε κ ν) (a b : List (Row κ φ ν)) :
    stateFrom enc q st (a ++ b) = stateFrom enc q (stateFrom enc q st a) b := by
  induction a generalizing st with
  | nil => rfl
  | cons r rs ih => simp [stateFrom, ih]

/-- the run over `pre ++ [r]` is the run over `pre` followed by what `r` delivers -/
theorem run_snoc [DecidableEq φ] [DecidableEq ε] [Num ν] (enc : κ → ε) (q : Query α φ ν)
    (pre : List (Row κ φ ν)) (r : Row κ φ ν) :
    run enc q (pre ++ [r]) = run enc q pre ++ [outAt enc q pre r] := by
  simp [run, runFrom_append, runFrom, outAt, stateAfter]

theorem runFrom_length [DecidableEq φ] [DecidableEq ε] [Num ν] (enc : κ → ε) (q : Query α φ ν)
    (st : State ε κ ν) (rows : List (Row κ φ ν)) : (runFrom enc q st rows).length = rows.length := by
  induction rows generalizing st with
  | nil => rfl
  | cons r rs ih => simp [runFrom, ih]

end Global
