/-
Manual flush of a session window (`Trigger()`, public as `Streamsql.TriggerWindow`): every open session is
delivered as it stands and forgotten.  Core Lean only.
-/
import SsqlVerif.Proofs.SessionRun
set_option autoImplicit false
set_option linter.unusedVariables false

namespace Session

theorem flushAll_sessions (w : SWin) : (flushAll w).1.sessions = [] := rfl

theorem flushAll_wm (w : SWin) : (flushAll w).1.wm = w.wm ∧ (flushAll w).1.trig = w.trig := ⟨rfl, rfl⟩

/-- the rows delivered by a manual flush are exactly the rows of the open sessions, each as often as it was open -/
theorem flushAll_rows (w : SWin) (x : Row) :
    (firstRows (flushAll w).2).count x = (openRows w).count x := by
  unfold flushAll firstRows openRows
  simp only
  have hfilter : (List.filter (fun e : Emission => !e.late)
      (List.map (fun s : Sess => ({ late := false, key := s.key, start := s.start, stop := s.stop, rows := s.rows } : Emission)) (sortSess w.sessions)))
      = List.map (fun s : Sess => ({ late := false, key := s.key, start := s.start, stop := s.stop, rows := s.rows } : Emission)) (sortSess w.sessions) := by
    apply List.filter_eq_self.mpr
    intro e he
    rw [List.mem_map] at he
    obtain ⟨s, _, rfl⟩ := he
    rfl
  rw [hfilter, List.flatMap_map]
  exact (List.Perm.flatMap_right _ (perm_sortSess w.sessions)).count_eq x

/-- every session a manual flush delivers has the bounds and the gap clause of a session -/
theorem flushAll_emissions (w : SWin) (h : Inv w) :
    ∀ e ∈ (flushAll w).2, e.late = false ∧ EmOk w.timeout e ∧ Chain w.timeout e.start e.rows := by
  intro e he
  unfold flushAll at he
  simp only [List.mem_map] at he
  obtain ⟨s, hs, rfl⟩ := he
  rw [mem_sortSess] at hs
  have hok := h.hok s hs
  refine ⟨rfl, ⟨hok.hne, ?_, hok.hmin, ?_⟩, h.hchain s hs⟩
  · intro r hr
    have := hok.hbounds r hr
    have hst := hok.hstop
    exact ⟨this.1, by show r.ts + w.timeout ≤ s.stop; omega⟩
  · obtain ⟨m, hm, hmt⟩ := hok.hmax
    exact ⟨m, hm, by show m.ts + w.timeout = s.stop; rw [hok.hstop, hmt]⟩

/-- the flushed window satisfies every invariant again (nothing is open) -/
theorem flushAll_inv (w : SWin) (h : Inv w) : Inv (flushAll w).1 :=
  { hok := by intro s hs; cases hs
    hchain := by intro s hs; cases hs
    hsep := List.Pairwise.nil
    hchan := h.hchan
    htime := h.htime }

end Session
