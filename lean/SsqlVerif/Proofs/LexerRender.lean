/-
Helper lemmas for C11 (lexer layer), part 4: a whole rendered statement.  `Sep` (whitespace wherever
`needSep` asks for it) guarantees that what follows each token does not continue it; induction over
the token list then gives `lexAll (render ps trail) = expected ps`.  Core Lean only.
-/
import SsqlVerif.Proofs.LexerTokens
set_option autoImplicit false

namespace LexSpec
open Lexer

/-! ### `okNext` through the first byte of what follows -/

theorem okNext_nil (a : Src) : okNext a [] = true := by
  cases a with
  | op o => cases o <;> simp [okNext, nextIsDigit, nextIsEq]
  | _ => simp [okNext, headSat]

theorem not_identChar_of_ws {c : Byte} (h : isWs c = true) : isIdentChar c = false := by
  rcases isWs_cases h with h | h | h | h <;> subst h <;> decide

theorem okNext_ws (a : Src) (c : Byte) (R : List Byte) (h : isWs c = true) : okNext a (c :: R) = true := by
  have h1 : isIdentChar c = false := not_identChar_of_ws h
  have h2 : isNumChar c = false := by rcases isWs_cases h with h | h | h | h <;> subst h <;> decide
  have h3 : isDigit c = false := by rcases isWs_cases h with h | h | h | h <;> subst h <;> decide
  have h4 : nextIsEq (c :: R) = false := by rcases isWs_cases h with h | h | h | h <;> subst h <;> rfl
  cases a with
  | op o => cases o <;> simp [okNext, nextIsDigit, h3, h4]
  | _ => simp [okNext, headSat, h1, h2]

/-- whitespace (or nothing) never continues a token -/
theorem okNext_allWs (a : Src) (R : List Byte) (h : ∀ c ∈ R, isWs c = true) : okNext a R = true := by
  cases R with
  | nil => exact okNext_nil a
  | cons c R => exact okNext_ws a c R (h c (by simp))

/-! ### first byte of a source token -/

theorem not_numChar_of_letter {c : Byte} (h : isLetter c = true) : isNumChar c = false := by
  have r := isLetter_range.1 h
  have hd : isDigit c = false := by
    cases hd : isDigit c with
    | false => rfl
    | true => have := isDigit_range.1 hd; exfalso; omega
  have h46 : (c == 46) = false := by
    cases h46 : c == 46 with
    | false => rfl
    | true => have := beq_iff_eq.1 h46; exfalso; omega
  simp [isNumChar, hd, h46]

theorem letter_ne_eq {c : Byte} (h : isLetter c = true) : nextIsEq (c :: ([] : List Byte)) = false ∧ c ≠ 61 := by
  have r := isLetter_range.1 h
  have : c ≠ 61 := by omega
  refine ⟨?_, this⟩
  unfold nextIsEq
  split
  · rename_i heq; simp at heq; omega
  · rfl

theorem nextIsEq_cons_ne {c : Byte} (R : List Byte) (h : c ≠ 61) : nextIsEq (c :: R) = false := by
  unfold nextIsEq
  split
  · rename_i heq; simp at heq; exact absurd heq.1 h
  · rfl

/-- If `b` may directly follow `a` (`needSep a b = false`), the spelling of `b` does not continue `a`. -/
theorem okNext_of_not_needSep (a b : Src) (m : List Bool) (R : List Byte)
    (hb : b.valid = true) (h : needSep a b = false) : okNext a (b.text m ++ R) = true := by
  -- the first byte of `b`'s spelling, by the shape of `b`
  cases b with
  | word w =>
    cases w with
    | nil => simp [Src.valid] at hb
    | cons x tl =>
      simp only [Src.valid, Bool.and_eq_true, List.all_eq_true] at hb
      obtain ⟨x', tl', he, hx', _⟩ := applyMask_word m x tl hb.1 hb.2
      have hne : x' ≠ 61 := (letter_ne_eq hx').2
      have hr := isLetter_range.1 hx'
      have hd : isDigit x' = false := by
        cases hd : isDigit x' with
        | false => rfl
        | true => have := isDigit_range.1 hd; exfalso; omega
      cases a with
      | word _ => simp [needSep] at h
      | num _ _ => simp [okNext, Src.text, he, headSat, not_numChar_of_letter hx']
      | op o => cases o <;> simp [okNext, Src.text, he, nextIsDigit, hd, nextIsEq_cons_ne _ hne]
      | _ => simp [okNext]
  | num neg d =>
    cases d with
    | nil => simp [Src.valid] at hb
    | cons x tl =>
      simp only [Src.valid, Bool.and_eq_true, List.all_eq_true] at hb
      have hr := isDigit_range.1 hb.1
      cases neg with
      | false =>
        have hne : x ≠ 61 := by omega
        cases a with
        | word _ => simp [needSep] at h
        | num _ _ => simp [needSep] at h
        | op o => cases o <;> first | (simp [needSep] at h; done) | simp [okNext, Src.text, nextIsEq_cons_ne _ hne]
        | _ => simp [okNext]
      | true =>
        cases a with
        | op o => cases o <;> simp [okNext, Src.text, nextIsDigit, nextIsEq, isDigit]
        | _ => simp [okNext, Src.text, headSat, isIdentChar, isNumChar, isLetter, isLower, isUpper, isDigit]
  | str q body =>
    simp only [Src.valid, Bool.and_eq_true, Bool.or_eq_true, beq_iff_eq] at hb
    rcases hb.1 with hq | hq <;> subst hq <;>
      (cases a with
       | op o => cases o <;> simp [okNext, Src.text, nextIsDigit, nextIsEq, isDigit]
       | _ => simp [okNext, Src.text, headSat, isIdentChar, isNumChar, isLetter, isLower, isUpper, isDigit])
  | qid body =>
    cases a with
    | op o => cases o <;> simp [okNext, Src.text, nextIsDigit, nextIsEq, isDigit]
    | _ => simp [okNext, Src.text, headSat, isIdentChar, isNumChar, isLetter, isLower, isUpper, isDigit]
  | op o2 =>
    cases a with
    | word _ => cases o2 <;> first | (simp [needSep] at h; done) | simp [okNext, Src.text, Op.text, headSat, isIdentChar, isLetter, isLower, isUpper, isDigit]
    | num _ _ => cases o2 <;> first | (simp [needSep] at h; done) | simp [okNext, Src.text, Op.text, headSat, isNumChar, isDigit]
    | op o1 =>
      cases o1 <;> first
        | (simp [okNext]; done)
        | (cases o2 <;> first | (simp [needSep] at h; done) | simp [okNext, Src.text, Op.text, nextIsDigit, nextIsEq, isDigit])
    | _ => simp [okNext]

/-! ### the whole statement -/

theorem lexAll_allWs (t : List Byte) (h : ∀ c ∈ t, isWs c = true) : lexAll t = [eofTok] := by
  have hj : junkLen t = t.length := by
    have := junkLen_ws_append t [] h
    simpa [junkLen] using this
  rw [lexAll_unfold]
  have : (nextToken t).1.kind = .eof := by simp [nextToken, hj, tokenAt, eofTok]
  simp [this]

/-- what follows a token in a separated layout does not continue it -/
theorem okNext_render (p : Placed) (ps : List Placed) (trail : List Byte)
    (hv : AllValid (p :: ps) = true) (hl : LayoutOk (p :: ps) trail = true) (hs : Sep (p :: ps) = true) :
    okNext p.src (render ps trail) = true := by
  simp only [LayoutOk, List.all_cons, Bool.and_eq_true, List.all_eq_true] at hl
  cases ps with
  | nil => exact okNext_allWs _ _ hl.2
  | cons q ps =>
    simp only [AllValid, List.all_cons, Bool.and_eq_true] at hv
    simp only [Sep, Bool.and_eq_true, Bool.or_eq_true, Bool.not_eq_true', bne_iff_ne] at hs
    simp only [render]
    cases hq : q.pre with
    | cons c pre =>
      have : isWs c = true := hl.1.2 q (by simp) c (by simp [hq])
      simp only [List.cons_append]
      exact okNext_ws _ _ _ this
    | nil =>
      rcases hs.1 with h | h
      · simp only [List.nil_append]
        exact okNext_of_not_needSep _ _ _ _ hv.2.1 h
      · exact absurd hq h

/-- layout insensitivity, list form -/
theorem lexAll_render (ps : List Placed) (trail : List Byte)
    (hv : AllValid ps = true) (hl : LayoutOk ps trail = true) (hs : Sep ps = true) :
    lexAll (render ps trail) = expected ps := by
  induction ps with
  | nil =>
    simp only [LayoutOk, List.all_nil, Bool.true_and, List.all_eq_true] at hl
    simpa [render, expected] using lexAll_allWs trail hl
  | cons p ps ih =>
    have hok := okNext_render p ps trail hv hl hs
    have hv' : AllValid ps = true := by
      simp only [AllValid, List.all_cons, Bool.and_eq_true] at hv; exact hv.2
    have hpv : p.src.valid = true := by
      simp only [AllValid, List.all_cons, Bool.and_eq_true] at hv; exact hv.1
    have hl' : LayoutOk ps trail = true := by
      simp only [LayoutOk, List.all_cons, Bool.and_eq_true] at hl ⊢; exact ⟨hl.1.2, hl.2⟩
    have hpre : ∀ c ∈ p.pre, isWs c = true := by
      simp only [LayoutOk, List.all_cons, Bool.and_eq_true, List.all_eq_true] at hl; exact hl.1.1
    have hs' : Sep ps = true := by
      cases ps with
      | nil => rfl
      | cons q ps => simp only [Sep, Bool.and_eq_true] at hs; exact hs.2
    obtain ⟨h1, h2, h3, h4⟩ := reads_src p.src p.mask (render ps trail) hpv hok
    have hnt := nextToken_ws_append p.pre (p.text ++ render ps trail) hpre h2
    have hnt1 : (nextToken (render (p :: ps) trail)).1 = emit p := by
      simp only [render, hnt]; exact congrArg Prod.fst h1
    have hnt2 : (nextToken (render (p :: ps) trail)).2 = p.pre.length + p.text.length := by
      simp only [render, hnt]; exact congrArg (fun x => p.pre.length + x.2) h1
    rw [lexAll_unfold, hnt1, hnt2]
    have hk : (emit p).kind ≠ .eof := h3
    rw [if_neg hk]
    have hd : (render (p :: ps) trail).drop (p.pre.length + p.text.length) = render ps trail := by
      simp only [render]
      rw [← List.append_assoc, ← List.length_append, List.drop_left]
    rw [hd, ih hv' hl' hs']
    simp [expected]

/-! ### literals in front of arbitrary input -/

theorem lexAll_str (q : Byte) (hq : q = 39 ∨ q = 34) (body pre rest : List Byte)
    (hb : ∀ c ∈ body, c ≠ q ∧ c ≠ 0) (hp : ∀ c ∈ pre, isWs c = true) :
    lexAll (pre ++ (q :: (body ++ [q]) ++ rest)) = ⟨.string, q :: (body ++ [q])⟩ :: lexAll rest := by
  have hv : (Src.str q body).valid = true := by
    simp only [Src.valid, Bool.and_eq_true, Bool.or_eq_true, beq_iff_eq, List.all_eq_true]
    exact ⟨hq, fun c hc => by simpa using hb c hc⟩
  obtain ⟨h1, h2, _, _⟩ := reads_str q body [] rest hv
  simp only [Src.text, Src.kind] at h1 h2
  have hnt := nextToken_ws_append pre _ hp h2
  rw [lexAll_unfold, hnt, h1]
  simp only [reduceCtorEq, if_false]
  congr 1
  rw [← List.length_append, ← List.append_assoc, List.drop_left]

theorem lexAll_qid (body pre rest : List Byte)
    (hb : ∀ c ∈ body, c ≠ 96 ∧ c ≠ 0) (hp : ∀ c ∈ pre, isWs c = true) :
    lexAll (pre ++ (96 :: (body ++ [96]) ++ rest)) = ⟨.qident, 96 :: (body ++ [96])⟩ :: lexAll rest := by
  have hv : (Src.qid body).valid = true := by
    simp only [Src.valid, List.all_eq_true]
    exact fun c hc => by simpa using hb c hc
  obtain ⟨h1, h2, _, _⟩ := reads_qid body [] rest hv
  simp only [Src.text, Src.kind] at h1 h2
  have hnt := nextToken_ws_append pre _ hp h2
  rw [lexAll_unfold, hnt, h1]
  simp only [reduceCtorEq, if_false]
  congr 1
  rw [← List.length_append, ← List.append_assoc, List.drop_left]

/-! ### two layouts of one statement -/

theorem applyMask_allFalse (m : List Bool) (w : List Byte) (h : m.all (· == false) = true) : applyMask m w = w := by
  induction w generalizing m with
  | nil => cases m with
    | nil => rfl
    | cons x m => cases x <;> rfl
  | cons b w ih =>
    cases m with
    | nil => rfl
    | cons x m =>
      simp only [List.all_cons, Bool.and_eq_true, beq_iff_eq] at h
      obtain ⟨hx, hm⟩ := h
      subst hx
      simp [applyMask, ih m hm]

/-- the token a source token stands for, keyword spelling normalised — no layout in sight -/
def canon (a : Src) : Token := normTok ⟨a.kind, a.text []⟩

theorem normTok_emit (p : Placed) (h : maskKwOnly p = true) : normTok (emit p) = canon p.src := by
  cases hp : p.src with
  | word w =>
    simp only [maskKwOnly, hp] at h
    simp only [emit, canon, Placed.text, hp, Src.kind, Src.text]
    cases hk : wordKind w with
    | kw i => simp [normTok, applyMask_map_upper, applyMask]
    | _ => simp only [hk] at h; rw [applyMask_allFalse _ _ h]; simp [applyMask]
  | num neg d => simp [emit, canon, Placed.text, hp, Src.text]
  | str q body => simp [emit, canon, Placed.text, hp, Src.text]
  | qid body => simp [emit, canon, Placed.text, hp, Src.text]
  | op o => simp [emit, canon, Placed.text, hp, Src.text]

theorem expected_kinds (ps : List Placed) :
    (expected ps).map Token.kind = ps.map (fun p => p.src.kind) ++ [Kind.eof] := by
  simp [expected, emit, eofTok, Function.comp_def]

theorem expected_norm (ps : List Placed) (h : ∀ p ∈ ps, maskKwOnly p = true) :
    (expected ps).map normTok = (ps.map (fun p => p.src)).map canon ++ [eofTok] := by
  simp only [expected, List.map_append, List.map_map, List.map_cons, List.map_nil]
  congr 1
  · apply List.map_congr_left
    intro p hp
    simp [normTok_emit p (h p hp)]

end LexSpec
