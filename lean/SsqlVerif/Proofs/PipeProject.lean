/-
Projection: `compileSimpleFieldInfo` on the field specs the front end produces for a well-formed SELECT
list recovers the item (name, source, kind), and `projectDirectRow` writes exactly one column per item.
-/
import SsqlVerif.Proofs.PipePath
set_option autoImplicit false

namespace Pipe
open PipeSpec

/-! ### association lists -/

theorem setKey_append_of_not_mem (k : Str) (v : Value) (m : Row) (h : k ∉ keysOf m) :
    setKey k v m = m ++ [(k, v)] := by
  induction m with
  | nil => rfl
  | cons kv rest ih =>
    obtain ⟨k', v'⟩ := kv
    have hk : k' ≠ k := fun e => h (by simp [keysOf, e])
    have hr : k ∉ keysOf rest := fun e => h (by simp [keysOf] at e ⊢; exact Or.inr e)
    simp [setKey, hk, ih hr]

theorem keysOf_append (a b : Row) : keysOf (a ++ b) = keysOf a ++ keysOf b := by simp [keysOf]

theorem setExpr_append_of_not_mem (n : Str) (e : FieldExpr) (m : List (Str × FieldExpr)) (h : n ∉ m.map Prod.fst) :
    setExpr n e m = m ++ [(n, e)] := by
  induction m with
  | nil => rfl
  | cons kv rest ih =>
    obtain ⟨k', v'⟩ := kv
    have hk : k' ≠ n := fun e => h (by simp [e])
    have hr : n ∉ rest.map Prod.fst := fun e => h (by simp at e ⊢; exact Or.inr e)
    simp [setExpr, hk, ih hr]

/-! ### characters of the item grammar -/

def bqChar (c : Char) : Bool := identChar c || c = ' '

theorem bqChar_ne (c d : Char) (hc : bqChar c = true) (hd : bqChar d = false) : c ≠ d := by
  intro e; subst e; rw [hd] at hc; exact absurd hc (by decide)

theorem litChar_ne (c d : Char) (hc : litChar c = true) (hd : litChar d = false) : c ≠ d := by
  intro e; subst e; rw [hd] at hc; exact absurd hc (by decide)

theorem all_not_mem {p : Char → Bool} (s : Str) (d : Char) (hs : s.all p = true) (hd : p d = false) : d ∉ s := by
  intro hm
  have := List.all_eq_true.mp hs d hm
  rw [hd] at this; exact absurd this (by decide)

theorem identChar_bq (c : Char) (h : identChar c = true) : bqChar c = true := by simp [bqChar, h]
theorem identChar_lit (c : Char) (h : identChar c = true) : litChar c = true := by simp [litChar, h]

theorem isBqName_all (s : Str) (h : isBqName s = true) : s.all bqChar = true := by
  simp only [isBqName, Bool.and_eq_true] at h; exact h.2

theorem isBqName_ne_nil (s : Str) (h : isBqName s = true) : s ≠ [] := by
  simp only [isBqName, Bool.and_eq_true] at h
  intro e; subst e; simp at h

/-! ### the separator scan over item text -/

theorem scanTo_ident (s : Str) (hs : s.all identChar = true) : scanTo none s = some none := by
  apply scanTo_plain
  intro c hc
  have h := List.all_eq_true.mp hs c hc
  refine ⟨?_, identChar_ne c ':' h (by decide)⟩
  cases hq : isQuoteChar c with
  | false => rfl
  | true =>
    exfalso
    simp only [isQuoteChar, Bool.or_eq_true, decide_eq_true_eq] at hq
    rcases hq with (e | e) | e <;> subst e <;> revert h <;> decide

theorem scanTo_itoa (i : Int) : scanTo none (itoa i) = some none := by
  apply scanTo_plain
  intro c hc
  have h := itoa_chars i c hc
  refine ⟨?_, digitOrMinus_ne c ':' h (by decide) (by decide)⟩
  cases hq : isQuoteChar c with
  | false => rfl
  | true =>
    exfalso
    simp only [isQuoteChar, Bool.or_eq_true, decide_eq_true_eq] at hq
    rcases hq with (e | e) | e
    · exact digitOrMinus_ne c '\'' h (by decide) (by decide) e
    · exact digitOrMinus_ne c '"' h (by decide) (by decide) e
    · exact digitOrMinus_ne c '`' h (by decide) (by decide) e

theorem scanTo_one (c : Char) (hq : isQuoteChar c = false) (hc : c ≠ ':') : scanTo none [c] = some none := by
  simp [scanTo, isCut, hc, quoteNext, hq]

/-- `q s q` with `q` a quote character not occurring in `s` -/
theorem scanTo_wrapped (q : Char) (hq : isQuoteChar q = true) (s : Str) (hs : q ∉ s) :
    scanTo none (q :: (s ++ [q])) = some none := by
  have hc : q ≠ ':' := by intro e; subst e; revert hq; decide
  simp only [scanTo, isCut, Option.isNone_none, Bool.true_and, decide_eq_true_eq, if_neg hc]
  simp only [quoteNext, hq, if_true]
  exact scanTo_quoted q s hs

theorem scanTo_renderSub (s : Sub) (hs : subWF s = true) : scanTo none (renderSub s) = some none := by
  cases s with
  | idx i =>
    have : renderSub (.idx i) = ['['] ++ (itoa i ++ [']']) := rfl
    rw [this]
    exact scanTo_append _ _ _ _ _ (scanTo_one '[' (by decide) (by decide))
      (scanTo_append _ _ _ _ _ (scanTo_itoa i) (scanTo_one ']' (by decide) (by decide)))
  | key k =>
    simp only [subWF, isKeyText] at hs
    have : renderSub (.key k) = ['['] ++ (('\'' :: (k ++ ['\''])) ++ [']']) := by simp [renderSub]
    rw [this]
    exact scanTo_append _ _ _ _ _ (scanTo_one '[' (by decide) (by decide))
      (scanTo_append _ _ _ _ _ (scanTo_wrapped '\'' (by decide) k (ident_not_mem k '\'' hs (by decide)))
        (scanTo_one ']' (by decide) (by decide)))

theorem scanTo_renderSubs (subs : List Sub) (hs : subs.all subWF = true) : scanTo none (renderSubs subs) = some none := by
  induction subs with
  | nil => rfl
  | cons s ss ih =>
    simp only [List.all_cons, Bool.and_eq_true] at hs
    exact scanTo_append _ _ _ _ _ (scanTo_renderSub s hs.1) (ih hs.2)

theorem scanTo_renderComp (c : Comp) (hc : compWF c = true) : scanTo none (renderComp c) = some none := by
  simp only [compWF, Bool.and_eq_true] at hc
  exact scanTo_append _ _ _ _ _ (scanTo_ident _ (isIdent_all _ hc.1)) (scanTo_renderSubs _ hc.2)

theorem scanTo_renderRest (r : List Comp) (hr : r.all compWF = true) : scanTo none (renderRest r) = some none := by
  induction r with
  | nil => rfl
  | cons c cs ih =>
    simp only [List.all_cons, Bool.and_eq_true] at hr
    have : renderRest (c :: cs) = ['.'] ++ (renderComp c ++ renderRest cs) := rfl
    rw [this]
    exact scanTo_append _ _ _ _ _ (scanTo_one '.' (by decide) (by decide))
      (scanTo_append _ _ _ _ _ (scanTo_renderComp c hr.1) (ih hr.2))

theorem scanTo_renderPath (f : Comp) (r : List Comp) (hf : compWF f = true) (hr : r.all compWF = true) :
    scanTo none (renderPath f r) = some none :=
  scanTo_append _ _ _ _ _ (scanTo_renderComp f hf) (scanTo_renderRest r hr)

/-! ### a SELECT item as the projection sees it -/

def isLit (it : Item) : Bool :=
  match it.src with
  | .lit _ => true
  | _ => false

/-- the column an item contributes -/
def colOf (row : Row) (it : Item) : Str × Value := (outName it, itemValue row it.src)

theorem compSel_wf (c : Comp) (h : compSel c = true) : compWF c = true := by
  simp only [compSel, Bool.and_eq_true] at h; exact h.1

theorem compSel_all_wf (r : List Comp) (h : r.all compSel = true) : r.all compWF = true := by
  rw [List.all_eq_true] at h ⊢
  intro c hc; exact compSel_wf c (h c hc)

theorem scanTo_srcText (it : Item) (hwf : itemWF it = true) : scanTo none (srcText it.src) = some none := by
  simp only [itemWF, Bool.and_eq_true] at hwf
  obtain ⟨_, hsrc⟩ := hwf
  cases hs : it.src with
  | star => rw [hs] at hsrc; simp at hsrc
  | path f r =>
    rw [hs] at hsrc
    simp only [Bool.and_eq_true] at hsrc
    exact scanTo_renderPath f r (compSel_wf f hsrc.1) (compSel_all_wf r hsrc.2)
  | bqcol n =>
    rw [hs] at hsrc
    exact scanTo_wrapped '`' (by decide) n (all_not_mem n '`' (isBqName_all n hsrc) (by decide))
  | lit s =>
    rw [hs] at hsrc
    simp only [Bool.and_eq_true] at hsrc
    exact scanTo_wrapped '\'' (by decide) s (all_not_mem s '\'' hsrc.1 (by decide))

/-- text after the separator in the item's field spec -/
def specSuffix (it : Item) : Option Str :=
  match it.alias with
  | some a => some (aliasText it a)
  | none =>
    match it.src with
    | .lit s => some s
    | _ => none

theorem simpleSpec_shape (it : Item) :
    simpleSpec it = srcText it.src ++ (match specSuffix it with | some t => ':' :: t | none => []) := by
  unfold simpleSpec specSuffix
  cases it.alias with
  | some a => rfl
  | none => cases it.src <;> simp

theorem specBefore_simpleSpec (it : Item) (hwf : itemWF it = true) :
    specBefore none (simpleSpec it) = srcText it.src := by
  rw [simpleSpec_shape, specBefore_append none none _ _ (scanTo_srcText it hwf)]
  cases specSuffix it with
  | none => simp [specBefore_nil]
  | some t => simp [specBefore_cut]

theorem specAfter_simpleSpec (it : Item) (hwf : itemWF it = true) :
    specAfter none (simpleSpec it) = specSuffix it := by
  rw [simpleSpec_shape, specAfter_append none none _ _ (scanTo_srcText it hwf)]
  cases specSuffix it with
  | none => simp [specAfter_nil]
  | some t => simp [specAfter_cut]

/-! ### back quotes -/

theorem stripBackticks_wrapped (n : Str) (hn : n ≠ []) : stripBackticks ('`' :: (n ++ ['`'])) = n := by
  have hw : wrappedIn '`' ('`' :: (n ++ ['`'])) = true := by
    simp [wrappedIn, getLast?_wrapped]
  simp [stripBackticks, hw, inner_quoted]

theorem stripBackticks_id (s : Str) (h : s.head? ≠ some '`') : stripBackticks s = s := by
  have : wrappedIn '`' s = false := by
    unfold wrappedIn
    cases hh : s.head? with
    | none => simp
    | some c =>
      have : c ≠ '`' := fun e => h (by rw [hh, e])
      simp [this]
  simp [stripBackticks, this]

theorem head?_of_all {p : Char → Bool} (s : Str) (d : Char) (hs : s.all p = true) (hd : p d = false) :
    s.head? ≠ some d := by
  cases s with
  | nil => simp
  | cons c cs =>
    simp only [List.head?_cons, ne_eq, Option.some.injEq]
    intro e
    have := List.all_eq_true.mp hs c (by simp)
    rw [e, hd] at this; exact absurd this (by decide)

theorem renderPath_head (f : Comp) (r : List Comp) (hf : compWF f = true) :
    ∃ c t, renderPath f r = c :: t ∧ identChar c = true := by
  simp only [compWF, Bool.and_eq_true] at hf
  cases hn : f.name with
  | nil => exact absurd hn (isIdent_ne_nil _ hf.1)
  | cons c t =>
    refine ⟨c, t ++ renderSubs f.subs ++ renderRest r, by simp [renderPath, renderComp, hn], ?_⟩
    have := isIdent_all _ hf.1
    rw [hn] at this
    exact List.all_eq_true.mp this c (by simp)

/-- the output column name computed by `compileSimpleFieldInfo` is the item's name -/
theorem specOutputName_simpleSpec (it : Item) (hwf : itemWF it = true) :
    specOutputName (simpleSpec it) = outName it := by
  have hwf' := hwf
  simp only [itemWF, Bool.and_eq_true] at hwf'
  obtain ⟨hal, hsrc⟩ := hwf'
  unfold specOutputName
  rw [specAfter_simpleSpec it hwf]
  unfold specSuffix outName
  cases ha : it.alias with
  | some a =>
    simp only [aliasWF, ha] at hal
    simp only [Option.getD_some, aliasText]
    cases hb : it.aliasBq with
    | true =>
      rw [hb] at hal
      simp only [if_true] at hal ⊢
      exact stripBackticks_wrapped a (isBqName_ne_nil a hal)
    | false =>
      rw [hb] at hal
      simp only [Bool.false_eq_true, if_false] at hal ⊢
      exact stripBackticks_id a (head?_of_all a '`' (isIdent_all a hal) (by decide))
  | none =>
    simp only [Option.getD_none]
    cases hs : it.src with
    | star => rw [hs] at hsrc; simp at hsrc
    | path f r =>
      rw [hs] at hsrc
      simp only [Bool.and_eq_true] at hsrc
      simp only [specFieldName, specBefore_simpleSpec it hwf, hs, srcText, defaultName]
      obtain ⟨c, t, hct, hc⟩ := renderPath_head f r (compSel_wf f hsrc.1)
      apply stripBackticks_id
      rw [hct]
      simp only [List.head?_cons, ne_eq, Option.some.injEq]
      exact identChar_ne c '`' hc (by decide)
    | bqcol n =>
      rw [hs] at hsrc
      simp only [specFieldName, specBefore_simpleSpec it hwf, hs, srcText, defaultName]
      exact stripBackticks_wrapped n (isBqName_ne_nil n hsrc)
    | lit s =>
      rw [hs] at hsrc
      simp only [Bool.and_eq_true] at hsrc
      simp only [defaultName]
      exact stripBackticks_id s (head?_of_all s '`' hsrc.1 (by decide))

theorem simpleSpec_ne_star (it : Item) (hwf : itemWF it = true) : simpleSpec it ≠ ['*'] := by
  have hwf' := hwf
  simp only [itemWF, Bool.and_eq_true] at hwf'
  obtain ⟨_, hsrc⟩ := hwf'
  rw [simpleSpec_shape]
  cases hs : it.src with
  | star => rw [hs] at hsrc; simp at hsrc
  | path f r =>
    rw [hs] at hsrc
    simp only [Bool.and_eq_true] at hsrc
    obtain ⟨c, t, hct, hc⟩ := renderPath_head f r (compSel_wf f hsrc.1)
    simp only [srcText, hct, List.cons_append]
    intro e
    have : c = '*' := by injection e
    exact identChar_ne c '*' hc (by decide) this
  | bqcol n => simp [srcText]
  | lit s => simp [srcText]

theorem compileField_outputName (it : Item) (hwf : itemWF it = true) :
    (compileField (simpleSpec it)).outputName = outName it ∧ (compileField (simpleSpec it)).selectAll = false := by
  unfold compileField
  rw [if_neg (simpleSpec_ne_star it hwf)]
  exact ⟨specOutputName_simpleSpec it hwf, rfl⟩

/-! ### the value an ordinary item reads -/

theorem contains_false_of_not_mem (s : Str) (c : Char) (h : c ∉ s) : s.contains c = false := by
  cases hb : s.contains c with
  | false => rfl
  | true => exact absurd (List.contains_iff_mem.mp hb) h

theorem renderSub_not_mem (s : Sub) (hs : subWF s = true) (d : Char)
    (hd1 : d.isDigit = false) (hd2 : d ≠ '-') (hd3 : identChar d = false)
    (hd4 : d ≠ '[') (hd5 : d ≠ ']') (hd6 : d ≠ '\'') : d ∉ renderSub s := by
  cases s with
  | idx i =>
    intro hm
    simp only [renderSub, List.mem_cons, List.mem_append, List.not_mem_nil, or_false] at hm
    rcases hm with h | h | h
    · exact hd4 h
    · exact itoa_not_mem i d hd1 hd2 h
    · exact hd5 h
  | key k =>
    simp only [subWF, isKeyText] at hs
    intro hm
    simp only [renderSub, List.mem_cons, List.mem_append, List.not_mem_nil, or_false] at hm
    rcases hm with h | h | h | h | h
    · exact hd4 h
    · exact hd6 h
    · exact ident_not_mem k d hs hd3 h
    · exact hd6 h
    · exact hd5 h

theorem renderSubs_not_mem (subs : List Sub) (hs : subs.all subWF = true) (d : Char)
    (hd1 : d.isDigit = false) (hd2 : d ≠ '-') (hd3 : identChar d = false)
    (hd4 : d ≠ '[') (hd5 : d ≠ ']') (hd6 : d ≠ '\'') : d ∉ renderSubs subs := by
  induction subs with
  | nil => simp [renderSubs]
  | cons s ss ih =>
    simp only [List.all_cons, Bool.and_eq_true] at hs
    simp only [renderSubs, List.mem_append, not_or]
    exact ⟨renderSub_not_mem s hs.1 d hd1 hd2 hd3 hd4 hd5 hd6, ih hs.2⟩

theorem renderComp_not_mem (c : Comp) (hc : compWF c = true) (d : Char)
    (hd1 : d.isDigit = false) (hd2 : d ≠ '-') (hd3 : identChar d = false)
    (hd4 : d ≠ '[') (hd5 : d ≠ ']') (hd6 : d ≠ '\'') : d ∉ renderComp c := by
  simp only [compWF, Bool.and_eq_true] at hc
  simp only [renderComp, List.mem_append, not_or]
  exact ⟨ident_not_mem _ d (isIdent_all _ hc.1) hd3, renderSubs_not_mem _ hc.2 d hd1 hd2 hd3 hd4 hd5 hd6⟩

theorem renderPath_not_mem (f : Comp) (r : List Comp) (hf : compWF f = true) (hr : r.all compWF = true) (d : Char)
    (hd1 : d.isDigit = false) (hd2 : d ≠ '-') (hd3 : identChar d = false)
    (hd4 : d ≠ '[') (hd5 : d ≠ ']') (hd6 : d ≠ '\'') (hd7 : d ≠ '.') : d ∉ renderPath f r := by
  simp only [renderPath, List.mem_append, not_or]
  refine ⟨renderComp_not_mem f hf d hd1 hd2 hd3 hd4 hd5 hd6, ?_⟩
  induction r with
  | nil => simp [renderRest]
  | cons c cs ih =>
    simp only [List.all_cons, Bool.and_eq_true] at hr
    simp only [renderRest, List.mem_cons, List.mem_append, not_or]
    exact ⟨hd7, renderComp_not_mem c hr.1 d hd1 hd2 hd3 hd4 hd5 hd6, ih hr.2⟩

/-- no dot and no bracket in the text ⇒ the path is a bare column -/
theorem bare_of_not_nested (f : Comp) (r : List Comp) (h : isNestedName (renderPath f r) = false) :
    r = [] ∧ f.subs = [] := by
  simp only [isNestedName, Bool.or_eq_false_iff] at h
  constructor
  · cases r with
    | nil => rfl
    | cons c cs =>
      exfalso
      have hm : '.' ∈ renderPath f (c :: cs) := by simp [renderPath, renderRest]
      have hc := List.contains_iff_mem.mpr hm
      rw [h.1] at hc
      exact absurd hc (by decide)
  · cases hs : f.subs with
    | nil => rfl
    | cons s ss =>
      exfalso
      obtain ⟨t, ht⟩ := renderSubs_cons_head s ss
      have hm : '[' ∈ renderPath f r := by simp [renderPath, renderComp, hs, ht]
      have hc := List.contains_iff_mem.mpr hm
      rw [h.2] at hc
      exact absurd hc (by decide)

theorem walkComps_bare (row : Row) (f : Comp) (hs : f.subs = []) :
    walkComps (.map row) [f] = lookupKey f.name row := by
  simp only [walkComps, compLookup, hs, walkSubs]
  cases lookupKey f.name row <;> simp

/-- an ordinary (non-literal) item is neither a call nor a literal for the compiler, and the value it
reads from the row is the structural lookup of the spec (NULL when absent) -/
theorem compileField_plain (it : Item) (hwf : itemWF it = true) (hnl : isLit it = false) (row : Row) :
    (compileField (simpleSpec it)).isLiteral = false ∧
    (compileField (simpleSpec it)).isFunctionCall = false ∧
    plainValue (compileField (simpleSpec it)) row = .ok (itemValue row it.src) := by
  have hwf' := hwf
  simp only [itemWF, Bool.and_eq_true] at hwf'
  obtain ⟨_, hsrc⟩ := hwf'
  unfold compileField
  rw [if_neg (simpleSpec_ne_star it hwf)]
  simp only [specFieldName, specBefore_simpleSpec it hwf]
  cases hs : it.src with
  | star => rw [hs] at hsrc; simp at hsrc
  | lit s => simp [isLit, hs] at hnl
  | path f r =>
    rw [hs] at hsrc
    simp only [Bool.and_eq_true] at hsrc
    have hf := compSel_wf f hsrc.1
    have hr := compSel_all_wf r hsrc.2
    obtain ⟨c, t, hct, hc⟩ := renderPath_head f r hf
    have hstrip : stripBackticks (renderPath f r) = renderPath f r := by
      apply stripBackticks_id
      rw [hct]; simp only [List.head?_cons, ne_eq, Option.some.injEq]
      exact identChar_ne c '`' hc (by decide)
    simp only [srcText, hstrip]
    have hcall : isCall (renderPath f r) = false := by
      unfold isCall
      rw [contains_false_of_not_mem _ '(' (renderPath_not_mem f r hf hr '(' (by decide) (by decide)
        (by decide) (by decide) (by decide) (by decide) (by decide))]
      rfl
    have hlit : isLiteralName (renderPath f r) = false := by
      simp only [isLiteralName, wrappedIn, hct, List.head?_cons]
      have h1 : c ≠ '\'' := identChar_ne c '\'' hc (by decide)
      have h2 : c ≠ '"' := identChar_ne c '"' hc (by decide)
      simp [h1, h2]
    refine ⟨hlit, hcall, ?_⟩
    unfold plainValue
    simp only [hcall, Bool.not_false, Bool.true_and]
    cases hn : isNestedName (renderPath f r) with
    | true =>
      simp only [if_true, getNestedField_render (.map row) f r hf hr, itemValue, pathLookup]
    | false =>
      obtain ⟨hr0, hs0⟩ := bare_of_not_nested f r hn
      subst hr0
      have hname : renderPath f [] = f.name := by simp [renderPath, renderComp, hs0, renderSubs, renderRest]
      simp only [Bool.false_eq_true, if_false, hname, itemValue, pathLookup, walkComps_bare row f hs0]
  | bqcol n =>
    rw [hs] at hsrc
    have hall := isBqName_all n hsrc
    have hstrip : stripBackticks (srcText (.bqcol n)) = n := stripBackticks_wrapped n (isBqName_ne_nil n hsrc)
    rw [hstrip]
    have hcall : isCall n = false := by
      unfold isCall
      rw [contains_false_of_not_mem _ '(' (all_not_mem n '(' hall (by decide))]
      rfl
    have hlit : isLiteralName n = false := by
      have h1 := head?_of_all n '\'' hall (by decide)
      have h2 := head?_of_all n '"' hall (by decide)
      simp only [isLiteralName, wrappedIn]
      cases hh : n.head? with
      | none => simp
      | some c =>
        rw [hh] at h1 h2
        have e1 : c ≠ '\'' := fun e => h1 (by rw [e])
        have e2 : c ≠ '"' := fun e => h2 (by rw [e])
        simp [e1, e2]
    have hnest : isNestedName n = false := by
      unfold isNestedName
      rw [contains_false_of_not_mem _ '.' (all_not_mem n '.' hall (by decide)),
        contains_false_of_not_mem _ '[' (all_not_mem n '[' hall (by decide))]
      rfl
    refine ⟨hlit, hcall, ?_⟩
    simp [plainValue, hcall, hnest, itemValue]

end Pipe
