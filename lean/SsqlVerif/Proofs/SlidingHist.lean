/-
Helper lemmas for C08: invariants over the emission history of the sliding state machine.
Core Lean only.
-/
import SsqlVerif.Proofs.Sliding
set_option autoImplicit false
set_option linter.unusedVariables false
set_option linter.unusedSimpArgs false

namespace Sliding
open Wm Tumbling

/-- shape of one emission: a first firing of a slide-aligned interval, carrying exactly the rows
accepted so far (a prefix of the accepted log) whose timestamp lies in the interval -/
def EmOk (s : SW) (e : Emission) : Prop :=
  e.kind = .first ∧ e.stop = e.start + s.size ∧ s.slide ∣ e.start ∧ e.rows ≠ [] ∧
  ∃ pre, pre <+: s.acc ∧ e.rows = pre.filter (inSlot s.size e.start)

structure GoodH (s : SW) (es : List Emission) : Prop where
  hbefore : ∀ c, s.cur = some c → ∀ e ∈ es, e.start + s.slide ≤ c
  hincr : es.Pairwise (fun a b => a.start < b.start)
  hfreshE : s.advanced = false → es = []
  hshape : ∀ e ∈ es, EmOk s e
  /-- every accepted row is in the emission of every covering slide-aligned interval that lies
  at or after the slot current at its arrival and that the trigger loop has passed -/
  hcover : ∀ p ∈ s.accCur, ∀ k, s.slide ∣ k → p.2 ≤ k → inSlot s.size k p.1 = true →
            (∀ c, s.cur = some c → k < c) → ∃ e ∈ es, e.start = k ∧ p.1 ∈ e.rows

theorem goodH_init (size slide ooo : Int) : GoodH (init size slide ooo) [] :=
  { hbefore := by intro c h; cases h
    hincr := List.Pairwise.nil
    hfreshE := fun _ => rfl
    hshape := by intro e h; cases h
    hcover := by intro p h; cases h }

theorem lattice_lt_succ (k c slide : Int) (hs : 0 < slide) (hk : slide ∣ k) (hc : slide ∣ c)
    (h : k < c + slide) : k ≤ c := by
  obtain ⟨a, rfl⟩ := hk
  obtain ⟨b, rfl⟩ := hc
  have hab : a ≤ b := by
    rcases Int.lt_or_le b a with hlt | hge
    · exfalso
      have : slide * (b + 1) ≤ slide * a := Int.mul_le_mul_of_nonneg_left (by omega) (Int.le_of_lt hs)
      rw [Int.mul_add, Int.mul_one] at this; omega
    · exact hge
  exact Int.mul_le_mul_of_nonneg_left hab (Int.le_of_lt hs)

theorem emOk_mono (s s' : SW) (e : Emission) (h : EmOk s e) (hsz : s'.size = s.size) (hsl : s'.slide = s.slide)
    (hacc : s.acc <+: s'.acc) : EmOk s' e := by
  obtain ⟨h1, h2, h3, h4, pre, hp, hr⟩ := h
  exact ⟨h1, by rw [hsz]; exact h2, by rw [hsl]; exact h3, h4, pre, List.IsPrefix.trans hp hacc, by rw [hsz]; exact hr⟩

theorem goodH_add (s : SW) (r : Row) (now : Int) (es : List Emission) (hg : Good s) (hh : GoodH s es)
    (ht : 0 ≤ r.ts) : GoodH (stepAdd s r now) es := by
  have hc' : (stepAdd s r now).cur = some (curAfterAdd s r now) := rfl
  have haccpre : s.acc <+: (stepAdd s r now).acc := by
    show s.acc <+: (if kept s r now then s.acc ++ [r] else s.acc)
    split
    · exact List.prefix_append _ _
    · exact List.prefix_refl _
  refine
    { hbefore := ?_
      hincr := hh.hincr
      hfreshE := hh.hfreshE
      hshape := fun e he => emOk_mono s _ e (hh.hshape e he) rfl rfl haccpre
      hcover := ?_ }
  · intro c hc e he
    rw [hc'] at hc; cases hc
    rcases curAfterAdd_cases s r now with h | ⟨hfr, _, _, _⟩
    · rw [h]
      cases hcur : s.cur with
      | none =>
        have := hh.hfreshE (hg.hinit hcur).2.2.2
        rw [this] at he; cases he
      | some c0 =>
        have hci : curInit s r = c0 := by simp [curInit, hcur]
        rw [hci]; exact hh.hbefore c0 hcur e he
    · rw [hh.hfreshE hfr] at he; cases he
  · intro p hp k hk hpk hin hlt
    have hlt' := hlt _ hc'
    have hp' : p ∈ (if kept s r now then s.accCur ++ [(r, curAfterAdd s r now)] else s.accCur) := hp
    have hold : p ∈ s.accCur → ∃ e ∈ es, e.start = k ∧ p.1 ∈ e.rows := by
      intro hmem
      apply hh.hcover p hmem k hk hpk hin
      intro c hc
      have h2 := curAfterAdd_le_curInit s r now hg ht
      simp only [curInit, hc] at h2
      omega
    split at hp'
    · simp only [List.mem_append, List.mem_singleton] at hp'
      rcases hp' with h | h
      · exact hold h
      · rw [h] at hpk; simp only at hpk; omega
    · exact hold hp'

theorem goodH_fireOrSkip (s : SW) (c w : Int) (es : List Emission) (hg : Good s) (hh : GoodH s es)
    (hcur : s.cur = some c) (htr : s.trigW = some w) (hw : c + s.size ≤ w) :
    GoodH (fireOrSkip s c).1 (es ++ (fireOrSkip s c).2) := by
  have hsl := hg.hslide
  -- an accepted row of the passed slot is still buffered
  have hstill : ∀ p ∈ s.accCur, inSlot s.size c p.1 = true → p.1 ∈ slotRows s c := by
    intro p hp hin
    have hmem : p.1 ∈ s.acc := by rw [← hg.hlog]; exact List.mem_map_of_mem hp
    have hge : geCur c p.1 = true := by
      simp only [inSlot, Bool.and_eq_true, decide_eq_true_eq] at hin
      simp [geCur, hin.1]
    have h1 : p.1 ∈ s.acc.filter (geCur c) := List.mem_filter.mpr ⟨hmem, hge⟩
    rw [← hg.hacc c hcur] at h1
    exact List.mem_filter.mpr ⟨(List.mem_filter.mp h1).1, hin⟩
  have hrows : slotRows s c = s.acc.filter (inSlot s.size c) := by
    unfold slotRows
    rw [← filter_inSlot_of_geCur s.data, hg.hacc c hcur, filter_inSlot_of_geCur]
  unfold fireOrSkip
  split
  · rename_i hempty
    rw [List.append_nil]
    exact
      { hbefore := by
          intro c' hc' e he; cases hc'
          have := hh.hbefore c hcur e he
          show e.start + s.slide ≤ c + s.slide
          omega
        hincr := hh.hincr
        hfreshE := by intro h; cases h
        hshape := fun e he => emOk_mono s _ e (hh.hshape e he) rfl rfl (List.prefix_refl _)
        hcover := by
          intro p hp k hk hpk hin hlt
          have hk' := hlt (c + s.slide) rfl
          have hkc := lattice_lt_succ k c s.slide hsl hk (hg.halign c hcur) hk'
          rcases Int.lt_or_le k c with hlt' | hge'
          · exact hh.hcover p hp k hk hpk hin (by intro c0 hc0; rw [hcur] at hc0; cases hc0; exact hlt')
          · have hkeq : k = c := by omega
            subst hkeq
            have := hstill p hp hin
            rw [List.isEmpty_iff.mp hempty] at this; cases this }
  · rename_i hne
    exact
      { hbefore := by
          intro c' hc' e he; cases hc'
          show e.start + s.slide ≤ c + s.slide
          simp only [List.mem_append, List.mem_singleton] at he
          rcases he with he | he
          · have := hh.hbefore c hcur e he; omega
          · rw [he]; exact Int.le_refl _
        hincr := by
          rw [List.pairwise_append]
          refine ⟨hh.hincr, List.pairwise_singleton _ _, ?_⟩
          intro a ha b hb
          simp only [List.mem_singleton] at hb
          rw [hb]
          have := hh.hbefore c hcur a ha
          show a.start < c
          omega
        hfreshE := by intro h; cases h
        hshape := by
          intro e he
          simp only [List.mem_append, List.mem_singleton] at he
          rcases he with he | he
          · exact emOk_mono s _ e (hh.hshape e he) rfl rfl (List.prefix_refl _)
          · rw [he]
            refine ⟨rfl, rfl, hg.halign c hcur, ?_, s.acc, List.prefix_refl _, hrows⟩
            intro hnil; apply hne; simp only at hnil; rw [hnil]; rfl
        hcover := by
          intro p hp k hk hpk hin hlt
          have hk' := hlt (c + s.slide) rfl
          have hkc := lattice_lt_succ k c s.slide hsl hk (hg.halign c hcur) hk'
          rcases Int.lt_or_le k c with hlt' | hge'
          · obtain ⟨e, he, h1, h2⟩ := hh.hcover p hp k hk hpk hin
              (by intro c0 hc0; rw [hcur] at hc0; cases hc0; exact hlt')
            exact ⟨e, List.mem_append_left _ he, h1, h2⟩
          · have hkeq : k = c := by omega
            subst hkeq
            exact ⟨_, List.mem_append_right _ (List.mem_singleton.mpr rfl), rfl, hstill p hp hin⟩ }

theorem goodH_iter (s : SW) (es : List Emission) (hg : Good s) (hh : GoodH s es) :
    GoodH (stepIter s).1 (es ++ (stepIter s).2) := by
  unfold stepIter
  split
  · rename_i w c htr hcur
    split
    · rename_i hw; exact goodH_fireOrSkip s c w es hg hh hcur htr hw
    · rw [List.append_nil]
      exact
        { hbefore := hh.hbefore, hincr := hh.hincr, hfreshE := hh.hfreshE
          hshape := fun e he => emOk_mono s _ e (hh.hshape e he) rfl rfl (List.prefix_refl _)
          hcover := hh.hcover }
  · rw [List.append_nil]
    exact
      { hbefore := hh.hbefore, hincr := hh.hincr, hfreshE := hh.hfreshE
        hshape := fun e he => emOk_mono s _ e (hh.hshape e he) rfl rfl (List.prefix_refl _)
        hcover := hh.hcover }
  · rw [List.append_nil]; exact hh

theorem goodH_step (s : SW) (op : Op) (es : List Emission) (hg : Good s) (hh : GoodH s es)
    (hok : OpOk op) : GoodH (step s op).1 (es ++ (step s op).2) := by
  cases op with
  | add r now => simpa [step] using goodH_add s r now es hg hh hok
  | addNoTs => simpa [step] using hh
  | tick idle now =>
    simp only [step, List.append_nil]
    exact
      { hbefore := hh.hbefore, hincr := hh.hincr, hfreshE := hh.hfreshE
        hshape := fun e he => emOk_mono s _ e (hh.hshape e he) rfl rfl (List.prefix_refl _)
        hcover := hh.hcover }
  | pop =>
    simp only [step, List.append_nil]
    unfold stepPop
    split
    · exact
        { hbefore := hh.hbefore, hincr := hh.hincr, hfreshE := hh.hfreshE
          hshape := fun e he => emOk_mono s _ e (hh.hshape e he) rfl rfl (List.prefix_refl _)
          hcover := hh.hcover }
    · exact hh
  | iter => exact goodH_iter s es hg hh

theorem goodH_run (s : SW) (ops : List Op) (es : List Emission) (hg : Good s) (hh : GoodH s es)
    (hok : ∀ op ∈ ops, OpOk op) : GoodH (run s ops).1 (es ++ (run s ops).2) := by
  induction ops generalizing s es with
  | nil => simpa [run] using hh
  | cons op ops ih =>
    simp only [run]
    have hok1 := hok op (by simp)
    have := ih (step s op).1 (es ++ (step s op).2) (good_step s op hg hok1)
      (goodH_step s op es hg hh hok1) (fun o ho => hok o (by simp [ho]))
    rwa [List.append_assoc] at this

theorem step_size (s : SW) (op : Op) : (step s op).1.size = s.size ∧ (step s op).1.slide = s.slide := by
  cases op with
  | add r now => exact ⟨rfl, rfl⟩
  | addNoTs => exact ⟨rfl, rfl⟩
  | tick idle now => exact ⟨rfl, rfl⟩
  | pop => simp only [step, stepPop]; split <;> exact ⟨rfl, rfl⟩
  | iter =>
    simp only [step, stepIter]
    split
    · split
      · unfold fireOrSkip; split <;> exact ⟨rfl, rfl⟩
      · exact ⟨rfl, rfl⟩
    · exact ⟨rfl, rfl⟩
    · exact ⟨rfl, rfl⟩

theorem run_size (s : SW) (ops : List Op) : (run s ops).1.size = s.size ∧ (run s ops).1.slide = s.slide := by
  induction ops generalizing s with
  | nil => exact ⟨rfl, rfl⟩
  | cons op ops ih =>
    simp only [run]
    have := ih (step s op).1
    have h2 := step_size s op
    exact ⟨by rw [this.1, h2.1], by rw [this.2, h2.2]⟩

end Sliding
