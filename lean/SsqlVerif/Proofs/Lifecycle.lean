/-
Helper lemmas for C18 (lifecycle protocol): reachability, the accounting of the lifecycle
counter and of the sink read lock, the shape of Stop.  Core Lean only.
-/
import SsqlVerif.Model.Lifecycle
set_option autoImplicit false
set_option linter.unusedVariables false
set_option linter.unusedSimpArgs false

namespace Lifecycle

structure Params where
  nworkers : Nat
  ncallers : Nat
  nstops   : Nat
  asyncs   : List Kind
  syncs    : List Kind

inductive Reach (c : Cfg) (p : Params) : State → Prop where
  | init : Reach c p (init c p.nworkers p.ncallers p.nstops p.asyncs p.syncs)
  | step {s s' : State} (t : Tid) (w : Wit) : Reach c p s → step c s t w = some s' → Reach c p s'

theorem run_reach (c : Cfg) (p : Params) (sched : List (Tid × Wit)) :
    ∀ s, Reach c p s → Reach c p (run c s sched) := by
  induction sched with
  | nil => intro s h; exact h
  | cons x rest ih =>
    intro s h
    obtain ⟨t, w⟩ := x
    simp only [run]
    cases hs : step c s t w with
    | none => exact ih s h
    | some s' => exact ih s' (Reach.step t w h hs)

def b2n (b : Bool) : Nat := if b then 1 else 0

/-- the thread is inside `callSinksAsync` with `sinksMux.RLock` held -/
def heldOf : Act → Bool
  | .submit _ _ _ h => h
  | .body _ _ _ _ h => h
  | .wantW _ _ _ h => h
  | _ => false

def aliveCount (s : State) : Nat :=
  b2n s.eng.alive + s.workers.countP (·.alive) + s.callers.countP (·.joined)

def heldCount (s : State) : Nat :=
  b2n (heldOf s.eng.act) + s.workers.countP (fun t => heldOf t.act) + s.callers.countP (fun t => heldOf t.act)

/-- a tracked goroutine that is gone does nothing; EmitSync calls are counted iff guarded -/
structure ThreadsOk (c : Cfg) (s : State) : Prop where
  eng : s.eng.joined = false ∧ (s.eng.alive = false → s.eng.act = .idle)
  workers : ∀ t ∈ s.workers, t.joined = false ∧ (t.alive = false → t.act = .idle)
  callers : ∀ t ∈ s.callers, t.alive = false ∧ (t.joined = true ↔ (c.syncGuard = true ∧ t.act ≠ .idle))

structure StopsOk (s : State) : Prop where
  /-- a Stop call past the join saw the counter at zero, and it stays there -/
  joined : ∀ (k : Nat) (pc : SPC), s.stops[k]? = some pc → pastJoin pc = true → s.life = 0
  teardown : ∀ (k : Nat) (pc : SPC), s.stops[k]? = some pc → inTeardown pc = true → s.stopped = true
  one : s.stops.countP (fun pc => inTeardown pc) ≤ 1
  none : s.stopped = false → s.stops.countP (fun pc => inTeardown pc) = 0
  returned : s.stopReturned = true → ∃ k : Nat, s.stops[k]? = some .sRet
  nil : ∀ (k : Nat) (pc : SPC), s.stops[k]? = some pc → (pc = .sNil ∨ pc = .sWait ∨ pc = .sJoined ∨ pc = .sRet) → s.chanNil = true

structure LInv (c : Cfg) (s : State) : Prop where
  life : s.life = aliveCount s
  rd : s.rd = heldCount s
  th : ThreadsOk c s
  st : StopsOk s
  copy : c.copySinks = true → heldCount s = 0

/-! ### list bookkeeping -/

theorem countP_set {α : Type} (p : α → Bool) (l : List α) (i : Nat) (a b : α) (h : l[i]? = some a) :
    (l.set i b).countP p + b2n (p a) = l.countP p + b2n (p b) := by
  induction l generalizing i with
  | nil => simp at h
  | cons x xs ih =>
    cases i with
    | zero =>
      simp at h; subst h
      simp [List.countP_cons, b2n]
      cases p x <;> cases p b <;> simp <;> omega
    | succ k =>
      simp at h
      have := ih k h
      simp [List.countP_cons] at this ⊢
      omega

theorem mem_set {α : Type} (l : List α) (i : Nat) (b x : α) (h : x ∈ l.set i b) : x = b ∨ x ∈ l := by
  induction l generalizing i with
  | nil => simp at h
  | cons y ys ih =>
    cases i with
    | zero => simp at h; rcases h with h | h; exact Or.inl h; exact Or.inr (by simp [h])
    | succ k =>
      simp at h
      rcases h with h | h
      · exact Or.inr (by simp [h])
      · rcases ih k h with h' | h'
        · exact Or.inl h'
        · exact Or.inr (by simp [h'])

/-! ### one dispatch step -/

theorem heldOf_nextAct (b : Nat) (as ss : List Kind) (h : Bool) :
    heldOf (nextAct b as ss h) = (h && !(nextAct b as ss h == .idle)) := by
  unfold nextAct
  cases as with
  | cons a as' => cases h <;> simp [heldOf]
  | nil =>
    cases ss with
    | cons k ss' => cases h <;> simp [heldOf]
    | nil => cases h <;> simp [heldOf]

theorem rdAfter_spec (rd : Nat) (h : Bool) (a : Act) (hpos : h = true → 1 ≤ rd) :
    rdAfter rd h a + b2n h = rd + b2n (h && !(a == .idle)) := by
  unfold rdAfter b2n
  cases h with
  | false => simp
  | true =>
    have := hpos rfl
    cases hi : (a == .idle) with
    | true => simp [hi]; omega
    | false => simp [hi]

/-- what one dispatch step does to the shared parts -/
theorem actStep_spec (c : Cfg) (s : State) (a a' : Act) (sh : Shared) (h : actStep c s a = some (a', sh))
    (hpos : heldOf a = true → 1 ≤ s.rd) :
    sh.rd + b2n (heldOf a) = s.rd + b2n (heldOf a') ∧
    (c.copySinks = true → heldOf a = false → heldOf a' = false) ∧
    (sh.log = s.log ∨ ∃ b, sh.log = s.log ++ [{ batch := b, afterStop := s.stopReturned }]) ∧
    a ≠ .idle := by
  cases a with
  | idle => simp [actStep] at h
  | call b =>
    simp only [actStep] at h
    split at h
    · simp at h; obtain ⟨rfl, rfl⟩ := h
      simp [heldOf, b2n]
    · rename_i hne
      split at h
      · rename_i hc
        simp at h; obtain ⟨rfl, rfl⟩ := h
        rw [heldOf_nextAct]
        simp [heldOf, b2n]
      · rename_i hc
        simp at h; obtain ⟨rfl, rfl⟩ := h
        rw [heldOf_nextAct]
        have hni : (nextAct b s.asyncSinks s.syncSinks true == Act.idle) = false := by
          unfold nextAct
          cases ha : s.asyncSinks with
          | cons x xs => simp
          | nil =>
            cases hs : s.syncSinks with
            | cons y ys => simp
            | nil => simp [ha, hs] at hne
        simp [heldOf, b2n, hni, hc]
  | submit b as ss held =>
    simp only [actStep] at h
    split at h
    · simp at h
    · rename_i k as'
      split at h
      · simp at h; obtain ⟨rfl, rfl⟩ := h
        rw [heldOf_nextAct]
        refine ⟨?_, ?_, Or.inl rfl, by simp⟩
        · simpa [heldOf] using rdAfter_spec s.rd held (nextAct b as' ss held) (by simpa [heldOf] using hpos)
        · intro _ hh; simp [heldOf] at hh; simp [hh]
      · split at h
        · simp at h; obtain ⟨rfl, rfl⟩ := h
          rw [heldOf_nextAct]
          refine ⟨?_, ?_, Or.inl rfl, by simp⟩
          · simpa [heldOf] using rdAfter_spec s.rd held (nextAct b as' ss held) (by simpa [heldOf] using hpos)
          · intro _ hh; simp [heldOf] at hh; simp [hh]
        · simp at h; obtain ⟨rfl, rfl⟩ := h
          simp [heldOf]
  | body b k as ss held =>
    simp only [actStep] at h
    split at h
    · simp at h; obtain ⟨rfl, rfl⟩ := h
      refine ⟨by simp [heldOf], by intro _ hh; simpa [heldOf] using hh, Or.inr ⟨b, rfl⟩, by simp⟩
    · simp at h; obtain ⟨rfl, rfl⟩ := h
      rw [heldOf_nextAct]
      refine ⟨?_, ?_, Or.inr ⟨b, rfl⟩, by simp⟩
      · simpa [heldOf] using rdAfter_spec s.rd held (nextAct b as ss held) (by simpa [heldOf] using hpos)
      · intro _ hh; simp [heldOf] at hh; simp [hh]
  | wantW b as ss held =>
    simp only [actStep] at h
    split at h
    · simp at h; obtain ⟨rfl, rfl⟩ := h
      rw [heldOf_nextAct]
      refine ⟨?_, ?_, Or.inl rfl, by simp⟩
      · simpa [heldOf] using rdAfter_spec s.rd held (nextAct b as ss held) (by simpa [heldOf] using hpos)
      · intro _ hh; simp [heldOf] at hh; simp [hh]
    · simp at h

end Lifecycle

namespace Lifecycle

/-- no sink invocation is logged after the tearing-down Stop returned -/
def Quiet (s : State) : Prop := ∀ e ∈ s.log, e.afterStop = false

theorem b2n_le (b : Bool) : b2n b ≤ 1 := by cases b <;> simp [b2n]

theorem heldOf_pos_rd (c : Cfg) (s : State) (h : LInv c s) (n : Nat) (hn : n ≤ heldCount s) (hp : 1 ≤ n) : 1 ≤ s.rd := by
  rw [h.rd]; omega

theorem countP_pos_of_mem {α : Type} (p : α → Bool) (l : List α) (x : α) (hx : x ∈ l) (hp : p x = true) :
    1 ≤ l.countP p := List.countP_pos_iff.mpr ⟨x, hx, hp⟩

/-- while some tracked thread is busy no Stop call is past the join, hence none has returned -/
theorem not_returned_of_alive (c : Cfg) (s : State) (h : LInv c s) (hpos : 1 ≤ aliveCount s) :
    s.stopReturned = false := by
  cases hr : s.stopReturned with
  | false => rfl
  | true =>
    obtain ⟨k, hk⟩ := h.st.returned hr
    have := h.st.joined k .sRet hk rfl
    rw [h.life] at this
    omega

/-- states that differ only in data the invariants do not read -/
theorem linv_data (c : Cfg) (s s' : State) (h : LInv c s) (h1 : s'.life = s.life) (h2 : s'.rd = s.rd)
    (h3 : s'.eng = s.eng) (h4 : s'.workers = s.workers) (h5 : s'.callers = s.callers) (h6 : s'.stops = s.stops)
    (h7 : s'.stopped = s.stopped) (h8 : s'.stopReturned = s.stopReturned) (h9 : s'.chanNil = s.chanNil) : LInv c s' := by
  refine ⟨?_, ?_, ?_, ?_, ?_⟩
  · simp [aliveCount, h1, h3, h4, h5]; exact h.life
  · simp [heldCount, h2, h3, h4, h5]; exact h.rd
  · exact ⟨by rw [h3]; exact h.th.eng, by rw [h4]; exact h.th.workers, by rw [h5]; exact h.th.callers⟩
  · exact ⟨by rw [h6, h1]; exact h.st.joined, by rw [h6, h7]; exact h.st.teardown, by rw [h6]; exact h.st.one,
      by rw [h6, h7]; exact h.st.none, by rw [h6, h8]; exact h.st.returned, by rw [h6, h9]; exact h.st.nil⟩
  · intro hc; have := h.copy hc; unfold heldCount at *; rw [h3, h4, h5]; exact this

theorem quiet_log (s s' : State) (hq : Quiet s) (hl : s'.log = s.log ∨ ∃ b, s'.log = s.log ++ [{ batch := b, afterStop := s.stopReturned }])
    (hr : s'.log ≠ s.log → s.stopReturned = false) : Quiet s' := by
  intro e he
  rcases hl with hl | ⟨b, hl⟩
  · rw [hl] at he; exact hq e he
  · rw [hl] at he
    rcases List.mem_append.mp he with h1 | h1
    · exact hq e h1
    · simp at h1; subst h1
      exact hr (by rw [hl]; simp)

def hW (s : State) : Nat := s.workers.countP (fun t => heldOf t.act)
def hC (s : State) : Nat := s.callers.countP (fun t => heldOf t.act)
def aW (s : State) : Nat := s.workers.countP (·.alive)
def aC (s : State) : Nat := s.callers.countP (·.joined)

theorem heldCount_eq (s : State) : heldCount s = b2n (heldOf s.eng.act) + hW s + hC s := rfl
theorem aliveCount_eq (s : State) : aliveCount s = b2n s.eng.alive + aW s + aC s := rfl
theorem b2n_idle : b2n (heldOf Act.idle) = 0 := rfl
theorem b2n_true : b2n true = 1 := rfl
theorem b2n_false : b2n false = 0 := rfl

/-! ### the data processor -/

theorem linv_eng (c : Cfg) (s s' : State) (w : Wit) (h : LInv c s) (hs : stepEng c s w = some s') :
    LInv c s' ∧ (Quiet s → Quiet s') := by
  unfold stepEng at hs
  split at hs
  · simp at hs
  · rename_i halive
    simp at halive
    have hlife1 : 1 ≤ aliveCount s := by rw [aliveCount_eq, halive, b2n_true]; omega
    have hst : StopsOk s := h.st
    split at hs
    · -- idle
      rename_i hidle
      cases w with
      | data =>
        simp only at hs
        split at hs
        · simp at hs
        · rename_i r rest hb
          split at hs
          · simp at hs; subst hs
            exact ⟨linv_data c s _ h rfl rfl rfl rfl rfl rfl rfl rfl rfl, fun q => q⟩
          · simp at hs; subst hs
            refine ⟨⟨h.life, ?_, ?_, ⟨hst.joined, hst.teardown, hst.one, hst.none, hst.returned, hst.nil⟩, ?_⟩, fun q => q⟩
            · have := h.rd; rw [heldCount_eq, hidle] at this; rw [heldCount_eq]; exact this
            · exact ⟨⟨h.th.eng.1, by intro ha; simp [halive] at ha⟩, h.th.workers, h.th.callers⟩
            · intro hc; have := h.copy hc; rw [heldCount_eq, hidle] at this; rw [heldCount_eq]; exact this
      | done =>
        simp only at hs
        split at hs
        · simp at hs; subst hs
          refine ⟨⟨?_, h.rd, ?_, ?_, h.copy⟩, fun q => q⟩
          · have := h.life; rw [aliveCount_eq, halive, b2n_true] at this
            show s.life - 1 = b2n false + aW s + aC s
            rw [b2n_false]; omega
          · exact ⟨⟨h.th.eng.1, fun _ => hidle⟩, h.th.workers, h.th.callers⟩
          · refine ⟨?_, hst.teardown, hst.one, hst.none, hst.returned, hst.nil⟩
            intro k pc hk hp
            have := hst.joined k pc hk hp
            show s.life - 1 = 0
            omega
        · simp at hs
      | tick => simp at hs; subst hs; exact ⟨h, fun q => q⟩
    · -- inside the dispatch
      rename_i a hne
      split at hs
      · rename_i a' sh hact
        have hheld : heldOf s.eng.act = true → 1 ≤ s.rd := by
          intro hh; rw [h.rd, heldCount_eq, hh, b2n_true]; omega
        obtain ⟨e1, e2, e3, e4⟩ := actStep_spec c s s.eng.act a' sh hact hheld
        have hret : s.stopReturned = false := not_returned_of_alive c s h hlife1
        have hrd := h.rd
        rw [heldCount_eq] at hrd
        split at hs
        · -- the loop ends: nil data channel
          rename_i hend
          simp at hs; subst hs
          simp at hend
          have ha' : a' = .idle := hend.1
          subst ha'
          rw [b2n_idle] at e1
          refine ⟨⟨?_, ?_, ?_, ?_, ?_⟩, ?_⟩
          · have := h.life; rw [aliveCount_eq, halive, b2n_true] at this
            show s.life - 1 = b2n false + aW s + aC s
            rw [b2n_false]; omega
          · show sh.rd = b2n (heldOf Act.idle) + hW s + hC s
            rw [b2n_idle]; omega
          · exact ⟨⟨h.th.eng.1, fun _ => rfl⟩, h.th.workers, h.th.callers⟩
          · refine ⟨?_, hst.teardown, hst.one, hst.none, hst.returned, hst.nil⟩
            intro k pc hk hp
            have := hst.joined k pc hk hp
            show s.life - 1 = 0
            omega
          · intro hc
            have := h.copy hc
            rw [heldCount_eq] at this
            show b2n (heldOf Act.idle) + hW s + hC s = 0
            rw [b2n_idle]; omega
          · intro q
            exact quiet_log s _ q (by simpa [withShared] using e3) (fun _ => hret)
        · simp at hs; subst hs
          refine ⟨⟨h.life, ?_, ?_, ⟨hst.joined, hst.teardown, hst.one, hst.none, hst.returned, hst.nil⟩, ?_⟩, ?_⟩
          · show sh.rd = b2n (heldOf a') + hW s + hC s
            omega
          · exact ⟨⟨h.th.eng.1, by intro ha; simp [halive] at ha⟩, h.th.workers, h.th.callers⟩
          · intro hc
            have h0 := h.copy hc
            rw [heldCount_eq] at h0
            have hf : heldOf s.eng.act = false := by
              cases hh : heldOf s.eng.act with
              | false => rfl
              | true => rw [hh, b2n_true] at h0; omega
            have := e2 hc hf
            show b2n (heldOf a') + hW s + hC s = 0
            rw [this, b2n_false]; rw [hf, b2n_false] at h0; exact h0
          · intro q
            exact quiet_log s _ q (by simpa [withShared] using e3) (fun _ => hret)
      · simp at hs

end Lifecycle

namespace Lifecycle

theorem gset_ne {α : Type} (l : List α) (i j : Nat) (a : α) (h : j ≠ i) : (l.set i a)[j]? = l[j]? := by
  rw [List.getElem?_set]; simp [Ne.symm h]

theorem gset_self {α : Type} (l : List α) (i : Nat) (a b : α) (h : l[i]? = some b) : (l.set i a)[i]? = some a := by
  rw [List.getElem?_set]
  have : i < l.length := by
    rcases Nat.lt_or_ge i l.length with h1 | h1
    · exact h1
    · rw [List.getElem?_eq_none h1] at h; simp at h
  simp [this]

/-! ### a sink worker -/

theorem linv_worker (c : Cfg) (s s' : State) (j : Nat) (w : Wit) (h : LInv c s) (hs : stepWorker c s j w = some s') :
    LInv c s' ∧ (Quiet s → Quiet s') := by
  unfold stepWorker at hs
  split at hs
  · simp at hs
  · rename_i t ht
    have hst : StopsOk s := h.st
    have hmem : t ∈ s.workers := List.mem_of_getElem? ht
    have hjoin : t.joined = false := (h.th.workers t hmem).1
    split at hs
    · simp at hs
    · rename_i halive
      simp at halive
      have haW : 1 ≤ aW s := countP_pos_of_mem (fun (x : Thread) => x.alive) s.workers t hmem halive
      have hlife1 : 1 ≤ aliveCount s := by rw [aliveCount_eq]; omega
      have hret : s.stopReturned = false := not_returned_of_alive c s h hlife1
      have hta : b2n t.alive = 1 := by rw [halive]; rfl
      -- the generic update of worker `j`
      have upd : ∀ (t' : Thread), t'.joined = false →
          ((∀ x ∈ s.workers.set j t', x.joined = false ∧ (x.alive = false → x.act = .idle)) ↔ (t'.alive = false → t'.act = .idle)) := by
        intro t' hj'
        constructor
        · intro hx
          exact (hx t' (List.mem_of_getElem? (gset_self s.workers j t' t ht))).2
        · intro ht' x hx
          rcases mem_set s.workers j t' x hx with rfl | hx'
          · exact ⟨hj', ht'⟩
          · exact h.th.workers x hx'
      split at hs
      · -- idle
        rename_i hidle
        have hhw : heldOf t.act = false := by rw [hidle]; rfl
        cases w with
        | done =>
          simp only at hs
          split at hs
          · simp at hs; subst hs
            have hc1 := countP_set (·.alive) s.workers j t { t with alive := false } ht
            have hc2 := countP_set (fun x => heldOf x.act) s.workers j t { t with alive := false } ht
            dsimp only at hc1 hc2
            simp only [b2n_true, b2n_false, hhw] at hc1 hc2
            refine ⟨⟨?_, ?_, ?_, ?_, ?_⟩, fun q => q⟩
            · have := h.life; rw [aliveCount_eq] at this
              show s.life - 1 = b2n s.eng.alive + (s.workers.set j { t with alive := false }).countP (·.alive) + aC s
              unfold aW at this haW; omega
            · have := h.rd; rw [heldCount_eq] at this
              show s.rd = b2n (heldOf s.eng.act) + (s.workers.set j { t with alive := false }).countP (fun x => heldOf x.act) + hC s
              unfold hW at this; omega
            · exact ⟨h.th.eng, (upd { t with alive := false } hjoin).mpr (fun _ => hidle), h.th.callers⟩
            · refine ⟨?_, hst.teardown, hst.one, hst.none, hst.returned, hst.nil⟩
              intro k pc hk hp
              have := hst.joined k pc hk hp
              show s.life - 1 = 0
              omega
            · intro hc
              have := h.copy hc; rw [heldCount_eq] at this
              show b2n (heldOf s.eng.act) + (s.workers.set j { t with alive := false }).countP (fun x => heldOf x.act) + hC s = 0
              unfold hW at this; omega
          · simp at hs
        | data =>
          simp only at hs
          split at hs
          · simp at hs
          · rename_i k b rest hq
            simp at hs; subst hs
            have hc1 := countP_set (·.alive) s.workers j t { t with act := .body b k [] [] false } ht
            have hc2 := countP_set (fun x => heldOf x.act) s.workers j t { t with act := .body b k [] [] false } ht
            have hb : heldOf (Act.body b k [] [] false) = false := rfl
            dsimp only at hc1 hc2
            simp only [b2n_true, b2n_false, hhw, hb] at hc1 hc2
            refine ⟨⟨?_, ?_, ?_, ⟨hst.joined, hst.teardown, hst.one, hst.none, hst.returned, hst.nil⟩, ?_⟩, fun q => q⟩
            · have := h.life; rw [aliveCount_eq] at this
              show s.life = b2n s.eng.alive + (s.workers.set j { t with act := .body b k [] [] false }).countP (·.alive) + aC s
              unfold aW at this; omega
            · have := h.rd; rw [heldCount_eq] at this
              show s.rd = b2n (heldOf s.eng.act) + (s.workers.set j { t with act := .body b k [] [] false }).countP (fun x => heldOf x.act) + hC s
              unfold hW at this; omega
            · exact ⟨h.th.eng, (upd { t with act := .body b k [] [] false } hjoin).mpr (by intro ha; simp [halive] at ha), h.th.callers⟩
            · intro hc
              have := h.copy hc; rw [heldCount_eq] at this
              show b2n (heldOf s.eng.act) + (s.workers.set j { t with act := .body b k [] [] false }).countP (fun x => heldOf x.act) + hC s = 0
              unfold hW at this; omega
        | tick =>
          simp only at hs
          split at hs
          · simp at hs
          · rename_i k b rest hq
            simp at hs; subst hs
            have hc1 := countP_set (·.alive) s.workers j t { t with act := .body b k [] [] false } ht
            have hc2 := countP_set (fun x => heldOf x.act) s.workers j t { t with act := .body b k [] [] false } ht
            have hb : heldOf (Act.body b k [] [] false) = false := rfl
            dsimp only at hc1 hc2
            simp only [b2n_true, b2n_false, hhw, hb] at hc1 hc2
            refine ⟨⟨?_, ?_, ?_, ⟨hst.joined, hst.teardown, hst.one, hst.none, hst.returned, hst.nil⟩, ?_⟩, fun q => q⟩
            · have := h.life; rw [aliveCount_eq] at this
              show s.life = b2n s.eng.alive + (s.workers.set j { t with act := .body b k [] [] false }).countP (·.alive) + aC s
              unfold aW at this; omega
            · have := h.rd; rw [heldCount_eq] at this
              show s.rd = b2n (heldOf s.eng.act) + (s.workers.set j { t with act := .body b k [] [] false }).countP (fun x => heldOf x.act) + hC s
              unfold hW at this; omega
            · exact ⟨h.th.eng, (upd { t with act := .body b k [] [] false } hjoin).mpr (by intro ha; simp [halive] at ha), h.th.callers⟩
            · intro hc
              have := h.copy hc; rw [heldCount_eq] at this
              show b2n (heldOf s.eng.act) + (s.workers.set j { t with act := .body b k [] [] false }).countP (fun x => heldOf x.act) + hC s = 0
              unfold hW at this; omega
      · -- inside a task
        rename_i a hne
        split at hs
        · rename_i a' sh hact
          have hrd := h.rd
          rw [heldCount_eq] at hrd
          have hheld : heldOf t.act = true → 1 ≤ s.rd := by
            intro hh
            have := countP_pos_of_mem (fun x => heldOf x.act) s.workers t hmem hh
            unfold hW at hrd; omega
          obtain ⟨e1, e2, e3, e4⟩ := actStep_spec c s t.act a' sh hact hheld
          simp at hs; subst hs
          have hc1 := countP_set (·.alive) s.workers j t { t with act := a' } ht
          have hc2 := countP_set (fun x => heldOf x.act) s.workers j t { t with act := a' } ht
          dsimp only at hc1 hc2
          refine ⟨⟨?_, ?_, ?_, ⟨hst.joined, hst.teardown, hst.one, hst.none, hst.returned, hst.nil⟩, ?_⟩, ?_⟩
          · have := h.life; rw [aliveCount_eq] at this
            show s.life = b2n s.eng.alive + (s.workers.set j { t with act := a' }).countP (·.alive) + aC s
            unfold aW at this; omega
          · show sh.rd = b2n (heldOf s.eng.act) + (s.workers.set j { t with act := a' }).countP (fun x => heldOf x.act) + hC s
            unfold hW at hrd; omega
          · exact ⟨h.th.eng, (upd { t with act := a' } hjoin).mpr (by intro ha; simp [halive] at ha), h.th.callers⟩
          · intro hc
            have h0 := h.copy hc; rw [heldCount_eq] at h0
            have hf : heldOf t.act = false := by
              cases hh : heldOf t.act with
              | false => rfl
              | true =>
                have := countP_pos_of_mem (fun x => heldOf x.act) s.workers t hmem hh
                unfold hW at h0; omega
            have hf' := e2 hc hf
            show b2n (heldOf s.eng.act) + (s.workers.set j { t with act := a' }).countP (fun x => heldOf x.act) + hC s = 0
            simp only [hf, hf', b2n_false] at hc2
            unfold hW at h0; omega
          · intro q
            exact quiet_log s _ q (by simpa [withShared] using e3) (fun _ => hret)
        · simp at hs

end Lifecycle

namespace Lifecycle

/-! ### an EmitSync caller -/

theorem linv_caller (c : Cfg) (s s' : State) (i : Nat) (h : LInv c s) (hs : stepCaller c s i = some s') :
    LInv c s' ∧ (c.syncGuard = true → Quiet s → Quiet s') := by
  unfold stepCaller at hs
  split at hs
  · simp at hs
  · rename_i t ht
    have hst : StopsOk s := h.st
    have hmem : t ∈ s.callers := List.mem_of_getElem? ht
    obtain ⟨hal, hjn⟩ := h.th.callers t hmem
    have upd : ∀ (t' : Thread), t'.alive = false → (t'.joined = true ↔ (c.syncGuard = true ∧ t'.act ≠ .idle)) →
        ∀ x ∈ s.callers.set i t', x.alive = false ∧ (x.joined = true ↔ (c.syncGuard = true ∧ x.act ≠ .idle)) := by
      intro t' h1 h2 x hx
      rcases mem_set s.callers i t' x hx with rfl | hx'
      · exact ⟨h1, h2⟩
      · exact h.th.callers x hx'
    split at hs
    · -- a new call
      rename_i hidle
      have hnj : t.joined = false := by
        cases hj : t.joined with
        | false => rfl
        | true => exact absurd hidle (hjn.mp hj).2
      have hhw : heldOf t.act = false := by rw [hidle]; rfl
      split at hs
      · rename_i hsg
        split at hs
        · -- refused
          simp at hs; subst hs
          exact ⟨linv_data c s _ h rfl rfl rfl rfl rfl rfl rfl rfl rfl, fun _ q => q⟩
        · rename_i hnst
          simp at hnst
          simp at hs; subst hs
          have hc1 := countP_set (·.joined) s.callers i t { t with act := .call s.nextId, joined := true } ht
          have hc2 := countP_set (fun x => heldOf x.act) s.callers i t { t with act := .call s.nextId, joined := true } ht
          have hb : heldOf (Act.call s.nextId) = false := rfl
          dsimp only at hc1 hc2
          simp only [b2n_true, b2n_false, hhw, hb, hnj] at hc1 hc2
          have hnone := hst.none hnst
          refine ⟨⟨?_, ?_, ?_, ?_, ?_⟩, fun _ q => q⟩
          · have := h.life; rw [aliveCount_eq] at this
            show s.life + 1 = b2n s.eng.alive + aW s + (s.callers.set i { t with act := .call s.nextId, joined := true }).countP (·.joined)
            unfold aC at this; omega
          · have := h.rd; rw [heldCount_eq] at this
            show s.rd = b2n (heldOf s.eng.act) + hW s + (s.callers.set i { t with act := .call s.nextId, joined := true }).countP (fun x => heldOf x.act)
            unfold hC at this; omega
          · exact ⟨h.th.eng, h.th.workers, upd _ hal (by simp [hsg])⟩
          · refine ⟨?_, hst.teardown, hst.one, hst.none, hst.returned, hst.nil⟩
            intro k pc hk hp
            -- not stopped: nobody is in the teardown
            have hin : inTeardown pc = true := by cases pc <;> simp [pastJoin, inTeardown] at hp ⊢
            have := hst.teardown k pc hk hin
            rw [hnst] at this; simp at this
          · intro hc
            have := h.copy hc; rw [heldCount_eq] at this
            show b2n (heldOf s.eng.act) + hW s + (s.callers.set i { t with act := .call s.nextId, joined := true }).countP (fun x => heldOf x.act) = 0
            unfold hC at this; omega
      · rename_i hsg
        simp at hs; subst hs
        have hc1 := countP_set (·.joined) s.callers i t { t with act := .call s.nextId } ht
        have hc2 := countP_set (fun x => heldOf x.act) s.callers i t { t with act := .call s.nextId } ht
        have hb : heldOf (Act.call s.nextId) = false := rfl
        dsimp only at hc1 hc2
        simp only [hhw, hb] at hc2
        refine ⟨⟨?_, ?_, ?_, ⟨hst.joined, hst.teardown, hst.one, hst.none, hst.returned, hst.nil⟩, ?_⟩, fun hg => absurd hg hsg⟩
        · have := h.life; rw [aliveCount_eq] at this
          show s.life = b2n s.eng.alive + aW s + (s.callers.set i { t with act := .call s.nextId }).countP (·.joined)
          unfold aC at this; omega
        · have := h.rd; rw [heldCount_eq] at this
          show s.rd = b2n (heldOf s.eng.act) + hW s + (s.callers.set i { t with act := .call s.nextId }).countP (fun x => heldOf x.act)
          unfold hC at this; omega
        · refine ⟨h.th.eng, h.th.workers, upd _ hal ?_⟩
          simp [hnj, hsg]
        · intro hc
          have := h.copy hc; rw [heldCount_eq] at this
          show b2n (heldOf s.eng.act) + hW s + (s.callers.set i { t with act := .call s.nextId }).countP (fun x => heldOf x.act) = 0
          unfold hC at this; omega
    · -- inside the dispatch
      rename_i a hne
      split at hs
      · rename_i a' sh hact
        have hrd := h.rd
        rw [heldCount_eq] at hrd
        have hheld : heldOf t.act = true → 1 ≤ s.rd := by
          intro hh
          have := countP_pos_of_mem (fun x => heldOf x.act) s.callers t hmem hh
          unfold hC at hrd; omega
        obtain ⟨e1, e2, e3, e4⟩ := actStep_spec c s t.act a' sh hact hheld
        -- a guarded call in progress is counted, so no Stop has returned
        have hretG : c.syncGuard = true → s.stopReturned = false := by
          intro hg
          have hj : t.joined = true := hjn.mpr ⟨hg, e4⟩
          have := countP_pos_of_mem (fun (x : Thread) => x.joined) s.callers t hmem hj
          apply not_returned_of_alive c s h
          rw [aliveCount_eq]; unfold aC; omega
        have copyFact : c.copySinks = true → heldOf t.act = false ∧ heldOf a' = false := by
          intro hc
          have h0 := h.copy hc; rw [heldCount_eq] at h0
          have hf : heldOf t.act = false := by
            cases hh : heldOf t.act with
            | false => rfl
            | true =>
              have := countP_pos_of_mem (fun x => heldOf x.act) s.callers t hmem hh
              unfold hC at h0; omega
          exact ⟨hf, e2 hc hf⟩
        split at hs
        · -- the call returns: the lifecycle count is given back
          rename_i hend
          simp at hend
          obtain ⟨ha', hj⟩ := hend
          subst ha'
          simp at hs; subst hs
          have hc1 := countP_set (·.joined) s.callers i t { t with act := .idle, joined := false } ht
          have hc2 := countP_set (fun x => heldOf x.act) s.callers i t { t with act := .idle, joined := false } ht
          dsimp only at hc1 hc2
          simp only [hj, b2n_true, b2n_false, b2n_idle] at hc1 hc2
          rw [b2n_idle] at e1
          have hjpos := countP_pos_of_mem (fun (x : Thread) => x.joined) s.callers t hmem hj
          refine ⟨⟨?_, ?_, ?_, ?_, ?_⟩, ?_⟩
          · have := h.life; rw [aliveCount_eq] at this
            show s.life - 1 = b2n s.eng.alive + aW s + (s.callers.set i { t with act := .idle, joined := false }).countP (·.joined)
            unfold aC at this; omega
          · show sh.rd = b2n (heldOf s.eng.act) + hW s + (s.callers.set i { t with act := .idle, joined := false }).countP (fun x => heldOf x.act)
            unfold hC at hrd; omega
          · exact ⟨h.th.eng, h.th.workers, upd _ hal (by simp)⟩
          · refine ⟨?_, hst.teardown, hst.one, hst.none, hst.returned, hst.nil⟩
            intro k pc hk hp
            have := hst.joined k pc hk hp
            show s.life - 1 = 0
            omega
          · intro hc
            have h0 := h.copy hc; rw [heldCount_eq] at h0
            obtain ⟨hf, _⟩ := copyFact hc
            show b2n (heldOf s.eng.act) + hW s + (s.callers.set i { t with act := .idle, joined := false }).countP (fun x => heldOf x.act) = 0
            simp only [hf, b2n_false] at hc2
            unfold hC at h0; omega
          · intro hg q
            exact quiet_log s _ q (by simpa [withShared] using e3) (fun _ => hretG hg)
        · rename_i hend
          simp at hs; subst hs
          have hc1 := countP_set (·.joined) s.callers i t { t with act := a' } ht
          have hc2 := countP_set (fun x => heldOf x.act) s.callers i t { t with act := a' } ht
          dsimp only at hc1 hc2
          refine ⟨⟨?_, ?_, ?_, ⟨hst.joined, hst.teardown, hst.one, hst.none, hst.returned, hst.nil⟩, ?_⟩, ?_⟩
          · have := h.life; rw [aliveCount_eq] at this
            show s.life = b2n s.eng.alive + aW s + (s.callers.set i { t with act := a' }).countP (·.joined)
            unfold aC at this; omega
          · show sh.rd = b2n (heldOf s.eng.act) + hW s + (s.callers.set i { t with act := a' }).countP (fun x => heldOf x.act)
            unfold hC at hrd; omega
          · refine ⟨h.th.eng, h.th.workers, upd _ hal ?_⟩
            -- joined is unchanged; if the call ended it was not joined
            simp at hend
            constructor
            · intro hj
              have := hjn.mp hj
              refine ⟨this.1, ?_⟩
              intro ha'
              exact absurd hj (by simpa using hend ha')
            · intro ⟨hg, _⟩
              exact hjn.mpr ⟨hg, e4⟩
          · intro hc
            have h0 := h.copy hc; rw [heldCount_eq] at h0
            obtain ⟨hf, hf'⟩ := copyFact hc
            show b2n (heldOf s.eng.act) + hW s + (s.callers.set i { t with act := a' }).countP (fun x => heldOf x.act) = 0
            simp only [hf, hf', b2n_false] at hc2
            unfold hC at h0; omega
          · intro hg q
            exact quiet_log s _ q (by simpa [withShared] using e3) (fun _ => hretG hg)
      · simp at hs

end Lifecycle

namespace Lifecycle

/-! ### Stop -/

theorem countP_set_eq {α : Type} (p : α → Bool) (l : List α) (i : Nat) (a b : α) (h : l[i]? = some a) (hp : p b = p a) :
    (l.set i b).countP p = l.countP p := by
  have := countP_set p l i a b h
  rw [hp] at this; omega

theorem linv_stop (c : Cfg) (s s' : State) (k : Nat) (h : LInv c s) (hs : stepStop s k = some s') :
    LInv c s' ∧ (Quiet s → Quiet s') := by
  unfold stepStop at hs
  split at hs
  · simp at hs
  · rename_i pc hk
    have hst : StopsOk s := h.st
    -- the generic update of Stop call `k`
    have stepTo : ∀ (pc' : SPC) (s1 : State),
        s1.life = s.life → s1.rd = s.rd → s1.eng = s.eng → s1.workers = s.workers → s1.callers = s.callers →
        s1.stops = s.stops.set k pc' → s1.stopped = s.stopped → s1.stopReturned = s.stopReturned →
        (s.chanNil = true → s1.chanNil = true) →
        inTeardown pc' = inTeardown pc →
        (pastJoin pc' = true → s.life = 0) →
        ((pc' = .sNil ∨ pc' = .sWait ∨ pc' = .sJoined ∨ pc' = .sRet) → s1.chanNil = true) →
        (pc = .sRet → pc' = .sRet) →
        LInv c s1 := by
      intro pc' s1 h1 h2 h3 h4 h5 h6 h7 h8 h9 hin hpj hnil hret
      refine ⟨?_, ?_, ?_, ?_, ?_⟩
      · rw [aliveCount_eq]; unfold aW aC; rw [h1, h3, h4, h5]; exact h.life
      · rw [heldCount_eq]; unfold hW hC; rw [h2, h3, h4, h5]; exact h.rd
      · exact ⟨by rw [h3]; exact h.th.eng, by rw [h4]; exact h.th.workers, by rw [h5]; exact h.th.callers⟩
      · refine ⟨?_, ?_, ?_, ?_, ?_, ?_⟩
        · intro j q hj hq
          rw [h6] at hj; rw [h1]
          by_cases hjk : j = k
          · subst hjk; rw [gset_self _ _ _ _ hk] at hj; simp at hj; subst hj; exact hpj hq
          · rw [gset_ne _ _ _ _ hjk] at hj; exact hst.joined j q hj hq
        · intro j q hj hq
          rw [h6] at hj; rw [h7]
          by_cases hjk : j = k
          · subst hjk; rw [gset_self _ _ _ _ hk] at hj; simp at hj; subst hj
            rw [hin] at hq; exact hst.teardown j pc hk hq
          · rw [gset_ne _ _ _ _ hjk] at hj; exact hst.teardown j q hj hq
        · rw [h6, countP_set_eq (fun pc => inTeardown pc) s.stops k pc pc' hk hin]; exact hst.one
        · rw [h6, h7, countP_set_eq (fun pc => inTeardown pc) s.stops k pc pc' hk hin]; exact hst.none
        · rw [h8, h6]
          intro hr
          obtain ⟨j, hj⟩ := hst.returned hr
          by_cases hjk : j = k
          · subst hjk
            rw [hk] at hj; simp at hj
            exact ⟨j, by rw [gset_self _ _ _ _ hk, hret hj]⟩
          · exact ⟨j, by rw [gset_ne _ _ _ _ hjk]; exact hj⟩
        · intro j q hj hq
          rw [h6] at hj
          by_cases hjk : j = k
          · subst hjk; rw [gset_self _ _ _ _ hk] at hj; simp at hj; subst hj; exact hnil hq
          · rw [gset_ne _ _ _ _ hjk] at hj; exact h9 (hst.nil j q hj hq)
      · intro hc
        have := h.copy hc
        rw [heldCount_eq] at this ⊢; unfold hW hC at *; rw [h3, h4, h5]; exact this
    have quietSame : ∀ (s1 : State), s1.log = s.log → Quiet s → Quiet s1 := by
      intro s1 hl q e he; rw [hl] at he; exact q e he
    cases pc with
    | sIdle =>
      simp only at hs
      split at hs
      · rename_i hstp
        simp at hs; subst hs
        exact ⟨stepTo .sNoop _ rfl rfl rfl rfl rfl rfl rfl rfl id rfl (by simp [pastJoin]) (by simp) (by simp), quietSame _ rfl⟩
      · rename_i hstp
        simp at hstp
        simp at hs; subst hs
        -- the one call that performs the teardown
        have hnone := hst.none hstp
        have hc1 := countP_set (fun pc => inTeardown pc) s.stops k .sIdle .sFlag hk
        have e1 : inTeardown SPC.sIdle = false := rfl
        have e2 : inTeardown SPC.sFlag = true := rfl
        simp only [e1, e2, b2n_true, b2n_false] at hc1
        refine ⟨⟨?_, ?_, ?_, ?_, ?_⟩, quietSame _ rfl⟩
        · exact h.life
        · exact h.rd
        · exact ⟨h.th.eng, h.th.workers, h.th.callers⟩
        · refine ⟨?_, ?_, ?_, ?_, ?_, ?_⟩
          · intro j q hj hq
            show s.life = 0
            by_cases hjk : j = k
            · subst hjk; rw [gset_self _ _ _ _ hk] at hj; simp at hj; subst hj; simp [pastJoin] at hq
            · rw [gset_ne _ _ _ _ hjk] at hj
              have hin : inTeardown q = true := by cases q <;> simp [pastJoin, inTeardown] at hq ⊢
              have := hst.teardown j q hj hin
              rw [hstp] at this; simp at this
          · intro _ _ _ _; rfl
          · show (s.stops.set k .sFlag).countP (fun pc => inTeardown pc) ≤ 1
            omega
          · intro hx; simp at hx
          · intro hr
            have hr' : s.stopReturned = true := hr
            obtain ⟨j, hj⟩ := hst.returned hr'
            have := hst.teardown j .sRet hj rfl
            rw [hstp] at this; simp at this
          · intro j q hj hq
            show s.chanNil = true
            by_cases hjk : j = k
            · subst hjk; rw [gset_self _ _ _ _ hk] at hj; simp at hj; subst hj; simp at hq
            · rw [gset_ne _ _ _ _ hjk] at hj; exact hst.nil j q hj hq
        · exact h.copy
    | sFlag =>
      simp at hs; subst hs
      exact ⟨stepTo .sDone _ rfl rfl rfl rfl rfl rfl rfl rfl id rfl (by simp [pastJoin]) (by simp) (by simp), quietSame _ rfl⟩
    | sDone =>
      simp only at hs
      split at hs
      · simp at hs
      · simp at hs; subst hs
        exact ⟨stepTo .sNil _ rfl rfl rfl rfl rfl rfl rfl rfl (fun _ => rfl) rfl (by simp [pastJoin]) (fun _ => rfl) (by simp), quietSame _ rfl⟩
    | sNil =>
      simp at hs; subst hs
      have hn := hst.nil k .sNil hk (Or.inl rfl)
      exact ⟨stepTo .sWait _ rfl rfl rfl rfl rfl rfl rfl rfl id rfl (by simp [pastJoin]) (fun _ => hn) (by simp), quietSame _ rfl⟩
    | sWait =>
      simp only at hs
      split at hs
      · rename_i hl
        simp at hs; subst hs
        have hn := hst.nil k .sWait hk (Or.inr (Or.inl rfl))
        exact ⟨stepTo .sJoined _ rfl rfl rfl rfl rfl rfl rfl rfl id rfl (fun _ => hl) (fun _ => hn) (by simp), quietSame _ rfl⟩
      · simp at hs
    | sJoined =>
      simp at hs; subst hs
      have hn := hst.nil k .sJoined hk (Or.inr (Or.inr (Or.inl rfl)))
      have hl := hst.joined k .sJoined hk rfl
      -- `stopReturned` becomes true: the witness is this very call
      have base := stepTo .sRet { s with stops := s.stops.set k .sRet } rfl rfl rfl rfl rfl rfl rfl rfl id rfl (fun _ => hl) (fun _ => hn) (by simp)
      refine ⟨⟨base.life, base.rd, ⟨base.th.eng, base.th.workers, base.th.callers⟩, ?_, base.copy⟩, quietSame _ rfl⟩
      exact ⟨base.st.joined, base.st.teardown, base.st.one, base.st.none,
        fun _ => ⟨k, gset_self _ _ _ _ hk⟩, base.st.nil⟩
    | sRet => simp at hs
    | sNoop => simp at hs

/-! ### Emit, AddSink, the whole step -/

theorem linv_step (c : Cfg) (s s' : State) (t : Tid) (w : Wit) (h : LInv c s) (hs : step c s t w = some s') :
    LInv c s' ∧ (c.syncGuard = true → Quiet s → Quiet s') := by
  cases t with
  | emit p =>
    simp only [step, stepEmit] at hs
    split at hs <;> (simp at hs; subst hs; exact ⟨linv_data c s _ h rfl rfl rfl rfl rfl rfl rfl rfl rfl, fun _ q => q⟩)
  | addSink =>
    simp only [step, stepAddSink] at hs
    split at hs
    · simp at hs; subst hs; exact ⟨linv_data c s _ h rfl rfl rfl rfl rfl rfl rfl rfl rfl, fun _ q => q⟩
    · simp at hs
  | eng => have := linv_eng c s s' w h hs; exact ⟨this.1, fun _ => this.2⟩
  | worker j => have := linv_worker c s s' j w h hs; exact ⟨this.1, fun _ => this.2⟩
  | caller i => exact linv_caller c s s' i h hs
  | stop k => have := linv_stop c s s' k h hs; exact ⟨this.1, fun _ => this.2⟩

theorem countP_replicate_false {α : Type} (p : α → Bool) (n : Nat) (a : α) (h : p a = false) :
    (List.replicate n a).countP p = 0 := by
  induction n with
  | zero => rfl
  | succ n ih => simp [List.replicate_succ, List.countP_cons, h, ih]

theorem countP_replicate_true {α : Type} (p : α → Bool) (n : Nat) (a : α) (h : p a = true) :
    (List.replicate n a).countP p = n := by
  induction n with
  | zero => rfl
  | succ n ih => simp [List.replicate_succ, List.countP_cons, h, ih]

theorem linv_init (c : Cfg) (p : Params) : LInv c (init c p.nworkers p.ncallers p.nstops p.asyncs p.syncs) ∧
    Quiet (init c p.nworkers p.ncallers p.nstops p.asyncs p.syncs) := by
  have stopsIdle : ∀ (k : Nat) (pc : SPC), (List.replicate p.nstops SPC.sIdle)[k]? = some pc → pc = .sIdle := by
    intro k pc hk
    exact (List.mem_replicate.mp (List.mem_of_getElem? hk)).2
  refine ⟨⟨?_, ?_, ?_, ?_, ?_⟩, ?_⟩
  · rw [aliveCount_eq]; unfold aW aC
    simp only [init]
    rw [countP_replicate_true _ _ _ rfl, countP_replicate_false _ _ _ rfl]
    simp only [b2n_true]; omega
  · rw [heldCount_eq]; unfold hW hC
    simp only [init]
    rw [countP_replicate_false _ _ _ rfl, countP_replicate_false _ _ _ rfl]
    rfl
  · refine ⟨⟨rfl, by intro h; simp [init] at h⟩, ?_, ?_⟩
    · intro t ht
      have := (List.mem_replicate.mp ht).2
      subst this; exact ⟨rfl, by intro h; simp at h⟩
    · intro t ht
      have := (List.mem_replicate.mp ht).2
      subst this; simp
  · refine ⟨?_, ?_, ?_, ?_, ?_, ?_⟩
    · intro k pc hk hp
      have := stopsIdle k pc hk; subst this; simp [pastJoin] at hp
    · intro k pc hk hp
      have := stopsIdle k pc hk; subst this; simp [inTeardown] at hp
    · simp only [init]; rw [countP_replicate_false _ _ _ rfl]; omega
    · intro _; simp only [init]; rw [countP_replicate_false _ _ _ rfl]
    · intro h; simp [init] at h
    · intro k pc hk hp
      have := stopsIdle k pc hk; subst this; simp at hp
  · intro _
    rw [heldCount_eq]; unfold hW hC
    simp only [init]
    rw [countP_replicate_false _ _ _ rfl, countP_replicate_false _ _ _ rfl]
    rfl
  · intro e he; simp [init] at he

theorem linv_reach (c : Cfg) (p : Params) (s : State) (h : Reach c p s) :
    LInv c s ∧ (c.syncGuard = true → Quiet s) := by
  induction h with
  | init => exact ⟨(linv_init c p).1, fun _ => (linv_init c p).2⟩
  | step t w _ hs ih =>
    have := linv_step c _ _ t w ih.1 hs
    exact ⟨this.1, fun hg => this.2 hg (ih.2 hg)⟩

end Lifecycle
