/-
C06 — helper lemmas: the hand-written evaluator agrees with the SQL reference on the
sort-correct fragment.  Property theorems are in `Props/C06.lean`.
-/
import SsqlVerif.Model.ExprShape
set_option autoImplicit false

namespace Ex
open NumOps

/-- the four facts about `==` on the float images of FALSE and TRUE (Go: `0.0`, `1.0`) -/
class Num01 (ν : Type) [NumOps ν] : Prop where
  eq11 : NumOps.eq (ofNat 1 : ν) (ofNat 1) = true
  eq00 : NumOps.eq (ofNat 0 : ν) (ofNat 0) = true
  eq10 : NumOps.eq (ofNat 1 : ν) (ofNat 0) = false
  eq01 : NumOps.eq (ofNat 0 : ν) (ofNat 1) = false

section
variable {ν : Type} [NumOps ν]

def Value.isTrue : Value ν → Bool
  | .bool true => true
  | _ => false

/-- a truth value: TRUE, FALSE or UNKNOWN -/
def isTruth : Value ν → Bool
  | .null => true
  | .bool _ => true
  | _ => false

/-- how a result of the evaluator relates to the SQL value: the very value (NULL flagged as NULL),
or — for an UNKNOWN condition — FALSE -/
def agrees (v : Value ν) (r : Res ν) : Prop :=
  r = valueRes v ∨ (v = .null ∧ r = .val (.bool false) false)

instance [DecidableEq ν] (v : Value ν) (r : Res ν) : Decidable (agrees v r) := by
  unfold agrees; exact inferInstance

theorem agrees_exact {v : Value ν} {r : Res ν} (h : r = valueRes v) : agrees v r := Or.inl h

/-! ### mode `.v` is mode `.w` (after the repairs) -/

theorem ev_v_eq_w (env : Env ν) (row : Row ν) (e : Expr) : ev env row e .v = ev env row e .w := by
  induction e <;> simp [ev, *]

/-! ### single steps -/

theorem cmpStep_sql [Num01 ν] (env : Env ν) (op : COp) (lv rv v : Value ν)
    (h : sqlCmp op lv rv = .ok v) :
    cmpStep env op (valueRes lv) (valueRes rv) = .val (.bool v.isTrue) false ∧ isTruth v = true := by
  cases lv with
  | null =>
    simp [sqlCmp] at h; subst h
    cases rv <;> simp [cmpStep, valueRes, compareValues, Value.isTrue, isTruth]
  | num x =>
    cases rv with
    | null => simp [sqlCmp] at h; subst h; simp [cmpStep, valueRes, compareValues, Value.isTrue, isTruth]
    | num y =>
      simp [sqlCmp] at h; subst h
      cases hc : numCmp op x y <;> simp [cmpStep, valueRes, compareValues, toFloat, Value.isTrue, isTruth, hc]
    | str t => simp [sqlCmp] at h
    | bool b => simp [sqlCmp] at h
  | str s =>
    cases rv with
    | null => simp [sqlCmp] at h; subst h; simp [cmpStep, valueRes, compareValues, Value.isTrue, isTruth]
    | num y => simp [sqlCmp] at h
    | str t =>
      simp [sqlCmp] at h; subst h
      cases hc : strCmp op s t <;> simp [cmpStep, valueRes, compareValues, Value.isTrue, isTruth, hc]
    | bool b => simp [sqlCmp] at h
  | bool a =>
    cases rv with
    | null => simp [sqlCmp] at h; subst h; simp [cmpStep, valueRes, compareValues, Value.isTrue, isTruth]
    | num y => simp [sqlCmp] at h
    | str t => simp [sqlCmp] at h
    | bool b =>
      cases op <;> simp [sqlCmp] at h <;> subst h <;> cases a <;> cases b <;>
        simp [cmpStep, valueRes, compareValues, toFloat, Value.isTrue, isTruth, numCmp,
          Num01.eq11, Num01.eq00, Num01.eq10, Num01.eq01]

theorem arithStep_sql (env : Env ν) (op : AOp) (lv rv v : Value ν)
    (h : sqlArith op lv rv = .ok v) :
    arithStep env op (valueRes lv) (valueRes rv) = valueRes v := by
  cases lv with
  | null =>
    cases rv <;> simp [sqlArith] at h <;> subst h <;> simp [arithStep, valueRes, Value.isNull]
  | num x =>
    cases rv with
    | null => simp [sqlArith] at h; subst h; simp [arithStep, valueRes, Value.isNull]
    | num y =>
      have h : (if (op = .div && isZero y) = true then SRes.bad .divZero
          else if isNaN (aop op x y) = true then SRes.bad .nan else SRes.ok (.num (aop op x y))) = SRes.ok v := h
      by_cases h1 : (op = .div && isZero y) = true
      · rw [if_pos h1] at h; cases h
      · rw [if_neg h1] at h
        by_cases h2 : isNaN (aop op x y) = true
        · rw [if_pos h2] at h; cases h
        · rw [if_neg h2] at h
          cases h
          simp only [arithStep, valueRes, Value.isNull, toFloat]
          simp [h1, h2]
    | str t => simp [sqlArith] at h
    | bool b => simp [sqlArith] at h
  | str s => cases rv <;> simp [sqlArith] at h
  | bool a => cases rv <;> simp [sqlArith] at h

omit [NumOps ν] in
theorem andStep_sql (lv rv v : Value ν) (h : sqlAnd lv rv = .ok v) :
    andStep (.val (.bool lv.isTrue) false : Res ν) (.val (.bool rv.isTrue) false) = .val (.bool v.isTrue) false
    ∧ isTruth lv = true ∧ isTruth rv = true ∧ isTruth v = true := by
  cases lv with
  | null => cases rv with
    | bool b => cases b <;> simp [sqlAnd] at h <;> subst h <;> simp [andStep, Value.isTrue, isTruth]
    | null => simp [sqlAnd] at h; subst h; simp [andStep, Value.isTrue, isTruth]
    | num _ => simp [sqlAnd] at h
    | str _ => simp [sqlAnd] at h
  | bool a => cases rv with
    | bool b => cases a <;> cases b <;> simp [sqlAnd] at h <;> subst h <;> simp [andStep, Value.isTrue, isTruth]
    | null => cases a <;> simp [sqlAnd] at h <;> subst h <;> simp [andStep, Value.isTrue, isTruth]
    | num _ => cases a <;> simp [sqlAnd] at h
    | str _ => cases a <;> simp [sqlAnd] at h
  | num _ => cases rv <;> simp [sqlAnd] at h
  | str _ => cases rv <;> simp [sqlAnd] at h

omit [NumOps ν] in
theorem orStep_sql (lv rv v : Value ν) (h : sqlOr lv rv = .ok v) :
    orStep (.val (.bool lv.isTrue) false : Res ν) (.val (.bool rv.isTrue) false) = .val (.bool v.isTrue) false
    ∧ isTruth lv = true ∧ isTruth rv = true ∧ isTruth v = true := by
  cases lv with
  | null => cases rv with
    | bool b => cases b <;> simp [sqlOr] at h <;> subst h <;> simp [orStep, Value.isTrue, isTruth]
    | null => simp [sqlOr] at h; subst h; simp [orStep, Value.isTrue, isTruth]
    | num _ => simp [sqlOr] at h
    | str _ => simp [sqlOr] at h
  | bool a => cases rv with
    | bool b => cases a <;> cases b <;> simp [sqlOr] at h <;> subst h <;> simp [orStep, Value.isTrue, isTruth]
    | null => cases a <;> simp [sqlOr] at h <;> subst h <;> simp [orStep, Value.isTrue, isTruth]
    | num _ => cases a <;> simp [sqlOr] at h
    | str _ => cases a <;> simp [sqlOr] at h
  | num _ => cases rv <;> simp [sqlOr] at h
  | str _ => cases rv <;> simp [sqlOr] at h

theorem caseEq_sql [Num01 ν] (env : Env ν) (sv wv cv : Value ν) (h : sqlCmp .eq sv wv = .ok cv) :
    caseEq env sv sv.isNull wv wv.isNull = cv.isTrue := by
  cases sv with
  | null => simp [sqlCmp] at h; subst h; simp [caseEq, Value.isNull, Value.isTrue]
  | num x => cases wv with
    | null => simp [sqlCmp] at h; subst h; simp [caseEq, Value.isNull, Value.isTrue]
    | num y =>
      simp [sqlCmp] at h; subst h
      cases hc : NumOps.eq x y <;> simp [caseEq, Value.isNull, Value.isTrue, toFloat, numCmp, hc]
    | str _ => simp [sqlCmp] at h
    | bool _ => simp [sqlCmp] at h
  | str s => cases wv with
    | null => simp [sqlCmp] at h; subst h; simp [caseEq, Value.isNull, Value.isTrue]
    | num _ => simp [sqlCmp] at h
    | str t =>
      simp [sqlCmp] at h; subst h
      by_cases hc : s = t <;> simp [caseEq, Value.isNull, Value.isTrue, strCmp, hc]
    | bool _ => simp [sqlCmp] at h
  | bool a => cases wv with
    | null => simp [sqlCmp] at h; subst h; simp [caseEq, Value.isNull, Value.isTrue]
    | num _ => simp [sqlCmp] at h
    | str _ => simp [sqlCmp] at h
    | bool b =>
      simp [sqlCmp] at h; subst h
      cases a <;> cases b <;>
        simp [caseEq, Value.isNull, Value.isTrue, toFloat, Num01.eq11, Num01.eq00, Num01.eq10, Num01.eq01]

theorem boolOfRes_valueRes (env : Env ν) (v : Value ν) (h : isTruth v = true) :
    boolOfRes env (valueRes v) = .val (.bool v.isTrue) false := by
  cases v <;> simp [isTruth] at h <;> simp [boolOfRes, valueRes, toBool, Value.isTrue]
  rename_i b; cases b <;> rfl

theorem colRes_eq (row : Row ν) (c : Str) : colRes row c = valueRes ((lookup c row).getD .null) := by
  unfold colRes
  cases lookup c row <;> simp [valueRes, Value.isNull]

theorem agrees_truth (v : Value ν) (h : isTruth v = true) :
    agrees v (.val (.bool v.isTrue) false) := by
  cases v <;> simp [isTruth] at h
  · right; exact ⟨rfl, rfl⟩
  · rename_i b; left; cases b <;> rfl


theorem truthOfRes_valueRes (env : Env ν) (v : Value ν) (h : isTruth v = true) :
    truthOfRes env (valueRes v) = valueRes v := by
  cases v <;> simp [isTruth] at h <;> simp [truthOfRes, valueRes, toBool, Value.isNull]

theorem cmpT_sql [Num01 ν] (env : Env ν) (op : COp) (lv rv v : Value ν)
    (h : sqlCmp op lv rv = .ok v) : cmpT env op (valueRes lv) (valueRes rv) = valueRes v := by
  obtain ⟨hc, _⟩ := cmpStep_sql env op lv rv v h
  cases lv with
  | null => simp [sqlCmp] at h; subst h; simp [cmpT, valueRes, Value.isNull]
  | num x => cases rv with
    | null => simp [sqlCmp] at h; subst h; simp [cmpT, valueRes, Value.isNull]
    | num y => simp [sqlCmp] at h; subst h; simp [cmpT, valueRes, Value.isNull, compareValues, toFloat]
    | str _ => simp [sqlCmp] at h
    | bool _ => simp [sqlCmp] at h
  | str s => cases rv with
    | null => simp [sqlCmp] at h; subst h; simp [cmpT, valueRes, Value.isNull]
    | num _ => simp [sqlCmp] at h
    | str t => simp [sqlCmp] at h; subst h; simp [cmpT, valueRes, Value.isNull, compareValues]
    | bool _ => simp [sqlCmp] at h
  | bool a => cases rv with
    | null => simp [sqlCmp] at h; subst h; simp [cmpT, valueRes, Value.isNull]
    | num _ => simp [sqlCmp] at h
    | str _ => simp [sqlCmp] at h
    | bool b =>
      cases op <;> simp [sqlCmp] at h <;> subst h <;> cases a <;> cases b <;>
        simp [cmpT, valueRes, Value.isNull, compareValues, toFloat, numCmp,
          Num01.eq11, Num01.eq00, Num01.eq10, Num01.eq01]

omit [NumOps ν] in
theorem andT_sql (lv rv v : Value ν) (h : sqlAnd lv rv = .ok v) :
    andT (valueRes lv) (valueRes rv) = valueRes v := by
  cases lv with
  | null => cases rv with
    | bool b => cases b <;> simp [sqlAnd] at h <;> subst h <;> simp [andT, valueRes, Value.isNull]
    | null => simp [sqlAnd] at h; subst h; simp [andT, valueRes, Value.isNull]
    | num _ => simp [sqlAnd] at h
    | str _ => simp [sqlAnd] at h
  | bool a => cases rv with
    | bool b => cases a <;> cases b <;> simp [sqlAnd] at h <;> subst h <;> simp [andT, valueRes, Value.isNull]
    | null => cases a <;> simp [sqlAnd] at h <;> subst h <;> simp [andT, valueRes, Value.isNull]
    | num _ => cases a <;> simp [sqlAnd] at h
    | str _ => cases a <;> simp [sqlAnd] at h
  | num _ => cases rv <;> simp [sqlAnd] at h
  | str _ => cases rv <;> simp [sqlAnd] at h

omit [NumOps ν] in
theorem orT_sql (lv rv v : Value ν) (h : sqlOr lv rv = .ok v) :
    orT (valueRes lv) (valueRes rv) = valueRes v := by
  cases lv with
  | null => cases rv with
    | bool b => cases b <;> simp [sqlOr] at h <;> subst h <;> simp [orT, valueRes, Value.isNull]
    | null => simp [sqlOr] at h; subst h; simp [orT, valueRes, Value.isNull]
    | num _ => simp [sqlOr] at h
    | str _ => simp [sqlOr] at h
  | bool a => cases rv with
    | bool b => cases a <;> cases b <;> simp [sqlOr] at h <;> subst h <;> simp [orT, valueRes, Value.isNull]
    | null => cases a <;> simp [sqlOr] at h <;> subst h <;> simp [orT, valueRes, Value.isNull]
    | num _ => cases a <;> simp [sqlOr] at h
    | str _ => cases a <;> simp [sqlOr] at h
  | num _ => cases rv <;> simp [sqlOr] at h
  | str _ => cases rv <;> simp [sqlOr] at h

omit [NumOps ν] in
theorem not_sql (x v : Value ν) (h : sqlNot x = .ok v) :
    notT (valueRes x) = valueRes v ∧ notB (valueRes x) = .val (.bool v.isTrue) false ∧
      isTruth x = true ∧ isTruth v = true := by
  cases x with
  | null => simp [sqlNot] at h; subst h; simp [notT, notB, valueRes, Value.isNull, Value.isTrue, isTruth]
  | bool b => simp [sqlNot] at h; subst h; cases b <;> simp [notT, notB, valueRes, Value.isNull, Value.isTrue, isTruth]
  | num _ => simp [sqlNot] at h
  | str _ => simp [sqlNot] at h

/-! ### the induction -/

omit [NumOps ν] in
theorem bind2_ok {a b : SRes ν} {f : Value ν → Value ν → SRes ν} {v : Value ν}
    (h : bind2 a b f = .ok v) : ∃ x y, a = .ok x ∧ b = .ok y ∧ f x y = .ok v := by
  cases a <;> cases b <;> simp [bind2] at h
  exact ⟨_, _, rfl, rfl, h⟩

omit [NumOps ν] in
theorem valueRes_ne_err (v : Value ν) : valueRes v ≠ .err := by
  simp [valueRes]

omit [NumOps ν] in
theorem callStep_1 (env : Env ν) (f : Str) (x : Value ν) :
    callStep env f [valueRes x] = match env.fn f [x] with | some v => valueRes v | none => .err := by
  simp [callStep, valueRes]
  split <;> simp_all

omit [NumOps ν] in
theorem callStep_2 (env : Env ν) (f : Str) (x y : Value ν) :
    callStep env f [valueRes x, valueRes y] = match env.fn f [x, y] with | some v => valueRes v | none => .err := by
  simp [callStep, valueRes]
  split <;> simp_all

omit [NumOps ν] in
theorem callStep_3 (env : Env ν) (f : Str) (x y z : Value ν) :
    callStep env f [valueRes x, valueRes y, valueRes z] =
      match env.fn f [x, y, z] with | some v => valueRes v | none => .err := by
  simp [callStep, valueRes]
  split <;> simp_all

omit [NumOps ν] in
theorem sqlCall_ok {env : Env ν} {f : Str} {args : List (Value ν)} {v : Value ν}
    (h : sqlCall env f args = .ok v) : env.fn f args = some v := by
  unfold sqlCall at h
  cases hf : env.fn f args <;> simp [hf] at h
  simp [h]

/-- what the induction establishes for an expression in expression position -/
structure GoodE (env : Env ν) (row : Row ν) (e : Expr) (v : Value ν) : Prop where
  ag : agrees v (ev env row e .w)
  exact : boolTyped e = false → ev env row e .w = valueRes v
  bmode : boolShaped e = true → isTruth v = true → ev env row e .b = .val (.bool v.isTrue) false
  tmode : boolShaped e = true → isTruth v = true → ev env row e .t = valueRes v

def Good (env : Env ν) (row : Row ν) (e : Expr) : Prop :=
  (∀ v, sqlEval env row e .e = .ok v → shapeOK e .e = true → GoodE env row e v)
  ∧ (∀ v, sqlEval env row e .chS = .ok v → shapeOK e .chS = true →
      agrees v (ev env row e .chS) ∧ (boolTyped e = false → ev env row e .chS = valueRes v))
  ∧ (∀ sv v, sqlEval env row e (.chV sv) = .ok v → shapeOK e .chV = true →
      agrees v (ev env row e (.chV sv sv.isNull)) ∧
        (boolTyped e = false → ev env row e (.chV sv sv.isNull) = valueRes v))

theorem goodE_of_exact {env : Env ν} {row : Row ν} {e : Expr} {v : Value ν}
    (h : ev env row e .w = valueRes v)
    (hb : boolShaped e = true → isTruth v = true → ev env row e .b = .val (.bool v.isTrue) false)
    (ht : boolShaped e = true → isTruth v = true → ev env row e .t = valueRes v) :
    GoodE env row e v := ⟨Or.inl h, fun _ => h, hb, ht⟩

theorem good_all [Num01 ν] (env : Env ν) (row : Row ν) : ∀ e, Good env row e := by
  intro e
  induction e with
  | lit l =>
    refine ⟨?_, ?_, ?_⟩
    · intro v h _
      simp [sqlEval] at h; subst h
      exact goodE_of_exact (by simp [ev, valueRes, Value.isNull]) (by simp [boolShaped]) (by simp [boolShaped])
    · intro v _ hs; simp [shapeOK] at hs
    · intro sv v _ hs; simp [shapeOK] at hs
  | str s =>
    refine ⟨?_, ?_, ?_⟩
    · intro v h _
      simp [sqlEval] at h; subst h
      exact goodE_of_exact (by simp [ev, valueRes, Value.isNull]) (by simp [boolShaped]) (by simp [boolShaped])
    · intro v _ hs; simp [shapeOK] at hs
    · intro sv v _ hs; simp [shapeOK] at hs
  | col c =>
    refine ⟨?_, ?_, ?_⟩
    · intro v h _
      simp [sqlEval] at h; subst h
      refine goodE_of_exact (by simp [ev, colRes_eq]) ?_ ?_
      · intro _ ht
        simp only [ev, colRes_eq]
        exact boolOfRes_valueRes env _ ht
      · intro _ ht
        simp only [ev, colRes_eq]
        exact truthOfRes_valueRes env _ ht
    · intro v _ hs; simp [shapeOK] at hs
    · intro sv v _ hs; simp [shapeOK] at hs
  | paren e ih =>
    refine ⟨?_, ?_, ?_⟩
    · intro v h hs
      simp only [sqlEval] at h; simp only [shapeOK] at hs
      have g := ih.1 v h hs
      exact ⟨by simpa [ev] using g.ag, by simpa [ev, boolTyped] using g.exact,
        by simpa [ev, boolShaped] using g.bmode, by simpa [ev, boolShaped] using g.tmode⟩
    · intro v _ hs; simp [shapeOK] at hs
    · intro sv v _ hs; simp [shapeOK] at hs
  | neg e ih =>
    refine ⟨?_, ?_, ?_⟩
    · intro v h hs
      simp only [sqlEval] at h
      obtain ⟨x, y, hx, hy, hf⟩ := bind2_ok h
      cases hx
      simp only [shapeOK, Bool.and_eq_true, Bool.not_eq_true'] at hs
      have g := ih.1 y hy hs.1
      have he := g.exact hs.2
      refine goodE_of_exact ?_ (by simp [boolShaped]) (by simp [boolShaped])
      simp only [ev, he]
      have := arithStep_sql env .sub (.num (ofNat 0)) y v hf
      simpa [valueRes, Value.isNull] using this
    · intro v _ hs; simp [shapeOK] at hs
    · intro sv v _ hs; simp [shapeOK] at hs
  | arith op l r ihl ihr =>
    refine ⟨?_, ?_, ?_⟩
    · intro v h hs
      simp only [sqlEval] at h
      obtain ⟨x, y, hx, hy, hf⟩ := bind2_ok h
      simp only [shapeOK, Bool.and_eq_true, Bool.not_eq_true'] at hs
      have gl := (ihl.1 x hx hs.1.1.1).exact hs.1.2
      have gr := (ihr.1 y hy hs.1.1.2).exact hs.2
      refine goodE_of_exact ?_ (by simp [boolShaped]) (by simp [boolShaped])
      simp only [ev, gl, gr]
      exact arithStep_sql env op x y v hf
    · intro v _ hs; simp [shapeOK] at hs
    · intro sv v _ hs; simp [shapeOK] at hs
  | cmp op l r ihl ihr =>
    refine ⟨?_, ?_, ?_⟩
    · intro v h hs
      simp only [sqlEval] at h
      obtain ⟨x, y, hx, hy, hf⟩ := bind2_ok h
      simp only [shapeOK, Bool.and_eq_true, Bool.not_eq_true'] at hs
      have gl := (ihl.1 x hx hs.1.1.1).exact hs.1.2
      have gr := (ihr.1 y hy hs.1.1.2).exact hs.2
      obtain ⟨hc, ht⟩ := cmpStep_sql env op x y v hf
      have hw : ev env row (.cmp op l r) .w = .val (.bool v.isTrue) false := by
        simp only [ev, ev_v_eq_w, gl, gr]; exact hc
      have hb : ev env row (.cmp op l r) .b = .val (.bool v.isTrue) false := by
        simp only [ev, ev_v_eq_w, gl, gr]; exact hc
      have htm : ev env row (.cmp op l r) .t = valueRes v := by
        simp only [ev, ev_v_eq_w, gl, gr]; exact cmpT_sql env op x y v hf
      exact ⟨by rw [hw]; exact agrees_truth v ht, by simp [boolTyped], fun _ _ => hb, fun _ _ => htm⟩
    · intro v _ hs; simp [shapeOK] at hs
    · intro sv v _ hs; simp [shapeOK] at hs
  | and l r ihl ihr =>
    refine ⟨?_, ?_, ?_⟩
    · intro v h hs
      simp only [sqlEval] at h
      obtain ⟨x, y, hx, hy, hf⟩ := bind2_ok h
      simp only [shapeOK, Bool.and_eq_true] at hs
      obtain ⟨hc, htx, hty, ht⟩ := andStep_sql x y v hf
      have gl := (ihl.1 x hx hs.1.1.1).bmode hs.1.2 htx
      have gr := (ihr.1 y hy hs.1.1.2).bmode hs.2 hty
      have hw : ev env row (.and l r) .w = .val (.bool v.isTrue) false := by
        simp only [ev, gl, gr]; exact hc
      have hb : ev env row (.and l r) .b = .val (.bool v.isTrue) false := by
        simp only [ev, gl, gr]; exact hc
      have glt := (ihl.1 x hx hs.1.1.1).tmode hs.1.2 htx
      have grt := (ihr.1 y hy hs.1.1.2).tmode hs.2 hty
      have htm : ev env row (.and l r) .t = valueRes v := by
        simp only [ev, glt, grt]; exact andT_sql x y v hf
      exact ⟨by rw [hw]; exact agrees_truth v ht, by simp [boolTyped], fun _ _ => hb, fun _ _ => htm⟩
    · intro v _ hs; simp [shapeOK] at hs
    · intro sv v _ hs; simp [shapeOK] at hs
  | or l r ihl ihr =>
    refine ⟨?_, ?_, ?_⟩
    · intro v h hs
      simp only [sqlEval] at h
      obtain ⟨x, y, hx, hy, hf⟩ := bind2_ok h
      simp only [shapeOK, Bool.and_eq_true] at hs
      obtain ⟨hc, htx, hty, ht⟩ := orStep_sql x y v hf
      have gl := (ihl.1 x hx hs.1.1.1).bmode hs.1.2 htx
      have gr := (ihr.1 y hy hs.1.1.2).bmode hs.2 hty
      have hw : ev env row (.or l r) .w = .val (.bool v.isTrue) false := by
        simp only [ev, gl, gr]; exact hc
      have hb : ev env row (.or l r) .b = .val (.bool v.isTrue) false := by
        simp only [ev, gl, gr]; exact hc
      have glt := (ihl.1 x hx hs.1.1.1).tmode hs.1.2 htx
      have grt := (ihr.1 y hy hs.1.1.2).tmode hs.2 hty
      have htm : ev env row (.or l r) .t = valueRes v := by
        simp only [ev, glt, grt]; exact orT_sql x y v hf
      exact ⟨by rw [hw]; exact agrees_truth v ht, by simp [boolTyped], fun _ _ => hb, fun _ _ => htm⟩
    · intro v _ hs; simp [shapeOK] at hs
    · intro sv v _ hs; simp [shapeOK] at hs
  | not e ih =>
    refine ⟨?_, ?_, ?_⟩
    · intro v h hs
      simp only [sqlEval] at h
      simp only [shapeOK, Bool.and_eq_true] at hs
      cases hx : sqlEval env row e .e with
      | bad w => simp [hx] at h
      | ok x =>
        simp only [hx] at h
        obtain ⟨hT, hB, htx, htv⟩ := not_sql x v h
        have gt := (ih.1 x hx hs.1).tmode hs.2 htx
        have hw : ev env row (.not e) .w = .val (.bool v.isTrue) false := by
          simp only [ev, gt]; exact hB
        have hb : ev env row (.not e) .b = .val (.bool v.isTrue) false := by
          simp only [ev, gt]; exact hB
        have htm : ev env row (.not e) .t = valueRes v := by
          simp only [ev, gt]; exact hT
        exact ⟨by rw [hw]; exact agrees_truth v htv, by simp [boolTyped], fun _ _ => hb, fun _ _ => htm⟩
    · intro v _ hs; simp [shapeOK] at hs
    · intro sv v _ hs; simp [shapeOK] at hs
  | caseS ch ih =>
    refine ⟨?_, ?_, ?_⟩
    · intro v h hs
      simp only [sqlEval] at h; simp only [shapeOK] at hs
      obtain ⟨ha, he⟩ := ih.2.1 v h hs
      exact ⟨by simpa [ev] using ha, by simpa [ev, boolTyped] using he, by simp [boolShaped], by simp [boolShaped]⟩
    · intro v _ hs; simp [shapeOK] at hs
    · intro sv v _ hs; simp [shapeOK] at hs
  | caseV sc ch ihs ihc =>
    refine ⟨?_, ?_, ?_⟩
    · intro v h hs
      simp only [sqlEval] at h
      simp only [shapeOK, Bool.and_eq_true, Bool.not_eq_true'] at hs
      cases hsc : sqlEval env row sc .e with
      | bad w => simp [hsc] at h
      | ok sv =>
        simp only [hsc] at h
        have gs := (ihs.1 sv hsc hs.1.1).exact hs.1.2
        obtain ⟨ha, he⟩ := ihc.2.2 sv v h hs.2
        have hw : ev env row (.caseV sc ch) .w = ev env row ch (.chV sv sv.isNull) := by
          simp [ev, gs, valueRes]
        exact ⟨by rw [hw]; exact ha, by rw [hw]; simpa [boolTyped] using he, by simp [boolShaped], by simp [boolShaped]⟩
    · intro v _ hs; simp [shapeOK] at hs
    · intro sv v _ hs; simp [shapeOK] at hs
  | whenL c r rest ihc ihr ihrest =>
    refine ⟨?_, ?_, ?_⟩
    · intro v _ hs; simp [shapeOK] at hs
    · intro v h hs
      simp only [shapeOK, Bool.and_eq_true] at hs
      simp only [sqlEval] at h
      cases hc : sqlEval env row c .e with
      | bad w => simp [hc] at h
      | ok cv =>
        simp only [hc] at h
        have gc := ihc.1 cv hc hs.1.1.1
        cases cv with
        | bool b =>
          have hb := gc.bmode hs.1.1.2 (by simp [isTruth])
          cases b with
          | true =>
            simp only at h
            have gr := ihr.1 v h hs.1.2
            have hw : ev env row (.whenL c r rest) .chS = ev env row r .w := by
              simp [ev, hb, Value.isTrue]
            refine ⟨by rw [hw]; exact gr.ag, ?_⟩
            intro hbt
            simp only [boolTyped, Bool.or_eq_false_iff] at hbt
            rw [hw]; exact gr.exact hbt.1
          | false =>
            simp only at h
            obtain ⟨ha, he⟩ := ihrest.2.1 v h hs.2
            have hw : ev env row (.whenL c r rest) .chS = ev env row rest .chS := by
              simp [ev, hb, Value.isTrue]
            refine ⟨by rw [hw]; exact ha, ?_⟩
            intro hbt
            simp only [boolTyped, Bool.or_eq_false_iff] at hbt
            rw [hw]; exact he hbt.2
        | null =>
          have hb := gc.bmode hs.1.1.2 (by simp [isTruth])
          simp only at h
          obtain ⟨ha, he⟩ := ihrest.2.1 v h hs.2
          have hw : ev env row (.whenL c r rest) .chS = ev env row rest .chS := by
            simp [ev, hb, Value.isTrue]
          refine ⟨by rw [hw]; exact ha, ?_⟩
          intro hbt
          simp only [boolTyped, Bool.or_eq_false_iff] at hbt
          rw [hw]; exact he hbt.2
        | num x => simp at h
        | str s => simp at h
    · intro sv v h hs
      simp only [shapeOK, Bool.and_eq_true, Bool.not_eq_true'] at hs
      simp only [sqlEval] at h
      cases hc : sqlEval env row c .e with
      | bad w => simp [hc] at h
      | ok wv =>
        simp only [hc] at h
        have gc := (ihc.1 wv hc hs.1.1.1).exact hs.1.1.2
        cases hq : sqlCmp .eq sv wv with
        | bad w => simp [hq] at h
        | ok cv =>
          have hce := caseEq_sql env sv wv cv hq
          simp only [hq] at h
          by_cases hcv : cv = .bool true
          · subst hcv
            simp only at h
            have gr := ihr.1 v h hs.1.2
            have hw : ev env row (.whenL c r rest) (.chV sv sv.isNull) = ev env row r .w := by
              simp [ev, gc, valueRes, hce, Value.isTrue]
            refine ⟨by rw [hw]; exact gr.ag, ?_⟩
            intro hbt
            simp only [boolTyped, Bool.or_eq_false_iff] at hbt
            rw [hw]; exact gr.exact hbt.1
          · have hft : cv.isTrue = false := by
              cases cv with
              | bool b => cases b <;> simp_all [Value.isTrue]
              | _ => simp [Value.isTrue]
            have h' : sqlEval env row rest (.chV sv) = .ok v := by
              cases cv with
              | bool b => cases b <;> simp_all
              | _ => simpa using h
            obtain ⟨ha, he⟩ := ihrest.2.2 sv v h' hs.2
            have hw : ev env row (.whenL c r rest) (.chV sv sv.isNull) = ev env row rest (.chV sv sv.isNull) := by
              simp [ev, gc, valueRes, hce, hft]
            refine ⟨by rw [hw]; exact ha, ?_⟩
            intro hbt
            simp only [boolTyped, Bool.or_eq_false_iff] at hbt
            rw [hw]; exact he hbt.2
  | elseL e ih =>
    refine ⟨?_, ?_, ?_⟩
    · intro v _ hs; simp [shapeOK] at hs
    · intro v h hs
      simp only [sqlEval] at h; simp only [shapeOK] at hs
      have g := ih.1 v h hs
      exact ⟨by simpa [ev] using g.ag, by simpa [ev, boolTyped] using g.exact⟩
    · intro sv v h hs
      simp only [sqlEval] at h; simp only [shapeOK] at hs
      have g := ih.1 v h hs
      exact ⟨by simpa [ev] using g.ag, by simpa [ev, boolTyped] using g.exact⟩
  | endL =>
    refine ⟨?_, ?_, ?_⟩
    · intro v _ hs; simp [shapeOK] at hs
    · intro v h _
      simp [sqlEval] at h; subst h
      exact ⟨Or.inl (by simp [ev, valueRes, Value.isNull]), fun _ => by simp [ev, valueRes, Value.isNull]⟩
    · intro sv v h _
      simp [sqlEval] at h; subst h
      exact ⟨Or.inl (by simp [ev, valueRes, Value.isNull]), fun _ => by simp [ev, valueRes, Value.isNull]⟩
  | call1 f a iha =>
    refine ⟨?_, ?_, ?_⟩
    · intro v h hs
      simp only [sqlEval] at h
      simp only [shapeOK, Bool.and_eq_true, Bool.not_eq_true'] at hs
      cases hx : sqlEval env row a .e with
      | bad w => simp [hx] at h
      | ok x =>
        simp only [hx] at h
        have ga := (iha.1 x hx hs.1).exact hs.2
        have hf := sqlCall_ok h
        have hw : ev env row (.call1 f a) .w = valueRes v := by
          simp only [ev, ev_v_eq_w, ga, callStep_1, hf]
        refine goodE_of_exact hw ?_ ?_
        · intro _ ht
          have : ev env row (.call1 f a) .b = boolOfRes env (valueRes v) := by
            simp only [ev, ev_v_eq_w, ga, callStep_1, hf]
          rw [this]; exact boolOfRes_valueRes env v ht
        · intro _ ht
          have : ev env row (.call1 f a) .t = truthOfRes env (valueRes v) := by
            simp only [ev, ev_v_eq_w, ga, callStep_1, hf]
          rw [this]; exact truthOfRes_valueRes env v ht
    · intro v _ hs; simp [shapeOK] at hs
    · intro sv v _ hs; simp [shapeOK] at hs
  | call2 f a b iha ihb =>
    refine ⟨?_, ?_, ?_⟩
    · intro v h hs
      simp only [sqlEval] at h
      simp only [shapeOK, Bool.and_eq_true, Bool.not_eq_true'] at hs
      cases hx : sqlEval env row a .e with
      | bad w => simp [hx] at h
      | ok x =>
        cases hy : sqlEval env row b .e with
        | bad w => simp [hx, hy] at h
        | ok y =>
          simp only [hx, hy] at h
          have ga := (iha.1 x hx hs.1.1.1).exact hs.1.2
          have gb := (ihb.1 y hy hs.1.1.2).exact hs.2
          have hf := sqlCall_ok h
          have hw : ev env row (.call2 f a b) .w = valueRes v := by
            simp only [ev, ev_v_eq_w, ga, gb, callStep_2, hf]
          refine goodE_of_exact hw ?_ ?_
          · intro _ ht
            have : ev env row (.call2 f a b) .b = boolOfRes env (valueRes v) := by
              simp only [ev, ev_v_eq_w, ga, gb, callStep_2, hf]
            rw [this]; exact boolOfRes_valueRes env v ht
          · intro _ ht
            have : ev env row (.call2 f a b) .t = truthOfRes env (valueRes v) := by
              simp only [ev, ev_v_eq_w, ga, gb, callStep_2, hf]
            rw [this]; exact truthOfRes_valueRes env v ht
    · intro v _ hs; simp [shapeOK] at hs
    · intro sv v _ hs; simp [shapeOK] at hs
  | call3 f a b c iha ihb ihc =>
    refine ⟨?_, ?_, ?_⟩
    · intro v h hs
      simp only [sqlEval] at h
      simp only [shapeOK, Bool.and_eq_true, Bool.not_eq_true'] at hs
      cases hx : sqlEval env row a .e with
      | bad w => simp [hx] at h
      | ok x =>
        cases hy : sqlEval env row b .e with
        | bad w => simp [hx, hy] at h
        | ok y =>
          cases hz : sqlEval env row c .e with
          | bad w => simp [hx, hy, hz] at h
          | ok z =>
            simp only [hx, hy, hz] at h
            have ga := (iha.1 x hx hs.1.1.1.1.1).exact hs.1.1.2
            have gb := (ihb.1 y hy hs.1.1.1.1.2).exact hs.1.2
            have gc := (ihc.1 z hz hs.1.1.1.2).exact hs.2
            have hf := sqlCall_ok h
            have hw : ev env row (.call3 f a b c) .w = valueRes v := by
              simp only [ev, ev_v_eq_w, ga, gb, gc, callStep_3, hf]
            refine goodE_of_exact hw ?_ ?_
            · intro _ ht
              have : ev env row (.call3 f a b c) .b = boolOfRes env (valueRes v) := by
                simp only [ev, ev_v_eq_w, ga, gb, gc, callStep_3, hf]
              rw [this]; exact boolOfRes_valueRes env v ht
            · intro _ ht
              have : ev env row (.call3 f a b c) .t = truthOfRes env (valueRes v) := by
                simp only [ev, ev_v_eq_w, ga, gb, gc, callStep_3, hf]
              rw [this]; exact truthOfRes_valueRes env v ht
    · intro v _ hs; simp [shapeOK] at hs
    · intro sv v _ hs; simp [shapeOK] at hs

end
end Ex
