/-
Helper lemmas for C15, completeness direction (greedy mode): the engine explores every run the
rows admit (`Reached`), remembers the longest accepting one per start (`pending`), and emits a
start only when nothing with an earlier or equal start can still grow — so the reported matches
are the leftmost-longest ones and nothing valid is omitted.
Core Lean only.
-/
import SsqlVerif.Proofs.CepRun
import SsqlVerif.Proofs.CepClosure
set_option autoImplicit false
set_option linter.unusedVariables false
set_option linter.unusedSimpArgs false
set_option linter.unusedSectionVars false

namespace Cep
open Spec
section
variable {ρ : Type}

/-! ### the runs the rows of a partition admit -/

/-- `Reached c H r`: run `r` is what `advance` produces along the rows of `H` from some start
position, with the WITHIN / row-limit check the engine applies before each further row. -/
inductive Reached (c : Cfg ρ) (H : List ρ) : Run ρ → Prop
  | first {s : Nat} {row : ρ} {r : Run ρ} : 1 ≤ s → H[s - 1]? = some row →
      r ∈ advance c (seedRun c (c.ts row) s) row → Reached c H r
  | next {r r' : Run ρ} {row : ρ} : Reached c H r → H[r.startSeq - 1 + r.hist.length]? = some row →
      live c (c.ts row) r = true → r' ∈ advance c r row → Reached c H r'

theorem lt_of_getElem?_some {α : Type} {l : List α} {i : Nat} {x : α} (h : l[i]? = some x) : i < l.length := by
  by_cases hh : i < l.length
  · exact hh
  · rw [List.getElem?_eq_none (by omega)] at h; cases h

theorem advance_shape {c : Cfg ρ} {r s : Run ρ} {row : ρ} (h : s ∈ advance c r row) :
    s.startSeq = r.startSeq ∧ s.startTs = r.startTs ∧ ∃ a, s.hist = r.hist ++ [(row, a)] := by
  unfold advance at h
  obtain ⟨ao, _, rfl⟩ := List.mem_map.1 h
  exact ⟨rfl, rfl, ao.1, rfl⟩

theorem advance_nonempty_not_complete {c : Cfg ρ} {r s : Run ρ} {row : ρ} (h : s ∈ advance c r row) :
    runComplete c r = false := by
  unfold advance at h
  obtain ⟨ao, hao, _⟩ := List.mem_map.1 h
  unfold takers at hao
  have hm := (List.mem_filter.1 hao).1
  unfold runComplete isComplete
  cases hmo : matchOuts c.tbl r.states with
  | nil => rw [hmo] at hm; cases hm
  | cons x xs => simp

theorem Reached.facts {c : Cfg ρ} {H : List ρ} {r : Run ρ} (h : Reached c H r) :
    1 ≤ r.startSeq ∧ r.hist ≠ [] ∧ r.startSeq - 1 + r.hist.length ≤ H.length := by
  induction h with
  | @first s row r hs hrow hadv =>
    obtain ⟨h1, _, a, h3⟩ := advance_shape hadv
    have hlt : s - 1 < H.length := lt_of_getElem?_some hrow
    simp only [seedRun] at h1 h3
    refine ⟨by omega, by rw [h3]; simp, ?_⟩
    rw [h1, h3]; simp; omega
  | @next r r' row _ hrow _ hadv ih =>
    obtain ⟨h1, _, a, h3⟩ := advance_shape hadv
    have hlt : r.startSeq - 1 + r.hist.length < H.length := lt_of_getElem?_some hrow
    refine ⟨by omega, by rw [h3]; simp, ?_⟩
    rw [h1, h3]; simp; omega

theorem Reached.mono {c : Cfg ρ} {H : List ρ} {r : Run ρ} (h : Reached c H r) (x : List ρ) : Reached c (H ++ x) r := by
  induction h with
  | first hs hrow hadv =>
    refine Reached.first hs ?_ hadv
    rw [List.getElem?_append_left (lt_of_getElem?_some hrow)]; exact hrow
  | next _ hrow hl hadv ih =>
    refine Reached.next ih ?_ hl hadv
    rw [List.getElem?_append_left (lt_of_getElem?_some hrow)]; exact hrow

/-- a run that lies within a prefix of the rows is admitted by the prefix alone -/
theorem Reached.restrict {c : Cfg ρ} {H x : List ρ} {r : Run ρ} (h : Reached c (H ++ x) r)
    (hb : r.startSeq - 1 + r.hist.length ≤ H.length) : Reached c H r := by
  induction h with
  | @first s row r hs hrow hadv =>
    obtain ⟨h1, _, a, h3⟩ := advance_shape hadv
    simp only [seedRun] at h1 h3
    rw [h1, h3] at hb
    simp at hb
    refine Reached.first hs ?_ hadv
    rwa [List.getElem?_append_left (by omega)] at hrow
  | @next r r' row hr hrow hl hadv ih =>
    obtain ⟨h1, _, a, h3⟩ := advance_shape hadv
    rw [h1, h3] at hb
    simp at hb
    refine Reached.next (ih (by omega)) ?_ hl hadv
    rwa [List.getElem?_append_left (by omega)] at hrow

/-- the ancestor of a run at a smaller depth: same start, has a successor, passes the `live` check -/
theorem Reached.ancestor {c : Cfg ρ} {H : List ρ} {r : Run ρ} (h : Reached c H r) :
    ∀ d, 1 ≤ d → d < r.hist.length → ∃ r0, Reached c H r0 ∧ r0.startSeq = r.startSeq ∧ r0.hist.length = d ∧
      runComplete c r0 = false := by
  induction h with
  | @first s row r hs hrow hadv =>
    intro d hd1 hd2
    obtain ⟨_, _, a, h3⟩ := advance_shape hadv
    simp only [seedRun] at h3
    rw [h3] at hd2; simp at hd2; omega
  | @next r r' row hr hrow hl hadv ih =>
    intro d hd1 hd2
    obtain ⟨h1, _, a, h3⟩ := advance_shape hadv
    rw [h3] at hd2
    simp at hd2
    by_cases hd : d = r.hist.length
    · exact ⟨r, hr, h1.symm, hd.symm, advance_nonempty_not_complete hadv⟩
    · obtain ⟨r0, h0, h01, h02, h03⟩ := ih d hd1 (by omega)
      exact ⟨r0, h0, by rw [h01, h1], h02, h03⟩

/-! ### coverage invariants -/

/-- every admitted run that has consumed all rows, can still grow and starts at or after `ns` is live -/
def RCov (c : Cfg ρ) (H : List ρ) (ns : Nat) (surv : List (Run ρ)) : Prop :=
  ∀ r, Reached c H r → Tight H r → ns ≤ r.startSeq → runComplete c r = false → r ∈ surv

/-- every admitted accepting run starting at or after `ns` is dominated by a pending run of its start -/
def PCov (c : Cfg ρ) (H : List ρ) (ns : Nat) (pend : List (Run ρ)) : Prop :=
  ∀ r, Reached c H r → runAccepting c r = true → ns ≤ r.startSeq →
    ∃ y ∈ pend, y.startSeq = r.startSeq ∧ r.hist.length ≤ y.hist.length

/-- what is known about the pending list during an emission loop -/
structure PendOK (H : List ρ) (pend : List (Run ρ)) : Prop where
  uniq : (pend.map (·.startSeq)).Nodup
  ne : ∀ y ∈ pend, y.hist ≠ []
  pos : ∀ y ∈ pend, 1 ≤ y.startSeq
  bound : ∀ y ∈ pend, y.startSeq - 1 + y.hist.length ≤ H.length

theorem PendOK.sub {H : List ρ} {p q : List (Run ρ)} (h : PendOK H q) (hs : p.Sublist q) : PendOK H p :=
  { uniq := nodup_sublist_map hs h.uniq
    ne := fun y hy => h.ne y (hs.subset hy)
    pos := fun y hy => h.pos y (hs.subset hy)
    bound := fun y hy => h.bound y (hs.subset hy) }

/-- a reported match is the right one for the stretch `[ns, skipTo)` it decides, with respect to the
final rows `Hf`: no admitted accepting run starts earlier in the stretch, none from its start is longer -/
def Good (c : Cfg ρ) (Hf : List ρ) (ns : Nat) (m : Match ρ) : Prop :=
  ∀ r, Reached c Hf r → runAccepting c r = true → ns ≤ r.startSeq → r.startSeq < skipToM c m.startSeq m.rows →
    m.startSeq ≤ r.startSeq ∧ (r.startSeq = m.startSeq → r.hist.length ≤ m.rows.length)

inductive GChain (c : Cfg ρ) (Hf : List ρ) : Nat → List (Match ρ) → Nat → Prop
  | nil (ns : Nat) : GChain c Hf ns [] ns
  | cons {ns ns' : Nat} {m : Match ρ} {ms : List (Match ρ)} : Good c Hf ns m → m.rows ≠ [] → ns ≤ m.startSeq →
      GChain c Hf (skipToM c m.startSeq m.rows) ms ns' → GChain c Hf ns (m :: ms) ns'

theorem GChain.append {c : Cfg ρ} {Hf : List ρ} {a b d : Nat} {xs ys : List (Match ρ)}
    (h1 : GChain c Hf a xs b) (h2 : GChain c Hf b ys d) : GChain c Hf a (xs ++ ys) d := by
  induction h1 with
  | nil => simpa using h2
  | cons hg hne hle _ ih => exact GChain.cons hg hne hle (ih h2)

theorem GChain.ns_le {c : Cfg ρ} {Hf : List ρ} {a b : Nat} {xs : List (Match ρ)} (h : GChain c Hf a xs b) : a ≤ b := by
  induction h with
  | nil => exact Nat.le_refl _
  | @cons ns ns' m ms hg hne hle _ ih =>
    have := skipToM_gt c m.startSeq m.rows hne
    omega

/-- every admitted accepting run that starts before the final `nextStart` is decided by a reported match -/
theorem GChain.covers {c : Cfg ρ} {Hf : List ρ} {a b : Nat} {xs : List (Match ρ)} (h : GChain c Hf a xs b) :
    ∀ r, Reached c Hf r → runAccepting c r = true → a ≤ r.startSeq → r.startSeq < b →
      ∃ m ∈ xs, m.startSeq ≤ r.startSeq ∧ r.startSeq < skipToM c m.startSeq m.rows ∧
        (r.startSeq = m.startSeq → r.hist.length ≤ m.rows.length) := by
  induction h with
  | nil => intro r _ _ h1 h2; omega
  | @cons ns ns' m ms hg hne hle hrest ih =>
    intro r hr hacc h1 h2
    by_cases hlt : r.startSeq < skipToM c m.startSeq m.rows
    · obtain ⟨g1, g2⟩ := hg r hr hacc h1 hlt
      exact ⟨m, List.mem_cons_self .., g1, hlt, g2⟩
    · obtain ⟨m', hm', g⟩ := ih r hr hacc (by omega) h2
      exact ⟨m', List.mem_cons_of_mem _ hm', g⟩

theorem minStart_min {ns : Nat} {pend : List (Run ρ)} {b : Run ρ} (h : minStart ns pend = some b) :
    ∀ y ∈ pend, ns ≤ y.startSeq → b.startSeq ≤ y.startSeq := by
  intro y hy hge
  obtain ⟨b', hb', hle⟩ := minStart_le hy hge
  rw [h] at hb'; cases hb'; exact hle

theorem blocked_false {surv : List (Run ρ)} {s : Nat} (h : blocked surv s = false) : ∀ x ∈ surv, s < x.startSeq := by
  intro x hx
  unfold blocked at h
  have := List.any_eq_false.1 h x hx
  simpa using this

/-- the match emitted by one iteration of the loop is `Good` -/
theorem good_of_emit {c : Cfg ρ} {H x : List ρ} {s : ES ρ} {b : Run ρ}
    (hr : x = [] ∨ RCov c H s.nextStart s.surv) (hp : PCov c H s.nextStart s.pending) (hk : PendOK H s.pending)
    (hm : minStart s.nextStart s.pending = some b) (hb : blocked s.surv b.startSeq = false) :
    Good c (H ++ x) s.nextStart (mkMatch s b) := by
  obtain ⟨hbin, hbge⟩ := minStart_mem hm
  intro r hreach hacc hge hlt
  simp only [mkMatch] at hlt ⊢
  obtain ⟨hr1, hrne, hrb⟩ := hreach.facts
  have hbb := hk.bound b hbin
  have hbp := hk.pos b hbin
  have hsk := skipToM_le c b.startSeq b.hist (hk.ne b hbin)
  by_cases hin : r.startSeq - 1 + r.hist.length ≤ H.length
  · -- the run lies within the rows seen so far: it is dominated by a pending run
    obtain ⟨y, hy, hys, hyl⟩ := hp r (hreach.restrict hin) hacc hge
    have hmin := minStart_min hm y hy (by omega)
    refine ⟨by omega, fun he => ?_⟩
    have : y = b := eq_of_nodup_map hk.uniq hy hbin (by omega)
    subst this; exact hyl
  · -- it grows beyond them: its ancestor that has consumed exactly the rows seen so far is live
    rcases hr with hx | hr
    · subst hx; simp at hrb; omega
    have hd : 1 ≤ H.length - r.startSeq + 1 := by omega
    obtain ⟨r0, h0, h01, h02, h03⟩ := hreach.ancestor (H.length - r.startSeq + 1) hd (by omega)
    have h0' : Reached c H r0 := h0.restrict (by omega)
    have hin0 : r0 ∈ s.surv := hr r0 h0' (by unfold Tight; omega) (by omega) h03
    have := blocked_false hb r0 hin0
    exact ⟨by omega, fun he => by omega⟩

theorem RCov.emitOne {c : Cfg ρ} {H : List ρ} {s : ES ρ} {b : Run ρ} (hr : RCov c H s.nextStart s.surv)
    (hle : s.nextStart ≤ skipTo c b) : RCov c H (emitOne c s b).nextStart (emitOne c s b).surv := by
  intro r h1 h2 h3 h4
  have h3' : skipTo c b ≤ r.startSeq := h3
  show r ∈ s.surv.filter (fun x => decide (skipTo c b ≤ x.startSeq))
  exact List.mem_filter.2 ⟨hr r h1 h2 (by omega) h4, by simpa using h3'⟩

theorem PCov.emitOne {c : Cfg ρ} {H : List ρ} {s : ES ρ} {b : Run ρ} (hp : PCov c H s.nextStart s.pending)
    (hle : s.nextStart ≤ skipTo c b) (hgt : b.startSeq < skipTo c b) :
    PCov c H (emitOne c s b).nextStart (emitOne c s b).pending := by
  intro r h1 h2 h3
  have h3' : skipTo c b ≤ r.startSeq := h3
  obtain ⟨y, hy, hys, hyl⟩ := hp r h1 h2 (by omega)
  refine ⟨y, ?_, hys, hyl⟩
  show y ∈ s.pending.filter (fun x => x.startSeq != b.startSeq)
  refine List.mem_filter.2 ⟨hy, ?_⟩
  simp; omega

/-- the emission loop: its output is a `GChain`, and the coverage invariants survive -/
theorem emitGreedy_good (c : Cfg ρ) (H x : List ρ) :
    ∀ (f : Nat) (s : ES ρ), (x = [] ∨ RCov c H s.nextStart s.surv) → PCov c H s.nextStart s.pending → PendOK H s.pending →
      GChain c (H ++ x) s.nextStart (emitGreedy c f s).2 (emitGreedy c f s).1.nextStart ∧
      (x = [] ∨ RCov c H (emitGreedy c f s).1.nextStart (emitGreedy c f s).1.surv) ∧
      PCov c H (emitGreedy c f s).1.nextStart (emitGreedy c f s).1.pending
  | 0, s, hr, hp, hk => ⟨GChain.nil _, hr, hp⟩
  | f+1, s, hr, hp, hk => by
    unfold emitGreedy
    cases hm : minStart s.nextStart s.pending with
    | none => exact ⟨GChain.nil _, hr, hp⟩
    | some b =>
      simp only
      obtain ⟨hbin, hbge⟩ := minStart_mem hm
      cases hb : blocked s.surv b.startSeq with
      | true => simp only [if_true]; exact ⟨GChain.nil _, hr, hp⟩
      | false =>
        simp only [Bool.false_eq_true, if_false, consMatch]
        have hgt : b.startSeq < skipTo c b := by rw [skipTo_eq]; exact skipToM_gt c _ _ (hk.ne b hbin)
        have ih := emitGreedy_good c H x f (emitOne c s b) (hr.imp id (fun h => h.emitOne (by omega))) (hp.emitOne (by omega) hgt)
          (hk.sub (emitOne_sub c s b))
        refine ⟨GChain.cons (good_of_emit hr hp hk hm hb) (hk.ne b hbin) hbge ?_, ih.2.1, ih.2.2⟩
        have := ih.1
        simpa [emitOne, mkMatch, skipTo_eq] using this

/-- with no live run left and enough fuel the loop empties `pending` up to the final `nextStart` -/
theorem emitGreedy_exhaust (c : Cfg ρ) : ∀ (f : Nat) (s : ES ρ), s.surv = [] → s.pending.length < f →
    (∀ y ∈ s.pending, y.hist ≠ []) →
    ∀ y ∈ (emitGreedy c f s).1.pending, y.startSeq < (emitGreedy c f s).1.nextStart
  | 0, s, _, hlen, _ => by omega
  | f+1, s, hsurv, hlen, hne => by
    unfold emitGreedy
    cases hm : minStart s.nextStart s.pending with
    | none =>
      intro y hy
      simp only at hy ⊢
      by_cases hge : s.nextStart ≤ y.startSeq
      · obtain ⟨b, hb, _⟩ := minStart_le hy hge
        rw [hm] at hb; cases hb
      · omega
    | some b =>
      simp only
      obtain ⟨hbin, _⟩ := minStart_mem hm
      have hnb : blocked s.surv b.startSeq = false := by rw [hsurv]; rfl
      rw [hnb]
      simp only [Bool.false_eq_true, if_false, consMatch]
      have hlt : (emitOne c s b).pending.length < s.pending.length := by
        simp only [emitOne]
        exact length_filter_lt _ hbin (by simp)
      exact emitGreedy_exhaust c f (emitOne c s b) (by simp [emitOne, hsurv]) (by omega)
        (fun y hy => hne y (emitOne_pending c s b y hy))

/-! ### one `Process` / `Flush` on a partition -/

structure Cov (c : Cfg ρ) (H : List ρ) (p : Part ρ) : Prop where
  inv : Inv c H p
  rcov : RCov c H p.nextStart p.runs
  pcov : PCov c H p.nextStart p.pending

theorem not_reached_nil {c : Cfg ρ} {r : Run ρ} (h : Reached c ([] : List ρ) r) : False := by
  obtain ⟨_, hne, hb⟩ := h.facts
  have : 0 < r.hist.length := List.length_pos_iff.2 hne
  rw [List.length_nil] at hb; omega

theorem Cov.init (c : Cfg ρ) : Cov c [] ({} : Part ρ) :=
  { inv := Inv.init c
    rcov := fun r h _ _ _ => (not_reached_nil h).elim
    pcov := fun r h _ _ => (not_reached_nil h).elim }

theorem pendOK_of_cand {c : Cfg ρ} {H : List ρ} {pend : List (Run ρ)} (hc : ∀ y ∈ pend, Cand c H y)
    (hu : (pend.map (·.startSeq)).Nodup) : PendOK H pend :=
  { uniq := hu
    ne := fun y hy => (hc y hy).2.1
    pos := fun y hy => (hc y hy).1.start_pos
    bound := fun y hy => (hc y hy).1.bound }

/-- all successors created by one step -/
def allSucc (c : Cfg ρ) (p : Part ρ) (row : ρ) : List (Run ρ) :=
  p.runs.flatMap (fun q => if live c (c.ts row) q then advance c q row else []) ++
    seedSucc c p.nextStart row (c.ts row) (p.seq + 1)

theorem mem_survivorsOf {c : Cfg ρ} {p : Part ρ} {row : ρ} {r : Run ρ} (h : r ∈ allSucc c p row)
    (hc : runComplete c r = false) : r ∈ survivorsOf c p row := by
  unfold allSucc at h
  unfold survivorsOf
  rcases List.mem_append.1 h with h | h
  · obtain ⟨q, hq, hr⟩ := List.mem_flatMap.1 h
    refine List.mem_append_left _ (List.mem_flatMap.2 ⟨q, hq, ?_⟩)
    unfold runSurvivors
    split at hr
    · next hl => rw [if_pos hl]; exact List.mem_filter.2 ⟨hr, by simp [hc]⟩
    · cases hr
  · exact List.mem_append_right _ (List.mem_filter.2 ⟨h, by simp [hc]⟩)

theorem mem_completionsOf {c : Cfg ρ} {p : Part ρ} {row : ρ} {r : Run ρ} (h : r ∈ allSucc c p row)
    (hc : runComplete c r = true) : r ∈ completionsOf c p row := by
  unfold allSucc at h
  unfold completionsOf
  rcases List.mem_append.1 h with h | h
  · obtain ⟨q, hq, hr⟩ := List.mem_flatMap.1 h
    refine List.mem_append_left _ (List.mem_flatMap.2 ⟨q, hq, ?_⟩)
    unfold runCompletions
    split at hr
    · next hl =>
      rw [if_pos hl]
      have hne : (advance c q row).isEmpty = false := by
        cases hadv : advance c q row with
        | nil => rw [hadv] at hr; cases hr
        | cons _ _ => rfl
      rw [hne]
      simp only [Bool.false_eq_true, if_false]
      exact List.mem_filter.2 ⟨hr, hc⟩
    · cases hr
  · exact List.mem_append_right _ (List.mem_filter.2 ⟨h, hc⟩)

/-- an admitted run that ends with the newest row was created by this step -/
theorem new_successor {c : Cfg ρ} {H : List ρ} {p : Part ρ} (h : Cov c H p) (row : ρ) {r : Run ρ}
    (hr : Reached c (H ++ [row]) r) (ht : Tight (H ++ [row]) r) (hge : p.nextStart ≤ r.startSeq) :
    r ∈ allSucc c p row := by
  unfold Tight at ht
  simp only [List.length_append, List.length_singleton] at ht
  unfold allSucc
  cases hr with
  | @first s row' _ hs hrow hadv =>
    obtain ⟨h1, _, a, h3⟩ := advance_shape hadv
    simp only [seedRun] at h1 h3
    rw [h1, h3] at ht
    simp at ht
    have hs' : s = H.length + 1 := by omega
    subst hs'
    have hrow' : row' = row := by
      simp at hrow; exact hrow.symm
    subst hrow'
    refine List.mem_append_right _ ?_
    unfold seedSucc
    rw [h.inv.seq, if_pos (by rw [h1] at hge; exact hge)]
    exact hadv
  | @next q _ row' hq hrow hl hadv =>
    obtain ⟨h1, _, a, h3⟩ := advance_shape hadv
    rw [h1, h3] at ht
    simp at ht
    have hidx : q.startSeq - 1 + q.hist.length = H.length := by omega
    have hrow' : row' = row := by
      rw [hidx] at hrow; simp at hrow; exact hrow.symm
    subst hrow'
    have hq' : Reached c H q := hq.restrict (by omega)
    have hqin : q ∈ p.runs := h.rcov q hq' hidx (by omega) (advance_nonempty_not_complete hadv)
    refine List.mem_append_left _ (List.mem_flatMap.2 ⟨q, hqin, ?_⟩)
    rw [if_pos hl]; exact hadv

theorem emitGreedy_rcov (c : Cfg ρ) (H : List ρ) :
    ∀ (f : Nat) (s : ES ρ), RCov c H s.nextStart s.surv → (∀ y ∈ s.pending, y.hist ≠ []) →
      RCov c H (emitGreedy c f s).1.nextStart (emitGreedy c f s).1.surv
  | 0, s, hr, _ => hr
  | f+1, s, hr, hne => by
    unfold emitGreedy
    cases hm : minStart s.nextStart s.pending with
    | none => exact hr
    | some b =>
      simp only
      obtain ⟨hbin, hbge⟩ := minStart_mem hm
      split
      · exact hr
      · simp only [consMatch]
        have hgt : b.startSeq < skipTo c b := by rw [skipTo_eq]; exact skipToM_gt c _ _ (hne b hbin)
        exact emitGreedy_rcov c H f (emitOne c s b) (hr.emitOne (by omega))
          (fun y hy => hne y (emitOne_pending c s b y hy))

theorem stepPart_cov {c : Cfg ρ} {H : List ρ} {p : Part ρ} (hl : c.lazy = false) (hw : 0 ≤ c.within)
    (h : Cov c H p) (row : ρ) (x : List ρ) :
    Cov c (H ++ [row]) (stepPart c p row).1 ∧
    GChain c (H ++ [row] ++ x) p.nextStart (stepPart c p row).2 (stepPart c p row).1.nextStart := by
  have hinv' := (stepPart_ok hw h.inv row).inv
  have hr0 : RCov c (H ++ [row]) (greedyStart c p row).nextStart (greedyStart c p row).surv := by
    intro r hr ht hge hc
    exact mem_survivorsOf (new_successor h row hr ht hge) hc
  have hp0 : PCov c (H ++ [row]) (greedyStart c p row).nextStart (greedyStart c p row).pending := by
    intro r hr hacc hge
    have hge' : p.nextStart ≤ r.startSeq := hge
    show ∃ y ∈ ingest p.nextStart p.pending
        (completionsOf c p row ++ (survivorsOf c p row).filter (runAccepting c)), _
    by_cases hin : r.startSeq - 1 + r.hist.length ≤ H.length
    · obtain ⟨y, hy, hys, hyl⟩ := h.pcov r (hr.restrict hin) hacc hge'
      obtain ⟨y', hy', hys', hyl'⟩ := ingest_cover (ns := p.nextStart) _ _ h.inv.uniq y (Or.inl hy)
      exact ⟨y', hy', by rw [hys', hys], by omega⟩
    · have ht : Tight (H ++ [row]) r := by
        obtain ⟨_, _, hb⟩ := hr.facts
        unfold Tight
        simp only [List.length_append, List.length_singleton] at hb ⊢
        omega
      have hs := new_successor h row hr ht hge'
      have hmem : r ∈ completionsOf c p row ++ (survivorsOf c p row).filter (runAccepting c) := by
        cases hc : runComplete c r with
        | true => exact List.mem_append_left _ (mem_completionsOf hs hc)
        | false => exact List.mem_append_right _ (List.mem_filter.2 ⟨mem_survivorsOf hs hc, hacc⟩)
      exact ingest_cover (ns := p.nextStart) _ _ h.inv.uniq r (Or.inr ⟨hmem, hge'⟩)
  have hcand := greedyStart_pending hw h.inv row
  have hk0 : PendOK (H ++ [row]) (greedyStart c p row).pending :=
    pendOK_of_cand hcand (by unfold greedyStart; exact ingest_uniq _ _ h.inv.uniq)
  obtain ⟨g, _, hp1⟩ := emitGreedy_good c (H ++ [row]) x ((greedyStart c p row).pending.length + 1)
    (greedyStart c p row) (Or.inr hr0) hp0 hk0
  have hr1 := emitGreedy_rcov c (H ++ [row]) ((greedyStart c p row).pending.length + 1) (greedyStart c p row) hr0 hk0.ne
  have hres : stepPart c p row =
      (partOf (p.seq + 1) (prunePending (emitGreedy c ((greedyStart c p row).pending.length + 1) (greedyStart c p row)).1),
       (emitGreedy c ((greedyStart c p row).pending.length + 1) (greedyStart c p row)).2) := by
    unfold stepPart emitStep; simp [hl]
  rw [hres]
  refine ⟨{ inv := by rw [← hres]; exact hinv', rcov := hr1, pcov := ?_ }, g⟩
  intro r hr hacc hge
  obtain ⟨y, hy, hys, hyl⟩ := hp1 r hr hacc hge
  refine ⟨y, ?_, hys, hyl⟩
  show y ∈ (emitGreedy c _ (greedyStart c p row)).1.pending.filter _
  refine List.mem_filter.2 ⟨hy, ?_⟩
  have hge' : (emitGreedy c ((greedyStart c p row).pending.length + 1) (greedyStart c p row)).1.nextStart ≤ r.startSeq := hge
  simp; omega

/-- `Flush` on a partition: the matches it reports are `Good` for the rows as they are (the stream has
ended), and afterwards no admitted accepting run is left at or after `nextStart` -/
theorem flushPart_cov {c : Cfg ρ} {H : List ρ} {p : Part ρ} (hl : c.lazy = false) (h : Cov c H p) :
    GChain c H p.nextStart (flushPart c p).2 (flushPart c p).1.nextStart ∧
    (∀ r, Reached c H r → runAccepting c r = true → (flushPart c p).1.nextStart ≤ r.startSeq → False) := by
  have hp0 : PCov c H (flushStart c p).nextStart (flushStart c p).pending := by
    intro r hr hacc hge
    have hge' : p.nextStart ≤ r.startSeq := hge
    show ∃ y ∈ ingest p.nextStart p.pending (p.runs.filter (runAccepting c)), _
    obtain ⟨y, hy, hys, hyl⟩ := h.pcov r hr hacc hge'
    obtain ⟨y', hy', hys', hyl'⟩ := ingest_cover (ns := p.nextStart) _ _ h.inv.uniq y (Or.inl hy)
    exact ⟨y', hy', by rw [hys', hys], by omega⟩
  have hcand := flushStart_pending h.inv
  have hk0 : PendOK H (flushStart c p).pending :=
    pendOK_of_cand hcand (by unfold flushStart; exact ingest_uniq _ _ h.inv.uniq)
  obtain ⟨g, _, hp1⟩ := emitGreedy_good c H [] ((flushStart c p).pending.length + 1) (flushStart c p) (Or.inl rfl) hp0 hk0
  have hex := emitGreedy_exhaust c ((flushStart c p).pending.length + 1) (flushStart c p) rfl (Nat.lt_succ_self _) hk0.ne
  have hres : flushPart c p =
      ({ runs := p.runs, pending := (prunePending (emitGreedy c ((flushStart c p).pending.length + 1) (flushStart c p)).1).pending,
         matchNo := (emitGreedy c ((flushStart c p).pending.length + 1) (flushStart c p)).1.matchNo,
         nextStart := (emitGreedy c ((flushStart c p).pending.length + 1) (flushStart c p)).1.nextStart, seq := p.seq },
       (emitGreedy c ((flushStart c p).pending.length + 1) (flushStart c p)).2) := by
    unfold flushPart emitFlush; simp [hl, prunePending]
  rw [hres]
  rw [List.append_nil] at g
  refine ⟨g, ?_⟩
  intro r hr hacc hge
  obtain ⟨y, hy, hys, _⟩ := hp1 r hr hacc hge
  have := hex y hy
  have hge' : (emitGreedy c ((flushStart c p).pending.length + 1) (flushStart c p)).1.nextStart ≤ r.startSeq := hge
  omega

end
end Cep
