/-
Helper lemmas for C07, pipeline part: the stages of `processAggregationResults` on the result
rows of a batch's groups, seen through `visible`, are the relational stages on the spec rows;
the oracle `Spec.valid` accepts the outcome for every pre-sort order of the groups.
Core Lean only.
-/
import SsqlVerif.Proofs.PostAggRow
import SsqlVerif.Proofs.PostAggOrder
set_option autoImplicit false
set_option linter.unusedVariables false
set_option linter.unusedSimpArgs false
set_option linter.unusedSectionVars false

namespace PostAgg
variable {ν : Type} (N : Num ν) [DecidableEq ν]

/-! ### ORDER BY on result rows = ORDER BY on visible rows -/

theorem lessBy_visible (keys : List (Name × Bool)) (a b : Row ν) :
    lessBy N get (keys.map (fun kd => (Key.col kd.1, kd.2))) a b
      = lessBy N lookupIn keys (visible a) (visible b) := by
  induction keys with
  | nil => rfl
  | cons kd ks ih =>
    obtain ⟨k, d⟩ := kd
    simp only [List.map_cons, lessBy, get_col_visible, ih]

theorem rowLess_visible (q : Query ν) (a b : Row ν) :
    rowLess N q a b = Spec.specLess N q (visible a) (visible b) := by
  unfold rowLess Spec.specLess orderKeys
  exact lessBy_visible N q.orderBy a b

theorem applyOrderBy_eq (q : Query ν) (rows : List (Row ν)) :
    applyOrderBy N q rows = sortBy (rowLess N q) rows := by
  unfold applyOrderBy
  by_cases h : (q.orderBy.isEmpty || decide (rows.length < 2)) = true
  · rw [if_pos h]
    simp only [Bool.or_eq_true, decide_eq_true_eq] at h
    rcases h with h | h
    · have : q.orderBy = [] := by simpa using h
      symm
      apply sortBy_never
      intro a b
      simp [rowLess, orderKeys, this, lessBy]
    · exact (sortBy_short _ rows h).symm
  · rw [if_neg h]

/-! ### rows of groups with pairwise different keys are pairwise different -/

theorem nodup_map_of_key {α β γ : Type} (f : α → β) (key : α → γ) (l : List α)
    (hinj : ∀ a ∈ l, ∀ b ∈ l, f a = f b → key a = key b) (hn : (l.map key).Nodup) : (l.map f).Nodup := by
  induction l with
  | nil => simp
  | cons x xs ih =>
    simp only [List.map_cons, List.nodup_cons] at hn ⊢
    refine ⟨?_, ih (fun a ha b hb => hinj a (by simp [ha]) b (by simp [hb])) hn.2⟩
    intro hmem
    obtain ⟨y, hy, hfy⟩ := List.mem_map.mp hmem
    apply hn.1
    rw [hinj x (by simp) y (by simp [hy]) hfy.symm]
    exact List.mem_map.mpr ⟨y, hy, rfl⟩

theorem specRow_key (q : Query ν) (g : Group ν) : lookupIn q.gcol (Spec.specRow N q g) = some g.key := by
  simp [Spec.specRow, lookupIn]

theorem fullRow_key (q : Query ν) (hq : wf q = true) (g : Group ν) :
    get (.col q.gcol) (fullRow N q g) = some g.key := by
  rw [get_col_visible, visible_fullRow N q hq, specRow_key]

theorem fullRows_nodup (q : Query ν) (hq : wf q = true) (gs : List (Group ν))
    (hk : (gs.map (·.key)).Nodup) : (gs.map (fullRow N q)).Nodup := by
  apply nodup_map_of_key (fullRow N q) (·.key) gs _ hk
  intro a _ b _ hab
  have ha := fullRow_key N q hq a
  have hb := fullRow_key N q hq b
  rw [hab, hb] at ha
  exact (Option.some.inj ha).symm

theorem specRows_nodup (q : Query ν) (gs : List (Group ν))
    (hk : (gs.map (·.key)).Nodup) : (gs.map (Spec.specRow N q)).Nodup := by
  apply nodup_map_of_key (Spec.specRow N q) (·.key) gs _ hk
  intro a _ b _ hab
  have ha := specRow_key N q a
  have hb := specRow_key N q b
  rw [hab, hb] at ha
  exact (Option.some.inj ha).symm

theorem filter_keys_nodup (gs : List (Group ν)) (p : Group ν → Bool) (hk : (gs.map (·.key)).Nodup) :
    ((gs.filter p).map (·.key)).Nodup :=
  hk.sublist ((List.filter_sublist).map _)

/-! ### HAVING stage -/

theorem havingStage_visible (q : Query ν) (hq : wf q = true) (gs : List (Group ν)) :
    (havingStage N q.having (gs.map (fullRow N q))).map visible
      = (gs.filter (Spec.specHaving N q)).map (Spec.specRow N q) := by
  cases hh : q.having with
  | none =>
    have hall : gs.filter (Spec.specHaving N q) = gs := by
      apply List.filter_eq_self.mpr
      intro g _
      simp [Spec.specHaving, hh]
    rw [hall]
    simp only [havingStage, List.map_map]
    apply List.map_congr_left
    intro g _
    exact visible_fullRow N q hq g
  | some p =>
    simp only [havingStage, List.filter_map, List.map_map]
    have hf : gs.filter (havingKeep N p ∘ fullRow N q) = gs.filter (Spec.specHaving N q) := by
      apply List.filter_congr
      intro g _
      exact havingKeep_fullRow N q hq g p hh
    rw [hf]
    apply List.map_congr_left
    intro g _
    simp only [Function.comp]
    rw [visible_stripHidden, visible_fullRow N q hq g]

/-! ### the whole pipeline -/

theorem candidates_eq (q : Query ν) (gs : List (Group ν)) (hk : (gs.map (·.key)).Nodup) :
    Spec.candidates N q gs = (gs.filter (Spec.specHaving N q)).map (Spec.specRow N q) := by
  unfold Spec.candidates
  simp only
  by_cases hd : q.distinct = true
  · rw [if_pos hd]
    exact dedup_of_nodup _ (specRows_nodup N q _ (filter_keys_nodup _ _ hk))
  · rw [if_neg hd]

theorem run_visible (q : Query ν) (hq : wf q = true) (gs : List (Group ν)) (hk : (gs.map (·.key)).Nodup) :
    (run N q gs).map visible = Spec.run N q gs := by
  unfold run pipeline Spec.run
  rw [applyLimit_map, applyOrderBy_eq,
    sortBy_map visible (rowLess N q) (Spec.specLess N q) (rowLess_visible N q),
    distinctStage_of_nodup _ _ (fullRows_nodup N q hq gs hk),
    havingStage_visible N q hq gs, candidates_eq N q gs hk]

theorem mem_distinctAux {α : Type} [DecidableEq α] (seen l : List α) (x : α) (h : x ∈ distinctAux seen l) : x ∈ l := by
  induction l generalizing seen with
  | nil => simp [distinctAux] at h
  | cons y ys ih =>
    unfold distinctAux at h
    by_cases hy : y ∈ seen
    · rw [if_pos hy] at h; exact List.mem_cons_of_mem _ (ih _ h)
    · rw [if_neg hy] at h
      rcases List.mem_cons.mp h with rfl | h
      · simp
      · exact List.mem_cons_of_mem _ (ih _ h)

theorem mem_distinctStage {α : Type} [DecidableEq α] (d : Bool) (l : List α) (x : α)
    (h : x ∈ distinctStage d l) : x ∈ l := by
  unfold distinctStage at h
  cases d with
  | false => simpa using h
  | true => exact mem_distinctAux [] l x (by simpa using h)

theorem mem_applyOrderBy (q : Query ν) (rows : List (Row ν)) (r : Row ν) (h : r ∈ applyOrderBy N q rows) :
    r ∈ rows := by
  rw [applyOrderBy_eq] at h
  exact (mem_sortBy _ r rows).mp h

theorem run_allVisible (q : Query ν) (gs : List (Group ν)) : ∀ r ∈ run N q gs, allVisible r = true := by
  intro r hr
  unfold run pipeline at hr
  have h1 := mem_of_mem_applyLimit _ _ _ hr
  have h2 := mem_applyOrderBy N q _ r h1
  apply havingStage_allVisible N q _ _ r h2
  intro r' hr'
  have := mem_distinctStage _ _ _ hr'
  obtain ⟨g, _, rfl⟩ := List.mem_map.mp this
  exact ⟨g, rfl⟩

/-! ### the oracle accepts every legal outcome -/

theorem candidates_perm (q : Query ν) (gs gs' : List (Group ν)) (hp : gs'.Perm gs)
    (hk : (gs.map (·.key)).Nodup) :
    (Spec.candidates N q gs').Perm (Spec.candidates N q gs) := by
  have hk' : (gs'.map (·.key)).Nodup := (hp.map _).nodup_iff.mpr hk
  rw [candidates_eq N q gs hk, candidates_eq N q gs' hk']
  exact (hp.filter _).map _

theorem candidates_nodup (q : Query ν) (gs : List (Group ν)) (hk : (gs.map (·.key)).Nodup) :
    (Spec.candidates N q gs).Nodup := by
  rw [candidates_eq N q gs hk]
  exact specRows_nodup N q _ (filter_keys_nodup _ _ hk)

theorem validClause_run (hN : NumOrd N) (q : Query ν) (gs gs' : List (Group ν)) (hp : gs'.Perm gs)
    (hk : (gs.map (·.key)).Nodup)
    (hh : Homog (ν := ν) lookupIn q.orderBy (fun r => r ∈ Spec.candidates N q gs)) :
    Spec.validClause N q gs (Spec.run N q gs') = none := by
  have hcp := candidates_perm N q gs gs' hp hk
  have hcn := candidates_nodup N q gs hk
  have hcn' : (Spec.candidates N q gs').Nodup := hcp.nodup_iff.mpr hcn
  -- the sorted candidate list of the permuted groups
  let S := sortBy (Spec.specLess N q) (Spec.candidates N q gs')
  have hSperm : S.Perm (Spec.candidates N q gs) := (sortBy_perm _ _).trans hcp
  have hSnodup : S.Nodup := hSperm.nodup_iff.mpr hcn
  have hw : WeakOn (Spec.specLess N q) (fun r => r ∈ Spec.candidates N q gs) :=
    lessBy_weakOn N lookupIn hN q.orderBy _ hh
  have hSsorted : SortedBy (Spec.specLess N q) S :=
    sortBy_sorted _ _ hw _ (fun z hz => hcp.mem_iff.mp hz)
  have hout : Spec.run N q gs' = applyLimit q.limit S := rfl
  have hpre : applyLimit q.limit S <+: S := applyLimit_prefix _ _
  obtain ⟨T, hT⟩ := hpre
  -- clause 1: every delivered row is a candidate
  have c1 : (Spec.run N q gs').all (fun r => (Spec.candidates N q gs).contains r) = true := by
    rw [List.all_eq_true]
    intro r hr
    rw [hout] at hr
    have : r ∈ S := mem_of_mem_applyLimit _ _ _ hr
    simpa using hSperm.mem_iff.mp this
  -- clause 2: no row twice
  have c2 : Spec.nodupB (Spec.run N q gs') = true := by
    rw [nodupB_iff, hout]
    exact hSnodup.sublist (applyLimit_prefix _ _).sublist
  -- clause 3: as many rows as LIMIT allows
  have c3 : (Spec.run N q gs').length = Spec.limitLen q.limit (Spec.candidates N q gs).length := by
    rw [hout, length_applyLimit, hSperm.length_eq]
  -- clause 4: sorted
  have c4 : Spec.sortedBy (Spec.specLess N q) (Spec.run N q gs') = true := by
    rw [sortedBy_iff, hout]
    exact List.Pairwise.sublist (applyLimit_prefix _ _).sublist hSsorted
  -- clause 5: an omitted candidate does not sort before a delivered row
  have c5 : ((Spec.candidates N q gs).all fun c => (Spec.run N q gs').contains c ||
      (Spec.run N q gs').all (fun x => !Spec.specLess N q c x)) = true := by
    rw [List.all_eq_true]
    intro c hc
    rw [hout]
    by_cases hin : c ∈ applyLimit q.limit S
    · simp [hin]
    · have hcS : c ∈ S := hSperm.mem_iff.mpr hc
      rw [← hT] at hcS
      have hcT : c ∈ T := by
        rcases List.mem_append.mp hcS with h | h
        · exact absurd h hin
        · exact h
      have hpw : SortedBy (Spec.specLess N q) (applyLimit q.limit S ++ T) := by rw [hT]; exact hSsorted
      have := (List.pairwise_append.mp hpw).2.2
      simp only [Bool.or_eq_true, List.all_eq_true]
      right
      intro x hx
      simpa using this x hx c hcT
  unfold Spec.validClause
  simp only [c1, c2, c3, c4, c5, Bool.not_true, Bool.false_eq_true, if_false, bne_self_eq_false]

/-! ### the oracle accepts only legal outcomes -/

/-- a sorted block whose elements no later element sorts before stays in front, in order -/
theorem sortBy_append_sorted {α : Type} (less : α → α → Bool) (out R : List α)
    (hs : SortedBy less out) (hr : ∀ x ∈ out, ∀ r ∈ R, less r x = false) :
    sortBy less (out ++ R) = out ++ sortBy less R := by
  induction out with
  | nil => rfl
  | cons x xs ih =>
    have hs' := List.pairwise_cons.mp hs
    have ih' := ih hs'.2 (fun y hy r hr' => hr y (by simp [hy]) r hr')
    simp only [List.cons_append, sortBy]
    rw [ih']
    cases xs with
    | nil =>
      cases hR : sortBy less R with
      | nil => rfl
      | cons r rs =>
        have hrmem : r ∈ R := (mem_sortBy less r R).mp (by rw [hR]; simp)
        have := hr x (by simp) r hrmem
        simp [insertBy, this]
    | cons y ys =>
      have := hs'.1 y (by simp)
      simp [insertBy, this]

theorem ite_not_isNone (b : Bool) (s : String) (e : Option String)
    (h : (if (!b) = true then some s else e).isNone = true) : b = true ∧ e.isNone = true := by
  cases b <;> simp_all

theorem ite_bne_isNone (a b : Nat) (s : String) (e : Option String)
    (h : (if (a != b) = true then some s else e).isNone = true) : a = b ∧ e.isNone = true := by
  by_cases hab : a = b
  · subst hab; simpa using h
  · have : (a != b) = true := by simpa using hab
    rw [if_pos this] at h
    simp at h

theorem valid_only_legal (q : Query ν) (gs : List (Group ν)) (hk : (gs.map (·.key)).Nodup)
    (out : List (Spec.SRow ν)) (hv : Spec.valid N q gs out = true) :
    ∃ L, L.Perm (Spec.candidates N q gs) ∧ applyLimit q.limit (sortBy (Spec.specLess N q) L) = out := by
  have hcn := candidates_nodup N q gs hk
  -- unpack the five clauses
  unfold Spec.valid Spec.validClause at hv
  dsimp only at hv
  obtain ⟨c1, hv⟩ := ite_not_isNone _ _ _ hv
  obtain ⟨c2, hv⟩ := ite_not_isNone _ _ _ hv
  obtain ⟨c3, hv⟩ := ite_bne_isNone _ _ _ _ hv
  obtain ⟨c4, hv⟩ := ite_not_isNone _ _ _ hv
  obtain ⟨c5, _⟩ := ite_not_isNone _ _ _ hv
  have h1 : ∀ r ∈ out, r ∈ Spec.candidates N q gs := by
    intro r hr; simpa using (List.all_eq_true.mp c1) r hr
  have h2 : out.Nodup := (nodupB_iff out).mp c2
  have h4 : SortedBy (Spec.specLess N q) out := (sortedBy_iff _ out).mp c4
  let R := (Spec.candidates N q gs).filter (fun c => !out.contains c)
  have h5 : ∀ x ∈ out, ∀ r ∈ R, Spec.specLess N q r x = false := by
    intro x hx r hr
    have hrc := List.mem_filter.mp hr
    have := (List.all_eq_true.mp c5) r hrc.1
    simp only [Bool.or_eq_true, List.all_eq_true] at this
    rcases this with h | h
    · have h2' := hrc.2
      rw [h] at h2'
      simp at h2'
    · simpa using h x hx
  have hperm : (out ++ R).Perm (Spec.candidates N q gs) := by
    have hin : ((Spec.candidates N q gs).filter (fun c => out.contains c)).Perm out := by
      apply (List.perm_ext_iff_of_nodup (hcn.sublist List.filter_sublist) h2).mpr
      intro a
      simp only [List.mem_filter, List.contains_iff_mem]
      constructor
      · intro h; exact h.2
      · intro h; exact ⟨h1 a h, h⟩
    exact (List.Perm.append_right R hin.symm).trans (List.filter_append_perm _ _)
  refine ⟨out ++ R, hperm, ?_⟩
  rw [sortBy_append_sorted _ out R h4 h5]
  have hlen : out.length + R.length = (Spec.candidates N q gs).length := by
    rw [← List.length_append]; exact hperm.length_eq
  cases hl : q.limit with
  | none =>
    rw [hl] at c3
    simp only [Spec.limitLen] at c3
    have : R.length = 0 := by omega
    have hR : R = [] := List.length_eq_zero_iff.mp this
    simp [applyLimit, hR, sortBy]
  | some n =>
    rw [hl] at c3
    simp only [Spec.limitLen] at c3
    simp only [applyLimit]
    by_cases hn : n ≤ (Spec.candidates N q gs).length
    · have : out.length = n := by omega
      exact List.take_left' this
    · have hR0 : R.length = 0 := by omega
      have hR : R = [] := List.length_eq_zero_iff.mp hR0
      rw [hR]
      simp only [sortBy, List.append_nil]
      apply List.take_of_length_le
      omega

end PostAgg
