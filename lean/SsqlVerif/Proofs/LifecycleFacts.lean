/-
Helper lemmas for C18, part 2: consequences of the invariants used by `Props/C18`.
Core Lean only.
-/
import SsqlVerif.Proofs.Lifecycle
set_option autoImplicit false
set_option linter.unusedVariables false
set_option linter.unusedSimpArgs false

namespace Lifecycle

theorem countP_zero_forall {α : Type} (p : α → Bool) (l : List α) (h : l.countP p = 0) : ∀ x ∈ l, p x = false := by
  intro x hx
  cases hp : p x with
  | false => rfl
  | true =>
    have := countP_pos_of_mem p l x hx hp
    omega

/-- past the join: every tracked goroutine has exited and no call is inside the instance -/
theorem quiescent_after_join (c : Cfg) (s : State) (h : LInv c s) (k : Nat) (pc : SPC)
    (hk : s.stops[k]? = some pc) (hp : pastJoin pc = true) :
    s.eng.alive = false ∧ s.eng.act = .idle ∧
    (∀ t ∈ s.workers, t.alive = false ∧ t.act = .idle) ∧
    (c.syncGuard = true → ∀ t ∈ s.callers, t.act = .idle) := by
  have hl := h.st.joined k pc hk hp
  have ha := h.life
  rw [hl, aliveCount_eq] at ha
  have h1 : b2n s.eng.alive = 0 := by omega
  have h2 : aW s = 0 := by omega
  have h3 : aC s = 0 := by omega
  have he : s.eng.alive = false := by
    cases hh : s.eng.alive with
    | false => rfl
    | true => rw [hh] at h1; simp [b2n] at h1
  refine ⟨he, h.th.eng.2 he, ?_, ?_⟩
  · intro t ht
    have := countP_zero_forall (fun (x : Thread) => x.alive) s.workers h2 t ht
    exact ⟨this, (h.th.workers t ht).2 this⟩
  · intro hg t ht
    have hj := countP_zero_forall (fun (x : Thread) => x.joined) s.callers h3 t ht
    have := (h.th.callers t ht).2
    cases hact : t.act with
    | idle => rfl
    | _ =>
      have : t.joined = true := this.mpr ⟨hg, by rw [hact]; simp⟩
      rw [hj] at this; simp at this

/-- a thread that waits for the sink write lock while holding the read lock can never move -/
theorem selfwait_stuck (c : Cfg) (s : State) (h : LInv c s) (a : Act) (ha : selfWait a = true)
    (hmem : a = s.eng.act ∨ (∃ t ∈ s.workers, t.act = a) ∨ (∃ t ∈ s.callers, t.act = a)) :
    actStep c s a = none := by
  cases a with
  | wantW b as ss held =>
    simp [selfWait] at ha
    subst ha
    have hpos : 1 ≤ s.rd := by
      rw [h.rd, heldCount_eq]
      rcases hmem with h1 | ⟨t, ht, h1⟩ | ⟨t, ht, h1⟩
      · rw [← h1]; simp [heldOf, b2n]; omega
      · have := countP_pos_of_mem (fun x => heldOf x.act) s.workers t ht (by rw [h1]; rfl)
        unfold hW; omega
      · have := countP_pos_of_mem (fun x => heldOf x.act) s.callers t ht (by rw [h1]; rfl)
        unfold hC; omega
    simp [actStep]; omega
  | idle => simp [selfWait] at ha
  | call _ => simp [selfWait] at ha
  | submit _ _ _ _ => simp [selfWait] at ha
  | body _ _ _ _ _ => simp [selfWait] at ha

/-- with the repaired dispatch nobody ever holds the read lock at a step boundary -/
theorem copy_rd_zero (c : Cfg) (s : State) (h : LInv c s) (hc : c.copySinks = true) : s.rd = 0 := by
  rw [h.rd]; exact h.copy hc

end Lifecycle
