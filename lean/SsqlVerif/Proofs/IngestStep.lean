/-
Helper lemmas for C19, part 3: every step preserves the structural invariant.
Core Lean only.
-/
import SsqlVerif.Proofs.IngestInv
set_option autoImplicit false
set_option linter.unusedVariables false
set_option linter.unusedSimpArgs false

namespace Ingest

def StratSend (c : Cfg) (att : Nat) : Prop := (c.strat = .drop ∧ att = 0) ∨ c.strat = .expand

theorem nxOk_afterFail (c : Cfg) (s : State) (i att : Nat) (h : StratSend c att) : NxOk c s i (afterFail c att) := by
  unfold afterFail
  rcases h with ⟨h1, h2⟩ | h1
  · simp [h1, NxOk, PcOk]
  · simp only [h1]
    split
    · simp [NxOk, PcOk, h1]
    · split
      · simp [NxOk, PcOk, h1]
      · simp [NxOk, h1]

theorem nxOk_trySend (c : Cfg) (s s0 : State) (i att : Nat) (h : StratSend c att) : NxOk c s0 i (trySend c s att) := by
  unfold trySend
  split
  · exact nxOk_afterFail c s0 i att h
  · exact ⟨h, by simp⟩

theorem nxOk_emitNext (c : Cfg) (s s0 : State) (i : Nat) (hst : s0.stopped = s.stopped) : NxOk c s0 i (emitNext c s) := by
  unfold emitNext
  split
  · rename_i hd; exact nxOk_trySend c s s0 i 0 (Or.inl ⟨hd, rfl⟩)
  · rename_i he
    split
    · rename_i h; simp only [NxOk]; rw [hst]; exact h
    · exact ⟨Or.inr he, by simp⟩
  · rename_i hb
    split
    · rename_i h; simp only [NxOk]; rw [hst]; exact h
    · exact ⟨hb, by simp⟩

theorem nxOk_dropTimer (c : Cfg) (s : State) (i k h : Nat) (hd : c.strat = .drop) (hh : h = 0) : NxOk c s i (dropTimer k h) := by
  unfold dropTimer
  split
  · exact ⟨⟨hd, hh⟩, by simp⟩
  · simp [NxOk, hd]

/-- a producer outside the migration is not the lock owner -/
theorem not_owner (c : Cfg) (s : State) (i : Nat) (p : Prod) (hinv : Inv c s) (hp : s.prods[i]? = some p)
    (hpc : p.pc ≠ .expMig) : ∀ j o n, s.mig = some (j, o, n) →
      (j = i → False) ∧ (j ≠ i → ∃ pp, s.prods[j]? = some pp ∧ pp.pc = .expMig) := by
  intro j o n hm
  obtain ⟨pp, hpp, hppc⟩ := hinv.own j o n hm
  refine ⟨?_, fun _ => ⟨pp, hpp, hppc⟩⟩
  intro hji; subst hji
  rw [hp] at hpp; simp at hpp; subst hpp
  exact hpc hppc

/-- the common case: nothing but the stepping producer changes -/
theorem inv_plain (c : Cfg) (s : State) (i : Nat) (p : Prod) (nx : Next) (hinv : Inv c s)
    (hp : s.prods[i]? = some p) (hpc : p.pc ≠ .expMig) (hnx : NxOk c s i nx) : Inv c (nx.apply s i p) := by
  have hP := hinv.p i p hp
  refine inv_apply c s i p p nx hinv.core hp hP.hid hP.hcur (fun j q _ hq => hinv.p j q hq) hnx ?_
  intro j o n hm
  obtain ⟨h1, h2⟩ := not_owner c s i p hinv hp hpc j o n hm
  exact ⟨fun h => (h1 h).elim, h2⟩

/-- the expansion guard changes hands: from nobody to `i`, or from `i` to nobody -/
theorem inv_guard (c : Cfg) (s : State) (i : Nat) (p : Prod) (nx : Next) (e : Option Nat) (hinv : Inv c s)
    (hp : s.prods[i]? = some p) (hpc : p.pc ≠ .expMig)
    (hold : s.expanding = none ∨ s.expanding = some i)
    (hnx : NxOk c { s with expanding := e } i nx) : Inv c (nx.apply { s with expanding := e } i p) := by
  have hP := hinv.p i p hp
  refine inv_apply c { s with expanding := e } i p p nx
    (gcore_congr c s _ rfl rfl rfl rfl rfl rfl rfl rfl rfl hinv.core) hp hP.hid hP.hcur ?_ hnx ?_
  · intro j q hji hq
    have hQ := hinv.p j q hq
    refine ⟨hQ.hid, hQ.hcur, pcOk_frame c s _ j q.pc hQ.hpc ?_ (fun _ h => h) (fun o n h => ⟨o, n, h⟩) (fun _ n h => h)⟩
    intro he
    rcases hold with h | h
    · rw [h] at he; simp at he
    · rw [h] at he; simp at he; exact absurd he.symm hji
  · intro j o n hm
    obtain ⟨h1, h2⟩ := not_owner c s i p hinv hp hpc j o n hm
    exact ⟨fun h => (h1 h).elim, h2⟩

end Ingest

namespace Ingest

/-! ### steps that touch channel contents -/

theorem map_cap_set (cs : List Chan) (h : Nat) (ch ch' : Chan) (hc : cs[h]? = some ch) (hcap : ch'.cap = ch.cap) :
    (cs.set h ch').map (·.cap) = cs.map (·.cap) := by
  induction cs generalizing h with
  | nil => simp
  | cons a rest ih =>
    cases h with
    | zero => simp at hc; subst hc; simp [hcap]
    | succ k => simp at hc; simp [ih k hc]

theorem forall_cap (cs : List Chan) (P : Nat → Prop) : (∀ ch ∈ cs, P ch.cap) ↔ (∀ x ∈ cs.map (·.cap), P x) := by
  constructor
  · intro h x hx
    obtain ⟨ch, hch, rfl⟩ := List.mem_map.mp hx
    exact h ch hch
  · intro h ch hch
    exact h ch.cap (List.mem_map.mpr ⟨ch, hch, rfl⟩)

/-- channel contents change, capacities and everything else stay -/
theorem gcore_chans (c : Cfg) (s s' : State) (hg : GCore c s) (h1 : s'.mig = s.mig) (h3 : s'.curCh = s.curCh)
    (hcaps : s'.chans.map (·.cap) = s.chans.map (·.cap))
    (h5 : s'.done = s.done) (h6 : s'.stopped = s.stopped) (h7 : s'.exits = s.exits) (h8 : s'.cons = s.cons)
    (h9 : s'.dropped = s.dropped) (h10 : s'.stopPc = s.stopPc)
    (hoth : ∀ h ch, s'.chans[h]? = some ch → ch.buf ≠ [] →
      s'.stopped = true ∨ s'.curCh = some h ∨ ∃ j o, s'.mig = some (j, o, h)) : GCore c s' := by
  have hlen : s'.chans.length = s.chans.length := by
    have := congrArg List.length hcaps; simpa using this
  constructor
  · rw [h1, h3, hlen]; exact hg.migShape
  · rw [h1, h3, hlen]; exact hg.curLast
  · rw [hlen]; exact hg.single
  · rw [h5, h6, h3, h7]; exact hg.flags
  · rw [h8, h1, h3]; exact hg.hold
  · exact hoth
  · rw [hcaps]; exact hg.capsInc
  · intro hm
    rw [forall_cap s'.chans (fun x => x ≤ max c.maxCap c.cap0), hcaps, ← forall_cap s.chans (fun x => x ≤ max c.maxCap c.cap0)]
    exact hg.capsMax hm
  · rw [forall_cap s'.chans (fun x => c.cap0 ≤ x), hcaps, ← forall_cap s.chans (fun x => c.cap0 ≤ x)]
    exact hg.capsMin
  · rw [h9]; exact hg.noDrop
  · rw [hlen]; exact hg.nonempty
  · rw [h10, h6]; exact hg.stopping

/-- `others` after one channel's buffer changed: only a channel that was allowed to hold rows may -/
theorem others_set (s : State) (hs : ∀ h ch, s.chans[h]? = some ch → ch.buf ≠ [] →
      s.stopped = true ∨ s.curCh = some h ∨ ∃ j o, s.mig = some (j, o, h))
    (k : Nat) (ck ck' : Chan) (hk : s.chans[k]? = some ck)
    (hok : ck'.buf ≠ [] → s.stopped = true ∨ s.curCh = some k ∨ ∃ j o, s.mig = some (j, o, k)) :
    ∀ h ch, (s.chans.set k ck')[h]? = some ch → ch.buf ≠ [] →
      s.stopped = true ∨ s.curCh = some h ∨ ∃ j o, s.mig = some (j, o, h) := by
  intro h ch hh hne
  by_cases hkh : h = k
  · subst hkh
    rw [getElem?_set_self' _ _ _ _ hk] at hh
    simp at hh; subst hh
    exact hok hne
  · rw [getElem?_set_ne' _ _ _ _ hkh] at hh
    exact hs h ch hh hne

theorem inv_pushTo (c : Cfg) (s : State) (i : Nat) (p : Prod) (h : Nat) (s' : State) (hinv : Inv c s)
    (hp : s.prods[i]? = some p) (hpc : p.pc ≠ .expMig) (hh : s.stopped = true ∨ s.curCh = some h)
    (hs : pushTo s i p h = some s') : Inv c s' := by
  unfold pushTo at hs
  split at hs
  · simp at hs
  · rename_i ch hch
    simp at hs; subst hs
    have hP := hinv.p i p hp
    have hcaps : (s.chans.set h { ch with buf := ch.buf ++ p.cur.toList }).map (·.cap) = s.chans.map (·.cap) :=
      map_cap_set s.chans h ch _ hch rfl
    refine inv_upd c s _ i (idled p) p ?_ rfl hp rfl rfl hcaps
      ⟨hP.hid, by intro r hr; simp [idled] at hr, trivial⟩ (fun j q _ hq => hinv.p j q hq) ?_
    · refine gcore_chans c s _ hinv.core rfl rfl hcaps rfl rfl rfl rfl rfl rfl ?_
      refine others_set s hinv.core.others h ch _ hch ?_
      intro _
      rcases hh with h1 | h1
      · exact Or.inl h1
      · exact Or.inr (Or.inl h1)
    · intro j o n hm
      obtain ⟨h1, h2⟩ := not_owner c s i p hinv hp hpc j o n hm
      exact ⟨fun h => (h1 h).elim, h2⟩

/-- states that differ from `s` only in fields the producers' knowledge does not depend on -/
theorem inv_core (c : Cfg) (s s' : State) (hinv : Inv c s) (hcore : GCore c s') (hprods : s'.prods = s.prods)
    (hmig : s'.mig = s.mig) (hexp : s'.expanding = s.expanding)
    (hcaps : s'.chans.map (·.cap) = s.chans.map (·.cap)) : Inv c s' := by
  refine ⟨hcore, ?_, ?_⟩
  · rw [hmig, hprods]; exact hinv.own
  · intro j q hq
    rw [hprods] at hq
    have := hinv.p j q hq
    exact ⟨this.hid, this.hcur, pcOk_congr c s s' j q.pc this.hpc hexp hmig hcaps⟩

theorem inv_migOne (c : Cfg) (s : State) (i : Nat) (o : Option Nat) (o' n : Nat) (s' : State) (hinv : Inv c s)
    (hm : s.mig = some (i, o, n)) (hs : migOne s o' n = some s') : Inv c s' := by
  unfold migOne at hs
  split at hs
  · simp at hs
  · rename_i hon
    split at hs
    · rename_i co cn hco hcn
      split at hs
      · simp at hs
      · rename_i r0 rest hb
        split at hs
        · simp at hs; subst hs
          have hcn' : (s.chans.set o' { co with buf := rest })[n]? = some cn := by
            rw [getElem?_set_ne' _ _ _ _ (Ne.symm hon)]; exact hcn
          have hcaps : ((s.chans.set o' { co with buf := rest }).set n { cn with buf := cn.buf ++ [r0] }).map (·.cap)
              = s.chans.map (·.cap) := by
            rw [map_cap_set _ n cn { cn with buf := cn.buf ++ [r0] } hcn' rfl,
              map_cap_set _ o' co { co with buf := rest } hco rfl]
          refine inv_core c s _ hinv ?_ rfl rfl rfl hcaps
          refine gcore_chans c s _ hinv.core rfl rfl hcaps rfl rfl rfl rfl rfl rfl ?_
          have step1 := others_set s hinv.core.others o' co { co with buf := rest } hco (by
            intro _
            exact hinv.core.others o' co hco (by rw [hb]; simp))
          intro h ch hh hne
          by_cases hnh : h = n
          · subst hnh
            exact Or.inr (Or.inr ⟨i, o, hm⟩)
          · rw [getElem?_set_ne' _ _ _ _ hnh] at hh
            exact step1 h ch hh hne
        · simp at hs
    · simp at hs

theorem inv_recvFrom (c : Cfg) (s : State) (h : Nat) (s' : State) (hinv : Inv c s)
    (hs : recvFrom s h = some s') : Inv c s' := by
  unfold recvFrom at hs
  split at hs
  · simp at hs
  · rename_i ch hch
    split at hs
    · simp at hs
    · rename_i r0 rest hb
      simp at hs; subst hs
      have hcaps : (s.chans.set h { ch with buf := rest }).map (·.cap) = s.chans.map (·.cap) :=
        map_cap_set s.chans h ch _ hch rfl
      refine inv_core c s _ hinv ?_ rfl rfl rfl hcaps
      have base : GCore c { s with chans := s.chans.set h { ch with buf := rest }, processed := s.processed ++ [r0] } := by
        refine gcore_chans c s _ hinv.core rfl rfl hcaps rfl rfl rfl rfl rfl rfl ?_
        refine others_set s hinv.core.others h ch _ hch ?_
        intro _
        exact hinv.core.others h ch hch (by rw [hb]; simp)
      -- the consumer leaves `cHold`
      constructor
      · exact base.migShape
      · exact base.curLast
      · exact base.single
      · exact base.flags
      · intro _ h' hc'; simp at hc'
      · exact base.others
      · exact base.capsInc
      · exact base.capsMax
      · exact base.capsMin
      · exact base.noDrop
      · exact base.nonempty
      · exact base.stopping

end Ingest

namespace Ingest

/-! ### guards -/

theorem rGuard_mig (s : State) (h : rGuard s = true) : s.mig = none := by
  simp [rGuard, wHeld] at h
  cases hm : s.mig with
  | none => rfl
  | some x => rw [hm] at h; simp at h

theorem wGuard_facts (c : Cfg) (s : State) (h : wGuard c s = true) :
    s.mig = none ∧ (∀ q ∈ s.prods, isRdPc q.pc = false) ∧ ¬ (c.consLock = true ∧ isHold s.cons = true) := by
  simp only [wGuard, rdIn, Bool.and_eq_true, Bool.not_eq_true', Bool.or_eq_false_iff, Bool.and_eq_false_iff] at h
  obtain ⟨h1, h2, h3⟩ := h
  refine ⟨?_, ?_, ?_⟩
  · simp [wHeld] at h1
    cases hm : s.mig with
    | none => rfl
    | some x => rw [hm] at h1; simp at h1
  · intro q hq
    have := List.any_eq_false.mp h2 q hq
    simpa using this
  · intro ⟨ha, hb⟩
    rcases h3 with h3 | h3
    · rw [ha] at h3; simp at h3
    · rw [hb] at h3; simp at h3

theorem curCap_spec (s : State) (hne : curCap s ≠ 0) :
    ∃ h ch, s.curCh = some h ∧ s.chans[h]? = some ch ∧ curCap s = ch.cap := by
  unfold curCap at *
  split at hne
  · simp at hne
  · rename_i h hh
    split at hne
    · rename_i ch hch
      refine ⟨h, ch, hh, hch, ?_⟩
      simp [hch]
    · simp at hne

theorem inv_stepPc (c : Cfg) (s : State) (i : Nat) (p : Prod) (w : Wit) (s' : State)
    (hp : s.prods[i]? = some p) (hinv : Inv c s) (hs : stepPc c s i p w p.pc = some s') : Inv c s' := by
  have hP := hinv.p i p hp
  have hpcOk := hP.hpc
  cases hpc : p.pc with
  | idle =>
    rw [hpc] at hs; simp only [stepPc, doEmit] at hs
    simp at hs; subst hs
    have hidle : p.pc ≠ .expMig := by rw [hpc]; simp
    refine inv_apply c { s with input := s.input + 1 } i (emitted p) p (emitNext c s)
      (gcore_congr c s _ rfl rfl rfl rfl rfl rfl rfl rfl rfl hinv.core) hp ?_ ?_ ?_
      (nxOk_emitNext c s _ i rfl) ?_
    · simp [emitted]; exact hP.hid
    · intro r hr
      simp [emitted] at hr
      subst hr
      simp [emitted, hP.hid]
    · intro j q _ hq
      have := hinv.p j q hq
      exact ⟨this.hid, this.hcur, pcOk_congr c s _ j q.pc this.hpc rfl rfl rfl⟩
    · intro j o n hm
      obtain ⟨h1, h2⟩ := not_owner c s i p hinv hp hidle j o n hm
      exact ⟨fun h => (h1 h).elim, h2⟩
  | sendLock att =>
    rw [hpc] at hs hpcOk; simp only [stepPc, doSendLock] at hs
    have hne : p.pc ≠ .expMig := by rw [hpc]; simp
    split at hs
    · rename_i hg
      have hm := rGuard_mig s hg
      split at hs
      · simp at hs; subst hs; exact inv_plain c s i p _ hinv hp hne (nxOk_afterFail c s i att hpcOk)
      · simp at hs; subst hs; exact inv_plain c s i p _ hinv hp hne ⟨⟨hm, hpcOk⟩, by simp⟩
    · simp at hs
  | sendSend att =>
    rw [hpc] at hs hpcOk; simp only [stepPc, doSendSend] at hs
    have hne : p.pc ≠ .expMig := by rw [hpc]; simp
    split at hs
    · simp at hs; subst hs; exact inv_plain c s i p _ hinv hp hne (nxOk_afterFail c s i att hpcOk.2)
    · rename_i h hh
      split at hs
      · exact inv_pushTo c s i p h s' hinv hp hne (Or.inr hh) hs
      · simp at hs; subst hs; exact inv_plain c s i p _ hinv hp hne (nxOk_afterFail c s i att hpcOk.2)
  | expEnter =>
    rw [hpc] at hs hpcOk; simp only [stepPc, doExpEnter] at hs
    have hne : p.pc ≠ .expMig := by rw [hpc]; simp
    split at hs
    · simp at hs; subst hs; exact inv_plain c s i p _ hinv hp hne (nxOk_trySend c s s i 1 (Or.inr hpcOk))
    · rename_i he
      simp at hs; subst hs
      have : s.expanding = none := by
        cases h : s.expanding with
        | none => rfl
        | some x => rw [h] at he; simp at he
      exact inv_guard c s i p _ (some i) hinv hp hne (Or.inl this) ⟨⟨hpcOk, rfl⟩, by simp⟩
  | expRead =>
    rw [hpc] at hs hpcOk; simp only [stepPc, doExpRead] at hs
    have hne : p.pc ≠ .expMig := by rw [hpc]; simp
    split at hs
    · rename_i hg
      have hm := rGuard_mig s hg
      split at hs
      · simp at hs; subst hs
        exact inv_guard c s i p _ none hinv hp hne (Or.inr hpcOk.2) (nxOk_trySend c s _ i 1 (Or.inr hpcOk.1))
      · rename_i n hdec
        simp at hs; subst hs
        obtain ⟨hlt, hmax⟩ := expandDecision_some c _ _ n hdec
        have hcne : curCap s ≠ 0 := by
          intro h0; rw [h0] at hdec; simp [expandDecision] at hdec
        obtain ⟨h, ch, hcur, hch, hcap⟩ := curCap_spec s hcne
        have hlast := hinv.core.curLast hm h hcur
        have hle := caps_le_last s.chans hinv.core.capsInc h ch hch hlast
        refine inv_plain c s i p _ hinv hp hne ⟨⟨hpcOk.1, hpcOk.2, hmax, ?_⟩, by simp⟩
        intro x hx
        have := hle x hx
        omega
    · simp at hs
  | expWLock n =>
    rw [hpc] at hs hpcOk; simp only [stepPc, doExpWLock] at hs
    split at hs
    · rename_i hg
      obtain ⟨hm, hrd, hcons⟩ := wGuard_facts c s hg
      obtain ⟨hstrat, hexp, hmaxn, hcapn⟩ := hpcOk
      simp at hs; subst hs
      -- the base state: lock taken, new channel allocated
      have hlenpos := hinv.core.nonempty
      have hcore0 : GCore c { s with chans := s.chans ++ [{ cap := n, buf := [] }], mig := some (i, s.curCh, s.chans.length) } := by
        constructor
        · intro j o n' hmm
          simp at hmm
          obtain ⟨rfl, rfl, rfl⟩ := hmm
          refine ⟨rfl, by simp, ?_, hstrat⟩
          intro o' ho'
          have := hinv.core.curLast hm o' ho'
          omega
        · intro hmm; simp at hmm
        · intro hne; exact absurd hstrat hne
        · exact hinv.core.flags
        · intro hcl h hh
          have hh' : s.cons = .cHold h := hh
          exact absurd ⟨hcl, by rw [hh']; rfl⟩ hcons
        · intro h ch hh hne
          by_cases hlt : h < s.chans.length
          · rw [List.getElem?_append_left hlt] at hh
            rcases hinv.core.others h ch hh hne with h1 | h1 | ⟨j, o, h1⟩
            · exact Or.inl h1
            · exact Or.inr (Or.inl h1)
            · rw [hm] at h1; simp at h1
          · have hge : s.chans.length ≤ h := Nat.le_of_not_lt hlt
            rw [List.getElem?_append_right hge] at hh
            cases hk : h - s.chans.length with
            | zero => rw [hk] at hh; simp at hh; subst hh; simp at hne
            | succ k => rw [hk] at hh; simp at hh
        · simp only [List.map_append, List.map_cons, List.map_nil]
          rw [List.pairwise_append]
          refine ⟨hinv.core.capsInc, by simp, ?_⟩
          intro a ha b hb
          simp at hb; subst hb
          obtain ⟨ch, hch, rfl⟩ := List.mem_map.mp ha
          exact hcapn ch hch
        · intro hmx ch hch
          rcases List.mem_append.mp hch with h1 | h1
          · exact hinv.core.capsMax hmx ch h1
          · simp at h1; subst h1
            have := hmaxn hmx
            simp; omega
        · intro ch hch
          rcases List.mem_append.mp hch with h1 | h1
          · exact hinv.core.capsMin ch h1
          · simp at h1; subst h1
            simp
            obtain ⟨x, hx⟩ := List.exists_mem_of_length_pos hlenpos
            have h1 := hinv.core.capsMin x hx
            have h2 := hcapn x hx
            omega
        · exact hinv.core.noDrop
        · simp
        · exact hinv.core.stopping
      refine inv_apply c _ i p p (Next.goto .expMig) hcore0 hp hP.hid hP.hcur ?_ ⟨⟨hstrat, hexp, _, _, rfl⟩, by simp⟩ ?_
      · intro j q hji hq
        have hQ := hinv.p j q hq
        refine ⟨hQ.hid, hQ.hcur, pcOk_frame c s _ j q.pc hQ.hpc (fun h => h) ?_ ?_ ?_⟩
        · intro hr _
          have := hrd q (List.mem_of_getElem? hq)
          rw [this] at hr; simp at hr
        · intro o n' hmm; rw [hm] at hmm; simp at hmm
        · intro he
          rw [hexp] at he; simp at he; exact absurd he.symm hji
      · intro j o n' hmm
        simp at hmm
        obtain ⟨rfl, _, _⟩ := hmm
        exact ⟨fun _ => rfl, fun h => absurd rfl h⟩
    · simp at hs
  | expMig =>
    rw [hpc] at hs hpcOk; simp only [stepPc, doExpMig] at hs
    obtain ⟨hstrat, hexp, o0, n0, hm0⟩ := hpcOk
    split at hs
    · rename_i j o n hm
      split at hs
      · rename_i hji
        subst hji
        simp only [migStep] at hs
        obtain ⟨hcurO, hnlen, holt, _⟩ := hinv.core.migShape j o n hm
        split at hs
        · rename_i hempty
          simp at hs; subst hs
          have hcore0 : GCore c { s with curCh := some n, mig := none } := by
            constructor
            · intro j' o' n' hmm; simp at hmm
            · intro _ h hh; simp at hh; subst hh; exact hnlen
            · exact hinv.core.single
            · refine ⟨hinv.core.flags.1, ?_, hinv.core.flags.2.2⟩
              intro hh; simp at hh
            · intro hcl h hh
              have := (hinv.core.hold hcl h hh).1
              rw [hm] at this; simp at this
            · intro h ch hh hne
              rcases hinv.core.others h ch hh hne with h1 | h1 | ⟨j', o', h1⟩
              · exact Or.inl h1
              · -- the old channel is empty
                rw [hcurO] at h1
                subst h1
                simp [oldEmpty, hh] at hempty
                exact absurd hempty hne
              · rw [hm] at h1; simp at h1
                obtain ⟨_, _, rfl⟩ := h1
                exact Or.inr (Or.inl rfl)
            · exact hinv.core.capsInc
            · exact hinv.core.capsMax
            · exact hinv.core.capsMin
            · exact hinv.core.noDrop
            · exact hinv.core.nonempty
            · exact hinv.core.stopping
          refine inv_apply c _ j p p (Next.goto .expDone) hcore0 hp hP.hid hP.hcur ?_ ⟨⟨hstrat, hexp⟩, by simp⟩ ?_
          · intro j' q hji hq
            have hQ := hinv.p j' q hq
            refine ⟨hQ.hid, hQ.hcur, pcOk_frame c s _ j' q.pc hQ.hpc (fun h => h) (fun _ _ => rfl) ?_ (fun _ _ h => h)⟩
            intro o' n' hmm
            rw [hm] at hmm; simp at hmm
            exact absurd hmm.1.symm hji
          · intro j' o' n' hmm; simp at hmm
        · split at hs
          · rename_i o' _
            exact inv_migOne c s j (some o') o' n s' hinv hm hs
          · simp at hs
      · simp at hs
    · simp at hs
  | expDone =>
    rw [hpc] at hs hpcOk; simp only [stepPc, doExpDone] at hs
    have hne : p.pc ≠ .expMig := by rw [hpc]; simp
    simp at hs; subst hs
    exact inv_guard c s i p _ none hinv hp hne (Or.inr hpcOk.2) (nxOk_trySend c s _ i 1 (Or.inr hpcOk.1))
  | expRetry k =>
    rw [hpc] at hs hpcOk; simp only [stepPc] at hs
    have hne : p.pc ≠ .expMig := by rw [hpc]; simp
    cases w <;> simp only [doExpRetry] at hs
    all_goals first
      | (simp at hs; subst hs; exact inv_plain c s i p _ hinv hp hne (nxOk_trySend c s s i (k + 2) (Or.inr hpcOk)))
      | (split at hs
         · rename_i hd
           simp at hs; subst hs; exact inv_plain c s i p _ hinv hp hne (hinv.core.flags.1 hd)
         · simp at hs)
  | dropGet =>
    rw [hpc] at hs hpcOk; simp only [stepPc, doDropGet] at hs
    have hne : p.pc ≠ .expMig := by rw [hpc]; simp
    split at hs
    · rename_i hg
      have hm := rGuard_mig s hg
      split at hs
      · rename_i hn
        simp at hs; subst hs; exact inv_plain c s i p _ hinv hp hne (hinv.core.flags.2.1 hn)
      · rename_i h hh
        simp at hs; subst hs
        have h1 := hinv.core.curLast hm h hh
        have h2 := hinv.core.single (by rw [hpcOk]; simp)
        exact inv_plain c s i p _ hinv hp hne ⟨⟨hpcOk, by omega⟩, by simp⟩
    · simp at hs
  | dropRetry k h =>
    rw [hpc] at hs hpcOk; simp only [stepPc] at hs
    have hne : p.pc ≠ .expMig := by rw [hpc]; simp
    have hcurh : s.stopped = true ∨ s.curCh = some h := by
      have hmn : s.mig = none := by
        cases hm : s.mig with
        | none => rfl
        | some x =>
          obtain ⟨j, o, n⟩ := x
          have := (hinv.core.migShape j o n hm).2.2.2
          rw [hpcOk.1] at this; simp at this
      cases hc : s.curCh with
      | none => exact Or.inl (hinv.core.flags.2.1 hc)
      | some h' =>
        have h1 := hinv.core.curLast hmn h' hc
        have h2 := hinv.core.single (by rw [hpcOk.1]; simp)
        right; rw [hpcOk.2]; congr; omega
    cases w <;> simp only [doDropRetry] at hs
    all_goals first
      | (simp at hs; subst hs; exact inv_plain c s i p _ hinv hp hne (nxOk_dropTimer c s i k h hpcOk.1 hpcOk.2))
      | (split at hs
         · exact inv_pushTo c s i p h s' hinv hp hne hcurh hs
         · simp at hs)
      | (split at hs
         · rename_i hd
           simp at hs; subst hs; exact inv_plain c s i p _ hinv hp hne (hinv.core.flags.1 hd)
         · simp at hs)
  | blockGet =>
    rw [hpc] at hs hpcOk; simp only [stepPc, doBlockGet] at hs
    have hne : p.pc ≠ .expMig := by rw [hpc]; simp
    split at hs
    · rename_i hg
      have hm := rGuard_mig s hg
      split at hs
      · rename_i hn
        simp at hs; subst hs; exact inv_plain c s i p _ hinv hp hne (hinv.core.flags.2.1 hn)
      · rename_i h hh
        simp at hs; subst hs
        have h1 := hinv.core.curLast hm h hh
        have h2 := hinv.core.single (by rw [hpcOk]; simp)
        exact inv_plain c s i p _ hinv hp hne ⟨⟨hpcOk, by omega⟩, by simp⟩
    · simp at hs
  | blockSend h =>
    rw [hpc] at hs hpcOk; simp only [stepPc] at hs
    have hne : p.pc ≠ .expMig := by rw [hpc]; simp
    have hcurh : s.stopped = true ∨ s.curCh = some h := by
      have hmn : s.mig = none := by
        cases hm : s.mig with
        | none => rfl
        | some x =>
          obtain ⟨j, o, n⟩ := x
          have := (hinv.core.migShape j o n hm).2.2.2
          rw [hpcOk.1] at this; simp at this
      cases hc : s.curCh with
      | none => exact Or.inl (hinv.core.flags.2.1 hc)
      | some h' =>
        have h1 := hinv.core.curLast hmn h' hc
        have h2 := hinv.core.single (by rw [hpcOk.1]; simp)
        right; rw [hpcOk.2]; congr; omega
    cases w <;> simp only [doBlockSend] at hs
    all_goals first
      | (simp at hs; done)
      | (split at hs
         · exact inv_pushTo c s i p h s' hinv hp hne hcurh hs
         · simp at hs)
      | (split at hs
         · rename_i hd
           simp at hs; subst hs; exact inv_plain c s i p _ hinv hp hne (hinv.core.flags.1 hd)
         · simp at hs)
      | (split at hs
         · rename_i ht
           simp at hs; subst hs
           refine inv_plain c s i p _ hinv hp hne ?_
           simp [NxOk, ht]
         · simp at hs)

end Ingest

namespace Ingest

theorem isHold_cHold (h : Nat) : isHold (.cHold h) = true := rfl

theorem inv_step (c : Cfg) (s s' : State) (t : Tid) (w : Wit) (hinv : Inv c s) (hs : step c s t w = some s') :
    Inv c s' := by
  cases t with
  | prod i =>
    simp only [step, stepProd] at hs
    split at hs
    · simp at hs
    · rename_i p hp
      exact inv_stepPc c s i p w s' hp hinv hs
  | cons =>
    simp only [step, stepCons] at hs
    have core := hinv.core
    -- leaving `cHold` (or staying out of it) makes `hold` vacuous
    have leave : ∀ (s1 : State) (pc : CPC), (∀ h, pc ≠ .cHold h) → s1 = { s with cons := pc } → Inv c s1 := by
      intro s1 pc hpc he; subst he
      refine inv_core c s _ hinv ?_ rfl rfl rfl rfl
      have hnew : c.consLock = true → ∀ h, pc = .cHold h → s.mig = none ∧ s.curCh = some h := by
        intro _ h hh; exact absurd hh (hpc h)
      exact { core with hold := hnew }
    split at hs
    · -- cRead
      rename_i hcr
      simp only [doConsRead] at hs
      split at hs
      · rename_i hg
        have hm := rGuard_mig s hg
        split at hs
        · simp at hs; subst hs
          exact leave _ .cExit (by intro h; simp) rfl
        · rename_i h hh
          simp at hs; subst hs
          refine inv_core c s _ hinv ?_ rfl rfl rfl rfl
          have hnew : c.consLock = true → ∀ h', CPC.cHold h = .cHold h' → s.mig = none ∧ s.curCh = some h' := by
            intro _ h' hh'
            simp at hh'; subst hh'
            exact ⟨hm, hh⟩
          exact { core with hold := hnew }
      · simp at hs
    · -- cHold
      rename_i h hch
      cases w <;> simp only [doConsHold] at hs
      all_goals first
        | (simp at hs; done)
        | exact inv_recvFrom c s _ s' hinv hs
        | (simp at hs; subst hs; exact leave _ .cRead (by intro h; simp) rfl)
        | (split at hs
           · simp at hs; subst hs; exact leave _ .cExit (by intro h; simp) rfl
           · simp at hs)
    · simp at hs
  | stop =>
    simp only [step, stepStop] at hs
    have core := hinv.core
    split at hs
    · rename_i hpc
      split at hs
      · rename_i hst
        simp at hs; subst hs
        refine inv_core c s _ hinv ?_ rfl rfl rfl rfl
        have hnew : SPC.sRet ≠ .sIdle → s.stopped = true := fun _ => hst
        exact { core with stopping := hnew }
      · simp at hs; subst hs
        refine inv_core c s _ hinv ?_ rfl rfl rfl rfl
        have f1 : (s.done = true → true = true) ∧ (s.curCh = none → true = true) ∧ (s.exits ≠ [] → true = true) :=
          ⟨fun _ => rfl, fun _ => rfl, fun _ => rfl⟩
        have f2 : ∀ h ch, s.chans[h]? = some ch → ch.buf ≠ [] →
            true = true ∨ s.curCh = some h ∨ ∃ j o, s.mig = some (j, o, h) := fun _ _ _ _ => Or.inl rfl
        have f3 : SPC.sFlag ≠ .sIdle → true = true := fun _ => rfl
        exact { core with flags := f1, others := f2, stopping := f3 }
    · rename_i hpc
      simp at hs; subst hs
      have hst : s.stopped = true := core.stopping (by rw [hpc]; simp)
      refine inv_core c s _ hinv ?_ rfl rfl rfl rfl
      have f1 : (true = true → s.stopped = true) ∧ (s.curCh = none → s.stopped = true) ∧ (s.exits ≠ [] → s.stopped = true) :=
        ⟨fun _ => hst, core.flags.2.1, core.flags.2.2⟩
      have f3 : SPC.sDone ≠ .sIdle → s.stopped = true := fun _ => hst
      exact { core with flags := f1, stopping := f3 }
    · rename_i hpc
      split at hs
      · rename_i hg
        obtain ⟨hm, hrd, hcons⟩ := wGuard_facts c s hg
        have hst : s.stopped = true := core.stopping (by rw [hpc]; simp)
        simp at hs; subst hs
        refine inv_core c s _ hinv ?_ rfl rfl rfl rfl
        have g1 : ∀ j o n, s.mig = some (j, o, n) →
            (none : Option Nat) = o ∧ n + 1 = s.chans.length ∧ (∀ o', o = some o' → o' < n) ∧ c.strat = .expand := by
          intro j o n hmm; rw [hm] at hmm; simp at hmm
        have g2 : s.mig = none → ∀ h, (none : Option Nat) = some h → h + 1 = s.chans.length := by
          intro _ h hh; simp at hh
        have f1 : (s.done = true → s.stopped = true) ∧ ((none : Option Nat) = none → s.stopped = true) ∧ (s.exits ≠ [] → s.stopped = true) :=
          ⟨core.flags.1, fun _ => hst, core.flags.2.2⟩
        have g5 : c.consLock = true → ∀ h, s.cons = .cHold h → s.mig = none ∧ (none : Option Nat) = some h := by
          intro hcl h hh
          exact absurd ⟨hcl, by rw [hh]; rfl⟩ hcons
        have f2 : ∀ h ch, s.chans[h]? = some ch → ch.buf ≠ [] →
            s.stopped = true ∨ (none : Option Nat) = some h ∨ ∃ j o, s.mig = some (j, o, h) := fun _ _ _ _ => Or.inl hst
        have f3 : SPC.sNil ≠ .sIdle → s.stopped = true := fun _ => hst
        exact { core with migShape := g1, curLast := g2, flags := f1, hold := g5, others := f2, stopping := f3 }
      · simp at hs
    · rename_i hpc
      simp at hs; subst hs
      have hst : s.stopped = true := core.stopping (by rw [hpc]; simp)
      refine inv_core c s _ hinv ?_ rfl rfl rfl rfl
      have f3 : SPC.sWait ≠ .sIdle → s.stopped = true := fun _ => hst
      exact { core with stopping := f3 }
    · simp at hs
    · simp at hs

theorem inv_init (c : Cfg) (n : Nat) : Inv c (init c n) := by
  refine ⟨?_, ?_, ?_⟩
  · constructor
    · intro j o n' h; simp [init] at h
    · intro _ h hh; simp [init] at hh; subst hh; simp [init]
    · intro _; simp [init]
    · simp [init]
    · intro _ h hh; simp [init] at hh
    · intro h ch hh hne
      simp [init] at hh
      cases h with
      | zero => simp at hh; subst hh; simp at hne
      | succ k => simp at hh
    · simp [init]
    · intro _ ch hch; simp [init] at hch; subst hch; simp; omega
    · intro ch hch; simp [init] at hch; subst hch; simp
    · intro _ _; simp [init]
    · simp [init]
    · intro h; simp [init] at h
  · intro j o n' h; simp [init] at h
  · intro j q hq
    simp [init] at hq
    obtain ⟨k, hk, rfl⟩ := hq
    have hkj : k = j := by
      have := List.getElem?_eq_some_iff.mp hk
      obtain ⟨hlt, he⟩ := this
      simpa using he.symm
    subst hkj
    exact ⟨rfl, by intro r hr; simp at hr, trivial⟩

theorem inv_reach (c : Cfg) (n : Nat) (s : State) (h : Reach c n s) : Inv c s := by
  induction h with
  | init => exact inv_init c n
  | step t w _ hs ih => exact inv_step c _ _ t w ih hs

end Ingest
