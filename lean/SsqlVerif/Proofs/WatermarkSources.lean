/-
C02, first clause at full strength: *what can raise a watermark*.

`WatermarkBound.lean` bounds the watermark by the largest ingested timestamp for histories without idle
ticks, and counts every ingested timestamp as a possible source — also one the far-future guard refused.
Here both restrictions go: in every history the current watermark is backed either by an event time that
**passed the far-future guard** (`accepted`) or by the wall clock of a tick at which the **idle timeout had
elapsed** (`idleNows`), each minus MAXOUTOFORDERNESS.  Core Lean only.
-/
import SsqlVerif.Proofs.WatermarkBound
set_option autoImplicit false
set_option linter.unusedVariables false
set_option linter.unusedSimpArgs false

namespace Wm

/-- `A`: event times that passed the guard so far; `I`: wall-clock readings of idle ticks so far -/
structure Backed (A I : List Int) (w : Wm) : Prop where
  cur : ∀ c, w.cur = some c → (∃ m ∈ A, c ≤ m - w.maxOOO) ∨ (∃ n ∈ I, c ≤ n - w.maxOOO)
  max : ∀ m, w.maxEv = some m → m ∈ A

theorem backed_mono {A I A' I' : List Int} {w : Wm} (h : Backed A I w)
    (ha : ∀ x ∈ A, x ∈ A') (hi : ∀ x ∈ I, x ∈ I') : Backed A' I' w where
  cur := by
    intro c hc
    rcases h.cur c hc with ⟨m, hm, hle⟩ | ⟨n, hn, hle⟩
    · exact Or.inl ⟨m, ha m hm, hle⟩
    · exact Or.inr ⟨n, hi n hn, hle⟩
  max := fun m hm => ha m (h.max m hm)

theorem backed_send {A I : List Int} {w : Wm} (h : Backed A I w) : Backed A I (send w) where
  cur := by
    intro c hc
    rw [Tumbling.send_cur] at hc
    rw [Tumbling.send_maxOOO]
    exact h.cur c hc
  max := by intro m hm; rw [send_maxEv] at hm; exact h.max m hm

theorem send_slack (w : Wm) : (send w).slack = w.slack := by
  unfold send; split
  · rfl
  · split
    · split <;> rfl
    · rfl

/-- the event times an `UpdateEventTime` call contributes: its argument, unless the guard refuses it -/
def acc1 (w : Wm) (ts now : Int) : List Int := if tooFar w ts now then [] else [ts]

theorem backed_updateEventTime {A I : List Int} {w : Wm} (ts now : Int) (h : Backed A I w) :
    Backed (A ++ acc1 w ts now) I (updateEventTime w ts now) := by
  unfold updateEventTime acc1
  split
  · simpa using h
  · apply backed_send
    unfold bumpMax
    split
    · constructor
      · intro c hc
        simp only at hc ⊢
        unfold raise at hc
        split at hc
        · cases hc; exact Or.inl ⟨ts, by simp, Int.le_refl _⟩
        · rcases h.cur c hc with ⟨m, hm, hle⟩ | ⟨n, hn, hle⟩
          · exact Or.inl ⟨m, List.mem_append_left _ hm, hle⟩
          · exact Or.inr ⟨n, hn, hle⟩
      · intro m hm
        simp only [Option.some.injEq] at hm
        rw [← hm]; simp
    · exact backed_mono h (fun x hx => List.mem_append_left _ hx) (fun x hx => hx)

/-- the wall-clock readings a tick contributes -/
def idle1 (idle : Bool) (now : Int) : List Int := if idle then [now] else []

theorem backed_tick {A I : List Int} {w : Wm} (idle : Bool) (now : Int) (h : Backed A I w) :
    Backed A (I ++ idle1 idle now) (tick w idle now) := by
  unfold tick
  split
  · exact backed_mono h (fun x hx => hx) (fun x hx => List.mem_append_left _ hx)
  · rename_i m hm
    apply backed_send
    constructor
    · intro c hc
      simp only at hc ⊢
      cases idle with
      | true =>
        simp only [if_true] at hc
        unfold raise at hc
        by_cases ha : after (now - w.maxOOO) w.cur = true
        · rw [if_pos ha] at hc; cases hc
          exact Or.inr ⟨now, by simp [idle1], Int.le_refl _⟩
        · rw [if_neg ha] at hc
          rcases h.cur c hc with ⟨m', hm', hle⟩ | ⟨n, hn, hle⟩
          · exact Or.inl ⟨m', hm', hle⟩
          · exact Or.inr ⟨n, List.mem_append_left _ hn, hle⟩
      | false =>
        simp only [Bool.false_eq_true, if_false] at hc
        unfold raise at hc
        by_cases ha : after (m - w.maxOOO) w.cur = true
        · rw [if_pos ha] at hc; cases hc
          exact Or.inl ⟨m, h.max m hm, Int.le_refl _⟩
        · rw [if_neg ha] at hc
          rcases h.cur c hc with ⟨m', hm', hle⟩ | ⟨n, hn, hle⟩
          · exact Or.inl ⟨m', hm', hle⟩
          · exact Or.inr ⟨n, List.mem_append_left _ hn, hle⟩
    · intro m' hm'; exact h.max m' hm'

theorem backed_pop {A I : List Int} {w w' : Wm} (x : Int) (h : Backed A I w) (hp : pop w = some (x, w')) :
    Backed A I w' := by
  unfold pop at hp
  split at hp
  · cases hp
  · simp only [Option.some.injEq, Prod.mk.injEq] at hp
    obtain ⟨_, rfl⟩ := hp
    exact ⟨h.cur, h.max⟩

theorem updateEventTime_slack (w : Wm) (ts now : Int) : (updateEventTime w ts now).slack = w.slack := by
  unfold updateEventTime; split
  · rfl
  · rw [send_slack]; unfold bumpMax; split <;> rfl

theorem tick_slack (w : Wm) (idle : Bool) (now : Int) : (tick w idle now).slack = w.slack := by
  unfold tick; split
  · rfl
  · rw [send_slack]

theorem pop_slack (w w' : Wm) (x : Int) (hp : pop w = some (x, w')) : w'.slack = w.slack := by
  unfold pop at hp
  split at hp
  · cases hp
  · simp only [Option.some.injEq, Prod.mk.injEq] at hp
    obtain ⟨_, rfl⟩ := hp
    rfl

/-- the guard as a function of the two configuration constants -/
def refused (ooo slack ts now : Int) : Bool := decide (now + ooo + slack < ts)

end Wm

/-! ### the three window kinds: the sources of a history -/

namespace Tumbling
open Wm

/-- event times of the history's Adds that passed the far-future guard -/
def accepted (ooo slack : Int) : List Op → List Int
  | [] => []
  | .add r now :: ops => (if refused ooo slack r.ts now then [] else [r.ts]) ++ accepted ooo slack ops
  | _ :: ops => accepted ooo slack ops

/-- wall-clock readings of the ticks at which the idle timeout had elapsed -/
def idleNows : List Op → List Int
  | [] => []
  | .tick true now :: ops => now :: idleNows ops
  | _ :: ops => idleNows ops

theorem step_slack (s : TW) (op : Op) : (step s op).1.wm.slack = s.wm.slack := by
  cases op with
  | add r now => exact updateEventTime_slack _ _ _
  | addNoTs => rfl
  | tick idle now => exact tick_slack _ _ _
  | pop =>
    simp only [step, stepPop]
    split
    · rename_i w wm' _ hp; exact pop_slack _ _ _ hp
    · rfl
  | iter =>
    simp only [step, stepIter]
    split
    · split
      · unfold fireOrSkip; split <;> rfl
      · rfl
    · rfl
    · rfl

theorem step_backed (s : TW) (op : Op) (A I : List Int) (h : Backed A I s.wm) :
    Backed (A ++ accepted s.wm.maxOOO s.wm.slack [op]) (I ++ idleNows [op]) (step s op).1.wm := by
  cases op with
  | add r now =>
    have e1 : accepted s.wm.maxOOO s.wm.slack [Op.add r now] = acc1 s.wm r.ts now := by
      simp [accepted, acc1, tooFar, refused]
    have e2 : idleNows [Op.add r now] = [] := rfl
    rw [e1, e2, List.append_nil]
    exact backed_updateEventTime r.ts now h
  | addNoTs =>
    have e1 : accepted s.wm.maxOOO s.wm.slack [Op.addNoTs] = [] := rfl
    have e2 : idleNows [Op.addNoTs] = [] := rfl
    rw [e1, e2, List.append_nil, List.append_nil]; exact h
  | tick idle now =>
    have e1 : accepted s.wm.maxOOO s.wm.slack [Op.tick idle now] = [] := rfl
    have e2 : idleNows [Op.tick idle now] = idle1 idle now := by cases idle <;> rfl
    rw [e1, e2, List.append_nil]
    exact backed_tick idle now h
  | pop =>
    simp only [step, stepPop, accepted, idleNows, List.append_nil]
    split
    · rename_i w wm' _ hp; exact backed_pop _ h hp
    · exact h
  | iter =>
    have : (stepIter s).1.wm = s.wm := by
      unfold stepIter
      split
      · split
        · unfold fireOrSkip; split <;> rfl
        · rfl
      · rfl
      · rfl
    simp only [step, accepted, idleNows, List.append_nil]
    rw [this]; exact h

theorem accepted_cons (ooo slack : Int) (op : Op) (ops : List Op) :
    accepted ooo slack (op :: ops) = accepted ooo slack [op] ++ accepted ooo slack ops := by
  cases op <;> simp [accepted]

theorem idleNows_cons (op : Op) (ops : List Op) : idleNows (op :: ops) = idleNows [op] ++ idleNows ops := by
  cases op with
  | tick idle now => cases idle <;> simp [idleNows]
  | _ => simp [idleNows]

theorem run_backed (s : TW) (ops : List Op) (A I : List Int) (h : Backed A I s.wm) :
    Backed (A ++ accepted s.wm.maxOOO s.wm.slack ops) (I ++ idleNows ops) (run s ops).1.wm := by
  induction ops generalizing s A I with
  | nil =>
    have e1 : accepted s.wm.maxOOO s.wm.slack [] = [] := rfl
    have e2 : idleNows ([] : List Op) = [] := rfl
    rw [e1, e2, List.append_nil, List.append_nil]; exact h
  | cons op ops ih =>
    simp only [run]
    have h1 := step_backed s op A I h
    have h2 := ih (step s op).1 _ _ h1
    rw [step_maxOOO, step_slack] at h2
    rw [accepted_cons, idleNows_cons, ← List.append_assoc, ← List.append_assoc]
    exact h2

end Tumbling

namespace Sliding
open Wm

def accepted (ooo slack : Int) : List Op → List Int
  | [] => []
  | .add r now :: ops => (if refused ooo slack r.ts now then [] else [r.ts]) ++ accepted ooo slack ops
  | _ :: ops => accepted ooo slack ops

def idleNows : List Op → List Int
  | [] => []
  | .tick true now :: ops => now :: idleNows ops
  | _ :: ops => idleNows ops

theorem stepIter_wm (s : SW) : (stepIter s).1.wm = s.wm := by
  unfold stepIter
  split
  · split
    · unfold fireOrSkip; split <;> rfl
    · rfl
  · rfl
  · rfl

theorem step_consts (s : SW) (op : Op) :
    (step s op).1.wm.slack = s.wm.slack ∧ (step s op).1.wm.maxOOO = s.wm.maxOOO := by
  cases op with
  | add r now => exact ⟨updateEventTime_slack _ _ _, updateEventTime_maxOOO _ _ _⟩
  | addNoTs => exact ⟨rfl, rfl⟩
  | tick idle now => exact ⟨tick_slack _ _ _, tick_maxOOO _ _ _⟩
  | pop =>
    simp only [step, stepPop]
    split
    · rename_i w wm' _ hp; exact ⟨pop_slack _ _ _ hp, (pop_maxEv _ _ _ hp).2⟩
    · exact ⟨rfl, rfl⟩
  | iter => simp only [step]; rw [stepIter_wm]; exact ⟨rfl, rfl⟩

theorem step_backed (s : SW) (op : Op) (A I : List Int) (h : Backed A I s.wm) :
    Backed (A ++ accepted s.wm.maxOOO s.wm.slack [op]) (I ++ idleNows [op]) (step s op).1.wm := by
  cases op with
  | add r now =>
    have e1 : accepted s.wm.maxOOO s.wm.slack [Op.add r now] = acc1 s.wm r.ts now := by
      simp [accepted, acc1, tooFar, refused]
    have e2 : idleNows [Op.add r now] = [] := rfl
    rw [e1, e2, List.append_nil]
    exact backed_updateEventTime r.ts now h
  | addNoTs =>
    have e1 : accepted s.wm.maxOOO s.wm.slack [Op.addNoTs] = [] := rfl
    have e2 : idleNows [Op.addNoTs] = [] := rfl
    rw [e1, e2, List.append_nil, List.append_nil]; exact h
  | tick idle now =>
    have e1 : accepted s.wm.maxOOO s.wm.slack [Op.tick idle now] = [] := rfl
    have e2 : idleNows [Op.tick idle now] = idle1 idle now := by cases idle <;> rfl
    rw [e1, e2, List.append_nil]
    exact backed_tick idle now h
  | pop =>
    simp only [step, stepPop, accepted, idleNows, List.append_nil]
    split
    · rename_i w wm' _ hp; exact backed_pop _ h hp
    · exact h
  | iter =>
    simp only [step, accepted, idleNows, List.append_nil]
    rw [stepIter_wm]; exact h

theorem accepted_cons (ooo slack : Int) (op : Op) (ops : List Op) :
    accepted ooo slack (op :: ops) = accepted ooo slack [op] ++ accepted ooo slack ops := by
  cases op <;> simp [accepted]

theorem idleNows_cons (op : Op) (ops : List Op) : idleNows (op :: ops) = idleNows [op] ++ idleNows ops := by
  cases op with
  | tick idle now => cases idle <;> simp [idleNows]
  | _ => simp [idleNows]

theorem run_backed (s : SW) (ops : List Op) (A I : List Int) (h : Backed A I s.wm) :
    Backed (A ++ accepted s.wm.maxOOO s.wm.slack ops) (I ++ idleNows ops) (run s ops).1.wm ∧
    (run s ops).1.wm.maxOOO = s.wm.maxOOO := by
  induction ops generalizing s A I with
  | nil =>
    have e1 : accepted s.wm.maxOOO s.wm.slack [] = [] := rfl
    have e2 : idleNows ([] : List Op) = [] := rfl
    rw [e1, e2, List.append_nil, List.append_nil]; exact ⟨h, rfl⟩
  | cons op ops ih =>
    simp only [run]
    have h1 := step_backed s op A I h
    have h2 := ih (step s op).1 _ _ h1
    rw [(step_consts s op).1, (step_consts s op).2] at h2
    rw [accepted_cons, idleNows_cons, ← List.append_assoc, ← List.append_assoc]
    exact h2

end Sliding

namespace Session
open Wm

def accepted (ooo slack : Int) : List Op → List Int
  | [] => []
  | .add _ r now :: ops => (if refused ooo slack r.ts now then [] else [r.ts]) ++ accepted ooo slack ops
  | _ :: ops => accepted ooo slack ops

def idleNows : List Op → List Int
  | [] => []
  | .tick true now :: ops => now :: idleNows ops
  | _ :: ops => idleNows ops

theorem step_consts (w : SWin) (op : Op) :
    (step w op).1.wm.slack = w.wm.slack ∧ (step w op).1.wm.maxOOO = w.wm.maxOOO := by
  cases op with
  | add k r now => exact ⟨updateEventTime_slack _ _ _, updateEventTime_maxOOO _ _ _⟩
  | addNoTs => exact ⟨rfl, rfl⟩
  | tick idle now => exact ⟨tick_slack _ _ _, tick_maxOOO _ _ _⟩
  | deliver =>
    simp only [step, stepDeliver]
    split
    · exact ⟨rfl, rfl⟩
    · rename_i x wm' hp; exact ⟨pop_slack _ _ _ hp, (pop_maxEv _ _ _ hp).2⟩

theorem step_backed (w : SWin) (op : Op) (A I : List Int) (h : Backed A I w.wm) :
    Backed (A ++ accepted w.wm.maxOOO w.wm.slack [op]) (I ++ idleNows [op]) (step w op).1.wm := by
  cases op with
  | add k r now =>
    have e1 : accepted w.wm.maxOOO w.wm.slack [Op.add k r now] = acc1 w.wm r.ts now := by
      simp [accepted, acc1, tooFar, refused]
    have e2 : idleNows [Op.add k r now] = [] := rfl
    rw [e1, e2, List.append_nil]
    exact backed_updateEventTime r.ts now h
  | addNoTs =>
    have e1 : accepted w.wm.maxOOO w.wm.slack [Op.addNoTs] = [] := rfl
    have e2 : idleNows [Op.addNoTs] = [] := rfl
    rw [e1, e2, List.append_nil, List.append_nil]; exact h
  | tick idle now =>
    have e1 : accepted w.wm.maxOOO w.wm.slack [Op.tick idle now] = [] := rfl
    have e2 : idleNows [Op.tick idle now] = idle1 idle now := by cases idle <;> rfl
    rw [e1, e2, List.append_nil]
    exact backed_tick idle now h
  | deliver =>
    simp only [step, stepDeliver, accepted, idleNows, List.append_nil]
    split
    · exact h
    · rename_i x wm' hp; exact backed_pop _ h hp

theorem accepted_cons (ooo slack : Int) (op : Op) (ops : List Op) :
    accepted ooo slack (op :: ops) = accepted ooo slack [op] ++ accepted ooo slack ops := by
  cases op <;> simp [accepted]

theorem idleNows_cons (op : Op) (ops : List Op) : idleNows (op :: ops) = idleNows [op] ++ idleNows ops := by
  cases op with
  | tick idle now => cases idle <;> simp [idleNows]
  | _ => simp [idleNows]

theorem run_backed (w : SWin) (ops : List Op) (A I : List Int) (h : Backed A I w.wm) :
    Backed (A ++ accepted w.wm.maxOOO w.wm.slack ops) (I ++ idleNows ops) (run w ops).1.wm ∧
    (run w ops).1.wm.maxOOO = w.wm.maxOOO := by
  induction ops generalizing w A I with
  | nil =>
    have e1 : accepted w.wm.maxOOO w.wm.slack [] = [] := rfl
    have e2 : idleNows ([] : List Op) = [] := rfl
    rw [e1, e2, List.append_nil, List.append_nil]; exact ⟨h, rfl⟩
  | cons op ops ih =>
    simp only [run]
    have h1 := step_backed w op A I h
    have h2 := ih (step w op).1 _ _ h1
    rw [(step_consts w op).1, (step_consts w op).2] at h2
    rw [accepted_cons, idleNows_cons, ← List.append_assoc, ← List.append_assoc]
    exact h2

end Session
