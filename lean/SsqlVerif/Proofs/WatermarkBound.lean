/-
Helper lemmas for C02: without idle ticks the watermark never exceeds (largest ingested valid
timestamp − MAXOUTOFORDERNESS), and that timestamp was really ingested.  Core Lean only.
-/
import SsqlVerif.Proofs.TumblingLate
import SsqlVerif.Proofs.SlidingHist
import SsqlVerif.Proofs.SessionRun
set_option autoImplicit false
set_option linter.unusedVariables false
set_option linter.unusedSimpArgs false

namespace Wm

/-- the watermark is backed by an ingested maximum -/
def Bnd (w : Wm) : Prop := ∀ c, w.cur = some c → ∃ m, w.maxEv = some m ∧ c ≤ m - w.maxOOO

/-- the recorded maximum is one of the timestamps in `l` -/
def MaxIn (l : List Int) (w : Wm) : Prop := ∀ m, w.maxEv = some m → m ∈ l

theorem send_maxEv (w : Wm) : (send w).maxEv = w.maxEv := by
  unfold send; split
  · rfl
  · split
    · split <;> rfl
    · rfl

theorem bnd_send (w : Wm) (h : Bnd w) : Bnd (send w) := by
  intro c hc
  rw [Tumbling.send_cur] at hc
  obtain ⟨m, hm, hle⟩ := h c hc
  exact ⟨m, by rw [send_maxEv]; exact hm, by rw [Tumbling.send_maxOOO]; exact hle⟩

theorem bnd_bumpMax (w : Wm) (ts : Int) (h : Bnd w) : Bnd (bumpMax w ts) := by
  unfold bumpMax
  split
  · rename_i haft
    intro c hc
    simp only at hc ⊢
    refine ⟨ts, rfl, ?_⟩
    unfold raise at hc
    split at hc
    · cases hc; exact Int.le_refl _
    · obtain ⟨m, hm, hle⟩ := h c hc
      unfold after at haft
      rw [hm] at haft
      simp only [decide_eq_true_eq] at haft
      omega
  · exact h

theorem bnd_updateEventTime (w : Wm) (ts now : Int) (h : Bnd w) : Bnd (updateEventTime w ts now) := by
  unfold updateEventTime; split
  · exact h
  · exact bnd_send _ (bnd_bumpMax w ts h)

theorem bnd_tick (w : Wm) (now : Int) (h : Bnd w) : Bnd (tick w false now) := by
  unfold tick; split
  · exact h
  · rename_i m hm
    apply bnd_send
    intro c hc
    simp only [Bool.false_eq_true, if_false] at hc ⊢
    refine ⟨m, hm, ?_⟩
    unfold raise at hc
    by_cases ha : after (m - w.maxOOO) w.cur = true
    · rw [if_pos ha] at hc; cases hc; exact Int.le_refl _
    · rw [if_neg ha] at hc
      obtain ⟨m', hm', hle⟩ := h c hc
      rw [hm] at hm'; cases hm'; exact hle

theorem bnd_pop (w w' : Wm) (x : Int) (h : Bnd w) (hp : pop w = some (x, w')) : Bnd w' := by
  unfold pop at hp
  split at hp
  · cases hp
  · simp only [Option.some.injEq, Prod.mk.injEq] at hp
    obtain ⟨_, rfl⟩ := hp
    exact h

theorem maxIn_mono (l l' : List Int) (w : Wm) (h : MaxIn l w) (hs : ∀ x ∈ l, x ∈ l') : MaxIn l' w :=
  fun m hm => hs m (h m hm)

theorem maxIn_updateEventTime (l : List Int) (w : Wm) (ts now : Int) (h : MaxIn l w) :
    MaxIn (l ++ [ts]) (updateEventTime w ts now) := by
  intro m hm
  unfold updateEventTime at hm
  split at hm
  · exact List.mem_append_left _ (h m hm)
  · rw [send_maxEv] at hm
    unfold bumpMax at hm
    split at hm
    · simp only [Option.some.injEq] at hm; rw [← hm]; simp
    · exact List.mem_append_left _ (h m hm)

theorem tick_maxEv (w : Wm) (idle : Bool) (now : Int) : (tick w idle now).maxEv = w.maxEv := by
  unfold tick; split
  · rfl
  · rw [send_maxEv]

theorem pop_maxEv (w w' : Wm) (x : Int) (hp : pop w = some (x, w')) : w'.maxEv = w.maxEv ∧ w'.maxOOO = w.maxOOO := by
  unfold pop at hp
  split at hp
  · cases hp
  · simp only [Option.some.injEq, Prod.mk.injEq] at hp
    obtain ⟨_, rfl⟩ := hp
    exact ⟨rfl, rfl⟩

end Wm

namespace Tumbling
open Wm

def NoIdle : Op → Prop
  | .tick idle _ => idle = false
  | _ => True

instance (op : Op) : Decidable (NoIdle op) := by
  cases op <;> simp only [NoIdle] <;> infer_instance

def ingested : List Op → List Int
  | [] => []
  | .add r _ :: ops => r.ts :: ingested ops
  | _ :: ops => ingested ops

theorem step_wm (s : TW) (op : Op) (l : List Int) (hb : Bnd s.wm) (hm : MaxIn l s.wm) (hni : NoIdle op) :
    Bnd (step s op).1.wm ∧ MaxIn (l ++ ingested [op]) (step s op).1.wm := by
  cases op with
  | add r now =>
    exact ⟨bnd_updateEventTime _ _ _ hb, maxIn_updateEventTime l s.wm r.ts now hm⟩
  | addNoTs => exact ⟨hb, by simp only [ingested, List.append_nil]; exact hm⟩
  | tick idle now =>
    simp only [NoIdle] at hni; subst hni
    exact ⟨bnd_tick _ _ hb, by intro m h; simp only [step, tick_maxEv] at h; simpa [ingested] using hm m h⟩
  | pop =>
    simp only [step, stepPop, ingested, List.append_nil]
    split
    · rename_i w wm' _ hp
      exact ⟨bnd_pop _ _ _ hb hp, by intro m h; simp only at h; rw [(pop_maxEv _ _ _ hp).1] at h; exact hm m h⟩
    · exact ⟨hb, hm⟩
  | iter =>
    have : (stepIter s).1.wm = s.wm := by
      unfold stepIter
      split
      · split
        · unfold fireOrSkip; split <;> rfl
        · rfl
      · rfl
      · rfl
    simp only [step, ingested, List.append_nil]
    rw [this]; exact ⟨hb, hm⟩

theorem ingested_append (a b : List Op) : ingested (a ++ b) = ingested a ++ ingested b := by
  induction a with
  | nil => rfl
  | cons op a ih => cases op <;> simp [ingested, ih]

theorem run_wm (s : TW) (ops : List Op) (l : List Int) (hb : Bnd s.wm) (hm : MaxIn l s.wm)
    (hni : ∀ op ∈ ops, NoIdle op) :
    Bnd (run s ops).1.wm ∧ MaxIn (l ++ ingested ops) (run s ops).1.wm := by
  induction ops generalizing s l with
  | nil => exact ⟨hb, by simp only [ingested, List.append_nil]; exact hm⟩
  | cons op ops ih =>
    simp only [run]
    obtain ⟨h1, h2⟩ := step_wm s op l hb hm (hni op (by simp))
    have := ih (step s op).1 (l ++ ingested [op]) h1 h2 (fun o ho => hni o (by simp [ho]))
    have hcons : ingested (op :: ops) = ingested [op] ++ ingested ops := ingested_append [op] ops
    rw [hcons, ← List.append_assoc]; exact this

end Tumbling

namespace Wm
theorem updateEventTime_maxOOO (w : Wm) (ts now : Int) : (updateEventTime w ts now).maxOOO = w.maxOOO := by
  unfold updateEventTime; split
  · rfl
  · rw [Tumbling.send_maxOOO]; unfold bumpMax; split <;> rfl

theorem tick_maxOOO (w : Wm) (idle : Bool) (now : Int) : (tick w idle now).maxOOO = w.maxOOO := by
  unfold tick; split
  · rfl
  · rw [Tumbling.send_maxOOO]

/-- the future guard leaves the whole watermark state untouched -/
theorem future_inert (w : Wm) (ts now : Int) (h : tooFar w ts now = true) : updateEventTime w ts now = w := by
  unfold updateEventTime; rw [if_pos h]

/-- with room in the channel, every update/tick leaves nothing unsent: a watermark that could not
be queued earlier is re-offered and queued -/
theorem send_delivers (w : Wm) (c : Int) (hc : w.cur = some c) (hroom : w.chan.length < w.cap) :
    (send w).lastSent = some c ∨ (w.lastSent = (send w).lastSent ∧ after c w.lastSent = false) := by
  unfold send
  rw [hc]
  simp only
  by_cases ha : after c w.lastSent = true
  · rw [if_pos ha, if_pos hroom]; exact Or.inl rfl
  · rw [if_neg ha]; exact Or.inr ⟨rfl, by simpa using ha⟩
end Wm

namespace Tumbling
open Wm
theorem step_maxOOO (s : TW) (op : Op) : (step s op).1.wm.maxOOO = s.wm.maxOOO := by
  cases op with
  | add r now => exact updateEventTime_maxOOO _ _ _
  | addNoTs => rfl
  | tick idle now => exact tick_maxOOO _ _ _
  | pop =>
    simp only [step, stepPop]
    split
    · rename_i w wm' _ hp; exact (pop_maxEv _ _ _ hp).2
    · rfl
  | iter =>
    simp only [step, stepIter]
    split
    · split
      · unfold fireOrSkip; split <;> rfl
      · rfl
    · rfl
    · rfl

theorem run_maxOOO (s : TW) (ops : List Op) : (run s ops).1.wm.maxOOO = s.wm.maxOOO := by
  induction ops generalizing s with
  | nil => rfl
  | cons op ops ih => simp only [run]; rw [ih, step_maxOOO]
end Tumbling

namespace Session
open Wm

def NoIdle : Op → Prop
  | .tick idle _ => idle = false
  | _ => True

def ingested : List Op → List Int
  | [] => []
  | .add _ r _ :: ops => r.ts :: ingested ops
  | _ :: ops => ingested ops

theorem ingested_append (a b : List Op) : ingested (a ++ b) = ingested a ++ ingested b := by
  induction a with
  | nil => rfl
  | cons op a ih => cases op <;> simp [ingested, ih]

theorem step_wm (w : SWin) (op : Op) (l : List Int) (hb : Bnd w.wm) (hm : MaxIn l w.wm) (hni : NoIdle op) :
    Bnd (step w op).1.wm ∧ MaxIn (l ++ ingested [op]) (step w op).1.wm ∧ (step w op).1.wm.maxOOO = w.wm.maxOOO := by
  cases op with
  | add k r now =>
    exact ⟨bnd_updateEventTime _ _ _ hb, maxIn_updateEventTime l w.wm r.ts now hm, updateEventTime_maxOOO _ _ _⟩
  | addNoTs => exact ⟨hb, by simp only [ingested, List.append_nil]; exact hm, rfl⟩
  | tick idle now =>
    simp only [NoIdle] at hni; subst hni
    exact ⟨bnd_tick _ _ hb, by intro m h; simp only [step, tick_maxEv] at h; simpa [ingested] using hm m h, tick_maxOOO _ _ _⟩
  | deliver =>
    simp only [step, stepDeliver, ingested, List.append_nil]
    split
    · exact ⟨hb, hm, rfl⟩
    · rename_i x wm' hp
      have h1 := bnd_pop _ _ _ hb hp
      have h2 := pop_maxEv _ _ _ hp
      exact ⟨h1, by intro m h; apply hm m; rw [← h2.1]; exact h, h2.2⟩

theorem run_wm (w : SWin) (ops : List Op) (l : List Int) (hb : Bnd w.wm) (hm : MaxIn l w.wm)
    (hni : ∀ op ∈ ops, NoIdle op) :
    Bnd (run w ops).1.wm ∧ MaxIn (l ++ ingested ops) (run w ops).1.wm ∧ (run w ops).1.wm.maxOOO = w.wm.maxOOO := by
  induction ops generalizing w l with
  | nil => exact ⟨hb, by simp only [ingested, List.append_nil]; exact hm, rfl⟩
  | cons op ops ih =>
    simp only [run]
    obtain ⟨h1, h2, h3⟩ := step_wm w op l hb hm (hni op (by simp))
    have := ih (step w op).1 (l ++ ingested [op]) h1 h2 (fun o ho => hni o (by simp [ho]))
    have hcons : ingested (op :: ops) = ingested [op] ++ ingested ops := ingested_append [op] ops
    rw [hcons, ← List.append_assoc]
    exact ⟨this.1, this.2.1, by rw [this.2.2, h3]⟩

end Session
