/-
Helper lemmas for C01: processing-time tumbling window (`Trigger()` on the timer).
Core Lean only.
-/
import SsqlVerif.Proofs.Tumbling
set_option autoImplicit false
set_option linter.unusedVariables false
set_option linter.unusedSimpArgs false

namespace Tumbling

inductive PtOp where
  | add (r : Row)
  | tick
  deriving Repr

def ptStep (s : TW) : PtOp → TW × List Emission
  | .add r => (ptAdd s r, [])
  | .tick => ptTick s

def ptRun (s : TW) : List PtOp → TW × List Emission
  | [] => (s, [])
  | op :: ops => ((ptRun (ptStep s op).1 ops).1, (ptStep s op).2 ++ (ptRun (ptStep s op).1 ops).2)

/-- clock hypothesis in state form: a row never carries a time before the current slot
(the k-th tick happens at or after firstAdd + k·size and `now` is non-decreasing) -/
def PtOk (s : TW) : PtOp → Prop
  | .add r => 0 ≤ r.ts ∧ ∀ c, s.cur = some c → c ≤ r.ts
  | .tick => True

def PtAllOk (s : TW) : List PtOp → Prop
  | [] => True
  | op :: ops => PtOk s op ∧ PtAllOk (ptStep s op).1 ops

structure PtGood (s : TW) : Prop where
  hsize : 0 < s.size
  hinit : s.cur = none → s.data = []
  hdata : ∀ c, s.cur = some c → ∀ r ∈ s.data, c ≤ r.ts

theorem ptGood_step (s : TW) (op : PtOp) (hg : PtGood s) (hok : PtOk s op) : PtGood (ptStep s op).1 := by
  cases op with
  | add r =>
    obtain ⟨ht, hc⟩ := hok
    refine ⟨hg.hsize, by intro h; simp [ptStep, ptAdd] at h, ?_⟩
    intro c hcur x hx
    simp only [ptStep, ptAdd, Option.some.injEq, List.mem_append, List.mem_singleton] at hcur hx
    rw [← hcur]
    cases h0 : s.cur with
    | none =>
      rcases hx with h | h
      · rw [hg.hinit h0] at h; cases h
      · rw [h]; simp only [curInit, h0]; exact alignDown_le _ _ ht hg.hsize
    | some c0 =>
      simp only [curInit, h0]
      rcases hx with h | h
      · exact hg.hdata c0 h0 x h
      · rw [h]; exact hc c0 h0
  | tick =>
    simp only [ptStep, ptTick]
    split
    · exact hg
    · rename_i c hc
      have key : PtGood { s with cur := some (c + s.size), data := s.data.filter (fun r => decide (c + s.size ≤ r.ts)) } := by
        refine ⟨hg.hsize, (by intro h; cases h), ?_⟩
        intro c' hc' x hx
        cases hc'
        simp only [List.mem_filter, decide_eq_true_eq] at hx
        exact hx.2
      split <;> exact key

/-- with rows never before the current slot, a tick loses nothing: what is not emitted stays -/
theorem ptTick_conserve (s : TW) (x : Row) (hg : PtGood s) :
    (ptTick s).1.data.count x + (rowsOf (ptTick s).2).count x = s.data.count x := by
  unfold ptTick
  split
  · simp [rowsOf]
  · rename_i c hc
    have hsplit : s.data.filter (fun r => decide (c + s.size ≤ r.ts)) = restRows s c := by
      unfold restRows
      apply List.filter_congr
      intro r hr
      have h1 := hg.hdata c hc r hr
      simp only [inSlot, Bool.not_and, Bool.decide_and]
      by_cases h2 : c + s.size ≤ r.ts
      · have : ¬ r.ts < c + s.size := by omega
        simp [h2, this]
      · have : r.ts < c + s.size := by omega
        simp [h2, this, h1]
    split
    · rename_i hempty
      simp only [rowsOf, List.flatMap_nil, List.count_nil, Nat.add_zero, hsplit]
      have := count_filter_split (inSlot s.size c) x s.data
      have h0 : (s.data.filter (inSlot s.size c)).count x = 0 := by
        have : slotRows s c = [] := List.isEmpty_iff.mp hempty
        simp only [slotRows] at this; rw [this]; rfl
      unfold restRows; omega
    · simp only [rowsOf, List.flatMap_cons, List.flatMap_nil, List.append_nil, hsplit]
      have := count_filter_split (inSlot s.size c) x s.data
      unfold restRows slotRows; omega

theorem ptRun_conserve (s : TW) (ops : List PtOp) (x : Row) (hg : PtGood s) (hok : PtAllOk s ops) :
    (ptRun s ops).1.data.count x + (rowsOf (ptRun s ops).2).count x
      = s.data.count x + (ops.filterMap (fun o => match o with | .add r => some r | .tick => none)).count x := by
  induction ops generalizing s with
  | nil => simp [ptRun, rowsOf]
  | cons op ops ih =>
    obtain ⟨hok1, hok2⟩ := hok
    have h2 := ih (ptStep s op).1 (ptGood_step s op hg hok1) hok2
    simp only [ptRun, rowsOf_append, List.count_append]
    cases op with
    | add r =>
      simp only [ptStep, ptAdd, List.filterMap_cons, rowsOf, List.flatMap_nil, List.count_nil] at h2 ⊢
      simp only [List.count_append, List.count_cons, List.count_nil] at h2 ⊢
      omega
    | tick =>
      have h1 := ptTick_conserve s x hg
      simp only [ptStep, List.filterMap_cons] at h2 ⊢
      omega

/-- every processing-time emission carries exactly the buffered rows of the current slot -/
theorem ptTick_rows (s : TW) (e : Emission) (he : e ∈ (ptTick s).2) :
    ∃ c, s.cur = some c ∧ e.start = c ∧ e.stop = c + s.size ∧ e.rows = s.data.filter (inSlot s.size c) := by
  unfold ptTick at he
  split at he
  · cases he
  · rename_i c hc
    split at he
    · cases he
    · simp only [List.mem_singleton] at he
      exact ⟨c, hc, by rw [he], by rw [he], by rw [he]; rfl⟩

end Tumbling
