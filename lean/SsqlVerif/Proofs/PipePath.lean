/-
`fieldpath.GetNestedField` (string level: split on dots, bracket loop, Atoi, quote stripping, fallback)
applied to the text of a well-formed path equals the structural walk of the spec.
-/
import SsqlVerif.Proofs.PipeStr
import SsqlVerif.Spec.Pipeline
set_option autoImplicit false

namespace Pipe
open PipeSpec

/-! ### characters -/

theorem identChar_ne (c d : Char) (hc : identChar c = true) (hd : identChar d = false) : c ≠ d := by
  intro e; subst e; rw [hd] at hc; exact absurd hc (by decide)

theorem identChar_not_space (c : Char) (hc : identChar c = true) : isAsciiSpace c = false := by
  cases hs : isAsciiSpace c with
  | false => rfl
  | true =>
    exfalso
    simp only [isAsciiSpace, Bool.or_eq_true, decide_eq_true_eq] at hs
    rcases hs with ((((h | h) | h) | h) | h) | h <;> subst h <;> revert hc <;> decide

theorem ident_not_mem (s : Str) (d : Char) (hs : s.all identChar = true) (hd : identChar d = false) : d ∉ s := by
  intro hm
  exact identChar_ne d d (List.all_eq_true.mp hs d hm) hd rfl

theorem isIdent_all (s : Str) (h : isIdent s = true) : s.all identChar = true := by
  simp only [isIdent, Bool.and_eq_true] at h; exact h.2

theorem isIdent_ne_nil (s : Str) (h : isIdent s = true) : s ≠ [] := by
  simp only [isIdent, Bool.and_eq_true] at h
  intro e; subst e; simp at h

/-! ### parts of a structural path -/

def partOfSub : Sub → Part
  | .idx i => .index i
  | .key k => .key k

def partsOfComp (c : Comp) : List Part := .field c.name :: c.subs.map partOfSub

def partsOfComps : List Comp → List Part
  | [] => []
  | c :: cs => partsOfComp c ++ partsOfComps cs

/-! ### parseBracketContent on rendered subscripts -/

theorem parseBracketContent_itoa (i : Int) (hlo : -(int64Bound : Int) ≤ i) (hhi : i < (int64Bound : Int)) :
    parseBracketContent (itoa i) = .ok (.index i) := by
  unfold parseBracketContent
  rw [trimSpace_id _ (itoa_no_space i)]
  have hq := itoa_head_not_quote i
  have : isQuoted (itoa i) = false := by
    unfold isQuoted
    cases h : (itoa i).head? with
    | none => simp
    | some c =>
      rw [h] at hq
      have h1 : c ≠ '\'' := fun e => hq.1 (by rw [e])
      have h2 : c ≠ '"' := fun e => hq.2 (by rw [e])
      simp [h1, h2]
  rw [this]
  simp [atoi_itoa i hlo hhi]

theorem quoted_no_space (k : Str) (hk : k.all identChar = true) :
    ∀ c ∈ '\'' :: (k ++ ['\'']), isAsciiSpace c = false := by
  intro c hc
  simp only [List.mem_cons, List.mem_append, List.not_mem_nil, or_false] at hc
  rcases hc with h | h | h
  · subst h; decide
  · exact identChar_not_space c (List.all_eq_true.mp hk c h)
  · subst h; decide

theorem getLast?_wrapped (q : Char) (k : Str) : (q :: (k ++ [q])).getLast? = some q := by
  have : q :: (k ++ [q]) = (q :: k) ++ [q] := rfl
  rw [this, List.getLast?_append]
  simp

theorem inner_quoted (q : Char) (k : Str) : inner (q :: (k ++ [q])) = k := by
  simp [inner]

theorem parseBracketContent_key (k : Str) (hk : k.all identChar = true) :
    parseBracketContent ('\'' :: (k ++ ['\''])) = .ok (.key k) := by
  unfold parseBracketContent
  rw [trimSpace_id _ (quoted_no_space k hk)]
  have hq : isQuoted ('\'' :: (k ++ ['\''])) = true := by
    simp [isQuoted, getLast?_wrapped]
  rw [hq]
  simp [inner_quoted]

theorem renderSub_shape (s : Sub) (hs : subWF s = true) :
    ∃ content, renderSub s = '[' :: (content ++ [']']) ∧ ']' ∉ content ∧
      parseBracketContent content = .ok (partOfSub s) := by
  cases s with
  | idx i =>
    simp only [subWF, Bool.and_eq_true, decide_eq_true_eq] at hs
    exact ⟨itoa i, rfl, itoa_not_mem i ']' (by decide) (by decide), parseBracketContent_itoa i hs.1 hs.2⟩
  | key k =>
    simp only [subWF, isKeyText] at hs
    refine ⟨'\'' :: (k ++ ['\'']), by simp [renderSub], ?_, parseBracketContent_key k hs⟩
    intro hm
    simp only [List.mem_cons, List.mem_append, List.not_mem_nil, or_false] at hm
    rcases hm with h | h | h
    · exact absurd h (by decide)
    · exact ident_not_mem k ']' hs (by decide) h
    · exact absurd h (by decide)

/-! ### the bracket loop on rendered subscripts -/

theorem bracketLoop_render (subs : List Sub) (hs : subs.all subWF = true) :
    ∀ (fuel : Nat) (acc : List Part), subs.length ≤ fuel →
      bracketLoop fuel (renderSubs subs) acc = .ok (acc ++ subs.map partOfSub) := by
  induction subs with
  | nil =>
    intro fuel acc _
    cases fuel <;> simp [bracketLoop, renderSubs]
  | cons s ss ih =>
    intro fuel acc hf
    simp only [List.all_cons, Bool.and_eq_true] at hs
    obtain ⟨content, hr, hnot, hp⟩ := renderSub_shape s hs.1
    cases fuel with
    | zero => simp at hf
    | succ fuel =>
      have hshape : renderSubs (s :: ss) = '[' :: (content ++ ']' :: renderSubs ss) := by
        simp [renderSubs, hr]
      rw [hshape]
      simp only [bracketLoop, dropAfter_append_sep _ _ _ hnot, takeUntil_append_sep _ _ _ hnot, hp]
      rw [ih hs.2 fuel _ (by simpa using hf)]
      simp

theorem renderSubs_length (subs : List Sub) : subs.length ≤ (renderSubs subs).length := by
  induction subs with
  | nil => simp
  | cons s ss ih =>
    have : 1 ≤ (renderSub s).length := by cases s <;> simp [renderSub]
    simp [renderSubs]; omega

theorem renderSubs_cons_head (s : Sub) (ss : List Sub) : ∃ t, renderSubs (s :: ss) = '[' :: t := by
  cases s <;> simp [renderSubs, renderSub]

/-- the fuel of the model's bracket loop is never the reason it stops: one more unit changes nothing once
`fuel ≥ len(remaining)` (each iteration consumes at least `[` and `]`) — for *every* input string -/
theorem bracketLoop_fuel_succ (fuel : Nat) : ∀ (rem : Str) (acc : List Part), rem.length ≤ fuel →
    bracketLoop (fuel + 1) rem acc = bracketLoop fuel rem acc := by
  induction fuel with
  | zero =>
    intro rem acc h
    have : rem = [] := List.eq_nil_of_length_eq_zero (by omega)
    subst this; simp [bracketLoop]
  | succ fuel ih =>
    intro rem acc h
    cases rem with
    | nil => simp [bracketLoop]
    | cons c rest =>
      by_cases hc : c = '['
      · subst hc
        simp only [bracketLoop]
        cases hd : dropAfter ']' rest with
        | none => rfl
        | some after =>
          simp only []
          cases parseBracketContent (takeUntil ']' rest) with
          | error e => rfl
          | ok p =>
            simp only []
            have := dropAfter_length_lt ']' rest after hd
            exact ih after _ (by simp at h; omega)
      · have e1 : ∀ f, bracketLoop (f + 1) (c :: rest) acc = .ok acc := by
          intro f
          unfold bracketLoop
          split
          · rename_i heq; injection heq with h1 _; exact absurd h1 hc
          · rfl
        rw [e1, e1]

theorem bracketLoop_fuel (k : Nat) (rem : Str) (acc : List Part) :
    bracketLoop (rem.length + k) rem acc = bracketLoop rem.length rem acc := by
  induction k with
  | zero => rfl
  | succ k ih => rw [← Nat.add_assoc, bracketLoop_fuel_succ _ rem acc (by omega), ih]

/-! ### no dots in a rendered component -/

theorem renderSub_no_dot (s : Sub) (hs : subWF s = true) : '.' ∉ renderSub s := by
  cases s with
  | idx i =>
    intro hm
    simp only [renderSub, List.mem_cons, List.mem_append, List.not_mem_nil, or_false] at hm
    rcases hm with h | h | h
    · exact absurd h (by decide)
    · exact itoa_not_mem i '.' (by decide) (by decide) h
    · exact absurd h (by decide)
  | key k =>
    simp only [subWF, isKeyText] at hs
    intro hm
    simp only [renderSub, List.mem_cons, List.mem_append, List.not_mem_nil, or_false] at hm
    rcases hm with h | h | h | h | h
    · exact absurd h (by decide)
    · exact absurd h (by decide)
    · exact ident_not_mem k '.' hs (by decide) h
    · exact absurd h (by decide)
    · exact absurd h (by decide)

theorem renderSubs_no_dot (subs : List Sub) (hs : subs.all subWF = true) : '.' ∉ renderSubs subs := by
  induction subs with
  | nil => simp [renderSubs]
  | cons s ss ih =>
    simp only [List.all_cons, Bool.and_eq_true] at hs
    simp only [renderSubs, List.mem_append, not_or]
    exact ⟨renderSub_no_dot s hs.1, ih hs.2⟩

theorem renderComp_no_dot (c : Comp) (hc : compWF c = true) : '.' ∉ renderComp c := by
  simp only [compWF, Bool.and_eq_true] at hc
  simp only [renderComp, List.mem_append, not_or]
  exact ⟨ident_not_mem c.name '.' (isIdent_all _ hc.1) (by decide), renderSubs_no_dot _ hc.2⟩

/-! ### parsePart / parseParts / split -/

theorem parsePart_render (c : Comp) (hc : compWF c = true) (acc : List Part) :
    parsePart (renderComp c) acc = .ok (acc ++ partsOfComp c) := by
  have hc' := hc
  simp only [compWF, Bool.and_eq_true] at hc'
  have hname := isIdent_all _ hc'.1
  have hne : renderComp c ≠ [] := by
    intro e
    have : c.name = [] := by
      simp only [renderComp, List.append_eq_nil_iff] at e; exact e.1
    exact isIdent_ne_nil _ hc'.1 this
  unfold parsePart
  rw [if_neg hne]
  cases hsub : c.subs with
  | nil =>
    have hr : renderComp c = c.name := by simp [renderComp, hsub, renderSubs]
    have hnb : (renderComp c).contains '[' = false := by
      rw [hr]
      cases hb : c.name.contains '[' with
      | false => rfl
      | true => exact absurd (List.contains_iff_mem.mp hb) (ident_not_mem _ '[' hname (by decide))
    rw [hnb]
    simp [hr, partsOfComp, hsub]
  | cons s ss =>
    obtain ⟨t, ht⟩ := renderSubs_cons_head s ss
    have hr : renderComp c = c.name ++ '[' :: t := by simp [renderComp, hsub, ht]
    have hb : (renderComp c).contains '[' = true := by
      rw [hr]; exact List.contains_iff_mem.mpr (by simp)
    rw [hb]
    have hnot : '[' ∉ c.name := ident_not_mem _ '[' hname (by decide)
    have htake : takeUntil '[' (renderComp c) = c.name := by rw [hr]; exact takeUntil_append_sep _ _ _ hnot
    have hlead : leadingField (renderComp c) = [.field c.name] := by
      unfold leadingField
      rw [htake, if_neg (isIdent_ne_nil _ hc'.1)]
    have hdrop : (renderComp c).drop c.name.length = renderSubs c.subs := by simp [renderComp]
    simp only [if_true, parseComplexPart, htake, hlead, hdrop]
    have hlen : c.subs.length ≤ (renderComp c).length := by
      have := renderSubs_length c.subs
      simp [renderComp]; omega
    rw [bracketLoop_render c.subs hc'.2 _ _ hlen]
    simp [partsOfComp]

theorem parseParts_render (cs : List Comp) (hcs : cs.all compWF = true) (acc : List Part) :
    parseParts (cs.map renderComp) acc = .ok (acc ++ partsOfComps cs) := by
  induction cs generalizing acc with
  | nil => simp [parseParts, partsOfComps]
  | cons c rest ih =>
    simp only [List.all_cons, Bool.and_eq_true] at hcs
    simp only [List.map_cons, parseParts, parsePart_render c hcs.1]
    rw [ih hcs.2]
    simp [partsOfComps]

theorem splitChar_renderRest (first : Str) (hf : '.' ∉ first) (rest : List Comp) (hr : rest.all compWF = true) :
    splitChar '.' (first ++ renderRest rest) = first :: rest.map renderComp := by
  induction rest generalizing first with
  | nil => simp [renderRest, splitChar_nosep _ _ hf]
  | cons c cs ih =>
    simp only [List.all_cons, Bool.and_eq_true] at hr
    simp only [renderRest]
    rw [splitChar_append_sep _ _ _ hf, ih _ (renderComp_no_dot c hr.1) hr.2]
    simp

theorem parseFieldPath_render (f : Comp) (r : List Comp) (hf : compWF f = true) (hr : r.all compWF = true) :
    parseFieldPath (renderPath f r) = .ok (partsOfComps (f :: r)) := by
  unfold parseFieldPath renderPath
  rw [splitChar_renderRest _ (renderComp_no_dot f hf) r hr]
  have := parseParts_render (f :: r) (by simp [hf, hr]) []
  simpa using this

/-! ### walking -/

theorem walkParts_append (v : Value) (a b : List Part) :
    walkParts v (a ++ b) = (walkParts v a).bind fun v' => walkParts v' b := by
  induction a generalizing v with
  | nil => simp [walkParts]
  | cons p ps ih =>
    simp only [List.cons_append, walkParts]
    cases accessPart v p with
    | none => simp
    | some v' => simp [ih]

theorem wrapIndex_nth (xs : List Value) (i : Int) :
    ((wrapIndex xs.length i).bind fun n => xs[n]?) = nth xs i := by
  unfold wrapIndex nth
  by_cases h0 : 0 ≤ i
  · simp only [if_pos h0]
    by_cases hlt : i.toNat < xs.length
    · simp [hlt]
    · simp only [if_neg hlt, Option.bind_none]
      rw [List.getElem?_eq_none (by omega)]
  · simp only [if_neg h0]
    by_cases h1 : 0 ≤ (xs.length : Int) + i
    · have h2 : i.natAbs ≤ xs.length := by omega
      simp only [if_pos h1, if_pos h2, Option.bind_some]
      congr 1; omega
    · have h2 : ¬ i.natAbs ≤ xs.length := by omega
      simp [if_neg h1, if_neg h2]

theorem accessPart_sub (v : Value) (s : Sub) : accessPart v (partOfSub s) = subLookup v s := by
  cases s with
  | idx i =>
    cases v <;> simp [partOfSub, accessPart, elemOf, subLookup, wrapIndex_nth]
  | key k =>
    cases v <;> simp [partOfSub, accessPart, keyOf, subLookup]

theorem walkParts_subs (v : Value) (subs : List Sub) :
    walkParts v (subs.map partOfSub) = walkSubs v subs := by
  induction subs generalizing v with
  | nil => rfl
  | cons s ss ih =>
    simp only [List.map_cons, walkParts, walkSubs, accessPart_sub]
    cases subLookup v s with
    | none => rfl
    | some v' => simp [ih]

theorem walkParts_comp (v : Value) (c : Comp) : walkParts v (partsOfComp c) = compLookup v c := by
  simp only [partsOfComp, walkParts, accessPart]
  cases v <;> simp [fieldOf, compLookup, walkParts_subs]

theorem walkParts_comps (v : Value) (cs : List Comp) : walkParts v (partsOfComps cs) = walkComps v cs := by
  induction cs generalizing v with
  | nil => rfl
  | cons c rest ih =>
    simp only [partsOfComps, walkParts_append, walkParts_comp, walkComps]
    cases compLookup v c with
    | none => rfl
    | some v' => simp [ih]

/-- **GetNestedField on the text of a well-formed path is the structural walk** -/
theorem getNestedField_render (data : Value) (f : Comp) (r : List Comp)
    (hf : compWF f = true) (hr : r.all compWF = true) :
    getNestedField data (renderPath f r) = .ok (walkComps data (f :: r)) := by
  have hf' := hf
  simp only [compWF, Bool.and_eq_true] at hf'
  have hne : renderPath f r ≠ [] := by
    intro e
    simp only [renderPath, renderComp, List.append_eq_nil_iff] at e
    exact isIdent_ne_nil _ hf'.1 e.1.1
  unfold getNestedField
  rw [if_neg hne, parseFieldPath_render f r hf hr]
  simp only [partsOfComps, partsOfComp, List.cons_append]
  rw [← walkParts_comps data (f :: r)]
  simp [partsOfComps, partsOfComp]

end Pipe
