/-
Helper lemmas for C17 / C09: a global window whose trigger is `COUNT(*) >= n` is a counting window —
every group fires at each n-th of its rows since its last firing, on exactly those n rows.
(The global-window variants of the C03 / C04 correspondence cases rely on this shape.)
Core Lean only.
-/
import SsqlVerif.Proofs.GlobalRun
set_option autoImplicit false
set_option linter.unusedVariables false
set_option linter.unusedSimpArgs false
set_option linter.unusedSectionVars false

namespace Global
open Global.Spec

variable {α κ φ ε : Type} [DecidableEq κ] [DecidableEq φ] [DecidableEq ε]

/-- `COUNT(*)` -/
def countStar : AggCall φ := ⟨.count, none⟩

/-- the query's trigger is `COUNT(*) >= n` -/
def CountGe (q : Query α φ Int) (n : Nat) : Prop := q.pred = .cmp countStar .ge (Int.ofNat n)

theorem filter_cells_countStar (seg : List (Row κ φ Int)) :
    ((seg.map (cellOf (countStar : AggCall φ))).filter fun c => !c.isNil).length = seg.length := by
  have : (seg.map (cellOf (countStar : AggCall φ))).filter (fun c => !c.isNil)
      = seg.map (cellOf (countStar : AggCall φ)) := by
    apply List.filter_eq_self.mpr
    intro c hc
    obtain ⟨r, _, rfl⟩ := List.mem_map.mp hc
    rfl
  rw [this, List.length_map]

theorem aggOf_countStar (seg : List (Row κ φ Int)) :
    aggOf (countStar : AggCall φ) seg = some (Int.ofNat seg.length) := by
  unfold aggOf
  show aggList AggFn.count _ = _
  simp only [aggList]
  rw [filter_cells_countStar]
  rfl

/-- the engine's verdict on `COUNT(*) >= n` over a segment: the segment has at least n rows -/
theorem engineTrue_countGe (q : Query α φ Int) (n : Nat) (h : CountGe q n) (seg : List (Row κ φ Int)) :
    engineTrue q.pred seg = decide (n ≤ seg.length) := by
  unfold engineTrue
  rw [h]
  simp only [evalDirect, aggOf_countStar, evalLeaf, cmpNum, Num.le]
  by_cases hle : n ≤ seg.length
  · have : (Int.ofNat n ≤ Int.ofNat seg.length) := Int.ofNat_le.mpr hle
    simp [hle, this]
  · have : ¬ (Int.ofNat n ≤ Int.ofNat seg.length) := fun hc => hle (Int.ofNat_le.mp hc)
    simp [hle, this]

theorem outAt_isSome (enc : κ → ε) (q : Query α φ Int) (pre : List (Row κ φ Int)) (r : Row κ φ Int)
    (hK : KeysInj enc (pre ++ [r])) :
    (outAt enc q pre r).isSome = engineTrue q.pred (segAt enc q pre r) := by
  rw [outAt_eq enc q pre r hK]; split <;> simp_all

theorem injOn_prefix (enc : κ → ε) (pre : List (Row κ φ Int)) (r : Row κ φ Int)
    (h : KeysInj enc (pre ++ [r])) : KeysInj enc pre := by
  intro a ha b hb hab
  exact h a (by simp only [List.map_append, List.mem_append]; exact Or.inl ha)
    b (by simp only [List.map_append, List.mem_append]; exact Or.inl hb) hab

theorem histOf_snoc (pre : List (Row κ φ Int)) (r : Row κ φ Int) (outs : List (Option (Result κ Int)))
    (o : Option (Result κ Int)) (hl : outs.length = pre.length) :
    histOf (pre ++ [r]) (outs ++ [o]) = (r, o.isSome) :: histOf pre outs := by
  unfold histOf
  rw [List.map_append, List.zip_append (by simp [hl])]
  simp

/-- in every reachable history the open segment of every group is shorter than n -/
theorem openSeg_lt (enc : κ → ε) (q : Query α φ Int) (n : Nat) (hn : 0 < n) (h : CountGe q n)
    (rows : List (Row κ φ Int)) (hK : KeysInj enc rows) (k : κ) :
    (openSeg k (histOf rows (run enc q rows))).length < n := by
  induction hlen : rows.length generalizing rows with
  | zero =>
    have : rows = [] := List.eq_nil_of_length_eq_zero hlen
    subst this
    simpa [histOf, run, runFrom, openSeg] using hn
  | succ m ih =>
    rcases List.eq_nil_or_concat rows with hnil | ⟨pre, r, hcat⟩
    · subst hnil; simp at hlen
    rw [List.concat_eq_append] at hcat
    subst hcat
    have ih := fun hKp => ih pre hKp (by simpa using hlen)
    have hKp := injOn_prefix enc pre r hK
    have ihp := ih hKp
    rw [run_snoc, histOf_snoc pre r _ _ (by simp [run, runFrom_length])]
    simp only [openSeg]
    by_cases hk : r.key = k
    · simp only [hk, if_true]
      by_cases hf : (outAt enc q pre r).isSome = true
      · simp [hf]; exact hn
      · have hf' : (outAt enc q pre r).isSome = false := by simpa using hf
        simp only [hf', Bool.false_eq_true, if_false]
        rw [outAt_isSome enc q pre r hK, engineTrue_countGe q n h] at hf'
        have : ¬ n ≤ (segAt enc q pre r).length := by simpa using hf'
        have hs : (segAt enc q pre r).length = (openSeg k (histOf pre (run enc q pre))).length + 1 := by
          simp [segAt, hk]
        simp only [List.length_append, List.length_singleton]
        omega
    · simp only [hk, if_false]
      exact ihp

end Global
