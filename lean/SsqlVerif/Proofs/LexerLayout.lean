/-
Helper lemmas for C11 (lexer layer), part 2: one source token at the head of the input lexes to
itself, whatever whitespace precedes it and whatever case variation spells it, provided the next
byte does not continue it.  Core Lean only.
-/
import SsqlVerif.Proofs.Lexer
import SsqlVerif.Spec.Lexer
set_option autoImplicit false

namespace Lexer

/-! ### character classes -/

theorem isWs_cases {c : Byte} (h : isWs c = true) : c = 32 ∨ c = 9 ∨ c = 10 ∨ c = 13 := by
  simpa [isWs, or_assoc] using h

theorem startOf_ws {c : Byte} (h : isWs c = true) : startOf c = .ws := by
  rcases isWs_cases h with h | h | h | h <;> subst h <;> decide

theorem isLower_range {b : Byte} : isLower b = true ↔ 97 ≤ b ∧ b ≤ 122 := by simp [isLower]
theorem isUpper_range {b : Byte} : isUpper b = true ↔ 65 ≤ b ∧ b ≤ 90 := by simp [isUpper]
theorem isDigit_range {b : Byte} : isDigit b = true ↔ 48 ≤ b ∧ b ≤ 57 := by simp [isDigit]
theorem isLetter_range {b : Byte} : isLetter b = true ↔ (97 ≤ b ∧ b ≤ 122) ∨ (65 ≤ b ∧ b ≤ 90) ∨ b = 95 := by
  simp [isLetter, isLower, isUpper, or_assoc]

theorem startOf_of_letter {b : Byte} (h : isLetter b = true) : startOf b = .letter := by
  simp [startOf, h]

theorem not_letter_of_digit {b : Byte} (h : isDigit b = true) : isLetter b = false := by
  have hd := isDigit_range.1 h
  cases hl : isLetter b with
  | false => rfl
  | true => have hr := isLetter_range.1 hl; exfalso; omega

theorem startOf_of_digit {b : Byte} (h : isDigit b = true) : startOf b = .digit := by
  simp [startOf, h, not_letter_of_digit h]

theorem isJunkAt_ws {c : Byte} (rest : List Byte) (h : isWs c = true) : isJunkAt c rest = true := by
  simp [isJunkAt, startOf_ws h]

/-! ### junk in front of a token -/

theorem junkLen_ws_append (pre X : List Byte) (h : ∀ c ∈ pre, isWs c = true) :
    junkLen (pre ++ X) = pre.length + junkLen X := by
  induction pre with
  | nil => simp
  | cons c pre ih =>
    have hc := h c (by simp)
    have ih' := ih (fun c hc => h c (by simp [hc]))
    simp only [List.cons_append, junkLen, isJunkAt_ws _ hc, if_true, ih', List.length_cons]
    omega

theorem nextToken_ws_append (pre X : List Byte) (h : ∀ c ∈ pre, isWs c = true) (hX : junkLen X = 0) :
    nextToken (pre ++ X) = ((tokenAt X).1, pre.length + (tokenAt X).2) := by
  simp [nextToken, junkLen_ws_append pre X h, hX]

theorem junkLen_cons_zero {b : Byte} {rest : List Byte} (h : isJunkAt b rest = false) :
    junkLen (b :: rest) = 0 := by
  simp [junkLen, h]

/-! ### `takeWhile` up to a boundary -/

/-- does the first byte of `R` satisfy `p`? -/
def headSat (p : Byte → Bool) : List Byte → Bool
  | c :: _ => p c
  | [] => false

theorem takeWhile_stop (p : Byte → Bool) (a R : List Byte) (ha : ∀ c ∈ a, p c = true) (hR : headSat p R = false) :
    (a ++ R).takeWhile p = a := by
  induction a with
  | nil =>
    cases R with
    | nil => rfl
    | cons c R => simp only [headSat] at hR; simp [hR]
  | cons x a ih =>
    have hx := ha x (by simp)
    simp only [List.cons_append, List.takeWhile_cons, hx, if_true]
    rw [ih (fun c hc => ha c (by simp [hc]))]

theorem dropWhile_stop (p : Byte → Bool) (a R : List Byte) (ha : ∀ c ∈ a, p c = true) (hR : headSat p R = false) :
    (a ++ R).dropWhile p = R := by
  induction a with
  | nil =>
    cases R with
    | nil => rfl
    | cons c R => simp only [headSat] at hR; simp [hR]
  | cons x a ih =>
    have hx := ha x (by simp)
    simp only [List.cons_append, List.dropWhile_cons, hx, if_true]
    exact ih (fun c hc => ha c (by simp [hc]))

end Lexer
