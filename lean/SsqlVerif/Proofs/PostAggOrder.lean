/-
Helper lemmas for C07, ORDER BY part: `compareOrderValues` (`cmpVal`) is a three-way comparator of
a total preorder on values of one kind (plus "missing"), `Sorter.less` (`lessBy`) is the strict
part of the lexicographic combination of the keys, hence a strict weak order on rows whose key
columns are homogeneous.  Core Lean only.
-/
import SsqlVerif.Proofs.PostAggList
set_option autoImplicit false
set_option linter.unusedVariables false
set_option linter.unusedSimpArgs false

namespace PostAgg

/-- the order assumptions on numbers: `lt` is a strict weak order (true of exact arithmetic, and of
binary64 in the absence of NaN) -/
structure NumOrd {ν : Type} (N : Num ν) : Prop where
  asymm : ∀ a b, N.lt a b = true → N.lt b a = false
  ntrans : ∀ a b c, N.lt a b = false → N.lt b c = false → N.lt a c = false

/-- laws of a three-way comparator on the elements satisfying `S` -/
structure CmpOn {ρ : Type} (c : ρ → ρ → Ordering) (S : ρ → Prop) : Prop where
  swap : ∀ a b, S a → S b → c b a = (c a b).swap
  trans : ∀ a b d, S a → S b → S d → c a b ≠ .gt → c b d ≠ .gt → c a d ≠ .gt

/-! ### base comparators -/

theorem cmpChars_swap (a b : List Char) : cmpChars b a = (cmpChars a b).swap := by
  induction a generalizing b with
  | nil => cases b <;> simp [cmpChars]
  | cons x xs ih =>
    cases b with
    | nil => simp [cmpChars]
    | cons y ys =>
      simp only [cmpChars]
      by_cases h1 : x.toNat < y.toNat
      · have h2 : ¬ y.toNat < x.toNat := by omega
        simp [h1, h2]
      · by_cases h2 : y.toNat < x.toNat
        · simp [h1, h2]
        · simp [h1, h2, ih ys]

theorem cmpChars_trans (a b c : List Char) (h1 : cmpChars a b ≠ .gt) (h2 : cmpChars b c ≠ .gt) :
    cmpChars a c ≠ .gt := by
  induction a generalizing b c with
  | nil => cases c <;> simp [cmpChars]
  | cons x xs ih =>
    cases b with
    | nil => simp [cmpChars] at h1
    | cons y ys =>
      cases c with
      | nil => simp [cmpChars] at h2
      | cons z zs =>
        simp only [cmpChars] at h1 h2 ⊢
        by_cases hxy : x.toNat < y.toNat
        · by_cases hyz : y.toNat < z.toNat
          · have : x.toNat < z.toNat := by omega
            simp [this]
          · by_cases hzy : z.toNat < y.toNat
            · simp [hyz, hzy] at h2
            · have : x.toNat < z.toNat := by omega
              simp [this]
        · by_cases hyx : y.toNat < x.toNat
          · simp [hxy, hyx] at h1
          · simp only [hxy, hyx, if_false] at h1
            by_cases hyz : y.toNat < z.toNat
            · have : x.toNat < z.toNat := by omega
              simp [this]
            · by_cases hzy : z.toNat < y.toNat
              · simp [hyz, hzy] at h2
              · simp only [hyz, hzy, if_false] at h2
                have e1 : ¬ x.toNat < z.toNat := by omega
                have e2 : ¬ z.toNat < x.toNat := by omega
                simp only [e1, e2, if_false]
                exact ih ys zs h1 h2

theorem cmpBool_swap (a b : Bool) : cmpBool b a = (cmpBool a b).swap := by
  cases a <;> cases b <;> rfl

theorem cmpBool_trans (a b c : Bool) (h1 : cmpBool a b ≠ .gt) (h2 : cmpBool b c ≠ .gt) :
    cmpBool a c ≠ .gt := by
  cases a <;> cases b <;> cases c <;> simp_all [cmpBool]

section
variable {ν : Type} (N : Num ν)

theorem cmpNumOrd_ne_gt (hN : NumOrd N) (x y : ν) : cmpNumOrd N x y ≠ .gt ↔ N.lt y x = false := by
  unfold cmpNumOrd
  by_cases h1 : N.lt x y = true
  · have := hN.asymm x y h1
    simp [h1, this]
  · by_cases h2 : N.lt y x = true
    · simp [h1, h2]
    · simp [h1, h2]

theorem cmpNumOrd_swap (hN : NumOrd N) (x y : ν) : cmpNumOrd N y x = (cmpNumOrd N x y).swap := by
  unfold cmpNumOrd
  by_cases h1 : N.lt x y = true
  · have := hN.asymm x y h1
    simp [h1, this]
  · by_cases h2 : N.lt y x = true
    · simp [h1, h2]
    · simp [h1, h2]

theorem cmpNumOrd_trans (hN : NumOrd N) (x y z : ν) (h1 : cmpNumOrd N x y ≠ .gt)
    (h2 : cmpNumOrd N y z ≠ .gt) : cmpNumOrd N x z ≠ .gt := by
  rw [cmpNumOrd_ne_gt N hN] at h1 h2 ⊢
  exact hN.ntrans z y x h2 h1

/-! ### `compareOrderValues` on values of one kind -/

inductive Kind | num | bool | text
  deriving DecidableEq

def kindOf : Val ν → Kind
  | .num _ => .num
  | .bool _ => .bool
  | _ => .text

/-- a cell is missing or holds a value of kind `k` -/
def okKind (k : Kind) : Option (Val ν) → Prop
  | none => True
  | some v => kindOf v = k

theorem cmpPresent_swap (hN : NumOrd N) (k : Kind) (a b : Val ν) (ha : kindOf a = k) (hb : kindOf b = k) :
    cmpPresent N b a = (cmpPresent N a b).swap := by
  cases k with
  | num =>
    cases a <;> cases b <;> simp_all [kindOf]
    simp only [cmpPresent]
    exact cmpNumOrd_swap N hN _ _
  | bool =>
    cases a <;> cases b <;> simp_all [kindOf]
    simp only [cmpPresent]
    exact cmpBool_swap _ _
  | text =>
    have e : ∀ u v : Val ν, kindOf u = .text → kindOf v = .text →
        cmpPresent N u v = cmpChars (renderVal N u) (renderVal N v) := by
      intro u v hu hv
      cases u <;> cases v <;> simp_all [kindOf, cmpPresent]
    rw [e a b ha hb, e b a hb ha]
    exact cmpChars_swap _ _

theorem cmpPresent_trans (hN : NumOrd N) (k : Kind) (a b c : Val ν) (ha : kindOf a = k) (hb : kindOf b = k)
    (hc : kindOf c = k) (h1 : cmpPresent N a b ≠ .gt) (h2 : cmpPresent N b c ≠ .gt) :
    cmpPresent N a c ≠ .gt := by
  cases k with
  | num =>
    cases a <;> cases b <;> cases c <;> simp_all [kindOf]
    simp only [cmpPresent] at h1 h2 ⊢
    exact cmpNumOrd_trans N hN _ _ _ h1 h2
  | bool =>
    cases a <;> cases b <;> cases c <;> simp_all [kindOf]
    simp only [cmpPresent] at h1 h2 ⊢
    exact cmpBool_trans _ _ _ h1 h2
  | text =>
    have e : ∀ u v : Val ν, kindOf u = .text → kindOf v = .text →
        cmpPresent N u v = cmpChars (renderVal N u) (renderVal N v) := by
      intro u v hu hv
      cases u <;> cases v <;> simp_all [kindOf, cmpPresent]
    rw [e a b ha hb] at h1
    rw [e b c hb hc] at h2
    rw [e a c ha hc]
    exact cmpChars_trans _ _ _ h1 h2

theorem cmpVal_swap (hN : NumOrd N) (k : Kind) (u v : Option (Val ν)) (hu : okKind k u) (hv : okKind k v) :
    cmpVal N v u = (cmpVal N u v).swap := by
  cases u <;> cases v <;> simp [cmpVal]
  exact cmpPresent_swap N hN k _ _ hu hv

theorem cmpVal_trans (hN : NumOrd N) (k : Kind) (u v w : Option (Val ν)) (hu : okKind k u) (hv : okKind k v)
    (hw : okKind k w) (h1 : cmpVal N u v ≠ .gt) (h2 : cmpVal N v w ≠ .gt) : cmpVal N u w ≠ .gt := by
  cases u <;> cases v <;> cases w <;> simp_all [cmpVal]
  exact cmpPresent_trans N hN k _ _ _ hu hv hw h1 h2

end

/-! ### lexicographic combination of the keys -/

def ordDir (desc : Bool) (o : Ordering) : Ordering := if desc then o.swap else o

theorem swap_ne_gt_iff (o : Ordering) : o.swap ≠ .gt ↔ o ≠ .lt := by cases o <;> simp [Ordering.swap]

section
variable {ρ : Type}

def lexCmp (c1 c2 : ρ → ρ → Ordering) (a b : ρ) : Ordering :=
  match c1 a b with
  | .eq => c2 a b
  | o => o

theorem CmpOn.eq_of_le_le {c : ρ → ρ → Ordering} {S : ρ → Prop} (h : CmpOn c S) (a b : ρ) (ha : S a) (hb : S b)
    (h1 : c a b ≠ .gt) (h2 : c b a ≠ .gt) : c a b = .eq := by
  rw [h.swap a b ha hb] at h2
  cases hc : c a b with
  | eq => rfl
  | gt => exact absurd hc h1
  | lt => rw [hc] at h2; simp [Ordering.swap] at h2

theorem lex_on {c1 c2 : ρ → ρ → Ordering} {S : ρ → Prop} (h1 : CmpOn c1 S) (h2 : CmpOn c2 S) :
    CmpOn (lexCmp c1 c2) S := by
  constructor
  · intro a b ha hb
    simp only [lexCmp]
    rw [h1.swap a b ha hb]
    cases h : c1 a b <;> simp [Ordering.swap, h2.swap a b ha hb]
  · intro a b d ha hb hd g1 g2
    have le_ab : c1 a b ≠ .gt := by
      intro h; simp [lexCmp, h] at g1
    have le_bd : c1 b d ≠ .gt := by
      intro h; simp [lexCmp, h] at g2
    have le_ad := h1.trans a b d ha hb hd le_ab le_bd
    cases had : c1 a d with
    | lt => simp [lexCmp, had]
    | gt => exact absurd had le_ad
    | eq =>
      have le_da : c1 d a ≠ .gt := by
        rw [h1.swap a d ha hd, had]; simp [Ordering.swap]
      have le_ba := h1.trans b d a hb hd ha le_bd le_da
      have le_db := h1.trans d a b hd ha hb le_da le_ab
      have eab := h1.eq_of_le_le a b ha hb le_ab le_ba
      have ebd := h1.eq_of_le_le b d hb hd le_bd le_db
      simp only [lexCmp, eab] at g1
      simp only [lexCmp, ebd] at g2
      simp only [lexCmp, had]
      exact h2.trans a b d ha hb hd g1 g2

theorem dir_on {c : ρ → ρ → Ordering} {S : ρ → Prop} (h : CmpOn c S) (desc : Bool) :
    CmpOn (fun a b => ordDir desc (c a b)) S := by
  cases desc with
  | false => simpa [ordDir] using h
  | true =>
    constructor
    · intro a b ha hb
      simp only [ordDir, if_true]
      rw [h.swap a b ha hb]
    · intro a b d ha hb hd g1 g2
      simp only [ordDir, if_true] at g1 g2 ⊢
      rw [← h.swap a b ha hb] at g1
      rw [← h.swap b d hb hd] at g2
      rw [← h.swap a d ha hd]
      exact h.trans d b a hd hb ha g2 g1

end

section
variable {ν κ ρ : Type} (N : Num ν) (getv : κ → ρ → Option (Val ν))

/-- three-way comparison of two rows under the ORDER BY keys -/
def cmpKeys : List (κ × Bool) → ρ → ρ → Ordering
  | [], _, _ => .eq
  | (k, desc) :: ks, a, b =>
    lexCmp (fun a b => ordDir desc (cmpVal N (getv k a) (getv k b))) (cmpKeys ks) a b

theorem lessBy_eq_cmpKeys (keys : List (κ × Bool)) (a b : ρ) :
    lessBy N getv keys a b = (cmpKeys N getv keys a b == .lt) := by
  induction keys with
  | nil => rfl
  | cons kd ks ih =>
    obtain ⟨k, desc⟩ := kd
    simp only [lessBy, cmpKeys, lexCmp]
    cases h : cmpVal N (getv k a) (getv k b) <;> cases desc <;>
      simp [dirLess, ordDir, Ordering.swap, ih]

/-- the rows' cells under every key are missing or of one kind per key -/
def Homog (keys : List (κ × Bool)) (S : ρ → Prop) : Prop :=
  ∀ kd ∈ keys, ∃ k : Kind, ∀ r, S r → okKind k (getv kd.1 r)

theorem cmpKeys_on (hN : NumOrd N) (keys : List (κ × Bool)) (S : ρ → Prop) (hh : Homog getv keys S) :
    CmpOn (cmpKeys N getv keys) S := by
  induction keys with
  | nil => exact ⟨fun _ _ _ _ => rfl, fun _ _ _ _ _ _ _ _ => by simp [cmpKeys]⟩
  | cons kd ks ih =>
    obtain ⟨k, desc⟩ := kd
    have ih' := ih (fun kd hkd => hh kd (by simp [hkd]))
    obtain ⟨kind, hk⟩ := hh (k, desc) (by simp)
    have base : CmpOn (fun a b => cmpVal N (getv k a) (getv k b)) S :=
      ⟨fun a b ha hb => cmpVal_swap N hN kind _ _ (hk a ha) (hk b hb),
       fun a b d ha hb hd g1 g2 => cmpVal_trans N hN kind _ _ _ (hk a ha) (hk b hb) (hk d hd) g1 g2⟩
    have := lex_on (dir_on base desc) ih'
    exact this

theorem lessBy_weakOn (hN : NumOrd N) (keys : List (κ × Bool)) (S : ρ → Prop) (hh : Homog getv keys S) :
    WeakOn (lessBy N getv keys) S := by
  have hc := cmpKeys_on N getv hN keys S hh
  constructor
  · intro a b ha hb h
    rw [lessBy_eq_cmpKeys] at h ⊢
    have e : cmpKeys N getv keys a b = .lt := by simpa using h
    rw [hc.swap a b ha hb, e]
    rfl
  · intro a b d ha hb hd h1 h2
    rw [lessBy_eq_cmpKeys] at h1 h2 ⊢
    have e1 : cmpKeys N getv keys a b ≠ .lt := by simpa using h1
    have e2 : cmpKeys N getv keys b d ≠ .lt := by simpa using h2
    have g1 : cmpKeys N getv keys b a ≠ .gt := by
      rw [hc.swap a b ha hb]; exact (swap_ne_gt_iff _).mpr e1
    have g2 : cmpKeys N getv keys d b ≠ .gt := by
      rw [hc.swap b d hb hd]; exact (swap_ne_gt_iff _).mpr e2
    have g3 := hc.trans d b a hd hb ha g2 g1
    rw [hc.swap a d ha hd] at g3
    have : cmpKeys N getv keys a d ≠ .lt := (swap_ne_gt_iff _).mp g3
    simpa using this

end
end PostAgg
