/-
Helper lemmas for C07, row part: the result row of a group (`fullRow`: aggregator row, template
evaluation, placeholder removal) shows exactly the relational row (`Spec.specRow`), the rewritten
HAVING predicate evaluated on it is the predicate over the group's aggregates, and no placeholder
or hidden column leaves the pipeline.  Core Lean only.
-/
import SsqlVerif.Proofs.PostAggList
set_option autoImplicit false
set_option linter.unusedVariables false
set_option linter.unusedSimpArgs false
set_option linter.unusedSectionVars false

namespace PostAgg
variable {ν : Type} (N : Num ν) [DecidableEq ν]

theorem numOf_optVal (o : Option ν) : numOf (some (optVal o)) = o := by cases o <;> rfl

/-! ### `wf` unpacked -/

theorem mem_of_contains {l : List Name} {n : Name} : l.contains n = true ↔ n ∈ l := by
  simp

theorem nodupNames_iff (l : List Name) : nodupNames l = true ↔ l.Nodup := by
  induction l with
  | nil => simp [nodupNames]
  | cons x xs ih => simp [nodupNames, ih, List.nodup_cons]

theorem wf_names (q : Query ν) (h : wf q = true) : (q.gcol :: q.items.map (·.1)).Nodup := by
  simp only [wf, Bool.and_eq_true] at h
  exact (nodupNames_iff _).mp h.1

theorem wf_noRef (q : Query ν) (h : wf q = true) : ∀ it ∈ q.items, noRef it.2 = true := by
  simp only [wf, Bool.and_eq_true, List.all_eq_true] at h
  exact h.2

/-! ### `get`, `visible` -/

def cellVisible (kv : Key ν × Val ν) : Option (Name × Val ν) :=
  match kv.1 with
  | .col n => some (n, kv.2)
  | _ => none

theorem visible_eq (r : Row ν) : visible r = r.filterMap cellVisible := rfl

theorem visible_cons_col (n : Name) (v : Val ν) (r : Row ν) :
    visible ((Key.col n, v) :: r) = (n, v) :: visible r := rfl
theorem visible_cons_ph (f : AggFn) (a : Arg ν) (v : Val ν) (r : Row ν) :
    visible ((Key.ph f a, v) :: r) = visible r := rfl
theorem visible_cons_hv (f : AggFn) (a : Arg ν) (v : Val ν) (r : Row ν) :
    visible ((Key.hv f a, v) :: r) = visible r := rfl

theorem get_col_visible (n : Name) (r : Row ν) : get (.col n) r = lookupIn n (visible r) := by
  induction r with
  | nil => rfl
  | cons kv r ih =>
    obtain ⟨k, v⟩ := kv
    cases k with
    | col m =>
      rw [visible_cons_col]
      by_cases h : m = n
      · subst h; simp [get, lookupIn]
      · have h' : ¬ (Key.col m : Key ν) = Key.col n := fun e => h (Key.col.inj e)
        simp [get, lookupIn, h, h', ih]
    | ph f a =>
      rw [visible_cons_ph]
      simp [get, ih]
    | hv f a =>
      rw [visible_cons_hv]
      simp [get, ih]

theorem visible_filter_notPh (r : Row ν) :
    visible (r.filter (fun kv => !isPh kv.1)) = visible r := by
  induction r with
  | nil => rfl
  | cons kv r ih =>
    obtain ⟨k, v⟩ := kv
    cases k with
    | col m =>
      have : (!isPh (Key.col m : Key ν)) = true := rfl
      rw [List.filter_cons_of_pos (by simpa using this), visible_cons_col, visible_cons_col, ih]
    | ph f a =>
      have : ¬ ((!isPh (Key.ph f a : Key ν)) = true) := by simp [isPh]
      rw [List.filter_cons_of_neg (by simpa using this), visible_cons_ph, ih]
    | hv f a =>
      have : (!isPh (Key.hv f a : Key ν)) = true := rfl
      rw [List.filter_cons_of_pos (by simpa using this), visible_cons_hv, visible_cons_hv, ih]

theorem visible_stripHidden (r : Row ν) : visible (stripHidden r) = visible r := by
  unfold stripHidden
  induction r with
  | nil => rfl
  | cons kv r ih =>
    obtain ⟨k, v⟩ := kv
    cases k with
    | col m =>
      have : (!isHv (Key.col m : Key ν)) = true := rfl
      rw [List.filter_cons_of_pos (by simpa using this), visible_cons_col, visible_cons_col, ih]
    | ph f a =>
      have : (!isHv (Key.ph f a : Key ν)) = true := rfl
      rw [List.filter_cons_of_pos (by simpa using this), visible_cons_ph, visible_cons_ph, ih]
    | hv f a =>
      have : ¬ ((!isHv (Key.hv f a : Key ν)) = true) := by simp [isHv]
      rw [List.filter_cons_of_neg (by simpa using this), visible_cons_hv, ih]

theorem get_some_mem (k : Key ν) (r : Row ν) (h : ∃ v, (k, v) ∈ r) :
    ∃ v, get k r = some v ∧ (k, v) ∈ r := by
  induction r with
  | nil => obtain ⟨v, hv⟩ := h; simp at hv
  | cons kv r ih =>
    obtain ⟨k', v'⟩ := kv
    by_cases hk : k' = k
    · subst hk; exact ⟨v', by simp [get], by simp⟩
    · obtain ⟨v, hv⟩ := h
      have : (k, v) ∈ r := by
        rcases List.mem_cons.mp hv with e | e
        · exact absurd (Prod.mk.inj e).1.symm hk
        · exact e
      obtain ⟨w, hw1, hw2⟩ := ih ⟨v, this⟩
      exact ⟨w, by simp [get, hk, hw1], by simp [hw2]⟩

/-! ### every placeholder / hidden cell holds its call's aggregate -/

def CellOK (rows : List (InRow ν)) (kv : Key ν × Val ν) : Prop :=
  match kv.1 with
  | .col _ => True
  | .ph f a => kv.2 = optVal (aggEval N f a rows)
  | .hv f a => kv.2 = optVal (aggEval N f a rows)

theorem get_ph_of_ok (rows : List (InRow ν)) (r : Row ν) (hr : ∀ kv ∈ r, CellOK N rows kv)
    (f : AggFn) (a : Arg ν) (hm : ∃ v, (Key.ph f a, v) ∈ r) :
    get (.ph f a) r = some (optVal (aggEval N f a rows)) := by
  obtain ⟨v, hv1, hv2⟩ := get_some_mem _ r hm
  have := hr _ hv2
  simp only [CellOK] at this
  rw [hv1, this]

theorem get_hv_of_ok (rows : List (InRow ν)) (r : Row ν) (hr : ∀ kv ∈ r, CellOK N rows kv)
    (f : AggFn) (a : Arg ν) (hm : ∃ v, (Key.hv f a, v) ∈ r) :
    get (.hv f a) r = some (optVal (aggEval N f a rows)) := by
  obtain ⟨v, hv1, hv2⟩ := get_some_mem _ r hm
  have := hr _ hv2
  simp only [CellOK] at this
  rw [hv1, this]

theorem itemCells_ok (g : Group ν) (it : Name × Expr ν) : ∀ kv ∈ itemCells N g it, CellOK N g.rows kv := by
  intro kv hkv
  unfold itemCells at hkv
  cases h : it.2 with
  | agg f a =>
    simp only [h, List.mem_singleton] at hkv
    subst hkv; simp [aggCell, CellOK]
  | lit x =>
    simp only [h, List.mem_cons, List.mem_map] at hkv
    rcases hkv with rfl | ⟨c, _, rfl⟩
    · simp [CellOK]
    · simp [aggCell, CellOK]
  | bin o l r =>
    simp only [h, List.mem_cons, List.mem_map] at hkv
    rcases hkv with rfl | ⟨c, _, rfl⟩
    · simp [CellOK]
    · simp [aggCell, CellOK]
  | ref n =>
    simp only [h, List.mem_cons, List.mem_map] at hkv
    rcases hkv with rfl | ⟨c, _, rfl⟩
    · simp [CellOK]
    · simp [aggCell, CellOK]

theorem aggRow_ok (q : Query ν) (g : Group ν) : ∀ kv ∈ aggRow N q g, CellOK N g.rows kv := by
  intro kv hkv
  simp only [aggRow, List.mem_cons, List.mem_append, List.mem_flatMap, List.mem_map] at hkv
  rcases hkv with rfl | ⟨it, _, h⟩ | ⟨c, _, rfl⟩
  · simp [CellOK]
  · exact itemCells_ok N g it kv h
  · simp [aggCell, CellOK]

/-! ### `postExprFor` -/

theorem postExprFor_ph (items : List (Name × Expr ν)) (f : AggFn) (a : Arg ν) :
    postExprFor items (.ph f a) = none := by
  induction items with
  | nil => rfl
  | cons it its ih => simp [postExprFor, ih]

theorem postExprFor_hv (items : List (Name × Expr ν)) (f : AggFn) (a : Arg ν) :
    postExprFor items (.hv f a) = none := by
  induction items with
  | nil => rfl
  | cons it its ih => simp [postExprFor, ih]

theorem postExprFor_not_mem (items : List (Name × Expr ν)) (n : Name) (h : n ∉ items.map (·.1)) :
    postExprFor items (.col n) = none := by
  induction items with
  | nil => rfl
  | cons it its ih =>
    simp only [List.map_cons, List.mem_cons, not_or] at h
    have hne : ¬ (Key.col it.1 : Key ν) = Key.col n := fun e => h.1 (Key.col.inj e).symm
    simp [postExprFor, hne, ih h.2]

theorem postExprFor_mem (items : List (Name × Expr ν)) (hn : (items.map (·.1)).Nodup) (n : Name) (e : Expr ν)
    (hm : (n, e) ∈ items) :
    postExprFor items (.col n) = if isPlain e then none else some e := by
  induction items with
  | nil => simp at hm
  | cons it its ih =>
    simp only [List.map_cons, List.nodup_cons] at hn
    rcases List.mem_cons.mp hm with rfl | hm'
    · by_cases hp : isPlain e = true
      · simp [postExprFor, hp, postExprFor_not_mem its n hn.1]
      · simp [postExprFor, hp]
    · have hne : it.1 ≠ n := by
        intro e1
        apply hn.1
        rw [e1]
        exact List.mem_map.mpr ⟨(n, e), hm', rfl⟩
      have hne' : ¬ (Key.col it.1 : Key ν) = Key.col n := fun e1 => hne (Key.col.inj e1)
      simp [postExprFor, hne', ih hn.2 hm']

/-! ### template evaluation = arithmetic on the aggregate values -/

theorem evalT_template (ar : Row ν) (rows : List (InRow ν)) (e : Expr ν)
    (hc : ∀ c ∈ calls e, get (.ph c.1 c.2) ar = some (optVal (aggEval N c.1 c.2 rows)))
    (hr : noRef e = true) :
    evalT N (template e) ar = Spec.exprVal N Spec.noEnv rows e := by
  induction e with
  | agg f a =>
    simp only [template, evalT, Spec.exprVal]
    rw [hc (f, a) (by simp [calls]), numOf_optVal]
  | lit x => rfl
  | bin o l r ihl ihr =>
    simp only [noRef, Bool.and_eq_true] at hr
    simp only [template, evalT, Spec.exprVal]
    rw [ihl (fun c h => hc c (by simp [calls, h])) hr.1, ihr (fun c h => hc c (by simp [calls, h])) hr.2]
  | ref n => simp [noRef] at hr

theorem evalT_templateH (fr : Row ν) (rows : List (InRow ν)) (env : Name → Option (Val ν)) (e : Expr ν)
    (hc : ∀ c ∈ calls e, get (.hv c.1 c.2) fr = some (optVal (aggEval N c.1 c.2 rows)))
    (henv : ∀ n, get (.col n) fr = env n) :
    evalT N (templateH e) fr = Spec.exprVal N env rows e := by
  induction e with
  | agg f a =>
    simp only [templateH, evalT, Spec.exprVal]
    rw [hc (f, a) (by simp [calls]), numOf_optVal]
  | lit x => rfl
  | bin o l r ihl ihr =>
    simp only [templateH, evalT, Spec.exprVal]
    rw [ihl (fun c h => hc c (by simp [calls, h])), ihr (fun c h => hc c (by simp [calls, h]))]
  | ref n => simp only [templateH, evalT, Spec.exprVal, henv]

theorem evalTP_templateP (fr : Row ν) (rows : List (InRow ν)) (env : Name → Option (Val ν)) (p : Pred ν)
    (hc : ∀ c ∈ predCalls p, get (.hv c.1 c.2) fr = some (optVal (aggEval N c.1 c.2 rows)))
    (henv : ∀ n, get (.col n) fr = env n) :
    evalTP N (templateP p) fr = Spec.predVal N env rows p := by
  induction p with
  | cmp c l r =>
    simp only [templateP, evalTP, Spec.predVal]
    rw [evalT_templateH N fr rows env l (fun c h => hc c (by simp [predCalls, h])) henv,
        evalT_templateH N fr rows env r (fun c h => hc c (by simp [predCalls, h])) henv]
  | and p q ihp ihq =>
    simp only [templateP, evalTP, Spec.predVal]
    rw [ihp (fun c h => hc c (by simp [predCalls, h])), ihq (fun c h => hc c (by simp [predCalls, h]))]
  | or p q ihp ihq =>
    simp only [templateP, evalTP, Spec.predVal]
    rw [ihp (fun c h => hc c (by simp [predCalls, h])), ihq (fun c h => hc c (by simp [predCalls, h]))]

/-! ### the visible part of a group's result row -/

theorem mem_aggRow_ph (q : Query ν) (g : Group ν) (it : Name × Expr ν) (hit : it ∈ q.items)
    (hp : isPlain it.2 = false) (c : AggFn × Arg ν) (hc : c ∈ calls it.2) :
    ∃ v, (Key.ph c.1 c.2, v) ∈ aggRow N q g := by
  refine ⟨optVal (aggEval N c.1 c.2 g.rows), ?_⟩
  simp only [aggRow, List.mem_cons, List.mem_append, List.mem_flatMap]
  right; left
  refine ⟨it, hit, ?_⟩
  unfold itemCells
  cases h : it.2 with
  | agg f a => simp [h, isPlain] at hp
  | lit x => rw [h] at hc; simp [calls] at hc
  | bin o l r =>
    simp only [List.mem_cons, List.mem_map]
    right
    exact ⟨c, by rw [h] at hc; exact hc, rfl⟩
  | ref n => rw [h] at hc; simp [calls] at hc

/-- cells of one item after template evaluation, seen through `visible` -/
theorem item_visible (q : Query ν) (hq : wf q = true) (g : Group ν) (it : Name × Expr ν) (hit : it ∈ q.items) :
    ((itemCells N g it).map (postCell N q (aggRow N q g))).filterMap cellVisible
      = [(it.1, optVal (Spec.exprVal N Spec.noEnv g.rows it.2))] := by
  have hnd := (List.nodup_cons.mp (wf_names q hq)).2
  have hpe := postExprFor_mem q.items hnd it.1 it.2 hit
  have hphcell : ∀ (c : AggFn × Arg ν), postCell N q (aggRow N q g) (aggCell N g (.ph c.1 c.2) c)
      = aggCell N g (.ph c.1 c.2) c := by
    intro c; simp [postCell, aggCell, postExprFor_ph]
  unfold itemCells
  cases h : it.2 with
  | agg f a =>
    rw [h] at hpe
    simp only [isPlain, if_true] at hpe
    simp [postCell, aggCell, hpe, cellVisible, Spec.exprVal]
  | lit x =>
    rw [h] at hpe
    simp only [isPlain, Bool.false_eq_true, if_false] at hpe
    simp [postCell, hpe, cellVisible, calls, template, evalT, Spec.exprVal]
  | ref n =>
    have := wf_noRef q hq it hit
    rw [h] at this
    simp [noRef] at this
  | bin o l r =>
    rw [h] at hpe
    simp only [isPlain, Bool.false_eq_true, if_false] at hpe
    have hev : evalT N (template (.bin o l r)) (aggRow N q g) = Spec.exprVal N Spec.noEnv g.rows (.bin o l r) := by
      apply evalT_template
      · intro c hc
        apply get_ph_of_ok N g.rows _ (aggRow_ok N q g)
        exact mem_aggRow_ph N q g it hit (by rw [h]; rfl) c (by rw [h]; exact hc)
      · have := wf_noRef q hq it hit
        rw [h] at this
        exact this
    have h1 : cellVisible (postCell N q (aggRow N q g) (Key.col it.1, Val.null))
        = some (it.1, optVal (Spec.exprVal N Spec.noEnv g.rows (.bin o l r))) := by
      simp [postCell, hpe, cellVisible, hev]
    rw [List.map_cons, List.filterMap_cons_some h1]
    congr 1
    apply List.filterMap_eq_nil_iff.mpr
    intro kv hkv
    obtain ⟨kv', hkv', rfl⟩ := List.mem_map.mp hkv
    obtain ⟨c, _, rfl⟩ := List.mem_map.mp hkv'
    rw [hphcell]
    rfl

theorem items_visible (q : Query ν) (hq : wf q = true) (g : Group ν) (its : List (Name × Expr ν))
    (hsub : ∀ it ∈ its, it ∈ q.items) :
    ((its.flatMap (itemCells N g)).map (postCell N q (aggRow N q g))).filterMap cellVisible
      = its.map (fun it => (it.1, optVal (Spec.exprVal N Spec.noEnv g.rows it.2))) := by
  induction its with
  | nil => rfl
  | cons it its ih =>
    simp only [List.flatMap_cons, List.map_append, List.filterMap_append, List.map_cons]
    rw [item_visible N q hq g it (hsub it (by simp)), ih (fun x hx => hsub x (by simp [hx]))]
    rfl

theorem aggRow_map {β : Type} (q : Query ν) (g : Group ν) (pc : Key ν × Val ν → β) :
    (aggRow N q g).map pc = pc (Key.col q.gcol, g.key) ::
      ((q.items.flatMap (itemCells N g)).map pc ++
        ((havingCalls q.having).map (fun c => aggCell N g (.hv c.1 c.2) c)).map pc) := by
  simp [aggRow]

/-- the group's result row shows exactly the relational row -/
theorem visible_fullRow (q : Query ν) (hq : wf q = true) (g : Group ν) :
    visible (fullRow N q g) = Spec.specRow N q g := by
  unfold fullRow postProcess
  rw [visible_filter_notPh, visible_eq]
  have hg : q.gcol ∉ q.items.map (·.1) := (List.nodup_cons.mp (wf_names q hq)).1
  have h1 : cellVisible (postCell N q (aggRow N q g) (Key.col q.gcol, g.key)) = some (q.gcol, g.key) := by
    simp [postCell, postExprFor_not_mem q.items q.gcol hg, cellVisible]
  have h3 : ((List.map (fun c => aggCell N g (Key.hv c.1 c.2) c) (havingCalls q.having)).map
      (postCell N q (aggRow N q g))).filterMap cellVisible = [] := by
    apply List.filterMap_eq_nil_iff.mpr
    intro kv hkv
    obtain ⟨kv', hkv', rfl⟩ := List.mem_map.mp hkv
    obtain ⟨c, _, rfl⟩ := List.mem_map.mp hkv'
    simp [postCell, aggCell, postExprFor_hv, cellVisible]
  rw [aggRow_map, List.filterMap_cons_some h1, List.filterMap_append, h3,
    items_visible N q hq g q.items (fun _ h => h), List.append_nil]
  rfl

/-! ### cells of the full row -/

theorem fullRow_ok (q : Query ν) (g : Group ν) : ∀ kv ∈ fullRow N q g, CellOK N g.rows kv := by
  intro kv hkv
  simp only [fullRow, postProcess, List.mem_filter, List.mem_map] at hkv
  obtain ⟨⟨kv0, h0, rfl⟩, _⟩ := hkv
  have ok0 := aggRow_ok N q g kv0 h0
  obtain ⟨k, v⟩ := kv0
  cases k with
  | col n =>
    simp only [postCell]
    cases postExprFor q.items (Key.col n) <;> simp [CellOK]
  | ph f a => simpa [postCell, postExprFor_ph] using ok0
  | hv f a => simpa [postCell, postExprFor_hv] using ok0

theorem mem_fullRow_hv (q : Query ν) (g : Group ν) (c : AggFn × Arg ν) (hc : c ∈ havingCalls q.having) :
    ∃ v, (Key.hv c.1 c.2, v) ∈ fullRow N q g := by
  refine ⟨optVal (aggEval N c.1 c.2 g.rows), ?_⟩
  simp only [fullRow, postProcess, List.mem_filter, List.mem_map]
  refine ⟨⟨aggCell N g (.hv c.1 c.2) c, ?_, ?_⟩, by simp [isPh]⟩
  · simp only [aggRow, List.mem_cons, List.mem_append, List.mem_map]
    right; right
    exact ⟨c, hc, rfl⟩
  · simp [postCell, aggCell, postExprFor_hv]

/-- HAVING on the result row = the predicate over the group's aggregates and output columns -/
theorem havingKeep_fullRow (q : Query ν) (hq : wf q = true) (g : Group ν) (p : Pred ν) (hp : q.having = some p) :
    havingKeep N p (fullRow N q g) = Spec.specHaving N q g := by
  unfold havingKeep Spec.specHaving
  rw [hp]
  simp only
  rw [evalTP_templateP N (fullRow N q g) g.rows (fun n => lookupIn n (Spec.specRow N q g)) p]
  · intro c hc
    apply get_hv_of_ok N g.rows _ (fullRow_ok N q g)
    apply mem_fullRow_hv
    rw [hp]; exact hc
  · intro n
    rw [get_col_visible, visible_fullRow N q hq g]

/-! ### no placeholder or hidden column after the HAVING stage -/

theorem allVisible_iff (r : Row ν) : allVisible r = true ↔ ∀ kv ∈ r, isPh kv.1 = false ∧ isHv kv.1 = false := by
  unfold allVisible
  rw [List.all_eq_true]
  constructor
  · intro h kv hkv
    have := h kv hkv
    obtain ⟨k, v⟩ := kv
    cases k <;> simp_all [isPh, isHv]
  · intro h kv hkv
    have := h kv hkv
    obtain ⟨k, v⟩ := kv
    cases k <;> simp_all [isPh, isHv]

theorem fullRow_noPh (q : Query ν) (g : Group ν) : ∀ kv ∈ fullRow N q g, isPh kv.1 = false := by
  intro kv hkv
  simp only [fullRow, postProcess, List.mem_filter] at hkv
  simpa using hkv.2

theorem fullRow_hv_none (q : Query ν) (g : Group ν) (hh : q.having = none) :
    ∀ kv ∈ fullRow N q g, isHv kv.1 = false := by
  intro kv hkv
  simp only [fullRow, postProcess, List.mem_filter, List.mem_map] at hkv
  obtain ⟨⟨kv0, h0, rfl⟩, _⟩ := hkv
  have hk : (postCell N q (aggRow N q g) kv0).1 = kv0.1 := by
    unfold postCell; cases postExprFor q.items kv0.1 <;> rfl
  rw [hk]
  simp only [aggRow, hh, havingCalls, List.map_nil, List.append_nil, List.mem_cons, List.mem_flatMap] at h0
  rcases h0 with rfl | ⟨it, _, h⟩
  · rfl
  · unfold itemCells at h
    cases he : it.2 with
    | agg f a =>
      simp only [he, List.mem_singleton] at h
      subst h; rfl
    | lit x =>
      simp only [he, List.mem_cons, List.mem_map] at h
      rcases h with rfl | ⟨c, _, rfl⟩ <;> rfl
    | bin o l r =>
      simp only [he, List.mem_cons, List.mem_map] at h
      rcases h with rfl | ⟨c, _, rfl⟩ <;> rfl
    | ref n =>
      simp only [he, List.mem_cons, List.mem_map] at h
      rcases h with rfl | ⟨c, _, rfl⟩ <;> rfl

theorem havingStage_allVisible (q : Query ν) (rows : List (Row ν))
    (hrows : ∀ r ∈ rows, ∃ g, r = fullRow N q g) :
    ∀ r ∈ havingStage N q.having rows, allVisible r = true := by
  intro r hr
  cases hh : q.having with
  | none =>
    rw [hh] at hr
    simp only [havingStage] at hr
    obtain ⟨g, rfl⟩ := hrows r hr
    exact (allVisible_iff _).mpr (fun kv hkv => ⟨fullRow_noPh N q g kv hkv, fullRow_hv_none N q g hh kv hkv⟩)
  | some p =>
    rw [hh] at hr
    simp only [havingStage, List.mem_map, List.mem_filter] at hr
    obtain ⟨r0, ⟨hr0, _⟩, rfl⟩ := hr
    obtain ⟨g, rfl⟩ := hrows r0 hr0
    apply (allVisible_iff _).mpr
    intro kv hkv
    simp only [stripHidden, List.mem_filter] at hkv
    exact ⟨fullRow_noPh N q g kv hkv.1, by simpa using hkv.2⟩

end PostAgg
