/-
C17 helper lemmas, part 1: running accumulators compute the list aggregates of the specification;
the engine's predicate evaluation against a positional environment equals evaluation by aggregate
call; where it coincides with SQL three-valued logic.
-/
import SsqlVerif.Model.Global
import SsqlVerif.Spec.Global
set_option autoImplicit false

namespace Global
open Spec

variable {α κ φ ε ν : Type}

/-! ### accumulators -/

/-- the accumulator after feeding the cells `cs` to a fresh instance -/
def accCells [Num ν] (fn : AggFn) (cs : List (Cell ν)) : Acc ν := cs.foldl (Acc.feed fn) Acc.init

theorem foldl_onNum (f : Acc ν → ν → Acc ν) (cs : List (Cell ν)) (a : Acc ν) :
    cs.foldl (onNum f) a = (nums cs).foldl f a := by
  induction cs generalizing a with
  | nil => rfl
  | cons c cs ih =>
    cases c <;> simp [nums, onNum, Cell.num?, List.filterMap_cons] at * <;> exact ih _

theorem foldl_feedCount_n (cs : List (Cell ν)) (a : Acc ν) :
    (cs.foldl feedCount a).n = a.n + (cs.filter fun c => !c.isNil).length := by
  induction cs generalizing a with
  | nil => simp
  | cons c cs ih =>
    simp only [List.foldl_cons, List.filter_cons]
    rw [ih]
    cases h : c.isNil <;> simp [feedCount, h] <;> omega

theorem foldl_feedSum [Num ν] (xs : List ν) (a : Acc ν) :
    (xs.foldl feedSumNum a).s = xs.foldl Num.add a.s ∧
    (xs.foldl feedSumNum a).has = (a.has || !xs.isEmpty) := by
  induction xs generalizing a with
  | nil => simp
  | cons x xs ih =>
    simp only [List.foldl_cons]
    have := ih (feedSumNum a x)
    simp [feedSumNum] at this ⊢
    exact this

theorem foldl_feedAvg [Num ν] (xs : List ν) (a : Acc ν) :
    (xs.foldl feedAvgNum a).s = xs.foldl Num.add a.s ∧
    (xs.foldl feedAvgNum a).n = a.n + xs.length := by
  induction xs generalizing a with
  | nil => simp
  | cons x xs ih =>
    simp only [List.foldl_cons]
    have := ih (feedAvgNum a x)
    simp [feedAvgNum] at this ⊢
    constructor
    · exact this.1
    · omega

theorem foldl_feedMin_has [Num ν] (xs : List ν) (n : Nat) (m : ν) :
    xs.foldl feedMinNum ⟨n, m, true⟩ = ⟨n, xs.foldl (fun m y => if Num.lt y m then y else m) m, true⟩ := by
  induction xs generalizing m with
  | nil => rfl
  | cons x xs ih =>
    simp only [List.foldl_cons]
    cases h : Num.lt x m
    · simp [feedMinNum, h]; exact ih m
    · simp [feedMinNum, h]; exact ih x

theorem foldl_feedMax_has [Num ν] (xs : List ν) (n : Nat) (m : ν) :
    xs.foldl feedMaxNum ⟨n, m, true⟩ = ⟨n, xs.foldl (fun m y => if Num.lt m y then y else m) m, true⟩ := by
  induction xs generalizing m with
  | nil => rfl
  | cons x xs ih =>
    simp only [List.foldl_cons]
    cases h : Num.lt m x
    · simp [feedMaxNum, h]; exact ih m
    · simp [feedMaxNum, h]; exact ih x

/-- the running aggregate over the cells `cs` is the list aggregate of the specification -/
theorem result_accCells [Num ν] (fn : AggFn) (cs : List (Cell ν)) :
    Acc.result fn (accCells fn cs) = aggList fn cs := by
  cases fn with
  | count =>
    simp [accCells, Acc.feed, Acc.result, aggList, foldl_feedCount_n, Acc.init]
  | sum =>
    simp only [accCells, Acc.feed, Acc.result, aggList, foldl_onNum, hasResult]
    have := foldl_feedSum (nums cs) (Acc.init : Acc ν)
    rw [this.1, this.2]
    cases h : (nums cs).isEmpty <;> simp [Acc.init, sumL]
  | avg =>
    simp only [accCells, Acc.feed, Acc.result, aggList, foldl_onNum, avgResult]
    have := foldl_feedAvg (nums cs) (Acc.init : Acc ν)
    rw [this.1, this.2]
    cases h : nums cs with
    | nil => simp [Acc.init]
    | cons x xs => simp [Acc.init, sumL]
  | min =>
    simp only [accCells, Acc.feed, Acc.result, aggList, foldl_onNum]
    cases h : nums cs with
    | nil => simp [Acc.init, hasResult, extL]
    | cons x xs =>
      simp only [List.foldl_cons, extL]
      have : feedMinNum (Acc.init : Acc ν) x = ⟨0, x, true⟩ := by simp [feedMinNum, Acc.init]
      rw [this, foldl_feedMin_has]
      simp [hasResult]
  | max =>
    simp only [accCells, Acc.feed, Acc.result, aggList, foldl_onNum]
    cases h : nums cs with
    | nil => simp [Acc.init, hasResult, extL]
    | cons x xs =>
      simp only [List.foldl_cons, extL]
      have : feedMaxNum (Acc.init : Acc ν) x = ⟨0, x, true⟩ := by simp [feedMaxNum, Acc.init]
      rw [this, foldl_feedMax_has]
      simp [hasResult]

theorem accCells_snoc [Num ν] (fn : AggFn) (cs : List (Cell ν)) (c : Cell ν) :
    accCells fn (cs ++ [c]) = (accCells fn cs).feed fn c := by
  simp [accCells, List.foldl_append]

/-! ### predicate evaluation -/

/-- evaluating against the positional environment built from `f` is evaluating by aggregate call -/
theorem evalWith_map [Num ν] (p : Pred φ ν) (f : AggCall φ → Option ν) :
    evalWith p (p.leaves.map f) = evalDirect p f := by
  induction p with
  | cmp c op lit => simp [Pred.leaves, evalWith, evalDirect]
  | and l r ihl ihr =>
    simp only [Pred.leaves, evalWith, evalDirect, List.map_append]
    rw [List.take_left' (by simp), List.drop_left' (by simp), ihl, ihr]
  | or l r ihl ihr =>
    simp only [Pred.leaves, evalWith, evalDirect, List.map_append]
    rw [List.take_left' (by simp), List.drop_left' (by simp), ihl, ihr]

/-- the engine's verdict on the aggregates of `seg` -/
def engineTrue [DecidableEq φ] [Num ν] (p : Pred φ ν) (seg : List (Row κ φ ν)) : Bool :=
  evalDirect p (fun c => aggOf c seg) = .ok true

theorem combAnd_ok_true (a b : Res) : combAnd a b = .ok true ↔ a = .ok true ∧ b = .ok true := by
  cases a with
  | err => simp [combAnd]
  | ok x => cases x <;> simp [combAnd]

theorem and3_true (a b : Option Bool) : and3 a b = some true ↔ a = some true ∧ b = some true := by
  cases a with
  | none => cases b with
    | none => simp [and3]
    | some y => cases y <;> simp [and3]
  | some x => cases x <;> cases b with
    | none => simp [and3]
    | some y => cases y <;> simp [and3]

/-- with every mentioned aggregate non-NULL, the engine computes the two-valued truth value -/
theorem evalDirect_nonNull [DecidableEq φ] [Num ν] (seg : List (Row κ φ ν)) (p : Pred φ ν)
    (h : ∀ c ∈ p.leaves, (aggOf c seg).isSome) :
    ∃ b, evalDirect p (fun c => aggOf c seg) = .ok b ∧ holds3 seg p = some b := by
  induction p with
  | cmp c op lit =>
    have hc := h c (by simp [Pred.leaves])
    cases hv : aggOf c seg with
    | none => simp [hv] at hc
    | some x => exact ⟨cmpNum op x lit, by simp [evalDirect, evalLeaf, hv], by simp [holds3, hv]⟩
  | and l r ihl ihr =>
    obtain ⟨a, ha1, ha2⟩ := ihl (fun c hc => h c (by simp [Pred.leaves, hc]))
    obtain ⟨b, hb1, hb2⟩ := ihr (fun c hc => h c (by simp [Pred.leaves, hc]))
    refine ⟨a && b, ?_, ?_⟩
    · simp only [evalDirect, ha1, hb1]; cases a <;> cases b <;> rfl
    · simp only [holds3, ha2, hb2]; cases a <;> cases b <;> rfl
  | or l r ihl ihr =>
    obtain ⟨a, ha1, ha2⟩ := ihl (fun c hc => h c (by simp [Pred.leaves, hc]))
    obtain ⟨b, hb1, hb2⟩ := ihr (fun c hc => h c (by simp [Pred.leaves, hc]))
    refine ⟨a || b, ?_, ?_⟩
    · simp only [evalDirect, ha1, hb1]; cases a <;> cases b <;> rfl
    · simp only [holds3, ha2, hb2]; cases a <;> cases b <;> rfl

/-- a conjunction without `!=`: an aborted or false evaluation is exactly "not TRUE" in SQL -/
theorem evalDirect_conj [DecidableEq φ] [Num ν] (seg : List (Row κ φ ν)) (p : Pred φ ν)
    (h : conjNoNe p = true) :
    evalDirect p (fun c => aggOf c seg) = .ok true ↔ holds3 seg p = some true := by
  induction p with
  | cmp c op lit =>
    simp only [conjNoNe, decide_eq_true_eq] at h
    cases hv : aggOf c seg with
    | none => cases op <;> simp_all [evalDirect, evalLeaf, evalNullCmp, holds3]
    | some x => simp [evalDirect, evalLeaf, holds3, hv]
  | and l r ihl ihr =>
    simp only [conjNoNe, Bool.and_eq_true] at h
    simp only [evalDirect, holds3, combAnd_ok_true, and3_true, ihl h.1, ihr h.2]
  | or l r _ _ => simp [conjNoNe] at h

/-- at a null-safe evaluation point the engine's evaluator and SQL three-valued logic agree -/
theorem engineTrue_eq_predTrue [DecidableEq φ] [Num ν] (p : Pred φ ν) (seg : List (Row κ φ ν))
    (h : pointSafe p seg = true) : engineTrue p seg = predTrue p seg := by
  simp only [pointSafe, Bool.or_eq_true] at h
  cases h with
  | inl h =>
    simp only [allNonNull, List.all_eq_true] at h
    obtain ⟨b, hb1, hb2⟩ := evalDirect_nonNull seg p h
    simp only [engineTrue, predTrue, hb1, hb2]
    cases b <;> simp
  | inr h =>
    have := evalDirect_conj seg p h
    simp only [engineTrue, predTrue]
    by_cases hh : evalDirect p (fun c => aggOf c seg) = .ok true
    · simp [hh, this.1 hh]
    · have h2 : ¬ holds3 seg p = some true := fun h3 => hh (this.2 h3)
      simp [hh, h2]

end Global
